(* Proofs for C15.
   1. parse (pr t) = Some (canon t): the fuelled recursive-descent model reads the
      canonical text of every tree outside class K2 into the tree `canon t`
      (induction on t; the three folded layers are handled once, generically).
   2. aeval (canon t) = eval_nodes t outside class K1 (the right-nested and/or
      chain has the value of the left-nested one).
   3. on a small operand set rsass's per-node operators agree with the reference
      outside class K4 (finite sweep), hence the main theorem. *)
From Coq Require Import List NArith ZArith Bool Lia Arith.PeanoNat.
From Flocq Require Import Core.Core IEEE754.BinarySingleNaN IEEE754.Binary IEEE754.Bits.
From RV Require Import Base.F64 Base.FMod Base.ListX Spec.SassExpr Model.ExprParse Model.ExprEval Model.ExprTie Run.C15.
Import ListNotations.
Local Open Scope nat_scope.

(* ---------- lengths: every parser returns a suffix no longer than its input ---------- *)
Definition rec_ok (rec : list tok -> pres) : Prop :=
  forall ts a r, rec ts = POk a r -> length r <= length ts.
Definition consumes (p : list tok -> pres) : Prop :=
  forall ts a r, p ts = POk a r -> length r < length ts.

Lemma p_single_len rec : rec_ok rec -> consumes (p_single rec).
Proof.
  intros Hr ts. induction ts as [|k ts IH]; intros a r H; cbn [p_single] in H; [discriminate|].
  destruct k; try discriminate.
  - inversion H; subst; cbn; lia.
  - inversion H; subst; cbn; lia.
  - inversion H; subst; cbn; lia.
  - destruct (rec ts) as [e r0| |] eqn:E; try discriminate.
    destruct r0 as [|k0 r1]; try discriminate. destruct k0; try discriminate.
    inversion H; subst. apply Hr in E. cbn in *. lia.
  - destruct (p_single rec ts) as [v r0| |] eqn:E; try discriminate.
    specialize (IH _ _ eq_refl). inversion H; subst. cbn. lia.
  - destruct (p_single rec ts) as [v r0| |] eqn:E; try discriminate.
    specialize (IH _ _ eq_refl). inversion H; subst. cbn. lia.
Qed.

Lemma loop_len isop sub : consumes sub ->
  forall n acc ts a r, loop isop sub n acc ts = POk a r -> length r <= length ts.
Proof.
  intros Hs n. induction n as [|n IH]; intros acc ts a r H; cbn [loop] in H; [discriminate|].
  destruct ts as [|k ts']; [inversion H; subst; lia|].
  destruct k; try (inversion H; subst; lia).
  destruct (isop o); [|inversion H; subst; lia].
  destruct (sub ts') as [b r0| |] eqn:E; try discriminate.
  - apply IH in H. apply Hs in E. cbn. lia.
  - inversion H; subst. lia.
Qed.

Lemma p_level_len isop sub : consumes sub -> consumes (p_level isop sub).
Proof.
  intros Hs ts a r H. unfold p_level in H.
  destruct (sub ts) as [v r0| |] eqn:E; try discriminate.
  apply (loop_len _ _ Hs) in H. apply Hs in E. lia.
Qed.

Lemma loop_irrel isop sub : consumes sub ->
  forall n m acc ts, length ts < n -> length ts < m -> loop isop sub n acc ts = loop isop sub m acc ts.
Proof.
  intros Hs n. induction n as [|n IH]; intros m acc ts Hn Hm; [lia|].
  destruct m as [|m]; [lia|]. cbn [loop].
  destruct ts as [|k ts']; auto. destruct k; auto. destruct (isop o); auto.
  destruct (sub ts') as [b r0| |] eqn:E; auto.
  apply Hs in E. cbn in *. apply IH; lia.
Qed.

(* ---------- the three folded layers, generically ---------- *)
Definition ops_of (d : nat) : binop -> bool :=
  match d with 1 => is_prod | 2 => is_sum | 3 => is_rel | _ => fun _ => false end.
Fixpoint p_at (rec : list tok -> pres) (d : nat) : list tok -> pres :=
  match d with
  | O => p_single rec
  | S d' => p_level (ops_of (S d')) (p_at rec d')
  end.
Lemma p_logic_at rec : p_logic rec = p_at rec 3.
Proof. reflexivity. Qed.

Lemma p_at_len rec d : rec_ok rec -> consumes (p_at rec d).
Proof.
  intros Hr. induction d; cbn [p_at]. apply p_single_len; auto. apply p_level_len; auto.
Qed.

(* rsass layer of an operator: 1 = any_product ... 4 = single_expression *)
Definition rl (o : binop) : nat :=
  match o with
  | BMul | BMod => 1 | BPlus | BMinus => 2
  | BEq | BNe | BLt | BLe | BGt | BGe => 3 | BOr | BAnd => 4
  end.
Lemma ops_of_rl d o : ops_of d o = Nat.eqb (rl o) d && Nat.leb d 3.
Proof.
  destruct d as [|[|[|[|d]]]]; destruct o; try reflexivity; cbn; rewrite ?andb_false_r; reflexivity.
Qed.

(* continue with the folds of layers j..d on an already parsed left operand *)
Fixpoint cf (rec : list tok -> pres) (j d : nat) (acc : ast) (ts : list tok) : pres :=
  match d with
  | O => POk acc ts
  | S d' =>
      if Nat.ltb (S d') j then POk acc ts else
      match cf rec j d' acc ts with
      | POk a r => loop (ops_of (S d')) (p_at rec d') (S (length r)) a r
      | x => x
      end
  end.
Definition cont rec d := cf rec 1 d.

Lemma p_at_cont rec d ts :
  p_at rec d ts = match p_single rec ts with POk a r => cont rec d a r | x => x end.
Proof.
  induction d; cbn [p_at].
  - destruct (p_single rec ts); reflexivity.
  - unfold p_level. rewrite IHd. destruct (p_single rec ts) as [a r| |]; try reflexivity.
Qed.

Definition follow (j : nat) (ts : list tok) : Prop :=
  match ts with KOp o :: _ => j <= rl o | _ => True end.

Lemma cf_below rec j d acc ts : d < j -> cf rec j d acc ts = POk acc ts.
Proof.
  intros H. destruct d; cbn [cf]; auto.
  replace (Nat.ltb (S d) j) with true by (symmetry; apply Nat.ltb_lt; lia). reflexivity.
Qed.

Lemma loop_stop isop sub n acc ts :
  match ts with KOp o :: _ => isop o = false | _ => True end ->
  loop isop sub (S n) acc ts = POk acc ts.
Proof.
  intros H. cbn [loop]. destruct ts as [|k r]; auto. destruct k; auto. rewrite H. reflexivity.
Qed.

Lemma cf_skip rec j d acc ts : follow (S d) ts -> cf rec j d acc ts = POk acc ts.
Proof.
  induction d; intros H; cbn [cf]; auto.
  destruct (Nat.ltb (S d) j); auto.
  rewrite IHd. 2:{ unfold follow in *. destruct ts as [|[]]; auto. lia. }
  apply loop_stop. unfold follow in H. destruct ts as [|k r]; auto. destruct k; auto.
  rewrite ops_of_rl. apply andb_false_iff. left. apply Nat.eqb_neq. lia.
Qed.

Lemma cont_cf rec j d acc ts : follow j ts -> cont rec d acc ts = cf rec j d acc ts.
Proof.
  intros H. unfold cont. induction d; cbn [cf]; auto.
  change (Nat.ltb (S d) 1) with false. cbv iota.
  destruct (Nat.ltb (S d) j) eqn:E.
  - apply Nat.ltb_lt in E. fold (cont rec d acc ts).
    assert (F : follow (S (S d)) ts). { unfold follow in *. destruct ts as [|[]]; auto. lia. }
    change (cf rec 1 (S d) acc ts = POk acc ts). apply cf_skip; auto.
  - rewrite IHd. reflexivity.
Qed.

Lemma cf_S rec j d acc ts :
  cf rec j (S d) acc ts =
  if Nat.ltb (S d) j then POk acc ts else
  match cf rec j d acc ts with
  | POk a r => loop (ops_of (S d)) (p_at rec d) (S (length r)) a r
  | x => x
  end.
Proof. reflexivity. Qed.

Lemma loop_cons isop sub n acc o r :
  loop isop sub (S n) acc (KOp o :: r) =
  if isop o then
    match sub r with
    | POk b r' => loop isop sub n (ABin o acc b) r'
    | PFail => POk acc (KOp o :: r)
    | PFuel => PFuel
    end
  else POk acc (KOp o :: r).
Proof. reflexivity. Qed.

Lemma cf_step rec j d acc o r : rec_ok rec -> rl o = j -> 1 <= j -> j <= d -> d <= 3 ->
  cf rec j d acc (KOp o :: r) =
  match p_at rec (j - 1) r with
  | POk b r' => cf rec j d (ABin o acc b) r'
  | PFail => POk acc (KOp o :: r)
  | PFuel => PFuel
  end.
Proof.
  intros Hr Ho Hj Hd H3. induction d; [lia|].
  rewrite cf_S.
  assert (L : Nat.ltb (S d) j = false) by (apply Nat.ltb_ge; lia). rewrite L.
  destruct (Nat.eq_dec j (S d)) as [E|E].
  - (* the fold of layer j itself *)
    rewrite (cf_below rec j d) by lia.
    rewrite loop_cons. rewrite ops_of_rl. rewrite Ho, E, Nat.eqb_refl.
    assert (L3 : Nat.leb (S d) 3 = true) by (apply Nat.leb_le; lia). rewrite L3. cbn [andb].
    replace (S d - 1) with d by lia.
    destruct (p_at rec d r) as [b r'| |] eqn:P; auto.
    rewrite cf_S. rewrite Nat.ltb_irrefl. rewrite (cf_below rec (S d) d) by lia.
    apply loop_irrel. apply p_at_len; auto.
    apply (p_at_len rec d Hr) in P. cbn [length]. lia. lia.
  - rewrite IHd by lia.
    destruct (p_at rec (j - 1) r) as [b r'| |] eqn:P; auto.
    + rewrite cf_S. rewrite L. reflexivity.
    + apply loop_stop. rewrite ops_of_rl. apply andb_false_iff. left. apply Nat.eqb_neq. lia.
Qed.

(* ---------- single_expression ---------- *)
Lemma p_expr_S f ts :
  p_expr (S f) ts =
  match p_logic (p_expr f) ts with
  | POk a (KOp o :: r) =>
      if is_andor o then
        match p_expr f r with
        | POk b r' => POk (ABin o a b) r'
        | PFail => POk a (KOp o :: r)
        | PFuel => PFuel
        end
      else POk a (KOp o :: r)
  | x => x
  end.
Proof. reflexivity. Qed.

Lemma p_expr_ok f : rec_ok (p_expr f).
Proof.
  induction f as [|f IH]; intros ts a r H; [discriminate|].
  rewrite p_expr_S, p_logic_at in H.
  destruct (p_at (p_expr f) 3 ts) as [a0 r0| |] eqn:E; try discriminate.
  apply (p_at_len _ 3 IH) in E.
  destruct r0 as [|k r1]; [inversion H; subst; lia|].
  destruct k; try (inversion H; subst; lia).
  destruct (is_andor o); [|inversion H; subst; lia].
  destruct (p_expr f r1) as [b r'| |] eqn:E2; try discriminate.
  - apply IH in E2. inversion H; subst. cbn in *. lia.
  - inversion H; subst. lia.
Qed.

Definition good (ts : list tok) (a : ast) (r : list tok) : Prop :=
  forall f, length ts < f -> p_expr f ts = POk a r.
Definition closed (ts : list tok) : Prop := match ts with KOp _ :: _ => False | _ => True end.
Definition not_chain (a : ast) : Prop :=
  match a with ABin o _ _ => is_andor o = false | _ => True end.

(* what is known of a block of tokens W that the parser reads as A *)
Definition blockP1 (W : list tok) (A : ast) (j : nat) : Prop :=
  forall f d rest, j <= d -> d <= 3 -> length (W ++ rest) <= f -> follow j rest ->
    p_at (p_expr f) d (W ++ rest) = cont (p_expr f) d A rest.
Definition blockP2 (W : list tok) (A : ast) : Prop :=
  forall rest, closed rest -> good (W ++ rest) A rest.
Definition blockP3 (W : list tok) (A : ast) : Prop :=
  forall o rest2 b r', is_andor o = true -> good rest2 b r' ->
    good (W ++ KOp o :: rest2) (graft A o b) r'.

Lemma follow_mono j j' ts : j <= j' -> follow j' ts -> follow j ts.
Proof. unfold follow. destruct ts as [|[]]; auto. lia. Qed.
Lemma closed_follow j ts : closed ts -> follow j ts.
Proof. unfold closed, follow. destruct ts as [|[]]; auto. contradiction. Qed.
Lemma rl_andor o : is_andor o = true -> rl o = 4.
Proof. destruct o; cbn; congruence. Qed.
Lemma rl_le4 o : rl o <= 4.
Proof. destruct o; cbn; lia. Qed.

Lemma blockP1_weaken W A j j' : j <= j' -> blockP1 W A j -> blockP1 W A j'.
Proof.
  intros Hj H f d rest Hd H3 Hl Hf. apply H; auto. lia. eapply follow_mono; eauto.
Qed.

Lemma item_P2 W A j : j <= 3 -> blockP1 W A j -> blockP2 W A.
Proof.
  intros Hj H rest Hc f Hf. destruct f as [|f]; [lia|].
  rewrite p_expr_S, p_logic_at.
  rewrite (H f 3 rest) by (auto using closed_follow; lia).
  unfold cont. rewrite cf_skip by (apply closed_follow; auto).
  destruct rest as [|k r]; auto. destruct k; auto. contradiction.
Qed.

Lemma graft_item A o b : not_chain A -> graft A o b = ABin o A b.
Proof. destruct A; cbn; auto. intros ->. reflexivity. Qed.

Lemma item_P3 W A j : j <= 3 -> blockP1 W A j -> not_chain A -> blockP3 W A.
Proof.
  intros Hj H Hn o rest2 b r' Ho Hg f Hf. destruct f as [|f]; [lia|].
  rewrite app_length in Hf. cbn [length] in Hf.
  rewrite p_expr_S, p_logic_at.
  rewrite (H f 3 (KOp o :: rest2)).
  2: lia. 2: lia. 2: { rewrite app_length. cbn [length]. lia. }
  2: { cbn. rewrite (rl_andor o Ho). lia. }
  unfold cont. rewrite cf_skip by (cbn; rewrite (rl_andor o Ho); lia).
  rewrite Ho. rewrite (Hg f) by lia. rewrite graft_item; auto.
Qed.

Lemma paren_single W A f rest : blockP2 W A -> length (parens W ++ rest) <= f ->
  p_single (p_expr f) (parens W ++ rest) = POk (AParen A) rest.
Proof.
  intros H Hl. unfold parens in *. cbn [app] in *. rewrite <- app_assoc in *. cbn [app] in *.
  cbn [p_single]. rewrite (H (KRP :: rest) I f). reflexivity.
  cbn [length] in Hl. lia.
Qed.

Lemma single_P1 W A : (forall f rest, length (W ++ rest) <= f -> p_single (p_expr f) (W ++ rest) = POk A rest) ->
  blockP1 W A 0.
Proof.
  intros H f d rest _ Hd Hl _. rewrite p_at_cont. rewrite H; auto.
Qed.

Lemma paren_P1 W A : blockP2 W A -> blockP1 (parens W) (AParen A) 0.
Proof. intros H. apply single_P1. intros. apply paren_single; auto. Qed.

Lemma graft_assoc x o1 y o b : is_andor o1 = true ->
  graft (graft x o1 y) o b = graft x o1 (graft y o b).
Proof.
  intros H1. induction x; cbn [graft]; try (rewrite H1; reflexivity).
  destruct (is_andor o0) eqn:E.
  - cbn [graft]. rewrite E. rewrite IHx2. reflexivity.
  - cbn [graft]. rewrite H1. reflexivity.
Qed.

(* ---------- precedence bookkeeping ---------- *)
Definition tight (t : tree) : nat := match t with TBin o _ _ => rl o | _ => 0 end.

Lemma prec_rl o1 o : prec o <= prec o1 -> rl o1 <= rl o.
Proof. destruct o1, o; cbn; lia. Qed.
Lemma tprec_tight_l t o : Nat.ltb (tprec t) (prec o) = false -> tight t <= rl o.
Proof.
  intros H. apply Nat.ltb_ge in H. destruct t; cbn [tight]; try lia. apply prec_rl. exact H.
Qed.
Lemma tprec_tight_r t o l : Nat.ltb (tprec t) (S (prec o)) = false -> k2_node (TBin o l t) = false ->
  is_andor o = false -> tight t <= rl o - 1.
Proof.
  intros H K Ho. apply Nat.ltb_ge in H. destruct t; cbn [tight]; try lia.
  cbn [tprec] in H. cbn [k2_node] in K.
  destruct o, o0; cbn in *; try lia; try discriminate.
Qed.

Lemma known_K2_bin o l r : known_K2 (TBin o l r) = false ->
  k2_node (TBin o l r) = false /\ known_K2 l = false /\ known_K2 r = false.
Proof.
  unfold known_K2. cbn [exists_node]. intros H.
  apply orb_false_iff in H. destruct H as [H1 H2]. apply orb_false_iff in H2. tauto.
Qed.
Lemma known_K2_un t : known_K2 (TNeg t) = false \/ known_K2 (TNot t) = false -> known_K2 t = false.
Proof. unfold known_K2. cbn [exists_node k2_node]. cbn. tauto. Qed.

Record blocks (W : list tok) (A : ast) (j : nat) : Prop := {
  b1 : j <= 3 -> blockP1 W A j;
  b2 : blockP2 W A;
  b3 : blockP3 W A }.

Lemma item_blocks W A j : j <= 3 -> blockP1 W A j -> not_chain A -> blocks W A j.
Proof. intros. split; auto. eapply item_P2; eauto. eapply item_P3; eauto. Qed.

Lemma paren_blocks W A j : blockP2 W A -> blocks (parens W) (AParen A) j.
Proof.
  intros H. pose proof (paren_P1 W A H) as P.
  split. intros _. eapply blockP1_weaken; [|exact P]. lia.
  eapply item_P2; [|exact P]; lia. eapply item_P3; [|exact P|exact I]; lia.
Qed.

(* a child printed under precedence threshold p *)
Lemma wrap_blocks c p j : blocks (pr c) (canon c) (tight c) ->
  (Nat.ltb (tprec c) p = false -> tight c <= j) ->
  blocks (if Nat.ltb (tprec c) p then parens (pr c) else pr c)
         (if Nat.ltb (tprec c) p then AParen (canon c) else canon c) j.
Proof.
  intros B H. destruct (Nat.ltb (tprec c) p) eqn:E.
  - apply paren_blocks. apply B.
  - specialize (H eq_refl). split; try apply B.
    intros Hj. eapply blockP1_weaken; [exact H|]. apply B. lia.
Qed.

Lemma andor_blocks WL AL WR AR o j : is_andor o = true ->
  blockP3 WL AL -> blockP2 WR AR -> blockP3 WR AR ->
  blocks (WL ++ KOp o :: WR) (graft AL o AR) (4 + j).
Proof.
  intros Ho L3 R2 R3. split.
  - intros; lia.
  - intros rest Hc. rewrite <- app_assoc. cbn [app]. apply L3; auto.
  - intros o2 rest2 b r' Ho2 Hg. rewrite <- app_assoc. cbn [app].
    rewrite graft_assoc by auto. apply L3; auto.
Qed.

Lemma bin_blocks WL AL WR AR o : is_andor o = false ->
  blocks WL AL (rl o) -> blocks WR AR (rl o - 1) ->
  blocks (WL ++ KOp o :: WR) (ABin o AL AR) (rl o).
Proof.
  intros Ho BL BR.
  assert (J3 : rl o <= 3) by (destruct o; cbn in *; try lia; discriminate).
  assert (J1 : 1 <= rl o) by (destruct o; cbn; lia).
  apply item_blocks; auto.
  intros f d rest Hd H3 Hl Hf.
  rewrite <- app_assoc in *. cbn [app] in *.
  rewrite app_length in Hl. cbn [length] in Hl.
  rewrite (b1 _ _ _ BL J3 f d (KOp o :: WR ++ rest)); auto.
  2: { rewrite app_length. cbn [length]. lia. }
  2: { cbn. lia. }
  rewrite (cont_cf _ (rl o)) by (cbn; lia).
  rewrite cf_step; auto using p_expr_ok.
  assert (J0 : rl o - 1 <= 3) by lia.
  rewrite (b1 _ _ _ BR J0 f (rl o - 1) rest); auto; try lia.
  2: { eapply follow_mono; [|exact Hf]. lia. }
  unfold cont at 1. rewrite cf_skip.
  2: { replace (S (rl o - 1)) with (rl o) by lia. exact Hf. }
  symmetry. apply cont_cf. exact Hf.
Qed.

(* ---------- the main induction ---------- *)
Lemma tok_blocks k A : (forall rec rest, p_single rec (k :: rest) = POk A rest) -> not_chain A ->
  blocks [k] A 0.
Proof.
  intros H Hn. apply item_blocks; auto. apply single_P1. intros. cbn [app]. apply H.
Qed.

Lemma neg_paren_blocks c : blockP2 (pr c) (canon c) ->
  blocks (KNeg :: parens (pr c)) (AUn UNeg (AParen (canon c))) 0.
Proof.
  intros H. apply item_blocks; auto; [|exact I]. apply single_P1. intros f rest Hl.
  cbn [app p_single]. rewrite (paren_single (pr c) (canon c)); auto. cbn [app length] in Hl. lia.
Qed.

Theorem tree_blocks t : known_K2 t = false -> blocks (pr t) (canon t) (tight t).
Proof.
  induction t as [n|b|c IH|c IH|o l IHl r IHr]; intros K.
  - apply tok_blocks; [reflexivity|exact I].
  - destruct b; apply tok_blocks; try reflexivity; exact I.
  - specialize (IH (known_K2_un c (or_introl K))).
    destruct c; try (apply neg_paren_blocks; apply IH).
    apply tok_blocks; [reflexivity|exact I].
  - specialize (IH (known_K2_un c (or_intror K))).
    cbn [pr canon tight].
    change (tprec c <? 7) with (Nat.ltb (tprec c) 7).
    destruct (Nat.ltb (tprec c) 7) eqn:E.
    + apply item_blocks; auto; [|exact I]. apply single_P1. intros f rest Hl.
      cbn [app p_single]. rewrite (paren_single (pr c) (canon c)); auto. apply IH. cbn [app length] in Hl. lia.
    + apply item_blocks; auto; [|exact I]. apply single_P1. intros f rest Hl.
      cbn [app p_single].
      assert (T : tight c = 0). { destruct c; auto. cbn in E. destruct o; discriminate. }
      pose proof (b1 _ _ _ IH) as P. rewrite T in P. specialize (P (Nat.le_0_l 3) f 0 rest).
      cbn [p_at] in P. rewrite P; auto.
      cbn [app length] in Hl. lia. destruct rest as [|[]]; cbn; auto. lia.
  - apply known_K2_bin in K. destruct K as (K0 & Kl & Kr).
    specialize (IHl Kl). specialize (IHr Kr).
    cbn [pr canon tight].
    change (tprec l <? prec o) with (Nat.ltb (tprec l) (prec o)).
    change (tprec r <? S (prec o)) with (Nat.ltb (tprec r) (S (prec o))).
    destruct (is_andor o) eqn:Ho.
    + rewrite (rl_andor o Ho). change 4 with (4 + 0).
      pose proof (wrap_blocks l (prec o) 4 IHl) as BL.
      pose proof (wrap_blocks r (S (prec o)) 4 IHr) as BR.
      apply andor_blocks; auto.
      * apply BL. intros _. destruct l; cbn; try lia. apply rl_le4.
      * apply BR. intros _. destruct r; cbn; try lia. apply rl_le4.
      * apply BR. intros _. destruct r; cbn; try lia. apply rl_le4.
    + apply bin_blocks; auto.
      * apply wrap_blocks; auto. apply tprec_tight_l.
      * apply wrap_blocks; auto. intros E. eapply tprec_tight_r; eauto.
Qed.

Theorem parse_print t : known_K2 t = false -> parse (pr t) = Some (canon t).
Proof.
  intros K. unfold parse.
  pose proof (b2 _ _ _ (tree_blocks t K) [] I (S (length (pr t)))) as H.
  rewrite app_nil_r in H. rewrite H by lia. reflexivity.
Qed.

(* ---------- values: the right-nested and/or chain has the value of the left-nested one ---------- *)
Definition vand (a k : val) : val := if stuck a then a else if truthy a then k else a.
Definition vor (a k : val) : val := if stuck a then a else if truthy a then a else k.
Definition vop (o : binop) : val -> val -> val :=
  match o with BAnd => vand | BOr => vor | _ => m_bin o end.

Lemma aeval_bin o x y : aeval (ABin o x y) = vop o (aeval x) (aeval y).
Proof. destruct o; reflexivity. Qed.
Lemma eval_nodes_bin o l r : eval_nodes (TBin o l r) = vop o (eval_nodes l) (eval_nodes r).
Proof. destruct o; reflexivity. Qed.

Lemma vop_assoc o a b c : is_andor o = true -> vop o (vop o a b) c = vop o a (vop o b c).
Proof.
  destruct o; try discriminate; intros _; cbn [vop]; unfold vor, vand;
    destruct a as [?|[]| | |]; cbn; try reflexivity.
Qed.

Fixpoint spine_all (o : binop) (x : ast) : bool :=
  match x with
  | ABin o' _ b => if is_andor o' then binop_eqb o' o && spine_all o b else true
  | _ => true
  end.
Definition chainb (a : ast) : bool := match a with ABin o _ _ => is_andor o | _ => false end.

Lemma binop_eqb_eq o o' : binop_eqb o o' = true -> o = o'.
Proof. destruct o, o'; cbn; congruence. Qed.
Lemma binop_eqb_refl o : binop_eqb o o = true.
Proof. destruct o; reflexivity. Qed.

Lemma spine_not_chain o a : chainb a = false -> spine_all o a = true.
Proof. destruct a; cbn; auto. intros ->. reflexivity. Qed.

Lemma graft_value x o y : is_andor o = true -> spine_all o x = true ->
  aeval (graft x o y) = vop o (aeval x) (aeval y).
Proof.
  intros Ho. induction x; intros S; cbn [graft]; try (rewrite aeval_bin; reflexivity).
  cbn [spine_all] in S. destruct (is_andor o0) eqn:E.
  - apply andb_true_iff in S. destruct S as [S1 S2]. apply binop_eqb_eq in S1. subst o0.
    rewrite !aeval_bin. rewrite IHx2 by auto. rewrite vop_assoc by auto. reflexivity.
  - rewrite !aeval_bin. reflexivity.
Qed.

Lemma spine_graft x o y : is_andor o = true -> spine_all o x = true -> spine_all o y = true ->
  spine_all o (graft x o y) = true.
Proof.
  intros Ho. induction x; intros Sx Sy; cbn [graft spine_all]; rewrite ?Ho, ?binop_eqb_refl; cbn [andb]; auto.
  cbn [spine_all] in Sx. destruct (is_andor o0) eqn:E.
  - apply andb_true_iff in Sx. destruct Sx as [S1 S2]. cbn [spine_all]. rewrite E, S1. cbn [andb]. auto.
  - cbn [spine_all]. rewrite Ho, binop_eqb_refl. cbn [andb]. auto.
Qed.

(* the ast of a child printed under threshold p *)
Definition wcanon (p : nat) (c : tree) : ast :=
  if Nat.ltb (tprec c) p then AParen (canon c) else canon c.
Lemma canon_bin o l r :
  canon (TBin o l r) =
  if is_andor o then graft (wcanon (prec o) l) o (wcanon (S (prec o)) r)
  else ABin o (wcanon (prec o) l) (wcanon (S (prec o)) r).
Proof. reflexivity. Qed.
Lemma aeval_wcanon p c : aeval (wcanon p c) = aeval (canon c).
Proof. unfold wcanon. destruct (Nat.ltb (tprec c) p); reflexivity. Qed.

Lemma canon_item t : 3 <= tprec t -> chainb (canon t) = false.
Proof.
  destruct t; try reflexivity.
  - destruct t; reflexivity.
  - cbn [tprec]. intros H. rewrite canon_bin.
    assert (E : is_andor o = false) by (destruct o; cbn in *; auto; lia). rewrite E. exact E.
Qed.
Lemma wcanon_item p c : 3 <= p -> chainb (wcanon p c) = false.
Proof.
  intros H. unfold wcanon. destruct (Nat.ltb (tprec c) p) eqn:E; auto.
  apply Nat.ltb_ge in E. apply canon_item. lia.
Qed.

(* chains under `and` are pure `and` chains *)
Lemma and_spine c : spine_all BAnd (wcanon 2 c) = true.
Proof.
  unfold wcanon. destruct (Nat.ltb (tprec c) 2) eqn:E; auto.
  apply Nat.ltb_ge in E. clear E0 || idtac.
  induction c; try reflexivity.
  - destruct c; reflexivity.
  - cbn [tprec] in E. rewrite canon_bin. destruct (is_andor o) eqn:Ho.
    + assert (o = BAnd) by (destruct o; cbn in *; try discriminate; auto; lia). subst o.
      apply spine_graft; auto.
      * unfold wcanon. cbn [prec]. destruct (Nat.ltb (tprec c1) 2) eqn:E1; auto.
        apply Nat.ltb_ge in E1. auto.
      * apply spine_not_chain. apply wcanon_item. cbn. lia.
    + cbn [spine_all]. rewrite Ho. reflexivity.
Qed.

(* chains under `or` are pure `or` chains when the printed chain has no `and` *)
Lemma or_spine c : chain_has_and c = false -> spine_all BOr (wcanon 1 c) = true.
Proof.
  unfold wcanon. replace (Nat.ltb (tprec c) 1) with false.
  2: { symmetry. apply Nat.ltb_ge. destruct c; cbn; try lia. destruct o; cbn; lia. }
  induction c; intros H; try reflexivity.
  - destruct c; reflexivity.
  - rewrite canon_bin. destruct (is_andor o) eqn:Ho.
    + destruct o; try discriminate.
      cbn [chain_has_and] in H. apply orb_false_iff in H. destruct H as [H1 H2].
      apply spine_graft; auto.
      * unfold wcanon. cbn [prec]. replace (Nat.ltb (tprec c1) 1) with false. auto.
        symmetry. apply Nat.ltb_ge. destruct c1; cbn; try lia. destruct o; cbn; lia.
      * apply spine_not_chain. unfold wcanon. cbn [prec].
        destruct (Nat.ltb (tprec c2) 2) eqn:E2; auto.
        apply Nat.ltb_ge in E2. destruct c2; try reflexivity.
        -- destruct c2; reflexivity.
        -- rewrite canon_bin. destruct o; try discriminate; cbn in E2; try lia; reflexivity.
    + cbn [spine_all]. rewrite Ho. reflexivity.
Qed.

Lemma known_K1_bin o l r : known_K1 (TBin o l r) = false ->
  k1_node (TBin o l r) = false /\ known_K1 l = false /\ known_K1 r = false.
Proof.
  unfold known_K1. cbn [exists_node]. intros H.
  apply orb_false_iff in H. destruct H as [H1 H2]. apply orb_false_iff in H2. tauto.
Qed.

Theorem canon_value t : known_K1 t = false -> aeval (canon t) = eval_nodes t.
Proof.
  induction t as [n|b|c IH|c IH|o l IHl r IHr]; intros K.
  - reflexivity.
  - reflexivity.
  - assert (Kc : known_K1 c = false) by (unfold known_K1 in *; cbn in K; exact K).
    specialize (IH Kc). change (eval_nodes (TNeg c)) with (m_neg (eval_nodes c)). rewrite <- IH.
    destruct c; reflexivity.
  - assert (Kc : known_K1 c = false) by (unfold known_K1 in *; cbn in K; exact K).
    specialize (IH Kc). change (eval_nodes (TNot c)) with (m_not (eval_nodes c)). rewrite <- IH.
    cbn [canon]. destruct (tprec c <? 7); reflexivity.
  - apply known_K1_bin in K. destruct K as (K0 & Kl & Kr).
    specialize (IHl Kl). specialize (IHr Kr).
    rewrite canon_bin, eval_nodes_bin, <- IHl, <- IHr.
    destruct (is_andor o) eqn:Ho.
    + rewrite graft_value; auto. rewrite !aeval_wcanon. reflexivity.
      destruct o; try discriminate.
      * apply or_spine. exact K0.
      * apply and_spine.
    + rewrite aeval_bin, !aeval_wcanon. reflexivity.
Qed.

(* rsass's value of the canonical text = the tree evaluated with Sass grouping
   (and rsass's own per-node operators) *)
Theorem grouping t : known_K1 t = false -> known_K2 t = false -> model_value t = eval_nodes t.
Proof.
  intros K1 K2. unfold model_value. rewrite parse_print by auto. apply canon_value; auto.
Qed.

(* ---------- node semantics on a small operand set (finite sweep) ---------- *)
Lemma bits_inj (a b : f64) : to_bits a = to_bits b -> a = b.
Proof.
  intros H. unfold to_bits, bits_of_b64 in H.
  rewrite <- (Bits.binary_float_of_bits_of_binary_float 52 11 eq_refl eq_refl eq_refl a).
  rewrite <- (Bits.binary_float_of_bits_of_binary_float 52 11 eq_refl eq_refl eq_refl b).
  rewrite H. reflexivity.
Qed.

Definition val_eqb (a b : val) : bool :=
  match a, b with
  | VNum x, VNum y => Z.eqb (to_bits x) (to_bits y)
  | VBool x, VBool y => Bool.eqb x y
  | VErr, VErr | VOther, VOther | VUnmod, VUnmod => true
  | _, _ => false
  end.
Lemma val_eqb_eq a b : val_eqb a b = true -> a = b.
Proof.
  destruct a, b; cbn; try discriminate; auto.
  - intros H. apply Z.eqb_eq in H. apply bits_inj in H. subst. reflexivity.
  - intros H. apply eqb_prop in H. subst. reflexivity.
Qed.
Lemma val_eqb_refl a : val_eqb a a = true.
Proof. destruct a; cbn; auto. apply Z.eqb_refl. destruct b; reflexivity. Qed.

(* equal, or two zeros of either sign (the sign of a zero is not observable here) *)
Definition is_zero_val (v : val) : bool :=
  match v with VNum (B754_zero _ _ _) => true | _ => false end.
Definition zeq (a b : val) : bool := val_eqb a b || (is_zero_val a && is_zero_val b).

Definition small_ints : list Z :=
  [-12;-11;-10;-9;-8;-7;-6;-5;-4;-3;-2;-1;0;1;2;3;4;5;6;7;8;9;10;11;12]%Z.
Definition smalls : list val :=
  VBool true :: VBool false :: VNum f_neg_zero :: VNum f_nan :: map (fun z => VNum (f_of_Z z)) small_ints.
Definition small_pairs : list (val * val) :=
  flat_map (fun a => map (fun b => (a, b)) (filter (zeq a) smalls)) smalls.

Lemma small_pairs_in a b : In a smalls -> In b smalls -> zeq a b = true -> In (a, b) small_pairs.
Proof.
  intros Ha Hb Z. unfold small_pairs. apply in_flat_map. exists a. split; auto.
  apply in_map. apply filter_In. auto.
Qed.

Lemma zero_in_smalls v : is_zero_val v = true -> In v smalls.
Proof.
  destruct v as [x| | | |]; try discriminate. destruct x; try discriminate. intros _.
  destruct s.
  - right; right; left. reflexivity.
  - do 16 right. left. reflexivity.
Qed.

Lemma zeq_small a b : In a smalls -> zeq a b = true -> In b smalls.
Proof.
  intros Ha Z. unfold zeq in Z. apply orb_true_iff in Z. destruct Z as [Z|Z].
  - apply val_eqb_eq in Z. subst. exact Ha.
  - apply andb_true_iff in Z. apply zero_in_smalls. tauto.
Qed.

Definition small_ok (v : val) : bool :=
  match v with VErr | VOther => true | _ => existsb (val_eqb v) smalls end.

(* every subtree has a small reference value (or an error / a string) *)
Fixpoint all_small (t : tree) : bool :=
  small_ok (eval_spec t) &&
  match t with
  | TNeg c | TNot c => all_small c
  | TBin _ l r => all_small l && all_small r
  | _ => true
  end.

Definition k4_pair (o : binop) (a b : val) : bool :=
  is_relational o && (is_vbool a || is_vbool b).

Definition strict_ops : list binop := [BEq; BNe; BLt; BLe; BGt; BGe; BPlus; BMinus; BMul; BMod].

(* where the reference gives a number / boolean / error the model must give the same *)
Definition agree_b (s m : val) : bool :=
  match s with
  | VNum _ | VBool _ => zeq s m
  | VErr => val_eqb m VErr
  | _ => true
  end.

Definition node_pred (p q : val * val) (o : binop) : bool :=
  k4_pair o (fst p) (fst q)
  || agree_b (spec_bin o (fst p) (fst q)) (m_bin o (snd p) (snd q)).
Definition node_row (p q : val * val) : bool := forallb (node_pred p q) strict_ops.

Lemma node_sweep : forallb (fun p => forallb (node_row p) small_pairs) small_pairs = true.
Proof. vm_compute. reflexivity. Qed.

Definition un_pred (p : val * val) : bool :=
  agree_b (spec_neg (fst p)) (m_neg (snd p)) && agree_b (spec_not (fst p)) (m_not (snd p))
  && Bool.eqb (truthy (fst p)) (truthy (snd p)) && negb (stuck (snd p)) && negb (no_claim (fst p)).
Lemma un_sweep : forallb un_pred small_pairs = true.
Proof. vm_compute. reflexivity. Qed.

Lemma node_small o a a' b b' : In (a, a') small_pairs -> In (b, b') small_pairs -> In o strict_ops ->
  k4_pair o a b = false -> agree_b (spec_bin o a b) (m_bin o a' b') = true.
Proof.
  intros Ha Hb Ho K4.
  pose proof (sweep2 small_pairs small_pairs node_row node_sweep _ _ Ha Hb) as H.
  unfold node_row in H. rewrite forallb_forall in H. specialize (H o Ho).
  unfold node_pred in H. cbn [fst snd] in H. rewrite K4 in H. exact H.
Qed.

Lemma small_ok_cases v : small_ok v = true -> v = VErr \/ v = VOther \/ In v smalls.
Proof.
  intros H. destruct v; auto; right; right; cbn [small_ok] in H;
    apply existsb_exists in H; destruct H as (w & Hw & E); apply val_eqb_eq in E; subst; exact Hw.
Qed.

Lemma all_small_top t : all_small t = true -> small_ok (eval_spec t) = true.
Proof. destruct t; cbn [all_small]; intros H; apply andb_true_iff in H; tauto. Qed.

(* from agreement on a small reference value to membership in the pair table *)
Definition defined_b (v : val) : bool := match v with VNum _ | VBool _ => true | _ => false end.
Lemma smalls_defined : forallb defined_b smalls = true.
Proof. vm_compute. reflexivity. Qed.

Lemma agree_pair s m : In s smalls -> agree_b s m = true -> In (s, m) small_pairs.
Proof.
  intros Hs A.
  pose proof (sweep1 smalls defined_b smalls_defined s Hs) as D.
  assert (Z : zeq s m = true) by (destruct s; try discriminate; exact A).
  apply small_pairs_in; auto. eapply zeq_small; eauto.
Qed.

Lemma known_bin (p : tree -> bool) o l r : exists_node p (TBin o l r) = false ->
  p (TBin o l r) = false /\ exists_node p l = false /\ exists_node p r = false.
Proof.
  cbn [exists_node]. intros H.
  apply orb_false_iff in H. destruct H as [H1 H2]. apply orb_false_iff in H2. tauto.
Qed.

Lemma spec_bin_err_l o b : spec_bin o VErr b = VErr. Proof. destruct o; reflexivity. Qed.
Lemma spec_bin_other_l o b : spec_bin o VOther b = VOther. Proof. destruct o; reflexivity. Qed.
Lemma m_bin_err_l o b : m_bin o VErr b = VErr. Proof. reflexivity. Qed.
Lemma agree_err m : agree_b VErr m = true -> m = VErr.
Proof. cbn. apply val_eqb_eq. Qed.

(* node by node: the tree evaluated with rsass's operators gives what the reference gives *)
Theorem nodes_agree t : known_K4 t = false -> all_small t = true ->
  agree_b (eval_spec t) (eval_nodes t) = true.
Proof.
  induction t as [n|b|c IH|c IH|o l IHl r IHr]; intros K4 S.
  - cbn [eval_spec teval eval_nodes agree_b]. unfold zeq. rewrite val_eqb_refl. reflexivity.
  - destruct b; reflexivity.
  - pose proof S as S'. cbn [all_small] in S. apply andb_true_iff in S. destruct S as [S0 S].
    specialize (IH K4 S).
    change (eval_spec (TNeg c)) with (spec_neg (eval_spec c)).
    change (eval_nodes (TNeg c)) with (m_neg (eval_nodes c)).
    destruct (small_ok_cases _ (all_small_top _ S)) as [E|[E|E]].
    + rewrite E in *. apply agree_err in IH. rewrite IH. reflexivity.
    + rewrite E. reflexivity.
    + pose proof (sweep1 small_pairs un_pred un_sweep _ (agree_pair _ _ E IH)) as U.
      unfold un_pred in U. cbn [fst snd] in U. repeat (apply andb_true_iff in U; destruct U as [U ?]). exact U.
  - cbn [all_small] in S. apply andb_true_iff in S. destruct S as [S0 S].
    specialize (IH K4 S).
    change (eval_spec (TNot c)) with (spec_not (eval_spec c)).
    change (eval_nodes (TNot c)) with (m_not (eval_nodes c)).
    destruct (small_ok_cases _ (all_small_top _ S)) as [E|[E|E]].
    + rewrite E in *. apply agree_err in IH. rewrite IH. reflexivity.
    + rewrite E. reflexivity.
    + pose proof (sweep1 small_pairs un_pred un_sweep _ (agree_pair _ _ E IH)) as U.
      unfold un_pred in U. cbn [fst snd] in U. repeat (apply andb_true_iff in U; destruct U as [U ?]). assumption.
  - unfold known_K4 in K4. apply known_bin in K4. destruct K4 as (K4n & K4l & K4r).
    cbn [all_small] in S. apply andb_true_iff in S. destruct S as [S0 S].
    apply andb_true_iff in S. destruct S as [Sl Sr].
    specialize (IHl K4l Sl). specialize (IHr K4r Sr).
    pose proof (all_small_top _ Sl) as Sa. pose proof (all_small_top _ Sr) as Sb.
    destruct (is_andor o) eqn:Ho.
    + (* and / or *)
      assert (E : eval_spec (TBin o l r) =
                  let a := eval_spec l in
                  if no_claim a then a else
                  match o with BAnd => if truthy a then eval_spec r else a
                             | _ => if truthy a then a else eval_spec r end).
      { destruct o; try discriminate; reflexivity. }
      assert (E' : eval_nodes (TBin o l r) =
                  let a := eval_nodes l in
                  if stuck a then a else
                  match o with BAnd => if truthy a then eval_nodes r else a
                             | _ => if truthy a then a else eval_nodes r end).
      { destruct o; try discriminate; reflexivity. }
      rewrite E, E'. cbv zeta.
      destruct (small_ok_cases _ Sa) as [Ea|[Ea|Ea]].
      * rewrite Ea in *. apply agree_err in IHl. rewrite IHl. reflexivity.
      * rewrite Ea. reflexivity.
      * pose proof (sweep1 small_pairs un_pred un_sweep _ (agree_pair _ _ Ea IHl)) as U.
        unfold un_pred in U. cbn [fst snd] in U.
        repeat (apply andb_true_iff in U; destruct U as [U ?]).
        apply negb_true_iff in H. apply negb_true_iff in H0. apply eqb_prop in H1.
        rewrite H, H0, <- H1.
        destruct o; try discriminate; destruct (truthy (eval_spec l)); auto.
    + (* strict operators *)
      assert (E : eval_spec (TBin o l r) = spec_bin o (eval_spec l) (eval_spec r))
        by (destruct o; try discriminate; reflexivity).
      assert (E' : eval_nodes (TBin o l r) = m_bin o (eval_nodes l) (eval_nodes r))
        by (destruct o; try discriminate; reflexivity).
      rewrite E, E'.
      assert (Io : In o strict_ops) by (destruct o; try discriminate; cbn; tauto).
      destruct (small_ok_cases _ Sa) as [Ea|[Ea|Ea]].
      * rewrite Ea in *. apply agree_err in IHl. rewrite IHl, spec_bin_err_l. reflexivity.
      * rewrite Ea, spec_bin_other_l. reflexivity.
      * pose proof (agree_pair _ _ Ea IHl) as Pa.
        pose proof (sweep1 small_pairs un_pred un_sweep _ Pa) as Ua.
        unfold un_pred in Ua. cbn [fst snd] in Ua.
        repeat (apply andb_true_iff in Ua; destruct Ua as [Ua ?]).
        apply negb_true_iff in H. apply negb_true_iff in H0.
        destruct (small_ok_cases _ Sb) as [Eb|[Eb|Eb]].
        -- rewrite Eb in *. apply agree_err in IHr. rewrite IHr.
           destruct (eval_spec l); try discriminate; destruct (eval_nodes l); try discriminate; destruct o; reflexivity.
        -- rewrite Eb. destruct (eval_spec l); try discriminate; destruct o; reflexivity.
        -- pose proof (agree_pair _ _ Eb IHr) as Pb.
           apply node_small; auto.
Qed.

Theorem main t :
  known_K1 t = false -> known_K2 t = false -> known_K4 t = false ->
  all_small t = true ->
  agree_b (eval_spec t) (model_value t) = true.
Proof.
  intros K1 K2 K4 S. rewrite grouping by auto. apply nodes_agree; auto.
Qed.

(* ---------- refutations of the full statement, and an exhaustive sweep ---------- *)
Definition full_statement : Prop :=
  forall t, agree_b (eval_spec t) (model_value t) = true.

Lemma refuted_and_or : exists t, known_K1 t = true /\ agree_b (eval_spec t) (model_value t) = false.
Proof. exists (TBin BOr (TBin BAnd (TBool false) (TBool false)) (TBool true)). vm_compute. auto. Qed.
Lemma refuted_eq_rel : exists t, known_K2 t = true /\ agree_b (eval_spec t) (model_value t) = false.
Proof. exists (TBin BEq (TBool true) (TBin BLt (TNum 1) (TNum 2))). vm_compute. auto. Qed.
(* `%` with operands of opposite sign and zero remainder (former class K3, fixed by cc06893) *)
Lemma mod_fixed : agree_b (eval_spec (TBin BMod (TNeg (TNum 2)) (TNum 2))) (model_value (TBin BMod (TNeg (TNum 2)) (TNum 2))) = true.
Proof. vm_compute. reflexivity. Qed.
Lemma refuted_rel_bool : exists t, known_K4 t = true /\ agree_b (eval_spec t) (model_value t) = false.
Proof.
  exists (TBin BEq (TBin BLt (TBool true) (TNum 1)) (TBin BLt (TBool true) (TNum 1))). vm_compute. auto.
Qed.

Definition leaves5 : list tree := [TNum 0; TNum 1; TNum 2; TBool true; TBool false].
Definition leaves4 : list tree := [TNum 0; TNum 2; TBool true; TBool false].
Definition all_ops : list binop := [BOr; BAnd; BEq; BNe; BLt; BLe; BGt; BGe; BPlus; BMinus; BMul; BMod].
Definition bins (ls rs : list tree) : list tree :=
  flat_map (fun o => flat_map (fun l => map (fun r => TBin o l r) rs) ls) all_ops.
Definition unaries (ts : list tree) : list tree := ts ++ map TNeg ts ++ map TNot ts.
Definition trees1 : list tree := bins (unaries leaves5) (unaries leaves5).
Definition trees2 : list tree := bins (bins leaves4 leaves4) leaves4 ++ bins leaves4 (bins leaves4 leaves4).
Definition tree_ok (t : tree) : bool :=
  negb (Z.eqb (known_class t) 0) || (all_small t && agree_b (eval_spec t) (model_value t)).
Lemma sweep_trees1 : forallb tree_ok trees1 = true.
Proof. vm_compute. reflexivity. Qed.
Lemma sweep_trees2 : forallb tree_ok trees2 = true.
Proof. vm_compute. reflexivity. Qed.

Lemma tie_ok : operators_tie = true.
Proof. vm_compute. reflexivity. Qed.
