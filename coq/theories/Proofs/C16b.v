(* C16, second part: the equivalence theorem extended to programs with @if
   (everything except @each).  In the reference an @if branch has its own scope;
   when no known-class event occurs that scope stays empty, so the rsass scopes
   are the reference scopes with the (empty) @if scopes removed. *)
From Coq Require Import List ZArith Bool Lia.
From RV Require Import Spec.SassFlow Model.EvScope Spec.SassScope Run.C16 Proofs.C16.
Import ListNotations.
Local Open Scope Z_scope.

Fixpoint no_each (s : stmt) : bool :=
  let go := fix go (l : list stmt) : bool :=
    match l with [] => true | x :: r => no_each x && go r end in
  match s with
  | SSet _ _ _ _ | SRead _ _ => true
  | SBlock _ b | SFor _ _ _ _ b | SWhile _ b | SMixin _ b => go b
  | SIf _ t e => go t && go e
  | SEach _ _ _ => false
  end.
Fixpoint no_each_list (l : list stmt) : bool :=
  match l with [] => true | x :: r => no_each x && no_each_list r end.
Lemma no_each_go b :
  (fix go (l : list stmt) : bool := match l with [] => true | x :: r => no_each x && go r end) b
  = no_each_list b.
Proof. induction b as [|x r IH]; [reflexivity|]. cbn [no_each_list]. rewrite <- IH. reflexivity. Qed.

Lemma sexec_if c t e st out ev :
  sexec (SIf c t e) (st, out, ev) =
  let '(st', out', ev') :=
    sexec_list (if truthy_nz (seval_expr st c) then t else e) (spush st TIf [], out, ev) in
  (spop st', out', ev').
Proof. reflexivity. Qed.
Lemma sexec_each x items body st out ev :
  sexec (SEach x items body) (st, out, ev) =
  let '(st', out', ev') :=
    fold_left (fun so i => let '(s1, o1, e1) := so in sexec_list body (set_local s1 x (SV i), o1, e1))
              items (spush st TEach [], out, ev) in
  (spop st', out', ev').
Proof. reflexivity. Qed.

(* ------------------------------------------------------------------ events only accumulate (all statements) *)
Definition monoU (s : stmt) : Prop :=
  forall so, snd (sexec s so) = ev_none -> snd so = ev_none.
Lemma monoU_list body : Forall monoU body ->
  forall so, snd (sexec_list body so) = ev_none -> snd so = ev_none.
Proof.
  induction 1 as [|s r Hs _ IH]; intros so E; cbn [sexec_list] in *; [exact E|].
  apply Hs. apply IH. exact E.
Qed.

Lemma all_monoU : forall s, monoU s.
Proof.
  apply stmt_rect'; unfold monoU.
  - intros x e d g [[st out] ev]. rewrite sexec_set. destruct (assign _ _ _ _ _) as [st' e']. cbn.
    intros H. apply ev_or_none in H. tauto.
  - intros id x [[st out] ev]. rewrite sexec_read. cbn. auto.
  - intros k body H [[st out] ev]. rewrite sexec_block.
    pose proof (monoU_list body H (spush st TRule [], out, ev)) as M.
    destruct (sexec_list body _) as [[st' out'] ev']. cbn in *. exact M.
  - intros c t e Ht He [[st out] ev]. rewrite sexec_if.
    destruct (truthy_nz (seval_expr st c)).
    + pose proof (monoU_list t Ht (spush st TIf [], out, ev)) as M.
      destruct (sexec_list t _) as [[st' out'] ev']. cbn in *. exact M.
    + pose proof (monoU_list e He (spush st TIf [], out, ev)) as M.
      destruct (sexec_list e _) as [[st' out'] ev']. cbn in *. exact M.
  - intros x items body H [[st out] ev]. rewrite sexec_each.
    assert (L : forall so, snd (fold_left (fun so i => let '(s1, o1, e1) := so in
                 sexec_list body (set_local s1 x (SV i), o1, e1)) items so) = ev_none -> snd so = ev_none).
    { induction items as [|i r IH]; intros so; cbn [fold_left]; [auto|].
      intros E. specialize (IH _ E). destruct so as [[s1 o1] e1].
      apply (monoU_list body H (set_local s1 x (SV i), o1, e1)). exact IH. }
    specialize (L (spush st TEach [], out, ev)).
    destruct (fold_left _ items _) as [[st' out'] ev']. cbn in *. exact L.
  - intros x a b incl body H [[st out] ev]. rewrite sexec_for.
    generalize (spec_range a b incl). intros l. revert st out ev.
    induction l as [|i r IH]; intros st out ev; cbn [fold_left]; [auto|].
    pose proof (monoU_list body H (spush st TFor [(x, SV i)], out, ev)) as M.
    destruct (sexec_list body _) as [[s2 o2] e2]. cbn in M. intros E. apply M. eapply IH. exact E.
  - intros n body H [[st out] ev]. rewrite sexec_while.
    assert (L : forall so, snd (repeat_fn n (sexec_list body) so) = ev_none -> snd so = ev_none).
    { induction n as [|n IH]; intros so; cbn [repeat_fn]; [auto|].
      intros E. apply (monoU_list body H). apply IH. exact E. }
    specialize (L (spush st TWhile [], out, ev)).
    destruct (repeat_fn n _ _) as [[st' out'] ev']. cbn in *. exact L.
  - intros ps body H [[st out] ev]. rewrite sexec_mixin. cbn zeta.
    pose proof (monoU_list body H (mkSS [(TMixin, fold_left (fun f p => f_set f (fst p) (snd p))
        (map (fun p => (fst p, seval_expr st (snd p))) ps) [])] (sglobal st), out, ev)) as M.
    destruct (sexec_list body _) as [[st' out'] ev']. cbn in *. intros E. apply ev_or_none in E. tauto.
Qed.
Lemma monoU_any body : forall so, snd (sexec_list body so) = ev_none -> snd so = ev_none.
Proof. apply monoU_list. apply Forall_forall. intros; apply all_monoU. Qed.

(* ------------------------------------------------------------------ the relation *)
Definition hardf (tf : ftag * frame) : bool := is_hard (fst tf).
Definition softempty (tf : ftag * frame) : Prop := is_hard (fst tf) = false -> snd tf = [].
Definition tags (sst : sstate) : list ftag := map fst (slocals sst).

Definition R2 (st : state) (sst : sstate) : Prop :=
  locals st = map snd (filter hardf (slocals sst)) /\ global st = sglobal sst /\
  Forall softempty (slocals sst).

Lemma filter_hard t f r : is_hard t = true -> filter hardf ((t, f) :: r) = (t, f) :: filter hardf r.
Proof. intros H. cbn [filter]. unfold hardf at 1. cbn [fst]. rewrite H. reflexivity. Qed.
Lemma filter_soft t f r : is_hard t = false -> filter hardf ((t, f) :: r) = filter hardf r.
Proof. intros H. cbn [filter]. unfold hardf at 1. cbn [fst]. rewrite H. reflexivity. Qed.

Lemma schain_filter l x : Forall softempty l -> schain_get l x = chain_get (map snd (filter hardf l)) x.
Proof.
  induction 1 as [|[t f] r H _ IH]; [reflexivity|]. cbn [schain_get filter]. unfold hardf at 1. cbn [fst].
  destruct (is_hard t) eqn:E.
  - cbn [map snd chain_get]. rewrite IH. reflexivity.
  - pose proof (H E) as Hf. cbn in Hf. subst f. cbn [f_get]. exact IH.
Qed.
Lemma R2_lookup st sst x : R2 st sst -> lookup st x = slookup sst x.
Proof. intros (H1 & H2 & H3). unfold lookup, slookup. rewrite H1, H2, (schain_filter _ x H3). reflexivity. Qed.
Lemma R2_eval st sst e : R2 st sst -> eval_expr st e = seval_expr sst e.
Proof. intros H. destruct e; cbn; try reflexivity. rewrite (R2_lookup _ _ _ H). reflexivity. Qed.

(* an event-free update of a declared variable lands in the innermost scope that rsass also has *)
Lemma update_first_hard l x v : Forall softempty l -> forall l',
  update_innermost l x v false = Some (l', false) ->
  exists F rest, map snd (filter hardf l) = F :: rest /\
                 map snd (filter hardf l') = f_set F x v :: rest /\
                 map fst l' = map fst l /\ Forall softempty l'.
Proof.
  induction 1 as [|[t f] r H Hr IH]; intros l' HU; [discriminate|].
  cbn [update_innermost] in HU. destruct (f_get f x) eqn:EF.
  - inversion HU; subst. destruct (is_hard t) eqn:E.
    + exists f, (map snd (filter hardf r)). rewrite !(filter_hard t _ r E). cbn [map snd fst].
      repeat split; try reflexivity. constructor; [intros E'; cbn in E'; congruence | exact Hr].
    + pose proof (H E) as Hf. cbn in Hf. subst f. discriminate.
  - destruct (is_hard t) eqn:E; cbn [orb] in HU.
    + destruct (update_innermost r x v true) as [[r' c]|] eqn:EU; [|discriminate].
      pose proof (update_crossed _ _ _ _ _ EU). subst c. inversion HU.
    + destruct (update_innermost r x v false) as [[r' c]|] eqn:EU; [|discriminate].
      inversion HU; subst. destruct (IH r' eq_refl) as (F & rest & A & B & C & D).
      exists F, rest. rewrite !(filter_soft t f _ E). cbn [map fst]. rewrite C.
      repeat split; auto.
Qed.

Lemma no_hard_filter l : existsb (fun tf => is_hard (fst tf)) l = false -> filter hardf l = [].
Proof.
  induction l as [|[t f] r IH]; [reflexivity|]. cbn. intros H. apply orb_false_iff in H. destruct H as [H1 H2].
  unfold hardf at 1. cbn [fst]. rewrite H1. apply IH. exact H2.
Qed.

Lemma R2_assign st sst x v d g sst' ev' :
  R2 st sst -> assign sst x v d g = (sst', ev') -> ev' = ev_none ->
  R2 (set_variable st x v d g) sst' /\ tags sst' = tags sst.
Proof.
  intros HR HA HE. pose proof HR as (H1 & H2 & H3).
  unfold assign in HA. unfold set_variable. rewrite (R2_lookup _ _ x HR).
  destruct (d && _).
  { injection HA as A1 A2. subst sst'. auto. }
  destruct g.
  { injection HA as A1 A2. subst sst'. unfold set_global, R2, tags. cbn. rewrite H2. auto. }
  unfold set_current.
  destruct (update_innermost (slocals sst) x v false) as [[l' crossed]|] eqn:EU.
  - injection HA as A1 A2. subst sst'. rewrite HE in A2. injection A2 as A2. subst crossed.
    destruct (update_first_hard _ x v H3 l' EU) as (F & rest & A & B & C & D).
    rewrite H1, A. unfold R2, tags. cbn. rewrite B. auto.
  - assert (DC : forall sst1 ev1, declare_current sst x v = (sst1, ev1) -> ev1 = ev_none ->
              R2 (match locals st with
                  | [] => mkSt [] (f_set (global st) x v)
                  | f :: r => mkSt (f_set f x v :: r) (global st)
                  end) sst1 /\ tags sst1 = tags sst).
    { intros sst1 ev1 HD HE1. unfold declare_current in HD. destruct (slocals sst) as [|[t f] r] eqn:EL.
      - injection HD as D1 D2. subst sst1. rewrite H1. cbn. unfold R2, tags. cbn. rewrite EL, H2. cbn. auto.
      - injection HD as D1 D2. subst sst1. rewrite HE1 in D2. injection D2 as D2.
        apply negb_false_iff in D2.
        rewrite H1, (filter_hard t f r D2). cbn [map snd].
        unfold R2, tags. cbn [locals global slocals sglobal]. rewrite EL. rewrite (filter_hard t _ r D2). cbn [map snd fst].
        inversion H3; subst. repeat split; auto. constructor; [intros E'; cbn in E'; congruence | assumption]. }
    destruct (f_get (sglobal sst) x) eqn:EG.
    + destruct (semi_global sst) eqn:ES.
      * injection HA as A1 A2. subst sst'. rewrite HE in A2. injection A2 as EX.
        rewrite H1, (no_hard_filter _ EX). cbn [map]. unfold R2, tags. cbn. rewrite (no_hard_filter _ EX), H2. auto.
      * apply (DC _ _ HA HE).
    + apply (DC _ _ HA HE).
Qed.

Lemma R2_push_hard st sst t f : R2 st sst -> is_hard t = true -> R2 (push st f) (spush sst t f).
Proof.
  intros (H1 & H2 & H3) Ht. unfold R2, push, spush. cbn [locals global slocals sglobal].
  rewrite (filter_hard t f _ Ht). cbn [map snd]. rewrite H1, H2.
  repeat split; auto. constructor; [intros E; cbn in E; congruence | exact H3].
Qed.
Lemma R2_push_soft st sst t : R2 st sst -> is_hard t = false -> R2 st (spush sst t []).
Proof.
  intros (H1 & H2 & H3) Ht. unfold R2, spush. cbn [locals global slocals sglobal].
  rewrite (filter_soft t [] _ Ht).
  repeat split; auto. constructor; [intros _; reflexivity | exact H3].
Qed.
(* popping the scope that was pushed: the tags say which one is on top *)
Lemma R2_pop_hard st sst t ts : R2 st sst -> tags sst = t :: ts -> is_hard t = true ->
  R2 (pop st) (spop sst) /\ tags (spop sst) = ts.
Proof.
  intros (H1 & H2 & H3) Ht Hh. unfold tags in *. destruct (slocals sst) as [|[t' f] r] eqn:EL; [discriminate|].
  cbn in Ht. inversion Ht; subst. unfold R2, pop, spop. cbn. rewrite EL. cbn [tl].
  rewrite H1, (filter_hard t f r Hh). cbn [map tl]. inversion H3; subst. auto.
Qed.
Lemma R2_pop_soft st sst t ts : R2 st sst -> tags sst = t :: ts -> is_hard t = false ->
  R2 st (spop sst) /\ tags (spop sst) = ts.
Proof.
  intros (H1 & H2 & H3) Ht Hh. unfold tags in *. destruct (slocals sst) as [|[t' f] r] eqn:EL; [discriminate|].
  cbn in Ht. inversion Ht; subst. unfold R2, spop. cbn. rewrite EL. cbn [tl].
  rewrite H1, (filter_soft t f r Hh). inversion H3; subst. auto.
Qed.

(* ------------------------------------------------------------------ simulation *)
Definition sim2 (s : stmt) : Prop :=
  no_each s = true -> forall st sst out ev, R2 st sst ->
  snd (sexec s (sst, out, ev)) = ev_none ->
  R2 (fst (exec s (st, out))) (fst (fst (sexec s (sst, out, ev)))) /\
  snd (exec s (st, out)) = snd (fst (sexec s (sst, out, ev))) /\
  tags (fst (fst (sexec s (sst, out, ev)))) = tags sst.

Lemma sim2_list body : Forall sim2 body -> no_each_list body = true ->
  forall st sst out ev, R2 st sst ->
  snd (sexec_list body (sst, out, ev)) = ev_none ->
  R2 (fst (exec_list body (st, out))) (fst (fst (sexec_list body (sst, out, ev)))) /\
  snd (exec_list body (st, out)) = snd (fst (sexec_list body (sst, out, ev))) /\
  tags (fst (fst (sexec_list body (sst, out, ev)))) = tags sst.
Proof.
  induction 1 as [|s r Hs Hall IH]; intros Hh st sst out ev HR HE; cbn [exec_list sexec_list] in *; [auto|].
  cbn [no_each_list] in Hh. apply andb_true_iff in Hh. destruct Hh as [Hh1 Hh2].
  pose proof (monoU_any r _ HE) as E1.
  destruct (Hs Hh1 st sst out ev HR E1) as (HR1 & HO1 & HT1).
  destruct (exec s (st, out)) as [st1 out1]. destruct (sexec s (sst, out, ev)) as [[sst1 sout1] ev1].
  cbn in *. subst sout1. destruct (IH Hh2 st1 sst1 out1 ev1 HR1 HE) as (A & B & C).
  split; [exact A | split; [exact B | rewrite C; exact HT1]].
Qed.

Lemma all_sim2 : forall s, sim2 s.
Proof.
  apply stmt_rect'; unfold sim2.
  - intros x e d g _ st sst out ev HR. rewrite sexec_set, exec_set.
    rewrite (R2_eval _ _ e HR).
    destruct (assign sst x (seval_expr sst e) d g) as [sst' e'] eqn:EA. cbn. intros HE.
    apply ev_or_none in HE. destruct HE as [_ HE].
    destruct (R2_assign _ _ _ _ _ _ _ _ HR EA HE) as [A B]. auto.
  - intros id x _ st sst out ev HR. rewrite sexec_read, exec_read. cbn. intros _.
    rewrite (R2_lookup _ _ x HR). auto.
  - intros k body H Hh st sst out ev HR. cbn [no_each] in Hh. rewrite no_each_go in Hh.
    rewrite sexec_block, exec_block.
    pose proof (sim2_list body H Hh (push st []) (spush sst TRule []) out ev (R2_push_hard _ _ TRule [] HR eq_refl)) as S.
    destruct (exec_list body (push st [], out)) as [st' out'].
    destruct (sexec_list body (spush sst TRule [], out, ev)) as [[sst' sout'] ev']. cbn in *.
    intros HE. destruct (S HE) as (HR' & HO & HT).
    destruct (R2_pop_hard _ _ TRule (tags sst) HR' HT eq_refl) as [A B]. auto.
  - intros c t e Ht He Hh st sst out ev HR. cbn [no_each] in Hh. rewrite !no_each_go in Hh.
    apply andb_true_iff in Hh. destruct Hh as [Hh1 Hh2].
    rewrite sexec_if, exec_if. rewrite (R2_eval _ _ c HR).
    assert (G : forall br, Forall sim2 br -> no_each_list br = true ->
      snd (let '(st', out', ev') := sexec_list br (spush sst TIf [], out, ev) in (spop st', out', ev')) = ev_none ->
      R2 (fst (exec_list br (st, out)))
         (fst (fst (let '(st', out', ev') := sexec_list br (spush sst TIf [], out, ev) in (spop st', out', ev')))) /\
      snd (exec_list br (st, out)) =
        snd (fst (let '(st', out', ev') := sexec_list br (spush sst TIf [], out, ev) in (spop st', out', ev'))) /\
      tags (fst (fst (let '(st', out', ev') := sexec_list br (spush sst TIf [], out, ev) in (spop st', out', ev')))) = tags sst).
    { intros br Hb Hn.
      pose proof (sim2_list br Hb Hn st (spush sst TIf []) out ev (R2_push_soft _ _ TIf HR eq_refl)) as S.
      destruct (exec_list br (st, out)) as [st' out'].
      destruct (sexec_list br (spush sst TIf [], out, ev)) as [[sst' sout'] ev']. cbn in *.
      intros HE. destruct (S HE) as (HR' & HO & HT).
      destruct (R2_pop_soft _ _ TIf (tags sst) HR' HT eq_refl) as [A B]. auto. }
    destruct (truthy_nz (seval_expr sst c)); [apply G | apply G]; assumption.
  - intros x items body _ Hh. discriminate.
  - intros x a b incl body H Hh st sst out ev HR. cbn [no_each] in Hh. rewrite no_each_go in Hh.
    rewrite sexec_for, exec_for. generalize (spec_range a b incl). intros l. revert st sst out ev HR.
    induction l as [|i r IH]; intros st sst out ev HR; cbn [fold_left]; [cbn; auto|].
    cbn [fst snd].
    pose proof (sim2_list body H Hh (push st [(x, SV i)]) (spush sst TFor [(x, SV i)]) out ev
                  (R2_push_hard _ _ TFor _ HR eq_refl)) as S.
    destruct (exec_list body (push st [(x, SV i)], out)) as [st' out'].
    destruct (sexec_list body (spush sst TFor [(x, SV i)], out, ev)) as [[sst' sout'] ev'] eqn:EB.
    intros HE.
    assert (E1 : ev' = ev_none).
    { clear - HE. revert HE. generalize (spop sst') sout' ev'. clear sst' sout' ev'.
      induction r as [|j r IHr]; intros s0 o0 e0; cbn [fold_left]; [auto|].
      pose proof (monoU_any body (spush s0 TFor [(x, SV j)], o0, e0)) as M.
      destruct (sexec_list body _) as [[s2 o2] e2]. cbn in M. intros E. apply M. eapply IHr. exact E. }
    cbn in S. destruct (S E1) as (HR' & HO & HT). subst sout'.
    destruct (R2_pop_hard _ _ TFor (tags sst) HR' HT eq_refl) as [A B].
    destruct (IH (pop st') (spop sst') out' ev' A HE) as (P1 & P2 & P3).
    split; [exact P1 | split; [exact P2 | rewrite P3; exact B]].
  - intros n body H Hh st sst out ev HR. cbn [no_each] in Hh. rewrite no_each_go in Hh.
    rewrite sexec_while, exec_while.
    assert (L : forall st sst out ev, R2 st sst ->
              snd (repeat_fn n (sexec_list body) (sst, out, ev)) = ev_none ->
              R2 (fst (repeat_fn n (exec_list body) (st, out))) (fst (fst (repeat_fn n (sexec_list body) (sst, out, ev)))) /\
              snd (repeat_fn n (exec_list body) (st, out)) = snd (fst (repeat_fn n (sexec_list body) (sst, out, ev))) /\
              tags (fst (fst (repeat_fn n (sexec_list body) (sst, out, ev)))) = tags sst).
    { clear st sst out ev HR. induction n as [|n IH]; intros st sst out ev HR; cbn [repeat_fn]; [cbn; auto|].
      intros HE.
      assert (E1 : snd (sexec_list body (sst, out, ev)) = ev_none).
      { clear - HE. revert HE. generalize (sexec_list body (sst, out, ev)). clear sst out ev.
        induction n as [|n IHn]; intros so; cbn [repeat_fn]; [auto|].
        intros E. apply (monoU_any body). apply IHn. exact E. }
      destruct (sim2_list body H Hh st sst out ev HR E1) as (HR1 & HO1 & HT1).
      destruct (exec_list body (st, out)) as [st1 out1].
      destruct (sexec_list body (sst, out, ev)) as [[sst1 sout1] ev1]. cbn in *. subst sout1.
      destruct (IH st1 sst1 out1 ev1 HR1 HE) as (A & B & C). split; [exact A | split; [exact B | rewrite C; exact HT1]]. }
    specialize (L (push st []) (spush sst TWhile []) out ev (R2_push_hard _ _ TWhile [] HR eq_refl)).
    destruct (repeat_fn n (exec_list body) (push st [], out)) as [st' out'].
    destruct (repeat_fn n (sexec_list body) (spush sst TWhile [], out, ev)) as [[sst' sout'] ev']. cbn in *.
    intros HE. destruct (L HE) as (HR' & HO & HT).
    destruct (R2_pop_hard _ _ TWhile (tags sst) HR' HT eq_refl) as [A B]. auto.
  - intros ps body H Hh st sst out ev HR. cbn [no_each] in Hh. rewrite no_each_go in Hh.
    rewrite sexec_mixin, exec_mixin. cbn zeta.
    assert (EA : map (fun p => (fst p, eval_expr st (snd p))) ps = map (fun p => (fst p, seval_expr sst (snd p))) ps).
    { apply map_ext. intros p. rewrite (R2_eval _ _ _ HR). reflexivity. }
    rewrite EA.
    match goal with |- context [fold_left ?f ?l (@nil (var * sval))] => set (pf := fold_left f l []) end.
    pose proof HR as (H1 & H2 & H3).
    assert (HR0 : R2 (mkSt [pf] (global st)) (mkSS [(TMixin, pf)] (sglobal sst))).
    { unfold R2. cbn. rewrite H2. repeat split; auto. constructor; [intros E; cbn in E; discriminate | constructor]. }
    pose proof (sim2_list body H Hh _ _ out ev HR0) as S.
    destruct (exec_list body (mkSt [pf] (global st), out)) as [st' out'].
    destruct (sexec_list body (mkSS [(TMixin, pf)] (sglobal sst), out, ev)) as [[sst' sout'] ev']. cbn in *.
    intros HE. apply ev_or_none in HE. destruct HE as [HE _].
    destruct (S HE) as ((_ & HG & _) & HO & _). split; [|split; [exact HO | reflexivity]].
    unfold R2. cbn. rewrite HG. auto.
Qed.

Lemma main_gen2 p st sst out :
  R2 st sst -> no_each_list p = true ->
  snd (sexec_list p (sst, out, ev_none)) = ev_none ->
  snd (exec_list p (st, out)) = snd (fst (sexec_list p (sst, out, ev_none))).
Proof.
  intros HR Hh HE.
  assert (A : Forall sim2 p) by (apply Forall_forall; intros; apply all_sim2).
  exact (proj1 (proj2 (sim2_list p A Hh st sst out ev_none HR HE))).
Qed.

Lemma main_partial_if p :
  no_each_list p = true -> known_class p = 0 -> run_prog p = fst (spec_run p).
Proof.
  intros Hh Hk.
  assert (HR : R2 (mkSt [] []) (mkSS [] [])) by (unfold R2; cbn; auto).
  assert (E : snd (spec_run p) = ev_none).
  { unfold known_class in Hk. destruct (snd (spec_run p)) as [a b c]. cbn in Hk.
    destruct a; [discriminate|]. destruct b; [discriminate|]. destruct c; [discriminate|]. reflexivity. }
  pose proof (spec_run_ev p) as Ev. pose proof (spec_run_out p) as Ou.
  unfold run_prog. refine (eq_trans _ (eq_sym Ou)).
  apply main_gen2; [exact HR | exact Hh | exact (eq_trans (eq_sym Ev) E)].
Qed.
