(* Proofs for C20: bubbling of at-rules and @at-root in the destination model,
   for arbitrary selectors, names and declaration lists. *)
From Coq Require Import List NArith Bool Arith Lia.
From RV Require Spec.CssTok.
From RV Require Import Base.Text Model.Out Model.OutDest Spec.Bubble.
Import ListNotations.
Local Open Scope N_scope.

Definition sdecls (ds : list (bytes * bytes)) : list stmt := map (fun d => SDecl (fst d) (snd d)) ds.
Definition idecls (ds : list (bytes * bytes)) : list item := map (fun d => IProp (fst d) (same_leaf (snd d))) ds.
Definition rule (t : bytes) (ds : list (bytes * bytes)) : list item :=
  match ds with [] => [] | _ => [IRule [same_leaf t] (idecls ds)] end.

Lemma run_body_app f l1 l2 st : run_body f (l1 ++ l2) st = bind (run_body f l1 st) (run_body f l2).
Proof.
  revert st. induction l1 as [|x r IH]; intros st; [reflexivity|].
  cbn [app run_body]. destruct (f st x); cbn [bind]; try reflexivity. apply IH.
Qed.

Section Decls.
  Variables (n : nat) (ms : list (list stmt)) (c : bool) (cenv : list (option (list stmt))) (ctx : sctx).
  Let ev := eval_item (S n) ms c cenv ctx.

  (* consecutive declarations are appended, in order, to the buffer of the innermost destination *)
  Lemma decls_rule : forall ds s b rest root lost,
    run_body ev (sdecls ds) (mkD (FRule (s, b) :: rest) root lost)
    = Ok (mkD (FRule (s, b ++ idecls ds) :: rest) root lost).
  Proof.
    induction ds as [|d r IH]; intros s b rest root lost.
    - cbn. rewrite app_nil_r. reflexivity.
    - cbn [sdecls map run_body]. unfold ev at 1. cbn [eval_item d_frames d_root push_property with_frames bind fst snd d_lost].
      fold ev. fold (sdecls r). rewrite IH. cbn [idecls map]. rewrite <- app_assoc. reflexivity.
  Qed.

  Lemma decls_media : forall ds a s b body rest root lost,
    run_body ev (sdecls ds) (mkD (FMedia a (Some (s, b)) body :: rest) root lost)
    = Ok (mkD (FMedia a (Some (s, b ++ idecls ds)) body :: rest) root lost).
  Proof.
    induction ds as [|d r IH]; intros a s b body rest root lost.
    - cbn. rewrite app_nil_r. reflexivity.
    - cbn [sdecls map run_body]. unfold ev at 1. cbn [eval_item d_frames d_root push_property with_frames bind fst snd d_lost].
      fold ev. fold (sdecls r). rewrite IH. cbn [idecls map]. rewrite <- app_assoc. reflexivity.
  Qed.

  Lemma decls_at : forall ds an a s b body rest root lost,
    run_body ev (sdecls ds) (mkD (FAt an a (Some (s, b)) body :: rest) root lost)
    = Ok (mkD (FAt an a (Some (s, b ++ idecls ds)) body :: rest) root lost).
  Proof.
    induction ds as [|d r IH]; intros an a s b body rest root lost.
    - cbn. rewrite app_nil_r. reflexivity.
    - cbn [sdecls map run_body]. unfold ev at 1. cbn [eval_item d_frames d_root push_property with_frames bind fst snd d_lost].
      fold ev. fold (sdecls r). rewrite IH. cbn [idecls map]. rewrite <- app_assoc. reflexivity.
  Qed.
End Decls.

Lemma check_decls c ds : check_body c (sdecls ds) = true.
Proof. induction ds as [|d r IH]; [reflexivity|]. cbn. destruct c; exact IH. Qed.

Lemma check_body_app c a b : check_body c (a ++ b) = check_body c a && check_body c b.
Proof. apply forallb_app. Qed.

Definition top (body : list item) : dstate := mkD [] (mkData [] body) 0.

Lemma check_rule_true l : check_body BRule l = true.
Proof. induction l as [|x r IH]; [reflexivity|]. cbn. destruct x; exact IH. Qed.

Lemma idecls_nil ds : idecls ds = [] -> ds = [].
Proof. destruct ds; [reflexivity | discriminate]. Qed.

(* Drop of a style-rule destination whose parent is the top level *)
Lemma close_rule_top s b body :
  close (mkD [FRule (s, b)] (mkData [] body) 0)
  = top (body ++ match b with [] => [] | _ => [IRule s b] end ++ [ISep]).
Proof.
  destruct b as [|x r]; cbn.
  - reflexivity.
  - unfold top. cbn. rewrite <- app_assoc. reflexivity.
Qed.

(* pushing a block item through a style-rule destination whose parent is the top level *)
Lemma push_through_rule s b body it :
  is_sep it = false -> no_body_at it = false -> is_import it = false ->
  push_item [FRule (s, b)] (mkData [] body) it
  = Ok ([FRule (s, [])], mkData [] (body ++ match b with [] => [] | _ => [IRule s b] end ++ [it])).
Proof.
  intros H1 H2 H3. unfold push_item. cbn [length push_item_f]. rewrite H1, H2.
  destruct b as [|x r]; cbn [push_item_f]; unfold root_push; rewrite H3; cbn.
  - reflexivity.
  - rewrite <- app_assoc. reflexivity.
Qed.

Lemma rule_eq t ds : match idecls ds with [] => [] | _ => [IRule [same_leaf t] (idecls ds)] end = rule t ds.
Proof. destruct ds; reflexivity. Qed.

(* one-step unfoldings of the evaluator *)
Lemma eval_rule n ms c cenv ctx st sels b :
  eval_item (S n) ms c cenv ctx st (SRule sels b) =
  if negb (check_body BRule b) then Err EAtRule else
  match nest ctx sels with
  | None => Outside
  | Some ss => bind (start_rule st (leaves ss)) (fun st1 =>
               bind (run_body (eval_item n ms c cenv (mkCtx (Some ss) None)) b st1) (fun st2 => Ok (OutDest.close st2)))
  end.
Proof. reflexivity. Qed.
Lemma eval_media n ms c cenv ctx st q b :
  eval_item (S n) ms c cenv ctx st (SMedia q b) =
  bind (start_atmedia st (MName q)) (fun st1 =>
  bind (run_body (eval_item n ms c cenv ctx) b st1) (fun st2 => Ok (OutDest.close st2))).
Proof. reflexivity. Qed.
Lemma eval_at n ms c cenv ctx st name args b :
  eval_item (S n) ms c cenv ctx st (SAtR name args (Some b)) =
  bind (start_atrule st name (option_map same_leaf args)) (fun st1 =>
  bind (run_body (eval_item n ms c cenv (if bytes_eqb name keyframes_name then root_ctx else ctx)) b st1)
       (fun st2 => Ok (OutDest.close st2))).
Proof. reflexivity. Qed.
Lemma eval_atroot n ms c cenv ctx st sels b :
  eval_item (S n) ms c cenv ctx st (SAtRoot sels b) =
  match at_root ctx sels with
  | None => Outside
  | Some ctx' =>
      match c_s ctx' with
      | Some ss => bind (start_rule st (leaves ss)) (fun st1 =>
                   bind (run_body (eval_item n ms c cenv ctx') b st1) (fun st2 => Ok (OutDest.close st2)))
      | None => run_body (eval_item n ms c cenv ctx') b st
      end
  end.
Proof. reflexivity. Qed.
Arguments eval_item : simpl never.

Lemma run_body_cons f x r st : run_body f (x :: r) st = bind (f st x) (run_body f r).
Proof. reflexivity. Qed.
Lemma run_body_nil f st : run_body f [] st = Ok st.
Proof. reflexivity. Qed.
Lemma run_body_nil_fun f : run_body f [] = fun st => Ok st.
Proof. reflexivity. Qed.
Lemma bind_ok_r {A} (r : res A) : bind r (fun x => Ok x) = r.
Proof. destruct r; reflexivity. Qed.

Lemma bubble_media n t q ds1 ds2 ds3 :
  eval_program (S (S (S n))) false
    (mkProg [] [SRule [SPlain t] (sdecls ds1 ++ [SMedia q (sdecls ds2)] ++ sdecls ds3)])
  = Ok (top (rule t ds1 ++ [IMedia (MName q) (rule t ds2)] ++ rule t ds3 ++ [ISep])).
Proof.
  unfold eval_program. cbn [p_mixins p_main forallb negb].
  rewrite run_body_cons, run_body_nil_fun, eval_rule, check_rule_true. cbn [negb nest map nest1 root_ctx c_s all_some].
  change (round_robin [[t]]) with [t].
  cbn [start_rule d_frames d_root d_lost bind leaves map].
  rewrite run_body_app. rewrite decls_rule. cbn [bind app].
  rewrite run_body_cons, eval_media.
  unfold start_atmedia. cbn [d_frames d_root d_lost rule_of bind]. rewrite decls_media. cbn [bind app].
  cbn [OutDest.close d_frames d_root d_lost].
  set (body' := match idecls ds2 with [] => [] | _ :: _ => _ end).
  assert (Hb : body' = rule t ds2) by (unfold body'; destruct ds2; reflexivity).
  unfold drop_push. rewrite push_through_rule by reflexivity. cbn [separate bind].
  rewrite decls_rule. cbn [bind app]. rewrite close_rule_top.
  rewrite Hb, !rule_eq. rewrite <- !app_assoc. reflexivity.
Qed.

(* a non-flat at-rule (@supports, unknown names) nested in a style rule *)
Lemma bubble_atrule n t name args ds1 ds2 ds3 :
  is_flat_rule name = false -> bytes_eqb name keyframes_name = false ->
  eval_program (S (S (S n))) false
    (mkProg [] [SRule [SPlain t] (sdecls ds1 ++ [SAtR name args (Some (sdecls ds2))] ++ sdecls ds3)])
  = Ok (top (rule t ds1 ++ [IAt name (option_map same_leaf args) (Some [IRule [same_leaf t] (idecls ds2)])]
             ++ rule t ds3 ++ [ISep])).
Proof.
  intros Hflat Hkf.
  unfold eval_program. cbn [p_mixins p_main forallb negb].
  rewrite run_body_cons, run_body_nil_fun, eval_rule, check_rule_true. cbn [negb nest map nest1 root_ctx c_s all_some].
  change (round_robin [[t]]) with [t].
  cbn [start_rule d_frames d_root d_lost bind leaves map].
  rewrite run_body_app. rewrite decls_rule. cbn [bind app].
  rewrite run_body_cons, eval_at, Hkf.
  unfold start_atrule. cbn [d_frames d_root d_lost rule_of bind]. rewrite Hflat. cbn [bind]. rewrite decls_at. cbn [bind app].
  cbn [OutDest.close d_frames d_root d_lost].
  unfold drop_push. rewrite push_through_rule by reflexivity. cbn [separate bind].
  rewrite decls_rule. cbn [bind app]. rewrite close_rule_top.
  rewrite !rule_eq. rewrite <- !app_assoc. reflexivity.
Qed.

(* @keyframes: the rules of the body are not prefixed by the enclosing selector *)
Lemma keyframes_unprefixed n t args f ds :
  eval_program (S (S (S (S n)))) false
    (mkProg [] [SRule [SPlain t] [SAtR keyframes_name args (Some [SRule [SPlain f] (sdecls ds)])]])
  = Ok (top ([IAt keyframes_name (option_map same_leaf args) (Some (rule f ds))] ++ [ISep])).
Proof.
  unfold eval_program. cbn [p_mixins p_main forallb negb].
  rewrite run_body_cons, run_body_nil_fun, eval_rule, check_rule_true. cbn [negb nest map nest1 root_ctx c_s all_some].
  change (round_robin [[t]]) with [t].
  cbn [start_rule d_frames d_root d_lost bind leaves map].
  rewrite run_body_cons, run_body_nil_fun, eval_at.
  change (bytes_eqb keyframes_name keyframes_name) with true. cbv iota.
  unfold start_atrule. cbn [d_frames d_root d_lost rule_of bind].
  change (is_flat_rule keyframes_name) with true. cbv iota. cbn [bind].
  rewrite run_body_cons, run_body_nil_fun, eval_rule, check_rule_true.
  cbn [negb nest map nest1 root_ctx c_s all_some].
  change (round_robin [[f]]) with [f].
  cbn [start_rule d_frames d_root d_lost bind leaves map].
  rewrite decls_rule. cbn [bind app].
  destruct ds as [|d r]; cbn; reflexivity.
Qed.

(* @at-root without selector: the nested rule loses the parent selector *)
Lemma at_root_plain n t u ds :
  eval_program (S (S (S (S n)))) false
    (mkProg [] [SRule [SPlain t] [SAtRoot None [SRule [SPlain u] (sdecls ds)]]])
  = Ok (top (rule u ds ++ [ISep])).
Proof.
  unfold eval_program. cbn [p_mixins p_main forallb negb].
  rewrite run_body_cons, run_body_nil_fun, eval_rule, check_rule_true. cbn [negb nest map nest1 root_ctx c_s all_some].
  change (round_robin [[t]]) with [t].
  cbn [start_rule d_frames d_root d_lost bind leaves map].
  rewrite run_body_cons, run_body_nil_fun, eval_atroot. cbn [at_root get_backref c_s c_backref].
  rewrite run_body_cons, run_body_nil_fun, eval_rule, check_rule_true.
  cbn [negb nest map nest1 c_s all_some].
  change (round_robin [[u]]) with [u].
  cbn [start_rule d_frames d_root d_lost bind leaves map].
  rewrite decls_rule. cbn [bind app].
  destruct ds as [|d r]; cbn; reflexivity.
Qed.

(* @at-root with a selector that refers to the parent: `&` is resolved, the
   result replaces (is not nested under) the parent selector *)
Lemma at_root_selector n t x ds :
  eval_program (S (S (S n))) false
    (mkProg [] [SRule [SPlain t] [SAtRoot (Some [SSuffix x]) (sdecls ds)]])
  = Ok (top (rule (append_suffix t x) ds ++ [ISep])).
Proof.
  unfold eval_program. cbn [p_mixins p_main forallb negb].
  rewrite run_body_cons, run_body_nil_fun, eval_rule, check_rule_true. cbn [negb nest map nest1 root_ctx c_s all_some].
  change (round_robin [[t]]) with [t].
  cbn [start_rule d_frames d_root d_lost bind leaves map].
  rewrite run_body_cons, run_body_nil_fun, eval_atroot.
  cbn [at_root get_backref c_s c_backref map resolve1 all_some].
  change (round_robin [[append_suffix t x]]) with [append_suffix t x].
  cbn [start_rule d_frames d_root d_lost bind leaves map c_s].
  rewrite decls_rule. cbn [bind app].
  destruct ds as [|d r]; cbn; reflexivity.
Qed.

(* F33: the order of a direct declaration after a nested rule is not kept *)
Definition order_witness : program :=
  mkProg [] [SRule [SPlain [97]] [SMedia [112;114;105;110;116]
     [SRule [SPlain [98]] [SDecl [112;49] [118;49]]; SDecl [112;50] [118;50]]]].
Lemma refuted_order :
  exists o d, compile 64 Expanded order_witness = Ok (o, 0%nat) /\ reference order_witness = Some d
    /\ bytes_eqb (CssTok.normalize o) (CssTok.normalize (into_buffer Expanded d)) = false.
Proof. eexists. eexists. split; [vm_compute; reflexivity|]. split; [vm_compute; reflexivity|]. vm_compute. reflexivity. Qed.
