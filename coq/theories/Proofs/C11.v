(* Proofs for C11.  Finite-domain statements are decided by vm_compute over the
   WHOLE generated table and lifted with forallb_forall; statements about
   magnitudes hold for every pair of binary64 values. *)
From Coq Require Import String List ZArith QArith Qabs Bool Lia.
From RV Require Import Base.FExpr Base.F64 Base.ListX Gen.Units Model.Units Model.Numeric Spec.CssUnits Run.C11.
Import ListNotations.
Local Open Scope string_scope.

(* ---------- table well-formedness ---------- *)
Definition variant_wf (v : string) : bool :=
  match assoc v unit_dimension, assoc v unit_factor, assoc v unit_display with
  | Some _, Some e, Some _ => match feval e with Some _ => true | None => false end
  | _, _, _ => false
  end.
Definition parser_wf (p : string * string) : bool :=
  existsb (String.eqb (snd p)) known_variants
  && match assoc (snd p) unit_display with
     | Some d => String.eqb d (fst p) || String.eqb (fst p) "q"
     | None => false
     end.
Definition tables_wf : bool :=
  forallb variant_wf known_variants && forallb parser_wf parser_units
  && match assoc "Unknown" unit_factor with Some e => match feval e with Some _ => true | None => false end | None => false end.

Lemma tables_wf_ok : tables_wf = true.
Proof. vm_compute. reflexivity. Qed.

Lemma scale_to_shape : scale_to_shape_ok = true.
Proof. vm_compute. reflexivity. Qed.

(* ---------- which units convert ---------- *)
Definition disp (u : unit) : string := unit_display_str u.
Definition convertible (u v : unit) : bool :=
  match unit_scale_to u v with Some _ => true | None => false end.

Definition real_units : list unit := filter (fun u => negb (is_unit_none u)) all_known_units.

Definition groups_pred (u v : unit) : bool :=
  Bool.eqb (convertible u v) (same_group (disp u) (disp v)).

Lemma groups_sweep : forallb (fun u => forallb (groups_pred u) real_units) real_units = true.
Proof. vm_compute. reflexivity. Qed.

(* since the fix of F15 there is no exception: two units convert iff CSS puts them in one group *)
Lemma groups : forall u v, In u real_units -> In v real_units ->
  convertible u v = same_group (disp u) (disp v).
Proof.
  intros u v Hu Hv.
  pose proof (sweep2 real_units real_units groups_pred groups_sweep u v Hu Hv) as H.
  unfold groups_pred in H. apply eqb_prop in H. exact H.
Qed.

(* the former F15 pairs in particular *)
Lemma lone_units_do_not_convert :
  convertible (UK "Em") (UK "Ex") = false /\ convertible (UK "Em") (UK "Ch") = false
  /\ convertible (UK "Vmin") (UK "Vmax") = false /\ convertible (UK "Percent") (UK "Fr") = false
  /\ convertible (UK "Fr") (UK "Percent") = false.
Proof. vm_compute. repeat split; reflexivity. Qed.

(* every unit the CSS table knows is a unit of the code, and vice versa *)
Lemma units_cover : forallb (fun u => is_known_unit (disp u)) real_units = true
  /\ forallb (fun n => existsb (fun u => String.eqb (disp u) n) real_units)
       (map fst css_units ++ css_lone_units) = true.
Proof. vm_compute. split; reflexivity. Qed.

(* ---------- the ratios ---------- *)
Definition q_of_f (x : f64) : option Q :=
  match f_to_Q x with
  | Some (m, e) => Some (if (0 <=? e)%Z then inject_Z (m * 2 ^ e)%Z else (m # Z.to_pos (2 ^ (- e))%Z))
  | None => None
  end.
Definition tol_ulp : Q := 1 # 1000000000000000.     (* 1e-15: a few units in the last place *)
Definition ratio_ok (u v : unit) : bool :=
  match unit_scale_to u v, sassoc (disp u) css_units, sassoc (disp v) css_units with
  | Some f, Some (gu, ru), Some (gv, rv) =>
      if String.eqb gu gv then
        match q_of_f f with Some q => q_close tol_ulp q (ru / rv) | None => false end
      else true
  | None, Some (gu, _), Some (gv, _) => negb (String.eqb gu gv)
  | _, _, _ => true
  end.
Lemma ratios_sweep : forallb (fun u => forallb (ratio_ok u) real_units) real_units = true.
Proof. vm_compute. reflexivity. Qed.

Lemma ratios : forall u v, In u real_units -> In v real_units -> ratio_ok u v = true.
Proof. exact (sweep2 real_units real_units ratio_ok ratios_sweep). Qed.

(* ---------- structure of + and -, for all magnitudes ---------- *)
Lemma us_is_none_nil : us_is_none [] = true.
Proof. reflexivity. Qed.

Lemma unitless_plus_r : forall a b s,
  eval_nop OPlus (mkNum a s) (mkNum b []) = RNum (mkNum (fadd a b) s).
Proof.
  intros a b s. unfold eval_nop, plus_minus, num_is_no_unit. cbn [nunit nval].
  rewrite us_is_none_nil, orb_true_r. reflexivity.
Qed.

Lemma unitless_plus_l : forall a b s, us_is_none s = false ->
  eval_nop OPlus (mkNum a []) (mkNum b s) = RNum (mkNum (fadd a b) s).
Proof.
  intros a b s Hs. unfold eval_nop, plus_minus, num_is_no_unit. cbn [nunit nval].
  rewrite Hs, us_is_none_nil.
  destruct s as [|[u p] r]; [discriminate Hs|]. cbn [us_eqb orb]. reflexivity.
Qed.

Lemma unitless_minus_r : forall a b s,
  eval_nop OMinus (mkNum a s) (mkNum b []) = RNum (mkNum (fsub a b) s).
Proof.
  intros a b s. unfold eval_nop, plus_minus, num_is_no_unit. cbn [nunit nval].
  rewrite us_is_none_nil, orb_true_r. reflexivity.
Qed.

Lemma unitless_minus_l : forall a b s, us_is_none s = false ->
  eval_nop OMinus (mkNum a []) (mkNum b s) = RNum (mkNum (fsub a b) s).
Proof.
  intros a b s Hs. unfold eval_nop, plus_minus, num_is_no_unit. cbn [nunit nval].
  rewrite Hs, us_is_none_nil.
  destruct s as [|[u p] r]; [discriminate Hs|]. cbn [us_eqb orb]. reflexivity.
Qed.

Lemma unit_eqb_refl : forall u, unit_eqb u u = true.
Proof. destruct u; simpl; apply String.eqb_refl. Qed.

Lemma us_eqb_refl : forall s, us_eqb s s = true.
Proof.
  induction s as [|[u p] r IH]; [reflexivity|].
  cbn [us_eqb]. rewrite unit_eqb_refl, Z.eqb_refl, IH. reflexivity.
Qed.

Lemma same_unit_plus : forall a b s,
  eval_nop OPlus (mkNum a s) (mkNum b s) = RNum (mkNum (fadd a b) s).
Proof.
  intros. unfold eval_nop, plus_minus. cbn [nunit nval]. rewrite us_eqb_refl. reflexivity.
Qed.

(* two different single units: a number comes out only through the table ratio *)
Lemma single_scale : forall u v, is_unit_none u = false -> is_unit_none v = false ->
  us_scale_to (us_of_unit v) (us_of_unit u) =
  match unit_scale_to v u with Some f => SSome f | None => SNone end.
Proof.
  intros u v Hu Hv. unfold us_of_unit. rewrite Hu, Hv.
  unfold us_scale_to, us_scale_to_unit. reflexivity.
Qed.

Lemma plus_two_units : forall a b u v,
  is_unit_none u = false -> is_unit_none v = false -> unit_eqb u v = false ->
  eval_nop OPlus (mkNum a (us_of_unit u)) (mkNum b (us_of_unit v)) =
  match unit_scale_to v u with
  | Some f => RNum (mkNum (fadd a (fmul b f)) (us_of_unit u))
  | None => RKept
  end.
Proof.
  intros a b u v Hu Hv Huv.
  unfold eval_nop, plus_minus, num_is_no_unit, num_as_unitset. cbn [nunit nval].
  rewrite (single_scale u v Hu Hv).
  unfold us_of_unit. rewrite Hu, Hv. cbn [us_eqb us_is_none forallb fst].
  rewrite Huv, Hu, Hv. cbn [andb orb].
  destruct (unit_scale_to v u); reflexivity.
Qed.

Lemma incompatible_kept : forall a b u v,
  is_unit_none u = false -> is_unit_none v = false -> unit_eqb u v = false ->
  convertible v u = false ->
  eval_nop OPlus (mkNum a (us_of_unit u)) (mkNum b (us_of_unit v)) = RKept.
Proof.
  intros a b u v Hu Hv Huv Hc. rewrite (plus_two_units a b u v Hu Hv Huv).
  unfold convertible in Hc. destruct (unit_scale_to v u); [discriminate|reflexivity].
Qed.

(* products / quotients of two non-convertible units keep both exponents *)
Lemma mul_div_exponents : forall a b u v,
  is_unit_none u = false -> is_unit_none v = false -> unit_eqb u v = false ->
  unit_scale_to v u = None ->
  numeric_mul (mkNum a (us_of_unit u)) (mkNum b (us_of_unit v))
    = Some (mkNum (fmul (fmul a b) f_one) [(u, 1%Z); (v, 1%Z)])
  /\ numeric_div (mkNum a (us_of_unit u)) (mkNum b (us_of_unit v))
    = Some (mkNum (fmul (fdiv a b) f_one) [(u, 1%Z); (v, (-1)%Z)]).
Proof.
  intros a b u v Hu Hv Huv Hs.
  unfold numeric_mul, numeric_div, numeric_simplify, us_mul, us_div, us_combine, us_of_unit.
  rewrite Hu, Hv. cbn [nunit nval fold_left us_bump]. rewrite Huv.
  cbn [app us_retain filter snd Z.eqb negb Z.mul Pos.mul].
  unfold us_simplify. cbn [Z.eqb orb]. rewrite Hs. split; reflexivity.
Qed.

(* same unit: the quotient is unitless, the product squares the unit *)
Lemma div_same_unit : forall a b u, is_unit_none u = false ->
  numeric_div (mkNum a (us_of_unit u)) (mkNum b (us_of_unit u))
    = Some (mkNum (fmul (fdiv a b) f_one) []).
Proof.
  intros a b u Hu.
  unfold numeric_div, numeric_simplify, us_div, us_combine, us_of_unit.
  rewrite Hu. cbn [nunit nval fold_left us_bump]. rewrite unit_eqb_refl.
  cbn. reflexivity.
Qed.
