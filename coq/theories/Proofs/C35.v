(* Proofs for C35. *)
From Coq Require Import String Ascii List ZArith Bool.
From RV Require Import Model.EvValue Model.EvArgs Model.EvScope Model.EvRewrite.
Import ListNotations.

(* every spelling of a name is the same Name *)
Lemma sepc_norm c d : sepc c = true -> sepc d = true ->
  (if Ascii.eqb c "-"%char then "_"%char else c) = (if Ascii.eqb d "-"%char then "_"%char else d).
Proof.
  unfold sepc. intros Hc Hd. apply orb_true_iff in Hc, Hd.
  destruct Hc as [Hc|Hc], Hd as [Hd|Hd]; apply Ascii.eqb_eq in Hc, Hd; subst; reflexivity.
Qed.

Lemma respell_norm a : forall b, respell a b = true -> norm a = norm b.
Proof.
  induction a as [|c a IH]; intros [|d b] H; try discriminate; [reflexivity|].
  cbn [respell] in H. apply andb_true_iff in H. destruct H as [H1 H2]. cbn [norm]. rewrite (IH b H2). f_equal.
  apply orb_true_iff in H1. destruct H1 as [H1|H1].
  - apply Ascii.eqb_eq in H1. subst d. reflexivity.
  - apply andb_true_iff in H1. destruct H1. apply sepc_norm; assumption.
Qed.

(* @debug / @warn only add to the stderr trace *)
Lemma debug_warn l : forall st out tr,
  fst (exec_items l (st, out, tr)) = exec_list (strip l) (st, out).
Proof.
  induction l as [|i r IH]; intros st out tr; [reflexivity|].
  unfold exec_items in *. cbn [fold_left strip flat_map]. destruct i as [s|e|e]; cbn [exec_item app].
  - destruct (exec s (st, out)) as [st' out'] eqn:E. rewrite IH. cbn [exec_list]. rewrite E. reflexivity.
  - apply IH.
  - apply IH.
Qed.

(* the binder sees names only through their normalisation *)
Lemma norm_idem' s : norm (norm s) = norm s.
Proof.
  induction s as [|c r IH]; [reflexivity|]. cbn [norm]. rewrite IH. f_equal.
  destruct (Ascii.eqb c "-"%char) eqn:E; [reflexivity | rewrite E; reflexivity].
Qed.

Lemma explicit_named_norm l : forall acc, explicit_named (norm_kvs l) acc = explicit_named l acc.
Proof.
  induction l as [|[k v] r IH]; intros acc; [reflexivity|]. cbn [norm_kvs map explicit_named fst snd].
  rewrite norm_idem'. destruct (n_insert acc (norm k) v) as [a o]. destruct o; [reflexivity | apply IH].
Qed.
Lemma add_map_norm n o : add_map n (option_map norm_kvs o) = add_map n o.
Proof. destruct o as [kvs|]; [|reflexivity]. cbn [option_map add_map]. apply explicit_named_norm. Qed.
Lemma call_evaluate_norm c : call_evaluate (norm_call c) = call_evaluate c.
Proof.
  unfold call_evaluate, norm_call. cbn [c_named c_pos c_lsplat c_msplat c_asplat].
  rewrite explicit_named_norm. destruct (explicit_named (c_named c) []) as [n|]; [|reflexivity].
  destruct (c_asplat c) as [[p kw]|]; cbn [option_map add_arglist arglist_pos fst snd].
  - rewrite explicit_named_norm. destruct (explicit_named kw n); [|reflexivity]. rewrite add_map_norm. reflexivity.
  - rewrite add_map_norm. reflexivity.
Qed.

Lemma eval_default_norm b d : eval_default b (norm_dexpr d) = eval_default b d.
Proof. destruct d; [reflexivity|]. cbn. rewrite norm_idem'. reflexivity. Qed.

Definition norm_params (ps : list (string * option dexpr)) :=
  map (fun p => (norm (fst p), option_map norm_dexpr (snd p))) ps.

Lemma bind_rest_params_norm ps : forall b nm,
  bind_rest_params (norm_params ps) b nm = bind_rest_params ps b nm.
Proof.
  induction ps as [|[name d] r IH]; intros b nm; [reflexivity|].
  cbn [norm_params map bind_rest_params fst snd]. rewrite norm_idem'.
  destruct (n_remove nm (norm name)) as [[v|] nm']; [apply IH|].
  destruct d as [d|]; [|reflexivity]. cbn [option_map]. rewrite eval_default_norm.
  destruct (eval_default b d); [apply IH | reflexivity].
Qed.

Lemma skipn_norm_params n ps : skipn n (norm_params ps) = norm_params (skipn n ps).
Proof. unfold norm_params. revert n. induction ps as [|p r IH]; intros [|n]; cbn; auto. Qed.
Lemma combine_norm_params ps (l : list value) :
  map (fun pv => (norm (fst (fst pv)), snd pv)) (combine (norm_params ps) l)
  = map (fun pv => (norm (fst (fst pv)), snd pv)) (combine ps l).
Proof.
  revert l. induction ps as [|p r IH]; intros [|x l]; cbn; auto. rewrite norm_idem', IH. reflexivity.
Qed.

Lemma existsb_norm_params nm ps : forall k,
  existsb (fun p => match n_get nm (norm (fst p)) with Some _ => true | None => false end) (firstn k (norm_params ps))
  = existsb (fun p => match n_get nm (norm (fst p)) with Some _ => true | None => false end) (firstn k ps).
Proof.
  induction ps as [|p r IH]; intros [|k]; try reflexivity.
  unfold norm_params in *. cbn [map firstn existsb fst]. rewrite norm_idem'. rewrite IH. reflexivity.
Qed.

Lemma formal_eval_norm s pos nm : formal_eval (norm_sig s) pos nm = formal_eval s pos nm.
Proof.
  unfold formal_eval, norm_sig. cbn [s_params s_rest]. fold (norm_params (s_params s)).
  assert (L : length (norm_params (s_params s)) = length (s_params s)) by apply map_length.
  rewrite L. rewrite combine_norm_params, skipn_norm_params, bind_rest_params_norm.
  rewrite existsb_norm_params.
  destruct (s_rest s) as [r|]; cbn [option_map]; [|reflexivity].
  destruct (_ && _); [reflexivity|]. destruct (bind_rest_params _ _ _) as [[b' nm']|]; [|reflexivity].
  rewrite norm_idem'. reflexivity.
Qed.

Lemma bind_norm s c : model_bind (norm_sig s) (norm_call c) = model_bind s c.
Proof.
  unfold model_bind. rewrite call_evaluate_norm. destruct (call_evaluate c) as [[pos nm]|]; [|reflexivity].
  apply formal_eval_norm.
Qed.
