(* Proofs for C09: printing a quoted string and reading it back as plain CSS. *)
From Coq Require Import List NArith Bool Lia.
From RV Require Import Base.Text Model.CssStr Model.CssRead.
Import ListNotations.
Local Open Scope N_scope.

Definition lacks (q : N) (x : list N) : bool := forallb (fun c => negb (c =? q)) x.
Definition qchar (k : quotes) : N := match k with QSingle => 39 | _ => 34 end.

(* characters the reader copies and Display writes as they are, or - the quote itself -
   escapes and un-escapes: everything but the backslash and private-use characters *)
Definition simple (c : N) : bool := negb (c =? 92) && negb (is_private_use c).

(* reading what Display wrote for the body, up to the closing quote, gives the value back:
   ALSO when the value contains the string's own quote character *)
Lemma read_display q v rest : (q = 34 \/ q = 39) -> forallb simple v = true ->
  read_body q (disp_body q v ++ q :: rest) = Some (v, rest).
Proof.
  intros Hq. induction v as [|c r IH]; intros H.
  - cbn. rewrite N.eqb_refl. reflexivity.
  - cbn in H. apply andb_true_iff in H. destruct H as [Hc Hr]. unfold simple in Hc.
    apply andb_true_iff in Hc. destruct Hc as [H92 Hp]. rewrite negb_true_iff in H92, Hp.
    cbn [disp_body].
    destruct (N.eqb_spec c q) as [e|ne].
    + subst c. cbn [app read_body]. rewrite H92.
      assert (E92 : (92 =? q) = false) by (destruct Hq; subst q; reflexivity).
      rewrite E92. rewrite N.eqb_refl. rewrite N.eqb_refl. rewrite (IH Hr). reflexivity.
    + rewrite Hp. cbn [app read_body]. apply N.eqb_neq in ne. rewrite ne, H92. rewrite (IH Hr). reflexivity.
Qed.

Lemma roundtrip k v : k <> QNone -> forallb simple v = true ->
  reprint (mkStr v k) = Some (display_q (mkStr v k), []).
Proof.
  intros Hk Hv. unfold reprint. cbn [s_q].
  assert (Hq : quote_char k = Some (qchar k)) by (destruct k; try reflexivity; congruence).
  assert (Hq2 : qchar k = 34 \/ qchar k = 39) by (destruct k; auto).
  rewrite Hq. unfold display_q at 1. cbn [s_q s_val]. rewrite Hq.
  unfold read_quoted. rewrite N.eqb_refl.
  change (disp_body (qchar k) v ++ [qchar k]) with (disp_body (qchar k) v ++ qchar k :: []).
  rewrite (read_display (qchar k) v [] Hq2 Hv). reflexivity.
Qed.

(* through the value parser (pref_dquotes): for the quoting rsass itself chooses *)
Lemma roundtrip_value k v : k <> QNone -> forallb simple v = true ->
  pref_dquotes (mkStr v k) = mkStr v k ->
  reprint_value (mkStr v k) = Some (display_q (mkStr v k), []).
Proof.
  intros Hk Hv Hp. unfold reprint_value. cbn [s_q].
  assert (Hq : quote_char k = Some (qchar k)) by (destruct k; try reflexivity; congruence).
  assert (Hq2 : qchar k = 34 \/ qchar k = 39) by (destruct k; auto).
  rewrite Hq. unfold display_q at 1. cbn [s_q s_val]. rewrite Hq.
  unfold read_quoted. rewrite N.eqb_refl.
  change (disp_body (qchar k) v ++ [qchar k]) with (disp_body (qchar k) v ++ qchar k :: []).
  rewrite (read_display (qchar k) v [] Hq2 Hv). rewrite Hp. reflexivity.
Qed.

(* the former F12 witness: a, double quote, b in double quotes - with a single quote too, so
   that double quotes stay the preferred quoting - now reads back *)
Lemma escaped_quote_reads_back :
  reprint_value (mkStr [97;34;98;39;99] QDouble) = Some (display_q (mkStr [97;34;98;39;99] QDouble), []).
Proof. vm_compute. reflexivity. Qed.
