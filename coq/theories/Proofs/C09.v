(* Proofs for C09: printing a quoted string and reading it back as plain CSS. *)
From Coq Require Import List NArith Bool Lia.
From RV Require Import Base.Text Model.CssStr Model.CssRead.
Import ListNotations.
Local Open Scope N_scope.

Definition lacks (q : N) (x : list N) : bool := forallb (fun c => negb (c =? q)) x.

Lemma span_not_lacks q x r : lacks q x = true -> span_not q (x ++ q :: r) = (x, q :: r).
Proof.
  induction x as [|c x IH]; intros H.
  - cbn. rewrite N.eqb_refl. reflexivity.
  - cbn in H. apply andb_true_iff in H. destruct H as [Hc Hx].
    cbn [app span_not]. rewrite negb_true_iff in Hc. rewrite Hc, (IH Hx). reflexivity.
Qed.

Lemma lacks_app q a b : lacks q (a ++ b) = lacks q a && lacks q b.
Proof. apply forallb_app. Qed.

(* hex digits and the backslash are neither quote character, nor private use *)
Lemma hex_digits_fuel_ok P (HP : forall d, (d <? 16) = true -> P (hex_char d) = true) :
  forall fuel n acc, forallb P acc = true -> forallb P (hex_digits_fuel fuel n acc) = true.
Proof.
  induction fuel as [|f IH]; intros n acc Hacc; [exact Hacc|].
  cbn [hex_digits_fuel]. destruct (n <? 16) eqn:E.
  - cbn. rewrite HP by exact E. exact Hacc.
  - apply IH. cbn. rewrite HP; [exact Hacc|]. apply N.ltb_lt. apply N.mod_lt. lia.
Qed.

Lemma hex_char_cases d : (d <? 16) = true ->
  (hex_char d =? 34) = false /\ (hex_char d =? 39) = false /\ is_private_use (hex_char d) = false.
Proof.
  intros H. apply N.ltb_lt in H.
  assert (d = 0 \/ d = 1 \/ d = 2 \/ d = 3 \/ d = 4 \/ d = 5 \/ d = 6 \/ d = 7 \/ d = 8 \/ d = 9 \/ d = 10
          \/ d = 11 \/ d = 12 \/ d = 13 \/ d = 14 \/ d = 15) as C by lia.
  repeat (destruct C as [C|C]; [subst d; repeat split; reflexivity|]). subst d. repeat split; reflexivity.
Qed.

Definition plain (q : N) (c : N) : bool := negb (c =? q) && negb (is_private_use c).

Lemma hex_plain q n : (q = 34 \/ q = 39) -> forallb (plain q) (hex_of_N n) = true.
Proof.
  intros Hq. unfold hex_of_N. apply hex_digits_fuel_ok; [|reflexivity].
  intros d Hd. destruct (hex_char_cases d Hd) as [A [B C]]. unfold plain. rewrite C.
  destruct Hq; subst q; [rewrite A | rewrite B]; reflexivity.
Qed.

(* what Display writes for one character of a string WITHOUT the quote character
   consists of plain characters only *)
Lemma display_char_plain q c : (q = 34 \/ q = 39) -> (c =? q) = false ->
  forallb (plain q) (display_char (Some q) c) = true.
Proof.
  intros Hq Hc. unfold display_char. rewrite Hc. destruct (is_private_use c) eqn:P.
  - cbn [forallb]. rewrite (hex_plain q c Hq), andb_true_r. unfold plain.
    destruct Hq; subst q; reflexivity.
  - cbn. unfold plain. rewrite Hc, P. reflexivity.
Qed.

Lemma body_plain q v : (q = 34 \/ q = 39) -> lacks q v = true ->
  forallb (plain q) (flat_map (display_char (Some q)) v) = true.
Proof.
  intros Hq. induction v as [|c r IH]; intros H; [reflexivity|].
  cbn in H. apply andb_true_iff in H. destruct H as [Hc Hr]. rewrite negb_true_iff in Hc.
  cbn [flat_map]. rewrite forallb_app, (display_char_plain q c Hq Hc). apply IH, Hr.
Qed.

Lemma plain_lacks q x : forallb (plain q) x = true -> lacks q x = true.
Proof.
  induction x as [|c r IH]; intros H; [reflexivity|]. cbn in *.
  apply andb_true_iff in H. destruct H as [Hc Hr]. unfold plain in Hc. apply andb_true_iff in Hc.
  destruct Hc as [Hc _]. rewrite Hc. apply IH, Hr.
Qed.

(* plain characters are printed as themselves *)
Lemma display_plain q x : forallb (plain q) x = true -> flat_map (display_char (Some q)) x = x.
Proof.
  induction x as [|c r IH]; intros H; [reflexivity|]. cbn in H.
  apply andb_true_iff in H. destruct H as [Hc Hr]. unfold plain in Hc. apply andb_true_iff in Hc.
  destruct Hc as [Hq Hp]. rewrite negb_true_iff in Hq, Hp.
  cbn [flat_map]. unfold display_char at 1. rewrite Hq, Hp. cbn. f_equal. apply IH, Hr.
Qed.

Definition qchar (k : quotes) : N := match k with QSingle => 39 | _ => 34 end.

(* a quoted string without its own quote character reads back to the same text *)
Lemma roundtrip k v : k <> QNone -> lacks (qchar k) v = true ->
  reprint (mkStr v k) = Some (css_display (mkStr v k), []).
Proof.
  intros Hk Hv. unfold reprint. cbn [s_q].
  assert (Hq : quote_char k = Some (qchar k)) by (destruct k; try reflexivity; congruence).
  assert (Hq2 : qchar k = 34 \/ qchar k = 39) by (destruct k; auto).
  rewrite Hq. unfold css_display. cbn [s_q s_val]. rewrite Hq.
  set (q := qchar k) in *. set (body := flat_map (display_char (Some q)) v).
  assert (HP : forallb (plain q) body = true) by (apply body_plain; assumption).
  unfold read_quoted. rewrite N.eqb_refl.
  rewrite (span_not_lacks q body [] (plain_lacks q body HP)). rewrite N.eqb_refl.
  rewrite (display_plain q body HP). reflexivity.
Qed.

(* F12: with the quote character inside, the reader stops at the escaped quote *)
Lemma refuted_quote :
  reprint (mkStr [97;34;98] QDouble) = Some ([34;97;92;34], [98;34]).
Proof. vm_compute. reflexivity. Qed.

(* ---- with the re-quoting the value parser applies (pref_dquotes) ---- *)
Lemma contains_lacks q x : lacks q x = true -> contains q x = false.
Proof.
  induction x as [|c r IH]; intros H; [reflexivity|]. cbn in *.
  apply andb_true_iff in H. destruct H as [Hc Hr]. rewrite negb_true_iff in Hc.
  rewrite N.eqb_sym, Hc. apply IH, Hr.
Qed.

Lemma body_keeps_dquote v : lacks 39 v = true -> contains 34 v = true ->
  contains 34 (flat_map (display_char (Some 39)) v) = true.
Proof.
  induction v as [|c r IH]; intros Hl Hc; [discriminate|].
  cbn in Hl. apply andb_true_iff in Hl. destruct Hl as [Hc39 Hr].
  cbn [flat_map]. unfold contains in *. rewrite existsb_app. cbn [existsb] in Hc.
  destruct (N.eqb_spec 34 c) as [e|ne].
  - subst c. reflexivity.
  - cbn in Hc. rewrite (IH Hr Hc). apply orb_true_r.
Qed.

Lemma roundtrip_value_dq v : lacks 34 v = true ->
  reprint_value (mkStr v QDouble) = Some (css_display (mkStr v QDouble), []).
Proof.
  intros Hv. unfold reprint_value. cbn [s_q quote_char]. unfold css_display at 1. cbn [s_q s_val quote_char].
  set (body := flat_map (display_char (Some 34)) v).
  assert (HP : forallb (plain 34) body = true) by (apply body_plain; [left; reflexivity | exact Hv]).
  unfold read_quoted. rewrite N.eqb_refl.
  rewrite (span_not_lacks 34 body [] (plain_lacks 34 body HP)). rewrite N.eqb_refl.
  unfold pref_dquotes. cbn [s_val s_q]. rewrite (contains_lacks 34 body (plain_lacks 34 body HP)). cbn [andb].
  unfold css_display. cbn [s_q s_val quote_char]. rewrite (display_plain 34 body HP). reflexivity.
Qed.

Lemma roundtrip_value_sq v : lacks 39 v = true -> contains 34 v = true ->
  reprint_value (mkStr v QSingle) = Some (css_display (mkStr v QSingle), []).
Proof.
  intros Hv Hd. unfold reprint_value. cbn [s_q quote_char]. unfold css_display at 1. cbn [s_q s_val quote_char].
  set (body := flat_map (display_char (Some 39)) v).
  assert (HP : forallb (plain 39) body = true) by (apply body_plain; [right; reflexivity | exact Hv]).
  unfold read_quoted. rewrite N.eqb_refl.
  rewrite (span_not_lacks 39 body [] (plain_lacks 39 body HP)). rewrite N.eqb_refl.
  unfold pref_dquotes. cbn [s_val s_q].
  rewrite (contains_lacks 39 body (plain_lacks 39 body HP)).
  assert (Hb : contains 34 body = true) by (apply body_keeps_dquote; assumption).
  rewrite Hb. cbn [negb orb].
  unfold css_display. cbn [s_q s_val quote_char]. rewrite (display_plain 39 body HP). reflexivity.
Qed.
