(* Proofs for C06. *)
From Coq Require Import String List ZArith NArith Bool Arith Lia Reals.
From Flocq Require Import Core.Core IEEE754.BinarySingleNaN IEEE754.Binary IEEE754.Bits.
From RV Require Import Base.Text Base.FExpr Base.F64 Gen.Consts Model.Conc Model.Random Spec.CssIdent Run.C06.
Import ListNotations.
Local Open Scope N_scope.

(* ------------------------------------------------------------------ *)
(* printing a counter value is injective: parse_radix is a left inverse *)

Lemma char_val_digit up d : d < 16 -> char_val (digit_char up d) = d.
Proof.
  intros H. unfold char_val, digit_char.
  destruct (N.ltb_spec d 10).
  - destruct (N.ltb_spec (48 + d) 58); lia.
  - destruct up.
    + destruct (N.ltb_spec (55 + d) 58); [lia|]. destruct (N.ltb_spec (55 + d) 97); lia.
    + destruct (N.ltb_spec (87 + d) 58); [lia|]. destruct (N.ltb_spec (87 + d) 97); lia.
Qed.

Lemma parse_from_cons r a c l : parse_from r a (c :: l) = parse_from r (a * r + char_val c) l.
Proof. reflexivity. Qed.

Lemma parse_digits r up : 2 <= r -> r <= 16 -> forall fuel n acc,
  n < r ^ N.of_nat fuel -> parse_from r 0 (digits_go r up fuel n acc) = parse_from r n acc.
Proof.
  intros Hr2 Hr16. induction fuel as [|f IH]; intros n acc Hn.
  - cbn [digits_go]. change (N.of_nat 0) with 0 in Hn. rewrite N.pow_0_r in Hn.
    assert (n = 0) by lia. subst. reflexivity.
  - cbn [digits_go]. destruct (N.ltb_spec n r) as [Hlt|Hge].
    + rewrite parse_from_cons. rewrite char_val_digit by lia. replace (0 * r + n) with n by lia. reflexivity.
    + rewrite IH.
      * rewrite parse_from_cons. rewrite char_val_digit.
        -- f_equal. pose proof (N.div_mod n r). lia.
        -- pose proof (N.mod_upper_bound n r). lia.
      * rewrite Nat2N.inj_succ, N.pow_succ_r' in Hn.
        apply N.div_lt_upper_bound; lia.
Qed.

Lemma pow_mono_base r : 2 <= r -> 2 ^ 128 <= r ^ 128.
Proof. intros. apply N.pow_le_mono_l. assumption. Qed.

Lemma parse_fmt r up n : 2 <= r -> r <= 16 -> n < 2 ^ 128 -> parse_radix r (fmt_radix r up n) = n.
Proof.
  intros H2 H16 Hn. unfold parse_radix, fmt_radix. rewrite (parse_digits r up H2 H16).
  - reflexivity.
  - change (N.of_nat 128) with 128. pose proof (pow_mono_base r H2). lia.
Qed.

Definition params_ok (p : uid_params) : Prop :=
  2 <= up_radix p /\ up_radix p <= 16 /\ modulus p <= 2 ^ 128 /\ 0 < up_incr p.

Lemma id_bytes_inj p v w : params_ok p -> v < modulus p -> w < modulus p ->
  id_bytes p v = id_bytes p w -> v = w.
Proof.
  intros (H2 & H16 & Hm & _) Hv Hw H. unfold id_bytes in H.
  apply app_inv_head in H. apply app_inv_tail in H.
  rewrite <- (parse_fmt (up_radix p) (up_upper p) v), <- (parse_fmt (up_radix p) (up_upper p) w) by lia.
  rewrite H. reflexivity.
Qed.

(* ------------------------------------------------------------------ *)
(* the atomic model: the counter strictly increases *)

Lemma bump_nowrap p c : c + up_incr p < modulus p -> bump p c = c + up_incr p.
Proof.
  intros H. unfold bump. cbv zeta. destruct (N.ltb_spec (c + up_incr p) (modulus p)); [reflexivity|lia].
Qed.

Definition nowrap (p : uid_params) (c : N) (n : nat) : Prop := c + up_incr p * N.of_nat n < modulus p.

Lemma nowrap_step p c n : nowrap p c (S n) -> c + up_incr p < modulus p /\ nowrap p (c + up_incr p) n.
Proof. unfold nowrap. rewrite Nat2N.inj_succ. intros. split; nia. Qed.

Lemma atomic_bounds p : 0 < up_incr p -> forall s c, nowrap p c (length s) ->
  forall e, In e (run_atomic p c s) -> c < snd e /\ snd e <= c + up_incr p * N.of_nat (length s).
Proof.
  intros Hi. induction s as [|t s IH]; intros c Hw e He; [destruct He|].
  cbn [length] in *. apply nowrap_step in Hw. destruct Hw as [Hb Hw].
  cbn [run_atomic] in He. cbv zeta in He. rewrite (bump_nowrap p c Hb) in He.
  rewrite Nat2N.inj_succ. destruct He as [<-|He].
  - cbn [snd]. nia.
  - specialize (IH _ Hw e He). nia.
Qed.

Lemma atomic_values_nodup p : 0 < up_incr p -> forall s c, nowrap p c (length s) ->
  NoDup (map snd (run_atomic p c s)).
Proof.
  intros Hi. induction s as [|t s IH]; intros c Hw; [constructor|].
  cbn [length] in Hw. apply nowrap_step in Hw. destruct Hw as [Hb Hw].
  cbn [run_atomic]. cbv zeta. rewrite (bump_nowrap p c Hb). cbn [map snd]. constructor.
  - intros Hin. apply in_map_iff in Hin. destruct Hin as (e & He1 & He2).
    pose proof (atomic_bounds p Hi s _ Hw e He2). lia.
  - apply IH. exact Hw.
Qed.

(* the returned values are exactly c + incr, c + 2 incr, ... in schedule order *)
Lemma atomic_interval p : forall s c, nowrap p c (length s) ->
  map snd (run_atomic p c s) = map (fun k => c + up_incr p * N.of_nat k) (seq 1 (length s)).
Proof.
  induction s as [|t s IH]; intros c Hw; [reflexivity|].
  cbn [length] in Hw. apply nowrap_step in Hw. destruct Hw as [Hb Hw].
  cbn [run_atomic length seq map]. cbv zeta. rewrite (bump_nowrap p c Hb). cbn [snd]. f_equal.
  - change (N.of_nat 1) with 1. lia.
  - rewrite IH by exact Hw. rewrite <- (seq_shift (length s) 1). rewrite map_map. apply map_ext.
    intros k. rewrite Nat2N.inj_succ. lia.
Qed.

Lemma NoDup_map_on {A B} (f : A -> B) (l : list A) :
  (forall x y, In x l -> In y l -> f x = f y -> x = y) -> NoDup l -> NoDup (map f l).
Proof.
  induction l as [|a l IH]; intros Hinj Hnd; [constructor|].
  inversion Hnd; subst. cbn [map]. constructor.
  - intros Hin. apply in_map_iff in Hin. destruct Hin as (x & Hx1 & Hx2).
    assert (x = a) by (apply Hinj; [right; assumption|left; reflexivity|assumption]). subst. contradiction.
  - apply IH; [|assumption]. intros x y Hx Hy. apply Hinj; right; assumption.
Qed.

Lemma NoDup_map_eq {A B} (f : A -> B) (l : list A) : NoDup (map f l) ->
  forall x y, In x l -> In y l -> f x = f y -> x = y.
Proof.
  induction l as [|a l IH]; intros Hnd x y Hx Hy Hf; [destruct Hx|].
  cbn [map] in Hnd. inversion Hnd; subst.
  destruct Hx as [<-|Hx], Hy as [<-|Hy].
  - reflexivity.
  - exfalso. apply H1. rewrite Hf. apply in_map. assumption.
  - exfalso. apply H1. rewrite <- Hf. apply in_map. assumption.
  - apply IH; assumption.
Qed.

Definition all_ids (p : uid_params) (evs : list (nat * N)) : list (list N) := map (fun e => id_bytes p (snd e)) evs.

Lemma atomic_ids_nodup p : params_ok p -> forall s c, nowrap p c (length s) ->
  NoDup (all_ids p (run_atomic p c s)).
Proof.
  intros Hp s c Hw. pose proof Hp as (H2 & H16 & Hm & Hi).
  unfold all_ids. rewrite <- (map_map snd (id_bytes p)).
  apply NoDup_map_on.
  - intros x y Hx Hy. apply in_map_iff in Hx, Hy. destruct Hx as (ex & <- & Hex), Hy as (ey & <- & Hey).
    pose proof (atomic_bounds p Hi s c Hw ex Hex). pose proof (atomic_bounds p Hi s c Hw ey Hey).
    unfold nowrap in Hw. apply id_bytes_inj; [exact Hp| lia | lia].
  - apply atomic_values_nodup; assumption.
Qed.

Lemma in_ids_of_thread p evs t id : In id (ids_of_thread p evs t) ->
  exists e, In e evs /\ fst e = t /\ id = id_bytes p (snd e).
Proof.
  unfold ids_of_thread. intros H. apply in_map_iff in H. destruct H as (e & <- & He).
  apply filter_In in He. destruct He as [He Ht]. apply Nat.eqb_eq in Ht. exists e. auto.
Qed.

Lemma atomic_threads_disjoint p : params_ok p -> forall s c, nowrap p c (length s) ->
  forall t t' id, In id (ids_of_thread p (run_atomic p c s) t) -> In id (ids_of_thread p (run_atomic p c s) t') -> t = t'.
Proof.
  intros Hp s c Hw t t' id H1 H2.
  apply in_ids_of_thread in H1, H2. destruct H1 as (e & He & <- & Hid), H2 as (e' & He' & <- & Hid').
  pose proof (atomic_ids_nodup p Hp s c Hw) as Hnd. unfold all_ids in Hnd.
  assert (e = e') by (eapply NoDup_map_eq; [exact Hnd|assumption|assumption|congruence]).
  subst. reflexivity.
Qed.

Lemma NoDup_filter {A} (f : A -> bool) l : NoDup l -> NoDup (filter f l).
Proof.
  induction l as [|a l IH]; intros H; [constructor|]. inversion H; subst. cbn [filter].
  destruct (f a); [constructor|]; auto. intros Hin. apply filter_In in Hin. tauto.
Qed.

Lemma atomic_thread_nodup p : params_ok p -> forall s c, nowrap p c (length s) ->
  forall t, NoDup (ids_of_thread p (run_atomic p c s) t).
Proof.
  intros Hp s c Hw t. pose proof (atomic_ids_nodup p Hp s c Hw) as Hnd. unfold all_ids in Hnd.
  unfold ids_of_thread. apply NoDup_map_on.
  - intros x y Hx Hy. apply filter_In in Hx, Hy. apply (NoDup_map_eq _ _ Hnd); tauto.
  - apply NoDup_filter. eapply NoDup_map_inv. exact Hnd.
Qed.

(* ------------------------------------------------------------------ *)
(* the fine model refines the atomic one *)

Definition refines (p : uid_params) (c : N) (h : holder) (n : nat) (out : list (nat * N)) : Prop :=
  match h with
  | Free | Held _ P0 => exists s, out = run_atomic p c s /\ (length s <= n)%nat
  | Held t P1 => out = [] \/ exists s, out = (t, c) :: run_atomic p c s /\ (length s <= n)%nat
  | Held t (P2 v) => out = [] \/ exists s, out = (t, v) :: run_atomic p c s /\ (length s <= n)%nat
  end.

Lemma refines_weaken p c h n m out : (n <= m)%nat -> refines p c h n out -> refines p c h m out.
Proof.
  intros Hnm. destruct h as [|t [| |v]]; cbn [refines].
  - intros (s & ? & ?). exists s. split; [assumption|lia].
  - intros (s & ? & ?). exists s. split; [assumption|lia].
  - intros [?|(s & ? & ?)]; [left; assumption|right; exists s; split; [assumption|lia]].
  - intros [?|(s & ? & ?)]; [left; assumption|right; exists s; split; [assumption|lia]].
Qed.

(* a completed call needs at least three schedule entries of its thread after the acquire, so the
   number of atomic calls is bounded by the length of the fine schedule *)
Lemma fine_refines_gen p : forall sched c h, refines p c h (length sched) (fine_run p (c, h) sched).
Proof.
  induction sched as [|t sched IH]; intros c h.
  - cbn [fine_run length]. destruct h as [|t' [| |v]]; cbn [refines];
      try (exists []; split; [reflexivity|cbn; lia]); left; reflexivity.
  - cbn [fine_run length]. destruct h as [|t' ph].
    + cbn [fine_step]. specialize (IH c (Held t P0)). cbn [refines] in *.
      destruct IH as (s & -> & Hl). exists s. split; [reflexivity|lia].
    + cbn [fine_step]. destruct (Nat.eqb_spec t' t) as [->|Hne].
      * destruct ph as [| |v].
        -- (* increment *)
           specialize (IH (bump p c) (Held t P1)). cbn [refines] in *.
           destruct IH as [->|(s & -> & Hl)].
           ++ exists []. split; [reflexivity|cbn; lia].
           ++ exists (t :: s). split; [reflexivity|cbn [length]; lia].
        -- (* read *)
           specialize (IH c (Held t (P2 c))). cbn [refines] in *.
           destruct IH as [->|(s & -> & Hl)]; [left; reflexivity|right].
           exists s. split; [reflexivity|lia].
        -- (* unlock and return *)
           specialize (IH c Free). cbn [refines] in *.
           destruct IH as (s & -> & Hl). right. exists s. split; [reflexivity|lia].
      * (* blocked *)
        apply (refines_weaken p c (Held t' ph) (length sched)); [lia|]. apply IH.
Qed.

Lemma fine_refines p c sched :
  exists s, fine_run p (c, Free) sched = run_atomic p c s /\ (length s <= length sched)%nat.
Proof. exact (fine_refines_gen p sched c Free). Qed.

Lemma nowrap_le p c n m : (n <= m)%nat -> nowrap p c m -> nowrap p c n.
Proof. unfold nowrap. intros. nia. Qed.

Lemma fine_ids_nodup p : params_ok p -> forall sched c, nowrap p c (length sched) ->
  NoDup (all_ids p (fine_run p (c, Free) sched)).
Proof.
  intros Hp sched c Hw. destruct (fine_refines p c sched) as (s & -> & Hl).
  apply atomic_ids_nodup; [assumption|]. eapply nowrap_le; eassumption.
Qed.

(* ------------------------------------------------------------------ *)
(* identifiers *)

Lemma digit_char_ident up d : d < 16 -> is_ident_char (digit_char up d) = true.
Proof.
  intros H. unfold digit_char.
  assert (Hc : d = 0 \/ d = 1 \/ d = 2 \/ d = 3 \/ d = 4 \/ d = 5 \/ d = 6 \/ d = 7 \/ d = 8 \/ d = 9 \/ d = 10
          \/ d = 11 \/ d = 12 \/ d = 13 \/ d = 14 \/ d = 15) by lia.
  destruct up; repeat (destruct Hc as [->|Hc]; [reflexivity|]); subst; reflexivity.
Qed.

Lemma digits_go_ident r up : 2 <= r -> r <= 16 -> forall fuel n acc,
  forallb is_ident_char acc = true -> forallb is_ident_char (digits_go r up fuel n acc) = true.
Proof.
  intros H2 H16. induction fuel as [|f IH]; intros n acc Hacc; [exact Hacc|].
  cbn [digits_go]. destruct (N.ltb_spec n r).
  - cbn [forallb]. rewrite digit_char_ident by lia. exact Hacc.
  - apply IH. cbn [forallb]. rewrite digit_char_ident; [exact Hacc|].
    pose proof (N.mod_upper_bound n r). lia.
Qed.

Lemma ident_app p q : is_css_ident p = true -> forallb is_ident_char q = true -> is_css_ident (p ++ q) = true.
Proof.
  intros Hp Hq. destruct p as [|c r]; [discriminate|]. cbn [app]. unfold is_css_ident in *.
  destruct (is_ident_start c).
  - rewrite forallb_app, Hp, Hq. reflexivity.
  - destruct (c =? 45); [|discriminate]. destruct r as [|d r']; [discriminate|]. cbn [app].
    apply andb_true_iff in Hp. destruct Hp as [Hd Hr]. rewrite Hd, forallb_app, Hr, Hq. reflexivity.
Qed.

Lemma id_bytes_ident p v : 2 <= up_radix p -> up_radix p <= 16 ->
  is_css_ident (up_prefix p) = true -> forallb is_ident_char (up_suffix p) = true ->
  is_css_ident (id_bytes p v) = true.
Proof.
  intros H2 H16 Hpre Hsuf. unfold id_bytes. apply ident_app; [assumption|].
  rewrite forallb_app, Hsuf. unfold fmt_radix. rewrite digits_go_ident; auto.
Qed.

(* ------------------------------------------------------------------ *)
(* the instance extracted from the source *)

Definition shapes_ok : bool :=
  uid_critical_section_ok && check_int_shape_ok && into_integer_shape_ok && String.eqb rnd_checker "positive_int".

Lemma shapes : shapes_ok = true.
Proof. vm_compute. reflexivity. Qed.

Definition uidp_checks : bool :=
  (2 <=? up_radix uidp) && (up_radix uidp <=? 16) && (modulus uidp <=? 2 ^ 128) && (0 <? up_incr uidp)
  && is_css_ident (up_prefix uidp) && forallb is_ident_char (up_suffix uidp)
  && (modulus uidp =? 2 ^ 64) && (uid_mult <=? 4096).

Lemma uidp_checks_ok : uidp_checks = true.
Proof. vm_compute. reflexivity. Qed.

Lemma uidp_ok : params_ok uidp.
Proof.
  pose proof uidp_checks_ok as H. unfold uidp_checks in H.
  repeat (apply andb_true_iff in H; destruct H as [H ?]).
  unfold params_ok. split; [|split; [|split]].
  - apply N.leb_le; assumption.
  - apply N.leb_le; assumption.
  - apply N.leb_le; assumption.
  - apply N.ltb_lt; assumption.
Qed.

Lemma uidp_modulus : modulus uidp = 2 ^ 64.
Proof. vm_compute. reflexivity. Qed.

Lemma uidp_incr : up_incr uidp = 1.
Proof. vm_compute. reflexivity. Qed.

Lemma uid_mult_small : uid_mult <= 4096.
Proof. apply N.leb_le. vm_compute. reflexivity. Qed.

Lemma format_injective : forall v w, v < 2 ^ 64 -> w < 2 ^ 64 -> id_bytes uidp v = id_bytes uidp w -> v = w.
Proof. intros v w Hv Hw. apply id_bytes_inj; [exact uidp_ok| |]; rewrite uidp_modulus; assumption. Qed.

Lemma unique : forall (c0 : N) (sched : list nat), c0 + N.of_nat (length sched) < 2 ^ 64 ->
  NoDup (all_ids uidp (run_atomic uidp c0 sched)).
Proof.
  intros c0 sched H. apply atomic_ids_nodup; [exact uidp_ok|].
  unfold nowrap. rewrite uidp_modulus, uidp_incr. lia.
Qed.

Lemma pow44 : 2 ^ 32 * 4096 = 2 ^ 44. Proof. reflexivity. Qed.

Lemma unique_pid : forall (pid : N) (sched : list nat), pid < 2 ^ 32 ->
  N.of_nat (length sched) < 2 ^ 64 - 2 ^ 44 ->
  NoDup (all_ids uidp (run_atomic uidp (pid * uid_mult) sched)).
Proof.
  intros pid sched Hp Hl. apply unique. pose proof uid_mult_small. pose proof pow44.
  assert (pid * uid_mult < 2 ^ 44) by nia.
  assert (2 ^ 44 < 2 ^ 64) by (apply N.pow_lt_mono_r; lia). lia.
Qed.

Lemma unique_per_thread : forall (c0 : N) (sched : list nat), c0 + N.of_nat (length sched) < 2 ^ 64 ->
  (forall t, NoDup (ids_of_thread uidp (run_atomic uidp c0 sched) t))
  /\ (forall t t' id, In id (ids_of_thread uidp (run_atomic uidp c0 sched) t) ->
                      In id (ids_of_thread uidp (run_atomic uidp c0 sched) t') -> t = t').
Proof.
  intros c0 sched H.
  assert (Hw : nowrap uidp c0 (length sched)) by (unfold nowrap; rewrite uidp_modulus, uidp_incr; lia).
  split.
  - intros t. apply atomic_thread_nodup; [exact uidp_ok|exact Hw].
  - apply atomic_threads_disjoint; [exact uidp_ok|exact Hw].
Qed.

Lemma unique_fine : forall (c0 : N) (sched : list nat), c0 + N.of_nat (length sched) < 2 ^ 64 ->
  NoDup (all_ids uidp (fine_run uidp (c0, Free) sched)).
Proof.
  intros c0 sched H. apply fine_ids_nodup; [exact uidp_ok|].
  unfold nowrap. rewrite uidp_modulus, uidp_incr. lia.
Qed.

Lemma ident : forall v, is_css_ident (id_bytes uidp v) = true.
Proof.
  pose proof uidp_checks_ok as H. unfold uidp_checks in H.
  repeat (apply andb_true_iff in H; destruct H as [H ?]).
  intros v. apply id_bytes_ident; try assumption; apply N.leb_le; assumption.
Qed.

Lemma counter_interval : forall (c0 : N) (sched : list nat), c0 + N.of_nat (length sched) < 2 ^ 64 ->
  map snd (run_atomic uidp c0 sched) = map (fun k => c0 + N.of_nat k) (seq 1 (length sched)).
Proof.
  intros c0 sched H. rewrite atomic_interval.
  - apply map_ext. intros k. rewrite uidp_incr. lia.
  - unfold nowrap. rewrite uidp_modulus, uidp_incr. lia.
Qed.

(* ------------------------------------------------------------------ *)
(* random *)
Local Open Scope Z_scope.

Section Rng.
  (* fastrand: thread-local generator state is an opaque token *)
  Variable rng_state : Type.
  Variable rng_i64 : rng_state -> Z -> Z -> Z.       (* fastrand::i64(lo..hi) *)
  Variable rng_f64 : rng_state -> f64.                (* fastrand::f64() *)
  Hypothesis rng_i64_range : forall s lo hi, lo < hi -> lo <= rng_i64 s lo hi < hi.
  Hypothesis rng_f64_range : forall s, fle f_zero (rng_f64 s) = true /\ flt (rng_f64 s) f_one = true.

  (* random(): Value::scalar(fastrand::f64()) *)
  Definition random_unit (s : rng_state) : f64 := rng_f64 s.
  (* random(limit) once check::positive_int accepted `bound` *)
  Definition random_limit (s : rng_state) (bound : Z) : Z := random_int (rng_i64 s rnd_lo (rnd_upper bound)).

  Lemma random_unit_range : forall s, fle f_zero (random_unit s) = true /\ flt (random_unit s) f_one = true.
  Proof. exact rng_f64_range. Qed.

  Lemma random_limit_range : forall s bound, positive_ok bound = true -> bound <= i64_max ->
    1 <= random_limit s bound <= bound /\ random_limit s bound <= i64_max.
  Proof.
    intros s bound Hpos Hmax. unfold random_limit, random_int, rnd_upper, rnd_lo, rnd_inclusive, rnd_offset.
    unfold positive_ok, pos_strict, pos_const in Hpos. apply Z.ltb_lt in Hpos.
    pose proof (rng_i64_range s 0 bound Hpos). lia.
  Qed.
End Rng.

(* a limit that is not positive is rejected before the generator is consulted *)
Lemma random_limit_rejects : forall x v, into_integer x = Some v -> v <= 0 -> positive_int x = inr 1.
Proof.
  intros x v Hi Hv. unfold positive_int. rewrite Hi.
  unfold positive_ok, pos_strict, pos_const. destruct (Z.ltb_spec 0 v); [lia|reflexivity].
Qed.

(* the i64 -> f64 conversion of the result is exact up to 2^53 (Flocq) *)
Lemma f_of_Z_B2R z : Z.abs z < 2 ^ 53 ->
  B2R 53 1024 (f_of_Z z) = IZR z /\ is_finite 53 1024 (f_of_Z z) = true.
Proof.
  intros Hz. unfold f_of_Z.
  pose proof (binary_normalize_correct 53 1024 eq_refl eq_refl mode_NE z 0 false) as H.
  assert (Hx : F2R (Float radix2 z 0) = IZR z) by (unfold F2R; cbn; ring).
  rewrite Hx in H.
  assert (Hg : generic_format radix2 (SpecFloat.fexp 53 1024) (IZR z)).
  { apply generic_format_FLT. apply (FLT_spec radix2 _ 53 (IZR z) (Float radix2 z 0)).
    - symmetry; exact Hx.
    - exact Hz.
    - cbn. lia. }
  rewrite round_generic in H; [|apply valid_rnd_N| exact Hg].
  rewrite Rlt_bool_true in H.
  - tauto.
  - rewrite <- abs_IZR. apply Rlt_le_trans with (IZR (2 ^ 53)).
    + apply IZR_lt. exact Hz.
    + change (2 ^ 53) with (Zpower radix2 53). rewrite IZR_Zpower by lia. apply bpow_le. lia.
Qed.

Lemma f_trunc_of_B2R (x : f64) z : B2R 53 1024 x = IZR z -> is_finite 53 1024 x = true -> f_trunc_Z x = Some z.
Proof.
  intros HR HF. destruct x as [s|s|s pl Hpl|s m e Hb]; try discriminate.
  - cbn in HR. apply eq_IZR in HR. subst. reflexivity.
  - cbn [B2R] in HR. unfold f_trunc_Z. f_equal.
    destruct (Z.leb_spec 0 e) as [He|He].
    + unfold F2R in HR. cbn [Fnum Fexp] in HR. rewrite <- IZR_Zpower in HR by lia. rewrite <- mult_IZR in HR.
      apply eq_IZR in HR. cbn [radix_val radix2] in HR. destruct s; cbn [cond_Zopp] in HR; lia.
    + assert (Hk : IZR (cond_Zopp s (Zpos m)) = IZR (z * 2 ^ (- e))).
      { rewrite mult_IZR. change 2 with (radix_val radix2) at 1. rewrite IZR_Zpower by lia. rewrite <- HR.
        unfold F2R. cbn [Fnum Fexp]. rewrite Rmult_assoc, <- bpow_plus. replace (e + - e) with 0 by lia. cbn. ring. }
      apply eq_IZR in Hk. assert (0 < 2 ^ (- e)) by (apply Z.pow_pos_nonneg; lia).
      destruct s; cbn [cond_Zopp] in Hk.
      * assert (Zpos m = (- z) * 2 ^ (- e)) by lia. rewrite H0. rewrite Z.div_mul by lia. lia.
      * rewrite Hk. rewrite Z.div_mul by lia. reflexivity.
Qed.

Lemma random_out_exact : forall r, 1 <= random_int r <= 2 ^ 53 ->
  f_trunc_Z (random_out r) = Some (random_int r) /\ f_is_finite (random_out r) = true.
Proof.
  intros r H. unfold random_out. destruct (Z.eq_dec (random_int r) (2 ^ 53)) as [->|Hne].
  - split; vm_compute; reflexivity.
  - assert (Ha : Z.abs (random_int r) < 2 ^ 53) by lia.
    destruct (f_of_Z_B2R _ Ha) as [HR HF]. split; [apply f_trunc_of_B2R; assumption|exact HF].
Qed.
