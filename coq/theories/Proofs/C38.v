(* Proofs for C38: the extracted bodies compute the documented compositions, for every library. *)
From Coq Require Import String List Bool.
From RV Require Import Gen.Entry Model.Entry Spec.EntryDocs.
Import ListNotations.
Local Open Scope string_scope.

Lemma scss_tree : forall lib input format,
  run_body lib compile_scss_body compile_scss_params [input; format] = Some (doc_compile_scss lib input format, []).
Proof. intros. reflexivity. Qed.

Lemma path_tree : forall lib path format v, doc_compile_scss_path lib path format = Some v ->
  run_body lib compile_scss_path_body compile_scss_path_params [path; format] = Some (v, []).
Proof.
  intros lib path format v H. unfold doc_compile_scss_path in H.
  unfold run_body. cbn.
  destruct (lib "FsContext::for_path" [path]) as [| | | | | | | |x|e|]; try discriminate.
  - destruct x as [| | |l| | | | | | |]; try discriminate.
    destruct l as [|a [|b [|c r]]]; try discriminate. inversion H; subst. reflexivity.
  - inversion H; subst. reflexivity.
Qed.

Lemma for_path_tree : forall lib path v, doc_fscontext_for_path lib path = Some v ->
  run_body lib fscontext_for_path_body fscontext_for_path_params [path] = Some (v, []).
Proof.
  intros lib path v H. unfold doc_fscontext_for_path in H.
  unfold run_body. cbn.
  destruct (lib "FsLoader::for_path" [path]) as [| | | | | | | |x|e|]; try discriminate.
  - destruct x as [| | |l| | | | | | |]; try discriminate.
    destruct l as [|a [|b [|c r]]]; try discriminate. inversion H; subst. reflexivity.
  - inversion H; subst. reflexivity.
Qed.

Lemma value_tree : forall lib input format v, doc_compile_value lib input format = Some v ->
  run_body lib compile_value_body compile_value_params [input; format] = Some (v, []).
Proof.
  intros lib input format v H. unfold doc_compile_value in H.
  unfold run_body. cbn.
  destruct (lib "parse_value_data" [input]) as [| | | | | | | |pv|e|]; try discriminate.
  - cbn. destruct (lib "evaluate" [pv; lib "ScopeRef::new_global" [format]]) as [| | | | | | | |x|e|]; try discriminate.
    + inversion H; subst. reflexivity.
    + inversion H; subst. reflexivity.
  - inversion H; subst. reflexivity.
Qed.

(* the two file based entry points differ from compile_scss only in where context and source come from *)
Lemma path_vs_scss_shape : forall lib path format ctx src,
  lib "FsContext::for_path" [path] = VOk (VTuple [ctx; src]) ->
  run_body lib compile_scss_path_body compile_scss_path_params [path; format]
  = Some (lib "transform" [lib "with_format" [ctx; format]; src], []).
Proof.
  intros lib path format ctx src H. apply path_tree. unfold doc_compile_scss_path. rewrite H. reflexivity.
Qed.
