(* Proofs for C37. *)
From Coq Require Import String Ascii List ZArith Bool Lia.
From RV Require Import Model.EvArgs Model.EvModule Spec.SassModule Run.C37.
Import ListNotations.
Local Open Scope string_scope.
Local Open Scope list_scope.

(* ------------------------------------------------------------------ namespace *)
Lemma split_nonempty sep s cur : split_on sep s cur <> [].
Proof. revert cur. induction s as [|c r IH]; intros cur; cbn; [discriminate|]. destruct (sep c); [discriminate | apply IH]. Qed.

Lemma last_cons {A} (x : A) l d : l <> [] -> last (x :: l) d = last l d.
Proof. destruct l; [congruence | reflexivity]. Qed.

Lemma is_sep_url c : is_sep c = url_sep c.
Proof. unfold is_sep, url_sep. apply orb_comm. Qed.

(* the text after the last separator is the last segment, for every URL *)
Lemma after_last_is_last_segment s : forall cur,
  after_last_from s cur = last (split_on url_sep s cur) EmptyString.
Proof.
  induction s as [|c r IH]; intros cur; [reflexivity|]. cbn [after_last_from split_on].
  rewrite is_sep_url. destruct (url_sep c).
  - rewrite last_cons by apply split_nonempty. apply IH.
  - apply IH.
Qed.

Lemma norm_disp s : norm (disp s) = norm s.
Proof.
  induction s as [|c r IH]; [reflexivity|]. cbn [disp norm]. rewrite IH. f_equal.
  destruct (Ascii.eqb c "_"%char) eqn:E.
  - apply Ascii.eqb_eq in E. subst c. reflexivity.
  - reflexivity.
Qed.

(* the namespace rule, for every directory part, every base name, with or without the partial
   underscore, with or without one of the three extensions *)
Fixpoint all_not (p : ascii -> bool) (s : string) : bool :=
  match s with EmptyString => true | String c r => negb (p c) && all_not p r end.
Inductive extk : Type := XNone | XScss | XSass | XCss.
Definition ext_str (x : extk) : string :=
  match x with XNone => "" | XScss => ".scss" | XSass => ".sass" | XCss => ".css" end.
Definition us_str (b : bool) : string := if b then "_" else "".
Definition is_dot (c : ascii) : bool := Ascii.eqb c "."%char.

Lemma append_assoc (a b c : string) : String.append (String.append a b) c = String.append a (String.append b c).
Proof. induction a as [|x a IH]; [reflexivity|]. cbn. rewrite IH. reflexivity. Qed.
Lemma append_nil_r (a : string) : String.append a "" = a.
Proof. induction a as [|x a IH]; [reflexivity|]. cbn. rewrite IH. reflexivity. Qed.
Lemma all_not_app p a b : all_not p (String.append a b) = all_not p a && all_not p b.
Proof. induction a as [|x a IH]; [reflexivity|]. cbn. rewrite IH. apply andb_assoc. Qed.

Lemma after_last_nosep s : all_not is_sep s = true -> forall acc, after_last_from s acc = String.append acc s.
Proof.
  induction s as [|c r IH]; intros H acc; [symmetry; apply append_nil_r|].
  cbn in H. apply andb_true_iff in H. destruct H as [Hc Hr]. apply negb_true_iff in Hc.
  cbn [after_last_from]. rewrite Hc. rewrite (IH Hr). rewrite append_assoc. reflexivity.
Qed.
Lemma after_last_dir d c r : is_sep c = true -> forall acc,
  after_last_from (String.append d (String c r)) acc = after_last_from r "".
Proof.
  intros Hc. induction d as [|x d IH]; intros acc; cbn [String.append after_last_from].
  - rewrite Hc. reflexivity.
  - destruct (is_sep x); apply IH.
Qed.

Lemma strip_suffix_nodot suf base : all_not is_dot base = true ->
  (exists t, suf = String "."%char t) -> strip_suffix suf (String.append base suf) = Some base.
Proof.
  intros H [t ->]. induction base as [|c r IH].
  - cbn [String.append strip_suffix]. rewrite String.eqb_refl. reflexivity.
  - cbn in H. apply andb_true_iff in H. destruct H as [Hc Hr]. apply negb_true_iff in Hc. unfold is_dot in Hc.
    cbn [String.append]. cbn [strip_suffix].
    assert (E : String.eqb (String c (String.append r (String "."%char t))) (String "."%char t) = false).
    { cbn [String.eqb]. rewrite Hc. reflexivity. }
    rewrite E. rewrite (IH Hr). reflexivity.
Qed.
Lemma strip_suffix_none suf s : all_not is_dot s = true ->
  (exists t, suf = String "."%char t) -> strip_suffix suf s = None.
Proof.
  intros H [t ->]. induction s as [|c r IH]; [reflexivity|].
  cbn in H. apply andb_true_iff in H. destruct H as [Hc Hr]. apply negb_true_iff in Hc. unfold is_dot in Hc.
  cbn [strip_suffix]. assert (E : String.eqb (String c r) (String "."%char t) = false) by (cbn [String.eqb]; rewrite Hc; reflexivity).
  rewrite E, (IH Hr). reflexivity.
Qed.

Lemma strip_ext_ok base x : all_not is_dot base = true -> strip_ext (String.append base (ext_str x)) = base.
Proof.
  intros H. unfold strip_ext. destruct x; cbn [ext_str].
  - rewrite append_nil_r. rewrite !strip_suffix_none; eauto.
  - rewrite strip_suffix_nodot; eauto.
  - assert (N : strip_suffix ".scss" (String.append base ".sass") = None).
    { clear - H. induction base as [|c r IH]; [reflexivity|]. cbn in H. apply andb_true_iff in H. destruct H as [Hc Hr].
      apply negb_true_iff in Hc. unfold is_dot in Hc. cbn [String.append strip_suffix].
      assert (E : String.eqb (String c (String.append r ".sass")) ".scss" = false) by (cbn [String.eqb]; rewrite Hc; reflexivity).
      rewrite E, (IH Hr). reflexivity. }
    rewrite N. rewrite strip_suffix_nodot; eauto.
  - assert (N : forall suf, suf = ".scss" \/ suf = ".sass" -> strip_suffix suf (String.append base ".css") = None).
    { intros suf Hs. clear - H Hs. induction base as [|c r IH]; [destruct Hs; subst; reflexivity|].
      cbn in H. apply andb_true_iff in H. destruct H as [Hc Hr].
      apply negb_true_iff in Hc. unfold is_dot in Hc. cbn [String.append strip_suffix].
      assert (E : String.eqb (String c (String.append r ".css")) suf = false)
        by (destruct Hs; subst; cbn [String.eqb]; rewrite Hc; reflexivity).
      rewrite E, (IH Hr). reflexivity. }
    rewrite (N ".scss"), (N ".sass") by auto. rewrite strip_suffix_nodot; eauto.
Qed.

Definition starts_us (s : string) : bool := match s with String "_"%char _ => true | _ => false end.

Lemma namespace_ok dir base us x :
  (dir = "" \/ exists d c, is_sep c = true /\ dir = String.append d (String c "")) ->
  all_not is_sep base = true -> all_not is_dot base = true -> starts_us base = false ->
  default_namespace (String.append dir (String.append (us_str us) (String.append base (ext_str x)))) = disp base.
Proof.
  intros Hd Hs Hdot Hus. unfold default_namespace, after_last_sep.
  set (rest := String.append (us_str us) (String.append base (ext_str x))).
  assert (Hrest : all_not is_sep rest = true).
  { unfold rest. rewrite !all_not_app, Hs. destruct us, x; reflexivity. }
  assert (E : after_last_from (String.append dir rest) "" = rest).
  { destruct Hd as [->|[d [c [Hc ->]]]].
    - cbn [String.append]. rewrite (after_last_nosep rest Hrest). reflexivity.
    - rewrite append_assoc. cbn [String.append]. rewrite (after_last_dir d c rest Hc). rewrite (after_last_nosep rest Hrest). reflexivity. }
  rewrite E. unfold rest.
  assert (U : strip_us (String.append (us_str us) (String.append base (ext_str x))) = String.append base (ext_str x)).
  { destruct us; cbn [us_str String.append]; [reflexivity|].
    destruct base as [|c r]; [destruct x; reflexivity|]. cbn [String.append strip_us].
    cbn [starts_us] in Hus. destruct c as [[] [] [] [] [] [] [] []]; try reflexivity; discriminate. }
  rewrite U, (strip_ext_ok base x Hdot). reflexivity.
Qed.

(* ... and it agrees with the reference namespace on concrete URLs (kernel-computed instances) *)
Lemma namespace_examples :
  norm (default_namespace "_lib") = norm (spec_namespace "_lib") /\
  norm (default_namespace "sub/_my_lib.scss") = norm (spec_namespace "sub/_my_lib.scss") /\
  norm (default_namespace "sass:math") = norm (spec_namespace "sass:math").
Proof. vm_compute. repeat split. Qed.

(* ------------------------------------------------------------------ show / hide / prefix *)
Lemma allow_fun_visible e n : allow_fun e n = visible_fun e n.
Proof. destruct e; reflexivity. Qed.
Lemma allow_var_visible e n : allow_var e n = visible_var e n.
Proof. destruct e; reflexivity. Qed.

Lemma show_hide m e : forward_view m None e = spec_forward_view m None e.
Proof.
  unfold forward_view, spec_forward_view, rename. f_equal.
  - rewrite (map_ext (fun kv : string * Z => (fst kv, snd kv)) (fun kv => kv)) by (intros []; reflexivity).
    rewrite map_id. apply filter_ext. intros; apply allow_var_visible.
  - rewrite map_id. apply filter_ext. intros; apply allow_fun_visible.
  - rewrite map_id. apply filter_ext. intros; apply allow_fun_visible.
Qed.

Lemma filter_true {A} (l : list A) : filter (fun _ => true) l = l.
Proof. induction l; cbn; congruence. Qed.

(* with a prefix too: every member set, every prefix, every show/hide list *)
Lemma prefix_filter m p e : forward_view m (Some p) e = spec_forward_view m (Some p) e.
Proof. destruct e; reflexivity. Qed.

Lemma forward_ok m pfx e : forward_view m pfx e = spec_forward_view m pfx e.
Proof. destruct pfx; [apply prefix_filter | apply show_hide]. Qed.

(* ------------------------------------------------------------------ with (...) *)
Definition keq (a b : string) : bool := String.eqb (norm a) (norm b).
Lemma keq_refl a : keq a a = true. Proof. apply String.eqb_refl. Qed.
Lemma keq_sym a b : keq a b = keq b a. Proof. apply String.eqb_sym. Qed.
Lemma keq_trans a b c : keq a b = true -> keq b c = keq a c.
Proof. unfold keq. intros H. apply String.eqb_eq in H. rewrite H. reflexivity. Qed.

Lemma get_set_same e k v : env_get (env_set e k v) k = Some v.
Proof.
  induction e as [|[k' w] r IH]; cbn; [rewrite String.eqb_refl; reflexivity|].
  destruct (String.eqb (norm k) (norm k')) eqn:E; cbn; rewrite E; [reflexivity | exact IH].
Qed.
Lemma get_set_other e k v k2 : keq k k2 = false -> env_get (env_set e k v) k2 = env_get e k2.
Proof.
  unfold keq. intros N. induction e as [|[k' w] r IH]; cbn.
  - rewrite String.eqb_sym, N. reflexivity.
  - destruct (String.eqb (norm k) (norm k')) eqn:E; cbn.
    + apply String.eqb_eq in E. rewrite <- E. rewrite (String.eqb_sym (norm k2) (norm k)), N. reflexivity.
    + rewrite IH. reflexivity.
Qed.
Lemma get_keq e k k2 : keq k k2 = true -> env_get e k = env_get e k2.
Proof.
  unfold keq. intros H. apply String.eqb_eq in H. induction e as [|[k' w] r IH]; [reflexivity|]. cbn. rewrite H, IH. reflexivity.
Qed.
Lemma get_set e k v k2 : env_get (env_set e k v) k2 = if keq k k2 then Some v else env_get e k2.
Proof.
  destruct (keq k k2) eqn:E; [|apply get_set_other; exact E].
  rewrite <- (get_keq _ k k2 E). apply get_set_same.
Qed.

Lemma define_config_ok cfg : forall env, cfg_dup cfg = false ->
  (forall kv, In kv cfg -> env_get env (fst kv) = None) ->
  exists env', define_config cfg env = Some env' /\
    forall k, env_get env' k = match env_get env k with Some v => Some v | None => env_get cfg k end.
Proof.
  induction cfg as [|[k v] r IH]; intros env Hd Hn; cbn [define_config].
  - exists env. split; [reflexivity|]. intros k0. destruct (env_get env k0); reflexivity.
  - cbn [cfg_dup] in Hd. apply orb_false_iff in Hd. destruct Hd as [Hd1 Hd2].
    pose proof (Hn (k, v) (or_introl eq_refl)) as Hk0. cbn [fst] in Hk0. rewrite Hk0.
    destruct (IH (env_set env k v) Hd2) as [env' [E1 E2]].
    + intros kv Hi. rewrite get_set. destruct (keq k (fst kv)) eqn:E; [|apply Hn; right; exact Hi].
      exfalso. assert (existsb (fun kv0 => String.eqb (norm k) (norm (fst kv0))) r = true)
        by (apply existsb_exists; exists kv; split; [exact Hi | exact E]). congruence.
    + exists env'. split; [exact E1|]. intros k0. rewrite E2, get_set. cbn [env_get].
      fold (keq k0 k). rewrite (keq_sym k0 k). destruct (keq k k0) eqn:E; [|reflexivity].
      pose proof (Hn (k, v) (or_introl eq_refl)) as H0. cbn in H0. rewrite (get_keq env k k0 E) in H0. rewrite H0. reflexivity.
Qed.

Lemma define_config_clash cfg : forall env,
  (exists kv, In kv cfg /\ env_get env (fst kv) <> None) -> define_config cfg env = None.
Proof.
  induction cfg as [|[k v] r IH]; intros env [kv [Hi Hs]]; [destruct Hi|]. cbn [define_config].
  destruct (env_get env k) eqn:E; [reflexivity|]. destruct Hi as [Hi|Hi]; [subst kv; cbn in Hs; congruence|].
  apply IH. exists kv. split; [exact Hi|]. rewrite get_set. destruct (keq k (fst kv)); [discriminate | exact Hs].
Qed.

Lemma config_twice decls cfg : cfg_dup cfg = true -> configure decls cfg = None.
Proof.
  intros H. unfold configure.
  assert (L : forall env, define_config cfg env = None).
  { induction cfg as [|[k v] r IH]; [discriminate|]. intros env. cbn [define_config cfg_dup] in *.
    destruct (env_get env k); [reflexivity|]. apply orb_true_iff in H. destruct H as [H|H]; [|apply IH; exact H].
    apply define_config_clash. apply existsb_exists in H. destruct H as [kv [Hi E]]. exists kv. split; [exact Hi|].
    rewrite get_set. fold (keq k (fst kv)) in E. rewrite E. discriminate. }
  rewrite L. reflexivity.
Qed.

(* the invariant between rsass's environment M (configuration predefined) and the reference
   environment S (configuration consulted at the !default declaration) *)
Definition inv (cfg M S : list (string * Z)) : Prop :=
  forall k, env_get M k = match env_get S k with Some v => Some v | None => env_get cfg k end.

Lemma inv_step cfg M S d : inv cfg M S -> inv cfg (run_decl M d) (spec_decl cfg S d).
Proof.
  intros I. destruct d as [[k v] dflt]. unfold run_decl, spec_decl. destruct dflt.
  - pose proof (I k) as Ik. destruct (env_get S k) as [s|] eqn:ES.
    + rewrite Ik. exact I.
    + rewrite Ik. destruct (env_get cfg k) as [c|] eqn:EC.
      * intros k0. rewrite get_set. destruct (keq k k0) eqn:E.
        -- rewrite (I k0). rewrite <- (get_keq S k k0 E), ES. rewrite <- (get_keq cfg k k0 E). exact EC.
        -- apply I.
      * intros k0. rewrite !get_set. destruct (keq k k0); [reflexivity | apply I].
  - intros k0. rewrite !get_set. destruct (keq k k0); [reflexivity | apply I].
Qed.

Lemma inv_fold cfg decls : forall M S, inv cfg M S ->
  inv cfg (fold_left run_decl decls M) (fold_left (spec_decl cfg) decls S).
Proof. induction decls as [|d r IH]; intros M S I; [exact I|]. cbn [fold_left]. apply IH. apply inv_step. exact I. Qed.

Lemma spec_decl_grows cfg S d k : env_get S k <> None -> env_get (spec_decl cfg S d) k <> None.
Proof.
  intros H. destruct d as [[k' v] dflt]. unfold spec_decl. destruct dflt.
  - destruct (env_get S k'); [exact H|]. rewrite get_set. destruct (keq k' k); [discriminate | exact H].
  - rewrite get_set. destruct (keq k' k); [discriminate | exact H].
Qed.
Lemma spec_fold_grows cfg decls : forall S k, env_get S k <> None -> env_get (fold_left (spec_decl cfg) decls S) k <> None.
Proof. induction decls as [|d r IH]; intros S k H; [exact H|]. cbn [fold_left]. apply IH. apply spec_decl_grows. exact H. Qed.

Lemma declared_is_set cfg decls : forall S k, declares_default decls k = true ->
  env_get (fold_left (spec_decl cfg) decls S) k <> None.
Proof.
  induction decls as [|[[k' v] dflt] r IH]; intros S k H; [discriminate|]. cbn [declares_default existsb] in H.
  cbn [fold_left]. apply orb_true_iff in H. destruct H as [H|H]; [|apply IH; exact H].
  apply andb_true_iff in H. destruct H as [Hd Hk]. subst dflt. fold (keq k k') in Hk.
  apply spec_fold_grows. unfold spec_decl. rewrite (get_keq S k' k) by (rewrite keq_sym; exact Hk).
  destruct (env_get S k) eqn:E; [rewrite E; discriminate|].
  rewrite get_set, keq_sym, Hk. discriminate.
Qed.

Lemma cfg_key_declared decls cfg k c :
  forallb (fun kv => declares_default decls (fst kv)) cfg = true -> env_get cfg k = Some c ->
  declares_default decls k = true.
Proof.
  intros H. induction cfg as [|[k' v] r IH]; [discriminate|]. cbn in H. apply andb_true_iff in H. destruct H as [H1 H2].
  cbn [env_get]. destruct (String.eqb (norm k) (norm k')) eqn:E; [|intros G; apply IH; assumption].
  intros _. apply String.eqb_eq in E. unfold declares_default in *. rewrite E.
  cbn [fst] in H1. exact H1.
Qed.

Lemma with_default_only decls cfg :
  cfg_dup cfg = false -> forallb (fun kv => declares_default decls (fst kv)) cfg = true ->
  exists M S, configure decls cfg = Some M /\ spec_configure decls cfg = Some S /\
              forall k, env_get M k = env_get S k.
Proof.
  intros Hd Hv. unfold configure, spec_configure. rewrite Hd, Hv. cbn [negb].
  destruct (define_config_ok cfg [] Hd (fun _ _ => eq_refl)) as [env [E1 E2]]. rewrite E1.
  eexists. eexists. split; [reflexivity|]. split; [reflexivity|].
  assert (I0 : inv cfg env []) by (intros k; rewrite E2; reflexivity).
  pose proof (inv_fold cfg decls env [] I0) as I. intros k. rewrite (I k).
  destruct (env_get (fold_left (spec_decl cfg) decls []) k) eqn:ES; [reflexivity|].
  destruct (env_get cfg k) as [c|] eqn:EC; [|reflexivity].
  exfalso. apply (declared_is_set cfg decls [] k (cfg_key_declared decls cfg k c Hv EC)). exact ES.
Qed.

Lemma refuted_with :
  known_K2 [("w", 2%Z, false)] [("w", 5%Z)] = true /\
  configure [("w", 2%Z, false)] [("w", 5%Z)] <> spec_configure [("w", 2%Z, false)] [("w", 5%Z)].
Proof. split; [reflexivity | vm_compute; discriminate]. Qed.

(* ------------------------------------------------------------------ a forwarded built-in module *)
Lemma fwd_builtin_ok a pfx e : known_K4 a pfx e = false -> fwd_builtin a pfx e = spec_fwd_builtin a pfx e.
Proof.
  unfold known_K4, fwd_builtin, spec_fwd_builtin. intros H.
  assert (V : visible_var e (rename pfx "pi") = allow_var e (pfx_name pfx "pi")).
  { destruct pfx, e; reflexivity. }
  destruct a; try discriminate; try reflexivity.
  - destruct (allow_var e (pfx_name pfx "pi")); [|reflexivity]. cbn [andb] in H.
    apply negb_false_iff in H. rewrite H. reflexivity.
  - rewrite H. reflexivity.
Qed.

(* a plain (or hide-filtered) forward keeps the guard: the forwarded built-in variable cannot be assigned *)
Lemma fwd_builtin_plain_guard e : allow_var e marker_name = true -> fwd_builtin FAssignBuiltin None e = FErr.
Proof. intros H. unfold fwd_builtin, marker_survives. rewrite H. destruct (allow_var e (pfx_name None "pi")); reflexivity. Qed.

Lemma refuted_fwd_builtin :
  known_K4 FAssignBuiltin (Some "m-") EAll = true /\
  fwd_builtin FAssignBuiltin (Some "m-") EAll <> spec_fwd_builtin FAssignBuiltin (Some "m-") EAll /\
  known_K4 FAssignOwn None EAll = true /\
  fwd_builtin FAssignOwn None EAll <> spec_fwd_builtin FAssignOwn None EAll /\
  fwd_builtin FConfigBuiltin None EAll <> spec_fwd_builtin FConfigBuiltin None EAll.
Proof. repeat split; try reflexivity; vm_compute; discriminate. Qed.
