(* Proofs for C08: the expanded and the compressed writer produce the same bytes
   up to layout (space, newline, `;`), for every comment-free CSS item tree. *)
From Coq Require Import List NArith Bool Arith Lia.
From RV Require Import Base.Text Model.Out Proofs.C07.
Import ListNotations.
Local Open Scope N_scope.

Definition layout (c : N) : bool := (c =? 32) || (c =? 10) || (c =? 59).
Definition sq (x : list N) : list N := filter (fun c => negb (layout c)) x.

Lemma sq_app a b : sq (a ++ b) = sq a ++ sq b.
Proof. apply filter_app. Qed.
Lemma sq_rev a : sq (rev a) = rev (sq a).
Proof.
  induction a as [|c r IH]; [reflexivity|]. cbn [rev]. rewrite sq_app, IH. cbn.
  destruct (negb (layout c)); cbn; [reflexivity | rewrite app_nil_r; reflexivity].
Qed.
Lemma sq_add x b : sq (add x b) = add (sq x) (sq b).
Proof. unfold add. rewrite !rev_append_rev, sq_app, sq_rev. reflexivity. Qed.

Definition R (b1 b2 : buf) : Prop := sq b1 = sq b2.

Lemma R_add x1 x2 b1 b2 : sq x1 = sq x2 -> R b1 b2 -> R (add x1 b1) (add x2 b2).
Proof. unfold R. intros Hx Hb. rewrite !sq_add, Hx, Hb. reflexivity. Qed.

Lemma sq_pop_if c b : layout c = true -> sq (pop_if c b) = sq b.
Proof.
  intros Hc. unfold pop_if, head_is. destruct b as [|x r]; [reflexivity|].
  destruct (N.eqb_spec x c) as [e|ne]; [|reflexivity]. subst x. cbn. rewrite Hc. reflexivity.
Qed.

Lemma sq_spaces n : sq (spaces n) = [].
Proof. induction n; [reflexivity | exact IHn]. Qed.
Lemma sq_indent s n : sq (get_indent s n) = [].
Proof. unfold get_indent. destruct (is_compressed s); [reflexivity|]. cbn. apply sq_spaces. Qed.

Lemma R_indent_no_nl ind b1 b2 : R b1 b2 -> R (do_indent_no_nl Expanded ind b1) (do_indent_no_nl Compressed ind b2).
Proof. unfold R, do_indent_no_nl. cbn [is_compressed]. intros H. rewrite sq_add, sq_spaces. exact H. Qed.

Lemma R_add_one n c b1 b2 : sq n = sq c -> R b1 b2 -> R (add_one Expanded n c b1) (add_one Compressed n c b2).
Proof. intros. unfold add_one. cbn [is_compressed]. apply R_add; assumption. Qed.

Lemma R_end_block ind b1 b2 : R b1 b2 -> R (end_block Expanded ind b1) (end_block Compressed ind b2).
Proof.
  intros H. unfold end_block. cbn [is_compressed]. apply R_add_one; [reflexivity|].
  assert (H1 : sq (pop_nl b1) = sq b1) by (apply sq_pop_if; reflexivity).
  assert (H2 : sq (pop_if 59 (pop_nl b2)) = sq b2).
  { rewrite sq_pop_if by reflexivity. apply sq_pop_if; reflexivity. }
  unfold R in *.
  destruct (head_is 123 (pop_nl b1)); destruct (head_is 123 (pop_if 59 (pop_nl b2)));
    unfold do_indent; rewrite ?sq_add, ?sq_indent; cbn [add rev_append]; congruence.
Qed.

(* leaf hypothesis: the two renderings of a leaf agree up to layout, and are empty together *)
Definition is_nil (x : bytes) : bool := match x with [] => true | _ => false end.
Definition leaf_same (l : leaf) : bool :=
  bytes_eqb (sq (l_exp l)) (sq (l_comp l)) && Bool.eqb (is_nil (l_exp l)) (is_nil (l_comp l)).

Lemma bytes_eqb_eq a : forall b, bytes_eqb a b = true -> a = b.
Proof.
  induction a as [|x a IH]; intros [|y b] H; try discriminate; [reflexivity|].
  cbn in H. apply andb_true_iff in H. destruct H as [H1 H2].
  apply N.eqb_eq in H1. subst. f_equal. apply IH, H2.
Qed.

Lemma leaf_same_sq l : leaf_same l = true -> sq (leaf_of Expanded l) = sq (leaf_of Compressed l).
Proof. unfold leaf_same. intros H. apply andb_true_iff in H. destruct H as [H _]. apply bytes_eqb_eq, H. Qed.

Definition opt_same (a : option leaf) : bool := match a with Some l => leaf_same l | None => true end.

Fixpoint margs_same (a : margs) : bool :=
  match a with
  | MName _ => true
  | MCond _ v => leaf_same v
  | MRange l => forallb (fun p => leaf_same (snd p)) l
  | MParen x | MBracket x | MUnary _ x => margs_same x
  | MComma l | MAnd l | MOr l => forallb margs_same l
  end.

(* no comment items (loud comments may differ between the styles) *)
Fixpoint item_same (it : item) : bool :=
  match it with
  | IComment _ => false
  | IImport _ a => opt_same a
  | IProp _ v => leaf_same v
  | ICustom _ _ _ => true
  | IRule sels body => forallb leaf_same sels && forallb item_same body
  | IMedia a body => margs_same a && forallb item_same body
  | IAt _ a body => opt_same a && match body with Some l => forallb item_same l | None => true end
  | ISep => true
  end.

Lemma sq_nl_to_space v : sq (nl_to_space v) = sq v.
Proof.
  induction v as [|c r IH]; [reflexivity|]. unfold nl_to_space in *. cbn [map].
  destruct (N.eqb_spec c 10) as [e|ne].
  - subst c. cbn. exact IH.
  - cbn [sq filter]. fold (sq (map (fun c0 : N => if c0 =? 10 then 32 else c0) r)). fold (sq r). rewrite IH. reflexivity.
Qed.

Definition margs_goal2 (a : margs) : Prop :=
  forall b1 b2, margs_same a = true -> R b1 b2 -> R (write_margs Expanded a b1) (write_margs Compressed a b2).

Lemma R_sep_list sep1 sep2 (Hsep : sq sep1 = sq sep2) : forall l first b1 b2,
  Forall margs_goal2 l -> forallb margs_same l = true -> R b1 b2 ->
  R ((fix sep_list (sep : bytes) (l : list margs) (first : bool) (b : buf) {struct l} : buf :=
        match l with
        | [] => b
        | x :: r => sep_list sep r false (write_margs Expanded x (if first then b else add sep b))
        end) sep1 l first b1)
    ((fix sep_list (sep : bytes) (l : list margs) (first : bool) (b : buf) {struct l} : buf :=
        match l with
        | [] => b
        | x :: r => sep_list sep r false (write_margs Compressed x (if first then b else add sep b))
        end) sep2 l first b2).
Proof.
  induction l as [|x r IH]; intros first b1 b2 HF Hok Hb; [exact Hb|].
  inversion HF as [|? ? Hx HF']; subst. cbn in Hok. apply andb_true_iff in Hok. destruct Hok as [Hxo Hro].
  apply IH; [exact HF' | exact Hro|]. apply Hx; [exact Hxo|].
  destruct first; [exact Hb|]. apply R_add; assumption.
Qed.

Lemma R_range : forall l first b1 b2,
  forallb (fun p => leaf_same (snd p)) l = true -> R b1 b2 ->
  R ((fix go (l : list (bytes * leaf)) (first : bool) (b : buf) : buf :=
        match l with
        | [] => b
        | (op, v) :: r => go r false (add (leaf_of Expanded v) (if first then b else add [32] (add op (add [32] b))))
        end) l first b1)
    ((fix go (l : list (bytes * leaf)) (first : bool) (b : buf) : buf :=
        match l with
        | [] => b
        | (op, v) :: r => go r false (add (leaf_of Compressed v) (if first then b else add [32] (add op (add [32] b))))
        end) l first b2).
Proof.
  induction l as [|[op v] r IH]; intros first b1 b2 Hok Hb; [exact Hb|].
  cbn in Hok. apply andb_true_iff in Hok. destruct Hok as [Hv Hr].
  apply IH; [exact Hr|]. apply R_add; [apply leaf_same_sq, Hv|].
  destruct first; [exact Hb|]. repeat (apply R_add; [reflexivity|]). exact Hb.
Qed.

Lemma R_write_margs a : margs_goal2 a.
Proof.
  induction a using margs_ind2; unfold margs_goal2; intros b1 b2 Hok Hb; cbn [write_margs margs_same is_compressed] in *.
  - apply R_add; [reflexivity | exact Hb].
  - apply R_add; [reflexivity|]. apply R_add; [apply leaf_same_sq, Hok|]. repeat (apply R_add; [reflexivity|]). exact Hb.
  - apply R_add; [reflexivity|]. apply R_range; [exact Hok|]. apply R_add; [reflexivity | exact Hb].
  - apply R_add; [reflexivity|]. apply IHa; [exact Hok|]. apply R_add; [reflexivity | exact Hb].
  - apply R_add; [reflexivity|]. apply IHa; [exact Hok|]. apply R_add; [reflexivity | exact Hb].
  - apply IHa; [exact Hok|]. repeat (apply R_add; [reflexivity|]). exact Hb.
  - apply R_sep_list; try assumption. reflexivity.
  - apply R_sep_list; try assumption. reflexivity.
  - apply R_sep_list; try assumption. reflexivity.
Qed.

Lemma R_write_sels : forall l first b1 b2,
  forallb leaf_same l = true -> R b1 b2 ->
  R (write_sels Expanded l first b1) (write_sels Compressed l first b2).
Proof.
  induction l as [|x r IH]; intros first b1 b2 Hok Hb; [exact Hb|].
  cbn in Hok. apply andb_true_iff in Hok. destruct Hok as [Hx Hr].
  cbn [write_sels]. apply IH; [exact Hr|]. apply R_add; [apply leaf_same_sq, Hx|].
  destruct first; [exact Hb|]. apply R_add_one; [reflexivity | exact Hb].
Qed.

Lemma sels_empty_same l : forallb leaf_same l = true -> sels_empty Expanded l = sels_empty Compressed l.
Proof.
  intros H. unfold sels_empty. f_equal.
  induction l as [|x r IH]; [reflexivity|]. cbn in H. apply andb_true_iff in H. destruct H as [Hx Hr].
  cbn [forallb]. f_equal; [|apply IH, Hr].
  unfold leaf_same in Hx. apply andb_true_iff in Hx. destruct Hx as [_ Hn]. apply eqb_prop in Hn.
  unfold is_nil in Hn. cbn [leaf_of]. destruct (l_exp x), (l_comp x); try reflexivity; discriminate.
Qed.

Definition item_goal2 (it : item) : Prop :=
  forall ind b1 b2, item_same it = true -> R b1 b2 -> R (write_item Expanded ind it b1) (write_item Compressed ind it b2).

Lemma R_local_items ind : forall l b1 b2,
  Forall item_goal2 l -> forallb item_same l = true -> R b1 b2 ->
  R ((fix write_items (l : list item) (b : buf) {struct l} : buf :=
        match l with [] => b | x :: r => write_items r (write_item Expanded ind x b) end) l b1)
    ((fix write_items (l : list item) (b : buf) {struct l} : buf :=
        match l with [] => b | x :: r => write_items r (write_item Compressed ind x b) end) l b2).
Proof.
  induction l as [|x r IH]; intros b1 b2 HF Hok Hb; [exact Hb|].
  inversion HF as [|? ? Hx HF']; subst. cbn in Hok. apply andb_true_iff in Hok. destruct Hok as [Hxo Hro].
  apply IH; [exact HF' | exact Hro|]. apply Hx; assumption.
Qed.

Lemma R_block ind body b1 b2 :
  Forall item_goal2 body -> forallb item_same body = true -> R b1 b2 ->
  R (end_block Expanded ind
       ((fix write_items (l : list item) (b : buf) {struct l} : buf :=
           match l with [] => b | x :: r => write_items r (write_item Expanded (ind + 2)%nat x b) end) body (start_block Expanded b1)))
    (end_block Compressed ind
       ((fix write_items (l : list item) (b : buf) {struct l} : buf :=
           match l with [] => b | x :: r => write_items r (write_item Compressed (ind + 2)%nat x b) end) body (start_block Compressed b2))).
Proof.
  intros HF Hok Hb. apply R_end_block. apply R_local_items; [exact HF | exact Hok|].
  unfold start_block. apply R_add_one; [reflexivity | exact Hb].
Qed.

Lemma R_opt_args a b1 b2 : opt_same a = true -> R b1 b2 ->
  R (match a with Some l => add (leaf_of Expanded l) (add [32] b1) | None => b1 end)
    (match a with Some l => add (leaf_of Compressed l) (add [32] b2) | None => b2 end).
Proof.
  intros Ha Hb. destruct a as [l|]; [|exact Hb].
  apply R_add; [apply leaf_same_sq, Ha|]. apply R_add; [reflexivity | exact Hb].
Qed.

Lemma R_write_item it : item_goal2 it.
Proof.
  induction it using item_ind2; unfold item_goal2; intros ind b1 b2 Hok Hb; cbn [write_item item_same] in *.
  - discriminate.
  - unfold write_import. apply R_add_one; [reflexivity|]. apply R_opt_args; [exact Hok|].
    repeat (apply R_add; [reflexivity|]). apply R_indent_no_nl, Hb.
  - unfold write_prop. apply R_add_one; [reflexivity|].
    apply R_add; [rewrite !sq_nl_to_space; apply leaf_same_sq, Hok|].
    apply R_add_one; [reflexivity|]. apply R_add; [reflexivity|]. apply R_indent_no_nl, Hb.
  - unfold write_custom. apply R_add_one; [reflexivity|]. apply R_add; [reflexivity|].
    cbn [is_compressed negb]. rewrite andb_false_r.
    assert (H1 : R (add [58] (add n (do_indent_no_nl Expanded ind b1))) (add [58] (add n (do_indent_no_nl Compressed ind b2)))).
    { repeat (apply R_add; [reflexivity|]). apply R_indent_no_nl, Hb. }
    destruct (q && true); [|exact H1]. unfold R in *. rewrite sq_add. exact H1.
  - apply andb_true_iff in Hok. destruct Hok as [Hs Hbody].
    destruct body as [|x r]; [exact Hb|].
    apply (R_block ind (x :: r)); [assumption | exact Hbody|].
    rewrite <- (sels_empty_same sels Hs). destruct (sels_empty Expanded sels).
    + apply R_add; [reflexivity|]. apply R_indent_no_nl, Hb.
    + apply R_write_sels; [exact Hs|]. apply R_indent_no_nl, Hb.
  - apply andb_true_iff in Hok. destruct Hok as [Ha Hbody].
    destruct body as [|x r]; [exact Hb|].
    apply (R_block ind (x :: r)); [assumption | exact Hbody|].
    apply R_write_margs; [exact Ha|]. apply R_add; [reflexivity|]. apply R_indent_no_nl, Hb.
  - apply andb_true_iff in Hok. destruct Hok as [Ha Hbody].
    assert (G2 : R (match a with
                    | Some l => add (leaf_of Expanded l) (add [32] (add n (add [64] (do_indent_no_nl Expanded ind b1))))
                    | None => add n (add [64] (do_indent_no_nl Expanded ind b1)) end)
                   (match a with
                    | Some l => add (leaf_of Compressed l) (add [32] (add n (add [64] (do_indent_no_nl Compressed ind b2))))
                    | None => add n (add [64] (do_indent_no_nl Compressed ind b2)) end)).
    { apply R_opt_args; [exact Ha|]. repeat (apply R_add; [reflexivity|]). apply R_indent_no_nl, Hb. }
    destruct body as [l|]; [|apply R_add_one; [reflexivity | exact G2]].
    destruct l as [|i l0]; [apply (R_block ind []); [constructor | reflexivity | exact G2]|].
    destruct i; try (apply (R_block ind _ _ _ (H _ eq_refl) Hbody G2)).
    cbn in Hbody. discriminate.
  - unfold opt_nl. cbn [is_compressed]. destruct b1 as [|c r]; [exact Hb|].
    destruct (head_is 10 (c :: r) && head_is 10 (tl (c :: r))); [exact Hb|].
    unfold R in *. cbn [sq filter layout]. exact Hb.
Qed.

Lemma R_write_items ind : forall l b1 b2,
  forallb item_same l = true -> R b1 b2 -> R (write_items Expanded ind l b1) (write_items Compressed ind l b2).
Proof.
  induction l as [|x r IH]; intros b1 b2 Hok Hb; [exact Hb|].
  cbn in Hok. apply andb_true_iff in Hok. destruct Hok as [Hx Hr].
  cbn [write_items]. apply IH; [exact Hr|]. apply R_write_item; assumption.
Qed.

Definition data_same (d : cssdata) : bool := forallb item_same (d_imports d) && forallb item_same (d_body d).

Lemma writer_layout d : data_same d = true ->
  sq (rev (body_buf Expanded d)) = sq (rev (body_buf Compressed d)).
Proof.
  unfold data_same. intros H. apply andb_true_iff in H. destruct H as [Hi Hb].
  rewrite !sq_rev. f_equal. unfold body_buf.
  apply R_write_items; [exact Hb|]. apply R_write_items; [exact Hi|]. reflexivity.
Qed.

(* the framing of into_buffer only adds / removes layout bytes and the marker *)
Lemma sq_drop_nl b : sq (drop_nl b) = sq b.
Proof.
  induction b as [|c r IH]; [reflexivity|]. cbn [drop_nl].
  destruct (N.eqb_spec c 10) as [e|ne]; [|reflexivity]. subst c. rewrite IH. reflexivity.
Qed.

Lemma finish_layout s b : is_ascii_b b = true -> sq (finish s b) = sq b.
Proof.
  intros A. unfold finish. rewrite A. cbv zeta.
  remember (if is_compressed s then pop_if 59 (drop_nl b) else drop_nl b) as b3 eqn:E.
  assert (H : sq b3 = sq b).
  { subst b3. destruct (is_compressed s); [rewrite sq_pop_if by reflexivity|]; apply sq_drop_nl. }
  destruct b3 as [|c r]; [exact H|].
  change (sq (10 :: c :: r)) with (sq (c :: r)). exact H.
Qed.

Lemma writer_same_sheet d : data_same d = true ->
  is_ascii_b (body_buf Expanded d) = true -> is_ascii_b (body_buf Compressed d) = true ->
  sq (into_buffer Expanded d) = sq (into_buffer Compressed d).
Proof.
  intros H A1 A2. unfold into_buffer. rewrite !sq_rev, !finish_layout by assumption.
  rewrite <- !sq_rev. apply writer_layout, H.
Qed.
