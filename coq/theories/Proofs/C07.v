(* Proofs for C07: framing of the output of the writer model (Model/Out.v). *)
From Coq Require Import List NArith Bool Arith Lia.
From RV Require Import Base.Text Spec.CssTok Model.Out Proofs.CssTokFacts.
Import ListNotations.
Local Open Scope N_scope.

(* ------------------------------------------------------------------------ *)
(* scanner state of a reversed buffer *)
Definition stb (b : buf) : state := fold_right (fun c s => step s c) (N0, []) b.

Lemma fold_right_rev_left {A B} (f : B -> A -> B) (l : list A) (i : B) :
  fold_right (fun c s => f s c) i (rev l) = fold_left f l i.
Proof. apply (fold_left_rev_right (fun c s => f s c)). Qed.

Lemma stb_app a b : stb (a ++ b) = fold_right (fun c s => step s c) (stb b) a.
Proof. unfold stb. apply fold_right_app. Qed.

Lemma stb_add x b : stb (add x b) = run_from (stb b) x.
Proof.
  unfold add. rewrite rev_append_rev, stb_app. unfold run_from.
  apply fold_right_rev_left.
Qed.

Lemma stb_run b : run (rev b) = stb b.
Proof.
  unfold run, run_from, stb. rewrite <- fold_right_rev_left, rev_involutive. reflexivity.
Qed.

Definition E (b : buf) (k : list N) : Prop := stb b = (N0, k).
Definition G (b : buf) (k : list N) : Prop := exists m, stb b = (m, k) /\ normal_class m = true.

Lemma E_G b k : E b k -> G b k.
Proof. intros H. exists N0. split; [exact H | reflexivity]. Qed.

(* a leaf text is acceptable when it is balanced on its own *)
Definition okl (x : bytes) : bool := balanced x.

Lemma okl_run x k : okl x = true ->
  exists m, run_from (N0, k) x = (m, k) /\ normal_class m = true.
Proof.
  unfold okl, balanced, run. intros H.
  destruct (run_from (N0, []) x) as [m a] eqn:R. destruct a; [|discriminate].
  exists m. split; [|exact H].
  apply (run_from_frame x N0 [] m [] k R). intros ->. discriminate.
Qed.

Lemma add_leaf x b k : okl x = true -> E b k -> G (add x b) k.
Proof.
  intros Hx Hb. destruct (okl_run x k Hx) as [m [R Hm]].
  exists m. rewrite stb_add, Hb. split; assumption.
Qed.

(* fixed strings of the writer: from any normal state they lead to N0 *)
Definition resets (x : bytes) : Prop :=
  forall m k, normal_class m = true -> run_from (m, k) x = (N0, k).

Ltac reset_tac := intros m k Hm; destruct m; try discriminate; reflexivity.

Lemma add_reset x b k : resets x -> G b k -> E (add x b) k.
Proof.
  intros Hx [m [Hb Hm]]. unfold E. rewrite stb_add, Hb. apply Hx. exact Hm.
Qed.

Lemma r_colon_sp : resets [58;32]. Proof. reset_tac. Qed.
Lemma r_colon : resets [58]. Proof. reset_tac. Qed.
Lemma r_semi_nl : resets [59;10]. Proof. reset_tac. Qed.
Lemma r_semi : resets [59]. Proof. reset_tac. Qed.
Lemma r_nl : resets [10]. Proof. reset_tac. Qed.
Lemma r_sp : resets [32]. Proof. reset_tac. Qed.
Lemma r_comma_sp : resets [44;32]. Proof. reset_tac. Qed.
Lemma r_comma : resets [44]. Proof. reset_tac. Qed.
Lemma r_rparen : resets [41]. Proof. reset_tac. Qed.
Lemma r_and : resets txt_and. Proof. reset_tac. Qed.
Lemma r_or : resets txt_or. Proof. reset_tac. Qed.

Lemma r_spaces n : resets (spaces n).
Proof.
  induction n as [|n IH]; intros m k Hm.
  - destruct m; try discriminate; try reflexivity.
Abort.

(* from the exact state N0, these stay in N0 *)
Definition stays (x : bytes) : Prop := forall k, run_from (N0, k) x = (N0, k).

Lemma add_stays x b k : stays x -> E b k -> E (add x b) k.
Proof. intros Hx Hb. unfold E. rewrite stb_add, Hb. apply Hx. Qed.

Lemma s_spaces n : stays (spaces n).
Proof. induction n as [|n IH]; intros k; [reflexivity|]. cbn. apply IH. Qed.
Lemma s_nil : stays []. Proof. intros k; reflexivity. Qed.
Lemma s_at : stays [64]. Proof. intros k; reflexivity. Qed.
Lemma s_import : stays [64;105;109;112;111;114;116;32]. Proof. intros k; reflexivity. Qed.
Lemma s_media : stays [64;109;101;100;105;97;32]. Proof. intros k; reflexivity. Qed.
Lemma s_lparen : stays [40]. Proof. intros k; reflexivity. Qed.
Lemma s_star : stays [42]. Proof. intros k; reflexivity. Qed.

Lemma r_indent s n : forall m k, normal_class m = true ->
  exists m', run_from (m, k) (get_indent s n) = (m', k) /\ normal_class m' = true.
Proof.
  intros m k Hm. unfold get_indent. destruct (is_compressed s).
  - exists m. split; [reflexivity | exact Hm].
  - exists N0. split; [|reflexivity].
    change (10 :: spaces (Nat.min n indent_cap)) with ([10] ++ spaces (Nat.min n indent_cap)). rewrite run_from_app.
    rewrite (r_nl m k Hm). apply s_spaces.
Qed.

Lemma do_indent_G s n b k : G b k -> G (do_indent s n b) k.
Proof.
  intros [m [Hb Hm]]. destruct (r_indent s n m k Hm) as [m' [R Hm']].
  exists m'. unfold do_indent. rewrite stb_add, Hb. split; assumption.
Qed.

Lemma do_indent_no_nl_E s n b k : E b k -> E (do_indent_no_nl s n b) k.
Proof.
  intros H. unfold do_indent_no_nl. destruct (is_compressed s); [exact H|].
  apply add_stays; [apply s_spaces | exact H].
Qed.

(* braces *)
Lemma open_block s b k : G b k -> E (start_block s b) (123 :: k).
Proof.
  intros [m [Hb Hm]]. unfold E, start_block, add_one. rewrite stb_add, Hb.
  destruct (is_compressed s); destruct m; try discriminate; reflexivity.
Qed.

Lemma close_brace s b k : G b (123 :: k) -> E (add_one s [125;10] [125] b) k.
Proof.
  intros [m [Hb Hm]]. unfold E, add_one. rewrite stb_add, Hb.
  destruct (is_compressed s); destruct m; try discriminate; reflexivity.
Qed.

Lemma pop_G c b k : (c = 10 \/ c = 59) -> G (c :: b) k -> G b k.
Proof.
  intros Hc [m [Hb Hm]]. cbn in Hb.
  destruct (step_pop_safe (stb b) c m k Hc Hb Hm) as [m0 [H0 Hm0]].
  exists m0. split; assumption.
Qed.

Lemma pop_if_G c b k : (c = 10 \/ c = 59) -> G b k -> G (pop_if c b) k.
Proof.
  intros Hc H. unfold pop_if, head_is. destruct b as [|x b]; [exact H|].
  destruct (N.eqb_spec x c) as [e|ne]; [|exact H].
  subst x. cbn. apply (pop_G c); assumption.
Qed.

Lemma pop_nl_G b k : G b k -> G (pop_nl b) k.
Proof. apply pop_if_G. left; reflexivity. Qed.

Lemma end_block_E s ind b k : E b (123 :: k) -> E (end_block s ind b) k.
Proof.
  intros H. unfold end_block. apply close_brace.
  assert (G1 : G (pop_nl b) (123 :: k)) by (apply pop_nl_G, E_G, H).
  assert (G2 : G (if is_compressed s then pop_if 59 (pop_nl b) else pop_nl b) (123 :: k)).
  { destruct (is_compressed s); [apply pop_if_G; [right; reflexivity|]|]; exact G1. }
  destruct (head_is 123 _); [exact G2 | apply do_indent_G; exact G2].
Qed.

(* ------------------------------------------------------------------------ *)
(* comments: the text between the delimiters has no `/`, so the comment is
   closed exactly by the writer's `*/` *)
Definition no_slash (x : bytes) : bool := forallb (fun c => negb (c =? 47)) x.

Lemma no_slash_app x y : no_slash (x ++ y) = no_slash x && no_slash y.
Proof. apply forallb_app. Qed.

Lemma no_slash_replace_go p w : no_slash w = true -> forall t skip,
  no_slash t = true -> no_slash (replace_go p w skip t) = true.
Proof.
  intros Hw. induction t as [|c r IH]; intros skip Ht; [reflexivity|].
  cbn in Ht. apply andb_true_iff in Ht. destruct Ht as [Hc Hr].
  cbn [replace_go]. destruct skip as [|k].
  - destruct (is_prefix p (c :: r)).
    + rewrite no_slash_app, Hw. cbn. apply IH, Hr.
    + cbn. rewrite Hc. cbn. apply IH, Hr.
  - apply IH, Hr.
Qed.

Lemma no_slash_replace_empty w : no_slash w = true -> forall t,
  no_slash t = true -> no_slash (replace_empty w t) = true.
Proof.
  intros Hw. induction t as [|c r IH]; intros Ht; [exact Hw|].
  cbn in Ht. apply andb_true_iff in Ht. destruct Ht as [Hc Hr].
  cbn [replace_empty]. destruct (is_char_start c).
  - rewrite no_slash_app, Hw. cbn. rewrite Hc. cbn. apply IH, Hr.
  - cbn. rewrite Hc. cbn. apply IH, Hr.
Qed.

Lemma no_slash_str_replace p w t :
  no_slash w = true -> no_slash t = true -> no_slash (str_replace p w t) = true.
Proof.
  intros Hw Ht. unfold str_replace. destruct p.
  - apply no_slash_replace_empty; assumption.
  - apply no_slash_replace_go; assumption.
Qed.

Lemma no_slash_spaces n : no_slash (spaces n) = true.
Proof. induction n; [reflexivity | exact IHn]. Qed.

Lemma no_slash_indent s n : no_slash (get_indent s n) = true.
Proof. unfold get_indent. destruct (is_compressed s); [reflexivity|]. cbn. apply no_slash_spaces. Qed.

Lemma no_slash_comment_text s ind t : no_slash t = true -> no_slash (comment_text s ind t) = true.
Proof.
  intros Ht. unfold comment_text. destruct (Nat.compare _ _).
  - exact Ht.
  - apply no_slash_str_replace; [reflexivity | exact Ht].
  - apply no_slash_str_replace; [apply no_slash_indent | exact Ht].
Qed.

Definition in_comment (m : mode) : bool := match m with Com | ComStar => true | _ => false end.

Lemma comment_stays x : no_slash x = true -> forall m k, in_comment m = true ->
  exists m', run_from (m, k) x = (m', k) /\ in_comment m' = true.
Proof.
  induction x as [|c x IH]; intros Hx m k Hm.
  - exists m. split; [reflexivity | exact Hm].
  - cbn in Hx. apply andb_true_iff in Hx. destruct Hx as [Hc Hx].
    rewrite run_from_cons.
    assert (exists m1, step (m, k) c = (m1, k) /\ in_comment m1 = true) as [m1 [S1 H1]].
    { destruct m; try discriminate; cbn.
      - destruct (c =? 42); eexists; split; reflexivity.
      - rewrite negb_true_iff in Hc. rewrite Hc. destruct (c =? 42); eexists; split; reflexivity. }
    rewrite S1. apply IH; assumption.
Qed.

Lemma comment_close m k : in_comment m = true -> run_from (m, k) [42;47] = (N0, k).
Proof. destruct m; try discriminate; reflexivity. Qed.

Lemma write_comment_E s ind t b k :
  no_slash t = true -> E b k -> E (write_comment s ind t b) k.
Proof.
  intros Ht Hb. unfold write_comment. destruct (head_is 35 t).
  - unfold add_one. destruct (is_compressed s).
    + apply add_stays; [apply s_nil | exact Hb].
    + apply add_reset; [apply r_nl | apply E_G, Hb].
  - destruct (is_compressed s) eqn:Ec.
    + unfold E in *. rewrite stb_add, stb_add, stb_add, Hb.
      change (run_from (N0, k) [47; 42]) with (Com, k).
      destruct (comment_stays _ Ht Com k eq_refl) as [m' [R Hm']].
      rewrite R. apply comment_close, Hm'.
    + assert (H1 : E (do_indent_no_nl s ind b) k) by (apply do_indent_no_nl_E, Hb).
      unfold E, add_one in *. rewrite Ec. rewrite stb_add, stb_add, stb_add, H1.
      change (run_from (N0, k) [47; 42]) with (Com, k).
      destruct (comment_stays _ (no_slash_comment_text s ind t Ht) Com k eq_refl) as [m' [R Hm']].
      rewrite R. change [42;47;10] with ([42;47] ++ [10]). rewrite run_from_app, (comment_close _ _ Hm'). reflexivity.
Qed.

(* ------------------------------------------------------------------------ *)
(* leaf hypotheses *)
Definition okopt (s : style) (a : option leaf) : bool :=
  match a with Some l => okl (leaf_of s l) | None => true end.

Fixpoint margs_ok (s : style) (a : margs) : bool :=
  match a with
  | MName n => okl n
  | MCond c v => okl c && okl (leaf_of s v)
  | MRange l => forallb (fun p => okl (fst p) && okl (leaf_of s (snd p))) l
  | MParen x | MBracket x => margs_ok s x
  | MUnary op x => okl op && margs_ok s x
  | MComma l | MAnd l | MOr l => forallb (margs_ok s) l
  end.

Fixpoint leaf_ok (s : style) (it : item) : bool :=
  match it with
  | IComment t => no_slash t
  | IImport n a => okl n && okopt s a
  | IProp n v => okl n && okl (nl_to_space (leaf_of s v))
  | ICustom n v _ => okl n && okl v
  | IRule sels body => forallb (fun l => okl (leaf_of s l)) sels && forallb (leaf_ok s) body
  | IMedia a body => margs_ok s a && forallb (leaf_ok s) body
  | IAt n a body => okl n && okopt s a &&
                    match body with Some l => forallb (leaf_ok s) l | None => true end
  | ISep => true
  end.

(* induction principles for the nested datatypes *)
Section ItemInd.
  Variable P : item -> Prop.
  Hypothesis Hc : forall t, P (IComment t).
  Hypothesis Hi : forall n a, P (IImport n a).
  Hypothesis Hp : forall n v, P (IProp n v).
  Hypothesis Hcu : forall n v q, P (ICustom n v q).
  Hypothesis Hr : forall sels body, Forall P body -> P (IRule sels body).
  Hypothesis Hm : forall a body, Forall P body -> P (IMedia a body).
  Hypothesis Ha : forall n a body, (forall l, body = Some l -> Forall P l) -> P (IAt n a body).
  Hypothesis Hs : P ISep.
  Fixpoint item_ind2 (it : item) : P it :=
    let fix go (l : list item) : Forall P l :=
      match l with [] => Forall_nil P | x :: r => Forall_cons x (item_ind2 x) (go r) end in
    match it with
    | IComment t => Hc t
    | IImport n a => Hi n a
    | IProp n v => Hp n v
    | ICustom n v q => Hcu n v q
    | IRule sels body => Hr sels body (go body)
    | IMedia a body => Hm a body (go body)
    | IAt n a body => Ha n a body
        (match body as b return forall l, b = Some l -> Forall P l with
         | Some l0 => fun l e => match e in _ = y return match y with Some l' => Forall P l' | None => True end
                                 with eq_refl => go l0 end
         | None => fun l e => match e in _ = y return match y with Some l' => Forall P l' | None => True end
                              with eq_refl => I end
         end)
    | ISep => Hs
    end.
End ItemInd.

Section MargsInd.
  Variable P : margs -> Prop.
  Hypothesis Hn : forall n, P (MName n).
  Hypothesis Hc : forall c v, P (MCond c v).
  Hypothesis Hr : forall l, P (MRange l).
  Hypothesis Hp : forall a, P a -> P (MParen a).
  Hypothesis Hb : forall a, P a -> P (MBracket a).
  Hypothesis Hu : forall op a, P a -> P (MUnary op a).
  Hypothesis Hco : forall l, Forall P l -> P (MComma l).
  Hypothesis Han : forall l, Forall P l -> P (MAnd l).
  Hypothesis Hor : forall l, Forall P l -> P (MOr l).
  Fixpoint margs_ind2 (a : margs) : P a :=
    let fix go (l : list margs) : Forall P l :=
      match l with [] => Forall_nil P | x :: r => Forall_cons x (margs_ind2 x) (go r) end in
    match a with
    | MName n => Hn n
    | MCond c v => Hc c v
    | MRange l => Hr l
    | MParen a => Hp a (margs_ind2 a)
    | MBracket a => Hb a (margs_ind2 a)
    | MUnary op a => Hu op a (margs_ind2 a)
    | MComma l => Hco l (go l)
    | MAnd l => Han l (go l)
    | MOr l => Hor l (go l)
    end.
End MargsInd.

Definition EG (first : bool) (b : buf) (k : list N) : Prop := if first then E b k else G b k.

Definition margs_goal (s : style) (a : margs) : Prop :=
  forall b k, margs_ok s a = true -> E b k -> G (write_margs s a b) k.

Lemma sep_list_G s sep (Hsep : resets sep) : forall l first b k,
  Forall (margs_goal s) l -> forallb (margs_ok s) l = true ->
  EG first b k ->
  G ((fix sep_list (sep : bytes) (l : list margs) (first : bool) (b : buf) {struct l} : buf :=
        match l with
        | [] => b
        | x :: r => sep_list sep r false (write_margs s x (if first then b else add sep b))
        end) sep l first b) k.
Proof.
  induction l as [|x r IH]; intros first b k HF Hok Hb.
  - unfold EG in Hb. destruct first; [apply E_G|]; exact Hb.
  - inversion HF as [|? ? Hx HF']; subst. cbn in Hok. apply andb_true_iff in Hok. destruct Hok as [Hxo Hro].
    apply IH; [exact HF' | exact Hro|]. unfold EG in *.
    apply Hx; [exact Hxo|]. destruct first; [exact Hb|]. apply add_reset; assumption.
Qed.

Lemma r_lbracket_open b k : E b k -> E (add [91] b) (91 :: k).
Proof. intros H. unfold E. rewrite stb_add, H. reflexivity. Qed.
Lemma r_rbracket_close b k : G b (91 :: k) -> E (add [93] b) k.
Proof. intros [m [H Hm]]. unfold E. rewrite stb_add, H. destruct m; try discriminate; reflexivity. Qed.

Lemma range_G s : forall l first b k,
  forallb (fun p => okl (fst p) && okl (leaf_of s (snd p))) l = true ->
  EG first b k ->
  G ((fix go (l : list (bytes * leaf)) (first : bool) (b : buf) : buf :=
        match l with
        | [] => b
        | (op, v) :: r =>
            go r false (add (leaf_of s v) (if first then b else add [32] (add op (add [32] b))))
        end) l first b) k.
Proof.
  induction l as [|[op v] r IH]; intros first b k Hok Hb.
  - unfold EG in Hb. destruct first; [apply E_G|]; exact Hb.
  - cbn in Hok. apply andb_true_iff in Hok. destruct Hok as [Hx Hr].
    apply andb_true_iff in Hx. destruct Hx as [Hop Hv].
    apply IH; [exact Hr|]. unfold EG in *. apply add_leaf; [exact Hv|].
    destruct first; [exact Hb|].
    apply add_reset; [apply r_sp|]. apply add_leaf; [exact Hop|].
    apply add_reset; [apply r_sp | exact Hb].
Qed.

Lemma write_margs_G s a : margs_goal s a.
Proof.
  induction a using margs_ind2; unfold margs_goal; intros b k Hok Hb; cbn [write_margs margs_ok] in *.
  - apply add_leaf; assumption.
  - apply andb_true_iff in Hok. destruct Hok as [Hc Hv].
    apply E_G. apply add_reset; [apply r_rparen|]. apply add_leaf; [exact Hv|].
    apply add_reset; [apply r_colon_sp|]. apply add_leaf; [exact Hc|].
    apply add_stays; [apply s_lparen | exact Hb].
  - apply E_G. apply add_reset; [apply r_rparen|].
    apply range_G; [exact Hok|]. apply add_stays; [apply s_lparen | exact Hb].
  - apply E_G. apply add_reset; [apply r_rparen|]. apply IHa; [exact Hok|].
    apply add_stays; [apply s_lparen | exact Hb].
  - apply E_G. apply r_rbracket_close. apply IHa; [exact Hok|]. apply r_lbracket_open, Hb.
  - apply andb_true_iff in Hok. destruct Hok as [Hop Ha].
    apply IHa; [exact Ha|]. apply add_reset; [apply r_sp|]. apply add_leaf; assumption.
  - apply sep_list_G; try assumption. destruct (is_compressed s); [apply r_comma | apply r_comma_sp].
  - apply sep_list_G; try assumption. apply r_and.
  - apply sep_list_G; try assumption. apply r_or.
Qed.

Lemma write_sels_G s : forall l first b k,
  forallb (fun x => okl (leaf_of s x)) l = true ->
  EG first b k -> G (write_sels s l first b) k.
Proof.
  induction l as [|x r IH]; intros first b k Hok Hb.
  - unfold EG in Hb. destruct first; [apply E_G|]; exact Hb.
  - cbn in Hok. apply andb_true_iff in Hok. destruct Hok as [Hx Hr].
    cbn [write_sels]. apply IH; [exact Hr|]. unfold EG in *. apply add_leaf; [exact Hx|].
    destruct first; [exact Hb|]. unfold add_one.
    apply add_reset; [|exact Hb]. destruct (is_compressed s); [apply r_comma | apply r_comma_sp].
Qed.

(* ------------------------------------------------------------------------ *)
(* the item writers keep the invariant: between items the scanner is in N0 *)
Definition item_goal (s : style) (it : item) : Prop :=
  forall ind b k, leaf_ok s it = true -> E b k -> E (write_item s ind it b) k.

Lemma local_items_E s ind : forall l b k,
  Forall (item_goal s) l -> forallb (leaf_ok s) l = true -> E b k ->
  E ((fix write_items (l : list item) (b : buf) {struct l} : buf :=
        match l with
        | [] => b
        | x :: r => write_items r (write_item s ind x b)
        end) l b) k.
Proof.
  induction l as [|x r IH]; intros b k HF Hok Hb; [exact Hb|].
  inversion HF as [|? ? Hx HF']; subst. cbn in Hok. apply andb_true_iff in Hok. destruct Hok as [Hxo Hro].
  apply IH; [exact HF' | exact Hro|]. apply Hx; assumption.
Qed.

Lemma add_one_reset s x y b k : resets x -> resets y -> G b k -> E (add_one s x y b) k.
Proof. intros Hx Hy Hb. unfold add_one. destruct (is_compressed s); apply add_reset; assumption. Qed.

Lemma block_E s ind body b k :
  Forall (item_goal s) body -> forallb (leaf_ok s) body = true -> G b k ->
  E (end_block s ind
       ((fix write_items (l : list item) (b : buf) {struct l} : buf :=
           match l with
           | [] => b
           | x :: r => write_items r (write_item s (ind + 2)%nat x b)
           end) body (start_block s b))) k.
Proof.
  intros HF Hok Hb. apply end_block_E. apply local_items_E; [exact HF | exact Hok|].
  apply open_block, Hb.
Qed.

Lemma opt_args_G s a b k : okopt s a = true -> G b k ->
  G (match a with Some l => add (leaf_of s l) (add [32] b) | None => b end) k.
Proof.
  intros Ha Hb. destruct a as [l|]; [|exact Hb].
  apply add_leaf; [exact Ha|]. apply add_reset; [apply r_sp | exact Hb].
Qed.

Lemma E_cons_nl b k : E b k -> E (10 :: b) k.
Proof. unfold E. intros H. change (stb (10 :: b)) with (step (stb b) 10). rewrite H. reflexivity. Qed.

Lemma single_comment_E s ind t b2 k : no_slash t = true -> G b2 k ->
  E (add_one s [32;125;10] [125] (pop_nl (write_comment s ind t (add_one s [32;123;32] [123] b2)))) k.
Proof.
  intros Ht G2.
  assert (E1 : E (add_one s [32;123;32] [123] b2) (123 :: k)).
  { destruct G2 as [m [Hb2 Hm]]. unfold E, add_one. rewrite stb_add, Hb2.
    destruct (is_compressed s); destruct m; try discriminate; reflexivity. }
  assert (G3 : G (pop_nl (write_comment s ind t (add_one s [32;123;32] [123] b2))) (123 :: k)).
  { apply pop_nl_G, E_G. apply write_comment_E; assumption. }
  destruct G3 as [m [H3 Hm]]. unfold E. unfold add_one at 1. rewrite stb_add, H3.
  destruct (is_compressed s); destruct m; try discriminate; reflexivity.
Qed.

Lemma write_item_E s it : item_goal s it.
Proof.
  induction it using item_ind2; unfold item_goal; intros ind b k Hok Hb; cbn [write_item leaf_ok] in *.
  - apply write_comment_E; assumption.
  - apply andb_true_iff in Hok. destruct Hok as [Hn Ha]. unfold write_import.
    apply add_one_reset; [apply r_semi_nl | apply r_semi|].
    apply opt_args_G; [exact Ha|]. apply add_leaf; [exact Hn|].
    apply add_stays; [apply s_import|]. apply do_indent_no_nl_E, Hb.
  - apply andb_true_iff in Hok. destruct Hok as [Hn Hv]. unfold write_prop.
    apply add_one_reset; [apply r_semi_nl | apply r_semi|].
    apply add_leaf; [exact Hv|]. apply add_one_reset; [apply r_colon_sp | apply r_colon|].
    apply add_leaf; [exact Hn|]. apply do_indent_no_nl_E, Hb.
  - apply andb_true_iff in Hok. destruct Hok as [Hn Hv]. unfold write_custom.
    apply add_one_reset; [apply r_semi_nl | apply r_semi|].
    apply add_leaf; [exact Hv|].
    assert (H1 : E (add [58] (add n (do_indent_no_nl s ind b))) k).
    { apply add_reset; [apply r_colon|]. apply add_leaf; [exact Hn|]. apply do_indent_no_nl_E, Hb. }
    destruct (q && negb (is_compressed s)); [|exact H1].
    apply add_reset; [apply r_sp | apply E_G, H1].
  - apply andb_true_iff in Hok. destruct Hok as [Hs Hbody].
    destruct body as [|x r]; [exact Hb|].
    apply (block_E s ind (x :: r)); [assumption | exact Hbody|].
    destruct (sels_empty s sels).
    + apply E_G. apply add_stays; [apply s_star|]. apply do_indent_no_nl_E, Hb.
    + apply write_sels_G; [exact Hs|]. unfold EG. apply do_indent_no_nl_E, Hb.
  - apply andb_true_iff in Hok. destruct Hok as [Ha Hbody].
    destruct body as [|x r]; [exact Hb|].
    apply (block_E s ind (x :: r)); [assumption | exact Hbody|].
    apply write_margs_G; [exact Ha|]. apply add_stays; [apply s_media|]. apply do_indent_no_nl_E, Hb.
  - apply andb_true_iff in Hok. destruct Hok as [Hna Hbody].
    apply andb_true_iff in Hna. destruct Hna as [Hn Ha].
    assert (G2 : G (match a with
                    | Some l => add (leaf_of s l) (add [32] (add n (add [64] (do_indent_no_nl s ind b))))
                    | None => add n (add [64] (do_indent_no_nl s ind b)) end) k).
    { apply opt_args_G; [exact Ha|]. apply add_leaf; [exact Hn|].
      apply add_stays; [apply s_at|]. apply do_indent_no_nl_E, Hb. }
    set (b2 := match a with Some _ => _ | None => _ end) in *.
    assert (Blk : forall l, body = Some l -> forallb (leaf_ok s) l = true ->
              E (end_block s ind
                   ((fix write_items (l : list item) (b : buf) {struct l} : buf :=
                       match l with
                       | [] => b
                       | x :: r => write_items r (write_item s (ind + 2)%nat x b)
                       end) l (start_block s b2))) k).
    { intros l e Hl. apply block_E; [apply H; exact e | exact Hl | exact G2]. }
    destruct body as [l|]; [|apply add_one_reset; [apply r_semi_nl | apply r_semi | exact G2]].
    destruct l as [|i l0]; [apply (Blk [] eq_refl Hbody)|].
    destruct i; try (apply (Blk _ eq_refl Hbody)).
    destruct l0 as [|j l1]; [|apply (Blk _ eq_refl Hbody)].
    (* the single-comment form *)
    cbn in Hbody. rewrite andb_true_r in Hbody.
    apply single_comment_E; assumption.
  - unfold opt_nl. destruct (is_compressed s); [exact Hb|].
    destruct b as [|c r]; [exact Hb|].
    destruct (head_is 10 (c :: r) && head_is 10 (tl (c :: r))); [exact Hb|].
    apply E_cons_nl, Hb.
Qed.

Lemma write_items_E s ind : forall l b k,
  forallb (leaf_ok s) l = true -> E b k -> E (write_items s ind l b) k.
Proof.
  induction l as [|x r IH]; intros b k Hok Hb; [exact Hb|].
  cbn in Hok. apply andb_true_iff in Hok. destruct Hok as [Hx Hr].
  cbn [write_items]. apply IH; [exact Hr|]. apply write_item_E; assumption.
Qed.

(* ------------------------------------------------------------------------ *)
(* CssData::into_buffer *)
Definition data_ok (s : style) (d : cssdata) : bool :=
  forallb (leaf_ok s) (d_imports d) && forallb (leaf_ok s) (d_body d).

Lemma body_buf_E s d : data_ok s d = true -> E (body_buf s d) [].
Proof.
  unfold data_ok. intros H. apply andb_true_iff in H. destruct H as [Hi Hb].
  unfold body_buf. apply write_items_E; [exact Hb|]. apply write_items_E; [exact Hi|]. reflexivity.
Qed.

Lemma stb_mark s : stb (rev (mark_of s)) = (N0, []).
Proof. destruct s; reflexivity. Qed.

Lemma G_mark s b k : G b k -> G (b ++ rev (mark_of s)) k.
Proof.
  intros [m [H Hm]]. exists m. split; [|exact Hm].
  rewrite stb_app, stb_mark. exact H.
Qed.

Lemma drop_nl_G b : forall k, G b k -> G (drop_nl b) k.
Proof.
  induction b as [|c r IH]; intros k H; [exact H|].
  cbn [drop_nl]. destruct (N.eqb_spec c 10) as [e|ne]; [|exact H].
  subst c. apply IH. apply (pop_G 10); [left; reflexivity | exact H].
Qed.

Lemma balanced_rev b : G b [] -> balanced (rev b) = true.
Proof. intros [m [H Hm]]. unfold balanced. rewrite stb_run, H. exact Hm. Qed.

Lemma G_cons_nl b k : G b k -> G (10 :: b) k.
Proof.
  intros [m [H Hm]]. exists N0. split; [|reflexivity].
  change (stb (10 :: b)) with (step (stb b) 10). rewrite H. destruct m; try discriminate; reflexivity.
Qed.

Lemma finish_balanced s b : G b [] -> balanced (rev (finish s b)) = true.
Proof.
  intros H. apply balanced_rev. unfold finish.
  set (b1 := if is_ascii_b b then b else b ++ rev (mark_of s)).
  assert (G1 : G b1 []) by (unfold b1; destruct (is_ascii_b b); [exact H | apply G_mark, H]).
  assert (G2 : G (drop_nl b1) []) by (apply drop_nl_G, G1).
  set (b3 := if is_compressed s then pop_if 59 (drop_nl b1) else drop_nl b1).
  assert (G3 : G b3 []).
  { unfold b3. destruct (is_compressed s); [apply pop_if_G; [right; reflexivity|]|]; exact G2. }
  destruct b3 as [|c r]; [exists N0; split; reflexivity|]. apply G_cons_nl, G3.
Qed.

Lemma balance_main s d : data_ok s d = true -> balanced (into_buffer s d) = true.
Proof. intros H. unfold into_buffer. apply finish_balanced, E_G, body_buf_E, H. Qed.

(* ---- marker ---- *)
Lemma is_ascii_rev b : is_ascii (rev b) = is_ascii_b b.
Proof.
  unfold is_ascii, is_ascii_b. induction b as [|c r IH]; [reflexivity|].
  cbn [rev]. rewrite forallb_app, IH. cbn. rewrite andb_true_r. apply andb_comm.
Qed.

Lemma ascii_drop_nl b : is_ascii_b b = true -> is_ascii_b (drop_nl b) = true.
Proof.
  induction b as [|c r IH]; intros H; [reflexivity|]. cbn [drop_nl].
  destruct (c =? 10); [|exact H]. apply IH. cbn in H. apply andb_true_iff in H. apply H.
Qed.

Lemma ascii_pop_if c b : is_ascii_b b = true -> is_ascii_b (pop_if c b) = true.
Proof.
  intros H. unfold pop_if. destruct (head_is c b); [|exact H].
  destruct b; [reflexivity|]. cbn in *. apply andb_true_iff in H. apply H.
Qed.

Lemma starts_with_app p x : starts_with p (p ++ x) = true.
Proof. induction p as [|a p IH]; [reflexivity|]. cbn. rewrite N.eqb_refl. exact IH. Qed.

Lemma drop_nl_app_nonascii b r : is_ascii_b b = false ->
  exists c b', drop_nl (b ++ r) = c :: b' ++ r /\ c <> 10.
Proof.
  induction b as [|c b IH]; intros H; [discriminate|].
  cbn [drop_nl app]. destruct (N.eqb_spec c 10) as [e|ne].
  - subst c. cbn in H. apply IH, H.
  - exists c, b. split; [reflexivity | exact ne].
Qed.

Lemma marker_main s d : marker_ok (is_compressed s) (into_buffer s d) = true.
Proof.
  unfold marker_ok, into_buffer, finish. cbv zeta.
  set (b := body_buf s d). destruct (is_ascii_b b) eqn:A.
  - apply orb_true_iff. left. rewrite is_ascii_rev.
    set (b3 := if is_compressed s then _ else _).
    assert (A3 : is_ascii_b b3 = true).
    { unfold b3. destruct (is_compressed s); [apply ascii_pop_if|]; apply ascii_drop_nl, A. }
    destruct b3; [reflexivity|]. cbn. cbn in A3. exact A3.
  - apply orb_true_iff. right.
    destruct (drop_nl_app_nonascii b (rev (mark_of s)) A) as [c [b' [Hd Hc]]].
    rewrite Hd.
    assert (exists b'', (if is_compressed s then pop_if 59 (c :: b' ++ rev (mark_of s)) else c :: b' ++ rev (mark_of s))
                        = b'' ++ rev (mark_of s) /\ (b'' = [] -> c = 59)) as [b'' [Hb Hne]].
    { destruct (is_compressed s); [|exists (c :: b'); split; [reflexivity | discriminate]].
      unfold pop_if, head_is. destruct (N.eqb_spec c 59) as [e|ne].
      - exists b'. split; [reflexivity | intros _; exact e].
      - exists (c :: b'). split; [reflexivity | discriminate]. }
    rewrite Hb.
    assert (Hs : starts_with (mark_of s)
                   (rev match b'' ++ rev (mark_of s) with [] => [] | _ :: _ => 10 :: b'' ++ rev (mark_of s) end) = true).
    { destruct (b'' ++ rev (mark_of s)) as [|x y] eqn:Ex.
      + apply app_eq_nil in Ex. destruct Ex as [_ Ex]. destruct s; discriminate.
      + rewrite <- Ex. change (10 :: b'' ++ rev (mark_of s)) with ([10] ++ b'' ++ rev (mark_of s)).
        rewrite !rev_app_distr, rev_involutive, <- app_assoc. apply starts_with_app. }
    destruct s; exact Hs.
Qed.

(* ---- final newline ---- *)
Lemma drop_nl_head b : head_is 10 (drop_nl b) = false.
Proof.
  induction b as [|c r IH]; [reflexivity|]. cbn [drop_nl].
  destruct (c =? 10) eqn:e; [exact IH|]. cbn. exact e.
Qed.

Lemma final_newline_of b : head_is 10 b = false ->
  final_newline_ok (rev (match b with [] => [] | _ => 10 :: b end)) = true.
Proof.
  intros H. unfold final_newline_ok. rewrite rev_involutive.
  destruct b as [|c r]; [reflexivity|]. cbn in H. rewrite H. reflexivity.
Qed.

Lemma final_newline_expanded d : final_newline_ok (into_buffer Expanded d) = true.
Proof. unfold into_buffer, finish. cbn [is_compressed]. apply final_newline_of, drop_nl_head. Qed.

(* ------------------------------------------------------------------------ *)
(* compressed output: no line break comes from the writer itself *)
Definition nonl (x : bytes) : bool := forallb (fun c => negb (c =? 10)) x.

Definition nonl_opt (a : option leaf) : bool :=
  match a with Some l => nonl (l_comp l) | None => true end.

Fixpoint nonl_margs (a : margs) : bool :=
  match a with
  | MName n => nonl n
  | MCond c v => nonl c && nonl (l_comp v)
  | MRange l => forallb (fun p => nonl (fst p) && nonl (l_comp (snd p))) l
  | MParen x | MBracket x => nonl_margs x
  | MUnary op x => nonl op && nonl_margs x
  | MComma l | MAnd l | MOr l => forallb nonl_margs l
  end.

Fixpoint nonl_item (it : item) : bool :=
  match it with
  | IComment t => nonl t
  | IImport n a => nonl n && nonl_opt a
  | IProp n _ => nonl n
  | ICustom n v _ => nonl n && nonl v
  | IRule sels body => forallb (fun l => nonl (l_comp l)) sels && forallb nonl_item body
  | IMedia a body => nonl_margs a && forallb nonl_item body
  | IAt n a body => nonl n && nonl_opt a &&
                    match body with Some l => forallb nonl_item l | None => true end
  | ISep => true
  end.

Lemma nonl_app x y : nonl (x ++ y) = nonl x && nonl y.
Proof. apply forallb_app. Qed.

Lemma nonl_rev x : nonl (rev x) = nonl x.
Proof.
  induction x as [|c r IH]; [reflexivity|]. cbn [rev]. rewrite nonl_app, IH. cbn.
  rewrite andb_true_r. apply andb_comm.
Qed.

Lemma nonl_add x b : nonl x = true -> nonl b = true -> nonl (add x b) = true.
Proof. intros Hx Hb. unfold add. rewrite rev_append_rev, nonl_app, nonl_rev, Hx, Hb. reflexivity. Qed.

Lemma nonl_tl b : nonl b = true -> nonl (tl b) = true.
Proof. destruct b; [reflexivity|]. cbn. intros H. apply andb_true_iff in H. apply H. Qed.

Lemma nonl_pop_if c b : nonl b = true -> nonl (pop_if c b) = true.
Proof. intros H. unfold pop_if. destruct (head_is c b); [apply nonl_tl|]; exact H. Qed.

Lemma nonl_nl_to_space v : nonl (nl_to_space v) = true.
Proof.
  induction v as [|c r IH]; [reflexivity|]. unfold nl_to_space, nonl in *. cbn [map forallb]. rewrite IH, andb_true_r.
  destruct (c =? 10) eqn:e; [reflexivity|]. rewrite e. reflexivity.
Qed.

Lemma lines_aux_nonl t : nonl t = true -> forall cur, tl (lines_aux cur t) = [].
Proof.
  induction t as [|c r IH]; intros H cur.
  - cbn. destruct cur; reflexivity.
  - cbn in H. apply andb_true_iff in H. destruct H as [Hc Hr].
    cbn [lines_aux]. rewrite negb_true_iff in Hc. rewrite Hc. apply IH, Hr.
Qed.

Lemma comment_text_nonl s ind t : nonl t = true -> comment_text s ind t = t.
Proof.
  intros H. unfold comment_text, lines. rewrite (lines_aux_nonl t H). cbn.
  rewrite Nat.compare_refl. reflexivity.
Qed.

Ltac nonl_adds :=
  repeat first [ apply nonl_add; [first [reflexivity | assumption | apply nonl_nl_to_space]|] | assumption ].

Lemma nonl_write_comment ind t b : nonl t = true -> nonl b = true ->
  nonl (write_comment Compressed ind t b) = true.
Proof.
  intros Ht Hb. unfold write_comment. destruct (head_is 35 t).
  - exact Hb.
  - cbn [is_compressed]. nonl_adds.
Qed.

Definition nonl_margs_goal (a : margs) : Prop :=
  forall b, nonl_margs a = true -> nonl b = true -> nonl (write_margs Compressed a b) = true.

Lemma nonl_sep_list sep (Hsep : nonl sep = true) : forall l first b,
  Forall nonl_margs_goal l -> forallb nonl_margs l = true -> nonl b = true ->
  nonl ((fix sep_list (sep : bytes) (l : list margs) (first : bool) (b : buf) {struct l} : buf :=
        match l with
        | [] => b
        | x :: r => sep_list sep r false (write_margs Compressed x (if first then b else add sep b))
        end) sep l first b) = true.
Proof.
  induction l as [|x r IH]; intros first b HF Hok Hb; [exact Hb|].
  inversion HF as [|? ? Hx HF']; subst. cbn in Hok. apply andb_true_iff in Hok. destruct Hok as [Hxo Hro].
  apply IH; [exact HF' | exact Hro|]. apply Hx; [exact Hxo|].
  destruct first; [exact Hb|]. apply nonl_add; assumption.
Qed.

Lemma nonl_range : forall l first b,
  forallb (fun p => nonl (fst p) && nonl (l_comp (snd p))) l = true -> nonl b = true ->
  nonl ((fix go (l : list (bytes * leaf)) (first : bool) (b : buf) : buf :=
        match l with
        | [] => b
        | (op, v) :: r =>
            go r false (add (leaf_of Compressed v) (if first then b else add [32] (add op (add [32] b))))
        end) l first b) = true.
Proof.
  induction l as [|[op v] r IH]; intros first b Hok Hb; [exact Hb|].
  cbn in Hok. apply andb_true_iff in Hok. destruct Hok as [Hx Hr].
  apply andb_true_iff in Hx. destruct Hx as [Hop Hv].
  apply IH; [exact Hr|]. cbn [leaf_of]. destruct first; nonl_adds.
Qed.

Lemma nonl_write_margs a : nonl_margs_goal a.
Proof.
  induction a using margs_ind2; unfold nonl_margs_goal; intros b Hok Hb; cbn [write_margs nonl_margs leaf_of is_compressed] in *.
  - nonl_adds.
  - apply andb_true_iff in Hok. destruct Hok. nonl_adds.
  - apply nonl_add; [reflexivity|]. apply nonl_range; [exact Hok|]. nonl_adds.
  - apply nonl_add; [reflexivity|]. apply IHa; [exact Hok|]. nonl_adds.
  - apply nonl_add; [reflexivity|]. apply IHa; [exact Hok|]. nonl_adds.
  - apply andb_true_iff in Hok. destruct Hok. apply IHa; [assumption|]. nonl_adds.
  - apply nonl_sep_list; try assumption. reflexivity.
  - apply nonl_sep_list; try assumption. reflexivity.
  - apply nonl_sep_list; try assumption. reflexivity.
Qed.

Lemma nonl_write_sels : forall l first b,
  forallb (fun x => nonl (l_comp x)) l = true -> nonl b = true ->
  nonl (write_sels Compressed l first b) = true.
Proof.
  induction l as [|x r IH]; intros first b Hok Hb; [exact Hb|].
  cbn in Hok. apply andb_true_iff in Hok. destruct Hok as [Hx Hr].
  cbn [write_sels]. apply IH; [exact Hr|]. cbn [leaf_of]. unfold add_one. cbn [is_compressed].
  destruct first; nonl_adds.
Qed.

Definition nonl_goal (it : item) : Prop :=
  forall ind b, nonl_item it = true -> nonl b = true -> nonl (write_item Compressed ind it b) = true.

Lemma nonl_local_items ind : forall l b,
  Forall nonl_goal l -> forallb nonl_item l = true -> nonl b = true ->
  nonl ((fix write_items (l : list item) (b : buf) {struct l} : buf :=
        match l with
        | [] => b
        | x :: r => write_items r (write_item Compressed ind x b)
        end) l b) = true.
Proof.
  induction l as [|x r IH]; intros b HF Hok Hb; [exact Hb|].
  inversion HF as [|? ? Hx HF']; subst. cbn in Hok. apply andb_true_iff in Hok. destruct Hok as [Hxo Hro].
  apply IH; [exact HF' | exact Hro|]. apply Hx; assumption.
Qed.

Lemma nonl_end_block ind b : nonl b = true -> nonl (end_block Compressed ind b) = true.
Proof.
  intros H. unfold end_block, add_one, do_indent, get_indent. cbn [is_compressed].
  assert (H2 : nonl (pop_if 59 (pop_nl b)) = true) by (apply nonl_pop_if, nonl_pop_if, H).
  destruct (head_is 123 _); nonl_adds.
Qed.

Lemma nonl_block ind body b :
  Forall nonl_goal body -> forallb nonl_item body = true -> nonl b = true ->
  nonl (end_block Compressed ind
       ((fix write_items (l : list item) (b : buf) {struct l} : buf :=
           match l with
           | [] => b
           | x :: r => write_items r (write_item Compressed (ind + 2)%nat x b)
           end) body (start_block Compressed b))) = true.
Proof.
  intros HF Hok Hb. apply nonl_end_block. apply nonl_local_items; [exact HF | exact Hok|].
  unfold start_block, add_one. cbn [is_compressed]. nonl_adds.
Qed.

Lemma nonl_opt_args a b : nonl_opt a = true -> nonl b = true ->
  nonl (match a with Some l => add (leaf_of Compressed l) (add [32] b) | None => b end) = true.
Proof. intros Ha Hb. destruct a as [l|]; [|exact Hb]. cbn [leaf_of]. cbn in Ha. nonl_adds. Qed.

Lemma nonl_write_item it : nonl_goal it.
Proof.
  induction it using item_ind2; unfold nonl_goal; intros ind b Hok Hb; cbn [write_item nonl_item] in *.
  - apply nonl_write_comment; assumption.
  - apply andb_true_iff in Hok. destruct Hok as [Hn Ha]. unfold write_import, add_one, do_indent_no_nl.
    cbn [is_compressed]. apply nonl_add; [reflexivity|]. apply nonl_opt_args; [exact Ha|]. nonl_adds.
  - unfold write_prop, add_one, do_indent_no_nl. cbn [is_compressed]. nonl_adds.
  - apply andb_true_iff in Hok. destruct Hok as [Hn Hv]. unfold write_custom, add_one, do_indent_no_nl.
    cbn [is_compressed negb]. rewrite andb_false_r. nonl_adds.
  - apply andb_true_iff in Hok. destruct Hok as [Hs Hbody].
    destruct body as [|x r]; [exact Hb|].
    apply (nonl_block ind (x :: r)); [assumption | exact Hbody|].
    unfold do_indent_no_nl. cbn [is_compressed].
    destruct (sels_empty Compressed sels); [nonl_adds|]. apply nonl_write_sels; assumption.
  - apply andb_true_iff in Hok. destruct Hok as [Ha Hbody].
    destruct body as [|x r]; [exact Hb|].
    apply (nonl_block ind (x :: r)); [assumption | exact Hbody|].
    apply nonl_write_margs; [exact Ha|]. unfold do_indent_no_nl. cbn [is_compressed]. nonl_adds.
  - apply andb_true_iff in Hok. destruct Hok as [Hna Hbody].
    apply andb_true_iff in Hna. destruct Hna as [Hn Ha].
    assert (G2 : nonl (match a with
                    | Some l => add (leaf_of Compressed l) (add [32] (add n (add [64] (do_indent_no_nl Compressed ind b))))
                    | None => add n (add [64] (do_indent_no_nl Compressed ind b)) end) = true).
    { apply nonl_opt_args; [exact Ha|]. unfold do_indent_no_nl. cbn [is_compressed]. nonl_adds. }
    set (b2 := match a with Some _ => _ | None => _ end) in *.
    assert (Blk : forall l, body = Some l -> forallb nonl_item l = true ->
              nonl (end_block Compressed ind
                   ((fix write_items (l : list item) (b : buf) {struct l} : buf :=
                       match l with
                       | [] => b
                       | x :: r => write_items r (write_item Compressed (ind + 2)%nat x b)
                       end) l (start_block Compressed b2))) = true).
    { intros l e Hl. apply nonl_block; [apply H; exact e | exact Hl | exact G2]. }
    destruct body as [l|]; [|unfold add_one; cbn [is_compressed]; nonl_adds].
    destruct l as [|i l0]; [apply (Blk [] eq_refl Hbody)|].
    destruct i; try (apply (Blk _ eq_refl Hbody)).
    destruct l0 as [|j l1]; [|apply (Blk _ eq_refl Hbody)].
    cbn in Hbody. rewrite andb_true_r in Hbody.
    unfold add_one. cbn [is_compressed]. apply nonl_add; [reflexivity|]. apply nonl_pop_if.
    apply nonl_write_comment; [exact Hbody|]. nonl_adds.
  - exact Hb.
Qed.

Lemma nonl_write_items ind : forall l b,
  forallb nonl_item l = true -> nonl b = true -> nonl (write_items Compressed ind l b) = true.
Proof.
  induction l as [|x r IH]; intros b Hok Hb; [exact Hb|].
  cbn in Hok. apply andb_true_iff in Hok. destruct Hok as [Hx Hr].
  cbn [write_items]. apply IH; [exact Hr|]. apply nonl_write_item; assumption.
Qed.

Definition nonl_data (d : cssdata) : bool :=
  forallb nonl_item (d_imports d) && forallb nonl_item (d_body d).

Lemma nonl_body_buf d : nonl_data d = true -> nonl (body_buf Compressed d) = true.
Proof.
  unfold nonl_data. intros H. apply andb_true_iff in H. destruct H as [Hi Hb].
  unfold body_buf. apply nonl_write_items; [exact Hb|]. apply nonl_write_items; [exact Hi|]. reflexivity.
Qed.

Lemma drop_nl_nonl b : nonl b = true -> drop_nl b = b.
Proof.
  destruct b as [|c r]; [reflexivity|]. cbn. intros H. apply andb_true_iff in H. destruct H as [Hc _].
  rewrite negb_true_iff in Hc. rewrite Hc. reflexivity.
Qed.

(* the compressed output is a text without line break followed by one newline, or empty *)
Lemma compressed_shape d : nonl_data d = true ->
  exists x, nonl x = true /\
    into_buffer Compressed d = match x with [] => [] | _ => x ++ [10] end.
Proof.
  intros H. pose proof (nonl_body_buf d H) as Hb.
  unfold into_buffer, finish. cbn [is_compressed mark_of].
  set (b := body_buf Compressed d) in *.
  set (b1 := if is_ascii_b b then b else b ++ rev bom_mark).
  assert (H1 : nonl b1 = true).
  { unfold b1. destruct (is_ascii_b b); [exact Hb|]. rewrite nonl_app, Hb. reflexivity. }
  rewrite (drop_nl_nonl b1 H1).
  assert (H3 : nonl (pop_if 59 b1) = true) by (apply nonl_pop_if, H1).
  exists (rev (pop_if 59 b1)). split; [rewrite nonl_rev; exact H3|].
  destruct (pop_if 59 b1) as [|c r] eqn:e; [reflexivity|].
  cbn [rev]. destruct (rev r ++ [c]) eqn:e2; [destruct (rev r); discriminate|]. rewrite <- e2. reflexivity.
Qed.

Lemma one_line_main d : nonl_data d = true -> nonl (removelast (into_buffer Compressed d)) = true.
Proof.
  intros H. destruct (compressed_shape d H) as [x [Hx Ho]]. rewrite Ho.
  destruct x as [|c r]; [reflexivity|]. rewrite removelast_last. exact Hx.
Qed.

Lemma final_newline_compressed d : nonl_data d = true ->
  final_newline_ok (into_buffer Compressed d) = true.
Proof.
  intros H. destruct (compressed_shape d H) as [x [Hx Ho]]. rewrite Ho.
  destruct x as [|c r]; [reflexivity|]. unfold final_newline_ok.
  rewrite rev_app_distr. remember (rev (c :: r)) as w eqn:e. cbn.
  destruct w as [|y z].
  - apply (f_equal (@length N)) in e. rewrite rev_length in e. discriminate.
  - assert (Hy : nonl (y :: z) = true) by (rewrite e, nonl_rev; exact Hx).
    cbn in Hy. apply andb_true_iff in Hy. apply Hy.
Qed.

(* ---- refutations: the leaf hypotheses are necessary ---- *)
Definition brace_witness : cssdata :=
  mkData [] [IRule [same_leaf [97]] [IProp [120] (same_leaf [125])]].     (* a { x: } } *)
Lemma refuted_unquoted_brace :
  balanced (into_buffer Expanded brace_witness) = false /\ balanced (into_buffer Compressed brace_witness) = false.
Proof. split; vm_compute; reflexivity. Qed.

Definition comment_witness : cssdata :=
  mkData [] [IRule [same_leaf [97]] [IComment [32;120;10;32;32;32;32;32;32;42;32;121;32]; IProp [98] (same_leaf [99])]].
Lemma refuted_compressed_comment : one_line_ok (into_buffer Compressed comment_witness) = false.
Proof. vm_compute. reflexivity. Qed.
