(* Proofs for C04. *)
From Coq Require Import String List Bool Arith Ascii NArith ZArith Lia.
From RV Require Import Base.ListX Gen.Candidates Model.Load Model.LoadRun Spec.Resolve Run.C04.
Import ListNotations.
Local Open Scope string_scope.
Local Open Scope list_scope.

(* ---------- strings ---------- *)
Lemma app_nil_r_s (s : string) : (s ++ "")%string = s.
Proof. induction s; cbn; congruence. Qed.
Lemma app_assoc_s (a b c : string) : ((a ++ b) ++ c = a ++ b ++ c)%string.
Proof. induction a; cbn; congruence. Qed.
Lemma ends_with_same (s suf : string) : ends_with s suf = ends_with_s s suf.
Proof. induction s; cbn; [reflexivity|]. rewrite IHs. reflexivity. Qed.

(* ---------- the generated tables against the documented candidates ---------- *)

Definition pieces_of (c : scand) : list piece :=
  match fst c with
  | ShPlain => [PBase; PName; PLit (ext_text (snd c))]
  | ShPartial => [PBase; PLit "_"; PName; PLit (ext_text (snd c))]
  | ShIndex => [PBase; PName; PLit ("/index" ++ ext_text (snd c))%string]
  | ShPartialIndex => [PBase; PName; PLit ("/_index" ++ ext_text (snd c))%string]
  end.

Definition piece_eqb (a b : piece) : bool :=
  match a, b with
  | PBase, PBase | PName, PName => true
  | PLit x, PLit y => String.eqb x y
  | _, _ => false
  end.

Lemma piece_eqb_eq a b : piece_eqb a b = true -> a = b.
Proof. destruct a, b; cbn; try discriminate; auto. intros H; apply String.eqb_eq in H; congruence. Qed.

Lemma pieces_eqb_eq a b : list_eqb piece_eqb a b = true -> a = b.
Proof.
  revert b; induction a; destruct b; cbn; try discriminate; auto.
  intros H; apply andb_prop in H as [H1 H2]. apply piece_eqb_eq in H1. apply IHa in H2. congruence.
Qed.

(* the documented candidate a generated rule denotes *)
Definition scand_of_pieces (p : list piece) : option scand :=
  find (fun c => list_eqb piece_eqb p (pieces_of c)) (import_variants ++ six).

Fixpoint all_some {A} (l : list (option A)) : option (list A) :=
  match l with
  | [] => Some []
  | Some x :: r => option_map (cons x) (all_some r)
  | None :: _ => None
  end.

Definition use_order : option (list scand) := all_some (map scand_of_pieces use_candidates).
Definition import_order : option (list scand) := all_some (map scand_of_pieces import_candidates).

Fixpoint scands_eqb (a b : list scand) : bool :=
  match a, b with
  | [], [] => true
  | x :: a', y :: b' => scand_eqb x y && scands_eqb a' b'
  | _, _ => false
  end.

(* l lists every documented candidate exactly once, in an order extending doc_before *)
Definition before_in (l : list scand) (a b : scand) : bool :=
  match index_of a l, index_of b l with Some i, Some j => Nat.ltb i j | _, _ => false end.
Definition linear_extension (import : bool) (l : list scand) : bool :=
  Nat.eqb (List.length l) (List.length (spec_cands import))
  && forallb (fun c => existsb (scand_eqb c) l) (spec_cands import)
  && forallb (fun a => forallb (fun b => implb (doc_before a b) (before_in l a b)) (spec_cands import)) (spec_cands import).

Definition tables_ok : bool :=
  match use_order, import_order with
  | Some u, Some i => scands_eqb u six && linear_extension true i
  | _, _ => false
  end.

Lemma tables_ok_true : tables_ok = true.
Proof. vm_compute. reflexivity. Qed.

Definition shapes_ok : bool :=
  find_file_shape_ok && do_find_direct_shape_ok && do_find_loop_shape_ok && relative_shape_ok
  && normalize_shape_ok && loadcss_lock_shape_ok
  && lock_shape_ok && unlock_shape_ok && fsloader_shape_ok && plain_css_shape_ok.
Lemma shapes_ok_true : shapes_ok = true.
Proof. vm_compute. reflexivity. Qed.

Lemma expand_pieces_of b n c : expand b n (pieces_of c) = spec_name b n c.
Proof.
  destruct c as [[] e]; unfold expand, pieces_of, spec_name; cbn [fst snd fold_right piece_text];
    rewrite ?app_nil_r_s; reflexivity.
Qed.

Lemma scand_of_pieces_sound p c : scand_of_pieces p = Some c -> p = pieces_of c.
Proof.
  unfold scand_of_pieces. intros H. apply find_some in H as [_ H]. apply pieces_eqb_eq in H. exact H.
Qed.

Lemma all_some_map {A B} (f : A -> option B) l r :
  all_some (map f l) = Some r -> Forall2 (fun a b => f a = Some b) l r.
Proof.
  revert r; induction l; cbn; intros r H.
  - inversion H; constructor.
  - destruct (f a) eqn:E; [|discriminate]. destruct (all_some (map f l)) eqn:E2; [|discriminate].
    cbn in H. inversion H; subst. constructor; auto.
Qed.

Lemma order_names cs l b n :
  all_some (map scand_of_pieces cs) = Some l -> map (expand b n) cs = map (spec_name b n) l.
Proof.
  intros H. apply all_some_map in H. induction H; cbn; [reflexivity|].
  apply scand_of_pieces_sound in H. subst x. rewrite expand_pieces_of. congruence.
Qed.

Lemma scand_eqb_eq a b : scand_eqb a b = true <-> a = b.
Proof. destruct a as [[] []], b as [[] []]; cbn; split; intros; try discriminate; try reflexivity; congruence. Qed.

Lemma scands_eqb_eq a b : scands_eqb a b = true -> a = b.
Proof.
  revert b; induction a; destruct b; cbn; try discriminate; auto.
  intros H; apply andb_prop in H as [H1 H2]. apply scand_eqb_eq in H1. apply IHa in H2. congruence.
Qed.

(* the code's order of candidates, as documented candidates *)
Definition code_order (k : kind) : list scand :=
  match (if is_import k then import_order else use_order) with Some l => l | None => [] end.

Lemma code_order_names k b n : map (expand b n) (cands k) = map (spec_name b n) (code_order k).
Proof.
  pose proof tables_ok_true as T. unfold tables_ok in T.
  destruct use_order eqn:U; [|discriminate]. destruct import_order eqn:I; [|discriminate].
  unfold code_order, cands. destruct (is_import k); [rewrite I | rewrite U]; apply order_names; assumption.
Qed.

Lemma use_order_six k : is_import k = false -> code_order k = six.
Proof.
  intros Hk. pose proof tables_ok_true as T. unfold tables_ok in T.
  destruct use_order eqn:U; [|discriminate]. destruct import_order eqn:I; [|discriminate].
  apply andb_prop in T as [T _]. apply scands_eqb_eq in T. unfold code_order. rewrite Hk, U. exact T.
Qed.

Lemma code_order_ext k : linear_extension (is_import k) (code_order k) = true.
Proof.
  pose proof tables_ok_true as T. unfold tables_ok in T.
  destruct use_order eqn:U; [|discriminate]. destruct import_order eqn:I; [|discriminate].
  apply andb_prop in T as [T1 T2]. unfold code_order. destruct (is_import k).
  - rewrite I. exact T2.
  - rewrite U. apply scands_eqb_eq in T1. subst l. vm_compute. reflexivity.
Qed.

(* ---------- the candidate loop, over an arbitrary loader ---------- *)

Section Lookup.
Variable lookup : string -> option string.

Lemma try_names_found s names p id rd s' :
  try_names (orc_of lookup) s names = FFound p id rd s' ->
  exists pre post, names = pre ++ p :: post /\ lookup p = Some id /\ rd = true
                   /\ forall q, In q pre -> lookup q = None.
Proof.
  revert s. induction names as [|a r IH]; intros s H; cbn in H; [discriminate|].
  unfold orc_of in H at 1. destruct (lookup a) eqn:E.
  - inversion H; subst. exists [], r. repeat split; auto. intros q [].
  - apply IH in H as (pre & post & -> & L & R & N). exists (a :: pre), post. repeat split; auto.
    intros q [<-|Hq]; auto.
Qed.

Lemma try_names_none s names :
  (exists s', try_names (orc_of lookup) s names = FNone s') <-> forall q, In q names -> lookup q = None.
Proof.
  revert s. induction names as [|a r IH]; intros s; cbn.
  - split; [intros _ q []|intros _; eauto].
  - unfold orc_of at 1. destruct (lookup a) eqn:E.
    + split; [intros [s' H]; discriminate|intros H; specialize (H a (or_introl eq_refl)); congruence].
    + rewrite IH. split; [intros H q [<-|Hq]; auto|intros H q Hq; auto].
Qed.

Lemma try_names_never_fails s names s' : try_names (orc_of lookup) s names <> FFail s'.
Proof.
  revert s. induction names as [|a r IH]; intros s; cbn; [discriminate|].
  unfold orc_of at 1. destruct (lookup a); [discriminate|apply IH].
Qed.
End Lookup.

Lemma probe_names_direct url cs : is_direct url = true -> probe_names url cs = [url].
Proof. unfold probe_names. intros ->. reflexivity. Qed.

(* ---------- FsLoader::find_file ---------- *)

Lemma first_some_found {A B} (f : A -> option B) l b :
  first_some f l = Some b ->
  exists pre a post, l = pre ++ a :: post /\ f a = Some b /\ forall a', In a' pre -> f a' = None.
Proof.
  induction l as [|x r IH]; cbn; [discriminate|]. destruct (f x) eqn:E.
  - intros H; inversion H; subst. exists [], x, r. repeat split; auto. intros a' [].
  - intros H. apply IH in H as (pre & a & post & -> & Fa & N). exists (x :: pre), a, post. repeat split; auto.
    intros a' [<-|Ha]; auto.
Qed.

Lemma first_some_none {A B} (f : A -> option B) l :
  first_some f l = None <-> forall a, In a l -> f a = None.
Proof.
  induction l as [|x r IH]; cbn.
  - split; [intros _ a []|auto].
  - destruct (f x) eqn:E.
    + split; [discriminate|intros H; specialize (H x (or_introl eq_refl)); congruence].
    + rewrite IH. split; [intros H a [<-|Ha]; auto|intros H a Ha; auto].
Qed.

Lemma load_paths_in_order isfile bases url f :
  fs_find isfile bases url = Some f ->
  exists pre b post, bases = pre ++ b :: post /\ isfile (join b url) = Some f
                     /\ forall b', In b' pre -> isfile (join b' url) = None.
Proof.
  unfold fs_find. destruct (String.eqb url ""); [discriminate|]. apply first_some_found.
Qed.

Lemma load_paths_none isfile bases url :
  url <> "" -> (fs_find isfile bases url = None <-> forall b, In b bases -> isfile (join b url) = None).
Proof.
  intros Hu. unfold fs_find. apply String.eqb_neq in Hu. rewrite Hu. apply first_some_none.
Qed.

(* ---------- the result is one the text allows ---------- *)

Lemma join_prefix b x : join b x = (dir_prefix b ++ x)%string.
Proof. unfold join, dir_prefix. destruct (String.eqb b ""); [reflexivity|]. rewrite app_assoc_s. reflexivity. Qed.

Section Allowed.
Variable isfile : string -> option string.

Lemma in_places_from i locs nf t :
  In t (places_from i locs nf) <->
  exists j l c nm, nth_error locs j = Some l /\ In (c, nm) (nf l) /\ t = (i + j, c, nm).
Proof.
  revert i. induction locs as [|l0 r IH]; intros i; cbn.
  - split; [intros []|intros (j & l & c & nm & H & _); destruct j; discriminate].
  - rewrite in_app_iff, in_map_iff, IH. split.
    + intros [((c & nm) & <- & Hin)|(j & l & c & nm & Hn & Hin & ->)].
      * exists 0, l0, c, nm. cbn. rewrite Nat.add_0_r. auto.
      * exists (S j), l, c, nm. cbn. rewrite Nat.add_succ_r. auto.
    + intros (j & l & c & nm & Hn & Hin & ->). destruct j; cbn in Hn.
      * inversion Hn; subst. left. exists (c, nm). rewrite Nat.add_0_r. auto.
      * right. exists j, l, c, nm. rewrite Nat.add_succ_r. auto.
Qed.

Lemma in_existing_gen locs cn t :
  In t (existing_gen isfile locs cn) <->
  exists j l c nm f, nth_error locs j = Some l /\ In (c, nm) cn /\ isfile (l ++ nm)%string = Some f /\ t = (j, c, f).
Proof.
  unfold existing_gen. rewrite in_flat_map. split.
  - intros (x & Hx & Ht). apply in_places_from in Hx as (j & l & c & nm & Hn & Hin & ->).
    apply in_map_iff in Hin as ((c0 & nm0) & E & Hin). cbn in E. inversion E; subst.
    cbn in Ht. destruct (isfile (l ++ nm0)%string) eqn:F; [|destruct Ht]. destruct Ht as [<-|[]].
    exists j, l, c, nm0, s. auto.
  - intros (j & l & c & nm & f & Hn & Hin & F & ->). exists (j, c, (l ++ nm)%string). split.
    + apply in_places_from. exists j, l, c, (l ++ nm)%string. repeat split; auto.
      apply in_map_iff. exists (c, nm). auto.
    + cbn. rewrite F. left. reflexivity.
Qed.

Lemma in_allowed_gen locs cn t :
  In t (existing_gen isfile locs cn) ->
  (forall t', In t' (existing_gen isfile locs cn) -> definitely_before t' t = false) ->
  In (snd t) (allowed_gen isfile locs cn).
Proof.
  intros Ht Hmin. unfold allowed_gen. apply in_map. unfold allowed_targets. apply filter_In. split; auto.
  apply negb_true_iff. apply not_true_is_false. intros H. apply existsb_exists in H as (t' & Ht' & Hb).
  rewrite (Hmin t' Ht') in Hb. discriminate.
Qed.

Lemma index_of_in c l i : index_of c l = Some i -> nth_error l i = Some c.
Proof.
  revert i. induction l as [|x r IH]; cbn; intros i; [discriminate|].
  destruct (scand_eqb c x) eqn:E.
  - intros H; inversion H; subst. apply scand_eqb_eq in E. subst. reflexivity.
  - destruct (index_of c r); cbn; [|discriminate]. intros H; inversion H; subst. cbn. auto.
Qed.

Lemma before_in_split l a b :
  before_in l a b = true -> exists pre post, l = pre ++ b :: post /\ In a pre.
Proof.
  unfold before_in. destruct (index_of a l) as [i|] eqn:Ia; [|discriminate].
  destruct (index_of b l) as [j|] eqn:Ib; [|discriminate]. intros H. apply Nat.ltb_lt in H.
  apply index_of_in in Ia, Ib. apply nth_error_split in Ib as (pre & post & -> & Hl).
  exists pre, post. split; auto. subst j. rewrite nth_error_app1 in Ia by assumption.
  eapply nth_error_In; eauto.
Qed.

Lemma index_of_le c pre post j : index_of c (pre ++ c :: post) = Some j -> j <= List.length pre.
Proof.
  revert j. induction pre as [|x r IH]; cbn; intros j.
  - assert (E : scand_eqb c c = true) by (apply scand_eqb_eq; reflexivity). rewrite E.
    intros H; inversion H; lia.
  - destruct (scand_eqb c x); [intros H; inversion H; lia|].
    destruct (index_of c (r ++ c :: post)) eqn:E; cbn; [|discriminate].
    intros H; inversion H; subst. specialize (IH n eq_refl). lia.
Qed.

(* index_of is the FIRST occurrence: what comes before b in the order lies before any occurrence of b *)
Lemma before_in_pre l a b pre post :
  before_in l a b = true -> l = pre ++ b :: post -> In a pre.
Proof.
  unfold before_in. destruct (index_of a l) as [i|] eqn:Ia; [|discriminate].
  destruct (index_of b l) as [j|] eqn:Ib; [|discriminate]. intros H Hl. apply Nat.ltb_lt in H.
  subst l. apply index_of_le in Ib. apply index_of_in in Ia.
  rewrite nth_error_app1 in Ia by lia. eapply nth_error_In; eauto.
Qed.

End Allowed.

Lemma code_order_documented k c : In c (code_order k) -> In c (spec_cands (is_import k)).
Proof.
  destruct (is_import k) eqn:Hk.
  - unfold code_order. rewrite Hk. destruct import_order as [l|] eqn:I; [|intros []].
    apply all_some_map in I. induction I; [intros []|].
    intros [<-|Hc]; auto. unfold scand_of_pieces in H. apply find_some in H as [H _]. exact H.
  - rewrite (use_order_six k Hk). auto.
Qed.

Lemma spec_name_nonempty b n c : spec_name b n c <> "".
Proof.
  destruct c as [[] []]; unfold spec_name; cbn [fst snd ext_text]; intros H;
    destruct b; cbn in H; try discriminate; destruct n; cbn in H; discriminate.
Qed.

Lemma nth_error_pre {A} (pre : list A) a post : nth_error (pre ++ a :: post) (List.length pre) = Some a.
Proof. induction pre; cbn; auto. Qed.

(* do_find_file twice in sequence = one scan of the concatenated names (the shape of find_file
   after fix 3dfdada: relative url first, then the url unchanged) *)
Lemma try_names_app orc s a b :
  try_names orc s (a ++ b) = match try_names orc s a with FNone s' => try_names orc s' b | r => r end.
Proof.
  revert s. induction a as [|x r IH]; intros s; cbn [app try_names]; [reflexivity|].
  destruct (orc (calls s) x); auto.
Qed.

Lemma find_file_two_phase orc cur k u s :
  try_names orc s (find_names cur k u) =
  let url := normalize u in
  let rel := normalize (relative cur url) in
  match try_names orc s (probe_names rel (cands k)) with
  | FNone s' => if String.eqb rel url then FNone s' else try_names orc s' (probe_names url (cands k))
  | r => r
  end.
Proof.
  unfold find_names. cbv zeta. rewrite try_names_app.
  destruct (try_names orc s (probe_names (normalize (relative cur (normalize u))) (cands k))); auto.
  destruct (String.eqb (normalize (relative cur (normalize u))) (normalize u)); reflexivity.
Qed.

(* for a url and an importer directory written in normal form, normalisation changes nothing *)
Lemma find_names_normal cur k u :
  normalize u = u -> normalize (relative cur u) = relative cur u ->
  find_names cur k u =
  probe_names (relative cur u) (cands k) ++ (if String.eqb (relative cur u) u then [] else probe_names u (cands k)).
Proof. intros H1 H2. unfold find_names. cbv zeta. rewrite H1, H2. reflexivity. Qed.

(* ---------- strings: directory parts ---------- *)
Lemma split_dir_selfdir s : fst (split_dir (fst (split_dir s))) = fst (split_dir s).
Proof.
  induction s as [|c r IH]; [reflexivity|]. cbn [split_dir].
  destruct (split_dir r) as [b n] eqn:E. cbn [fst] in IH.
  destruct (String.eqb b "") eqn:Eb.
  - destruct (Ascii.eqb c "/") eqn:Ec; [|reflexivity]. apply Ascii.eqb_eq in Ec. subst c. reflexivity.
  - cbn [fst]. cbn [split_dir]. destruct (split_dir b) as [b2 n2] eqn:E2. cbn [fst] in IH. subst b2.
    rewrite Eb. reflexivity.
Qed.

Lemma split_dir_prefix d x : fst (split_dir d) = d ->
  split_dir (d ++ x)%string = ((d ++ fst (split_dir x))%string, snd (split_dir x)).
Proof.
  induction d as [|c r IH]; intros H.
  - cbn. destruct (split_dir x); reflexivity.
  - cbn [split_dir] in H. destruct (split_dir r) as [b n] eqn:E. cbn [append split_dir].
    destruct (String.eqb b "") eqn:Eb.
    + destruct (Ascii.eqb c "/") eqn:Ec; cbn [fst] in H; [|discriminate].
      inversion H; subst r. cbn [append]. destruct (split_dir x) as [bx nx]. cbn [fst snd].
      destruct (String.eqb bx "") eqn:Ex.
      * apply String.eqb_eq in Ex. subst bx. reflexivity.
      * reflexivity.
    + cbn [fst] in H. inversion H; subst b.
      rewrite (IH eq_refl).
      cbn [fst snd].
      assert (Hne : String.eqb (r ++ fst (split_dir x))%string "" = false).
      { destruct r; [discriminate|reflexivity]. }
      rewrite Hne. reflexivity.
Qed.

Lemma spec_name_prefix d b n c : spec_name (d ++ b)%string n c = (d ++ spec_name b n c)%string.
Proof. destruct c as [[] e]; unfold spec_name; cbn [fst snd]; rewrite app_assoc_s; reflexivity. Qed.

Lemma prefix_neq d u : d <> "" -> (d ++ u)%string <> u.
Proof.
  intros Hd E. apply (f_equal String.length) in E.
  assert (L : forall a b, String.length (a ++ b)%string = String.length a + String.length b)
    by (induction a; cbn; intros; [reflexivity|rewrite IHa; reflexivity]).
  rewrite L in E. destruct d; [congruence|cbn in E; lia].
Qed.

(* ---------- one scan of the candidates of a url, over any file system and load paths ---------- *)
Section Main.
Variable isfile : string -> option string.
Variable bases : list string.

Definition scan (x : string) (k : kind) (s : state) : found :=
  try_names (orc_of (fs_find isfile bases)) s (probe_names x (cands k)).

(* Context::find_file's lookup for a load of `url` written in the file known as `cur` *)
Definition resolve (cur : string) (k : kind) (url : string) : found :=
  try_names (orc_of (fs_find isfile bases)) (st0 "") (find_names cur k url).

Lemma scan_found x k s p f rd s' :
  is_direct x = false -> scan x k s = FFound p f rd s' ->
  exists c lpre lpost bpre bx bpost,
    code_order k = lpre ++ c :: lpost /\ p = spec_name (fst (split_dir x)) (snd (split_dir x)) c /\
    bases = bpre ++ bx :: bpost /\ isfile (join bx p) = Some f /\
    (forall b', In b' bpre -> isfile (join b' p) = None) /\
    (forall c' b', In c' lpre -> In b' bases ->
        isfile (join b' (spec_name (fst (split_dir x)) (snd (split_dir x)) c')) = None).
Proof.
  intros Hd H. unfold scan, probe_names in H. rewrite Hd in H.
  destruct (split_dir x) as [b n] eqn:Sp. cbn [fst snd].
  rewrite code_order_names in H.
  apply try_names_found in H as (pre & post & Hn & Hf & _ & Hpre).
  apply map_eq_app in Hn as (lpre & lrest & Hl & Hpre' & Hrest).
  destruct lrest as [|c lpost]; [discriminate|]. cbn in Hrest. inversion Hrest as [[Hp Hpost]]. clear Hrest.
  subst p. apply load_paths_in_order in Hf as (bpre & bx & bpost & Hb & Hfile & Hbpre).
  exists c, lpre, lpost, bpre, bx, bpost. repeat split; auto.
  intros c' b' Hc' Hb'.
  assert (Hin : In (spec_name b n c') pre) by (rewrite <- Hpre'; apply in_map; exact Hc').
  apply Hpre in Hin. apply (proj1 (load_paths_none _ _ _ (spec_name_nonempty b n c'))) with (b := b') in Hin; auto.
Qed.

Lemma covered k c : In c (spec_cands (is_import k)) -> In c (code_order k).
Proof.
  intros Hc. pose proof (code_order_ext k) as X. unfold linear_extension in X.
  apply andb_prop in X as [X _]. apply andb_prop in X as [_ X]. rewrite forallb_forall in X.
  specialize (X c Hc). apply existsb_exists in X as (c1 & Hc1 & E). apply scand_eqb_eq in E. subst. exact Hc1.
Qed.

Lemma scan_none x k s :
  is_direct x = false ->
  ((exists s', scan x k s = FNone s') <->
   forall c b', In c (spec_cands (is_import k)) -> In b' bases ->
     isfile (join b' (spec_name (fst (split_dir x)) (snd (split_dir x)) c)) = None).
Proof.
  intros Hd. unfold scan, probe_names. rewrite Hd.
  destruct (split_dir x) as [b n] eqn:Sp. cbn [fst snd].
  rewrite code_order_names, try_names_none. split.
  - intros H c b' Hc Hb'. apply covered in Hc.
    assert (Hq : In (spec_name b n c) (map (spec_name b n) (code_order k))) by (apply in_map; exact Hc).
    apply H in Hq. apply (proj1 (load_paths_none _ _ _ (spec_name_nonempty b n c))) with (b := b') in Hq; auto.
  - intros H q Hq. apply in_map_iff in Hq as (c & <- & Hc).
    apply load_paths_none; [apply spec_name_nonempty|]. intros bj Hbj. apply H; auto.
    apply code_order_documented. exact Hc.
Qed.

Lemma doc_before_pre k c c' lpre lpost :
  code_order k = lpre ++ c :: lpost -> In c' (spec_cands (is_import k)) -> In c (spec_cands (is_import k)) ->
  doc_before c' c = true -> In c' lpre.
Proof.
  intros Hl Hc' Hc Db. pose proof (code_order_ext k) as E. unfold linear_extension in E.
  apply andb_prop in E as [_ E]. rewrite forallb_forall in E. specialize (E c' Hc').
  rewrite forallb_forall in E. specialize (E c Hc). rewrite Db in E. cbn in E.
  eapply before_in_pre; eauto.
Qed.

(* how a file is shown to be allowed: it exists at place i as candidate c, and nothing that the text
   definitely tries earlier exists *)
Lemma allowed_intro locs imp b n i l c f :
  nth_error locs i = Some l -> In c (spec_cands imp) -> isfile (l ++ spec_name b n c)%string = Some f ->
  (forall j l' c' f', nth_error locs j = Some l' -> In c' (spec_cands imp) ->
      isfile (l' ++ spec_name b n c')%string = Some f' -> j <= i ->
      (c' = c -> j = i) /\ doc_before c' c = false) ->
  In f (allowed isfile imp locs b n).
Proof.
  intros Hi Hc Hf Hmin. set (t := (i, c, f)). change f with (snd t). unfold allowed. apply in_allowed_gen.
  - apply in_existing_gen. exists i, l, c, (spec_name b n c), f. repeat split; auto.
    unfold cand_names. apply in_map_iff. exists c. auto.
  - intros t' Ht'. apply in_existing_gen in Ht' as (j & l' & c' & nm & f' & Hj & Hc' & Hf' & ->).
    unfold cand_names in Hc'. apply in_map_iff in Hc' as (c0 & E & Hc0). inversion E; subst c0 nm. clear E.
    unfold t, definitely_before.
    destruct (Nat.leb j i) eqn:Le; [|reflexivity]. cbn [andb]. apply Nat.leb_le in Le.
    destruct (Hmin j l' c' f' Hj Hc0 Hf' Le) as [M1 M2]. rewrite M2.
    destruct (scand_eqb c' c) eqn:Ec; [|reflexivity]. apply scand_eqb_eq in Ec. specialize (M1 Ec). subst j.
    rewrite Nat.eqb_refl. reflexivity.
Qed.

Lemma resolve_root cur k url :
  fst (split_dir cur) = "" -> normalize url = url -> resolve cur k url = scan url k (st0 "").
Proof.
  intros Hc Hn. unfold resolve, scan.
  assert (Hr : relative cur url = url) by (unfold relative; rewrite Hc; reflexivity).
  rewrite find_names_normal by (rewrite ?Hr; exact Hn).
  rewrite Hr, String.eqb_refl, app_nil_r. reflexivity.
Qed.

(* importer at the root: the resolved file is one the text allows *)
Theorem root_allowed cur k url p f rd s' :
  fst (split_dir cur) = "" -> normalize url = url -> is_direct url = false ->
  resolve cur k url = FFound p f rd s' ->
  In f (allowed isfile (is_import k) (map dir_prefix bases) (fst (split_dir url)) (snd (split_dir url))).
Proof.
  intros Hc Hn Hd H. rewrite (resolve_root cur k url Hc Hn) in H.
  apply scan_found in H as (c & lpre & lpost & bpre & bx & bpost & Hl & Hp & Hb & Hfile & Hbpre & Hlpre); auto.
  assert (Hcdoc : In c (spec_cands (is_import k))).
  { apply code_order_documented. rewrite Hl. apply in_or_app; right; left; reflexivity. }
  apply (allowed_intro _ _ _ _ (List.length bpre) (dir_prefix bx) c); auto.
  - rewrite Hb, map_app. cbn. rewrite <- (map_length dir_prefix bpre). apply nth_error_pre.
  - rewrite <- join_prefix, <- Hp. exact Hfile.
  - intros j l' c' f' Hj Hc' Hf' Le.
    rewrite nth_error_map in Hj. destruct (nth_error bases j) as [bj|] eqn:Hbj; [|discriminate].
    cbn in Hj. inversion Hj; subst l'. clear Hj. rewrite <- join_prefix in Hf'. split.
    + intros ->. destruct (Nat.eq_dec j (List.length bpre)) as [|Ne]; [assumption|]. exfalso.
      assert (Hlt : j < List.length bpre) by lia.
      rewrite Hb, nth_error_app1 in Hbj by assumption. apply nth_error_In in Hbj.
      rewrite <- Hp, (Hbpre bj Hbj) in Hf'. discriminate.
    + destruct (doc_before c' c) eqn:Db; [|reflexivity]. exfalso.
      pose proof (doc_before_pre k c c' lpre lpost Hl Hc' Hcdoc Db) as Hin.
      apply nth_error_In in Hbj. rewrite (Hlpre c' bj Hin Hbj) in Hf'. discriminate.
Qed.

Theorem root_none_iff cur k url :
  fst (split_dir cur) = "" -> normalize url = url -> is_direct url = false ->
  ((exists s', resolve cur k url = FNone s') <->
   existing_gen isfile (map dir_prefix bases)
     (cand_names (is_import k) (fst (split_dir url)) (snd (split_dir url))) = []).
Proof.
  intros Hc Hn Hd. rewrite (resolve_root cur k url Hc Hn), (scan_none url k (st0 "") Hd). split.
  - intros H. destruct (existing_gen _ _ _) as [|t r] eqn:E; [reflexivity|]. exfalso.
    assert (Ht : In t (t :: r)) by (left; reflexivity). rewrite <- E in Ht.
    apply in_existing_gen in Ht as (j & l & c & nm & f & Hj & Hcn & Hf & _).
    unfold cand_names in Hcn. apply in_map_iff in Hcn as (c0 & E0 & Hc0). inversion E0; subst c0 nm.
    rewrite nth_error_map in Hj. destruct (nth_error bases j) as [bj|] eqn:Hbj; [|discriminate].
    cbn in Hj. inversion Hj; subst l. rewrite <- join_prefix in Hf.
    apply nth_error_In in Hbj. rewrite (H c bj Hc0 Hbj) in Hf. discriminate.
  - intros E c bj Hc0 Hbj.
    destruct (isfile (join bj (spec_name (fst (split_dir url)) (snd (split_dir url)) c))) eqn:F; [|reflexivity].
    exfalso. apply In_nth_error in Hbj as (j & Hj).
    assert (Ht : In (j, c, s) (existing_gen isfile (map dir_prefix bases)
                                 (cand_names (is_import k) (fst (split_dir url)) (snd (split_dir url))))).
    { apply in_existing_gen. exists j, (dir_prefix bj), c, (spec_name (fst (split_dir url)) (snd (split_dir url)) c), s.
      repeat split; auto.
      - rewrite nth_error_map, Hj. reflexivity.
      - unfold cand_names. apply in_map_iff. exists c. auto.
      - rewrite <- join_prefix. exact F. }
    rewrite E in Ht. destruct Ht.
Qed.

End Main.

(* ---------- importer in a sub-directory (after fix 3dfdada) ---------- *)
Section Subdir.
Variable isfile : string -> option string.
Variable b0 : string.                 (* the load path under which the importing file was found *)
Variable others : list string.        (* the other load paths, in order *)
Let bases := b0 :: others.

(* for an importer known as `cur` (directory part d <> ""), found under b0: provided no candidate
   exists as <other load path>/<d>/.. (class K2), the resolved file is one the text allows with the
   places: the importing file's directory, then every load path *)
Theorem subdir_allowed cur k url p f rd s' :
  let d := fst (split_dir cur) in
  let b := fst (split_dir url) in let n := snd (split_dir url) in
  d <> "" -> normalize url = url -> normalize (relative cur url) = relative cur url ->
  is_direct url = false -> is_direct (relative cur url) = false ->
  (forall bo c, In bo others -> In c (spec_cands (is_import k)) ->
      isfile (join bo (d ++ spec_name b n c)%string) = None) ->
  resolve isfile bases cur k url = FFound p f rd s' ->
  In f (allowed isfile (is_import k) ((dir_prefix b0 ++ d)%string :: map dir_prefix bases) b n).
Proof.
  intros d b n Hd Hn Hn2 Hdu Hdr HK2 H.
  assert (Sp : split_dir (relative cur url) = ((d ++ b)%string, n)).
  { unfold relative. fold d. unfold d. rewrite split_dir_prefix by apply split_dir_selfdir. reflexivity. }
  assert (Hneq : String.eqb (relative cur url) url = false).
  { apply String.eqb_neq. unfold relative. fold d. apply prefix_neq. exact Hd. }
  unfold resolve in H. rewrite (find_names_normal cur k url Hn Hn2), Hneq, try_names_app in H.
  change (try_names (orc_of (fs_find isfile bases)) (st0 "") (probe_names (relative cur url) (cands k)))
    with (scan isfile bases (relative cur url) k (st0 "")) in H.
  destruct (scan isfile bases (relative cur url) k (st0 "")) as [p1 f1 rd1 s1|s1|s1] eqn:Ph1.
  - (* found relative to the importing file *)
    inversion H; subst p1 f1 rd1 s1. clear H.
    apply scan_found in Ph1 as (c & lpre & lpost & bpre & bx & bpost & Hl & Hp & Hb & Hfile & Hbpre & Hlpre); auto.
    rewrite Sp in Hp, Hlpre. cbn [fst snd] in Hp, Hlpre. rewrite spec_name_prefix in Hp.
    assert (Hcdoc : In c (spec_cands (is_import k))).
    { apply code_order_documented. rewrite Hl. apply in_or_app; right; left; reflexivity. }
    assert (Hbx : bpre = [] /\ bx = b0).
    { destruct bpre as [|y r]; cbn in Hb; inversion Hb as [[Hy Ho]]; [auto|]. exfalso.
      assert (Hin : In bx others) by (rewrite Ho; apply in_or_app; right; left; reflexivity).
      pose proof Hfile as Hf2. rewrite Hp, (HK2 bx c Hin Hcdoc) in Hf2. discriminate. }
    destruct Hbx as [-> ->].
    apply (allowed_intro isfile _ _ _ _ 0 (dir_prefix b0 ++ d)%string c); auto.
    + rewrite app_assoc_s, <- join_prefix, <- Hp. exact Hfile.
    + intros j l' c' f' Hj Hc' Hf' Le. assert (j = 0) by lia. subst j. cbn in Hj. inversion Hj; subst l'.
      split; [reflexivity|].
      destruct (doc_before c' c) eqn:Db; [|reflexivity]. exfalso.
      pose proof (doc_before_pre k c c' lpre lpost Hl Hc' Hcdoc Db) as Hin.
      specialize (Hlpre c' b0 Hin (or_introl eq_refl)). rewrite spec_name_prefix in Hlpre.
      rewrite app_assoc_s, <- join_prefix in Hf'. rewrite Hlpre in Hf'. discriminate.
  - (* nothing relative to the importing file: the url unchanged, in every load path *)
    assert (N1 : forall c b', In c (spec_cands (is_import k)) -> In b' bases ->
                   isfile (join b' (d ++ spec_name b n c)%string) = None).
    { intros c b' Hc Hb'. pose proof (proj1 (scan_none isfile bases (relative cur url) k (st0 "") Hdr)) as X.
      specialize (X (ex_intro _ s1 Ph1) c b' Hc Hb'). rewrite Sp in X. cbn [fst snd] in X.
      rewrite spec_name_prefix in X. exact X. }
    change (try_names (orc_of (fs_find isfile bases)) s1 (probe_names url (cands k)))
      with (scan isfile bases url k s1) in H.
    apply scan_found in H as (c & lpre & lpost & bpre & bx & bpost & Hl & Hp & Hb & Hfile & Hbpre & Hlpre); auto.
    fold b n in Hp, Hlpre.
    assert (Hcdoc : In c (spec_cands (is_import k))).
    { apply code_order_documented. rewrite Hl. apply in_or_app; right; left; reflexivity. }
    apply (allowed_intro isfile _ _ _ _ (S (List.length bpre)) (dir_prefix bx) c); auto.
    + cbn [nth_error]. rewrite Hb, map_app. cbn. rewrite <- (map_length dir_prefix bpre). apply nth_error_pre.
    + rewrite <- join_prefix, <- Hp. exact Hfile.
    + intros j l' c' f' Hj Hc' Hf' Le. destruct j as [|j].
      * exfalso. cbn in Hj. inversion Hj; subst l'.
        rewrite app_assoc_s, <- join_prefix in Hf'. rewrite (N1 c' b0 Hc' (or_introl eq_refl)) in Hf'. discriminate.
      * cbn [nth_error] in Hj. rewrite nth_error_map in Hj.
        destruct (nth_error bases j) as [bj|] eqn:Hbj; [|discriminate].
        cbn in Hj. inversion Hj; subst l'. clear Hj. rewrite <- join_prefix in Hf'. split.
        -- intros ->. destruct (Nat.eq_dec j (List.length bpre)) as [->|Ne]; [reflexivity|]. exfalso.
           assert (Hlt : j < List.length bpre) by lia.
           rewrite Hb, nth_error_app1 in Hbj by assumption. apply nth_error_In in Hbj.
           rewrite <- Hp, (Hbpre bj Hbj) in Hf'. discriminate.
        -- destruct (doc_before c' c) eqn:Db; [|reflexivity]. exfalso.
           pose proof (doc_before_pre k c c' lpre lpost Hl Hc' Hcdoc Db) as Hin.
           apply nth_error_In in Hbj. rewrite (Hlpre c' bj Hin Hbj) in Hf'. discriminate.
  - discriminate.
Qed.

End Subdir.

(* ---------- plain css fallback ---------- *)

Lemma plain_css_spec x unq : plain_css x unq = spec_plain_import x unq.
Proof.
  pose proof shapes_ok_true as _.
  unfold plain_css, spec_plain_import. cbn [plain_css_atoms existsb css_atom_holds].
  unfold starts_with. rewrite (ends_with_same x ".css"), (ends_with_same x ")").
  destruct (ends_with_s x ".css"), (String.prefix "http://" x), (String.prefix "https://" x),
    (String.prefix "//" x), unq, (String.prefix "url(" x), (ends_with_s x ")"); reflexivity.
Qed.

Lemma load_not_found orc content f unq cur k u s s' :
  find_file orc cur k u s = LNone s' ->
  load orc content (S f) unq cur k u s =
    if is_import k && spec_plain_import u unq then ROk (push_import u s') else RErr ENotFound s'.
Proof. intros H. cbn [load]. rewrite H, plain_css_spec. reflexivity. Qed.

(* ---------- the statement for importers anywhere is still false (class K2) ---------- *)

Definition resolved_file (files bases : list string) (cur : string) (k : kind) (url : string) : option string :=
  match resolve (fs_isfile files) bases cur k url with FFound _ f _ _ => Some f | _ => None end.

Definition C04_holds_at (files bases : list string) (curid cur : string) (k : kind) (url : string) : Prop :=
  let al := allowed (fs_isfile files) (is_import k) (fst (split_dir curid) :: map dir_prefix bases)
              (fst (split_dir url)) (snd (split_dir url)) in
  match resolved_file files bases cur k url with
  | Some f => In f al
  | None => al = []
  end.

Definition C04_statement : Prop :=
  forall files bases curid cur k url,
    fs_lookup files bases cur = Some curid -> is_direct url = false -> C04_holds_at files bases curid cur k url.

(* F9 (fixed by 3dfdada): the url unchanged in a load path is now found *)
Lemma unchanged_now_found :
  resolved_file ["R/t.scss"; "R/sub/a.scss"; "L1/b.scss"] ["R"; "L1"] "sub/a.scss" KUse "b" = Some "L1/b.scss".
Proof. vm_compute. reflexivity. Qed.

Lemma refuted_loadpath :
  exists files bases curid cur k url,
    fs_lookup files bases cur = Some curid /\ is_direct url = false /\
    resolved_file files bases cur k url = Some "L1/sub/c.scss" /\
    allowed (fs_isfile files) (is_import k) (fst (split_dir curid) :: map dir_prefix bases)
      (fst (split_dir url)) (snd (split_dir url)) = [].
Proof.
  exists ["R/t.scss"; "R/sub/a.scss"; "L1/sub/c.scss"], ["R"; "L1"], "R/sub/a.scss", "sub/a.scss", KUse, "c".
  vm_compute. auto.
Qed.

Lemma statement_refuted : ~ C04_statement.
Proof.
  intros H. destruct refuted_loadpath as (files & bases & curid & cur & k & url & H1 & H2 & H3 & H4).
  specialize (H files bases curid cur k url H1 H2). unfold C04_holds_at in H. rewrite H3, H4 in H. destruct H.
Qed.
