(* Proofs for C33. *)
From Coq Require Import String List NArith ZArith QArith Bool Lia.
From RV Require Import Base.F64 Base.FMod Base.Text Base.ListX Gen.Colors Model.Calc Model.Color Model.ColorFmt
  Spec.CssColorTable Spec.CssColorRead Run.C31 Run.C33.
Import ListNotations.
Local Open Scope Z_scope.

(* ---------- hex digits ---------- *)
Definition digits16 : list Z := [0;1;2;3;4;5;6;7;8;9;10;11;12;13;14;15].
Definition hexd_ok (d : Z) : bool := match hexval (hexd d) with Some x => x =? d | None => false end.
Lemma hexd_sweep : forallb hexd_ok digits16 = true.
Proof. vm_compute. reflexivity. Qed.
Lemma hexval_hexd d : 0 <= d < 16 -> hexval (hexd d) = Some d.
Proof.
  intros H. assert (I : In d digits16).
  { unfold digits16. assert (d = 0 \/ d = 1 \/ d = 2 \/ d = 3 \/ d = 4 \/ d = 5 \/ d = 6 \/ d = 7 \/ d = 8 \/ d = 9
      \/ d = 10 \/ d = 11 \/ d = 12 \/ d = 13 \/ d = 14 \/ d = 15) by lia.
    cbn. intuition. }
  pose proof (sweep1 digits16 hexd_ok hexd_sweep d I) as P. unfold hexd_ok in P.
  destruct (hexval (hexd d)); try discriminate. apply Z.eqb_eq in P. subst. reflexivity.
Qed.

Lemma hex2_byte r : 0 <= r <= 255 -> hex2 (hexd (r / 16)) (hexd (r mod 16)) = Some r.
Proof.
  intros H. unfold hex2.
  rewrite !hexval_hexd.
  - f_equal. rewrite (Z.div_mod r 16) at 3 by lia. lia.
  - apply Z.mod_pos_bound. lia.
  - split. apply Z.div_pos; lia. apply Z.div_lt_upper_bound; lia.
Qed.
Lemma hex1_byte r : 0 <= r <= 255 -> r mod 17 = 0 -> hex1 (hexd (r / 17)) = Some r.
Proof.
  intros H M. unfold hex1. rewrite hexval_hexd.
  - cbn. f_equal. rewrite (Z.div_mod r 17) at 2 by lia. lia.
  - split. apply Z.div_pos; lia. apply Z.div_lt_upper_bound; lia.
Qed.

Theorem long_hex_denotes r g b : 0 <= r <= 255 -> 0 <= g <= 255 -> 0 <= b <= 255 ->
  decode_color (long_hex r g b) = Some (of_bytes r g b).
Proof.
  intros Hr Hg Hb. unfold long_hex, decode_color, decode_hex.
  rewrite !hex2_byte by auto. reflexivity.
Qed.
Theorem short_hex_denotes r g b : 0 <= r <= 255 -> 0 <= g <= 255 -> 0 <= b <= 255 ->
  r mod 17 = 0 -> g mod 17 = 0 -> b mod 17 = 0 ->
  decode_color (short_hex r g b) = Some (of_bytes r g b).
Proof.
  intros Hr Hg Hb Mr Mg Mb. unfold short_hex, decode_color, decode_hex.
  rewrite !hex1_byte by auto. reflexivity.
Qed.

(* ---------- names: rsass's table against the independent CSS table ---------- *)
Definition srgb_eqb (x y : srgb) : bool :=
  Qeq_bool (s_r x) (s_r y) && Qeq_bool (s_g x) (s_g y) && Qeq_bool (s_b x) (s_b y) && Qeq_bool (s_a x) (s_a y).
Definition bytes_of_value (v : Z) : srgb := of_bytes (v / 65536) ((v / 256) mod 256) (v mod 256).
(* the text of the name, read by the reference reader, is the value rsass's table gives the name *)
Definition name_entry_ok (e : string * Z) : bool :=
  match decode_color (bytes_of_string (fst e)) with
  | Some d => srgb_eqb d (bytes_of_value (snd e))
  | None => false
  end.
Lemma names_sweep : forallb name_entry_ok color_table = true.
Proof. vm_compute. reflexivity. Qed.

Lemma first_name_in v l n : first_name v l = Some n -> In (n, v) l.
Proof.
  induction l as [|[n' v'] l IH]; cbn; intros H; [discriminate|].
  destruct (v =? v') eqn:E.
  - apply Z.eqb_eq in E. inversion H; subst. left; reflexivity.
  - right. auto.
Qed.

Theorem name_denotes v n : first_name v color_table = Some n ->
  exists d, decode_color (bytes_of_string n) = Some d /\ srgb_eqb d (bytes_of_value v) = true.
Proof.
  intros H. apply first_name_in in H.
  pose proof (sweep1 color_table name_entry_ok names_sweep _ H) as P. unfold name_entry_ok in P. cbn [fst snd] in P.
  destruct (decode_color (bytes_of_string n)) as [d|]; try discriminate. eauto.
Qed.

Lemma transparent_denotes :
  match decode_color (bytes_of_string "transparent") with
  | Some d => srgb_eqb d (mkSrgb 0 0 0 0)
  | None => false
  end = true.
Proof. vm_compute. reflexivity. Qed.

(* ---------- the byte path of Display for Rgba ---------- *)
Lemma f_as_sat_range x : 0 <= f_as_sat 0 255 x <= 255.
Proof.
  unfold f_as_sat. destruct x; try lia; try (destruct s; lia).
  all: destruct (f_trunc_Z _); lia.
Qed.
Lemma byte_of_range v z : byte_of v = Some z -> 0 <= z <= 255.
Proof. unfold byte_of. destruct (flt _ _); intros H; inversion H. apply f_as_sat_range. Qed.
Lemma try_bytes_range c r g b : try_bytes c = Some (r, g, b) -> 0 <= r <= 255 /\ 0 <= g <= 255 /\ 0 <= b <= 255.
Proof.
  unfold try_bytes. destruct (negb (is_opaque c)); try discriminate.
  destruct (byte_of (r_red c)) eqn:E1; try discriminate.
  destruct (byte_of (r_green c)) eqn:E2; try discriminate.
  destruct (byte_of (r_blue c)) eqn:E3; try discriminate.
  intros H; inversion H; subst. split; [|split]; eapply byte_of_range; eauto.
Qed.

Definition denotes_bytes (t : list N) (r g b : Z) : Prop :=
  exists d, decode_color t = Some d /\ srgb_eqb d (of_bytes r g b) = true.

Lemma srgb_eqb_refl d : srgb_eqb d d = true.
Proof. unfold srgb_eqb. rewrite !Qeq_bool_refl. reflexivity. Qed.

Lemma value_bytes r g b : 0 <= r <= 255 -> 0 <= g <= 255 -> 0 <= b <= 255 ->
  bytes_of_value (r * 65536 + g * 256 + b) = of_bytes r g b.
Proof.
  intros. unfold bytes_of_value. f_equal.
  - f_equal. replace (r * 65536 + g * 256 + b) with (r * 65536 + (g * 256 + b)) by lia.
    rewrite Z.div_add_l by lia. rewrite Z.div_small by lia. lia.
  - f_equal. replace (r * 65536 + g * 256 + b) with ((r * 256 + g) * 256 + b) by lia.
    rewrite Z.div_add_l by lia. rewrite (Z.div_small b) by lia.
    rewrite Z.add_0_r. rewrite Z.add_comm, Z.mod_add by lia. apply Z.mod_small; lia.
  - f_equal. replace (r * 65536 + g * 256 + b) with (b + (r * 256 + g) * 256) by lia.
    rewrite Z.mod_add by lia. apply Z.mod_small; lia.
Qed.

(* whenever the colour is (within 1e-7 of) a byte triple and opaque, every notation Display can
   choose - name, short hex, long hex - denotes exactly those bytes; both styles; every source
   except the never constructed ShortHex and the decimal rgb(r, g, b) of source Rgb (see C33_rgb_grid) *)
Theorem byte_path compressed c r g b t :
  try_bytes c = Some (r, g, b) ->
  (compressed = true \/ (r_source c <> SShortHex /\ r_source c <> SRgb)) ->
  fmt_rgba compressed c = Some t -> denotes_bytes t r g b.
Proof.
  intros TB Hs F. pose proof (try_bytes_range _ _ _ _ TB) as (Hr & Hg & Hb).
  unfold fmt_rgba in F. rewrite TB in F.
  assert (NAME : forall n, name_of c = Some n -> denotes_bytes (bytes_of_string n) r g b).
  { intros n Hn. unfold name_of in Hn. rewrite TB in Hn.
    destruct (name_denotes _ _ Hn) as (d & D1 & D2). exists d. split; auto.
    rewrite value_bytes in D2 by auto. exact D2. }
  assert (LONG : denotes_bytes (long_hex r g b) r g b).
  { eexists. split. apply long_hex_denotes; auto. apply srgb_eqb_refl. }
  assert (SHORT : (r mod 17 =? 0) && (g mod 17 =? 0) && (b mod 17 =? 0) = true -> denotes_bytes (short_hex r g b) r g b).
  { intros S. apply andb_true_iff in S. destruct S as [S S3]. apply andb_true_iff in S. destruct S as [S1 S2].
    apply Z.eqb_eq in S1, S2, S3.
    eexists. split. apply short_hex_denotes; auto. apply srgb_eqb_refl. }
  destruct compressed.
  - destruct (name_of c) as [n|] eqn:N.
    + destruct (Nat.leb (String.length n) _).
      * inversion F; subst. apply (NAME _ eq_refl).
      * destruct ((r mod 17 =? 0) && (g mod 17 =? 0) && (b mod 17 =? 0)) eqn:S; inversion F; subst; auto.
    + destruct ((r mod 17 =? 0) && (g mod 17 =? 0) && (b mod 17 =? 0)) eqn:S; inversion F; subst; auto.
  - destruct Hs as [Hs|[H1 H2]]; [discriminate|].
    destruct (r_source c); try congruence.
    destruct (name_of c) as [n|] eqn:N; inversion F; subst; auto.
Qed.

(* ---------- decimal notations: exhaustive over a grid of channel values (partial) ---------- *)
Definition text_denotes (compressed : bool) (col : color) : bool :=
  match fmt_color compressed col with
  | Some t => denotes (Some t) (map to_bits (rgba_list (to_rgba col)))
  | None => false
  end.
Definition col_ok (col : color) : bool := text_denotes false col && text_denotes true col.

Definition fq (num den : Z) : f64 := fdiv (fc num) (fc den).
Definition chan_grid : list f64 := [fc 0; fc 17; fq 255 4; fq 255 2; fq 401 2; fc 255; fc 300].
Definition alpha_grid : list f64 := [fc 1; fq 1 2; fc 0; fq 3 2].
Definition rgb_grid : list color :=
  flat_map (fun r => flat_map (fun g => flat_map (fun b => map (fun a => sass_rgb r g b a) alpha_grid) chan_grid) chan_grid) chan_grid.
Lemma rgb_grid_sweep : forallb col_ok rgb_grid = true.
Proof. vm_compute. reflexivity. Qed.

Definition hue_grid : list f64 := [fc 0; fq 61 2; fc 120; fq 719 2; fc 360; fc (-40); f_neg_zero].
Definition pct_grid : list f64 := [fc 0; fc 25; fc 50; fq 25 2; fc 100; fc 150].
Definition hsl_grid : list color :=
  flat_map (fun h => flat_map (fun s => flat_map (fun l => map (fun a => sass_hsl h s l a) [fc 1; fq 1 2; fc 0]) pct_grid) pct_grid) hue_grid.
Lemma hsl_grid_sweep : forallb col_ok hsl_grid = true.
Proof. vm_compute. reflexivity. Qed.

Definition hwb_grid : list color :=
  flat_map (fun h => flat_map (fun w => flat_map (fun b => map (fun a => sass_hwb h w b a) [fc 1; fq 1 2]) [fc 0; fc 25; fc 75]) [fc 0; fc 25; fc 75]) hue_grid.
Lemma hwb_grid_sweep : forallb col_ok hwb_grid = true.
Proof. vm_compute. reflexivity. Qed.
