(* Proofs for C03: under @use / @forward graphs no cache key is executed twice; with canonical
   keys no file is executed twice; refutation of the full statement (spellings). *)
From Coq Require Import String List Bool Arith Ascii NArith ZArith Lia.
From RV Require Import Base.ListX Gen.Candidates Model.Load Model.LoadRun Proofs.C02.
Import ListNotations.
Local Open Scope string_scope.
Local Open Scope list_scope.

(* keys / files whose body was executed, latest first *)
Fixpoint exec_keys (t : list event) : list string :=
  match t with
  | [] => []
  | EvBody _ p _ :: r => p :: exec_keys r
  | _ :: r => exec_keys r
  end.
Fixpoint exec_ids (t : list event) : list string :=
  match t with
  | [] => []
  | EvBody _ _ id :: r => id :: exec_ids r
  | _ :: r => exec_ids r
  end.

Definition module_directive (d : directive) : Prop :=
  match d with DLoad KUse _ | DLoad KForward _ | DEmit _ => True | _ => False end.

Section Once.
Variable lookup : string -> option string.
Variable content : string -> body.
Let orc := orc_of lookup.

(* the file set only uses @use and @forward *)
Hypothesis uf_only : forall id d, In d (content id) -> module_directive d.

(* every executed key is in the module cache or still locked; no key was executed twice;
   the trace records the file each key denotes *)
Definition inv (s : state) : Prop :=
  NoDup (exec_keys (trace s))
  /\ (forall p, In p (exec_keys (trace s)) -> In p (cache s) \/ In p (loading s))
  /\ (forall k p id, In (EvBody k p id) (trace s) -> lookup p = Some id).

Definition post (s : state) (r : res) : Prop :=
  match r with
  | ROk s' => inv s' /\ loading s' = loading s /\ incl (cache s) (cache s')
  | _ => True
  end.

Definition spec_load (loadf : bool -> string -> kind -> string -> state -> res) : Prop :=
  forall unq cur k u s, inv s -> module_directive (DLoad k u) -> post s (loadf unq cur k u s).

Lemma exec_body_post loadf : spec_load loadf ->
  forall b cur s, inv s -> (forall d, In d b -> module_directive d) -> post s (exec_body loadf cur b s).
Proof.
  intros HL b. induction b as [|d r IH]; intros cur s I Hb; cbn [exec_body].
  - cbn. split; [exact I|split; [reflexivity|apply incl_refl]].
  - assert (Hr : forall d0, In d0 r -> module_directive d0) by (intros; apply Hb; right; assumption).
    pose proof (Hb d (or_introl eq_refl)) as Hd.
    destruct d as [k u|x|m]; [|destruct Hd|].
    + pose proof (HL false cur k u s I Hd) as P.
      destruct (loadf false cur k u s) as [s'|e s'|]; cbn in P; auto.
      destruct P as (I' & L' & C'). specialize (IH cur s' I' Hr).
      unfold post in *. destruct (exec_body loadf cur r s'); auto.
      destruct IH as (I2 & L2 & C2). split; [exact I2|split; [congruence|eapply incl_tran; eauto]].
    + specialize (IH cur (emit m s) I Hr). exact IH.
Qed.

Lemma in_exec_keys k p id t : In (EvBody k p id) t -> In p (exec_keys t).
Proof.
  induction t as [|e r IH]; cbn; [auto|]. intros [->|H]; [left; reflexivity|].
  destruct e; [right| |]; auto.
Qed.

Lemma find_file_state cur k u s :
  match find_file orc cur k u s with
  | LFile p id s1 => loading s1 = p :: loading s /\ mem p (loading s) = false /\ cache s1 = cache s
                     /\ trace s1 = trace s /\ lookup p = Some id
  | LNone s1 => loading s1 = loading s /\ cache s1 = cache s /\ trace s1 = trace s
  | LErr _ _ => True
  end.
Proof.
  unfold find_file.
  assert (T : forall names s0, match try_names orc s0 names with
              | FFound p id rd s1 => loading s1 = loading s0 /\ cache s1 = cache s0 /\ trace s1 = trace s0 /\ lookup p = Some id
              | FNone s1 => loading s1 = loading s0 /\ cache s1 = cache s0 /\ trace s1 = trace s0
              | FFail _ => True end).
  { induction names as [|a r IH]; intros s0; cbn [try_names]; [auto|].
    unfold orc, orc_of at 1. destruct (lookup a) eqn:E.
    - cbn. repeat split; auto.
    - specialize (IH (called a s0)). unfold orc in IH. destruct (try_names _ (called a s0) r); cbn in IH |- *; exact IH. }
  specialize (T (find_names cur k u) s).
  destruct (try_names orc s _) as [p id rd s1|s1|s1]; auto.
  destruct T as (L & C & Tr & Lk).
  destruct (negb (known_format p)); auto. destruct (negb rd); auto.
  destruct (mem p (loading s1)) eqn:M; auto. rewrite L in M. cbn. rewrite L. auto.
Qed.

Lemma load_post fuel : spec_load (load orc content fuel).
Proof.
  induction fuel as [|f IH]; intros unq cur k u s I Hk; cbn [load]; [exact Logic.I|].
  pose proof (find_file_state cur k u s) as F.
  destruct (find_file orc cur k u s) as [p id s1|s1|e s1]; [| |exact Logic.I].
  - destruct F as (L1 & M & C1 & T1 & Lk). destruct I as (N & Cov & Ids).
    assert (Hmod : forall kk, (kk = KUse \/ kk = KForward) ->
      post s (if mem p (cache s1) then ROk (unlock p (note (EvCached p) s1))
              else match exec_file content (load orc content f) kk p id s1 with
                   | ROk s2 => ROk (unlock p (add_cache p s2))
                   | e => e
                   end)).
    { intros kk Hkk. destruct (mem p (cache s1)) eqn:Mc.
      - unfold post, inv. cbn [trace cache loading unlock note set_loading exec_keys].
        rewrite T1, L1, C1, (remove1_head p _ M). repeat split; auto; try apply incl_refl.
        intros k0 p0 id0 [H|H]; [discriminate|eauto].
      - rewrite C1 in Mc.
        assert (Hnew : ~ In p (exec_keys (trace s))).
        { intros H. apply Cov in H as [H|H]; apply mem_In in H; congruence. }
        assert (I1 : inv (note (EvBody kk p id) s1)).
        { unfold inv. repeat split; cbn [trace note exec_keys cache loading].
          - rewrite T1. constructor; assumption.
          - rewrite T1, C1, L1. intros q [<-|Hq]; [right; left; reflexivity|].
            apply Cov in Hq as [Hq|Hq]; [left|right; right]; assumption.
          - rewrite T1. intros k0 p0 id0 [H|H]; [inversion H; subst; assumption|eauto]. }
        pose proof (exec_body_post _ IH (content id) p _ I1 (uf_only id)) as P. unfold exec_file.
        destruct (exec_body _ p (content id) _) as [s2|e s2|]; cbn in P |- *; auto.
        destruct P as ((N2 & Cov2 & Ids2) & L2 & C2). cbn [loading note] in L2. cbn [cache note] in C2.
        assert (Ids3 : forall k0 p0 id0, In (EvBody k0 p0 id0) (EvDone p :: trace s2) -> lookup p0 = Some id0)
          by (intros k0 p0 id0 [H|H]; [discriminate|eauto]).
        unfold inv. repeat split; cbn [trace cache loading unlock add_cache set_cache set_loading note exec_keys]; auto.
        + intros q Hq. apply Cov2 in Hq as [Hq|Hq]; [left; right; assumption|].
          rewrite L2, L1 in Hq. destruct Hq as [<-|Hq]; [left; left; reflexivity|].
          right. rewrite L2, L1, (remove1_head p _ M). assumption.
        + rewrite L2, L1. apply remove1_head. exact M.
        + intros q Hq. right. apply C2. rewrite C1. exact Hq. }
    destruct k; try (destruct Hk; fail).
    + apply (Hmod KUse). auto.
    + apply (Hmod KForward). auto.
  - destruct F as (L & C & T). destruct I as (N & Cov & Ids).
    destruct (is_import k && plain_css u unq); cbn; auto.
    repeat split; cbn; rewrite ?T, ?L, ?C; auto. apply incl_refl.
Qed.

(* no cache key is executed twice, whatever the loader and the spellings *)
Theorem once_per_key fuel root rootid s :
  lookup root = Some rootid ->
  run orc content fuel root rootid = ROk s ->
  NoDup (exec_keys (trace s)) /\ (forall k p id, In (EvBody k p id) (trace s) -> lookup p = Some id).
Proof.
  intros Hl H. unfold run, exec_file in H.
  assert (I0 : inv (note (EvBody KImport root rootid) (st0 root))).
  { repeat split; cbn.
    - constructor; [intros []|constructor].
    - intros p [<-|[]]. right. left. reflexivity.
    - intros k p id [E|[]]. inversion E; subst. assumption. }
  pose proof (exec_body_post _ (load_post fuel) (content rootid) root _ I0 (uf_only rootid)) as P.
  destruct (exec_body _ root (content rootid) _) as [s2|e s2|]; [|discriminate|discriminate].
  inversion H; subst. destruct P as ((N & _ & Ids) & _ & _). cbn [trace unlock set_loading note exec_keys].
  split; [exact N|]. intros k p id [E|Hin]; [discriminate|eauto].
Qed.

Lemma exec_ids_keys t :
  (forall k p id, In (EvBody k p id) t -> lookup p = Some id) ->
  map lookup (exec_keys t) = map Some (exec_ids t).
Proof.
  induction t as [|e r IH]; intros H; cbn; [reflexivity|].
  destruct e; cbn.
  - rewrite (H k path id (or_introl eq_refl)). f_equal. apply IH. intros; eapply H; right; eauto.
  - apply IH. intros; eapply H; right; eauto.
  - apply IH. intros; eapply H; right; eauto.
Qed.

Lemma NoDup_map_inj {A B} (f : A -> B) l :
  (forall x y, In x l -> In y l -> f x = f y -> x = y) -> NoDup l -> NoDup (map f l).
Proof.
  induction l as [|a r IH]; intros Hinj N; cbn; [constructor|].
  inversion N; subst. constructor.
  - intros H. apply in_map_iff in H as (y & E & Hy). assert (y = a) by (apply Hinj; cbn; auto). subst. auto.
  - apply IH; auto. intros; apply Hinj; cbn; auto.
Qed.

(* if the executed keys are canonical (two keys that denote the same file are the same text),
   no FILE is executed twice *)
Theorem once_per_file fuel root rootid s :
  lookup root = Some rootid ->
  run orc content fuel root rootid = ROk s ->
  (forall p q, In p (exec_keys (trace s)) -> In q (exec_keys (trace s)) -> lookup p = lookup q -> p = q) ->
  NoDup (exec_ids (trace s)).
Proof.
  intros Hl H Hcan. destruct (once_per_key fuel root rootid s Hl H) as [N Ids].
  pose proof (NoDup_map_inj lookup _ Hcan N) as N2. rewrite (exec_ids_keys _ Ids) in N2.
  clear - N2. induction (exec_ids (trace s)) as [|a r IH]; [constructor|].
  cbn in N2. inversion N2; subst. constructor; auto.
  intros Hin. apply H1. apply in_map. exact Hin.
Qed.

(* a cache hit executes nothing: the trace only gains the EvCached note *)
Theorem cache_hit_not_executed f unq cur k u s p id s1 :
  (k = KUse \/ k = KForward) ->
  find_file orc cur k u s = LFile p id s1 -> mem p (cache s1) = true ->
  exists s', load orc content (S f) unq cur k u s = ROk s' /\ exec_keys (trace s') = exec_keys (trace s)
             /\ out s' = out s1 /\ calls s' = calls s1.
Proof.
  intros Hk F Mc. pose proof (find_file_state cur k u s) as FS. rewrite F in FS.
  destruct FS as (_ & _ & _ & T1 & _).
  cbn [load]. rewrite F. destruct Hk as [-> | ->]; rewrite Mc; eexists; (split; [reflexivity|]); cbn; rewrite T1; auto.
Qed.

(* the loader does not hand out one file under two (normalized) names: since fix d80c9be every name
   that reaches the module cache is normalized, so this is a property of the loader alone (no two load
   paths or links aliasing a file), not of how the urls are spelled *)
Theorem once_per_file_injective fuel root rootid s :
  (forall p q id, lookup p = Some id -> lookup q = Some id -> p = q) ->
  lookup root = Some rootid ->
  run orc content fuel root rootid = ROk s -> NoDup (exec_ids (trace s)).
Proof.
  intros Hinj Hl H. apply (once_per_file fuel root rootid s Hl H).
  destruct (once_per_key fuel root rootid s Hl H) as [_ Ids].
  intros p q Hp Hq E.
  assert (Hk : forall x, In x (exec_keys (trace s)) -> exists id, lookup x = Some id).
  { clear - Ids. induction (trace s) as [|e r IH]; [intros x []|]. intros x Hx. destruct e; cbn in Hx.
    - destruct Hx as [<-|Hx]; [exists id; eapply Ids; left; reflexivity|].
      apply IH; auto. intros; eapply Ids; right; eauto.
    - apply IH; auto. intros; eapply Ids; right; eauto.
    - apply IH; auto. intros; eapply Ids; right; eauto. }
  destruct (Hk p Hp) as [id Hid]. eapply Hinj; eauto. rewrite <- E. exact Hid.
Qed.

End Once.

(* the exact in-memory file set: a name denotes the file of that name *)
Definition mem_lookup (w : world) (u : string) : option string := if mem u (names w) then Some u else None.

(* every in-memory @use/@forward world, every graph, every spelling: no file is executed twice *)
Theorem once_every_world (w : world) fuel root s :
  (forall nb d, In nb w -> In d (snd nb) -> module_directive d) ->
  mem root (names w) = true ->
  run (orc_of (mem_lookup w)) (assoc_body w) fuel root root = ROk s -> NoDup (exec_ids (trace s)).
Proof.
  intros U Hr H. apply (once_per_file_injective (mem_lookup w) (assoc_body w)) with (fuel := fuel) (root := root) (rootid := root); auto.
  - intros id d Hd. clear - U Hd. induction w as [|[n b] r IH]; cbn in Hd; [destruct Hd|].
    destruct (String.eqb n id).
    + apply (U (n, b)); [left; reflexivity|exact Hd].
    + apply IH; auto. intros nb d0 Hnb. apply U. right. exact Hnb.
  - unfold mem_lookup. intros p q id Hp Hq.
    destruct (mem p (names w)); [|discriminate]. destruct (mem q (names w)); [|discriminate]. congruence.
  - unfold mem_lookup. rewrite Hr. reflexivity.
Qed.

(* the former F7 witness: three spellings of one module, executed once *)
Definition w_spell : world :=
  [("t.scss", [DLoad KUse "m/lib"; DLoad KUse "./m/lib"; DLoad KForward "m/../m//lib"]); ("m/lib.scss", [DEmit 1%N])].

Lemma spelling_once :
  exists s, run_world w_spell MNorm "t.scss" "t.scss" = ROk s
            /\ exec_ids (trace s) = ["m/lib.scss"; "t.scss"] /\ out s = [1%N].
Proof. eexists. vm_compute. repeat split. Qed.
