(* Proofs for the C01 site models (Model/PanicSitesModels.v): the Panic result is unreachable. *)
From Coq Require Import String List ZArith NArith Bool Lia.
From RV Require Import Base.ListX Gen.PanicSites Gen.SiteShapes Model.Indent Model.PanicSitesModels Run.C01 Proofs.C01.
Import ListNotations.
Local Open Scope Z_scope.

(* the modelled functions have, today, exactly the text the models were written against *)
Definition text_eqb (a b : string * string) : bool := String.eqb (fst a) (fst b) && String.eqb (snd a) (snd b).
Definition site_texts_current : bool := list_eqb text_eqb site_fn_text modelled_fn_text.
Lemma site_texts_current_ok : site_texts_current = true.
Proof. vm_compute. reflexivity. Qed.

Ltac unfold_consts := unfold is_i64, is_len, I64_MIN, I64_MAX, USIZE_MAX, ISIZE_MAX in *.

Lemma i64_of_ok z : I64_MIN <= z <= I64_MAX -> i64_of z = Ok z.
Proof.
  intros H. unfold i64_of. destruct (Z.leb_spec I64_MIN z); [|lia]. destruct (Z.leb_spec z I64_MAX); [reflexivity|lia].
Qed.
Lemma usize_of_ok z : 0 <= z <= USIZE_MAX -> usize_of z = Ok z.
Proof.
  intros H. unfold usize_of. destruct (Z.leb_spec 0 z); [|lia]. destruct (Z.leb_spec z USIZE_MAX); [reflexivity|lia].
Qed.
Lemma as_usize_small z : 0 <= z < 2 ^ 64 -> as_usize z = z.
Proof. intros H. unfold as_usize. apply Z.mod_small. exact H. Qed.
Lemma as_i64_len z : is_len z -> as_i64 z = z.
Proof.
  unfold_consts. intros H. unfold as_i64. rewrite Z.mod_small by lia. unfold I64_MAX.
  destruct (Z.leb_spec z (2 ^ 63 - 1)); [reflexivity|lia].
Qed.
Lemma index_ok len i : 0 <= i < len -> index len i = Ok tt.
Proof.
  intros H. unfold index. destruct (Z.leb_spec 0 i); [|lia]. destruct (Z.ltb_spec i len); [reflexivity|lia].
Qed.
Lemma slice_ok len a b : 0 <= a <= b -> b <= len -> slice len a b = Ok tt.
Proof.
  intros H1 H2. unfold slice. destruct (Z.leb_spec 0 a); [|lia]. destruct (Z.leb_spec a b); [|lia].
  destruct (Z.leb_spec b len); [reflexivity|lia].
Qed.

(* ---- list.rs ---- *)
(* index_of never panics and an Ok index is in range: for every i64 n and every length *)
Lemma index_of_spec : forall n len, is_i64 n -> is_len len ->
  index_of n len <> Panic /\ (forall i, index_of n len = Ok i -> 0 <= i < len).
Proof.
  intros n len Hn Hl. pose proof Hn as Hn'. pose proof Hl as Hl'. unfold_consts. unfold index_of.
  destruct (Z.ltb_spec 0 n) as [Hp|Hp]; cbn [andb].
  - rewrite as_usize_small by lia. destruct (Z.leb_spec n len) as [Hle|Hgt].
    + rewrite i64_of_ok by (unfold I64_MIN, I64_MAX; lia). cbn [bind]. rewrite as_usize_small by lia.
      split; [discriminate|]. intros i Hq. inversion Hq. lia.
    + destruct (Z.ltb_spec n 0); [lia|]. split; [discriminate|]. intros i Hq; discriminate.
  - destruct (Z.ltb_spec n 0) as [Hneg|Hz].
    + rewrite (as_i64_len len Hl'). rewrite i64_of_ok by (unfold I64_MIN, I64_MAX; lia). cbn [bind].
      destruct (Z.leb_spec (- len) n) as [Hin|Hout].
      * rewrite i64_of_ok by (unfold I64_MIN, I64_MAX; lia). cbn [bind]. rewrite as_usize_small by lia.
        split; [discriminate|]. intros i Hq. inversion Hq. lia.
      * split; [discriminate|]. intros i Hq; discriminate.
    + split; [discriminate|]. intros i Hq; discriminate.
Qed.

Lemma index_of_safe : forall n len, is_i64 n -> is_len len -> index_of n len <> Panic.
Proof. intros n len Hn Hl. exact (proj1 (index_of_spec n len Hn Hl)). Qed.

(* nth / set-nth on a list: list[n] with n from index_of(.., list.len()) *)
Lemma nth_list_safe : forall n len, is_i64 n -> is_len len -> nth_list n len <> Panic.
Proof.
  intros n len Hn Hl. unfold nth_list. destruct (index_of_spec n len Hn Hl) as [Hnp Hr].
  destruct (index_of n len) as [i| |]; cbn [bind]; try discriminate; [|contradiction].
  rewrite index_ok by (apply Hr; reflexivity). discriminate.
Qed.

(* nth on an argument list: arg.len() cannot overflow and `n - positional.len()` cannot underflow *)
Lemma nth_arglist_safe : forall n pos named, is_i64 n -> is_len pos -> is_len named -> pos + named <= ISIZE_MAX ->
  nth_arglist n pos named <> Panic.
Proof.
  intros n pos named Hn Hp Hm Hs. unfold nth_arglist. pose proof Hp as Hp'. pose proof Hm as Hm'. unfold_consts.
  rewrite usize_of_ok by (unfold USIZE_MAX; lia). cbn [bind].
  assert (Hl : is_len (pos + named)) by (unfold is_len, ISIZE_MAX; lia).
  destruct (index_of_spec n (pos + named) Hn Hl) as [Hnp Hr].
  destruct (index_of n (pos + named)) as [i| |]; cbn [bind]; try discriminate; [|contradiction].
  specialize (Hr i eq_refl). destruct (Z.ltb_spec i pos); [discriminate|].
  rewrite usize_of_ok by (unfold USIZE_MAX; lia). discriminate.
Qed.

Lemma index_map_pair_safe : forall len, index_map_pair len <> Panic.
Proof.
  intros len. unfold index_map_pair. destruct (Z.eqb_spec len 2) as [->|]; [|discriminate].
  rewrite !index_ok by lia. discriminate.
Qed.

Lemma enumerate_plus_one_safe : forall i len, is_len len -> 0 <= i < len -> enumerate_plus_one i <> Panic.
Proof.
  intros i len Hl Hi. unfold enumerate_plus_one. unfold_consts. rewrite usize_of_ok by (unfold USIZE_MAX; lia). discriminate.
Qed.

Lemma fold_min_le : forall r l x, In x (l :: r) -> fold_left Z.min r l <= x.
Proof.
  induction r as [|a r IH]; intros l x Hin; cbn [fold_left].
  - destruct Hin as [->|[]]. lia.
  - destruct Hin as [->|[->|Hin]].
    + specialize (IH (Z.min x a) (Z.min x a) (or_introl eq_refl)). lia.
    + specialize (IH (Z.min l x) (Z.min l x) (or_introl eq_refl)). lia.
    + apply IH. right. exact Hin.
Qed.
Lemma list_min_le : forall lens x, In x lens -> list_min lens <= x.
Proof. intros [|l r] x Hin; [destruct Hin|]. apply fold_min_le. exact Hin. Qed.

Lemma fold_index_ok : forall lens i acc, acc = Ok tt -> (forall l, In l lens -> 0 <= i < l) ->
  fold_left (fun acc l => bind acc (fun _ => index l i)) lens acc = Ok tt.
Proof.
  induction lens as [|l r IH]; intros i acc Ha H; [exact Ha|].
  cbn [fold_left]. apply IH.
  - subst acc. cbn [bind]. apply index_ok. apply H. left. reflexivity.
  - intros l' Hl'. apply H. right. exact Hl'.
Qed.

(* zip: for every i below the minimum length, every v[i] is in range *)
Lemma zip_access_safe : forall lens i, zip_access lens i <> Panic.
Proof.
  intros lens i. unfold zip_access.
  destruct (Z.leb_spec 0 i) as [H0|]; cbn [andb]; [|discriminate].
  destruct (Z.ltb_spec i (list_min lens)) as [Hm|]; [|discriminate].
  rewrite fold_index_ok; [discriminate|reflexivity|].
  intros l Hl. pose proof (list_min_le lens l Hl). lia.
Qed.

(* ---- string.rs ---- *)
Lemma insert_index_safe : forall index len, is_i64 index -> insert_index index len <> Panic.
Proof.
  intros index len Hi. unfold insert_index, unsigned_abs. unfold_consts.
  destruct (Z.ltb_spec index 0); [|discriminate].
  rewrite as_usize_small by lia. rewrite usize_of_ok by (unfold USIZE_MAX; lia). discriminate.
Qed.
Lemma slice_start_safe : forall start_at len, is_i64 start_at -> slice_start start_at len <> Panic.
Proof.
  intros s len Hi. unfold slice_start, unsigned_abs. unfold_consts.
  destruct (Z.ltb_spec s 0); [discriminate|]. destruct (Z.ltb_spec 0 s); [|discriminate].
  rewrite as_usize_small by lia. rewrite usize_of_ok by (unfold USIZE_MAX; lia). discriminate.
Qed.
Lemma slice_end_safe : forall end_at len, is_i64 end_at -> slice_end end_at len <> Panic.
Proof.
  intros e len Hi. unfold slice_end, unsigned_abs. unfold_consts.
  destruct (Z.ltb_spec e 0); [|discriminate].
  rewrite as_usize_small by lia. rewrite usize_of_ok by (unfold USIZE_MAX; lia). discriminate.
Qed.
(* str::find contract: the offset is a char boundary inside the string; count <= len *)
Lemma str_index_site_safe : forall len i count, is_len len -> 0 <= i <= len -> 0 <= count <= len ->
  str_index_site len i count true <> Panic.
Proof.
  intros len i count Hl Hi Hc. unfold str_index_site. unfold_consts. rewrite slice_ok by lia. cbn [bind].
  rewrite usize_of_ok by (unfold USIZE_MAX; lia). discriminate.
Qed.

(* ---- map.rs ---- *)
Lemma deep_remove_safe : forall len inner, deep_remove len inner <> Panic.
Proof.
  induction len as [|[|k] IH]; intros inner.
  - discriminate.
  - cbn [deep_remove]. rewrite index_ok by lia. discriminate.
  - cbn [deep_remove]. rewrite index_ok by lia. cbn [bind].
    destruct (inner (S (S k))); [|discriminate].
    unfold slice_from. rewrite slice_ok by lia. cbn [bind]. apply IH.
Qed.

(* ---- `x.len() == k && x[j]` with j < k ---- *)
Lemma guarded_index_safe : forall len k j, 0 <= j < k -> guarded_index len k j <> Panic.
Proof.
  intros len k j H. unfold guarded_index. destruct (Z.eqb_spec len k) as [->|]; [|discriminate].
  rewrite index_ok by lia. discriminate.
Qed.
Lemma conv_names_safe : forall w, 0 <= w <= 2 -> conv_names w <> Panic.
Proof. intros w H. unfold conv_names. rewrite index_ok by lia. discriminate. Qed.

(* `x[..]` *)
Lemma slice_full_safe : forall len, 0 <= len -> slice_full len <> Panic.
Proof. intros len H. unfold slice_full. rewrite slice_ok by lia. discriminate. Qed.

(* ---- cssbuf.rs ---- *)
Lemma do_indent_no_nl_safe : forall c indent, do_indent_no_nl c indent <> Panic.
Proof.
  intros c indent. unfold do_indent_no_nl. pose proof (indent_safe c indent) as Hs.
  destruct (get_indent c indent) as [n|]; [|contradiction].
  destruct (Z.ltb_spec 1 (Z.of_N n)); [|discriminate].
  destruct indent_shape as [_ ->]. unfold slice_from. rewrite slice_ok by lia. discriminate.
Qed.

(* ---- css/call_args.rs ---- *)
Lemma call_args_len_safe : forall pos named, is_len pos -> is_len named -> call_args_len pos named <> Panic.
Proof.
  intros pos named Hp Hn. unfold call_args_len. unfold_consts. rewrite usize_of_ok by (unfold USIZE_MAX; lia). discriminate.
Qed.

(* ---- sourcepos.rs: under the callers' invariant that the text s (or as many bytes) precedes the position ---- *)
Lemma opt_back_safe : forall start len m, is_len start -> 0 <= len <= start -> opt_back start len m <> Panic.
Proof.
  intros start len m Hs Hl. unfold opt_back. unfold_consts. rewrite usize_of_ok by (unfold USIZE_MAX; lia). cbn [bind].
  destruct m; discriminate.
Qed.
(* and without that invariant the subtraction does underflow: the hypothesis is needed *)
Lemma opt_back_needs_invariant : opt_back 3 10 false = Panic.
Proof. reflexivity. Qed.
