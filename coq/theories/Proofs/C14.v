(* Proofs for C14 (not / and / or). *)
From Coq Require Import List ZArith Bool NArith.
From RV Require Import Base.F64 Base.Text Model.Numeric Model.Truth Spec.Truthiness Run.C14.
Import ListNotations.
Local Open Scope N_scope.

Lemma truthy_spec : forall v, is_true v = negb (s_falsey (to_sval v)).
Proof. intros [k t]. destruct k; reflexivity. Qed.

Lemma and_spec : forall a b log,
  match eval a log with
  | (Ok v, l) => eval (EAnd a b) log = if is_true v then eval b l else (Ok v, l)
  | (Fail i, l) => eval (EAnd a b) log = (Fail i, l)
  end.
Proof. intros. cbn [eval]. destruct (eval a log) as [[v|i] l]; reflexivity. Qed.

Lemma or_spec : forall a b log,
  match eval a log with
  | (Ok v, l) => eval (EOr a b) log = if is_true v then (Ok v, l) else eval b l
  | (Fail i, l) => eval (EOr a b) log = (Fail i, l)
  end.
Proof. intros. cbn [eval]. destruct (eval a log) as [[v|i] l]; reflexivity. Qed.

(* the right operand is irrelevant (not evaluated: no effect, no failure) when not needed *)
Lemma short_circuit : forall a log v l, eval a log = (Ok v, l) ->
  (is_true v = false -> forall b, eval (EAnd a b) log = (Ok v, l)) /\
  (is_true v = true -> forall b, eval (EOr a b) log = (Ok v, l)) /\
  (is_true v = true -> forall b, eval (EAnd a b) log = eval b l) /\
  (is_true v = false -> forall b, eval (EOr a b) log = eval b l).
Proof. intros a log v l H. cbn [eval]. rewrite H. repeat split; intros E b; rewrite E; reflexivity. Qed.

Lemma is_true_vbool : forall b, is_true (vbool b) = b.
Proof. destruct b; reflexivity. Qed.

Lemma eval_not_vbool : forall b, eval_not (vbool b) = vbool (negb (is_true (vbool b))).
Proof. destruct b; reflexivity. Qed.

Lemma not_bool : forall e log v l, eval e log = (Ok v, l) -> (vk v = KTrue \/ vk v = KFalse) ->
  eval (ENot e) log = (Ok (vbool (negb (is_true v))), l).
Proof.
  intros e log [k t] l H Hk. cbn [eval]. rewrite H. cbn [vk] in Hk.
  destruct Hk as [-> | ->]; reflexivity.
Qed.

Lemma not_number : forall e log b t l, eval e log = (Ok (mkV (KNum b) t), l) ->
  number_eq (of_bits b) f_zero = false -> eval (ENot e) log = (Ok (vbool false), l).
Proof. intros e log b t l H Hn. cbn [eval]. rewrite H. unfold eval_not. cbn [vk]. rewrite Hn. reflexivity. Qed.

Definition not_statement : Prop :=
  forall e log v l, eval e log = (Ok v, l) -> eval (ENot e) log = (Ok (vbool (negb (is_true v))), l).
Definition v_null : cval := mkV KNull [110; 117; 108; 108].
Lemma refuted_not : ~ not_statement /\
  eval (ENot (ELeaf v_null)) [] = (Ok (mkV KOther [110; 111; 116; 32; 110; 117; 108; 108]), []).
Proof.
  split; [|reflexivity]. intros H. specialize (H (ELeaf v_null) [] v_null [] eq_refl). discriminate.
Qed.

(* ---- agreement with the reference semantics ---- *)
Definition leaf_ok (v : cval) : bool :=
  match vk v with KNum b => negb (number_eq (of_bits b) f_zero) | _ => true end.
Fixpoint nums_ok (e : expr) : bool :=
  match e with
  | ELeaf v | EEff _ v => leaf_ok v
  | ENot a => nums_ok a
  | EAnd a b | EOr a b => nums_ok a && nums_ok b
  | _ => true
  end.

Definition matchres (o : outcome) (r : sres) : Prop :=
  match o, r with
  | Ok v, SOk s => s = to_sval v
  | Ok v, SBool b => v = vbool b
  | Fail i, SErr j => i = j
  | _, _ => False
  end.

Lemma falsey_match : forall v r, matchres (Ok v) r -> falsey r = negb (is_true v).
Proof.
  intros v r H. destruct r as [s|b|i]; cbn in H; [| |contradiction].
  - subst. cbn [falsey]. rewrite truthy_spec, negb_involutive. reflexivity.
  - subst. cbn [falsey]. rewrite is_true_vbool. reflexivity.
Qed.

Lemma agrees : forall e, bad_not e = false -> nums_ok e = true -> forall log,
  snd (eval e log) = snd (seval (to_spec e) log) /\
  matchres (fst (eval e log)) (fst (seval (to_spec e) log)).
Proof.
  induction e; intros Hb Hn log; cbn [eval to_spec seval bad_not nums_ok] in *.
  - cbn. auto.
  - cbn. auto.
  - cbn. auto.
  - cbn. auto.
  - (* not *)
    apply orb_false_iff in Hb. destruct Hb as [Hop Hb]. specialize (IHe Hb Hn log).
    destruct (eval e log) as [[v|i] l] eqn:E, (seval (to_spec e) log) as [r l'] eqn:S;
      cbn [fst snd] in *; destruct IHe as [Hl Hm].
    + assert (Hev : eval_not v = vbool (negb (is_true v))).
      { destruct e; cbn [bad_operand] in Hop; try discriminate.
        * cbn [eval] in E. inversion E; subst. cbn [nums_ok] in Hn. unfold bad_kind in Hop. unfold leaf_ok in Hn.
          destruct v as [k t]. cbn [vk] in *. unfold eval_not, is_true. cbn [vk].
          destruct k; try discriminate; try reflexivity.
          apply negb_true_iff in Hn. rewrite Hn. reflexivity.
        * cbn [eval] in E. inversion E; subst. cbn [nums_ok] in Hn. unfold bad_kind in Hop. unfold leaf_ok in Hn.
          destruct v as [k t]. cbn [vk] in *. unfold eval_not, is_true. cbn [vk].
          destruct k; try discriminate; try reflexivity.
          apply negb_true_iff in Hn. rewrite Hn. reflexivity.
        * cbn [to_spec seval] in S. destruct (seval (to_spec e) log) as [[s|b|j] l2]; inversion S; subst;
            cbn [matchres] in Hm; try contradiction; subst v; apply eval_not_vbool. }
      pose proof (falsey_match v r Hm) as Hf.
      destruct r as [s|b|j]; [| |cbn in Hm; contradiction]; cbn [fst snd];
        (split; [exact Hl|]); cbn [matchres]; rewrite Hev, Hf; reflexivity.
    + destruct r as [s|b|j]; cbn in Hm; try contradiction. subst. cbn. auto.
  - (* and *)
    apply orb_false_iff in Hb. destruct Hb as [Hb1 Hb2]. apply andb_true_iff in Hn. destruct Hn as [Hn1 Hn2].
    specialize (IHe1 Hb1 Hn1 log).
    destruct (eval e1 log) as [[v|i] l] eqn:E, (seval (to_spec e1) log) as [r l'] eqn:S;
      cbn [fst snd] in *; destruct IHe1 as [Hl Hm]; subst l'.
    + pose proof (falsey_match v r Hm) as Hf.
      destruct r as [s|b|j]; [| |cbn in Hm; contradiction]; rewrite Hf;
        destruct (is_true v); cbn [negb]; try (apply IHe2; assumption); cbn [fst snd]; auto.
    + destruct r as [s|b|j]; cbn in Hm; try contradiction. subst. cbn. auto.
  - (* or *)
    apply orb_false_iff in Hb. destruct Hb as [Hb1 Hb2]. apply andb_true_iff in Hn. destruct Hn as [Hn1 Hn2].
    specialize (IHe1 Hb1 Hn1 log).
    destruct (eval e1 log) as [[v|i] l] eqn:E, (seval (to_spec e1) log) as [r l'] eqn:S;
      cbn [fst snd] in *; destruct IHe1 as [Hl Hm]; subst l'.
    + pose proof (falsey_match v r Hm) as Hf.
      destruct r as [s|b|j]; [| |cbn in Hm; contradiction]; rewrite Hf;
        destruct (is_true v); cbn [negb]; try (apply IHe2; assumption); cbn [fst snd]; auto.
    + destruct r as [s|b|j]; cbn in Hm; try contradiction. subst. cbn. auto.
Qed.

(* Number::eq(v, 0) is false on representative doubles (0, -0, 1, tiny, huge, infinities, NaN) *)
Lemma number_eq_zero_examples :
  forallb (fun b => negb (number_eq (of_bits b) f_zero))
    [0; 9223372036854775808; 4607182418800017408; 1; 9218868437227405311; 9218868437227405312;
     18442240474082181120; 9221120237041090560; 4602678819172646912; 13830554455654793216]%Z = true.
Proof. vm_compute. reflexivity. Qed.
