(* Proofs for Model/ScopeIsolation.v: no sequence of modelled operations writes to a built-in scope. *)
From Coq Require Import String List Bool Arith Lia.
From RV Require Import Base.ListX Gen.Statics Model.ScopeIsolation.
Import ListNotations.
Local Open Scope string_scope.
Local Open Scope list_scope.

Definition all_dyn (w : list ref) : Prop := Forall (fun r => is_dyn r = true) w.

Lemma all_dyn_app a b : all_dyn a -> all_dyn b -> all_dyn (a ++ b).
Proof. intros. apply Forall_app. split; assumption. Qed.
Lemma all_dyn_nil : all_dyn []. Proof. constructor. Qed.
Lemma all_dyn_one r : is_dyn r = true -> all_dyn [r]. Proof. intros. constructor; [assumption|constructor]. Qed.

Lemma scope_ok_empty : scope_ok empty_scope = true. Proof. reflexivity. Qed.
Lemma scope_ok_builtin : scope_ok builtin_scope = true. Proof. reflexivity. Qed.

Lemma nth_ok st i : inv st -> scope_ok (nth i st empty_scope) = true.
Proof.
  intros H. destruct (nth_in_or_default i st empty_scope) as [Hin| ->]; [apply H; exact Hin|reflexivity].
Qed.
Lemma get_ok st r : inv st -> scope_ok (get st r) = true.
Proof. intros H. destruct r; [reflexivity|apply nth_ok; exact H]. Qed.

Lemma inv_fresh st s : inv st -> scope_ok s = true -> inv (fst (fresh st s)).
Proof.
  intros H Hs x Hx. cbn in Hx. apply in_app_or in Hx. destruct Hx as [Hx|[<-|[]]]; [apply H; exact Hx|exact Hs].
Qed.

Lemma in_update st i f x : In x (update st i f) -> In x st \/ exists s0, In s0 st /\ x = f s0.
Proof.
  revert i. induction st as [|s r IH]; intros i Hx; [destruct i; destruct Hx|].
  destruct i; cbn in Hx.
  - destruct Hx as [<-|Hx]; [right; exists s; split; [left; reflexivity|reflexivity]|left; right; exact Hx].
  - destruct Hx as [<-|Hx]; [left; left; reflexivity|].
    destruct (IH i Hx) as [H|(s0 & H1 & H2)]; [left; right; exact H|right; exists s0; split; [right; exact H1|exact H2]].
Qed.
Lemma inv_upd st r f : inv st -> (forall s, scope_ok s = true -> scope_ok (f s) = true) -> inv (upd st r f).
Proof.
  intros H Hf. destruct r as [n|i]; [exact H|]. intros x Hx. cbn in Hx.
  destruct (in_update st i f x Hx) as [Hin|(s0 & Hin & ->)]; [apply H; exact Hin|apply Hf; apply H; exact Hin].
Qed.

(* define_global ends at a dynamic scope when it starts from one *)
Lemma root_dyn st : inv st -> forall fuel r, is_dyn r = true -> is_dyn (root st fuel r) = true.
Proof.
  intros H. induction fuel as [|f IH]; intros r Hr; [exact Hr|].
  cbn [root]. pose proof (get_ok st r H) as Hok. unfold scope_ok in Hok. apply andb_true_iff in Hok. destruct Hok as [Hp _].
  destruct (s_parent (get st r)) as [p|]; [apply IH; exact Hp|exact Hr].
Qed.

Lemma set_plain_ok st r g : inv st -> is_dyn r = true ->
  fst (m_set_variable_plain st r g) = st /\ all_dyn (snd (m_set_variable_plain st r g)).
Proof.
  intros H Hr. unfold m_set_variable_plain, m_define_global. destruct g; cbn [fst snd]; split; try reflexivity.
  - apply all_dyn_one. apply root_dyn; assumption.
  - apply all_dyn_one. exact Hr.
Qed.

(* the module-qualified assignment: a marked module is refused, and every built-in module is marked *)
Lemma set_variable_ok st r q g : inv st -> is_dyn r = true ->
  fst (m_set_variable st r q g) = st /\ all_dyn (snd (m_set_variable st r q g)).
Proof.
  intros H Hr. unfold m_set_variable. destruct q as [m|]; [|apply set_plain_ok; assumption].
  destruct (get_module st (S (length st)) r m) as [mr|]; [|split; [reflexivity|apply all_dyn_nil]].
  destruct (s_marked (get st mr)) eqn:Em; [split; [reflexivity|apply all_dyn_nil]|].
  apply set_plain_ok; [exact H|]. destruct mr as [n|i]; [cbn in Em; discriminate|reflexivity].
Qed.

Lemma define_module_ok st r n m : inv st -> is_dyn r = true ->
  inv (fst (m_define_module st r n m)) /\ all_dyn (snd (m_define_module st r n m)).
Proof.
  intros H Hr. unfold m_define_module. cbn [fst snd]. split; [|apply all_dyn_one; exact Hr].
  apply inv_upd; [exact H|]. intros s Hs. exact Hs.
Qed.
Lemma expose_star_ok st r o : inv st -> is_dyn r = true ->
  inv (fst (m_expose_star st r o)) /\ all_dyn (snd (m_expose_star st r o)).
Proof.
  intros H Hr. unfold m_expose_star. cbn [fst snd]. split; [|apply all_dyn_one; exact Hr].
  apply inv_upd; [exact H|]. intros s Hs. exact Hs.
Qed.

Lemma forward_ok st r : inv st -> is_dyn r = true ->
  let '(st1, f, w) := m_forward st r in inv st1 /\ is_dyn f = true /\ all_dyn w.
Proof.
  intros H Hr. unfold m_forward.
  pose proof (get_ok st r H) as Hok. unfold scope_ok in Hok. apply andb_true_iff in Hok. destruct Hok as [_ Hf].
  destruct (s_forward (get st r)) as [f|].
  - split; [exact H|]. split; [exact Hf|apply all_dyn_nil].
  - cbn [fresh]. split; [|split; [reflexivity|apply all_dyn_one; exact Hr]].
    apply inv_upd.
    + apply (inv_fresh st empty_scope H scope_ok_empty).
    + intros s Hs. unfold scope_ok in *. apply andb_true_iff in Hs. destruct Hs as [Hp _]. cbn. rewrite Hp. reflexivity.
Qed.

Lemma with_forwarded_ok st m : inv st ->
  let '(st1, m1, w) := with_forwarded st m in inv st1 /\ all_dyn w.
Proof.
  intros H. unfold with_forwarded. destruct (s_forward (get st m)) as [f|]; [|split; [exact H|apply all_dyn_nil]].
  cbn [fresh].
  pose proof (inv_fresh st empty_scope H scope_ok_empty) as H1. cbn [fresh fst] in H1.
  destruct (expose_star_ok (st ++ [empty_scope]) (D (length st)) f H1 eq_refl) as [H2 W2].
  destruct (m_expose_star (st ++ [empty_scope]) (D (length st)) f) as [st2 w1]. cbn [fst snd] in H2, W2.
  destruct (expose_star_ok st2 (D (length st)) m H2 eq_refl) as [H3 W3].
  destruct (m_expose_star st2 (D (length st)) m) as [st3 w2]. cbn [fst snd] in H3, W3.
  split; [exact H3|apply all_dyn_app; assumption].
Qed.

Lemma expose_ok st m all : inv st ->
  let '(st1, m1, w) := expose st m all in inv st1 /\ all_dyn w.
Proof.
  intros H. unfold expose. destruct all; [split; [exact H|apply all_dyn_nil]|].
  cbn [fresh]. split.
  - apply (inv_fresh st _ H). reflexivity.
  - repeat constructor.
Qed.

Lemma do_use_ok st r m a all : inv st -> is_dyn r = true ->
  inv (fst (m_do_use st r m a all)) /\ all_dyn (snd (m_do_use st r m a all)).
Proof.
  intros H Hr. unfold m_do_use.
  pose proof (with_forwarded_ok st m H) as Hw. destruct (with_forwarded st m) as [[st1 m1] w1]. destruct Hw as [H1 W1].
  destruct a as [n| |].
  - pose proof (expose_ok st1 m1 all H1) as He. destruct (expose st1 m1 all) as [[st2 m2] w2]. destruct He as [H2 W2].
    destruct (define_module_ok st2 r n m2 H2 Hr) as [H3 W3]. destruct (m_define_module st2 r n m2) as [st3 w3].
    cbn [fst snd] in *. split; [exact H3|]. apply all_dyn_app; [exact W1|apply all_dyn_app; assumption].
  - pose proof (expose_ok st1 m1 all H1) as He. destruct (expose st1 m1 all) as [[st2 m2] w2]. destruct He as [H2 W2].
    destruct (expose_star_ok st2 r m2 H2 Hr) as [H3 W3]. destruct (m_expose_star st2 r m2) as [st3 w3].
    cbn [fst snd] in *. split; [exact H3|]. apply all_dyn_app; [exact W1|apply all_dyn_app; assumption].
  - cbn [fst snd]. split; [exact H1|]. apply all_dyn_app; [exact W1|]. repeat constructor; exact Hr.
Qed.

Lemma define_ok st r : inv st -> is_dyn r = true -> fst (m_define st r) = st /\ all_dyn (snd (m_define st r)).
Proof. intros. unfold m_define. apply set_variable_ok; assumption. Qed.

Lemma step_ok o st : inv st -> inv (fst (step o st)) /\ all_dyn (snd (step o st)).
Proof.
  intros H. destruct o as [|c|c|c q g|c m a cfg|c m a all cfg|c]; cbn [step].
  - split; [apply inv_fresh; [exact H|reflexivity]|apply all_dyn_nil].
  - split; [apply inv_fresh; [exact H|reflexivity]|apply all_dyn_nil].
  - destruct (define_ok st (D c) H eq_refl) as [E W]. rewrite E. split; [exact H|exact W].
  - destruct (set_variable_ok st (D c) q g H eq_refl) as [E W]. rewrite E. split; [exact H|exact W].
  - destruct m as [n|i].
    + destruct cfg; [split; [exact H|apply all_dyn_nil]|]. apply do_use_ok; [exact H|reflexivity].
    + assert (Hc : inv (fst (if cfg then m_define st (D i) else (st, []))) /\ all_dyn (snd (if cfg then m_define st (D i) else (st, [])))).
      { destruct cfg; [|split; [exact H|apply all_dyn_nil]]. destruct (define_ok st (D i) H eq_refl) as [E W]. rewrite E. split; [exact H|exact W]. }
      destruct (if cfg then m_define st (D i) else (st, [])) as [st1 w1]. cbn [fst snd] in Hc. destruct Hc as [H1 W1].
      destruct (do_use_ok st1 (D c) (D i) a true H1 eq_refl) as [H2 W2]. destruct (m_do_use st1 (D c) (D i) a true) as [st2 w2].
      cbn [fst snd] in *. split; [exact H2|apply all_dyn_app; assumption].
  - destruct m as [n|i].
    + destruct cfg; [split; [exact H|apply all_dyn_nil]|].
      pose proof (forward_ok st (D c) H eq_refl) as Hf. destruct (m_forward st (D c)) as [[st1 f] w1]. destruct Hf as (H1 & Hfd & W1).
      destruct (do_use_ok st1 f (ref_of_src (SrcBuiltin n)) a all H1 Hfd) as [H2 W2].
      destruct (m_do_use st1 f (ref_of_src (SrcBuiltin n)) a all) as [st2 w2]. cbn [fst snd] in *.
      split; [exact H2|apply all_dyn_app; assumption].
    + assert (Hc : inv (fst (if cfg then m_define st (D i) else (st, []))) /\ all_dyn (snd (if cfg then m_define st (D i) else (st, [])))).
      { destruct cfg; [|split; [exact H|apply all_dyn_nil]]. destruct (define_ok st (D i) H eq_refl) as [E W]. rewrite E. split; [exact H|exact W]. }
      destruct (if cfg then m_define st (D i) else (st, [])) as [st0 w0]. cbn [fst snd] in Hc. destruct Hc as [H0 W0].
      pose proof (forward_ok st0 (D c) H0 eq_refl) as Hf. destruct (m_forward st0 (D c)) as [[st1 f] w1]. destruct Hf as (H1 & Hfd & W1).
      destruct (do_use_ok st1 f (D i) a all H1 Hfd) as [H2 W2]. destruct (m_do_use st1 f (D i) a all) as [st2 w2]. cbn [fst snd] in *.
      split; [exact H2|]. apply all_dyn_app; [exact W0|apply all_dyn_app; assumption].
  - cbn [fresh].
    assert (H1 : inv (st ++ [mkScope (Some (D c)) [] None false])) by (apply (inv_fresh st _ H); reflexivity).
    destruct (define_ok _ (D (length st)) H1 eq_refl) as [E W].
    destruct (m_define (st ++ [mkScope (Some (D c)) [] None false]) (D (length st))) as [st2 w]. cbn [fst snd] in *.
    subst st2. split; [exact H1|exact W].
Qed.

Theorem run_ok : forall ops st, inv st -> inv (fst (run ops st)) /\ all_dyn (snd (run ops st)).
Proof.
  induction ops as [|o r IH]; intros st H; cbn [run]; [split; [exact H|apply all_dyn_nil]|].
  destruct (step_ok o st H) as [H1 W1]. destruct (step o st) as [st1 w1]. cbn [fst snd] in *.
  destruct (IH st1 H1) as [H2 W2]. destruct (run r st1) as [st2 w2]. cbn [fst snd] in *.
  split; [exact H2|apply all_dyn_app; assumption].
Qed.

Lemma inv_nil : inv []. Proof. intros s []. Qed.

(* the model does not hide such writes: the same method applied to a built-in ref records a write to it; it is the
   `@scope_name@` test that keeps `math.$pi: 3` from reaching it *)
Lemma guard_needed :
  let st := [mkScope None [("math", B 0)] None false] in
  snd (step (OSetVariable 0 (Some "math") false) st) = []
  /\ snd (m_set_variable_plain st (B 0) false) = [B 0]
  /\ snd (m_do_use st (B 0) (D 0) AsStar true) = [B 0].
Proof. repeat split; reflexivity. Qed.

(* ---- the call-site table ---- *)
Definition csite_eqb (a b : csite) : bool :=
  String.eqb (fst a) (fst b) && String.eqb (fst (snd a)) (fst (snd b)) && String.eqb (fst (snd (snd a))) (fst (snd (snd b)))
  && String.eqb (fst (snd (snd (snd a)))) (fst (snd (snd (snd b)))) && Nat.eqb (snd (snd (snd (snd a)))) (snd (snd (snd (snd b)))).
Definition call_sites_closed : bool := list_eqb csite_eqb scope_call_sites (map fst reviewed_call_sites).
Lemma call_sites_closed_ok : call_sites_closed = true.
Proof. vm_compute. reflexivity. Qed.
Lemma classes_admissible : forallb class_admissible reviewed_call_sites = true.
Proof. vm_compute. reflexivity. Qed.
(* built-in refs are created at exactly one place and requested at exactly the two @use / @forward sites *)
Definition sources : list csite := map fst (filter (fun e => match snd e with RSource => true | _ => false end) reviewed_call_sites).
Lemma sources_are : sources =
  [("output/transform.rs", ("handle_item", ("get_global_module", ("", 1))));
   ("output/transform.rs", ("handle_item", ("get_global_module", ("", 2))));
   ("sass/functions/mod.rs", ("get_global_module", ("ScopeRef::Builtin", ("value", 1))))].
Proof. reflexivity. Qed.
