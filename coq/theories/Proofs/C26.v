(* C26 proofs: the string-function model against Spec/SassStrings, all strings, all indices. *)
From Coq Require Import String List NArith ZArith Bool Lia.
From RV Require Import Base.Text Base.ListX Model.CssStr Model.StrFns Spec.SassStrings.
Import ListNotations.
Local Open Scope list_scope.
Local Open Scope Z_scope.

(* ---- index ---- *)
Lemma prefix_occurs sub : forall l, prefix_eqb sub l = list_N_eqb (firstn (length sub) l) sub.
Proof.
  induction sub as [|x p IH]; intros l; cbn; [reflexivity|].
  destruct l as [|y r]; cbn; [reflexivity|]. rewrite IH. now rewrite N.eqb_sym.
Qed.

Lemma find_map_S (f : nat -> bool) l : find f (map S l) = option_map S (find (fun d => f (S d)) l).
Proof. induction l as [|a r IH]; cbn; [reflexivity|]. destruct (f (S a)); [reflexivity|exact IH]. Qed.

Lemma find_sub_find sub : forall l i,
  find_sub sub l i = option_map (fun d => (i + d)%nat) (find (occurs_at l sub) (seq 0 (S (length l)))).
Proof.
  induction l as [|c r IH]; intros i.
  - cbn. unfold occurs_at. cbn [skipn]. rewrite <- prefix_occurs.
    destruct (prefix_eqb sub []); cbn; [f_equal; lia|reflexivity].
  - cbn [find_sub length]. change (seq 0 (S (S (length r)))) with (0%nat :: seq 1 (S (length r))).
    cbn [find]. unfold occurs_at at 1. cbn [skipn]. rewrite <- prefix_occurs.
    destruct (prefix_eqb sub (c :: r)); cbn [option_map]; [f_equal; lia|].
    rewrite <- seq_shift, find_map_S, IH.
    change (fun d => occurs_at (c :: r) sub (S d)) with (occurs_at r sub).
    destruct (find (occurs_at r sub) (seq 0 (S (length r)))); cbn; [f_equal; lia|reflexivity].
Qed.

Lemma index_refines s sub : str_index s sub = sp_index s sub.
Proof.
  unfold str_index, sp_index. rewrite find_sub_find.
  destruct (find (occurs_at s sub) (seq 0 (S (length s)))) as [k|]; [|reflexivity].
  unfold option_map. f_equal. rewrite Nat.add_0_l. lia.
Qed.

(* the reference index is the first occurrence *)
Lemma find_seq_first (f : nat -> bool) n : forall b k, find f (seq b n) = Some k ->
  f k = true /\ (b <= k < b + n)%nat /\ forall d, (b <= d < k)%nat -> f d = false.
Proof.
  induction n as [|n IH]; intros b k; cbn; [discriminate|]. destruct (f b) eqn:E.
  - intros [= <-]. split; [exact E|]. split; [lia|]. intros d Hd. lia.
  - intros H. destruct (IH _ _ H) as (A & B & C). split; [exact A|]. split; [lia|].
    intros d Hd. destruct (Nat.eq_dec d b) as [->|N]; [exact E|]. apply C. lia.
Qed.

Lemma sp_index_first s sub k :
  find (occurs_at s sub) (seq 0 (S (length s))) = Some k ->
  occurs_at s sub k = true /\ (k <= length s)%nat /\ forall d, (d < k)%nat -> occurs_at s sub d = false.
Proof.
  intros H. destruct (find_seq_first _ _ _ _ H) as (A & B & C). split; [exact A|]. split; [lia|].
  intros d Hd. apply C. lia.
Qed.

Lemma sp_index_none s sub :
  find (occurs_at s sub) (seq 0 (S (length s))) = None -> forall d, (d <= length s)%nat -> occurs_at s sub d = false.
Proof.
  intros H d Hd. eapply find_none in H; [exact H|]. apply in_seq. lia.
Qed.

(* ---- insert ---- *)
Lemma insert_refines s x i : str_insert s x i = sp_insert s x i.
Proof.
  unfold str_insert, sp_insert, insert_ix. set (len := Z.of_nat (length s)).
  assert (0 <= len) by (unfold len; lia).
  replace (Z.to_nat (Z.min (if i <? 0 then Z.max 0 (len - (- i - 1)) else Z.max 0 (i - 1)) len))
    with (Z.to_nat (if 0 <=? i then Z.min (Z.max (i - 1) 0) len else Z.max (len + i + 1) 0)); [reflexivity|].
  f_equal. destruct (i <? 0) eqn:A; destruct (0 <=? i) eqn:B;
    try apply Z.ltb_lt in A; try apply Z.ltb_ge in A; try apply Z.leb_le in B; try apply Z.leb_gt in B; lia.
Qed.

(* ---- slice ---- *)
Lemma firstn_min_eq {A} (l : list A) n m :
  Nat.min n (length l) = Nat.min m (length l) -> firstn n l = firstn m l.
Proof.
  intros H. destruct (Nat.le_gt_cases n (length l)) as [Hn|Hn]; destruct (Nat.le_gt_cases m (length l)) as [Hm|Hm].
  - f_equal. lia.
  - rewrite (firstn_all2 (n:=m)); [|lia]. assert (n = length l) by lia. subst. apply firstn_all.
  - rewrite (firstn_all2 (n:=n)); [|lia]. assert (m = length l) by lia. subst. symmetry. apply firstn_all.
  - rewrite !firstn_all2; auto; lia.
Qed.

Lemma firstn_nil_min {A} (l : list A) n : Nat.min n (length l) = 0%nat -> firstn n l = [].
Proof. intros H. rewrite (firstn_min_eq l n 0); [reflexivity|]. now rewrite H. Qed.

Ltac zb :=
  repeat match goal with
  | H : (_ <? _) = true |- _ => apply Z.ltb_lt in H
  | H : (_ <? _) = false |- _ => apply Z.ltb_ge in H
  | H : (_ <=? _) = true |- _ => apply Z.leb_le in H
  | H : (_ <=? _) = false |- _ => apply Z.leb_gt in H
  end.

Lemma slice_refines s i j : str_slice s i j = sp_slice s i j.
Proof.
  unfold str_slice, sp_slice, slice_start, slice_end, sp_first, sp_last.
  set (len := Z.of_nat (length s)). assert (L : len = Z.of_nat (length s)) by reflexivity. clearbody len.
  assert (0 <= len) by lia.
  match goal with |- _ = (if ?c then _ else _) => destruct c eqn:BA end.
  - (* reference: empty *)
    apply firstn_nil_min. rewrite skipn_length.
    destruct (i <? 0) eqn:I1; destruct (0 <? i) eqn:I2; destruct (j <? 0) eqn:J1; destruct (0 <=? j) eqn:J2; zb; lia.
  - rewrite skipn_firstn_comm.
    assert (ST : Z.to_nat (if i <? 0 then Z.max 0 (len - - i) else if 0 <? i then Z.min (i - 1) len else 0)
                 = Z.to_nat ((if 0 <? i then i else if i <? 0 then Z.max (len + i + 1) 1 else 1) - 1)).
    { destruct (i <? 0) eqn:I1; destruct (0 <? i) eqn:I2; destruct (j <? 0) eqn:J1; destruct (0 <=? j) eqn:J2; zb; lia. }
    rewrite ST. apply firstn_min_eq. rewrite skipn_length.
    destruct (i <? 0) eqn:I1; destruct (0 <? i) eqn:I2; destruct (j <? 0) eqn:J1; destruct (0 <=? j) eqn:J2; zb; lia.
Qed.

(* the range is empty exactly when the computed start is not before the computed end *)
Lemma slice_empty_range s i j :
  slice_end j (Z.of_nat (length s)) <= slice_start i (Z.of_nat (length s)) -> str_slice s i j = [].
Proof.
  intros H. unfold str_slice.
  replace (Z.min (Z.max 0 (slice_end j (Z.of_nat (length s)) - slice_start i (Z.of_nat (length s)))) (Z.of_nat (length s)))
    with 0 by lia.
  reflexivity.
Qed.

(* ---- case ---- *)
Lemma upper1_refines c : to_ascii_upper c = sp_upper1 c.
Proof. reflexivity. Qed.
Lemma lower1_refines c : to_ascii_lower c = sp_lower1 c.
Proof. reflexivity. Qed.

Lemma case_refines s : str_upper s = sp_upper s /\ str_lower s = sp_lower s.
Proof. split; apply map_ext; intros; reflexivity. Qed.

Lemma case_ascii_only c :
  (to_ascii_upper c <> c -> (97 <= c <= 122)%N /\ to_ascii_upper c = (c - 32)%N) /\
  (to_ascii_lower c <> c -> (65 <= c <= 90)%N /\ to_ascii_lower c = (c + 32)%N).
Proof.
  unfold to_ascii_upper, to_ascii_lower, is_ascii_lower, is_ascii_upper. split.
  - destruct (97 <=? c)%N eqn:A; destruct (c <=? 122)%N eqn:B; cbn; try congruence.
    apply N.leb_le in A. apply N.leb_le in B. intros _. split; [lia|reflexivity].
  - destruct (65 <=? c)%N eqn:A; destruct (c <=? 90)%N eqn:B; cbn; try congruence.
    apply N.leb_le in A. apply N.leb_le in B. intros _. split; [lia|reflexivity].
Qed.

(* ---- quotedness ---- *)
Lemma quotes_kept v q :
  (s_q (str_result v q) = QNone <-> q = QNone) /\ s_val (str_result v q) = v.
Proof.
  unfold str_result, pref_dquotes. cbn. split; [|reflexivity].
  destruct q; cbn; repeat match goal with |- context [if ?c then _ else _] => destruct c end; split; congruence.
Qed.
