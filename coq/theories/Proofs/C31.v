(* Proofs for C31. *)
From Coq Require Import String List ZArith Bool Lia.
From Flocq Require Import Core.Core IEEE754.BinarySingleNaN IEEE754.Binary IEEE754.Bits.
From RV Require Import Base.F64 Base.FMod Base.ListX Gen.Colors Model.Color Run.C31.
Import ListNotations.
Local Open Scope Z_scope.

(* ---------- comparisons of binary64 values ---------- *)
Lemma fcmp_some a b : f_is_nan a = false -> f_is_nan b = false -> exists c, fcmp a b = Some c.
Proof.
  unfold fcmp, b64_compare, Bcompare, BinarySingleNaN.Bcompare.
  destruct a, b; cbn; intros; try discriminate; eauto.
Qed.

Lemma fcmp_swap a b : fcmp b a = match fcmp a b with Some c => Some (CompOpp c) | None => None end.
Proof. apply Bcompare_swap. Qed.

Lemma flt_fle a b : flt a b = true -> fle a b = true.
Proof. unfold flt, fle. destruct (fcmp a b) as [[]|]; auto. Qed.

Lemma not_flt_fle a b : f_is_nan a = false -> f_is_nan b = false -> flt b a = false -> fle a b = true.
Proof.
  intros Ha Hb H. destruct (fcmp_some a b Ha Hb) as [c E].
  unfold flt in H. rewrite fcmp_swap, E in H. unfold fle. rewrite E.
  destruct c; cbn in *; auto; discriminate.
Qed.

Lemma flt_not_nan_l a b : flt a b = true -> f_is_nan a = false.
Proof. unfold flt, fcmp, b64_compare, Bcompare. destruct a; auto; try (destruct b; cbn; discriminate). Qed.
Lemma flt_not_nan_r a b : flt a b = true -> f_is_nan b = false.
Proof. unfold flt, fcmp, b64_compare, Bcompare. destruct b; auto; try (destruct a; cbn; discriminate). Qed.

(* ---------- cap: every f64, NaN and infinities included, lands in [0, max] ---------- *)
Definition good_max (mx : f64) : bool :=
  negb (f_is_nan mx) && fle f_zero mx && fle mx mx && fle f_zero f_zero && negb (f_is_nan f_zero).

Lemma cap_range n mx : good_max mx = true ->
  fle f_zero (cap n mx) = true /\ fle (cap n mx) mx = true.
Proof.
  unfold good_max. intros G.
  repeat (apply andb_true_iff in G; destruct G as [G ?]).
  apply negb_true_iff in G. apply negb_true_iff in H.
  unfold cap, fmax. rewrite H.
  destruct (f_is_nan n) eqn:Nn.
  - (* NaN argument: 0 *)
    unfold fmin. rewrite H, G. destruct (flt mx f_zero); auto.
  - destruct (flt f_zero n) eqn:L.
    + unfold fmin. rewrite Nn, G. destruct (flt mx n) eqn:L2; auto.
      split. apply flt_fle; auto. apply not_flt_fle; auto.
    + unfold fmin. rewrite H, G. destruct (flt mx f_zero); auto.
Qed.

Lemma good_255 : good_max f255 = true. Proof. vm_compute. reflexivity. Qed.
Lemma good_1 : good_max f_one = true. Proof. vm_compute. reflexivity. Qed.

Definition in01 (lo hi x : f64) : Prop := fle lo x = true /\ fle x hi = true.

Theorem rgb_range r g b a s :
  let c := rgba_new r g b a s in
  in01 f_zero f255 (r_red c) /\ in01 f_zero f255 (r_green c) /\ in01 f_zero f255 (r_blue c)
  /\ in01 f_zero f_one (r_alpha c).
Proof.
  cbn. unfold in01. repeat split; try apply (cap_range _ _ good_255); apply (cap_range _ _ good_1).
Qed.

(* alpha.max(0.).min(1.) of Hsla::new is the same function as cap *)
Lemma hsla_alpha_cap h s l a f : h_alpha (hsla_new h s l a f) = fmin (fmax a f_zero) f_one.
Proof. reflexivity. Qed.

Lemma fmax_comm_range a : fle f_zero (fmin (fmax a f_zero) f_one) = true /\ fle (fmin (fmax a f_zero) f_one) f_one = true.
Proof.
  pose proof good_1 as G. unfold good_max in G.
  repeat (apply andb_true_iff in G; destruct G as [G ?]).
  apply negb_true_iff in G. apply negb_true_iff in H.
  unfold fmax. destruct (f_is_nan a) eqn:Na.
  - unfold fmin. rewrite H, G. destruct (flt f_one f_zero); auto.
  - rewrite H. destruct (flt a f_zero) eqn:L.
    + unfold fmin. rewrite H, G. destruct (flt f_one f_zero); auto.
    + unfold fmin. rewrite Na, G. destruct (flt f_one a) eqn:L2; auto.
      split. apply not_flt_fle; auto. apply not_flt_fle; auto.
Qed.

Theorem hsl_alpha_range h s l a f : in01 f_zero f_one (h_alpha (hsla_new h s l a f)).
Proof. rewrite hsla_alpha_cap. apply fmax_comm_range. Qed.

(* saturation: clamp(0, inf) keeps NaN, otherwise the result is not below 0 *)
Theorem hsl_sat_nonneg h s l a f : f_is_nan s = false -> fle f_zero (h_sat (hsla_new h s l a f)) = true.
Proof.
  intros Ns. cbn [hsla_new h_sat]. unfold fclamp.
  destruct (flt s f_zero) eqn:L. reflexivity.
  destruct (fgt s f_inf) eqn:L2. reflexivity.
  apply not_flt_fle; auto.
Qed.

(* hue: deg_mod adds 360 to a negative remainder; nothing guards the rounding of that sum *)
Theorem hue_shape h : let r := ffmod h f360 in
  deg_mod h = r \/ (f_sign_neg r = true /\ deg_mod h = fadd r f360).
Proof. intros r. subst r. unfold deg_mod. destruct (f_sign_neg (ffmod h f360)) eqn:E; [right|left]; auto. Qed.

Definition tiny_neg : f64 := of_bits 13544718229650519020.      (* -1e-17 *)
Lemma refuted_hue : feq (h_hue (hsla_new f_neg_zero f_one f_half f_one true)) f360 = true
                 /\ feq (h_hue (hsla_new tiny_neg f_one f_half f_one true)) f360 = true.
Proof. vm_compute. auto. Qed.

(* hwb: whiteness + blackness above 1 is rescaled; alpha is clamped unless NaN *)
Theorem hwb_alpha_range h w b a : f_is_nan a = false -> in01 f_zero f_one (w_alpha (hwba_new h w b a)).
Proof.
  intros Na. unfold hwba_new. destruct (fgt (fadd w b) f_one); cbn [w_alpha]; unfold fclamp, in01.
  all: destruct (flt a f_zero) eqn:L; [split; reflexivity|].
  all: destruct (fgt a f_one) eqn:L2; [split; reflexivity|].
  all: split; [apply not_flt_fle; auto|].
  all: unfold fgt in L2; unfold fle; destruct (fcmp_some a f_one Na eq_refl) as [c E]; rewrite E in *; destruct c; auto; discriminate.
Qed.

(* ---------- the named-colour table (finite sweeps over Gen/Colors.v) ---------- *)
Fixpoint first_name (v : Z) (l : list (string * Z)) : option string :=
  match l with
  | [] => None
  | (n, v') :: r => if v =? v' then Some n else first_name v r
  end.
(* Rgba::name: value -> name through the v2n map (first insert wins) *)
Definition name_of (c : rgba) : option string :=
  match try_bytes c with
  | Some (r, g, b) => first_name (r * 65536 + g * 256 + b) color_table
  | None => None
  end.

Fixpoint index_name (n : string) (l : list (string * Z)) (i : nat) : option nat :=
  match l with
  | [] => None
  | (n', _) :: r => if String.eqb n n' then Some i else index_name n r (S i)
  end.

(* one entry: the name is unique, from_name gives exactly the table bytes as an opaque
   rgba, and the name the value is printed with is the first name carrying that value *)
Definition entry_ok (e : string * Z) : bool :=
  let (n, v) := e in
  (0 <=? v) && (v <? 16777216)
  && (Nat.eqb (length (filter (fun e' => String.eqb (fst e') n) color_table)) 1)
  && match from_name n with
     | Some c =>
         match try_bytes c with
         | Some (r, g, b) => (r * 65536 + g * 256 + b =? v) && feq (r_alpha c) f_one
         | None => false
         end
         && match name_of c, index_name n color_table 0 with
            | Some n', Some i =>
                match assoc_z n' color_table, index_name n' color_table 0 with
                | Some v', Some j => (v' =? v) && Nat.leb j i
                | _, _ => false
                end
            | _, _ => false
            end
     | None => false
     end.
Lemma table_sweep : lookup_first_name_wins && forallb entry_ok color_table = true.
Proof. vm_compute. reflexivity. Qed.
Lemma table_entry e : In e color_table -> entry_ok e = true.
Proof.
  pose proof table_sweep as H. apply andb_true_iff in H. destruct H as [_ H].
  exact (sweep1 color_table entry_ok H e).
Qed.

(* ---------- round trips (finite sweeps; the general statement needs an error analysis) ---------- *)
Definition close7 (a b : f64) : bool := flt (fabs (fsub a b)) f_1e7.
Definition rgba_close (x y : rgba) : bool :=
  close7 (r_red x) (r_red y) && close7 (r_green x) (r_green y) && close7 (r_blue x) (r_blue y)
  && close7 (r_alpha x) (r_alpha y).
Definition rt_hsl (c : rgba) : bool := rgba_close (rgba_of_hsla (hsla_of_rgba c)) c.
Definition rt_hwb (c : rgba) : bool := rgba_close (rgba_of_hwba (hwba_of_rgba c)) c.
Definition entry_rt (e : string * Z) : bool :=
  match from_name (fst e) with
  | Some c => rt_hsl c && rt_hwb c
  | None => false
  end.
Lemma named_rt_sweep : forallb entry_rt color_table = true.
Proof. vm_compute. reflexivity. Qed.

Definition grays : list Z := map Z.of_nat (seq 0 256).
Definition gray_rt (g : Z) : bool :=
  let c := rgba_from_bytes g g g in
  rt_hsl c && rt_hwb c && feq (h_sat (hsla_of_rgba c)) f_zero.
Lemma gray_rt_sweep : forallb gray_rt grays = true.
Proof. vm_compute. reflexivity. Qed.

(* F33 (fixed by e465284): yellow has lightness 50% and survives the round trip *)
Lemma yellow_fixed :
  let c := rgba_from_bytes 255 255 0 in
  feq (h_lum (hsla_of_rgba c)) f_half = true /\ feq (h_hue (hsla_of_rgba c)) f60 = true /\ rt_hsl c = true.
Proof. vm_compute. auto. Qed.

(* ---------- equal channels compare equal (Rgba ordering ignores the source notation) ---------- *)
Lemma fcmp_refl a : f_is_nan a = false -> fcmp a a = Some Eq.
Proof.
  unfold fcmp, b64_compare, Bcompare, BinarySingleNaN.Bcompare.
  destruct a; cbn; intros; try discriminate; auto.
  - destruct s; reflexivity.
  - destruct s; rewrite Z.compare_refl; fold (Pos.compare m m); rewrite Pos.compare_refl; reflexivity.
Qed.

Theorem cmp_chan_refl a : cmp_chan a a = Eq.
Proof.
  unfold cmp_chan. destruct (flt (fabs (fsub a a)) f_1e7); auto.
  destruct (f_is_nan a) eqn:N; auto. rewrite fcmp_refl; auto.
Qed.

Theorem rgba_cmp_same x y :
  r_red x = r_red y -> r_green x = r_green y -> r_blue x = r_blue y -> r_alpha x = r_alpha y ->
  rgba_cmp x y = Eq.
Proof.
  intros H1 H2 H3 H4. unfold rgba_cmp. rewrite H1, H2, H3, H4, !cmp_chan_refl. reflexivity.
Qed.
