(* Proofs for C29 (sass:math). *)
From Coq Require Import String List ZArith Bool.
From RV Require Import Base.F64 Gen.Units Model.Units Model.Numeric Model.MathFns.
Import ListNotations.
Local Open Scope Z_scope.

(* abs / ceil / floor / round: the IEEE operation on the value, unit set kept: every double, every unit set *)
Lemma rounding_fns : forall v u,
  m_abs (mkNum v u) = MNum (mkNum (fabs v) u) /\ m_ceil (mkNum v u) = MNum (mkNum (fceil v) u) /\
  m_floor (mkNum v u) = MNum (mkNum (ffloor v) u) /\ m_round (mkNum v u) = MNum (mkNum (fround v) u).
Proof. intros. repeat split; reflexivity. Qed.

Lemma percentage_spec : forall a,
  (num_is_no_unit a = true -> m_percentage a = MNum (mkNum (fmul (nval a) f_hundred) us_percent)) /\
  (num_is_no_unit a = false -> m_percentage a = MErr).
Proof. intros a. unfold m_percentage, unitless_arg. split; intros ->; reflexivity. Qed.

Lemma div_spec : forall a b, m_div a b = match numeric_div a b with Some n => MNum n | None => MOut end.
Proof. reflexivity. Qed.

Lemma sqrt_spec : forall a,
  (num_is_no_unit a = true -> m_sqrt a = MNum (mkNum (fsqrt (nval a)) [])) /\
  (num_is_no_unit a = false -> m_sqrt a = MErr).
Proof. intros a. unfold m_sqrt, unitless_arg. split; intros ->; reflexivity. Qed.

(* max / min return one of their arguments *)
Lemma extreme_from_in : forall pref rest found n,
  extreme_from pref found rest = XFound n -> n = found \/ In n rest.
Proof.
  induction rest; intros found n H; cbn [extreme_from] in H.
  - inversion H. left. reflexivity.
  - destruct (cmp2 found a) as [[o|]|]; try discriminate.
    apply IHrest in H. destruct H as [H|H].
    + destruct (comparison_eqb o pref); subst; [left; reflexivity|right; left; reflexivity].
    + right. right. exact H.
Qed.

Lemma extreme_arg : forall pref args n, m_extreme pref args = MNum n -> In n args.
Proof.
  intros pref [|a r] n H; cbn [m_extreme] in H; [discriminate|].
  destruct (extreme_from pref a r) eqn:E; try discriminate. inversion H; subst.
  apply extreme_from_in in E. destruct E as [->|E]; [left; reflexivity|right; exact E].
Qed.

(* two arguments: which one, in terms of the comparison the code makes *)
Lemma max_two : forall a b,
  m_max [a; b] = match cmp2 a b with
                 | Some (Some Gt) => MNum a
                 | Some (Some _) => MNum b
                 | Some None => MKept
                 | None => MOut
                 end.
Proof. intros. unfold m_max, m_extreme. cbn [extreme_from]. destruct (cmp2 a b) as [[[| |]|]|]; reflexivity. Qed.
Lemma min_two : forall a b,
  m_min [a; b] = match cmp2 a b with
                 | Some (Some Lt) => MNum a
                 | Some (Some _) => MNum b
                 | Some None => MKept
                 | None => MOut
                 end.
Proof. intros. unfold m_min, m_extreme. cbn [extreme_from]. destruct (cmp2 a b) as [[[| |]|]|]; reflexivity. Qed.
Lemma extreme_empty : forall pref, m_extreme pref [] = MErr.
Proof. reflexivity. Qed.

(* clamp returns one of its three arguments, or is an error exactly when the unit check fails *)
Lemma clamp_arg : forall mn x mx n, m_clamp mn x mx = MNum n -> n = mn \/ n = x \/ n = mx.
Proof.
  intros mn x mx n H. unfold m_clamp in H.
  destruct (negb (compat_with mn x) || negb (compat_with mn mx)); [discriminate|].
  destruct (ge_b (numeric_cmp x mx)) as [g|]; [|discriminate].
  destruct (le_b (numeric_cmp (if g then mx else x) mn)) as [l|]; [|discriminate].
  inversion H. destruct l, g; auto.
Qed.
Lemma clamp_err : forall mn x mx,
  m_clamp mn x mx = MErr <-> (compat_with mn x = false \/ compat_with mn mx = false).
Proof.
  intros mn x mx. unfold m_clamp. split.
  - destruct (compat_with mn x), (compat_with mn mx); cbn [negb orb]; auto.
    destruct (ge_b _) as [g|]; [|discriminate]. destruct (le_b _); discriminate.
  - intros [-> | ->]; cbn [negb orb]; [reflexivity|]. rewrite orb_true_r. reflexivity.
Qed.

(* unit guards *)
Lemma guards : forall a,
  (num_is_no_unit a = false -> m_percentage a = MErr /\ m_sqrt a = MErr) /\
  (angle_or_unitless a = true <->
   (num_is_no_unit a = true \/ exists u f, nunit a = [(u, 1)] /\ unit_scale_to u (UK "Rad") = Some f)).
Proof.
  intros a. split.
  - intros H. unfold m_percentage, m_sqrt, unitless_arg. rewrite H. auto.
  - unfold angle_or_unitless. split.
    + intros H. apply orb_true_iff in H. destruct H as [H|H]; [left; exact H|right].
      destruct (nunit a) as [|[u p] r]; [discriminate|].
      destruct r; [|destruct p as [|[q|q|]|q]; discriminate].
      destruct p as [|[q|q|]|q]; try discriminate.
      destruct (unit_scale_to u (UK "Rad")) eqn:E; [|discriminate]. exists u, f. auto.
    + intros [H|[u [f [H1 H2]]]]; [rewrite H; reflexivity|]. rewrite H1, H2. apply orb_true_r.
Qed.
