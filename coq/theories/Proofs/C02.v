(* Proofs for C02 (code after the fixes d80c9be url normalisation and 2454c18 load-css lock):
   - the lock set is a subset of the load stack; a loop error exhibits a real cycle (soundness);
   - a compilation that returns css has executed an acyclic part of the load graph that contains
     everything reachable from the root (completeness: a reachable cycle is never absorbed);
   - with a loader that knows finitely many names the compilation terminates (fuel |names|+1). *)
From Coq Require Import String List Bool Arith Ascii NArith ZArith Lia Relations.
From RV Require Import Base.ListX Gen.Candidates Model.Load Model.LoadRun.
Import ListNotations.
Local Open Scope string_scope.
Local Open Scope list_scope.

Lemma mem_In x l : mem x l = true <-> In x l.
Proof.
  induction l as [|y r IH]; cbn; [split; [discriminate|intros []]|].
  rewrite orb_true_iff, IH, String.eqb_eq. split; intros [H|H]; auto.
Qed.

Lemma remove1_notin p l : mem p l = false -> remove1 p l = l.
Proof.
  induction l as [|y r IH]; cbn; [reflexivity|]. intros H. apply orb_false_iff in H as [H1 H2].
  rewrite H1. f_equal. auto.
Qed.

Lemma remove1_head p l : mem p l = false -> remove1 p (p :: l) = l.
Proof. intros H. cbn. rewrite String.eqb_refl. apply remove1_notin. exact H. Qed.

Definition dir_load (d : directive) : option (kind * string) :=
  match d with DLoad k u => Some (k, u) | DImportUrl x => Some (KImport, x) | DEmit _ => None end.

Section Sound.
Variable lookup : string -> option string.     (* any deterministic loader *)
Variable content : string -> body.             (* any world *)
Let orc := orc_of lookup.

(* what the candidate loop finds: the first name the loader has *)
Definition resolve_name (names : list string) : option (string * string) :=
  first_some (fun n => option_map (fun id => (n, id)) (lookup n)) names.

Lemma resolve_name_lookup names p id : resolve_name names = Some (p, id) -> lookup p = Some id.
Proof.
  induction names as [|a r IH]; cbn; [discriminate|]. destruct (lookup a) eqn:E; cbn.
  - intros H; inversion H; subst. exact E.
  - exact IH.
Qed.

Lemma try_names_found_pure s names p id rd s' :
  try_names orc s names = FFound p id rd s' ->
  resolve_name names = Some (p, id) /\ loading s' = loading s /\ cache s' = cache s /\ trace s' = trace s.
Proof.
  revert s. induction names as [|a r IH]; intros s; cbn; [discriminate|].
  unfold orc, orc_of at 1. destruct (lookup a) eqn:E; cbn.
  - intros H; inversion H; subst. auto.
  - intros H. apply IH in H as (H1 & H2 & H3 & H4). cbn in H2, H3, H4. auto.
Qed.

Lemma try_names_none_pure s names s' :
  try_names orc s names = FNone s' ->
  resolve_name names = None /\ loading s' = loading s /\ cache s' = cache s /\ trace s' = trace s.
Proof.
  revert s. induction names as [|a r IH]; intros s; cbn.
  - intros H; inversion H; auto.
  - unfold orc, orc_of at 1. destruct (lookup a); [discriminate|]. cbn. intros H.
    apply IH in H as (H0 & H1 & H2 & H3). auto.
Qed.

(* the load graph over the names files are known by: p loads q when a directive of the file p
   denotes, resolved as Context::find_file resolves it from p, is found under the name q *)
Definition nedge (c p : string) : Prop :=
  exists idc d k u id, lookup c = Some idc /\ In d (content idc) /\ dir_load d = Some (k, u) /\
    resolve_name (find_names c k u) = Some (p, id).

Lemma find_file_cases cur k u s :
  match find_file orc cur k u s with
  | LFile p id s1 => loading s1 = p :: loading s /\ mem p (loading s) = false /\ cache s1 = cache s
                     /\ trace s1 = trace s /\ resolve_name (find_names cur k u) = Some (p, id)
  | LNone s1 => loading s1 = loading s /\ cache s1 = cache s /\ trace s1 = trace s
                /\ resolve_name (find_names cur k u) = None
  | LErr (ELoop _) _ => exists p id, resolve_name (find_names cur k u) = Some (p, id)
                                     /\ mem p (loading s) = true
  | LErr _ _ => True
  end.
Proof.
  unfold find_file. destruct (try_names orc s _) as [p id rd s1|s1|s1] eqn:T; [| |exact I].
  - apply try_names_found_pure in T as (R & L & C & Tr).
    destruct (negb (known_format p)); [exact I|]. destruct (negb rd); [exact I|].
    destruct (mem p (loading s1)) eqn:M; rewrite L in M.
    + exists p, id. auto.
    + cbn. rewrite L. auto.
  - apply try_names_none_pure in T as (R & L & C & Tr). auto.
Qed.

Variable root : string.

(* ================= soundness of loop errors ================= *)

(* a load stack: innermost first, every frame loaded by a directive of the frame below *)
Inductive chain : list string -> Prop :=
| chain_root : chain [root]
| chain_step c st p : chain (c :: st) -> nedge c p -> chain (p :: c :: st).

Definition cycle_witness : Prop :=
  exists st c p, chain (c :: st) /\ In p (c :: st) /\ nedge c p.

Definition post (s : state) (r : res) : Prop :=
  match r with
  | ROk s' => loading s' = loading s
  | RErr (ELoop _) _ => cycle_witness
  | _ => True
  end.

Definition spec_load (loadf : bool -> string -> kind -> string -> state -> res) : Prop :=
  forall unq st cur idc d k u s,
    chain (cur :: st) -> incl (loading s) (cur :: st) -> lookup cur = Some idc ->
    In d (content idc) -> dir_load d = Some (k, u) ->
    post s (loadf unq cur k u s).

Lemma exec_body_post loadf : spec_load loadf ->
  forall b st cur idc s,
    chain (cur :: st) -> incl (loading s) (cur :: st) -> lookup cur = Some idc ->
    (forall d, In d b -> In d (content idc)) ->
    post s (exec_body loadf cur b s).
Proof.
  intros HL b. induction b as [|d r IH]; intros st cur idc s Hc Hi Hl Hb; cbn [exec_body].
  - reflexivity.
  - assert (Hr : forall d0, In d0 r -> In d0 (content idc)) by (intros; apply Hb; right; assumption).
    destruct d as [k u|x|m].
    + pose proof (HL false st cur idc (DLoad k u) k u s Hc Hi Hl (Hb _ (or_introl eq_refl)) eq_refl) as P.
      destruct (loadf false cur k u s) as [s'|e s'|]; cbn in P; auto.
      specialize (IH st cur idc s' Hc). rewrite P in IH. specialize (IH Hi Hl Hr).
      unfold post in *. destruct (exec_body loadf cur r s'); auto. congruence.
    + pose proof (HL true st cur idc (DImportUrl x) KImport x s Hc Hi Hl (Hb _ (or_introl eq_refl)) eq_refl) as P.
      destruct (loadf true cur KImport x s) as [s'|e s'|]; cbn in P; auto.
      specialize (IH st cur idc s' Hc). rewrite P in IH. specialize (IH Hi Hl Hr).
      unfold post in *. destruct (exec_body loadf cur r s'); auto. congruence.
    + specialize (IH st cur idc (emit m s) Hc Hi Hl Hr). exact IH.
Qed.

Lemma exec_file_post loadf : spec_load loadf ->
  forall k st p id s1, chain (p :: st) -> incl (loading s1) (p :: st) -> lookup p = Some id ->
    post s1 (exec_file content loadf k p id s1).
Proof.
  intros HL k st p id s1 Hc Hi Hl. unfold exec_file.
  pose proof (exec_body_post _ HL (content id) st p id (note (EvBody k p id) s1) Hc Hi Hl (fun d H => H)) as P.
  destruct (exec_body loadf p (content id) _); cbn in P |- *; exact P.
Qed.

Lemma load_post fuel : spec_load (load orc content fuel).
Proof.
  induction fuel as [|f IH]; intros unq st cur idc d k u s Hc Hi Hl Hd Hk; cbn [load]; [exact I|].
  pose proof (find_file_cases cur k u s) as F.
  destruct (find_file orc cur k u s) as [p id s1|s1|e s1].
  - destruct F as (L1 & M & C1 & T1 & R).
    assert (Hedge : nedge cur p) by (exists idc, d, k, u, id; auto).
    assert (Hc' : chain (p :: cur :: st)) by (constructor; assumption).
    assert (Hlp : lookup p = Some id) by (eapply resolve_name_lookup; eauto).
    assert (Hi1 : incl (p :: loading s) (p :: cur :: st)).
    { intros x [<-|Hx]; [left; reflexivity|right; apply Hi; exact Hx]. }
    assert (B : forall kk s0, loading s0 = loading s1 ->
                post s0 (exec_file content (load orc content f) kk p id s0)).
    { intros kk s0 E. apply (exec_file_post _ IH kk (cur :: st)); auto. rewrite E, L1. exact Hi1. }
    destruct k.
    + pose proof (B KImport (set_cache [] s1) eq_refl) as P.
      destruct (exec_file _ _ KImport p id _) as [s2|e s2|]; cbn in P |- *; auto.
      rewrite P, L1. apply remove1_head. exact M.
    + destruct (mem p (cache s1)).
      * cbn. rewrite L1. apply remove1_head. exact M.
      * pose proof (B KUse s1 eq_refl) as P.
        destruct (exec_file _ _ KUse p id _) as [s2|e s2|]; cbn in P |- *; auto.
        rewrite P, L1. apply remove1_head. exact M.
    + destruct (mem p (cache s1)).
      * cbn. rewrite L1. apply remove1_head. exact M.
      * pose proof (B KForward s1 eq_refl) as P.
        destruct (exec_file _ _ KForward p id _) as [s2|e s2|]; cbn in P |- *; auto.
        rewrite P, L1. apply remove1_head. exact M.
    + pose proof (B KLoadCss s1 eq_refl) as P.
      destruct (exec_file _ _ KLoadCss p id _) as [s2|e s2|]; cbn in P |- *; auto.
      rewrite P, L1. apply remove1_head. exact M.
  - destruct F as (L & _). destruct (is_import k && plain_css u unq); cbn; auto.
  - destruct e; cbn; auto. destruct F as (p & id & R & M).
    exists st, cur, p. repeat split; auto.
    + apply Hi. apply mem_In. exact M.
    + exists idc, d, k, u, id. auto.
Qed.

Lemma run_post fuel rootid :
  lookup root = Some rootid ->
  match run orc content fuel root rootid with
  | RErr (ELoop _) _ => cycle_witness
  | _ => True
  end.
Proof.
  intros Hl. unfold run.
  pose proof (exec_file_post _ (load_post fuel) KImport [] root rootid (st0 root) chain_root
                (fun x H => H) Hl) as P.
  destruct (exec_file _ _ KImport root rootid _) as [s|e s|]; cbn in P |- *; auto.
Qed.

(* a cycle witness is a cycle of the load graph that is reachable from the root *)
Lemma chain_reach l : chain l ->
  match l with
  | c :: st => forall x, In x (c :: st) ->
                 clos_refl_trans _ nedge root x /\ clos_refl_trans _ nedge x c
  | [] => True
  end.
Proof.
  induction 1 as [|c st p Hc IH He].
  - intros x [<-|[]]. split; apply rt_refl.
  - intros x [<-|Hx].
    + split; [|apply rt_refl]. destruct (IH c (or_introl eq_refl)) as [R _].
      eapply rt_trans; [exact R|apply rt_step; exact He].
    + destruct (IH x Hx) as [R1 R2]. split; auto. eapply rt_trans; [exact R2|apply rt_step; exact He].
Qed.

Lemma rt_t_step {A} (R : relation A) x y z : clos_refl_trans _ R x y -> R y z -> clos_trans _ R x z.
Proof.
  intros H. apply clos_rt_rt1n in H. induction H.
  - intros; apply t_step; assumption.
  - intros Hz. eapply t_trans; [apply t_step; eassumption|auto].
Qed.

Lemma witness_cycle : cycle_witness ->
  exists p, clos_refl_trans _ nedge root p /\ clos_trans _ nedge p p.
Proof.
  intros (st & c & p & Hc & Hin & He). pose proof (chain_reach _ Hc p Hin) as [R1 R2].
  exists p. split; auto. eapply rt_t_step; eauto.
Qed.

Theorem loop_sound fuel rootid m s :
  lookup root = Some rootid ->
  run orc content fuel root rootid = RErr (ELoop m) s ->
  exists p, clos_refl_trans _ nedge root p /\ clos_trans _ nedge p p.
Proof.
  intros Hl H. pose proof (run_post fuel rootid Hl) as P. rewrite H in P. apply witness_cycle. exact P.
Qed.

(* a successful load leaves the lock set as it found it *)
Theorem ok_restores_locks fuel unq st cur idc d k u s s' :
  chain (cur :: st) -> incl (loading s) (cur :: st) -> lookup cur = Some idc ->
  In d (content idc) -> dir_load d = Some (k, u) ->
  load orc content fuel unq cur k u s = ROk s' -> loading s' = loading s.
Proof.
  intros Hc Hi Hl Hd Hk H. pose proof (load_post fuel unq st cur idc d k u s Hc Hi Hl Hd Hk) as P.
  rewrite H in P. exact P.
Qed.

(* ================= completeness: css only from an acyclic graph ================= *)

(* names whose body has been executed to its end, latest first *)
Fixpoint fin (t : list event) : list string :=
  match t with
  | [] => []
  | EvDone p :: r => p :: fin r
  | _ :: r => fin r
  end.

(* when a file finished for the first time, everything it loads had finished before *)
Definition ordered (l : list string) : Prop :=
  forall l1 p l2, l = l1 ++ p :: l2 -> ~ In p l2 -> forall q, nedge p q -> In q l2.

Definition kinv (s : state) : Prop := ordered (fin (trace s)) /\ incl (cache s) (fin (trace s)).

Definition extends (a b : list string) : Prop := exists l, b = l ++ a.

Lemma extends_refl a : extends a a.
Proof. exists []. reflexivity. Qed.
Lemma extends_trans a b c : extends a b -> extends b c -> extends a c.
Proof. intros [l ->] [m ->]. exists (m ++ l). rewrite app_assoc. reflexivity. Qed.
Lemma extends_incl a b : extends a b -> incl a b.
Proof. intros [l ->] x Hx. apply in_or_app. right. exact Hx. Qed.

Definition cpost (cur : string) (k : kind) (u : string) (s : state) (r : res) : Prop :=
  match r with
  | ROk s' => kinv s' /\ extends (fin (trace s)) (fin (trace s'))
              /\ (forall q id, resolve_name (find_names cur k u) = Some (q, id) -> In q (fin (trace s')))
  | _ => True
  end.

Definition cspec (loadf : bool -> string -> kind -> string -> state -> res) : Prop :=
  forall unq cur k u s, kinv s -> cpost cur k u s (loadf unq cur k u s).

Lemma exec_body_cpost loadf : cspec loadf ->
  forall b cur s, kinv s ->
    match exec_body loadf cur b s with
    | ROk s' => kinv s' /\ extends (fin (trace s)) (fin (trace s'))
                /\ (forall d k u q id, In d b -> dir_load d = Some (k, u) ->
                      resolve_name (find_names cur k u) = Some (q, id) -> In q (fin (trace s')))
    | _ => True
    end.
Proof.
  intros HL b. induction b as [|d r IH]; intros cur s K; cbn [exec_body].
  - split; [exact K|split; [apply extends_refl|]]. intros d k u q id [].
  - assert (Step : forall unq k u, dir_load d = Some (k, u) ->
              match (match loadf unq cur k u s with ROk s' => exec_body loadf cur r s' | e => e end) with
              | ROk s' => kinv s' /\ extends (fin (trace s)) (fin (trace s'))
                          /\ (forall d0 k0 u0 q id, In d0 (d :: r) -> dir_load d0 = Some (k0, u0) ->
                                resolve_name (find_names cur k0 u0) = Some (q, id) -> In q (fin (trace s')))
              | _ => True
              end).
    { intros unq k u Hd. pose proof (HL unq cur k u s K) as P.
      destruct (loadf unq cur k u s) as [s1|e s1|]; auto. destruct P as (K1 & E1 & Q1).
      specialize (IH cur s1 K1). destruct (exec_body loadf cur r s1) as [s2|e s2|]; auto.
      destruct IH as (K2 & E2 & Q2). split; [exact K2|split; [eapply extends_trans; eauto|]].
      intros d0 k0 u0 q id [<-|Hin] Hd0 Hr.
      - rewrite Hd in Hd0. inversion Hd0; subst k0 u0. apply (extends_incl _ _ E2). eapply Q1; eauto.
      - eapply Q2; eauto. }
    destruct d as [k u|x|m].
    + apply (Step false k u eq_refl).
    + apply (Step true KImport x eq_refl).
    + specialize (IH cur (emit m s) K). destruct (exec_body loadf cur r (emit m s)) as [s2|e s2|]; auto.
      destruct IH as (K2 & E2 & Q2). split; [exact K2|split; [exact E2|]].
      intros d0 k0 u0 q id [<-|Hin] Hd0 Hr; [discriminate|eapply Q2; eauto].
Qed.

Lemma ordered_cons p l :
  ordered l -> (~ In p l -> forall q, nedge p q -> In q l) -> ordered (p :: l).
Proof.
  intros O Hp l1 x l2 E Hx q Hq. destruct l1 as [|y l1]; cbn in E; inversion E; subst.
  - apply Hp; assumption.
  - eapply O; eauto.
Qed.

Lemma exec_file_cpost loadf : cspec loadf ->
  forall k p id s1, kinv s1 -> lookup p = Some id ->
    match exec_file content loadf k p id s1 with
    | ROk s2 => ordered (fin (trace s2)) /\ incl (cache s2) (fin (trace s2))
                /\ extends (fin (trace s1)) (fin (trace s2)) /\ In p (fin (trace s2))
                /\ (exists l, fin (trace s2) = p :: l /\ extends (fin (trace s1)) l)
    | _ => True
    end.
Proof.
  intros HL k p id s1 K Hl. unfold exec_file.
  assert (K0 : kinv (note (EvBody k p id) s1)) by exact K.
  pose proof (exec_body_cpost _ HL (content id) p _ K0) as P.
  destruct (exec_body loadf p (content id) _) as [s2|e s2|]; auto.
  destruct P as ((O2 & C2) & E2 & Q2). cbn [trace note fin] in E2 |- *.
  repeat split.
  - apply ordered_cons; [exact O2|]. intros _ q (idc & d & kk & u & idq & Hlc & Hd & Hk & Hr).
    rewrite Hl in Hlc. inversion Hlc; subst idc. eapply Q2; eauto.
  - intros x Hx. right. apply C2. exact Hx.
  - destruct E2 as [l ->]. exists (p :: l). reflexivity.
  - left. reflexivity.
  - exists (fin (trace s2)). split; [reflexivity|exact E2].
Qed.

Lemma load_cpost fuel : cspec (load orc content fuel).
Proof.
  induction fuel as [|f IH]; intros unq cur k u s K; cbn [load]; [exact I|].
  pose proof (find_file_cases cur k u s) as F.
  destruct (find_file orc cur k u s) as [p id s1|s1|e s1]; [| |exact I].
  - destruct F as (L1 & M & C1 & T1 & R). destruct K as (O & C).
    assert (Hlp : lookup p = Some id) by (eapply resolve_name_lookup; eauto).
    assert (Q : forall l, In p l -> forall q id0, resolve_name (find_names cur k u) = Some (q, id0) -> In q l).
    { intros l Hp q id0 Hq. rewrite R in Hq. inversion Hq; subst. exact Hp. }
    assert (B : forall kk s0, trace s0 = trace s1 -> incl (cache s0) (fin (trace s0)) ->
              match exec_file content (load orc content f) kk p id s0 with
              | ROk s2 => ordered (fin (trace s2)) /\ incl (cache s2) (fin (trace s2))
                          /\ extends (fin (trace s)) (fin (trace s2)) /\ In p (fin (trace s2))
              | _ => True end).
    { intros kk s0 Et Ec.
      assert (K0 : kinv s0) by (split; [rewrite Et, T1; exact O|exact Ec]).
      pose proof (exec_file_cpost _ IH kk p id s0 K0 Hlp) as P.
      destruct (exec_file _ _ kk p id s0); auto. destruct P as (P1 & P2 & P3 & P4 & _).
      rewrite Et, T1 in P3. auto. }
    destruct k.
    + (* import: fresh cache for the body, the old one comes back *)
      pose proof (B KImport (set_cache [] s1) eq_refl (fun x H => match H with end)) as P.
      destruct (exec_file _ _ KImport p id _) as [s2|e s2|]; auto.
      destruct P as (P1 & P2 & P3 & P4). unfold cpost, kinv; cbn [trace cache unlock set_cache set_loading]. repeat split; auto.
      * intros x Hx. rewrite C1 in Hx. apply (extends_incl _ _ P3). apply C. exact Hx.
      * apply Q. exact P4.
    + destruct (mem p (cache s1)) eqn:Mc.
      * unfold cpost, kinv; cbn [trace cache unlock note set_loading fin]. rewrite T1, C1. repeat split; auto.
        -- apply extends_refl.
        -- apply Q. apply C. apply mem_In. rewrite <- C1. exact Mc.
      * pose proof (B KUse s1 eq_refl) as P. rewrite C1, T1 in P. specialize (P C).
        destruct (exec_file _ _ KUse p id _) as [s2|e s2|]; auto.
        destruct P as (P1 & P2 & P3 & P4). unfold cpost, kinv; cbn [trace cache unlock add_cache set_cache set_loading].
        repeat split; auto.
        -- intros x [<-|Hx]; [exact P4|apply P2; exact Hx].
        -- apply Q. exact P4.
    + destruct (mem p (cache s1)) eqn:Mc.
      * unfold cpost, kinv; cbn [trace cache unlock note set_loading fin]. rewrite T1, C1. repeat split; auto.
        -- apply extends_refl.
        -- apply Q. apply C. apply mem_In. rewrite <- C1. exact Mc.
      * pose proof (B KForward s1 eq_refl) as P. rewrite C1, T1 in P. specialize (P C).
        destruct (exec_file _ _ KForward p id _) as [s2|e s2|]; auto.
        destruct P as (P1 & P2 & P3 & P4). unfold cpost, kinv; cbn [trace cache unlock add_cache set_cache set_loading].
        repeat split; auto.
        -- intros x [<-|Hx]; [exact P4|apply P2; exact Hx].
        -- apply Q. exact P4.
    + pose proof (B KLoadCss s1 eq_refl) as P. rewrite C1, T1 in P. specialize (P C).
      destruct (exec_file _ _ KLoadCss p id _) as [s2|e s2|]; auto.
      destruct P as (P1 & P2 & P3 & P4). unfold cpost, kinv; cbn [trace cache unlock set_loading]. repeat split; auto.
      apply Q. exact P4.
  - destruct F as (L & C1 & T1 & R). destruct K as (O & C).
    destruct (is_import k && plain_css u unq); [|exact I].
    unfold cpost, kinv; cbn [trace cache push_import]. rewrite T1, C1. repeat split; auto.
    + apply extends_refl.
    + intros q id Hq. rewrite R in Hq. discriminate.
Qed.

Lemma in_split_last (x : string) l : In x l -> exists l1 l2, l = l1 ++ x :: l2 /\ ~ In x l2.
Proof.
  induction l as [|a r IH]; [intros []|]. intros H.
  destruct (in_dec string_dec x r) as [Hr|Hr].
  - destruct (IH Hr) as (l1 & l2 & -> & N). exists (a :: l1), l2. auto.
  - destruct H as [->|H]; [|contradiction]. exists [], r. auto.
Qed.

(* descendants of a finished file finished strictly earlier *)
Lemma ordered_desc l : ordered l ->
  forall n l1 p l2, List.length l2 <= n -> l = l1 ++ p :: l2 -> ~ In p l2 ->
    forall q, clos_trans _ nedge p q -> In q l2.
Proof.
  intros O n. induction n as [|n IH]; intros l1 p l2 Hn E Np q Hq.
  - destruct l2; [|cbn in Hn; lia]. apply clos_trans_t1n in Hq. destruct Hq as [y Hy|y z Hy _];
      exact (O l1 p [] E Np y Hy).
  - apply clos_trans_t1n in Hq. destruct Hq as [y Hy|y z Hy Hrest].
    + exact (O l1 p l2 E Np y Hy).
    + pose proof (O l1 p l2 E Np y Hy) as Hin.
      apply in_split_last in Hin as (m1 & m2 & -> & Ny).
      assert (Hz : In z m2).
      { apply (IH (l1 ++ p :: m1) y m2).
        - rewrite app_length in Hn. cbn in Hn. lia.
        - rewrite E. rewrite <- app_assoc. reflexivity.
        - exact Ny.
        - apply clos_t1n_trans. exact Hrest. }
      apply in_or_app. right. right. exact Hz.
Qed.

Lemma ordered_acyclic l : ordered l -> forall p, In p l -> ~ clos_trans _ nedge p p.
Proof.
  intros O p Hp C. apply in_split_last in Hp as (l1 & l2 & E & N).
  apply N. eapply (ordered_desc l O (List.length l2)); eauto.
Qed.

(* css is returned only if nothing reachable from the root lies on a cycle of the load graph *)
Theorem ok_acyclic fuel rootid s :
  lookup root = Some rootid ->
  run orc content fuel root rootid = ROk s ->
  forall p, clos_refl_trans _ nedge root p -> ~ clos_trans _ nedge p p.
Proof.
  intros Hl H p Hp. unfold run in H.
  assert (K0 : kinv (st0 root)).
  { split; [|intros x []]. intros l1 x l2 E. destruct l1; discriminate. }
  pose proof (exec_file_cpost _ (load_cpost fuel) KImport root rootid (st0 root) K0 Hl) as P.
  destruct (exec_file _ _ KImport root rootid _) as [s2|e s2|]; [|discriminate|discriminate].
  destruct P as (O & _ & _ & Hr & _).
  assert (In p (fin (trace s2))).
  { apply clos_rt_rtn1 in Hp. destruct Hp as [|y z Hy Hrest]; [exact Hr|].
    apply in_split_last in Hr as (l1 & l2 & E & N).
    assert (Hz : In z l2).
    { eapply (ordered_desc _ O (List.length l2)); eauto.
      apply clos_rtn1_rt in Hrest. eapply rt_t_step; eauto. }
    rewrite E. apply in_or_app. right. right. exact Hz. }
  eapply ordered_acyclic; eauto.
Qed.

(* ================= termination ================= *)

Variable U : list string.                       (* the names the loader knows: a finite file set *)
Hypothesis finite : forall p id, lookup p = Some id -> In p U.

Definition room (f : nat) (s : state) : Prop := List.length U + 2 <= f + List.length (loading s).

Definition tpost (s : state) (r : res) : Prop :=
  match r with RFuel => False | ROk s' => loading s' = loading s | RErr _ _ => True end.

Definition tspec (f : nat) (loadf : bool -> string -> kind -> string -> state -> res) : Prop :=
  forall unq cur k u s, NoDup (loading s) -> incl (loading s) (root :: U) -> room f s ->
    tpost s (loadf unq cur k u s).

Lemma exec_body_tpost f loadf : tspec f loadf ->
  forall b cur s, NoDup (loading s) -> incl (loading s) (root :: U) -> room f s ->
    tpost s (exec_body loadf cur b s).
Proof.
  intros HL b. induction b as [|d r IH]; intros cur s N I R; cbn [exec_body]; [reflexivity|].
  assert (Step : forall unq k u,
            tpost s (match loadf unq cur k u s with ROk s' => exec_body loadf cur r s' | e => e end)).
  { intros unq k u. pose proof (HL unq cur k u s N I R) as P.
    destruct (loadf unq cur k u s) as [s1|e s1|]; auto. cbn in P.
    assert (R1 : room f s1) by (unfold room in *; rewrite P; exact R).
    specialize (IH cur s1). rewrite P in IH. specialize (IH N I R1).
    unfold tpost in *. destruct (exec_body loadf cur r s1); auto. congruence. }
  destruct d as [k u|x|m]; [apply Step|apply Step|].
  apply (IH cur (emit m s)); assumption.
Qed.

Lemma load_tpost f : tspec f (load orc content f).
Proof.
  induction f as [|f IH]; intros unq cur k u s N I R.
  - exfalso. unfold room in R. pose proof (NoDup_incl_length N I) as L. cbn in L, R. lia.
  - cbn [load]. pose proof (find_file_cases cur k u s) as F.
    destruct (find_file orc cur k u s) as [p id s1|s1|e s1]; [| |exact Logic.I].
    + destruct F as (L1 & M & C1 & T1 & Rn).
      assert (Hlp : lookup p = Some id) by (eapply resolve_name_lookup; eauto).
      assert (B : forall kk s0, loading s0 = loading s1 ->
                tpost s0 (exec_file content (load orc content f) kk p id s0)).
      { intros kk s0 E. unfold exec_file.
        pose proof (exec_body_tpost f _ IH (content id) p (note (EvBody kk p id) s0)) as P.
        cbn [loading note] in P. rewrite E, L1 in P.
        assert (N1 : NoDup (p :: loading s)).
        { constructor; [|exact N]. intros Hin. apply mem_In in Hin. congruence. }
        assert (I1 : incl (p :: loading s) (root :: U)).
        { intros x [<-|Hx]; [right; eapply finite; eauto|apply I; exact Hx]. }
        assert (R1 : room f (note (EvBody kk p id) s0)).
        { unfold room in *. cbn [loading note]. rewrite E, L1. cbn. lia. }
        specialize (P N1 I1 R1).
        destruct (exec_body _ p (content id) _); cbn in P |- *; auto. }
      destruct k.
      * pose proof (B KImport (set_cache [] s1) eq_refl) as P.
        destruct (exec_file _ _ KImport p id _); cbn in P |- *; auto. rewrite P, L1. apply remove1_head. exact M.
      * destruct (mem p (cache s1)); [cbn; rewrite L1; apply remove1_head; exact M|].
        pose proof (B KUse s1 eq_refl) as P.
        destruct (exec_file _ _ KUse p id _); cbn in P |- *; auto. rewrite P, L1. apply remove1_head. exact M.
      * destruct (mem p (cache s1)); [cbn; rewrite L1; apply remove1_head; exact M|].
        pose proof (B KForward s1 eq_refl) as P.
        destruct (exec_file _ _ KForward p id _); cbn in P |- *; auto. rewrite P, L1. apply remove1_head. exact M.
      * pose proof (B KLoadCss s1 eq_refl) as P.
        destruct (exec_file _ _ KLoadCss p id _); cbn in P |- *; auto. rewrite P, L1. apply remove1_head. exact M.
    + destruct F as (L & _). destruct (is_import k && plain_css u unq); cbn; auto.
Qed.

(* |U|+1 nested loads are always enough: the compilation terminates *)
Theorem terminates rootid : run orc content (S (List.length U)) root rootid <> RFuel.
Proof.
  unfold run, exec_file.
  pose proof (exec_body_tpost _ _ (load_tpost (S (List.length U))) (content rootid) root
                (note (EvBody KImport root rootid) (st0 root))) as P.
  cbn [loading note st0] in P.
  assert (N : NoDup [root]) by (constructor; [intros []|constructor]).
  assert (I : incl [root] (root :: U)) by (intros x [<-|[]]; left; reflexivity).
  assert (R : room (S (List.length U)) (note (EvBody KImport root rootid) (st0 root))).
  { unfold room. cbn. lia. }
  specialize (P N I R).
  destruct (exec_body _ root (content rootid) _); cbn in P |- *; [discriminate|discriminate|contradiction].
Qed.

(* loop completeness: a cycle reachable from the root is reported as an error, never absorbed into
   css and never a divergence *)
Theorem loop_complete rootid p :
  lookup root = Some rootid ->
  clos_refl_trans _ nedge root p -> clos_trans _ nedge p p ->
  exists e s, run orc content (S (List.length U)) root rootid = RErr e s.
Proof.
  intros Hl Hr Hc. destruct (run orc content (S (List.length U)) root rootid) as [s|e s|] eqn:E.
  - exfalso. exact (ok_acyclic _ rootid s Hl E p Hr Hc).
  - eauto.
  - exfalso. exact (terminates rootid E).
Qed.

(* ================= ranked graphs (kept from before the fixes) ================= *)

Variable rank : string -> nat.
Hypothesis ranked : forall c p, nedge c p -> rank p < rank c.

Lemma ranked_trans a b : clos_trans _ nedge a b -> rank b < rank a.
Proof. induction 1; [auto|lia]. Qed.

Theorem acyclic_no_loop fuel rootid m s :
  lookup root = Some rootid -> run orc content fuel root rootid <> RErr (ELoop m) s.
Proof.
  intros Hl H. apply loop_sound in H as (p & _ & C); auto. apply ranked_trans in C. lia.
Qed.

End Sound.
