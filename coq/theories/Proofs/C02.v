(* Proofs for C02: the lock set is a subset of the load stack, a loop error exhibits a real cycle,
   ranked (acyclic) graphs terminate without loop errors; refutations of the full statement. *)
From Coq Require Import String List Bool Arith Ascii NArith ZArith Lia Relations.
From RV Require Import Base.ListX Gen.Candidates Model.Load Model.LoadRun.
Import ListNotations.
Local Open Scope string_scope.
Local Open Scope list_scope.

Lemma mem_In x l : mem x l = true <-> In x l.
Proof.
  induction l as [|y r IH]; cbn; [split; [discriminate|intros []]|].
  rewrite orb_true_iff, IH, String.eqb_eq. split; intros [H|H]; auto.
Qed.

Lemma remove1_notin p l : mem p l = false -> remove1 p l = l.
Proof.
  induction l as [|y r IH]; cbn; [reflexivity|]. intros H. apply orb_false_iff in H as [H1 H2].
  rewrite H1. f_equal. auto.
Qed.

Lemma remove1_head p l : mem p l = false -> remove1 p (p :: l) = l.
Proof. intros H. cbn. rewrite String.eqb_refl. apply remove1_notin. exact H. Qed.

Definition dir_load (d : directive) : option (kind * string) :=
  match d with DLoad k u => Some (k, u) | DImportUrl x => Some (KImport, x) | DEmit _ => None end.

Section Sound.
Variable lookup : string -> option string.     (* any deterministic loader *)
Variable content : string -> body.             (* any world *)
Let orc := orc_of lookup.

(* what the candidate loop finds: the first name the loader has *)
Definition resolve_name (names : list string) : option (string * string) :=
  first_some (fun n => option_map (fun id => (n, id)) (lookup n)) names.

Lemma resolve_name_lookup names p id : resolve_name names = Some (p, id) -> lookup p = Some id.
Proof.
  induction names as [|a r IH]; cbn; [discriminate|]. destruct (lookup a) eqn:E; cbn.
  - intros H; inversion H; subst. exact E.
  - exact IH.
Qed.

Lemma try_names_found_pure s names p id rd s' :
  try_names orc s names = FFound p id rd s' ->
  resolve_name names = Some (p, id) /\ loading s' = loading s /\ cache s' = cache s.
Proof.
  revert s. induction names as [|a r IH]; intros s; cbn; [discriminate|].
  unfold orc, orc_of at 1. destruct (lookup a) eqn:E; cbn.
  - intros H; inversion H; subst. auto.
  - intros H. apply IH in H as (H1 & H2 & H3). cbn in H2, H3. auto.
Qed.

Lemma try_names_none_pure s names s' :
  try_names orc s names = FNone s' -> loading s' = loading s /\ cache s' = cache s.
Proof.
  revert s. induction names as [|a r IH]; intros s; cbn.
  - intros H; inversion H; auto.
  - unfold orc, orc_of at 1. destruct (lookup a); [discriminate|]. intros H. apply IH in H as [H1 H2]. auto.
Qed.

(* the load graph over the names files are known by *)
Definition nedge (c p : string) : Prop :=
  exists idc d k u id, lookup c = Some idc /\ In d (content idc) /\ dir_load d = Some (k, u) /\
    resolve_name (find_names c k u) = Some (p, id).

Variable root : string.

(* a load stack: innermost first, every frame loaded by a directive of the frame below *)
Inductive chain : list string -> Prop :=
| chain_root : chain [root]
| chain_step c st p : chain (c :: st) -> nedge c p -> chain (p :: c :: st).

Definition cycle_witness : Prop :=
  exists st c p, chain (c :: st) /\ In p (c :: st) /\ nedge c p.

Definition post (s : state) (r : res) : Prop :=
  match r with
  | ROk s' => loading s' = loading s
  | RErr (ELoop _) _ => cycle_witness
  | _ => True
  end.

Definition spec_load (loadf : bool -> string -> kind -> string -> state -> res) : Prop :=
  forall unq st cur idc d k u s,
    chain (cur :: st) -> incl (loading s) (cur :: st) -> lookup cur = Some idc ->
    In d (content idc) -> dir_load d = Some (k, u) ->
    post s (loadf unq cur k u s).

Lemma find_file_cases cur k u s :
  match find_file orc cur k u s with
  | LFile p id s1 => loading s1 = p :: loading s /\ mem p (loading s) = false
                     /\ resolve_name (find_names cur k u) = Some (p, id)
  | LNone s1 => loading s1 = loading s
  | LErr (ELoop _) _ => exists p id, resolve_name (find_names cur k u) = Some (p, id)
                                     /\ mem p (loading s) = true
  | LErr _ _ => True
  end.
Proof.
  unfold find_file. destruct (try_names orc s _) as [p id rd s1|s1|s1] eqn:T; [| |exact I].
  - apply try_names_found_pure in T as (R & L & _).
    destruct (negb (known_format p)); [exact I|]. destruct (negb rd); [exact I|].
    destruct (mem p (loading s1)) eqn:M; rewrite L in M.
    + exists p, id. auto.
    + cbn. rewrite L. auto.
  - apply try_names_none_pure in T as [L _]. exact L.
Qed.

Lemma exec_body_post loadf : spec_load loadf ->
  forall b st cur idc s,
    chain (cur :: st) -> incl (loading s) (cur :: st) -> lookup cur = Some idc ->
    (forall d, In d b -> In d (content idc)) ->
    post s (exec_body loadf cur b s).
Proof.
  intros HL b. induction b as [|d r IH]; intros st cur idc s Hc Hi Hl Hb; cbn [exec_body].
  - reflexivity.
  - assert (Hr : forall d0, In d0 r -> In d0 (content idc)) by (intros; apply Hb; right; assumption).
    destruct d as [k u|x|m].
    + pose proof (HL false st cur idc (DLoad k u) k u s Hc Hi Hl (Hb _ (or_introl eq_refl)) eq_refl) as P.
      destruct (loadf false cur k u s) as [s'|e s'|]; cbn in P; auto.
      specialize (IH st cur idc s' Hc). rewrite P in IH. specialize (IH Hi Hl Hr).
      unfold post in *. destruct (exec_body loadf cur r s'); auto. congruence.
    + pose proof (HL true st cur idc (DImportUrl x) KImport x s Hc Hi Hl (Hb _ (or_introl eq_refl)) eq_refl) as P.
      destruct (loadf true cur KImport x s) as [s'|e s'|]; cbn in P; auto.
      specialize (IH st cur idc s' Hc). rewrite P in IH. specialize (IH Hi Hl Hr).
      unfold post in *. destruct (exec_body loadf cur r s'); auto. congruence.
    + specialize (IH st cur idc (emit m s) Hc Hi Hl Hr). exact IH.
Qed.

Lemma load_post fuel : spec_load (load orc content fuel).
Proof.
  induction fuel as [|f IH]; intros unq st cur idc d k u s Hc Hi Hl Hd Hk; cbn [load]; [exact I|].
  pose proof (find_file_cases cur k u s) as F.
  destruct (find_file orc cur k u s) as [p id s1|s1|e s1].
  - destruct F as (L1 & M & R).
    assert (Hedge : nedge cur p) by (exists idc, d, k, u, id; auto).
    assert (Hc' : chain (p :: cur :: st)) by (constructor; assumption).
    assert (Hlp : lookup p = Some id) by (eapply resolve_name_lookup; eauto).
    assert (Hb : forall d0, In d0 (content id) -> In d0 (content id)) by auto.
    assert (Hi1 : incl (p :: loading s) (p :: cur :: st)).
    { intros x [<-|Hx]; [left; reflexivity|right; apply Hi; exact Hx]. }
    assert (Hi2 : incl (loading s) (p :: cur :: st)) by (intros x Hx; right; apply Hi; exact Hx).
    destruct k.
    + (* import *)
      pose proof (exec_body_post _ IH (content id) (cur :: st) p id
                    (note (EvBody KImport p id) (set_cache [] s1)) Hc') as P.
      cbn [loading note set_cache] in P. rewrite L1 in P. specialize (P Hi1 Hlp Hb).
      destruct (exec_body _ p (content id) _) as [s2|e s2|]; cbn in P |- *; auto.
      rewrite P; cbn [loading note set_cache]; rewrite L1. apply remove1_head. exact M.
    + (* use *)
      destruct (mem p (cache s1)).
      * cbn. rewrite L1. apply remove1_head. exact M.
      * pose proof (exec_body_post _ IH (content id) (cur :: st) p id (note (EvBody KUse p id) s1) Hc') as P.
        cbn [loading note] in P. rewrite L1 in P. specialize (P Hi1 Hlp Hb).
        destruct (exec_body _ p (content id) _) as [s2|e s2|]; cbn in P |- *; auto.
        rewrite P; cbn [loading note set_cache]; rewrite L1. apply remove1_head. exact M.
    + (* forward *)
      destruct (mem p (cache s1)).
      * cbn. rewrite L1. apply remove1_head. exact M.
      * pose proof (exec_body_post _ IH (content id) (cur :: st) p id (note (EvBody KForward p id) s1) Hc') as P.
        cbn [loading note] in P. rewrite L1 in P. specialize (P Hi1 Hlp Hb).
        destruct (exec_body _ p (content id) _) as [s2|e s2|]; cbn in P |- *; auto.
        rewrite P; cbn [loading note set_cache]; rewrite L1. apply remove1_head. exact M.
    + (* load-css: unlocked before the body runs *)
      pose proof (exec_body_post _ IH (content id) (cur :: st) p id
                    (note (EvBody KLoadCss p id) (unlock p s1)) Hc') as P.
      cbn [loading note unlock set_loading] in P. rewrite L1, (remove1_head p _ M) in P.
      specialize (P Hi2 Hlp Hb).
      destruct (exec_body _ p (content id) _) as [s2|e s2|]; [|exact P|exact P].
      cbn [post loading note unlock set_loading] in P |- *. rewrite P, L1. apply remove1_head. exact M.
  - destruct (is_import k && plain_css u unq); cbn; auto.
  - destruct e; cbn; auto. destruct F as (p & id & R & M).
    exists st, cur, p. repeat split; auto.
    + apply Hi. apply mem_In. exact M.
    + exists idc, d, k, u, id. auto.
Qed.

Lemma run_post fuel rootid :
  lookup root = Some rootid ->
  match run orc content fuel root rootid with
  | RErr (ELoop _) _ => cycle_witness
  | _ => True
  end.
Proof.
  intros Hl. unfold run.
  pose proof (exec_body_post _ (load_post fuel) (content rootid) [] root rootid
                (note (EvBody KImport root rootid) (st0 root)) chain_root) as P.
  cbn [loading note st0] in P. specialize (P (fun x H => H) Hl (fun d H => H)).
  destruct (exec_body _ root (content rootid) _) as [s|e s|]; cbn in P |- *; auto.
Qed.

(* a cycle witness is a cycle of the load graph that is reachable from the root *)
Lemma chain_reach l : chain l ->
  match l with
  | c :: st => forall x, In x (c :: st) ->
                 clos_refl_trans _ nedge root x /\ clos_refl_trans _ nedge x c
  | [] => True
  end.
Proof.
  induction 1 as [|c st p Hc IH He].
  - intros x [<-|[]]. split; apply rt_refl.
  - intros x [<-|Hx].
    + split; [|apply rt_refl]. destruct (IH c (or_introl eq_refl)) as [R _].
      eapply rt_trans; [exact R|apply rt_step; exact He].
    + destruct (IH x Hx) as [R1 R2]. split; auto. eapply rt_trans; [exact R2|apply rt_step; exact He].
Qed.

Lemma rt_t_step {A} (R : relation A) x y z : clos_refl_trans _ R x y -> R y z -> clos_trans _ R x z.
Proof.
  intros H. apply clos_rt_rt1n in H. induction H.
  - intros; apply t_step; assumption.
  - intros Hz. eapply t_trans; [apply t_step; eassumption|auto].
Qed.

Lemma witness_cycle : cycle_witness ->
  exists p, clos_refl_trans _ nedge root p /\ clos_trans _ nedge p p.
Proof.
  intros (st & c & p & Hc & Hin & He). pose proof (chain_reach _ Hc p Hin) as [R1 R2].
  exists p. split; auto. eapply rt_t_step; eauto.
Qed.

Theorem loop_sound fuel rootid m s :
  lookup root = Some rootid ->
  run orc content fuel root rootid = RErr (ELoop m) s ->
  exists p, clos_refl_trans _ nedge root p /\ clos_trans _ nedge p p.
Proof.
  intros Hl H. pose proof (run_post fuel rootid Hl) as P. rewrite H in P. apply witness_cycle. exact P.
Qed.

(* a successful load leaves the lock set as it found it *)
Theorem ok_restores_locks fuel unq st cur idc d k u s s' :
  chain (cur :: st) -> incl (loading s) (cur :: st) -> lookup cur = Some idc ->
  In d (content idc) -> dir_load d = Some (k, u) ->
  load orc content fuel unq cur k u s = ROk s' -> loading s' = loading s.
Proof.
  intros Hc Hi Hl Hd Hk H. pose proof (load_post fuel unq st cur idc d k u s Hc Hi Hl Hd Hk) as P.
  rewrite H in P. exact P.
Qed.

(* ---------- ranked (acyclic) graphs ---------- *)

Variable rank : string -> nat.
Hypothesis ranked : forall c p, nedge c p -> rank p < rank c.

Lemma ranked_trans a b : clos_trans _ nedge a b -> rank b < rank a.
Proof. induction 1; [auto|lia]. Qed.

Theorem acyclic_no_loop fuel rootid m s :
  lookup root = Some rootid -> run orc content fuel root rootid <> RErr (ELoop m) s.
Proof.
  intros Hl H. apply loop_sound in H as (p & _ & C); auto. apply ranked_trans in C. lia.
Qed.

Definition no_fuel_load (bound : nat) (loadf : bool -> string -> kind -> string -> state -> res) : Prop :=
  forall unq cur idc d k u s,
    lookup cur = Some idc -> In d (content idc) -> dir_load d = Some (k, u) -> rank cur < bound ->
    loadf unq cur k u s <> RFuel.

Lemma exec_body_no_fuel bound loadf : no_fuel_load bound loadf ->
  forall b cur idc s, lookup cur = Some idc -> (forall d, In d b -> In d (content idc)) -> rank cur < bound ->
    exec_body loadf cur b s <> RFuel.
Proof.
  intros HL b. induction b as [|d r IH]; intros cur idc s Hl Hb Hr; cbn [exec_body]; [discriminate|].
  assert (Hrr : forall d0, In d0 r -> In d0 (content idc)) by (intros; apply Hb; right; assumption).
  destruct d as [k u|x|m].
  - pose proof (HL false cur idc (DLoad k u) k u s Hl (Hb _ (or_introl eq_refl)) eq_refl Hr) as P.
    destruct (loadf false cur k u s); [eapply IH; eauto|discriminate|congruence].
  - pose proof (HL true cur idc (DImportUrl x) KImport x s Hl (Hb _ (or_introl eq_refl)) eq_refl Hr) as P.
    destruct (loadf true cur KImport x s); [eapply IH; eauto|discriminate|congruence].
  - eapply IH; eauto.
Qed.

Lemma load_no_fuel fuel : no_fuel_load fuel (load orc content fuel).
Proof.
  induction fuel as [|f IH]; intros unq cur idc d k u s Hl Hd Hk Hr; [lia|]. cbn [load].
  pose proof (find_file_cases cur k u s) as F.
  destruct (find_file orc cur k u s) as [p id s1|s1|e s1]; [|destruct (is_import k && plain_css u unq); discriminate|discriminate].
  destruct F as (_ & _ & R).
  assert (Hedge : nedge cur p) by (exists idc, d, k, u, id; auto).
  assert (Hlp : lookup p = Some id) by (eapply resolve_name_lookup; eauto).
  assert (Hrp : rank p < f) by (apply ranked in Hedge; lia).
  assert (B : forall s0, exec_body (load orc content f) p (content id) s0 <> RFuel)
    by (intros s0; eapply exec_body_no_fuel; eauto).
  destruct k.
  - specialize (B (note (EvBody KImport p id) (set_cache [] s1))). destruct (exec_body _ p _ _); congruence.
  - destruct (mem p (cache s1)); [discriminate|].
    specialize (B (note (EvBody KUse p id) s1)). destruct (exec_body _ p _ _); congruence.
  - destruct (mem p (cache s1)); [discriminate|].
    specialize (B (note (EvBody KForward p id) s1)). destruct (exec_body _ p _ _); congruence.
  - apply B.
Qed.

Theorem acyclic_terminates fuel rootid :
  lookup root = Some rootid -> rank root < fuel -> run orc content fuel root rootid <> RFuel.
Proof.
  intros Hl Hr. unfold run.
  pose proof (exec_body_no_fuel fuel _ (load_no_fuel fuel) (content rootid) root rootid
                (note (EvBody KImport root rootid) (st0 root)) Hl (fun d H => H) Hr) as P.
  destruct (exec_body _ root _ _); congruence.
Qed.

End Sound.

(* ---------- the full statement is false: two witnesses ---------- *)

(* F6: a file loaded by meta.load-css that load-css'es itself is unlocked before its body runs *)
Definition w_loadcss : world :=
  [("t.scss", [DLoad KLoadCss "a"]); ("a.scss", [DLoad KLoadCss "a"])].

Lemma loadcss_step n : forall s, loading s = ["t.scss"] ->
  load (mem_oracle w_loadcss NoFault) (assoc_body w_loadcss) n false "a.scss" KLoadCss "a" s = RFuel.
Proof.
  induction n as [|n IH]; intros s Hs; [reflexivity|].
  destruct s as [l c o i cl tr]. cbn in Hs. subst l.
  cbn [load]. unfold find_file.
  change (find_names "a.scss" KLoadCss "a")
    with (ltac:(let v := eval vm_compute in (find_names "a.scss" KLoadCss "a") in exact v)).
  cbn. rewrite IH; reflexivity.
Qed.

Lemma refuted_loadcss : forall n,
  run (mem_oracle w_loadcss NoFault) (assoc_body w_loadcss) n "t.scss" "t.scss" = RFuel.
Proof.
  intros [|n]; [reflexivity|]. unfold run. cbn [assoc_body w_loadcss String.eqb Ascii.eqb Bool.eqb exec_body].
  cbn [load]. unfold find_file.
  change (find_names "t.scss" KLoadCss "a")
    with (ltac:(let v := eval vm_compute in (find_names "t.scss" KLoadCss "a") in exact v)).
  cbn. rewrite loadcss_step; reflexivity.
Qed.

(* F5: `@import "./t"` in t.scss: the key grows (./t.scss, ././t.scss, ..), no loop error *)
Definition w_spelling : world := [("t.scss", [DLoad KImport "./t"])].

Definition is_fuel (r : res) : bool := match r with RFuel => true | _ => false end.

Lemma refuted_spelling_bounded :
  forallb (fun n => is_fuel (run (oracle_of w_spelling MNorm) (assoc_body w_spelling) n "t.scss" "t.scss")) (seq 0 41) = true.
Proof. vm_compute. reflexivity. Qed.

Lemma refuted_spelling_partial : forall n, n <= 40 ->
  run (oracle_of w_spelling MNorm) (assoc_body w_spelling) n "t.scss" "t.scss" = RFuel.
Proof.
  intros n Hn. pose proof (sweep1 _ _ refuted_spelling_bounded n) as H.
  assert (Hin : In n (seq 0 41)) by (apply in_seq; lia). specialize (H Hin). cbv beta in H.
  destruct (run _ _ n _ _); try discriminate. reflexivity.
Qed.

(* F5 for EVERY fuel: the key of the k-th nested load is (./)^k t.scss, never locked before *)
Fixpoint dots (k : nat) : string := match k with O => "" | S k' => ("./" ++ dots k')%string end.
Definition key (k : nat) : string := (dots k ++ "t.scss")%string.

Lemma split_dir_dot r : split_dir ("./" ++ r)%string = (("./" ++ fst (split_dir r))%string, snd (split_dir r)).
Proof.
  cbn [append split_dir]. destruct (split_dir r) as [b n]. cbn [fst snd].
  destruct (String.eqb b "") eqn:E.
  - apply String.eqb_eq in E. subst b. reflexivity.
  - cbn. reflexivity.
Qed.

Lemma split_dir_dots m x : split_dir (dots m ++ x)%string = ((dots m ++ fst (split_dir x))%string, snd (split_dir x)).
Proof.
  induction m as [|m IH]; cbn [dots append].
  - destruct (split_dir x); reflexivity.
  - change (String "." (String "/" (dots m ++ x)%string)) with ("./" ++ (dots m ++ x))%string.
    rewrite split_dir_dot, IH. reflexivity.
Qed.

Lemma segments_dot r : segments ("./" ++ r)%string = "." :: segments r.
Proof. reflexivity. Qed.

Lemma isfile_dot files r : fs_isfile files ("./" ++ r)%string = fs_isfile files r.
Proof. unfold fs_isfile. rewrite segments_dot. reflexivity. Qed.

Lemma isfile_dots files m x : fs_isfile files (dots m ++ x)%string = fs_isfile files x.
Proof.
  induction m as [|m IH]; cbn [dots append]; [reflexivity|].
  change (String "." (String "/" (dots m ++ x)%string)) with ("./" ++ (dots m ++ x))%string.
  rewrite isfile_dot. exact IH.
Qed.

Lemma dots_shift k x : (dots k ++ "./" ++ x)%string = (dots (S k) ++ x)%string.
Proof.
  induction k as [|k IH]; [reflexivity|].
  cbn [dots append] in *. rewrite IH. reflexivity.
Qed.

Lemma length_dots k x : String.length (dots k ++ x)%string = 2 * k + String.length x.
Proof. induction k as [|k IH]; cbn [dots append String.length]; [reflexivity|]. rewrite IH. lia. Qed.

Lemma key_neq j k : j <= k -> key (S k) <> key j.
Proof.
  intros H E. apply (f_equal String.length) in E. unfold key in E. rewrite !length_dots in E. lia.
Qed.

Lemma mem_false p l : (forall x, In x l -> x <> p) -> mem p l = false.
Proof.
  induction l as [|y r IH]; intros H; cbn; [reflexivity|].
  rewrite IH by (intros; apply H; right; assumption).
  assert (p <> y) by (intros ->; apply (H y); [left; reflexivity|reflexivity]).
  apply String.eqb_neq in H0. rewrite H0. reflexivity.
Qed.

Lemma ends_with_cons c r suf : ends_with r suf = true -> ends_with (String c r) suf = true.
Proof. intros H. cbn [ends_with]. destruct (String.eqb (String c r) suf); [reflexivity|exact H]. Qed.

Lemma ends_with_dots_true m x suf : ends_with x suf = true -> ends_with (dots m ++ x)%string suf = true.
Proof.
  intros H. induction m as [|m IH]; cbn [dots append]; [exact H|].
  apply ends_with_cons, ends_with_cons. exact IH.
Qed.

Lemma not_direct m : is_direct (dots m ++ "t")%string = false.
Proof.
  unfold is_direct. cbn [direct_suffixes existsb].
  induction m as [|m IH]; [reflexivity|].
  cbn [dots append]. cbn [ends_with String.eqb Ascii.eqb Bool.eqb andb]. exact IH.
Qed.

Definition files_t : list string := ["t.scss"].
Definition lk (u : string) : option string := fs_lookup files_t [""] u.

Lemma lk_dots m x : x <> "" -> lk (dots m ++ x)%string = fs_isfile files_t x.
Proof.
  intros Hx. unfold lk, fs_lookup, fs_find.
  assert (E : String.eqb (dots m ++ x)%string "" = false).
  { apply String.eqb_neq. intros E. apply (f_equal String.length) in E. rewrite length_dots in E.
    destruct x; [congruence|cbn in E; lia]. }
  rewrite E. cbn [first_some join String.eqb]. rewrite isfile_dots. destruct (fs_isfile files_t x); reflexivity.
Qed.

Definition suffixes : list string :=
  ["t.import.scss"; "_t.import.scss"; "t.scss"; "_t.scss"; "t/index.import.scss"; "t/_index.import.scss";
   "t/index.scss"; "t/_index.scss"; "t.css"; "_t.css"].

Lemma app_nil_r_str (s : string) : (s ++ "")%string = s.
Proof. induction s; cbn; congruence. Qed.

Lemma probe_key k :
  exists rest, find_names (key k) KImport "./t" = map (fun suf => (dots (S k) ++ suf)%string) suffixes ++ rest.
Proof.
  unfold find_names. eexists. f_equal.
  unfold relative, key. rewrite split_dir_dots. cbn [fst]. change (fst (split_dir "t.scss")) with "".
  rewrite app_nil_r_str. change "./t" with ("./" ++ "t")%string. rewrite (dots_shift k "t").
  unfold probe_names. rewrite not_direct, split_dir_dots.
  change (split_dir "t") with ("", "t"). cbn [fst snd]. rewrite app_nil_r_str.
  reflexivity.
Qed.

Lemma try3 lookup s a b c rest id :
  lookup a = None -> lookup b = None -> lookup c = Some id ->
  try_names (orc_of lookup) s (a :: b :: c :: rest) = FFound c id true (called c (called b (called a s))).
Proof. intros H1 H2 H3. cbn [try_names]. unfold orc_of. rewrite H1, H2, H3. reflexivity. Qed.

Definition inv5 (k : nat) (s : state) : Prop := forall x, In x (loading s) -> exists j, j <= k /\ x = key j.

Lemma find_step k s : inv5 k s ->
  exists s1, find_file (orc_of lk) (key k) KImport "./t" s = LFile (key (S k)) "t.scss" s1
             /\ loading s1 = key (S k) :: loading s.
Proof.
  intros I. unfold find_file. destruct (probe_key k) as [rest ->]. unfold suffixes. cbn [map app].
  rewrite (try3 lk s _ _ _ _ "t.scss").
  - fold (key (S k)).
    assert (K : known_format (key (S k)) = true).
    { unfold known_format, key. rewrite ends_with_dots_true by reflexivity. reflexivity. }
    rewrite K. cbn [negb loading called].
    rewrite mem_false.
    + eexists. split; [reflexivity|]. reflexivity.
    + intros x Hx E. subst x. apply I in Hx as (j & Hj & Ej). exact (key_neq j k Hj Ej).
  - rewrite lk_dots by discriminate. vm_compute. reflexivity.
  - rewrite lk_dots by discriminate. vm_compute. reflexivity.
  - rewrite lk_dots by discriminate. vm_compute. reflexivity.
Qed.

Lemma orc_spelling : oracle_of w_spelling MNorm = orc_of lk.
Proof. reflexivity. Qed.

Lemma diverge n : forall k s, inv5 k s ->
  load (orc_of lk) (assoc_body w_spelling) n false (key k) KImport "./t" s = RFuel.
Proof.
  induction n as [|n IH]; intros k s I; [reflexivity|].
  cbn [load]. destruct (find_step k s I) as (s1 & F & L1). rewrite F.
  change (assoc_body w_spelling "t.scss") with [DLoad KImport "./t"]. cbn [exec_body].
  rewrite (IH (S k)); [reflexivity|].
  intros x Hx. cbn [loading note set_cache] in Hx. rewrite L1 in Hx. destruct Hx as [<-|Hx].
  - exists (S k). split; [lia|reflexivity].
  - apply I in Hx as (j & Hj & ->). exists j. split; [lia|reflexivity].
Qed.

Lemma refuted_spelling_all : forall n,
  run (oracle_of w_spelling MNorm) (assoc_body w_spelling) n "t.scss" "t.scss" = RFuel.
Proof.
  intros n. rewrite orc_spelling. unfold run.
  change (assoc_body w_spelling "t.scss") with [DLoad KImport "./t"]. cbn [exec_body].
  change "t.scss" with (key 0) at 1.
  rewrite diverge; [reflexivity|].
  intros x [<-|[]]. exists 0. split; [lia|reflexivity].
Qed.
