(* C28 proofs: laws of the list-function model and refinement to Spec/SassLists. *)
From Coq Require Import String List NArith ZArith Bool Lia.
From RV Require Import Base.Text Base.ListX Model.CssStr Model.ValueLite Model.ListFns Spec.SassLists Run.C28.
Import ListNotations.
Local Open Scope list_scope.
Local Open Scope Z_scope.

Definition res_to_opt (r : res) : option value := match r with ROk v => Some v | RErr => None end.

(* ---- index_of ---- *)
Lemma index_of_spec n len i :
  index_of n len = Some i <->
  (1 <= n <= Z.of_nat len /\ Z.of_nat i = n - 1) \/ (- Z.of_nat len <= n <= -1 /\ Z.of_nat i = Z.of_nat len + n).
Proof.
  unfold index_of.
  destruct (0 <? n) eqn:A; destruct (n <=? Z.of_nat len) eqn:B; cbn [andb];
  destruct (n <? 0) eqn:C; destruct (- Z.of_nat len <=? n) eqn:D; cbn [andb];
  try apply Z.ltb_lt in A; try apply Z.ltb_ge in A; try apply Z.leb_le in B; try apply Z.leb_gt in B;
  try apply Z.ltb_lt in C; try apply Z.ltb_ge in C; try apply Z.leb_le in D; try apply Z.leb_gt in D;
  split; intros H; try (inversion H; subst; clear H); try lia;
  try (left; split; [lia|]; rewrite Z2Nat.id; lia); try (right; split; [lia|]; rewrite Z2Nat.id; lia);
  try (f_equal; lia).
Qed.

Lemma index_of_lt n len i : index_of n len = Some i -> (i < len)%nat.
Proof. intros H. apply index_of_spec in H. lia. Qed.

Lemma index_of_pos n len : index_of n len = sp_pos n len.
Proof.
  unfold index_of, sp_pos.
  destruct (0 <? n) eqn:A; destruct (1 <=? n) eqn:A'; destruct (n <=? Z.of_nat len) eqn:B;
  destruct (n <? 0) eqn:C; destruct (n <=? -1) eqn:C'; destruct (- Z.of_nat len <=? n) eqn:D; cbn [andb];
  try reflexivity;
  try apply Z.ltb_lt in A; try apply Z.ltb_ge in A; try apply Z.leb_le in A'; try apply Z.leb_gt in A';
  try apply Z.leb_le in B; try apply Z.leb_gt in B; try apply Z.ltb_lt in C; try apply Z.ltb_ge in C;
  try apply Z.leb_le in C'; try apply Z.leb_gt in C'; try apply Z.leb_le in D; try apply Z.leb_gt in D; lia.
Qed.

(* ---- nth ---- *)
Lemma nth_nth_error {A} (l : list A) i d : (i < length l)%nat -> nth_error l i = Some (nth i l d).
Proof. intros H. now apply nth_error_nth'. Qed.

Lemma nth_list l s b n v :
  f_nth (VList l s b) n = ROk v <-> exists i, index_of n (length l) = Some i /\ nth_error l i = Some v.
Proof.
  cbn [f_nth]. destruct (index_of n (length l)) as [i|] eqn:E.
  - assert (L := index_of_lt _ _ _ E). split.
    + intros [= <-]. exists i. split; [reflexivity|now apply nth_nth_error].
    + intros (j & [= <-] & H). rewrite (nth_nth_error l i VNull L) in H. now inversion H.
  - split; [discriminate|]. intros (j & H & _). discriminate.
Qed.

Lemma nth_refines l n : res_to_opt (f_nth l n) = sp_nth l n.
Proof.
  unfold sp_nth. destruct l as [b u sh|s|b| |items s b|m|p]; cbn [f_nth as_list l_items length];
  rewrite <- ?index_of_pos.
  1-4: destruct (index_of n 1) as [i|] eqn:E; [|reflexivity];
       apply index_of_lt in E; destruct i; [reflexivity|lia].
  - destruct (index_of n (length items)) as [i|] eqn:E; [|reflexivity]. cbn.
    symmetry. apply nth_nth_error. eapply index_of_lt; eauto.
  - destruct m as [|kv r].
    + cbn. destruct (index_of n 0) as [i|] eqn:E; [|reflexivity]. apply index_of_lt in E. lia.
    + cbn [l_items]. rewrite map_length. destruct (index_of n (length (kv :: r))) as [i|] eqn:E; [|reflexivity].
      cbn [res_to_opt]. rewrite nth_error_map.
      assert (L := index_of_lt _ _ _ E). destruct (nth_error (kv :: r) i) eqn:F; [reflexivity|].
      apply nth_error_None in F. lia.
  - destruct (index_of n (length p)) as [i|] eqn:E; [|reflexivity]. cbn.
    symmetry. apply nth_nth_error. eapply index_of_lt; eauto.
Qed.

(* ---- set-nth ---- *)
Lemma set_at_split l : forall i x, (i < length l)%nat -> set_at l i x = firstn i l ++ x :: skipn (S i) l.
Proof.
  induction l as [|y r IH]; intros i x H; [cbn in H; lia|]. destruct i; [reflexivity|].
  cbn. f_equal. apply IH. cbn in H. lia.
Qed.

Lemma set_at_length l : forall i x, length (set_at l i x) = length l.
Proof. induction l as [|y r IH]; intros [|i] x; cbn; auto. Qed.

Lemma set_at_same l : forall i x, (i < length l)%nat -> nth_error (set_at l i x) i = Some x.
Proof.
  induction l as [|y r IH]; intros i x H; [cbn in H; lia|]. destruct i; [reflexivity|]. cbn. apply IH. cbn in H. lia.
Qed.

Lemma set_at_other l : forall i j x, i <> j -> nth_error (set_at l i x) j = nth_error l j.
Proof.
  induction l as [|y r IH]; intros i j x H; [destruct i; reflexivity|].
  destruct i, j; cbn; try reflexivity; [congruence|]. apply IH. congruence.
Qed.

Lemma set_nth_law l n x r :
  f_set_nth l n x = ROk r ->
  let '(items, s, b) := get_list l in
  exists i items', index_of n (length items) = Some i /\ r = VList items' s b /\
     length items' = length items /\ nth_error items' i = Some x /\
     (forall j, j <> i -> nth_error items' j = nth_error items j).
Proof.
  unfold f_set_nth. destruct (get_list l) as [[items s] b].
  destruct (index_of n (length items)) as [i|] eqn:E; [|discriminate]. intros [= <-].
  exists i, (set_at items i x). repeat split.
  - apply set_at_length.
  - apply set_at_same. eapply index_of_lt; eauto.
  - intros j Hj. apply set_at_other. congruence.
Qed.

Lemma get_list_as_list l :
  get_list l = (l_items (as_list l), l_sep (as_list l), l_bra (as_list l)).
Proof. destruct l as [b u sh|s|b| |items s b|[|kv r]|p]; reflexivity. Qed.

Lemma set_nth_refines l n x : res_to_opt (f_set_nth l n x) = sp_set_nth l n x.
Proof.
  unfold f_set_nth, sp_set_nth. rewrite get_list_as_list, <- index_of_pos.
  destruct (index_of n (length (l_items (as_list l)))) as [i|] eqn:E; [|reflexivity].
  cbn. f_equal. f_equal. apply set_at_split. eapply index_of_lt; eauto.
Qed.

(* ---- separators ---- *)
Lemma cps_eqb_eq a : forall b, cps_eqb a b = true -> a = b.
Proof.
  unfold cps_eqb. induction a as [|x r IH]; intros [|y s]; cbn; try discriminate; [reflexivity|].
  intros H. apply andb_true_iff in H as [H1 H2]. apply N.eqb_eq in H1. subst. f_equal. now apply IH.
Qed.

Lemma check_separator_refines v : check_separator v = sp_sep_arg v.
Proof.
  unfold check_separator, sp_sep_arg, str_is. destruct v as [b u sh|s|b| |items s b|m|p]; try reflexivity.
  destruct (cps_eqb (s_val s) (bytes_of_string "comma")); [reflexivity|].
  destruct (cps_eqb (s_val s) (bytes_of_string "slash")) eqn:A;
  destruct (cps_eqb (s_val s) (bytes_of_string "space")) eqn:B; try reflexivity.
  apply cps_eqb_eq in A. apply cps_eqb_eq in B. rewrite A in B. discriminate.
Qed.

Lemma first_some2 e s : first_some [e; s] = sep_or_default (osep_or e s).
Proof. destruct e, s; reflexivity. Qed.
Lemma first_some3 e s t : first_some [e; s; t] = sep_or_default (osep_or (osep_or e s) t).
Proof. destruct e, s, t; reflexivity. Qed.

Lemma append_refines l x sepv : res_to_opt (f_append l x sepv) = sp_append l x sepv.
Proof.
  unfold f_append, sp_append. rewrite get_list_as_list, check_separator_refines.
  destruct (sp_sep_arg sepv); [|reflexivity]. cbn. now rewrite first_some2.
Qed.

Lemma join_refines a b sepv brav : res_to_opt (f_join a b sepv brav) = sp_join a b sepv brav.
Proof.
  unfold f_join, sp_join. rewrite !get_list_as_list, check_separator_refines.
  destruct (sp_sep_arg sepv); [|reflexivity]. cbn. rewrite first_some3. f_equal. f_equal.
  unfold str_is. destruct brav as [? ? ?|s|[|]| |? ? ?|?|?]; reflexivity.
Qed.

(* what append and join build, explicitly *)
Lemma append_law l x sepv r :
  f_append l x sepv = ROk r ->
  let '(items, s, b) := get_list l in
  exists e, check_separator sepv = Some e /\
    r = VList (items ++ [x]) (Some match e with Some k => k | None => match s with Some k => k | None => SSpace end end) b.
Proof.
  unfold f_append. destruct (get_list l) as [[items s] b]. destruct (check_separator sepv) as [e|]; [|discriminate].
  intros [= <-]. exists e. split; [reflexivity|]. destruct e, s; reflexivity.
Qed.

Lemma join_law a b sepv brav r :
  f_join a b sepv brav = ROk r ->
  let '(i1, s1, b1) := get_list a in
  let '(i2, s2, _) := get_list b in
  exists e, check_separator sepv = Some e /\
    r = VList (i1 ++ i2)
          (Some match e, s1, s2 with
                | Some k, _, _ => k | None, Some k, _ => k | None, None, Some k => k | None, None, None => SSpace end)
          (if str_is brav "auto" then b1 else is_true brav).
Proof.
  unfold f_join. destruct (get_list a) as [[i1 s1] b1]. destruct (get_list b) as [[i2 s2] b2].
  destruct (check_separator sepv) as [e|]; [|discriminate].
  intros [= <-]. exists e. split; [reflexivity|]. destruct e, s1, s2; reflexivity.
Qed.

(* ---- index ---- *)
Lemma position_first l x : forall k, position l x k = option_map (fun i => (k + i)%nat) (first_pos l x).
Proof.
  induction l as [|y r IH]; intros k; cbn; [reflexivity|]. destruct (veq y x); cbn.
  - f_equal. lia.
  - rewrite IH. destruct (first_pos r x); cbn; [f_equal; lia|reflexivity].
Qed.

Lemma first_pos_spec l x i :
  first_pos l x = Some i <->
  (exists y, nth_error l i = Some y /\ veq y x = true) /\
  (forall j y, (j < i)%nat -> nth_error l j = Some y -> veq y x = false).
Proof.
  revert i. induction l as [|z r IH]; intros i; cbn.
  - split; [discriminate|]. intros [(y & H & _) _]. destruct i; discriminate.
  - destruct (veq z x) eqn:E.
    + split.
      * intros [= <-]. split; [exists z; auto|]. intros j y Hj. lia.
      * intros [(y & H & Hy) Hm]. destruct i; [reflexivity|]. specialize (Hm O z (Nat.lt_0_succ _) eq_refl). congruence.
    + destruct i as [|i].
      * split.
        -- destruct (first_pos r x); cbn; discriminate.
        -- intros [(y & H & Hy) _]. cbn in H. congruence.
      * assert (Q : option_map S (first_pos r x) = Some (S i) <-> first_pos r x = Some i).
        { destruct (first_pos r x); cbn; split; congruence. }
        rewrite Q, IH. split.
        -- intros [(y & H & Hy) Hm]. split; [exists y; auto|].
           intros [|j] w Hj Hw; cbn in Hw; [congruence|]. eapply Hm; [|eauto]. lia.
        -- intros [(y & H & Hy) Hm]. split; [exists y; auto|].
           intros j w Hj Hw. apply (Hm (S j) w); [lia|exact Hw].
Qed.

Lemma first_pos_none l x : first_pos l x = None <-> (forall y, In y l -> veq y x = false).
Proof.
  induction l as [|z r IH]; cbn; [split; [intros _ y []|reflexivity]|].
  destruct (veq z x) eqn:E.
  - split; [discriminate|]. intros H. rewrite (H z) in E; [discriminate|now left].
  - destruct (first_pos r x); cbn.
    + split; [discriminate|]. intros H. assert (X : Some n = None) by (apply IH; intros; apply H; now right). discriminate.
    + split; [|reflexivity]. intros _ y [<-|Hy]; [exact E|]. now apply IH.
Qed.

Lemma v_of_pos_first l x :
  v_of_pos (position l x O) = match first_pos l x with Some i => v_int (Z.of_nat i + 1) | None => VNull end.
Proof.
  rewrite position_first. destruct (first_pos l x); cbn [option_map v_of_pos]; [|reflexivity].
  f_equal. lia.
Qed.

(* index on a list is the reference index *)
Lemma index_list_refines items s b x : f_index (VList items s b) x = ROk (sp_index (VList items s b) x).
Proof. cbn [f_index]. unfold sp_index. cbn [as_list l_items]. now rewrite v_of_pos_first. Qed.

(* ... on an argument list (its items) *)
Lemma index_args_refines p x : f_index (VArgs p) x = ROk (sp_index (VArgs p) x).
Proof. cbn [f_index]. unfold sp_index. cbn [as_list l_items]. now rewrite v_of_pos_first. Qed.

(* ... and on any other value that is not a map *)
Lemma index_single_refines l x :
  match l with VMap _ => False | _ => True end ->
  f_index l x = ROk (sp_index l x).
Proof.
  destruct l; try contradiction; intros _; try apply index_list_refines; try apply index_args_refines;
  unfold sp_index; cbn [f_index as_list l_items first_pos];
  match goal with |- context [veq ?a x] => destruct (veq a x) end; reflexivity.
Qed.

(* ---- length / separator / brackets ---- *)
Lemma length_refines l : f_length l = ROk (sp_length l).
Proof.
  destruct l as [b u sh|s|b| |items s b|[|kv r]|p]; try reflexivity.
  unfold f_length, sp_length. cbn [as_list l_items]. now rewrite map_length.
Qed.

Lemma separator_refines l :
  match l with VList _ (Some SSlashNoSpace) _ => False | _ => True end ->
  f_separator l = ROk (sp_separator l).
Proof. destruct l as [b u sh|s|b| |items [[| | |]|] b|[|kv r]|p]; intros H; try reflexivity; contradiction. Qed.

Lemma bracketed_refines l : f_is_bracketed l = ROk (sp_is_bracketed l).
Proof. destruct l as [b u sh|s|b| |items s [|]|[|kv r]|p]; reflexivity. Qed.

Lemma map_as_pairs m :
  m <> [] ->
  get_list (VMap m) = (map pair_list m, Some SComma, false) /\
  f_length (VMap m) = ROk (v_int (Z.of_nat (length m))) /\
  iter_items (VMap m) = map pair_list m.
Proof. destruct m; [congruence|]. intros _. repeat split. Qed.

(* ---- zip ---- *)
Lemma zip_rows_length len : forall i lists, length (zip_rows len i lists) = len.
Proof. induction len; intros; cbn; auto. Qed.

Lemma zip_rows_nth len : forall i lists k, (k < len)%nat ->
  nth_error (zip_rows len i lists) k = Some (VList (map (fun l => nth (i + k) l VNull) lists) (Some SSpace) false).
Proof.
  induction len; intros i lists k H; [lia|]. destruct k; cbn.
  - now rewrite Nat.add_0_r.
  - rewrite IHlen; [|lia]. replace (S i + k)%nat with (i + S k)%nat by lia. reflexivity.
Qed.

Lemma fold_min_le_init r : forall a, (fold_left (fun acc y => Nat.min acc (length (A:=value) y)) r a <= a)%nat.
Proof.
  induction r as [|z r IH]; intros b; cbn; [lia|]. specialize (IH (Nat.min b (length z))).
  pose proof (Nat.le_min_l b (length z)). lia.
Qed.

Lemma fold_min_le r : forall a x, In x r -> (fold_left (fun acc y => Nat.min acc (length (A:=value) y)) r a <= length x)%nat.
Proof.
  induction r as [|y r IH]; intros a x []; cbn.
  - subst. pose proof (fold_min_le_init r (Nat.min a (length x))). pose proof (Nat.le_min_r a (length x)). lia.
  - now apply IH.
Qed.

Lemma fold_min_attained r : forall a,
  fold_left (fun acc y => Nat.min acc (length (A:=value) y)) r a = a \/
  exists x, In x r /\ fold_left (fun acc y => Nat.min acc (length (A:=value) y)) r a = length x.
Proof.
  induction r as [|z r IH]; intros a; cbn; [now left|].
  destruct (IH (Nat.min a (length z))) as [H|(x & Hx & H)].
  - destruct (Nat.min_spec a (length z)) as [[_ E]|[_ E]]; rewrite E in *.
    + now left.
    + right. exists z. split; [now left|exact H].
  - right. exists x. split; [now right|exact H].
Qed.

Lemma zip_law ls r :
  f_zip ls = ROk r ->
  exists rows, r = VList rows (Some SComma) false /\
    (forall l, In l (map iter_items ls) -> (length rows <= length l)%nat) /\
    (ls <> [] -> exists l, In l (map iter_items ls) /\ length rows = length l) /\
    (forall k, (k < length rows)%nat ->
       nth_error rows k = Some (VList (map (fun l => nth k l VNull) (map iter_items ls)) (Some SSpace) false)).
Proof.
  unfold f_zip. intros [= <-]. eexists. split; [reflexivity|]. rewrite zip_rows_length. repeat split.
  - intros l Hl. unfold min_len. destruct (map iter_items ls) as [|l0 r]; [destruct Hl|].
    destruct Hl as [<-|Hl]; [apply fold_min_le_init|now apply fold_min_le].
  - intros Hne. unfold min_len. destruct ls as [|v vs]; [congruence|]. cbn [map].
    destruct (fold_min_attained (map iter_items vs) (length (iter_items v))) as [H|(x & Hx & H)].
    + exists (iter_items v). split; [now left|exact H].
    + exists x. split; [now right|exact H].
  - intros k Hk. now rewrite zip_rows_nth.
Qed.

(* == between two lists: == elements in order, same separator (undecided is its own kind), same brackets;
   in particular the separator of an empty or one-element list is part of its identity *)
Lemma list_eq_refines a b : veq a b = sp_equal a b.
Proof.
  destruct a as [? ? ?|?|?| |xs s1 k1|?|?]; try reflexivity.
  destruct b as [? ? ?|?|?| |ys s2 k2|?|?]; try reflexivity.
  unfold sp_equal, veq. cbn [eqL]. f_equal. f_equal.
  revert ys. induction xs as [|x r IH]; intros [|y ys]; try reflexivity. cbn [all2]. now rewrite <- IH.
Qed.

Lemma short_list_sep_matters x :
  veq (VList [x] (Some SSpace) false) (VList [x] (Some SComma) false) = false /\
  veq (VList [] (Some SSpace) false) (VList [] (Some SComma) false) = false /\
  veq (VList [] None false) (VList [] (Some SSpace) false) = false.
Proof.
  repeat split; try reflexivity. unfold veq. cbn [eqL]. now rewrite andb_false_r.
Qed.
