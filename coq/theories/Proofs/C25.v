(* C25 proofs: the name-level parser (Model/SelParse.v) and the class printer (Model/SelFmt.v). *)
From Coq Require Import List NArith ZArith Bool Lia Arith.
From RV Require Import Base.Text Base.ListX Model.Sel Model.SelFmt Model.SelParse Run.C25.
Import ListNotations.
Local Open Scope list_scope.

(* names made of plain characters parse to themselves *)
Lemma plain_not_bs c : plain_byte c = true -> (c =? 92)%N = false.
Proof.
  intros H. destruct (c =? 92)%N eqn:E; [|reflexivity]. apply N.eqb_eq in E. subst. discriminate.
Qed.

Lemma norm_plain_rest r : forall fuel, forallb plain_byte r = true -> (length r < fuel)%nat ->
  norm_name_f fuel false r = Some r.
Proof.
  induction r as [|c r IH]; intros fuel Hp Hf.
  - destruct fuel; [lia|]. reflexivity.
  - destruct fuel; [cbn in Hf; lia|]. cbn in Hp. apply andb_true_iff in Hp as [Hc Hr].
    cbn [norm_name_f]. rewrite (plain_not_bs c Hc), Hc. rewrite (IH fuel Hr) by (cbn in Hf; lia). reflexivity.
Qed.

Lemma plain_names_fixed n : n <> [] -> forallb plain_byte n = true -> norm_name n = Some n.
Proof.
  intros Hne Hp. destruct n as [|c r]; [contradiction|]. unfold norm_name.
  change (norm_name_f (S (S (length r))) true (c :: r) = Some (c :: r)).
  remember (S (length r)) as f eqn:Ef. cbn [norm_name_f].
  cbn in Hp. apply andb_true_iff in Hp as [Hc Hr]. rewrite (plain_not_bs c Hc), Hc.
  rewrite (norm_plain_rest r f Hr) by lia. reflexivity.
Qed.

(* every ASCII character: its normalised escape token (first position, later position) parses back to
   itself, alone and in front of `a` (a hex digit), `1`, `x`, `-` *)
Definition ascii_range : list N := map N.of_nat (seq 0 128).
Definition followers : list text := [[]; [97%N]; [49%N]; [120%N]; [45%N]].

Definition ostext_eqb (a b : option text) : bool := opt_eqb text_eqb a b.

Definition first_token_ok (c : N) (fol : text) : bool :=
  ostext_eqb (norm_name (norm_first c ++ fol)) (Some (norm_first c ++ fol)).
Definition next_token_ok (c : N) (fol : text) : bool :=
  ostext_eqb (norm_name (120%N :: norm_next c ++ fol)) (Some (120%N :: norm_next c ++ fol)).

Lemma first_tokens_sweep : forallb (fun c => forallb (first_token_ok c) followers) ascii_range = true.
Proof. vm_compute. reflexivity. Qed.
Lemma next_tokens_sweep : forallb (fun c => forallb (next_token_ok c) followers) ascii_range = true.
Proof. vm_compute. reflexivity. Qed.

Lemma in_ascii_range c : (c < 128)%N -> In c ascii_range.
Proof.
  intros H. unfold ascii_range. apply in_map_iff. exists (N.to_nat c). split; [apply N2Nat.id|].
  apply in_seq. lia.
Qed.

Lemma ostext_eqb_eq a b : ostext_eqb a b = true -> a = b.
Proof.
  destruct a, b; cbn; try discriminate; auto. intros H. apply text_eqb_eq in H. subst. reflexivity.
Qed.

Lemma escape_tokens_roundtrip c fol : (c < 128)%N -> In fol followers ->
  norm_name (norm_first c ++ fol) = Some (norm_first c ++ fol)
  /\ norm_name (120%N :: norm_next c ++ fol) = Some (120%N :: norm_next c ++ fol).
Proof.
  intros Hc Hf. split; apply ostext_eqb_eq.
  - exact (sweep2 ascii_range followers first_token_ok first_tokens_sweep c fol (in_ascii_range c Hc) Hf).
  - exact (sweep2 ascii_range followers next_token_ok next_tokens_sweep c fol (in_ascii_range c Hc) Hf).
Qed.

(* the class printer escapes a leading ASCII digit; the printed spelling is a fixpoint of the parser *)
Definition digits : list N := map N.of_nat (seq 48 10).

Lemma is_digit_in d : is_ascii_digit d = true -> In d digits.
Proof.
  unfold is_ascii_digit. intros H. apply andb_true_iff in H as [H1 H2].
  apply N.leb_le in H1, H2. unfold digits. apply in_map_iff. exists (N.to_nat d). split; [apply N2Nat.id|].
  apply in_seq. lia.
Qed.

Lemma digit_step d rest f : In d digits ->
  norm_name_f (S f) true (92%N :: hex_of_N d ++ 32%N :: rest) =
  match norm_name_f f false rest with
  | Some t => Some ((92%N :: hex_of_N d ++ [32%N]) ++ t)
  | None => None
  end.
Proof.
  intros Hd. unfold digits in Hd. cbn in Hd.
  destruct Hd as [<-|[<-|[<-|[<-|[<-|[<-|[<-|[<-|[<-|[<-|[]]]]]]]]]]]; reflexivity.
Qed.

Lemma printed_digit_class d rest :
  is_ascii_digit d = true -> forallb plain_byte rest = true ->
  fmt_class (d :: rest) = 92%N :: hex_of_N d ++ [32%N] ++ rest
  /\ norm_name (fmt_class (d :: rest)) = Some (fmt_class (d :: rest)).
Proof.
  intros Hd Hr. split; [unfold fmt_class; rewrite Hd; reflexivity|].
  unfold fmt_class. rewrite Hd. apply is_digit_in in Hd. unfold norm_name.
  cbn [app]. rewrite (digit_step d rest _ Hd).
  rewrite (norm_plain_rest rest _ Hr).
  - cbn [app]. rewrite <- app_assoc. reflexivity.
  - cbn [length]. rewrite app_length. cbn [length]. lia.
Qed.

(* the stored name changes: `.1x` is printed `.\31 x`, which parses to the name `\31 x`, not `1x` *)
Lemma refuted_digit_class :
  let n := [49%N; 120%N] in
  norm_name n = Some n /\ fmt_class n = [92%N; 51%N; 49%N; 32%N; 120%N]
  /\ norm_name (fmt_class n) = Some (fmt_class n) /\ fmt_class n <> n.
Proof. cbv zeta. vm_compute. repeat split; try reflexivity. discriminate. Qed.
