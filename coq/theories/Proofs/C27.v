(* C27 proofs: the escape-free class, and machine-checked witnesses of the refuted clauses. *)
From Coq Require Import String List NArith ZArith Bool Lia.
From RV Require Import Base.Text Base.ListX Model.CssStr Model.StrEsc Spec.CssEsc Run.C27.
Import ListNotations.
Local Open Scope N_scope.
Local Open Scope list_scope.

(* a plain body: no backslash, hash, quote, line break, and no private-use character *)
Definition plain_char (c : N) : bool := negb (is_special c) && negb (is_private_use c).
Definition plain (l : list N) : bool := forallb plain_char l.

Lemma plain_cons c r : plain (c :: r) = true -> plain_char c = true /\ plain r = true.
Proof. unfold plain. cbn. now rewrite andb_true_iff. Qed.

Lemma plain_char_facts c : plain_char c = true ->
  is_special c = false /\ is_private_use c = false /\ (c =? 92) = false /\ (c =? 34) = false.
Proof.
  unfold plain_char. rewrite andb_true_iff, !negb_true_iff. intros [A B].
  split; [exact A|]. split; [exact B|]. unfold is_special in A. rewrite !orb_false_iff in A. tauto.
Qed.

Lemma take_simple_plain l : plain l = true -> take_simple l = (l, []).
Proof.
  induction l as [|c r IH]; [reflexivity|]. intros H. apply plain_cons in H as [Hc Hr].
  apply plain_char_facts in Hc as (S & _). cbn. rewrite S, (IH Hr). reflexivity.
Qed.

Lemma store_plain l : plain l = true -> store_dq l = Some l.
Proof.
  intros H. unfold store_dq. destruct l as [|c r]; [reflexivity|].
  assert (Hc := H). apply plain_cons in Hc as [Hc _]. apply plain_char_facts in Hc as (S & _ & B & _).
  cbn [length parts_fuel]. unfold next_part. rewrite S. cbn [negb].
  rewrite (take_simple_plain _ H). cbn [parts_fuel option_map cleanup]. rewrite B. cbn [andb concat].
  now rewrite app_nil_r.
Qed.

Lemma decode_plain l : contains 92 l = false -> css_decode l = l.
Proof.
  unfold css_decode, contains. induction l as [|c r IH]; [reflexivity|]. cbn [existsb decode].
  rewrite orb_false_iff. intros [A B]. rewrite N.eqb_sym in A. rewrite A. f_equal. now apply IH.
Qed.

Lemma plain_no_backslash l : plain l = true -> contains 92 l = false.
Proof.
  unfold contains. induction l as [|c r IH]; [reflexivity|]. intros H. apply plain_cons in H as [Hc Hr].
  apply plain_char_facts in Hc as (_ & _ & B & _). cbn [existsb]. rewrite N.eqb_sym, B. now apply IH.
Qed.

Lemma plain_no_dquote l : plain l = true -> contains 34 l = false.
Proof.
  unfold contains. induction l as [|c r IH]; [reflexivity|]. intros H. apply plain_cons in H as [Hc Hr].
  apply plain_char_facts in Hc as (_ & _ & _ & B). cbn [existsb]. rewrite N.eqb_sym, B. now apply IH.
Qed.

Lemma display_body_plain l : plain l = true -> flat_map (display_char (Some 34)) l = l.
Proof.
  induction l as [|c r IH]; [reflexivity|]. intros H. apply plain_cons in H as [Hc Hr].
  apply plain_char_facts in Hc as (_ & P & _ & Q). cbn [flat_map display_char]. rewrite Q, P. cbn [app]. f_equal. now apply IH.
Qed.

Lemma plain_no_pu l : plain l = true -> existsb is_private_use l = false.
Proof.
  induction l as [|c r IH]; [reflexivity|]. intros H. apply plain_cons in H as [Hc Hr].
  apply plain_char_facts in Hc as (_ & P & _). cbn [existsb]. now rewrite P, (IH Hr).
Qed.

Lemma literal_plain l : plain l = true -> literal_value l = Some (mkStr l QDouble).
Proof.
  intros H. unfold literal_value. rewrite (store_plain l H). cbn [option_map]. unfold pref_dquotes. cbn [s_val s_q].
  rewrite (plain_no_dquote l H). reflexivity.
Qed.

Lemma emit_plain l : plain l = true ->
  exists lv, literal_value l = Some lv /\ css_display lv = 34 :: l ++ [34] /\ css_decode l = l /\
             length (s_val lv) = length (css_decode l).
Proof.
  intros H. exists (mkStr l QDouble). split; [now apply literal_plain|]. split.
  - unfold css_display. cbn [s_q s_val quote_char]. now rewrite (display_body_flat _ _ (plain_no_pu l H)), (display_body_plain l H).
  - rewrite (decode_plain l (plain_no_backslash l H)). split; reflexivity.
Qed.

Lemma unq_plain l : contains 92 l = false -> unq l UNormal = Some l.
Proof.
  unfold contains. induction l as [|c r IH]; [reflexivity|]. cbn [existsb unq]. rewrite orb_false_iff. intros [A B].
  rewrite N.eqb_sym in A. rewrite A, (IH B). reflexivity.
Qed.

Lemma double_backslashes_plain l : contains 92 l = false -> double_backslashes l = l.
Proof.
  unfold contains, double_backslashes. induction l as [|c r IH]; [reflexivity|]. cbn [existsb flat_map]. rewrite orb_false_iff.
  intros [A B]. rewrite N.eqb_sym in A. rewrite A. cbn [app]. f_equal. now apply IH.
Qed.

Lemma quote_unquote_plain l : plain l = true ->
  exists u, css_unquote (mkStr l QDouble) = Some u /\ u = l /\
            pref_dquotes (css_quote (mkStr u QNone)) = mkStr l QDouble.
Proof.
  intros H. exists l. assert (B := plain_no_backslash l H). assert (Q := plain_no_dquote l H).
  split; [unfold css_unquote; cbn [s_q s_val]; now apply unq_plain|]. split; [reflexivity|].
  unfold css_quote. cbn [s_q s_val]. rewrite (double_backslashes_plain l B), Q. cbn [andb].
  unfold pref_dquotes. cbn [s_q s_val]. rewrite Q. reflexivity.
Qed.

(* ---- witnesses ---- *)
Definition w_10x : list N := [92; 49; 48; 120].            (* \10x *)
Lemma refuted_length :
  option_map (@length N) (store_dq w_10x) = Some 4%nat /\ length (css_decode w_10x) = 2%nat.
Proof. split; vm_compute; reflexivity. Qed.

(* cf6ac61: unquote reads the stored hex escape in base 16 *)
Lemma unquote_hex_example :
  (match literal_value w_10x with Some lv => css_unquote lv | None => None end) = Some (css_decode w_10x) /\
  css_decode w_10x = [16; 120].
Proof. split; vm_compute; reflexivity. Qed.

(* quote(unquote(s)) for a string denoting a newline: the newline comes back unescaped *)
Definition w_nl : list N := [92; 97].                       (* \a *)
Lemma refuted_quote_unquote_newline :
  exists lv u, literal_value w_nl = Some lv /\ css_unquote lv = Some u /\ u = [10] /\
    css_display (pref_dquotes (css_quote (mkStr u QNone))) = [34; 10; 34] /\
    token_denotes [34; 10; 34] (css_decode w_nl) = false.
Proof. eexists. eexists. repeat split; vm_compute; reflexivity. Qed.

Definition w_pu : list N := [57344; 49].                    (* U+E000 followed by the digit 1 *)
(* 71d4ea9: the hex escape written for a private-use character is terminated before a hex digit or space *)
Lemma private_use_example :
  exists lv, literal_value w_pu = Some lv /\ css_display lv = [34; 92; 101; 48; 48; 48; 32; 49; 34] /\
             token_denotes (css_display lv) (css_decode w_pu) = true.
Proof. eexists. repeat split; vm_compute; reflexivity. Qed.

(* ... but not before a tab, which the CSS reader also swallows after a hex escape *)
Definition w_put : list N := [57344; 9].
Lemma refuted_private_use_tab :
  exists lv b, literal_value w_put = Some lv /\ token_body (css_display lv) = Some b /\
               css_decode b = [57344] /\ css_decode w_put = w_put.
Proof. eexists. eexists. repeat split; vm_compute; reflexivity. Qed.

Definition w_sp : list N := [97; 92; 32].                   (* a, backslash, space *)
(* 6aead77: an escaped space keeps its space; the token is well formed and denotes "a " *)
Lemma escaped_space_example :
  exists lv, literal_value w_sp = Some lv /\ css_display lv = [34; 97; 92; 32; 34] /\
             token_denotes (css_display lv) (css_decode w_sp) = true /\ css_decode w_sp = [97; 32].
Proof. eexists. repeat split; vm_compute; reflexivity. Qed.

Definition w_sur : list N := [92; 100; 56; 48; 48].         (* \d800 *)
Lemma refuted_invalid_code_point :
  store_dq w_sur = Some [100; 56; 48; 48] /\ css_decode w_sur = [65533].
Proof. split; vm_compute; reflexivity. Qed.

Lemma literal_10x : literal_value w_10x = Some (mkStr w_10x QDouble).
Proof. vm_compute. reflexivity. Qed.
