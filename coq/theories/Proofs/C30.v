(* Proofs for C30. *)
From Coq Require Import String List NArith ZArith QArith Bool Lia.
From RV Require Import Base.F64 Base.Text Base.ListX Gen.Operators Model.Units Model.Numeric Spec.CalcSem Model.Calc Run.C30.
Import ListNotations.
Local Open Scope list_scope.

Definition all_cops : list cop := [CAdd; CSub; CMul; CDiv].

(* ---------- the derived order of enum Operator that css/binop.rs relies on ---------- *)
Definition rank_ok : bool :=
  Nat.ltb (rank CAdd) (rank CSub) && Nat.ltb (rank CSub) (rank CMul) && Nat.ltb (rank CMul) (rank CDiv)
  && Nat.ltb (rank CDiv) (length operator_variants).
Lemma rank_ok_true : rank_ok = true.
Proof. vm_compute. reflexivity. Qed.

(* ---------- the parenthesis rule, pair by pair ---------- *)
Definition right_pair_ok (o o2 : cop) : bool :=
  match o, o2 with
  | CDiv, CDiv => true                                         (* the refuted pair *)
  | _, _ => Bool.eqb (rsass_paren_right o o2) (need_paren_right o o2)
  end.
Lemma right_sweep : forallb (fun o => forallb (right_pair_ok o) all_cops) all_cops = true.
Proof. vm_compute. reflexivity. Qed.

Lemma in_all_cops o : In o all_cops.
Proof. destruct o; cbn; tauto. Qed.

Lemma paren_rule_right o o2 : (o, o2) <> (CDiv, CDiv) ->
  rsass_paren_right o o2 = need_paren_right o o2.
Proof.
  intros H. pose proof (sweep2 all_cops all_cops right_pair_ok right_sweep o o2 (in_all_cops o) (in_all_cops o2)) as P.
  unfold right_pair_ok in P.
  destruct o, o2; try (apply eqb_prop in P; exact P). congruence.
Qed.

Lemma paren_rule_left o o1 :
  need_paren_left o o1 = true <->
  (o = CMul \/ o = CDiv) /\ (o1 = CAdd \/ o1 = CSub).
Proof.
  destruct o, o1; cbn; split; intros H; try discriminate; try tauto;
    destruct H as [[H|H] [H'|H']]; discriminate.
Qed.

Lemma refuted_paren_right : rsass_paren_right CDiv CDiv = false /\ need_paren_right CDiv CDiv = true.
Proof. vm_compute. auto. Qed.
Lemma refuted_paren_left : forall o o1, need_paren_left o o1 = true -> rsass_paren_left o o1 = false.
Proof. reflexivity. Qed.

(* ---------- simplification: a number results exactly through Sass arithmetic ---------- *)
Fixpoint fold_num (t : mtree) : option numeric :=
  match t with
  | MNum b u => Some (num_of_leaf b u)
  | MVar _ => None
  | MBin o l r =>
      match fold_num l, fold_num r with
      | Some x, Some y => match eval_nop (nop_of o) x y with RNum n => Some n | _ => None end
      | _, _ => None
      end
  end.

Lemma seval_fold t n : fold_num t = Some n <-> seval t = Some (VN n).
Proof.
  revert n. induction t as [b u|i|o l IHl r IHr]; intros n; cbn [fold_num seval].
  - unfold num_of_leaf. split; intros H; inversion H; reflexivity.
  - split; discriminate.
  - split.
    + destruct (fold_num l) as [x|] eqn:El; try discriminate.
      destruct (fold_num r) as [y|] eqn:Er; try discriminate.
      rewrite (proj1 (IHl x) eq_refl), (proj1 (IHr y) eq_refl).
      destruct (eval_nop (nop_of o) x y); try discriminate. intros H; inversion H; reflexivity.
    + destruct (seval l) as [a|] eqn:El; try discriminate.
      destruct (seval r) as [b|] eqn:Er; try discriminate.
      destruct a as [x| |]; try discriminate.
      * destruct b as [y| |]; try discriminate.
        rewrite (proj2 (IHl x) eq_refl), (proj2 (IHr y) eq_refl).
        destruct (eval_nop (nop_of o) x y); try discriminate. intros H; inversion H; reflexivity.
Qed.

Lemma simplify t n : fold_num t = Some n <-> calc_model t = CNumber n.
Proof.
  unfold calc_model. rewrite seval_fold. split.
  - intros ->. reflexivity.
  - destruct (seval t) as [v|]; try discriminate.
    destruct v as [x|i|o a b].
    + intros H; inversion H; reflexivity.
    + cbn. discriminate.
    + destruct (css_fn_arg (VB o a b)); discriminate.
Qed.

(* what is kept has exactly the operands and operators that were written, except
   where Sass arithmetic folded an all-number subtree *)
Fixpoint residual (t : mtree) : option cv :=
  match fold_num t with
  | Some n => Some (VN n)
  | None =>
      match t with
      | MBin o l r => match residual l, residual r with
                      | Some a, Some b => Some (VB o a b)
                      | _, _ => None
                      end
      | MVar i => Some (VV i)
      | MNum _ _ => None
      end
  end.

Lemma kept_structure t v : seval t = Some v -> residual t = Some v.
Proof.
  revert v. induction t as [b u|i|o l IHl r IHr]; intros v H.
  - cbn in *. exact H.
  - cbn in *. exact H.
  - cbn [residual]. destruct (fold_num (MBin o l r)) as [n|] eqn:F.
    + apply seval_fold in F. rewrite F in H. exact H.
    + cbn [seval] in H.
      destruct (seval l) as [a|] eqn:El; try discriminate.
      destruct (seval r) as [b|] eqn:Er; try discriminate.
      rewrite (IHl a eq_refl), (IHr b eq_refl).
      destruct a as [x| |]; try exact H.
      destruct b as [y| |]; try exact H.
      destruct (eval_nop (nop_of o) x y) eqn:E; try discriminate; try exact H.
      exfalso. cbn [fold_num] in F.
      rewrite (proj2 (seval_fold l x) El), (proj2 (seval_fold r y) Er), E in F. discriminate.
Qed.

(* ---------- reading the emitted text back: exhaustive over small kept trees ---------- *)
Fixpoint shape (v : cv) : option ctree :=
  match v with
  | VN _ => None
  | VV i => Some (CVar i)
  | VB o a b => match shape a, shape b with Some x, Some y => Some (CBin o x y) | _, _ => None end
  end.
Definition cop_eqb (a b : cop) : bool :=
  match a, b with CAdd, CAdd | CSub, CSub | CMul, CMul | CDiv, CDiv => true | _, _ => false end.
Fixpoint ctree_eqb (a b : ctree) : bool :=
  match a, b with
  | CVar i, CVar j => Nat.eqb i j
  | CBin o l r, CBin o' l' r' => cop_eqb o o' && ctree_eqb l l' && ctree_eqb r r'
  | _, _ => false
  end.
Definition reparse_ok (v : cv) : bool :=
  match disp v, shape v with
  | Some text, Some s =>
      match decode text with
      | Some t => ctree_eqb (lnorm t) (lnorm s)      (* the same calculation up to value-preserving re-association *)
      | None => false
      end
  | _, _ => false
  end.

Fixpoint exists_cv (p : cv -> bool) (v : cv) : bool :=
  p v || match v with VB _ a b => exists_cv p a || exists_cv p b | _ => false end.
Definition bad_right (v : cv) : bool :=
  match v with VB CDiv _ (VB CDiv _ _) => true | _ => false end.
Definition bad_left (v : cv) : bool :=
  match v with VB (CMul | CDiv) (VB (CAdd | CSub) _ _) _ => true | _ => false end.
Definition bad (v : cv) : bool := exists_cv bad_right v || exists_cv bad_left v.

Definition atoms : list cv := [VV 0; VV 1].
Definition vbins (ls rs : list cv) : list cv :=
  flat_map (fun o => flat_map (fun l => map (fun r => VB o l r) rs) ls) all_cops.
Definition cv1 : list cv := vbins atoms atoms.
Definition cv2 : list cv := vbins cv1 atoms ++ vbins atoms cv1.
Definition cv3 : list cv :=
  vbins cv2 atoms ++ vbins atoms cv2 ++ vbins cv1 cv1.
Definition small_cvs : list cv := cv1 ++ cv2 ++ cv3.

(* a small kept tree is read back as itself exactly when it has none of the two patterns *)
Definition reparse_pred (v : cv) : bool := Bool.eqb (reparse_ok v) (negb (bad v)).
Lemma reparse_sweep : forallb reparse_pred small_cvs = true.
Proof. vm_compute. reflexivity. Qed.

Lemma reparse_small v : In v small_cvs -> reparse_ok v = negb (bad v).
Proof.
  intros H. pose proof (sweep1 small_cvs reparse_pred reparse_sweep v H) as P.
  apply eqb_prop in P. exact P.
Qed.

Definition one_bits : Z := 4607182418800017408%Z.
Definition two_bits : Z := 4611686018427387904%Z.
Lemma refuted_right_div : exists t v, calc_model t = CCalc v /\ reparse_ok v = false /\ exists_cv bad_right v = true.
Proof.
  exists (MBin CDiv (MVar 0) (MBin CDiv (MVar 1) (MVar 0))).
  eexists. split. vm_compute. reflexivity. vm_compute. auto.
Qed.
Lemma refuted_left_sum : exists t v, calc_model t = CCalc v /\ reparse_ok v = false /\ exists_cv bad_left v = true.
Proof.
  exists (MBin CMul (MBin CAdd (MVar 0) (MVar 1)) (MVar 0)).
  eexists. split. vm_compute. reflexivity. vm_compute. auto.
Qed.

Lemma example_in : In (VB CSub (VV 0) (VB CAdd (VV 1) (VV 0))) small_cvs.
Proof.
  unfold small_cvs. apply in_or_app. right. apply in_or_app. left.
  unfold cv2. apply in_or_app. right.
  unfold vbins at 1. apply in_flat_map. exists CSub. split. apply in_all_cops.
  apply in_flat_map. exists (VV 0). split. left. reflexivity.
  apply in_map.
  unfold cv1, vbins. apply in_flat_map. exists CAdd. split. apply in_all_cops.
  apply in_flat_map. exists (VV 1). split. right. left. reflexivity.
  apply in_map. left. reflexivity.
Qed.
