(* C13 proofs: OrderMap over an abstract key equality, then the instance on values. *)
From Coq Require Import String List NArith ZArith Bool Lia Permutation.
From RV Require Import Base.Text Base.ListX Model.CssStr Model.ValueLite Model.OrderMap Spec.MapSpec Run.C13.
Import ListNotations.
Local Open Scope list_scope.

Section Generic.
  Context {K V : Type}.
  Variable eqb : K -> K -> bool.
  Notation omap := (list (K * V)).

  Definition keys (m : omap) : list K := map fst m.
  Definition has (ks : list K) (k : K) : bool := existsb (fun s => eqb s k) ks.

  (* no stored key is == to a key stored after it *)
  Fixpoint NoDupK (ks : list K) : Prop :=
    match ks with
    | [] => True
    | k :: r => (forall k', In k' r -> eqb k k' = false) /\ NoDupK r
    end.
  Definition NoDupKeys (m : omap) : Prop := NoDupK (keys m).

  Lemma contains_has (m : omap) (k : K) : om_contains_key eqb m k = has (keys m) k.
  Proof. unfold om_contains_key, has, keys. induction m as [|[a b] r IH]; cbn; [reflexivity|]. now rewrite IH. Qed.

  Lemma has_false ks k : has ks k = false <-> (forall s, In s ks -> eqb s k = false).
  Proof.
    unfold has. induction ks as [|a r IH]; cbn.
    - split; [intros _ s []|reflexivity].
    - rewrite orb_false_iff, IH. split.
      + intros [H1 H2] s [<-|Hs]; auto.
      + intros H; split; [apply H; now left|intros s Hs; apply H; now right].
  Qed.

  Lemma has_true ks k : has ks k = true <-> exists s, In s ks /\ eqb s k = true.
  Proof. unfold has. rewrite existsb_exists. reflexivity. Qed.

  Lemma has_app a b k : has (a ++ b) k = has a k || has b k.
  Proof. unfold has. apply existsb_app. Qed.

  (* ---- insert ---- *)
  Lemma insert_fst_cons (k0 : K) (v0 : V) (r : omap) (k : K) (v : V) :
    fst (om_insert eqb ((k0, v0) :: r) k v) =
    if eqb k0 k then (k0, v) :: r else (k0, v0) :: fst (om_insert eqb r k v).
  Proof. cbn. destruct (eqb k0 k); [reflexivity|]. destruct (om_insert eqb r k v); reflexivity. Qed.

  Lemma insert_snd_cons (k0 : K) (v0 : V) (r : omap) (k : K) (v : V) :
    snd (om_insert eqb ((k0, v0) :: r) k v) =
    if eqb k0 k then Some v0 else snd (om_insert eqb r k v).
  Proof. cbn. destruct (eqb k0 k); [reflexivity|]. destruct (om_insert eqb r k v); reflexivity. Qed.

  Lemma insert_absent (m : omap) (k : K) (v : V) :
    has (keys m) k = false -> om_insert eqb m k v = (m ++ [(k, v)], None).
  Proof.
    induction m as [|[k0 v0] r IH]; cbn; intros H; [reflexivity|].
    apply orb_false_iff in H as [H1 H2]. rewrite H1, (IH H2). reflexivity.
  Qed.

  Lemma insert_present (m : omap) (k : K) (v : V) :
    has (keys m) k = true ->
    exists a k' v' b, m = a ++ (k', v') :: b /\ has (keys a) k = false /\ eqb k' k = true
                      /\ om_insert eqb m k v = (a ++ (k', v) :: b, Some v').
  Proof.
    induction m as [|[k0 v0] r IH]; cbn; intros H; [discriminate|].
    destruct (eqb k0 k) eqn:E.
    - exists [], k0, v0, r. cbn. auto.
    - cbn in H. destruct (IH H) as (a & k' & v' & b & -> & Ha & Hk & Hi).
      exists ((k0, v0) :: a), k', v', b. split; [reflexivity|]. split; [|split; [exact Hk|]].
      + unfold has, keys in *. cbn. now rewrite E.
      + change (((k0, v0) :: a) ++ (k', v') :: b) with ((k0, v0) :: (a ++ (k', v') :: b)).
        cbn [om_insert]. now rewrite Hi.
  Qed.

  Lemma insert_keys (m : omap) (k : K) (v : V) :
    keys (fst (om_insert eqb m k v)) = if has (keys m) k then keys m else keys m ++ [k].
  Proof.
    destruct (has (keys m) k) eqn:H.
    - destruct (insert_present m k v H) as (a & k' & v' & b & -> & _ & _ & ->). cbn.
      unfold keys. now rewrite !map_app.
    - rewrite (insert_absent m k v H). cbn. unfold keys. now rewrite map_app.
  Qed.

  Lemma insert_result (m : omap) (k : K) (v : V) :
    snd (om_insert eqb m k v) = None <-> has (keys m) k = false.
  Proof.
    destruct (has (keys m) k) eqn:H.
    - destruct (insert_present m k v H) as (a & k' & v' & b & _ & _ & _ & ->). cbn. split; discriminate.
    - rewrite (insert_absent m k v H). cbn. tauto.
  Qed.

  Lemma NoDupK_snoc ks k :
    NoDupK ks -> (forall s, In s ks -> eqb s k = false) -> NoDupK (ks ++ [k]).
  Proof.
    induction ks as [|a r IH]; cbn; intros H Hk.
    - split; [intros ? []|exact I].
    - destruct H as [H1 H2]. split.
      + intros k' Hin. apply in_app_or in Hin as [Hin|[<-|[]]]; [now apply H1|apply Hk; now left].
      + apply IH; auto.
  Qed.

  Lemma insert_nodup (m : omap) (k : K) (v : V) : NoDupKeys m -> NoDupKeys (fst (om_insert eqb m k v)).
  Proof.
    unfold NoDupKeys. intros H. rewrite insert_keys. destruct (has (keys m) k) eqn:E; [exact H|].
    apply NoDupK_snoc; [exact H|]. now apply has_false.
  Qed.

  (* ---- get ---- *)
  Lemma get_none (m : omap) (k : K) : om_get eqb m k = None <-> has (keys m) k = false.
  Proof.
    induction m as [|[k0 v0] r IH]; cbn; [tauto|].
    destruct (eqb k0 k); cbn; [split; discriminate|exact IH].
  Qed.

  Lemma lookup (m : omap) (k : K) (v : V) :
    om_get eqb m k = Some v <->
    exists a k' b, m = a ++ (k', v) :: b /\ eqb k' k = true /\ has (keys a) k = false.
  Proof.
    induction m as [|[k0 v0] r IH]; cbn.
    - split; [discriminate|]. intros (a & k' & b & H & _). destruct a; discriminate.
    - destruct (eqb k0 k) eqn:E.
      + split.
        * intros [= ->]. exists [], k0, r. cbn. auto.
        * intros (a & k' & b & H & Hk & Ha). destruct a as [|[a1 a2] a]; cbn in *.
          -- now inversion H.
          -- inversion H; subst. cbn in Ha. rewrite E in Ha. discriminate.
      + rewrite IH. split.
        * intros (a & k' & b & -> & Hk & Ha). exists ((k0, v0) :: a), k', b. cbn. rewrite E. auto.
        * intros (a & k' & b & H & Hk & Ha). destruct a as [|[a1 a2] a]; cbn in *.
          -- inversion H; subst. congruence.
          -- inversion H; subst. cbn in Ha. rewrite E in Ha. exists a, k', b. auto.
  Qed.

  Lemma has_key_get (m : omap) (k : K) : om_contains_key eqb m k = true <-> exists v, om_get eqb m k = Some v.
  Proof.
    rewrite contains_has. destruct (om_get eqb m k) eqn:G.
    - split; [eauto|]. intros _. destruct (has (keys m) k) eqn:H; [reflexivity|].
      apply get_none in H. congruence.
    - apply get_none in G. rewrite G. split; [discriminate|]. intros [v Hv]. discriminate.
  Qed.

  Lemma get_app_absent (a b : omap) (k : K) : has (keys a) k = false -> om_get eqb (a ++ b) k = om_get eqb b k.
  Proof.
    induction a as [|[k0 v0] r IH]; cbn; [reflexivity|]. intros H.
    apply orb_false_iff in H as [H1 H2]. rewrite H1. auto.
  Qed.

  Lemma set_get (m : omap) (k : K) (v : V) : eqb k k = true -> om_get eqb (fst (om_insert eqb m k v)) k = Some v.
  Proof.
    intros R. destruct (has (keys m) k) eqn:H.
    - destruct (insert_present m k v H) as (a & k' & v' & b & _ & Ha & Hk & ->). cbn.
      rewrite (get_app_absent _ _ _ Ha). cbn. now rewrite Hk.
    - rewrite (insert_absent m k v H). cbn. rewrite (get_app_absent _ _ _ H). cbn. now rewrite R.
  Qed.

  Lemma set_shape (m : omap) (k : K) (v : V) :
    (has (keys m) k = false -> fst (om_insert eqb m k v) = m ++ [(k, v)]) /\
    (has (keys m) k = true ->
       exists a k' v' b, m = a ++ (k', v') :: b /\ has (keys a) k = false /\ eqb k' k = true
                         /\ fst (om_insert eqb m k v) = a ++ (k', v) :: b).
  Proof.
    split; intros H.
    - now rewrite (insert_absent m k v H).
    - destruct (insert_present m k v H) as (a & k' & v' & b & E & Ha & Hk & Hi).
      exists a, k', v', b. rewrite Hi. auto.
  Qed.

  Lemma set_others (m : omap) (k : K) (v : V) (k2 : K) :
    eqb k k2 = false ->
    (forall s, In s (keys m) -> eqb s k = true -> eqb s k2 = false) ->
    om_get eqb (fst (om_insert eqb m k v)) k2 = om_get eqb m k2.
  Proof.
    intros Hk. induction m as [|[k0 v0] r IH]; intros H.
    - cbn. now rewrite Hk.
    - rewrite insert_fst_cons. destruct (eqb k0 k) eqn:E.
      + cbn. rewrite (H k0); [reflexivity|now left|exact E].
      + cbn. destruct (eqb k0 k2); [reflexivity|]. apply IH. intros s Hs. apply H. now right.
  Qed.

  (* ---- remove ---- *)
  Lemma remove_fst_cons (k0 : K) (v0 : V) (r : omap) (k : K) :
    fst (om_remove eqb ((k0, v0) :: r) k) =
    if eqb k0 k then r else (k0, v0) :: fst (om_remove eqb r k).
  Proof. cbn. destruct (eqb k0 k); [reflexivity|]. destruct (om_remove eqb r k); reflexivity. Qed.

  Lemma remove_keys_incl (m : omap) (k s : K) : In s (keys (fst (om_remove eqb m k))) -> In s (keys m).
  Proof.
    induction m as [|[k0 v0] r IH]; [cbn; tauto|]. rewrite remove_fst_cons.
    destruct (eqb k0 k); cbn; [tauto|]. intros [H|H]; [now left|right; auto].
  Qed.

  Lemma remove_nodup (m : omap) (k : K) : NoDupKeys m -> NoDupKeys (fst (om_remove eqb m k)).
  Proof.
    unfold NoDupKeys. induction m as [|[k0 v0] r IH]; [cbn; tauto|]. rewrite remove_fst_cons.
    cbn. intros [H1 H2]. destruct (eqb k0 k); [exact H2|]. cbn. split; [|auto].
    intros k' Hk'. apply H1. eapply remove_keys_incl; eauto.
  Qed.

  (* all stored keys == k are == each other (holds when == is an equivalence on them) *)
  Definition euclid_on (ks : list K) (k : K) : Prop :=
    forall s1 s2, In s1 ks -> In s2 ks -> eqb s1 k = true -> eqb s2 k = true -> eqb s1 s2 = true.

  Lemma filter_all_true {A} (f : A -> bool) (l : list A) :
    (forall x, In x l -> f x = true) -> filter f l = l.
  Proof.
    induction l as [|x r IH]; cbn; intros H; [reflexivity|].
    rewrite (H x (or_introl eq_refl)). f_equal. apply IH. intros y Hy. apply H. now right.
  Qed.

  Lemma remove_filter (m : omap) (k : K) :
    NoDupKeys m -> euclid_on (keys m) k ->
    fst (om_remove eqb m k) = filter (fun kv => negb (eqb (fst kv) k)) m.
  Proof.
    unfold NoDupKeys. induction m as [|[k0 v0] r IH]; [reflexivity|]. rewrite remove_fst_cons.
    cbn. intros [H1 H2] He. destruct (eqb k0 k) eqn:E; cbn.
    - symmetry. apply filter_all_true. intros [k1 v1] Hin. cbn.
      destruct (eqb k1 k) eqn:E1; [|reflexivity]. exfalso.
      assert (Hk1 : In k1 (keys r)) by (apply in_map_iff; exists (k1, v1); auto).
      assert (X : eqb k0 k1 = true) by (apply He; cbn; auto).
      rewrite (H1 k1 Hk1) in X. discriminate.
    - f_equal. apply IH; [exact H2|]. intros s1 s2 I1 I2. apply He; now right.
  Qed.

  Lemma remove_gone (m : omap) (k : K) :
    NoDupKeys m -> euclid_on (keys m) k -> om_contains_key eqb (fst (om_remove eqb m k)) k = false.
  Proof.
    intros H He. rewrite (remove_filter m k H He). unfold om_contains_key.
    induction m as [|[k0 v0] r IH]; [reflexivity|]. cbn. destruct (eqb k0 k) eqn:E; cbn.
    - apply IH; [apply H|]. intros s1 s2 I1 I2. apply He; now right.
    - rewrite E. cbn. apply IH; [apply H|]. intros s1 s2 I1 I2. apply He; now right.
  Qed.

  (* ---- merge ---- *)
  Lemma merge_cons (m1 : omap) (kv : K * V) (r : omap) :
    om_merge eqb m1 (kv :: r) = om_merge eqb (fst (om_insert eqb m1 (fst kv) (snd kv))) r.
  Proof. reflexivity. Qed.

  Lemma merge_nodup (m2 : omap) : forall m1 : omap, NoDupKeys m1 -> NoDupKeys (om_merge eqb m1 m2).
  Proof.
    induction m2 as [|kv r IH]; intros m1 H; [exact H|]. rewrite merge_cons. apply IH. now apply insert_nodup.
  Qed.

  Lemma merge_keys (m2 : omap) : forall m1 : omap, NoDupKeys m2 ->
    keys (om_merge eqb m1 m2) = keys m1 ++ filter (fun k => negb (has (keys m1) k)) (keys m2).
  Proof.
    unfold NoDupKeys. induction m2 as [|[k v] r IH]; intros m1 H.
    - cbn. now rewrite app_nil_r.
    - rewrite merge_cons. cbn [fst snd]. cbn in H. destruct H as [H1 H2].
      rewrite (IH _ H2), insert_keys. cbn [keys map fst filter].
      destruct (has (keys m1) k) eqn:E; cbn [negb].
      + reflexivity.
      + rewrite <- app_assoc. cbn. f_equal. f_equal. apply filter_ext_in.
        intros k' Hk'. rewrite has_app. cbn. rewrite (H1 k' Hk'). now rewrite !orb_false_r.
  Qed.

  Definition equiv_on (U : list K) : Prop :=
    (forall a, In a U -> eqb a a = true) /\
    (forall a b, In a U -> In b U -> eqb a b = eqb b a) /\
    (forall a b c, In a U -> In b U -> In c U -> eqb a b = true -> eqb b c = true -> eqb a c = true).

  Lemma equiv_on_incl U W : (forall x, In x W -> In x U) -> equiv_on U -> equiv_on W.
  Proof. intros I (R & S & T). repeat split; intros; eauto 10. Qed.

  Lemma get_insert_same (m : omap) (k2 : K) (v : V) (k : K) :
    eqb k2 k = true -> (forall s, In s (keys m) -> eqb s k2 = eqb s k) ->
    om_get eqb (fst (om_insert eqb m k2 v)) k = Some v.
  Proof.
    intros E. induction m as [|[k0 v0] r IH]; intros H.
    - cbn. now rewrite E.
    - rewrite insert_fst_cons. assert (H0 := H k0 (or_introl eq_refl)).
      destruct (eqb k0 k2) eqn:E0; cbn; rewrite <- H0.
      + reflexivity.
      + apply IH. intros s Hs. apply H. now right.
  Qed.

  Lemma merge_get (m2 : omap) : forall (m1 : omap) (k : K),
    equiv_on (k :: keys m1 ++ keys m2) -> NoDupKeys m2 ->
    om_get eqb (om_merge eqb m1 m2) k =
    match om_get eqb m2 k with Some v => Some v | None => om_get eqb m1 k end.
  Proof.
    unfold NoDupKeys. induction m2 as [|[k2 v2] r IH]; intros m1 k Q H; [reflexivity|].
    rewrite merge_cons. cbn [fst snd]. cbn in H. destruct H as [H1 H2].
    destruct Q as (R & S & T).
    assert (Ik : In k (k :: keys m1 ++ keys ((k2, v2) :: r))) by now left.
    assert (Ik2 : In k2 (k :: keys m1 ++ keys ((k2, v2) :: r))) by (right; apply in_or_app; right; now left).
    assert (I1 : forall s, In s (keys m1) -> In s (k :: keys m1 ++ keys ((k2, v2) :: r)))
      by (intros; right; apply in_or_app; now left).
    assert (Ir : forall s, In s (keys r) -> In s (k :: keys m1 ++ keys ((k2, v2) :: r)))
      by (intros; right; apply in_or_app; right; now right).
    rewrite IH; [| |exact H2].
    2:{ apply (equiv_on_incl (k :: keys m1 ++ keys ((k2, v2) :: r))); [|repeat split; auto].
        intros x [<-|Hx]; [exact Ik|]. apply in_app_or in Hx as [Hx|Hx]; [|now apply Ir].
        rewrite insert_keys in Hx. destruct (has (keys m1) k2); [now apply I1|].
        apply in_app_or in Hx as [Hx|[<-|[]]]; [now apply I1|exact Ik2]. }
    cbn [om_get]. destruct (eqb k2 k) eqn:E.
    - assert (G : om_get eqb r k = None).
      { apply get_none. apply has_false. intros s Hs.
        destruct (eqb s k) eqn:Es; [|reflexivity]. exfalso.
        assert (eqb k2 s = true).
        { apply (T k2 k s); auto. rewrite S; auto. }
        rewrite (H1 s Hs) in H. discriminate. }
      rewrite G. apply get_insert_same; [exact E|].
      intros s Hs. destruct (eqb s k2) eqn:A.
      + symmetry. apply (T s k2 k); auto.
      + destruct (eqb s k) eqn:B; [|reflexivity]. exfalso.
        assert (eqb s k2 = true) by (apply (T s k k2); auto; rewrite S; auto). congruence.
    - destruct (om_get eqb r k); [reflexivity|]. apply set_others; [exact E|].
      intros s Hs A. destruct (eqb s k) eqn:B; [|reflexivity]. exfalso.
      assert (eqb k2 k = true) by (apply (T k2 s k); auto; rewrite S; auto). congruence.
  Qed.

  (* ---- literal ---- *)
  Lemma literal_ok (l : omap) : forall acc m : omap,
    om_literal eqb acc l = Some m -> NoDupKeys acc -> m = acc ++ l /\ NoDupKeys m.
  Proof.
    induction l as [|[k v] r IH]; intros acc m; cbn.
    - intros [= <-] H. now rewrite app_nil_r.
    - destruct (om_insert eqb acc k v) as [acc' o] eqn:E. destruct o; [discriminate|].
      intros Hm Hacc. assert (Ha : has (keys acc) k = false).
      { apply (insert_result acc k v). now rewrite E. }
      rewrite (insert_absent acc k v Ha) in E. inversion E; subst acc'.
      destruct (IH _ _ Hm) as [-> Hn].
      + unfold NoDupKeys, keys. rewrite map_app. apply NoDupK_snoc; [exact Hacc|]. now apply has_false.
      + split; [now rewrite <- app_assoc|exact Hn].
  Qed.

  Lemma NoDupK_app_inv a b : NoDupK (a ++ b) ->
    NoDupK a /\ NoDupK b /\ (forall x y, In x a -> In y b -> eqb x y = false).
  Proof.
    induction a as [|k r IH]; cbn.
    - intros H. repeat split; auto. intros ? ? [].
    - intros [H1 H2]. destruct (IH H2) as (A & B & C). repeat split; auto.
      + intros k' Hk'. apply H1. apply in_or_app. now left.
      + intros x y [<-|Hx] Hy; [apply H1; apply in_or_app; now right|auto].
  Qed.

  Lemma literal_complete (l : omap) : forall acc : omap,
    NoDupK (keys acc ++ keys l) -> om_literal eqb acc l = Some (acc ++ l).
  Proof.
    induction l as [|[k v] r IH]; intros acc H; cbn.
    - now rewrite app_nil_r.
    - assert (Ha : has (keys acc) k = false).
      { apply has_false. intros s Hs. destruct (NoDupK_app_inv _ _ H) as (_ & _ & C). apply C; [exact Hs|now left]. }
      rewrite (insert_absent acc k v Ha). replace (acc ++ (k, v) :: r) with ((acc ++ [(k, v)]) ++ r)
        by now rewrite <- app_assoc.
      apply IH. unfold keys in *. rewrite map_app. cbn in *. now rewrite <- app_assoc.
  Qed.

  Lemma literal_dup (l : omap) :
    (om_literal eqb [] l = Some l <-> NoDupK (keys l)) /\
    (om_literal eqb [] l = None <-> ~ NoDupK (keys l)).
  Proof.
    assert (A : om_literal eqb [] l = Some l <-> NoDupK (keys l)).
    { split.
      - intros H. now destruct (literal_ok l [] l H I) as [_ Hn].
      - intros H. now apply (literal_complete l []). }
    split; [exact A|]. split.
    - intros H N. apply A in N. congruence.
    - intros N. destruct (om_literal eqb [] l) eqn:E; [|reflexivity]. exfalso. apply N.
      destruct (literal_ok l [] o E I) as [-> Hn]. exact Hn.
  Qed.

  (* ---- map equality (om_eq) ---- *)
  Variable veqv : V -> V -> bool.

  Lemma get_some_in (b : omap) (k : K) (v : V) :
    om_get eqb b k = Some v -> exists k', In (k', v) b /\ eqb k' k = true.
  Proof.
    intros H. apply lookup in H as (a & k' & c & -> & E & _). exists k'. split; [|exact E].
    apply in_or_app. right. now left.
  Qed.

  Lemma in_get_some (b : omap) (k k' : K) (v : V) :
    NoDupKeys b -> euclid_on (keys b) k -> In (k', v) b -> eqb k' k = true -> om_get eqb b k = Some v.
  Proof.
    unfold NoDupKeys. induction b as [|[k0 v0] r IH]; intros N Eu I E; [destruct I|].
    cbn in N. destruct N as [N1 N2]. cbn [om_get]. destruct I as [I|I].
    - inversion I; subst. now rewrite E.
    - assert (Ik : In k' (keys r)) by (apply in_map_iff; exists (k', v); auto).
      destruct (eqb k0 k) eqn:E0.
      + exfalso. assert (X : eqb k0 k' = true) by (apply Eu; cbn; auto).
        rewrite (N1 k' Ik) in X. discriminate.
      + apply IH; auto. intros s1 s2 I1 I2. apply Eu; now right.
  Qed.

  Lemma forallb_ext_in' {A} (f g : A -> bool) (l : list A) :
    (forall x, In x l -> f x = g x) -> forallb f l = forallb g l.
  Proof.
    induction l as [|x r IH]; intros H; [reflexivity|]. cbn. rewrite (H x (or_introl eq_refl)). f_equal.
    apply IH. intros y Hy. apply H. now right.
  Qed.

  Lemma om_eq_perm_l (a a' b : omap) : Permutation a a' -> om_eq eqb veqv a b = om_eq eqb veqv a' b.
  Proof.
    intros P. unfold om_eq. rewrite (Permutation_length P). f_equal.
    apply eq_true_iff_eq. rewrite !forallb_forall. split; intros H x Hx; apply H.
    - eapply Permutation_in; [apply Permutation_sym; exact P|exact Hx].
    - eapply Permutation_in; [exact P|exact Hx].
  Qed.

  Lemma get_perm (b b' : omap) (k : K) :
    Permutation b b' -> NoDupKeys b -> NoDupKeys b' -> euclid_on (keys b) k ->
    om_get eqb b k = om_get eqb b' k.
  Proof.
    intros P N N' Eu.
    assert (Eu' : euclid_on (keys b') k).
    { intros s1 s2 I1 I2. apply Eu; (eapply Permutation_in; [apply Permutation_sym, Permutation_map; exact P|]); assumption. }
    destruct (om_get eqb b k) as [v|] eqn:G.
    - apply get_some_in in G as (k' & I & E). symmetry. apply (in_get_some b' k k' v); auto.
      eapply Permutation_in; eauto.
    - destruct (om_get eqb b' k) as [v|] eqn:G'; [|reflexivity]. exfalso.
      apply get_some_in in G' as (k' & I & E).
      assert (X : om_get eqb b k = Some v).
      { apply (in_get_some b k k' v); auto. eapply Permutation_in; [apply Permutation_sym; exact P|exact I]. }
      congruence.
  Qed.

  (* the order of the right map does not matter *)
  Lemma om_eq_perm_r (a b b' : omap) :
    Permutation b b' -> NoDupKeys b -> NoDupKeys b' ->
    (forall k, In k (keys a) -> euclid_on (keys b) k) ->
    om_eq eqb veqv a b = om_eq eqb veqv a b'.
  Proof.
    intros P N N' Eu. unfold om_eq. rewrite (Permutation_length P). f_equal.
    apply forallb_ext_in'. intros [k v] I. cbn [fst snd].
    rewrite (get_perm b b' k P N N'); [reflexivity|]. apply Eu. apply in_map_iff. exists (k, v). auto.
  Qed.

  (* equal exactly when: same size and every entry of a has an == key in b mapped to an == value *)
  Lemma om_eq_spec (a b : omap) :
    NoDupKeys b -> (forall k, In k (keys a) -> euclid_on (keys b) k) ->
    (om_eq eqb veqv a b = true <->
     length a = length b /\
     forall k v, In (k, v) a -> exists k' v', In (k', v') b /\ eqb k' k = true /\ veqv v' v = true).
  Proof.
    intros N Eu. unfold om_eq. rewrite andb_true_iff, Nat.eqb_eq, forallb_forall. split.
    - intros [L H]. split; [exact L|]. intros k v I. specialize (H (k, v) I). cbn in H.
      destruct (om_get eqb b k) as [v'|] eqn:G; [|discriminate].
      apply get_some_in in G as (k' & I' & E). exists k', v'. auto.
    - intros [L H]. split; [exact L|]. intros [k v] I. cbn [fst snd].
      destruct (H k v I) as (k' & v' & I' & E & Ev).
      rewrite (in_get_some b k k' v'); auto. apply Eu. apply in_map_iff. exists (k, v). auto.
  Qed.
End Generic.

(* ---- refinement of the model operations to the reference semantics ---- *)
Section Refine.
  Context {K V : Type}.
  Variable eqb : K -> K -> bool.
  Notation omap := (list (K * V)).

  Lemma same_eqb U a b : equiv_on eqb U -> In a U -> In b U -> same eqb a b = eqb a b.
  Proof. intros (_ & S & _) Ha Hb. unfold same. rewrite (S b a Hb Ha). apply orb_diag. Qed.

  Lemma sp_has_has U (m : omap) k :
    equiv_on eqb U -> In k U -> (forall s, In s (keys m) -> In s U) ->
    sp_has eqb m k = has eqb (keys m) k.
  Proof.
    intros Q Hk. unfold sp_has, has, keys. induction m as [|[s v] r IH]; intros Hm; [reflexivity|].
    cbn. rewrite IH; [|intros; apply Hm; now right]. f_equal. apply (same_eqb U); auto. apply Hm. now left.
  Qed.

  Lemma map_id_on {A} (f : A -> A) l : (forall x, In x l -> f x = x) -> map f l = l.
  Proof.
    induction l as [|x r IH]; cbn; intros H; [reflexivity|]. rewrite (H x (or_introl eq_refl)).
    f_equal. apply IH. intros y Hy. apply H. now right.
  Qed.

  Lemma refines_set (m : omap) (k : K) (v : V) :
    equiv_on eqb (k :: keys m) -> NoDupKeys eqb m ->
    fst (om_insert eqb m k v) = sp_set eqb m k v.
  Proof.
    intros Q N. unfold sp_set.
    rewrite (sp_has_has (k :: keys m)); [|exact Q|now left|intros; now right].
    destruct (set_shape eqb m k v) as [A B]. destruct (has eqb (keys m) k) eqn:H.
    - destruct (B eq_refl) as (a & k' & v' & b & E & Ha & Hk & ->). clear A B. subst m.
      assert (Ik' : In k' (k :: keys (a ++ (k', v') :: b))).
      { right. unfold keys. rewrite map_app. apply in_or_app. right. now left. }
      rewrite map_app. cbn [map fst]. f_equal; [|f_equal].
      + symmetry. apply map_id_on. intros [s w] Hs. cbn.
        rewrite (same_eqb (k :: keys (a ++ (k', v') :: b))); auto; [| |now left].
        * assert (X := proj1 (has_false eqb (keys a) k) Ha s). rewrite X; [reflexivity|].
          apply in_map_iff. exists (s, w). auto.
        * right. unfold keys. rewrite map_app. apply in_or_app. left. apply in_map_iff. exists (s, w). auto.
      + rewrite (same_eqb (k :: keys (a ++ (k', v') :: b))); auto; [|now left]. now rewrite Hk.
      + symmetry. apply map_id_on. intros [s w] Hs. cbn.
        assert (Is : In s (k :: keys (a ++ (k', v') :: b))).
        { right. unfold keys. rewrite map_app. apply in_or_app. right. right. apply in_map_iff. exists (s, w). auto. }
        rewrite (same_eqb (k :: keys (a ++ (k', v') :: b))); auto; [|now left].
        destruct (eqb s k) eqn:Es; [|reflexivity]. exfalso.
        unfold NoDupKeys, keys in N. rewrite map_app in N. apply NoDupK_app_inv in N as (_ & N & _).
        cbn in N. destruct N as [N _]. destruct Q as (R & S & T).
        assert (X : eqb k' s = true).
        { apply (T k' k s); auto; [now left|]. rewrite S; auto. now left. }
        rewrite N in X; [discriminate|]. apply in_map_iff. exists (s, w). auto.
    - now apply A.
  Qed.

  Lemma refines_remove (m : omap) (k : K) :
    equiv_on eqb (k :: keys m) -> NoDupKeys eqb m ->
    fst (om_remove eqb m k) = sp_remove eqb m k.
  Proof.
    intros Q N. rewrite remove_filter; [| exact N |].
    - unfold sp_remove. apply filter_ext_in. intros [s w] Hs. cbn. f_equal. symmetry.
      apply (same_eqb (k :: keys m)); auto; [|now left]. right. apply in_map_iff. exists (s, w). auto.
    - destruct Q as (R & S & T). intros s1 s2 I1 I2 E1 E2.
      apply (T s1 k s2); auto; [now right|now left|now right|]. rewrite S; auto; [now left|now right].
  Qed.

  Lemma has_dup_nodup (l : omap) :
    (forall a b, In a (keys l) -> In b (keys l) -> eqb a b = eqb b a) ->
    (sp_has_dup eqb l = false <-> NoDupK eqb (keys l)).
  Proof.
    induction l as [|[k v] r IH]; intros S; cbn; [tauto|].
    rewrite orb_false_iff, IH; [|intros; apply S; now right].
    assert (X : sp_has eqb r k = false <-> (forall k', In k' (keys r) -> eqb k k' = false)).
    { unfold sp_has. split.
      - intros H k' Hk'. apply in_map_iff in Hk' as ([s w] & <- & Hin).
        assert (Y : same eqb s k = false).
        { destruct (same eqb s k) eqn:Z; [|reflexivity]. rewrite <- H. symmetry. apply existsb_exists. exists (s, w). auto. }
        unfold same in Y. apply orb_false_iff in Y as [_ Y]. exact Y.
      - intros H. destruct (existsb _ r) eqn:Z; [|reflexivity]. apply existsb_exists in Z as ([s w] & Hin & Y).
        cbn in Y. unfold same in Y. assert (Is : In s (keys r)) by (apply in_map_iff; exists (s, w); auto).
        rewrite (S s k) in Y; [|now right|now left]. rewrite orb_diag in Y. rewrite H in Y; auto. }
    rewrite X. tauto.
  Qed.

  Lemma refines_literal (l : omap) :
    (forall a b, In a (keys l) -> In b (keys l) -> eqb a b = eqb b a) ->
    (om_literal eqb [] l = None <-> sp_has_dup eqb l = true).
  Proof.
    intros S. destruct (literal_dup eqb l) as [_ B]. rewrite B, <- (has_dup_nodup l S).
    destruct (sp_has_dup eqb l); split; congruence.
  Qed.
End Refine.

(* ---- the instance on values ---- *)
Definition wf_state (st : value) : Prop := NoDupKeys veq (state_map st).

Lemma v_remove_nodup ks : forall m, NoDupKeys veq m -> NoDupKeys veq (v_remove m ks).
Proof.
  unfold v_remove. induction ks as [|k r IH]; intros m H; [exact H|]. cbn. apply IH. now apply remove_nodup.
Qed.

Lemma set_inner_cons2 m k k2 rest x :
  set_inner m (k :: k2 :: rest) x =
  match set_inner (match om_get veq m k with Some (VMap i) => i | _ => [] end) (k2 :: rest) x with
  | Some i' => Some (fst (om_insert veq m k (VMap i')))
  | None => None
  end.
Proof. reflexivity. Qed.

Lemma set_inner_nodup ks : forall m x m', set_inner m ks x = Some m' -> NoDupKeys veq m -> NoDupKeys veq m'.
Proof.
  destruct ks as [|k [|k2 rest]]; intros m x m'.
  - discriminate.
  - cbn [set_inner]. intros [= <-] H. now apply insert_nodup.
  - rewrite set_inner_cons2.
    destruct (set_inner _ (k2 :: rest) x); [|discriminate].
    intros [= <-] H. now apply insert_nodup.
Qed.

(* map.set with a key path never moves or renames a stored key: the keys are those of the map,
   plus the first path key at the end when it was absent *)
Lemma set_path_keys ks : forall m x m', set_inner m ks x = Some m' ->
  match ks with
  | [] => False
  | k :: _ => keys m' = if has veq (keys m) k then keys m else keys m ++ [k]
  end.
Proof.
  destruct ks as [|k [|k2 rest]]; intros m x m'.
  - discriminate.
  - cbn [set_inner]. intros [= <-]. apply insert_keys.
  - rewrite set_inner_cons2. destruct (set_inner _ (k2 :: rest) x); [|discriminate].
    intros [= <-]. apply insert_keys.
Qed.

Lemma eval_literal_wf l st : eval_literal l = Some st -> wf_state st.
Proof.
  unfold eval_literal, wf_state. destruct l as [|kv r].
  - intros [= <-]. exact I.
  - destruct (om_literal veq [] (kv :: r)) eqn:E; [|discriminate]. intros [= <-]. cbn.
    now destruct (literal_ok veq _ _ _ E I).
Qed.

Lemma step_wf st o st' t : step_model st o = Some (st', t) -> wf_state st -> wf_state st'.
Proof.
  unfold wf_state. destruct o; cbn [step_model].
  - intros [= <- _]; auto.
  - intros [= <- _]; auto.
  - intros [= <- _] H. cbn. now apply v_remove_nodup.
  - destruct (set_inner (state_map st) (map kp ks) (vp v)) eqn:E; [|discriminate].
    intros [= <- _] H. cbn. eapply set_inner_nodup; eauto.
  - destruct (eval_literal (lit m2)); [|discriminate]. intros [= <- _] H. cbn. now apply merge_nodup.
  - intros [= <- _]; auto.
  - intros [= <- _]; auto.
  - destruct (eval_literal (lit m2)); [|discriminate]. intros [= <- _]; auto.
  - destruct (eval_literal (lit m2)); [|discriminate]. intros [= <- _]; auto.
  - destruct (eval_literals ls); [|discriminate]. intros [= <- _]; auto.
Qed.

Lemma steps_wf ops : forall st fin ts, steps_model st ops = Some (fin, ts) -> wf_state st -> wf_state fin.
Proof.
  induction ops as [|o r IH]; intros st fin ts; cbn.
  - intros [= <- _]; auto.
  - destruct (step_model st o) as [[st' t]|] eqn:E; [|discriminate].
    destruct (steps_model st' r) as [[f ts']|] eqn:F; [|discriminate].
    intros [= <- _] H. eapply IH; eauto. eapply step_wf; eauto.
Qed.

(* every map reachable by a program (any literal, any operation sequence) has no two == keys *)
Lemma inv c fin ts : run_model c = Some (fin, ts) -> NoDupKeys veq (state_map fin).
Proof.
  unfold run_model. destruct (eval_literal (lit (c_init c))) as [st|] eqn:E; [|discriminate].
  destruct (steps_model st (c_ops c)) as [[f ts']|] eqn:F; [|discriminate].
  intros [= <- _]. eapply steps_wf; eauto. eapply eval_literal_wf; eauto.
Qed.

(* == is an equivalence on the key pool: sweeps *)
Definition pool_refl_b : bool := forallb (fun a => veq a a) key_pool.
Definition sym_at (a b : value) : bool := Bool.eqb (veq a b) (veq b a).
Definition pool_sym_b : bool := forallb (fun a => forallb (sym_at a) key_pool) key_pool.
Definition trans_at (a b : value) : bool :=
  if veq a b then forallb (fun c => implb (veq b c) (veq a c)) key_pool else true.
Definition pool_trans_b : bool := forallb (fun a => forallb (trans_at a) key_pool) key_pool.

Lemma pool_refl_ok : pool_refl_b = true. Proof. vm_compute. reflexivity. Qed.
Lemma pool_sym_ok : pool_sym_b = true. Proof. vm_compute. reflexivity. Qed.
Lemma pool_trans_ok : pool_trans_b = true. Proof. vm_compute. reflexivity. Qed.

Lemma pool_equiv : equiv_on veq key_pool.
Proof.
  repeat split.
  - intros a Ha. exact (sweep1 key_pool _ pool_refl_ok a Ha).
  - intros a b Ha Hb. assert (X := sweep2 key_pool key_pool sym_at pool_sym_ok a b Ha Hb).
    unfold sym_at in X. now apply eqb_prop in X.
  - intros a b c Ha Hb Hc E1 E2. assert (X := sweep2 key_pool key_pool trans_at pool_trans_ok a b Ha Hb).
    unfold trans_at in X. rewrite E1 in X. assert (Y := sweep1 key_pool _ X c Hc). cbn in Y.
    rewrite E2 in Y. exact Y.
Qed.

(* ---- == on values: eqR is eqL with the operands exchanged; map == is om_eq ---- *)
Section value_ind2.
  Variable P : value -> Prop.
  Hypothesis HN : forall b u s, P (VNum b u s).
  Hypothesis HS : forall s, P (VStr s).
  Hypothesis HB : forall b, P (VBool b).
  Hypothesis HNull : P VNull.
  Hypothesis HL : forall l s b, Forall P l -> P (VList l s b).
  Hypothesis HM : forall m, Forall (fun kv => P (fst kv) /\ P (snd kv)) m -> P (VMap m).
  Hypothesis HA : forall l, Forall P l -> P (VArgs l).
  Fixpoint value_ind2 (v : value) : P v :=
    match v with
    | VNum b u s => HN b u s
    | VStr s => HS s
    | VBool b => HB b
    | VNull => HNull
    | VList l s b =>
        HL l s b ((fix go (l : list value) : Forall P l :=
                     match l with [] => Forall_nil _ | x :: r => Forall_cons x (value_ind2 x) (go r) end) l)
    | VMap m =>
        HM m ((fix go (m : list (value * value)) : Forall (fun kv => P (fst kv) /\ P (snd kv)) m :=
                 match m with
                 | [] => Forall_nil _
                 | (k, x) :: r => Forall_cons (k, x) (conj (value_ind2 k) (value_ind2 x)) (go r)
                 end) m)
    | VArgs l =>
        HA l ((fix go (l : list value) : Forall P l :=
                 match l with [] => Forall_nil _ | x :: r => Forall_cons x (value_ind2 x) (go r) end) l)
    end.
End value_ind2.

Fixpoint pairsL (xs ys : list value) : bool :=
  match xs, ys with
  | [], [] => true
  | a :: xs', b :: ys' => eqL a b && pairsL xs' ys'
  | _, _ => false
  end.
Fixpoint pairsR (xs ys : list value) : bool :=
  match xs, ys with
  | [], [] => true
  | a :: xs', b :: ys' => eqR a b && pairsR xs' ys'
  | _, _ => false
  end.
(* looking (k, v) up in ys, written from k's side / from the stored side *)
Fixpoint getR (ys : list (value * value)) (k v : value) : bool :=
  match ys with
  | [] => false
  | (k', v') :: ys' => if eqR k k' then eqR v v' else getR ys' k v
  end.
Fixpoint getL (xs : list (value * value)) (k v : value) : bool :=
  match xs with
  | [] => false
  | (k', v') :: xs' => if eqL k' k then eqL v' v else getL xs' k v
  end.

Lemma eqL_list xs s1 k1 ys s2 k2 :
  eqL (VList xs s1 k1) (VList ys s2 k2) = pairsL xs ys && osep_eqb s1 s2 && Bool.eqb k1 k2.
Proof. reflexivity. Qed.
Lemma eqR_list xs s1 k1 ys s2 k2 :
  eqR (VList xs s1 k1) (VList ys s2 k2) = pairsR xs ys && osep_eqb s2 s1 && Bool.eqb k2 k1.
Proof. reflexivity. Qed.
Lemma eqL_args xs ys : eqL (VArgs xs) (VArgs ys) = pairsL xs ys.
Proof. reflexivity. Qed.
Lemma eqR_args xs ys : eqR (VArgs xs) (VArgs ys) = pairsR xs ys.
Proof. reflexivity. Qed.

Lemma eqL_map xs ys :
  eqL (VMap xs) (VMap ys) =
  Nat.eqb (length xs) (length ys) && forallb (fun kv => getR ys (fst kv) (snd kv)) xs.
Proof.
  cbn [eqL]. f_equal. induction xs as [|[k v] r IH]; [reflexivity|]. cbn [forallb fst snd]. rewrite <- IH. f_equal.
  clear IH. induction ys as [|[k' v'] ys IHy]; [reflexivity|]. cbn [getR]. rewrite <- IHy. reflexivity.
Qed.
Lemma eqR_map xs ys :
  eqR (VMap xs) (VMap ys) =
  Nat.eqb (length ys) (length xs) && forallb (fun kv => getL xs (fst kv) (snd kv)) ys.
Proof.
  cbn [eqR]. f_equal. apply forallb_ext_in'. intros [k v] _. cbn [fst snd].
  induction xs as [|[k' v'] xs IHx]; [reflexivity|]. cbn [getL]. rewrite <- IHx. reflexivity.
Qed.

Definition flipQ (x : value) : Prop := forall y, eqR x y = eqL y x /\ eqL x y = eqR y x.

Lemma pairs_flip xs : Forall flipQ xs -> forall ys, pairsR xs ys = pairsL ys xs /\ pairsL xs ys = pairsR ys xs.
Proof.
  induction 1 as [|x r Hx Hr IH]; intros [|y ys]; cbn; try (split; reflexivity).
  destruct (Hx y) as [A B]. destruct (IH ys) as [C D]. rewrite A, B, C, D. split; reflexivity.
Qed.

Lemma eq_flip : forall x, flipQ x.
Proof.
  apply value_ind2; unfold flipQ.
  - intros b u s [ | | | | | | ]; split; reflexivity.
  - intros s [ | | | | | | ]; split; reflexivity.
  - intros b [ | | | | | | ]; split; reflexivity.
  - intros [ | | | | | | ]; split; reflexivity.
  - intros l s b F [ | | | |ys s2 k2|ys| ]; try (split; reflexivity).
    + destruct (pairs_flip l F ys) as [A B]. rewrite !eqL_list, !eqR_list, A, B. split; reflexivity.
  - intros m F [ | | | |ys s2 k2|ys| ]; try (split; reflexivity).
    + rewrite !eqL_map, !eqR_map. split.
      * f_equal. apply forallb_ext_in'. intros [k v] _. cbn [fst snd].
        induction F as [|[k' v'] r [Hk Hv] Hr IH]; [reflexivity|]. cbn [getL getR]. cbn [fst snd] in Hk, Hv.
        destruct (Hk k) as [_ A]. destruct (Hv v) as [_ B]. rewrite A, B, IH. reflexivity.
      * f_equal. induction F as [|[k v] r [Hk Hv] Hr IH]; [reflexivity|]. cbn [forallb fst snd]. cbn [fst snd] in Hk, Hv. rewrite IH. f_equal.
        clear IH. induction ys as [|[k' v'] ys IHy]; [reflexivity|]. cbn [getL getR].
        destruct (Hk k') as [A _]. destruct (Hv v') as [B _]. rewrite A, B, IHy. reflexivity.
  - intros l F [ | | | | | |ys]; try (split; reflexivity).
    destruct (pairs_flip l F ys) as [A B]. rewrite !eqL_args, !eqR_args, A, B. split; reflexivity.
Qed.

Lemma eqR_veq x y : eqR x y = veq y x.
Proof. exact (proj1 (eq_flip x y)). Qed.

Lemma getR_om_get ys k v :
  getR ys k v = match om_get veq ys k with Some v' => veq v' v | None => false end.
Proof.
  induction ys as [|[k' v'] r IH]; [reflexivity|]. cbn [getR om_get]. rewrite !eqR_veq.
  destruct (veq k' k); [reflexivity|exact IH].
Qed.

(* css::Value::Map == Map on the model is OrderMap equality with == on keys and values *)
Lemma veq_map_om_eq a b : veq (VMap a) (VMap b) = om_eq veq veq a b.
Proof.
  unfold veq at 1. rewrite eqL_map. unfold om_eq. f_equal. apply forallb_ext_in'. intros [k v] _.
  cbn [fst snd]. apply getR_om_get.
Qed.

Lemma equiv_euclid {K} (eqb : K -> K -> bool) U ks k :
  equiv_on eqb U -> In k U -> (forall s, In s ks -> In s U) -> euclid_on eqb ks k.
Proof.
  intros (R & S & T) Hk Hs s1 s2 I1 I2 E1 E2. apply (T s1 k s2); auto. rewrite S; auto.
Qed.

(* for maps over pool keys: == does not depend on the order of either operand *)
Lemma pool_eq_order a a' b b' :
  incl (keys a ++ keys b) key_pool -> Permutation a a' -> Permutation b b' ->
  NoDupKeys veq b -> NoDupKeys veq b' ->
  veq (VMap a) (VMap b) = veq (VMap a') (VMap b').
Proof.
  intros I Pa Pb N N'. rewrite !veq_map_om_eq.
  rewrite (om_eq_perm_l veq veq a a' b Pa).
  apply om_eq_perm_r; auto. intros k Hk.
  apply (equiv_euclid veq key_pool); [exact pool_equiv| |].
  - apply I. apply in_or_app. left.
    eapply Permutation_in; [apply Permutation_sym, Permutation_map; exact Pa|exact Hk].
  - intros s Hs. apply I. apply in_or_app. now right.
Qed.

Definition w_a : vmap := [(kp 13, vp 0); (kp 16, vp 1)].
Definition w_b : vmap := [(kp 17, vp 1); (kp 14, vp 0)].
(* (a: 1, b: 2) == ("b": 2, "a": 1) *)
Lemma eq_order_example : veq (VMap w_a) (VMap w_b) = true /\ veq (VMap w_b) (VMap w_a) = true.
Proof. split; vm_compute; reflexivity. Qed.
