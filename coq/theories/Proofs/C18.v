(* Proofs for C18. *)
From Coq Require Import String Ascii List ZArith NArith Bool Lia.
From RV Require Import Model.EvValue Model.EvArgs Spec.SassArgs Run.C18.
Import ListNotations.
Local Open Scope string_scope.
Local Open Scope list_scope.

(* ------------------------------------------------------------------ names *)
Lemma norm_idem s : norm (norm s) = norm s.
Proof.
  induction s as [|c r IH]; [reflexivity|]. cbn [norm]. rewrite IH. f_equal.
  destruct (Ascii.eqb c "-"%char) eqn:E; [reflexivity | rewrite E; reflexivity].
Qed.

Definition nmap (N : list (string * value)) : named := map (fun kv => (norm (fst kv), snd kv)) N.
Definition has_key (m : named) (k : string) : bool := existsb (fun kv => String.eqb k (fst kv)) m.
Definition keys_norm (m : named) : Prop := forall kv, In kv m -> norm (fst kv) = fst kv.

Lemma nmap_keys_norm N : keys_norm (nmap N).
Proof. intros kv H. apply in_map_iff in H. destruct H as [[k v] [E _]]. subst kv. cbn. apply norm_idem. Qed.
Lemma nmap_length N : length (nmap N) = length N.
Proof. apply map_length. Qed.

Lemma has_name_nmap N k : has_name N k = has_key (nmap N) (norm k).
Proof. induction N as [|[k' v] r IH]; [reflexivity|]. cbn. unfold same_name. rewrite IH. reflexivity. Qed.
Lemma get_name_nmap N k : get_name N k = n_get (nmap N) (norm k).
Proof. induction N as [|[k' v] r IH]; [reflexivity|]. cbn. unfold same_name. rewrite IH. reflexivity. Qed.
Lemma get_name_keys_norm m k : keys_norm m -> get_name m k = n_get m (norm k).
Proof.
  induction m as [|[k' v] r IH]; intros H; [reflexivity|]. cbn. unfold same_name.
  pose proof (H (k', v) (or_introl eq_refl)) as Hk. cbn in Hk. rewrite Hk. rewrite IH; [reflexivity|].
  intros kv Hi. apply H. right. exact Hi.
Qed.

Lemma has_key_app m1 m2 k : has_key (m1 ++ m2) k = has_key m1 k || has_key m2 k.
Proof. unfold has_key. apply existsb_app. Qed.

(* ------------------------------------------------------------------ OrderMap operations *)
Lemma n_insert_fresh m k v : has_key m k = false -> n_insert m k v = (m ++ [(k, v)], false).
Proof.
  induction m as [|[k' w] r IH]; cbn; [reflexivity|].
  destruct (String.eqb k k') eqn:E; cbn; [discriminate|]. intros H. rewrite (IH H). reflexivity.
Qed.
Lemma n_insert_present m k v : has_key m k = true -> snd (n_insert m k v) = true.
Proof.
  induction m as [|[k' w] r IH]; cbn; [discriminate|].
  destruct (String.eqb k k') eqn:E; cbn; [reflexivity|]. intros H. specialize (IH H).
  destruct (n_insert r k v). exact IH.
Qed.

(* CallArgs::new: an error iff an explicit name repeats, else the keywords in order *)
Lemma explicit_named_spec l : forall acc,
  explicit_named l acc =
  if dup_names l || existsb (fun kv => has_key acc (norm (fst kv))) l then None else Some (acc ++ nmap l).
Proof.
  induction l as [|[k v] r IH]; intros acc; cbn [explicit_named dup_names existsb nmap map fst snd].
  - rewrite app_nil_r. reflexivity.
  - destruct (has_key acc (norm k)) eqn:HK.
    + pose proof (n_insert_present acc (norm k) v HK) as P. destruct (n_insert acc (norm k) v) as [a o].
      cbn in P. subst o. rewrite orb_true_r. reflexivity.
    + rewrite (n_insert_fresh acc (norm k) v HK). rewrite IH. cbn [orb].
      assert (E : existsb (fun kv => has_key (acc ++ [(norm k, v)]) (norm (fst kv))) r
                  = existsb (fun kv => has_key acc (norm (fst kv))) r || has_name r k).
      { clear. induction r as [|[k' v'] r IH]; [reflexivity|]. cbn [existsb has_name fst].
        rewrite IH, has_key_app. cbn [has_key existsb fst]. unfold same_name.
        rewrite (String.eqb_sym (norm k') (norm k)).
        destruct (has_key acc (norm k')), (String.eqb (norm k) (norm k')),
                 (existsb (fun kv => has_key acc (norm (fst kv))) r), (has_name r k); reflexivity. }
      rewrite E. unfold nmap. rewrite <- app_assoc. cbn [app].
      destruct (has_name r k), (dup_names r), (existsb (fun kv => has_key acc (norm (fst kv))) r); reflexivity.
Qed.

Lemma dup_names_app l m : dup_names (l ++ m) = false -> dup_names l = false /\ dup_names m = false /\
  forall kv, In kv m -> has_name l (fst kv) = false.
Proof.
  induction l as [|[k v] r IH]; cbn [app dup_names].
  - intros H. split; [reflexivity|]. split; [exact H|]. intros; reflexivity.
  - intros H. apply orb_false_iff in H. destruct H as [H1 H2]. destruct (IH H2) as (A & B & C).
    assert (HN : forall l', has_name (r ++ l') k = has_name r k || has_name l' k).
    { clear. induction r as [|[k' v'] r IH]; intros; [reflexivity|]. cbn. rewrite IH. apply orb_assoc. }
    rewrite HN in H1. apply orb_false_iff in H1. destruct H1 as [H1a H1b].
    split; [rewrite H1a, A; reflexivity|]. split; [exact B|].
    intros [k' v'] Hi. cbn [has_name fst]. pose proof (C _ Hi) as C1. cbn [fst] in C1. rewrite C1, orb_false_r.
    (* k' is in m and k is not a name of m *)
    clear - H1b Hi. induction m as [|[k2 v2] m IH]; [destruct Hi|].
    cbn in H1b. apply orb_false_iff in H1b. destruct H1b as [E1 E2]. destruct Hi as [Hi|Hi].
    + inversion Hi; subst. unfold same_name in *. rewrite String.eqb_sym. exact E1.
    + exact (IH E2 Hi).
Qed.

(* Step A: CallArgs::new + CallArgs::evaluate *)
Lemma explicit_named_app l m : forall acc,
  explicit_named (l ++ m) acc = match explicit_named l acc with None => None | Some a => explicit_named m a end.
Proof.
  induction l as [|[k v] r IH]; intros acc; [reflexivity|]. cbn [app explicit_named].
  destruct (n_insert acc (norm k) v) as [a o]. destruct o; [reflexivity | apply IH].
Qed.

(* the three checked stages (explicit keywords, keywords of a splatted argument list, entries of a
   map splat - since fix 5cd805f) are one insert-or-duplicate pass over all named arguments *)
Lemma call_evaluate_alt c :
  call_evaluate c =
  match explicit_named (all_named c) [] with
  | None => None
  | Some n => Some (all_positional c, n)
  end.
Proof.
  unfold call_evaluate, all_named, checked_named, all_positional, add_arglist, add_map, arglist_pos, splat_items.
  rewrite !explicit_named_app. destruct (explicit_named (c_named c) []) as [n|]; [|reflexivity].
  destruct (c_asplat c) as [[p kw]|].
  - destruct (explicit_named kw n) as [n'|]; [|reflexivity].
    destruct (c_msplat c) as [kvs|]; [destruct (explicit_named kvs n') | cbn [explicit_named]];
      destruct (c_lsplat c) as [[]|]; reflexivity.
  - cbn [explicit_named].
    destruct (c_msplat c) as [kvs|]; [destruct (explicit_named kvs n) | cbn [explicit_named]];
      destruct (c_lsplat c) as [[]|]; reflexivity.
Qed.

Lemma has_key_nil_all (l : list (string * value)) : existsb (fun kv => has_key [] (norm (fst kv))) l = false.
Proof. induction l as [|x l IHl]; [reflexivity | cbn; exact IHl]. Qed.

Lemma call_evaluate_dup c : dup_names (all_named c) = true -> call_evaluate c = None.
Proof. intros H. rewrite call_evaluate_alt, explicit_named_spec, H. reflexivity. Qed.

Lemma call_evaluate_nodup c : dup_names (all_named c) = false ->
  call_evaluate c = Some (all_positional c, nmap (all_named c)).
Proof. intros H. rewrite call_evaluate_alt, explicit_named_spec, H, has_key_nil_all. reflexivity. Qed.

(* ------------------------------------------------------------------ Step B: FormalArgs::eval *)
Definition names (ps : list (string * option dexpr)) : list string := map (fun p => norm (fst p)) ps.
Definition sig_wf (s : sigT) : Prop := NoDup (names (s_params s)).

Definition bind1 (name : string) (v : value) : string * value := (norm name, v).

(* positional phase, then the named/default phase, as one recursion over the parameters *)
Fixpoint zipbind (ps : list (string * option dexpr)) (Q : list value) (b : list (string * value)) (nm : named)
  : option (list (string * value) * named) :=
  match ps with
  | [] => Some (b, nm)
  | (name, d) :: r =>
      match Q with
      | v :: Q' => zipbind r Q' (b ++ [bind1 name v]) nm
      | [] => bind_rest_params ps b nm
      end
  end.

Lemma zipbind_model ps : forall Q b nm,
  bind_rest_params (skipn (length (firstn (length ps) Q)) ps)
                   (b ++ map (fun pv => (norm (fst (fst pv)), snd pv)) (combine ps (firstn (length ps) Q))) nm
  = zipbind ps Q b nm.
Proof.
  induction ps as [|[name d] r IH]; intros Q b nm.
  - cbn. rewrite app_nil_r. reflexivity.
  - destruct Q as [|v Q'].
    + cbn [length firstn skipn combine map zipbind]. rewrite app_nil_r. reflexivity.
    + cbn [length firstn skipn combine map fst snd zipbind].
      rewrite <- (IH Q' (b ++ [bind1 name v]) nm). rewrite <- app_assoc. reflexivity.
Qed.

Fixpoint zipspec (ps : list (string * option dexpr)) (Q : list value) (N : list (string * value))
  (b : list (string * value)) : option (list (string * value)) :=
  match ps with
  | [] => Some b
  | (name, d) :: r =>
      match Q with
      | v :: Q' => zipspec r Q' N (b ++ [bind1 name v])
      | [] =>
          match (match get_name N name with
                 | Some v => Some v
                 | None => match d with Some d => spec_default b d | None => None end
                 end) with
          | Some v => zipspec r [] N (b ++ [bind1 name v])
          | None => None
          end
      end
  end.

Lemma nth_error_skipn {A} (P : list A) : forall i, nth_error P i = hd_error (skipn i P).
Proof. induction P as [|x P IH]; intros [|i]; cbn; auto. Qed.
Lemma skipn_S_tl {A} (P : list A) : forall i, skipn (S i) P = tl (skipn i P).
Proof.
  induction P as [|x P IH]; intros [|i]; try reflexivity.
  change (skipn (S (S i)) (x :: P)) with (skipn (S i) P). change (skipn (S i) (x :: P)) with (skipn i P).
  apply IH.
Qed.

Lemma zipspec_spec ps : forall i P N b, spec_params ps i P N b = zipspec ps (skipn i P) N b.
Proof.
  induction ps as [|[name d] r IH]; intros i P N b; [reflexivity|].
  cbn [spec_params zipspec]. rewrite nth_error_skipn.
  pose proof (skipn_S_tl P i) as T.
  destruct (skipn i P) as [|v Q']; cbn [hd_error tl] in *.
  - destruct (get_name N name) as [v|].
    + rewrite IH, T. reflexivity.
    + destruct d as [d|]; [|reflexivity]. destruct (spec_default b d); [|reflexivity].
      rewrite IH, T. reflexivity.
  - rewrite IH, T. reflexivity.
Qed.

(* n_remove *)
Lemma n_remove_fst m k : fst (n_remove m k) = n_get m k.
Proof.
  induction m as [|[k' w] r IH]; [reflexivity|]. cbn. destruct (String.eqb k k'); [reflexivity|].
  destruct (n_remove r k). exact IH.
Qed.
Lemma n_remove_absent m k : n_get m k = None -> snd (n_remove m k) = m.
Proof.
  induction m as [|[k' w] r IH]; [reflexivity|]. cbn. destruct (String.eqb k k'); [discriminate|].
  intros H. specialize (IH H). destruct (n_remove r k). cbn in *. rewrite IH. reflexivity.
Qed.
Lemma n_remove_other m k k' : k <> k' -> n_get (snd (n_remove m k)) k' = n_get m k'.
Proof.
  intros N. induction m as [|[k2 w] r IH]; [reflexivity|]. cbn. destruct (String.eqb k k2) eqn:E.
  - apply String.eqb_eq in E. subst k2. cbn.
    destruct (String.eqb k' k) eqn:F; [apply String.eqb_eq in F; congruence | reflexivity].
  - destruct (n_remove r k) as [o r'] eqn:ER. cbn in *. rewrite IH. reflexivity.
Qed.

Definition remove_keys (ks : list string) (m : named) : named :=
  fold_left (fun m k => snd (n_remove m k)) ks m.

Lemma keys_norm_snoc b name v : keys_norm b -> keys_norm (b ++ [bind1 name v]).
Proof.
  intros H kv Hi. apply in_app_or in Hi. destruct Hi as [Hi|[Hi|[]]]; [apply H; exact Hi|].
  subst kv. cbn. apply norm_idem.
Qed.

Lemma globals_keys_norm : keys_norm globals.
Proof. intros kv [H|[H|[H|[]]]]; subst kv; reflexivity. Qed.

Lemma default_same b d : keys_norm b -> eval_default b d = spec_default b d.
Proof.
  intros H. destruct d as [v|n]; [reflexivity|]. unfold eval_default, spec_default.
  rewrite (get_name_keys_norm b n H), (get_name_keys_norm globals n globals_keys_norm). reflexivity.
Qed.

(* the named/default phase: removing keywords as they are used = looking them up in the whole set *)
Lemma named_phase N ps : forall b nm,
  NoDup (names ps) -> keys_norm b ->
  (forall p, In p ps -> n_get nm (norm (fst p)) = n_get (nmap N) (norm (fst p))) ->
  bind_rest_params ps b nm =
  option_map (fun b' => (b', remove_keys (names ps) nm)) (zipspec ps [] N b).
Proof.
  induction ps as [|[name d] r IH]; intros b nm Hnd Hb Hget; [reflexivity|].
  cbn [bind_rest_params zipspec names map fst remove_keys fold_left].
  inversion Hnd as [|x l Hnotin Hnd' Heq]; subst.
  pose proof (Hget (name, d) (or_introl eq_refl)) as HG. cbn [fst] in HG. rewrite <- get_name_nmap in HG.
  assert (Hrest : forall nm2, (forall k', k' <> norm name -> n_get nm2 k' = n_get nm k') ->
                  forall p, In p r -> n_get nm2 (norm (fst p)) = n_get (nmap N) (norm (fst p))).
  { intros nm2 H2 p Hp. rewrite H2; [apply Hget; right; exact Hp|].
    intros E. apply Hnotin. unfold names. rewrite <- E. apply in_map_iff. exists p. auto. }
  destruct (n_remove nm (norm name)) as [o nm'] eqn:ER.
  assert (Eo : o = n_get nm (norm name)) by (rewrite <- n_remove_fst, ER; reflexivity).
  assert (Enm : nm' = snd (n_remove nm (norm name))) by (rewrite ER; reflexivity).
  cbn [snd]. rewrite Eo, HG. unfold bind1 in *.
  destruct (get_name N name) as [v|] eqn:EG.
  - rewrite (IH (b ++ [(norm name, v)]) nm' Hnd' (keys_norm_snoc _ name v Hb)); [reflexivity|].
    apply Hrest. intros k' Hk. rewrite Enm. apply n_remove_other. congruence.
  - assert (E2 : nm' = nm) by (rewrite Enm; apply n_remove_absent; exact HG).
    rewrite E2. destruct d as [d|]; [|reflexivity].
    rewrite (default_same b d Hb). destruct (spec_default b d) as [v|]; [|reflexivity].
    rewrite (IH (b ++ [(norm name, v)]) nm Hnd' (keys_norm_snoc _ name v Hb)); [reflexivity|].
    apply Hrest. intros; reflexivity.
Qed.

Lemma NoDup_skipn {A} (l : list A) : forall n, NoDup l -> NoDup (skipn n l).
Proof.
  induction l as [|x l IH]; intros [|n] H; cbn; auto. inversion H; subst. apply IH. assumption.
Qed.
Lemma names_skipn ps n : names (skipn n ps) = skipn n (names ps).
Proof. unfold names. revert n. induction ps as [|p r IH]; intros [|n]; cbn; auto. Qed.

Lemma zip_phase N ps : forall Q b,
  NoDup (names ps) -> keys_norm b ->
  zipbind ps Q b (nmap N) =
  option_map (fun b' => (b', remove_keys (names (skipn (length Q) ps)) (nmap N))) (zipspec ps Q N b).
Proof.
  induction ps as [|[name d] r IH]; intros Q b Hnd Hb.
  - destruct Q; reflexivity.
  - destruct Q as [|v Q'].
    + cbn [zipbind length skipn]. apply named_phase; auto.
    + cbn [zipbind zipspec length skipn]. inversion Hnd; subst.
      apply IH; [assumption | apply keys_norm_snoc; exact Hb].
Qed.

(* ------------------------------------------------------------------ the left-over keywords *)
Fixpoint dup_keys (m : named) : bool :=
  match m with [] => false | (k, _) :: r => has_key r k || dup_keys r end.
Lemma dup_keys_nmap N : dup_keys (nmap N) = dup_names N.
Proof.
  induction N as [|[k v] r IH]; [reflexivity|]. cbn [nmap map dup_keys dup_names fst snd].
  fold (nmap r). rewrite IH, has_name_nmap. reflexivity.
Qed.

Definition key_ne (k : string) (kv : string * value) : bool := negb (String.eqb (fst kv) k).
Definition key_notin (ks : list string) (kv : string * value) : bool :=
  negb (existsb (String.eqb (fst kv)) ks).

Lemma filter_absent m k : has_key m k = false -> filter (key_ne k) m = m.
Proof.
  induction m as [|[k' w] r IH]; [reflexivity|]. cbn. unfold key_ne at 1. cbn [fst].
  rewrite (String.eqb_sym k' k). destruct (String.eqb k k'); cbn; [discriminate|].
  intros H. rewrite (IH H). reflexivity.
Qed.
Lemma remove_one m k : dup_keys m = false -> snd (n_remove m k) = filter (key_ne k) m.
Proof.
  induction m as [|[k' w] r IH]; [reflexivity|]. cbn [dup_keys n_remove filter]. intros H.
  apply orb_false_iff in H. destruct H as [H1 H2]. unfold key_ne at 1. cbn [fst].
  rewrite (String.eqb_sym k' k). destruct (String.eqb k k') eqn:E; cbn [negb snd].
  - apply String.eqb_eq in E. subst k'. rewrite (filter_absent r k H1). reflexivity.
  - specialize (IH H2). destruct (n_remove r k) as [o r']. cbn [snd] in *. rewrite IH. reflexivity.
Qed.
Lemma has_key_filter m f k : has_key m k = false -> has_key (filter f m) k = false.
Proof.
  induction m as [|[k' w] r IH]; [reflexivity|]. cbn. intros H. apply orb_false_iff in H. destruct H as [H1 H2].
  destruct (f (k', w)); cbn; [rewrite H1; cbn|]; apply IH; exact H2.
Qed.
Lemma dup_keys_filter m f : dup_keys m = false -> dup_keys (filter f m) = false.
Proof.
  induction m as [|[k' w] r IH]; [reflexivity|]. cbn. intros H. apply orb_false_iff in H. destruct H as [H1 H2].
  destruct (f (k', w)); cbn; [rewrite (has_key_filter r f k' H1); cbn|]; apply IH; exact H2.
Qed.
Lemma remove_keys_filter ks : forall m, dup_keys m = false -> remove_keys ks m = filter (key_notin ks) m.
Proof.
  induction ks as [|k ks IH]; intros m H; cbn [remove_keys fold_left].
  - unfold key_notin. cbn. induction m as [|x m IHm]; [reflexivity|]. cbn. f_equal. apply IHm.
    destruct x. cbn in H. apply orb_false_iff in H. tauto.
  - fold (remove_keys ks (snd (n_remove m k))). rewrite (remove_one m k H).
    rewrite (IH _ (dup_keys_filter m (key_ne k) H)).
    clear. induction m as [|x m IHm]; [reflexivity|]. cbn [filter].
    unfold key_ne at 1 3, key_notin at 2. cbn [existsb].
    destruct (String.eqb (fst x) k) eqn:E; cbn [negb orb andb].
    + exact IHm.
    + cbn [filter]. unfold key_notin at 1. destruct (existsb (String.eqb (fst x)) ks); cbn [negb]; rewrite IHm; reflexivity.
Qed.

Lemma filter_nmap (f : string * value -> bool) (f' : string * value -> bool) N :
  (forall kv, In kv N -> f kv = f' (norm (fst kv), snd kv)) -> nmap (filter f N) = filter f' (nmap N).
Proof.
  induction N as [|kv r IH]; intros H; [reflexivity|]. cbn [filter nmap map].
  rewrite <- (H kv (or_introl eq_refl)). destruct (f kv); cbn [map]; fold (nmap r) (nmap (filter f r));
  rewrite IH; auto; intros; apply H; right; assumption.
Qed.

Lemma is_param_names ps k : is_param ps k = existsb (String.eqb (norm k)) (names ps).
Proof.
  unfold is_param, names. induction ps as [|p r IH]; [reflexivity|]. cbn. rewrite IH. unfold same_name.
  rewrite (String.eqb_sym (norm (fst p)) (norm k)). reflexivity.
Qed.

Lemma has_name_false_in N p : has_name N p = false -> forall kv, In kv N -> String.eqb (norm (fst kv)) (norm p) = false.
Proof.
  induction N as [|[k v] r IH]; intros H kv Hi; [destruct Hi|]. cbn in H. apply orb_false_iff in H. destruct H as [H1 H2].
  destruct Hi as [Hi|Hi]; [subst kv; cbn; unfold same_name in H1; rewrite String.eqb_sym; exact H1 | exact (IH H2 kv Hi)].
Qed.

(* with no keyword naming a positionally bound parameter, what FormalArgs::eval leaves over
   is exactly the keywords that name no parameter *)
Lemma leftover N ps t :
  dup_names N = false ->
  existsb (fun p => has_name N (fst p)) (firstn t ps) = false ->
  remove_keys (names (skipn t ps)) (nmap N) =
  nmap (filter (fun kv => negb (is_param ps (fst kv))) N).
Proof.
  intros Hd Hb. rewrite remove_keys_filter by (rewrite dup_keys_nmap; exact Hd).
  symmetry. apply filter_nmap. intros kv Hi. unfold key_notin. cbn [fst]. f_equal.
  rewrite is_param_names. rewrite <- (firstn_skipn t ps) at 1. unfold names at 1. rewrite map_app.
  fold (names (firstn t ps)) (names (skipn t ps)). rewrite existsb_app.
  assert (E : existsb (String.eqb (norm (fst kv))) (names (firstn t ps)) = false).
  { clear - Hb Hi. induction (firstn t ps) as [|p r IH]; [reflexivity|]. cbn in *.
    apply orb_false_iff in Hb. destruct Hb as [H1 H2]. rewrite (has_name_false_in N (fst p) H1 kv Hi). cbn. apply IH. exact H2. }
  rewrite E. reflexivity.
Qed.

(* a keyword naming a positionally bound parameter is never consumed *)
Lemma both_survives N ps t :
  NoDup (names ps) -> dup_names N = false ->
  existsb (fun p => has_name N (fst p)) (firstn t ps) = true ->
  remove_keys (names (skipn t ps)) (nmap N) <> [].
Proof.
  intros Hnd Hd Hb. rewrite remove_keys_filter by (rewrite dup_keys_nmap; exact Hd).
  apply existsb_exists in Hb. destruct Hb as [p [Hp Hn]].
  assert (Hex : exists kv, In kv (nmap N) /\ fst kv = norm (fst p)).
  { clear - Hn. induction N as [|[k v] r IH]; [discriminate|]. cbn in Hn. apply orb_true_iff in Hn. destruct Hn as [H|H].
    - exists (norm k, v). split; [left; reflexivity|]. cbn. unfold same_name in H. apply String.eqb_eq in H. auto.
    - destruct (IH H) as [kv [Hi E]]. exists kv. split; [right; exact Hi | exact E]. }
  destruct Hex as [kv [Hi E]].
  assert (Hk : key_notin (names (skipn t ps)) kv = true).
  { unfold key_notin. rewrite E. apply negb_true_iff. apply not_true_is_false. intros H.
    apply existsb_exists in H. destruct H as [x [Hx Ex]]. apply String.eqb_eq in Ex. subst x.
    rewrite <- (firstn_skipn t ps) in Hnd. unfold names in Hnd. rewrite map_app in Hnd.
    assert (In (norm (fst p)) (map (fun p => norm (fst p)) (firstn t ps))) by (apply in_map_iff; exists p; auto).
    clear - Hnd H Hx. induction (map (fun p => norm (fst p)) (firstn t ps)) as [|y l IH]; [destruct H|].
    cbn in Hnd. inversion Hnd; subst. destruct H as [H|H].
    - subst y. apply H2. apply in_or_app. right. exact Hx.
    - apply IH; assumption. }
  intros Hnil. assert (In kv (filter (key_notin (names (skipn t ps))) (nmap N))) by (apply filter_In; auto).
  rewrite Hnil in H. destruct H.
Qed.

Lemma dup_names_prefix l m : dup_names l = true -> dup_names (l ++ m) = true.
Proof.
  induction l as [|[k v] r IH]; [discriminate|]. cbn. intros H. apply orb_true_iff in H. destruct H as [H|H].
  - assert (has_name (r ++ m) k = true).
    { clear - H. induction r as [|[k' v'] r IH]; [discriminate|]. cbn in *. apply orb_true_iff in H. destruct H as [H|H];
      [rewrite H; reflexivity | rewrite (IH H); apply orb_true_r]. }
    rewrite H0. reflexivity.
  - rewrite (IH H). apply orb_true_r.
Qed.

(* ------------------------------------------------------------------ the main theorem *)
Lemma firstn_min_length {A B} (l : list A) (P : list B) :
  firstn (length (firstn (length l) P)) l = firstn (length P) l.
Proof.
  rewrite firstn_length. destruct (Nat.le_gt_cases (length l) (length P)) as [H|H].
  - rewrite Nat.min_l by exact H. rewrite firstn_all. symmetry. apply firstn_all2. exact H.
  - rewrite Nat.min_r by lia. reflexivity.
Qed.

Lemma n_get_has m k : match n_get m k with Some _ => true | None => false end = has_key m k.
Proof. induction m as [|[k' v] r IH]; [reflexivity|]. cbn. destruct (String.eqb k k'); [reflexivity | exact IH]. Qed.

Lemma existsb_ext_in' N (l : list (string * option dexpr)) :
  existsb (fun p => match n_get (nmap N) (norm (fst p)) with Some _ => true | None => false end) l
  = existsb (fun p => has_name N (fst p)) l.
Proof.
  induction l as [|p r IH]; [reflexivity|]. cbn [existsb]. rewrite IH, n_get_has, has_name_nmap. reflexivity.
Qed.

Theorem bind_main s c :
  sig_wf s -> known_K3 s c = false -> model_bind s c = spec_bind s c.
Proof.
  intros Hwf K3. unfold known_K3 in K3. unfold model_bind in *. unfold spec_bind.
  destruct (dup_names (all_named c)) eqn:K2.
  { rewrite (call_evaluate_dup c K2). reflexivity. }
  rewrite (call_evaluate_nodup c K2) in *.
  set (P := all_positional c) in *. set (N := all_named c) in *.
  unfold formal_eval in *. rewrite nmap_length in *.
  destruct ((match s_rest s with None => true | Some _ => false end) && (length (s_params s) <? length P + length N)%nat);
    [reflexivity|].
  rewrite firstn_min_length in *.
  assert (EQB : existsb (fun p => match n_get (nmap N) (norm (fst p)) with Some _ => true | None => false end)
                  (firstn (length P) (s_params s))
                = existsb (fun p => has_name N (fst p)) (firstn (length P) (s_params s))).
  { apply existsb_ext_in'. }
  rewrite EQB in *. clear EQB.
  destruct (existsb (fun p => has_name N (fst p)) (firstn (length P) (s_params s))) eqn:EB; [reflexivity|].
  pose proof (zipbind_model (s_params s) P [] (nmap N)) as ZM. cbn [app] in ZM.
  rewrite firstn_length in ZM. rewrite firstn_length in *. rewrite ZM in *. clear ZM.
  rewrite (zip_phase N (s_params s) P [] Hwf) in * by (intros kv []).
  rewrite zipspec_spec. cbn [skipn].
  rewrite (leftover N (s_params s) (length P) K2 EB) in *.
  destruct (zipspec (s_params s) P N []) as [b'|]; cbn [option_map] in *; [|reflexivity].
  set (L := nmap (filter (fun kv => negb (is_param (s_params s) (fst kv))) N)) in *.
  destruct (s_rest s) as [r|]; [|reflexivity].
  destruct (skipn (length (s_params s)) P) as [|x xs]; [|reflexivity].
  change (map (fun kv : string * value => (norm (fst kv), snd kv))
            (filter (fun kv : string * value => negb (is_param (s_params s) (fst kv))) N)) with L.
  clearbody L. destruct L as [|[k v] [|y ys]]; try reflexivity.
  destruct (String.eqb k (norm r)); [discriminate | reflexivity].
Qed.

(* ------------------------------------------------------------------ refuted witnesses, errors, first @return *)
Definition sig1 (rest : option string) : sigT := mkSig [("a", None)] rest.
Lemma refuted_only_named : let c := mkCall [VInt 1] [("r", VInt 2)] None None None in
  known_K3 (sig1 (Some "r")) c = true /\ model_bind (sig1 (Some "r")) c <> spec_bind (sig1 (Some "r")) c.
Proof. split; [reflexivity | vm_compute; discriminate]. Qed.

(* errors *)
Lemma resplat_duplicate s c : dup_names (all_named c) = true -> model_bind s c = BErr.
Proof. intros H. unfold model_bind. rewrite (call_evaluate_dup c H). reflexivity. Qed.

Lemma too_many s pos nm : s_rest s = None -> (length (s_params s) < length pos + length nm)%nat ->
  formal_eval s pos nm = BErr.
Proof.
  intros Hr Hl. unfold formal_eval. rewrite Hr. apply Nat.ltb_lt in Hl. rewrite Hl. reflexivity.
Qed.

Lemma missing name r b nm : n_get nm (norm name) = None -> bind_rest_params ((name, None) :: r) b nm = None.
Proof.
  intros H. cbn [bind_rest_params]. pose proof (n_remove_fst nm (norm name)) as F.
  destruct (n_remove nm (norm name)) as [o nm']. cbn in F. subst o. rewrite H. reflexivity.
Qed.

Lemma positional s pos : length pos = length (s_params s) ->
  formal_eval s pos [] =
  BOk (map (fun pv => (norm (fst (fst pv)), snd pv)) (combine (s_params s) pos))
      (match s_rest s with Some _ => Some (RArgs [] []) | None => None end).
Proof.
  intros H. unfold formal_eval. cbn [length]. rewrite Nat.add_0_r, H, Nat.ltb_irrefl, andb_false_r.
  rewrite <- H, firstn_all, skipn_all. rewrite H, skipn_all. cbn [bind_rest_params].
  assert (E : forall l : list (string * option dexpr),
            existsb (fun p => match n_get [] (norm (fst p)) with Some _ => true | None => false end) l = false)
    by (induction l; [reflexivity | cbn; assumption]).
  rewrite E. destruct (s_rest s); reflexivity.
Qed.

Lemma no_rest_no_K3 s c : s_rest s = None -> known_K3 s c = false.
Proof.
  intros Hr. unfold known_K3, model_bind. destruct (call_evaluate c) as [[pos nm]|]; [|reflexivity].
  unfold formal_eval. rewrite Hr. destruct (_ && _); [reflexivity|]. destruct (existsb _ _); [reflexivity|].
  destruct (bind_rest_params _ _ _) as [[b' nm']|]; [|reflexivity]. destruct nm'; reflexivity.
Qed.

Lemma unknown_named s c :
  sig_wf s -> s_rest s = None ->
  (exists kv, In kv (all_named c) /\ is_param (s_params s) (fst kv) = false) ->
  model_bind s c = BErr.
Proof.
  intros Hwf Hr [kv [Hi Hp]].
  rewrite (bind_main s c Hwf (no_rest_no_K3 s c Hr)).
  unfold spec_bind. rewrite Hr. destruct (dup_names (all_named c)); [reflexivity|].
  destruct (_ && _); [reflexivity|]. destruct (existsb _ _); [reflexivity|].
  destruct (spec_params _ _ _ _ _); [|reflexivity].
  assert (In kv (filter (fun kv => negb (is_param (s_params s) (fst kv))) (all_named c)))
    by (apply filter_In; rewrite Hp; auto).
  destruct (filter _ (all_named c)) as [|x0 l0]; [destruct H | reflexivity].
Qed.

Lemma norm_dash (a b : string) :
  norm (String.append a (String "-"%char b)) = norm (String.append a (String "_"%char b)).
Proof. induction a as [|c r IH]; [reflexivity|]. cbn. rewrite IH. reflexivity. Qed.

(* first @return *)
Definition is_ret (s : fstmt) : bool := match s with FRet _ => true | _ => false end.
Definition first_ret_of (l : list fstmt) : option value :=
  match find is_ret l with Some (FRet v) => Some v | _ => None end.
Lemma first_ret_app a b :
  first_ret_of (a ++ b) = match first_ret_of a with Some v => Some v | None => first_ret_of b end.
Proof.
  unfold first_ret_of. induction a as [|x a IH]; [reflexivity|]. cbn [app find].
  destruct (is_ret x) eqn:E; [destruct x; try discriminate; reflexivity | exact IH].
Qed.

Lemma ret_flatten : forall s, ret_eval s = first_ret_of (flatten s).
Proof.
  fix IH 1. intros [|v|c t e]; [reflexivity | reflexivity |].
  cbn [ret_eval flatten].
  assert (L : forall l,
    (fix go (l : list fstmt) : option value :=
       match l with [] => None | x :: r => match ret_eval x with Some v => Some v | None => go r end end) l
    = first_ret_of ((fix go (l : list fstmt) : list fstmt :=
                       match l with [] => [] | x :: r => flatten x ++ go r end) l)).
  { induction l as [|x r IHr]; [reflexivity|]. rewrite first_ret_app, <- IH, IHr. reflexivity. }
  destruct c; cbn [is_true]; apply L.
Qed.

Lemma first_return_ok l : body_eval l = first_return l.
Proof.
  unfold first_return. change (body_eval l = first_ret_of (flatten_body l)).
  induction l as [|x r IH]; [reflexivity|]. cbn [body_eval flatten_body].
  rewrite first_ret_app, <- ret_flatten, IH. reflexivity.
Qed.
