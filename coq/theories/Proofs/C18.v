(* Proofs for C18. *)
From Coq Require Import String Ascii List ZArith NArith Bool Lia.
From RV Require Import Model.EvValue Model.EvArgs Spec.SassArgs Run.C18.
Import ListNotations.
Local Open Scope string_scope.
Local Open Scope list_scope.

(* ------------------------------------------------------------------ names *)
Lemma norm_idem s : norm (norm s) = norm s.
Proof.
  induction s as [|c r IH]; [reflexivity|]. cbn [norm]. rewrite IH. f_equal.
  destruct (Ascii.eqb c "-"%char) eqn:E; [reflexivity | rewrite E; reflexivity].
Qed.

Definition nmap (N : list (string * value)) : named := map (fun kv => (norm (fst kv), snd kv)) N.
Definition has_key (m : named) (k : string) : bool := existsb (fun kv => String.eqb k (fst kv)) m.
Definition keys_norm (m : named) : Prop := forall kv, In kv m -> norm (fst kv) = fst kv.

Lemma nmap_keys_norm N : keys_norm (nmap N).
Proof. intros kv H. apply in_map_iff in H. destruct H as [[k v] [E _]]. subst kv. cbn. apply norm_idem. Qed.
Lemma nmap_length N : length (nmap N) = length N.
Proof. apply map_length. Qed.

Lemma has_name_nmap N k : has_name N k = has_key (nmap N) (norm k).
Proof. induction N as [|[k' v] r IH]; [reflexivity|]. cbn. unfold same_name. rewrite IH. reflexivity. Qed.
Lemma get_name_nmap N k : get_name N k = n_get (nmap N) (norm k).
Proof. induction N as [|[k' v] r IH]; [reflexivity|]. cbn. unfold same_name. rewrite IH. reflexivity. Qed.
Lemma get_name_keys_norm m k : keys_norm m -> get_name m k = n_get m (norm k).
Proof.
  induction m as [|[k' v] r IH]; intros H; [reflexivity|]. cbn. unfold same_name.
  pose proof (H (k', v) (or_introl eq_refl)) as Hk. cbn in Hk. rewrite Hk. rewrite IH; [reflexivity|].
  intros kv Hi. apply H. right. exact Hi.
Qed.

Lemma has_key_app m1 m2 k : has_key (m1 ++ m2) k = has_key m1 k || has_key m2 k.
Proof. unfold has_key. apply existsb_app. Qed.

(* ------------------------------------------------------------------ OrderMap operations *)
Lemma n_insert_fresh m k v : has_key m k = false -> n_insert m k v = (m ++ [(k, v)], false).
Proof.
  induction m as [|[k' w] r IH]; cbn; [reflexivity|].
  destruct (String.eqb k k') eqn:E; cbn; [discriminate|]. intros H. rewrite (IH H). reflexivity.
Qed.
Lemma n_insert_present m k v : has_key m k = true -> snd (n_insert m k v) = true.
Proof.
  induction m as [|[k' w] r IH]; cbn; [discriminate|].
  destruct (String.eqb k k') eqn:E; cbn; [reflexivity|]. intros H. specialize (IH H).
  destruct (n_insert r k v). exact IH.
Qed.

(* CallArgs::new: an error iff an explicit name repeats, else the keywords in order *)
Lemma explicit_named_spec l : forall acc,
  explicit_named l acc =
  if dup_names l || existsb (fun kv => has_key acc (norm (fst kv))) l then None else Some (acc ++ nmap l).
Proof.
  induction l as [|[k v] r IH]; intros acc; cbn [explicit_named dup_names existsb nmap map fst snd].
  - rewrite app_nil_r. reflexivity.
  - destruct (has_key acc (norm k)) eqn:HK.
    + pose proof (n_insert_present acc (norm k) v HK) as P. destruct (n_insert acc (norm k) v) as [a o].
      cbn in P. subst o. rewrite orb_true_r. reflexivity.
    + rewrite (n_insert_fresh acc (norm k) v HK). rewrite IH. cbn [orb].
      assert (E : existsb (fun kv => has_key (acc ++ [(norm k, v)]) (norm (fst kv))) r
                  = existsb (fun kv => has_key acc (norm (fst kv))) r || has_name r k).
      { clear. induction r as [|[k' v'] r IH]; [reflexivity|]. cbn [existsb has_name fst].
        rewrite IH, has_key_app. cbn [has_key existsb fst]. unfold same_name.
        rewrite (String.eqb_sym (norm k') (norm k)).
        destruct (has_key acc (norm k')), (String.eqb (norm k) (norm k')),
                 (existsb (fun kv => has_key acc (norm (fst kv))) r), (has_name r k); reflexivity. }
      rewrite E. unfold nmap. rewrite <- app_assoc. cbn [app].
      destruct (has_name r k), (dup_names r), (existsb (fun kv => has_key acc (norm (fst kv))) r); reflexivity.
Qed.

Lemma dup_names_app l m : dup_names (l ++ m) = false -> dup_names l = false /\ dup_names m = false /\
  forall kv, In kv m -> has_name l (fst kv) = false.
Proof.
  induction l as [|[k v] r IH]; cbn [app dup_names].
  - intros H. split; [reflexivity|]. split; [exact H|]. intros; reflexivity.
  - intros H. apply orb_false_iff in H. destruct H as [H1 H2]. destruct (IH H2) as (A & B & C).
    assert (HN : forall l', has_name (r ++ l') k = has_name r k || has_name l' k).
    { clear. induction r as [|[k' v'] r IH]; intros; [reflexivity|]. cbn. rewrite IH. apply orb_assoc. }
    rewrite HN in H1. apply orb_false_iff in H1. destruct H1 as [H1a H1b].
    split; [rewrite H1a, A; reflexivity|]. split; [exact B|].
    intros [k' v'] Hi. cbn [has_name fst]. pose proof (C _ Hi) as C1. cbn [fst] in C1. rewrite C1, orb_false_r.
    (* k' is in m and k is not a name of m *)
    clear - H1b Hi. induction m as [|[k2 v2] m IH]; [destruct Hi|].
    cbn in H1b. apply orb_false_iff in H1b. destruct H1b as [E1 E2]. destruct Hi as [Hi|Hi].
    + inversion Hi; subst. unfold same_name in *. rewrite String.eqb_sym. exact E1.
    + exact (IH E2 Hi).
Qed.

(* add_from_value_map without duplicates just appends *)
Lemma add_map_nodup kvs : forall n, dup_names kvs = false ->
  (forall kv, In kv kvs -> has_key n (norm (fst kv)) = false) ->
  fold_left (fun acc kv => fst (n_insert acc (norm (fst kv)) (snd kv))) kvs n = n ++ nmap kvs.
Proof.
  induction kvs as [|[k v] r IH]; intros n Hd Hf; cbn [fold_left nmap map fst snd]; [rewrite app_nil_r; reflexivity|].
  cbn [dup_names] in Hd. apply orb_false_iff in Hd. destruct Hd as [Hd1 Hd2].
  rewrite (n_insert_fresh n (norm k) v (Hf (k, v) (or_introl eq_refl))). cbn [fst].
  rewrite IH; [unfold nmap; rewrite <- app_assoc; reflexivity | exact Hd2 |].
  intros [k' v'] Hi. rewrite has_key_app. rewrite (Hf _ (or_intror Hi)). cbn [has_key existsb fst orb].
  rewrite orb_false_r.
  (* k' in r, and k is not a name of r *)
  clear - Hd1 Hi. induction r as [|[k2 v2] r IH]; [destruct Hi|].
  cbn in Hd1. apply orb_false_iff in Hd1. destruct Hd1 as [E1 E2]. destruct Hi as [Hi|Hi].
  - inversion Hi; subst. unfold same_name in E1. rewrite String.eqb_sym. exact E1.
  - exact (IH E2 Hi).
Qed.

(* Step A: CallArgs::new + CallArgs::evaluate *)
Lemma call_evaluate_dup c : dup_names (c_named c) = true -> call_evaluate c = None.
Proof. intros H. unfold call_evaluate. rewrite explicit_named_spec, H. reflexivity. Qed.

Lemma splat_items_spec c : c_pos c ++ splat_items (c_lsplat c) = all_positional c.
Proof. unfold all_positional, splat_items. destruct (c_lsplat c) as [[]|]; reflexivity. Qed.

Lemma call_evaluate_nodup c : dup_names (all_named c) = false ->
  call_evaluate c = Some (all_positional c, nmap (all_named c)).
Proof.
  intros H. unfold call_evaluate. rewrite explicit_named_spec. unfold all_named in *.
  destruct (dup_names_app _ _ H) as (A & B & C). rewrite A.
  assert (E : forall l : list (string * value), existsb (fun kv => has_key [] (norm (fst kv))) l = false)
    by (intros l; induction l as [|x l IHl]; [reflexivity | cbn; exact IHl]).
  specialize (E (c_named c)).
  rewrite E. cbn [orb app]. rewrite splat_items_spec. f_equal. f_equal.
  unfold add_map, nmap. destruct (c_msplat c) as [kvs|]; [|rewrite app_nil_r; reflexivity].
  rewrite map_app. apply add_map_nodup; [exact B|].
  intros kv Hi. fold (nmap (c_named c)). rewrite <- has_name_nmap. apply C. exact Hi.
Qed.

(* ------------------------------------------------------------------ Step B: FormalArgs::eval *)
Definition names (ps : list (string * option dexpr)) : list string := map (fun p => norm (fst p)) ps.
Definition sig_wf (s : sigT) : Prop := NoDup (names (s_params s)).

Definition bind1 (name : string) (v : value) : string * value := (norm name, v).

(* positional phase, then the named/default phase, as one recursion over the parameters *)
Fixpoint zipbind (ps : list (string * option dexpr)) (Q : list value) (b : list (string * value)) (nm : named)
  : option (list (string * value) * named) :=
  match ps with
  | [] => Some (b, nm)
  | (name, d) :: r =>
      match Q with
      | v :: Q' => zipbind r Q' (b ++ [bind1 name v]) nm
      | [] => bind_rest_params ps b nm
      end
  end.

Lemma zipbind_model ps : forall Q b nm,
  bind_rest_params (skipn (length (firstn (length ps) Q)) ps)
                   (b ++ map (fun pv => (norm (fst (fst pv)), snd pv)) (combine ps (firstn (length ps) Q))) nm
  = zipbind ps Q b nm.
Proof.
  induction ps as [|[name d] r IH]; intros Q b nm.
  - cbn. rewrite app_nil_r. reflexivity.
  - destruct Q as [|v Q'].
    + cbn [length firstn skipn combine map zipbind]. rewrite app_nil_r. reflexivity.
    + cbn [length firstn skipn combine map fst snd zipbind].
      rewrite <- (IH Q' (b ++ [bind1 name v]) nm). rewrite <- app_assoc. reflexivity.
Qed.

Fixpoint zipspec (ps : list (string * option dexpr)) (Q : list value) (N : list (string * value))
  (b : list (string * value)) : option (list (string * value)) :=
  match ps with
  | [] => Some b
  | (name, d) :: r =>
      match Q with
      | v :: Q' => zipspec r Q' N (b ++ [bind1 name v])
      | [] =>
          match (match get_name N name with
                 | Some v => Some v
                 | None => match d with Some d => spec_default b d | None => None end
                 end) with
          | Some v => zipspec r [] N (b ++ [bind1 name v])
          | None => None
          end
      end
  end.

Lemma nth_error_skipn {A} (P : list A) : forall i, nth_error P i = hd_error (skipn i P).
Proof. induction P as [|x P IH]; intros [|i]; cbn; auto. Qed.
Lemma skipn_S_tl {A} (P : list A) : forall i, skipn (S i) P = tl (skipn i P).
Proof.
  induction P as [|x P IH]; intros [|i]; try reflexivity.
  change (skipn (S (S i)) (x :: P)) with (skipn (S i) P). change (skipn (S i) (x :: P)) with (skipn i P).
  apply IH.
Qed.

Lemma zipspec_spec ps : forall i P N b, spec_params ps i P N b = zipspec ps (skipn i P) N b.
Proof.
  induction ps as [|[name d] r IH]; intros i P N b; [reflexivity|].
  cbn [spec_params zipspec]. rewrite nth_error_skipn.
  pose proof (skipn_S_tl P i) as T.
  destruct (skipn i P) as [|v Q']; cbn [hd_error tl] in *.
  - destruct (get_name N name) as [v|].
    + rewrite IH, T. reflexivity.
    + destruct d as [d|]; [|reflexivity]. destruct (spec_default b d); [|reflexivity].
      rewrite IH, T. reflexivity.
  - rewrite IH, T. reflexivity.
Qed.

(* n_remove *)
Lemma n_remove_fst m k : fst (n_remove m k) = n_get m k.
Proof.
  induction m as [|[k' w] r IH]; [reflexivity|]. cbn. destruct (String.eqb k k'); [reflexivity|].
  destruct (n_remove r k). exact IH.
Qed.
Lemma n_remove_absent m k : n_get m k = None -> snd (n_remove m k) = m.
Proof.
  induction m as [|[k' w] r IH]; [reflexivity|]. cbn. destruct (String.eqb k k'); [discriminate|].
  intros H. specialize (IH H). destruct (n_remove r k). cbn in *. rewrite IH. reflexivity.
Qed.
Lemma n_remove_other m k k' : k <> k' -> n_get (snd (n_remove m k)) k' = n_get m k'.
Proof.
  intros N. induction m as [|[k2 w] r IH]; [reflexivity|]. cbn. destruct (String.eqb k k2) eqn:E.
  - apply String.eqb_eq in E. subst k2. cbn.
    destruct (String.eqb k' k) eqn:F; [apply String.eqb_eq in F; congruence | reflexivity].
  - destruct (n_remove r k) as [o r'] eqn:ER. cbn in *. rewrite IH. reflexivity.
Qed.

Definition remove_keys (ks : list string) (m : named) : named :=
  fold_left (fun m k => snd (n_remove m k)) ks m.

Lemma keys_norm_snoc b name v : keys_norm b -> keys_norm (b ++ [bind1 name v]).
Proof.
  intros H kv Hi. apply in_app_or in Hi. destruct Hi as [Hi|[Hi|[]]]; [apply H; exact Hi|].
  subst kv. cbn. apply norm_idem.
Qed.

Lemma globals_keys_norm : keys_norm globals.
Proof. intros kv [H|[]]. subst kv. reflexivity. Qed.

Lemma default_same b d : keys_norm b -> eval_default b d = spec_default b d.
Proof.
  intros H. destruct d as [v|n]; [reflexivity|]. unfold eval_default, spec_default.
  rewrite (get_name_keys_norm b n H), (get_name_keys_norm globals n globals_keys_norm). reflexivity.
Qed.

(* the named/default phase: removing keywords as they are used = looking them up in the whole set *)
Lemma named_phase N ps : forall b nm,
  NoDup (names ps) -> keys_norm b ->
  (forall p, In p ps -> n_get nm (norm (fst p)) = n_get (nmap N) (norm (fst p))) ->
  bind_rest_params ps b nm =
  option_map (fun b' => (b', remove_keys (names ps) nm)) (zipspec ps [] N b).
Proof.
  induction ps as [|[name d] r IH]; intros b nm Hnd Hb Hget; [reflexivity|].
  cbn [bind_rest_params zipspec names map fst remove_keys fold_left].
  inversion Hnd as [|x l Hnotin Hnd' Heq]; subst.
  pose proof (n_remove_fst nm (norm name)) as RF.
  destruct (n_remove nm (norm name)) as [o nm'] eqn:ER. cbn in RF. subst o.
  rewrite (Hget (name, d) (or_introl eq_refl)). cbn [fst]. rewrite <- get_name_nmap.
  assert (Hrest : forall nm2, (forall k', k' <> norm name -> n_get nm2 k' = n_get nm k') ->
                  forall p, In p r -> n_get nm2 (norm (fst p)) = n_get (nmap N) (norm (fst p))).
  { intros nm2 H2 p Hp. rewrite H2; [apply Hget; right; exact Hp|].
    intros E. apply Hnotin. unfold names. rewrite <- E. apply in_map_iff. exists p. auto. }
  destruct (get_name N name) as [v|] eqn:EG.
  - rewrite (IH (b ++ [bind1 name v]) nm' Hnd' (keys_norm_snoc _ _ _ Hb)).
    + change nm' with (snd (Some v, nm')). rewrite <- ER. reflexivity.
    + apply Hrest. intros k' Hk. change nm' with (snd (n_get nm (norm name), nm')).
      assert (E2 : nm' = snd (n_remove nm (norm name))) by (rewrite ER; reflexivity).
      rewrite E2. apply n_remove_other. congruence.
  - assert (EN : n_get nm (norm name) = None).
    { rewrite (Hget (name, d) (or_introl eq_refl)). cbn [fst]. rewrite <- get_name_nmap. exact EG. }
    assert (E2 : nm' = nm).
    { pose proof (n_remove_absent nm (norm name) EN) as A. rewrite ER in A. exact A. }
    subst nm'. destruct d as [d|]; [|reflexivity].
    rewrite (default_same b d Hb). destruct (spec_default b d) as [v|]; [|reflexivity].
    rewrite (IH (b ++ [bind1 name v]) nm Hnd' (keys_norm_snoc _ _ _ Hb)).
    + pose proof (n_remove_absent nm (norm name) EN) as A. rewrite A. reflexivity.
    + apply Hrest. intros; reflexivity.
Qed.

Lemma NoDup_skipn {A} (l : list A) : forall n, NoDup l -> NoDup (skipn n l).
Proof.
  induction l as [|x l IH]; intros [|n] H; cbn; auto. inversion H; subst. apply IH. assumption.
Qed.
Lemma names_skipn ps n : names (skipn n ps) = skipn n (names ps).
Proof. unfold names. revert n. induction ps as [|p r IH]; intros [|n]; cbn; auto. Qed.

Lemma zip_phase N ps : forall Q b,
  NoDup (names ps) -> keys_norm b ->
  zipbind ps Q b (nmap N) =
  option_map (fun b' => (b', remove_keys (names (skipn (length Q) ps)) (nmap N))) (zipspec ps Q N b).
Proof.
  induction ps as [|[name d] r IH]; intros Q b Hnd Hb.
  - destruct Q; reflexivity.
  - destruct Q as [|v Q'].
    + cbn [zipbind length skipn]. apply named_phase; auto.
    + cbn [zipbind zipspec length skipn]. inversion Hnd; subst.
      apply IH; [assumption | apply keys_norm_snoc; exact Hb].
Qed.
