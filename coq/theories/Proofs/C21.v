(* Proofs for C21: where content can be lost in the destinations. *)
From Coq Require Import List NArith Bool Arith Lia.
From RV Require Import Base.Text Model.Out Model.OutDest Spec.Reach.
Import ListNotations.
Local Open Scope N_scope.

Definition is_ns (f : frame) : bool := match f with FNs _ => true | _ => false end.
Definition no_ns (fs : list frame) : bool := forallb (fun f => negb (is_ns f)) fs.

(* ---- an arbitrary additive measure on CSS trees: mu counts leaf items ---- *)
Section Measure.
  Variable mu : item -> nat.     (* weight of a leaf item (comment, declaration, import, body-less at-rule) *)

  Fixpoint wt (it : item) : nat :=
    let wts := fix wts (l : list item) : nat :=
      match l with [] => 0%nat | x :: r => (wt x + wts r)%nat end in
    match it with
    | IRule _ b | IMedia _ b | IAt _ _ (Some b) => wts b
    | ISep => 0%nat
    | _ => mu it
    end.
  Fixpoint wts (l : list item) : nat :=
    match l with [] => 0%nat | x :: r => (wt x + wts r)%nat end.

  Lemma wts_app a b : wts (a ++ b) = (wts a + wts b)%nat.
  Proof. induction a as [|x a IH]; [reflexivity|]. cbn [app wts]. rewrite IH. lia. Qed.

  Lemma wt_IRule s b : wt (IRule s b) = wts b.
  Proof. cbn. induction b as [|x r IH]; [reflexivity|]. cbn. rewrite IH. reflexivity. Qed.
  Lemma wt_IMedia a b : wt (IMedia a b) = wts b.
  Proof. cbn. induction b as [|x r IH]; [reflexivity|]. cbn. rewrite IH. reflexivity. Qed.
  Lemma wt_IAt n a b : wt (IAt n a (Some b)) = wts b.
  Proof. cbn. induction b as [|x r IH]; [reflexivity|]. cbn. rewrite IH. reflexivity. Qed.

  Definition wt_rule (r : option rulebuf) : nat := match r with Some (_, b) => wts b | None => 0%nat end.
  Definition wt_frame (f : frame) : nat :=
    match f with
    | FRule (_, b) => wts b
    | FNs _ => 0%nat
    | FAt _ _ r b | FMedia _ r b => (wt_rule r + wts b)%nat
    end.
  Fixpoint wt_frames (fs : list frame) : nat :=
    match fs with [] => 0%nat | f :: r => (wt_frame f + wt_frames r)%nat end.
  Definition wt_data (d : cssdata) : nat := (wts (d_imports d) + wts (d_body d))%nat.
  Definition wt_state (fs : list frame) (root : cssdata) : nat := (wt_frames fs + wt_data root)%nat.

  Lemma wt_root_push root it : wt_data (root_push root it) = (wt_data root + wt it)%nat.
  Proof.
    unfold root_push, wt_data. destruct (is_import it); cbn; rewrite wts_app; cbn; lia.
  Qed.

  (* push_item: when it succeeds nothing is lost and nothing is invented; the
     stack of open destinations keeps its shape *)
  Lemma push_item_f_ok : forall fuel fs root it fs' root',
    push_item_f fuel fs root it = Ok (fs', root') ->
    wt_state fs' root' = (wt_state fs root + wt it)%nat
    /\ length fs' = length fs /\ no_ns fs' = no_ns fs.
  Proof.
    induction fuel as [|n IH]; intros fs root it fs' root' H; [discriminate|].
    cbn [push_item_f] in H. destruct fs as [|f rest].
    - inversion H; subst. unfold wt_state. cbn. rewrite wt_root_push. repeat split; lia.
    - destruct f as [[s b]|name|an a r body|a r body].
      + destruct (is_sep it) eqn:Es.
        { inversion H; subst. destruct it; try discriminate. cbn. repeat split; lia. }
        destruct (no_body_at it) eqn:En.
        { inversion H; subst. unfold wt_state. cbn. rewrite wts_app. cbn. repeat split; lia. }
        destruct b as [|b0 br].
        * destruct (push_item_f n rest root it) as [[rest2 root2]| | |] eqn:E2; try discriminate.
          inversion H; subst. destruct (IH _ _ _ _ _ E2) as [W [L N]].
          unfold wt_state in *. cbn in *. repeat split; try lia; try congruence; try (unfold no_ns in *; congruence).
        * destruct (push_item_f n rest root (IRule s (b0 :: br))) as [[rest1 root1]| | |] eqn:E1; try discriminate.
          destruct (push_item_f n rest1 root1 it) as [[rest2 root2]| | |] eqn:E2; try discriminate.
          inversion H; subst.
          destruct (IH _ _ _ _ _ E1) as [W1 [L1 N1]]. destruct (IH _ _ _ _ _ E2) as [W2 [L2 N2]].
          rewrite wt_IRule in W1. unfold wt_state in *. cbn in *. repeat split; try lia; try congruence; try (unfold no_ns in *; congruence).
      + discriminate.
      + destruct (is_sep it) eqn:Es; inversion H; subst.
        * destruct it; try discriminate. cbn. repeat split; lia.
        * unfold wt_state. cbn. rewrite wts_app. cbn. repeat split; lia.
      + destruct (is_sep it) eqn:Es; inversion H; subst.
        * destruct it; try discriminate. cbn. repeat split; lia.
        * unfold wt_state. cbn. rewrite wts_app. cbn. repeat split; lia.
  Qed.
End Measure.

(* push_item fails only with "inside a namespace rule", and only when a
   nested-property destination is open; with enough fuel it never runs out *)
Lemma push_item_f_total : forall fuel fs root it,
  (length fs < fuel)%nat -> no_ns fs = true ->
  exists fs' root', push_item_f fuel fs root it = Ok (fs', root').
Proof.
  induction fuel as [|n IH]; intros fs root it Hl Hn; [lia|].
  cbn [push_item_f]. destruct fs as [|f rest]; [eauto|].
  cbn in Hl. cbn in Hn. apply andb_true_iff in Hn. destruct Hn as [Hf Hr].
  destruct f as [[s b]|name|an a r body|a r body]; try discriminate.
  - destruct (is_sep it); [eauto|]. destruct (no_body_at it); [eauto|].
    assert (Hl' : (length rest < n)%nat) by lia.
    destruct b as [|b0 br].
    + destruct (IH rest root it Hl' Hr) as [fs2 [root2 E2]]. rewrite E2. eauto.
    + destruct (IH rest root (IRule s (b0 :: br)) Hl' Hr) as [fs1 [root1 E1]]. rewrite E1.
      destruct (push_item_f_ok (fun _ => 0%nat) _ _ _ _ _ _ E1) as [_ [L1 N1]].
      assert (Hl1 : (length fs1 < n)%nat) by lia.
      assert (Hr1 : no_ns fs1 = true) by (rewrite N1; exact Hr).
      destruct (IH fs1 root1 it Hl1 Hr1) as [fs2 [root2 E2]]. rewrite E2. eauto.
  - destruct (is_sep it); eauto.
  - destruct (is_sep it); eauto.
Qed.

Lemma push_item_total fs root it : no_ns fs = true ->
  exists fs' root', push_item fs root it = Ok (fs', root').
Proof. intros H. apply push_item_f_total; [lia | exact H]. Qed.

Lemma push_item_f_err : forall fuel fs root it e,
  push_item_f fuel fs root it = Err e -> e = EInNs /\ no_ns fs = false.
Proof.
  induction fuel as [|n IH]; intros fs root it e H; [discriminate|].
  cbn [push_item_f] in H. destruct fs as [|f rest]; [discriminate|].
  destruct f as [[s b]|name|an a r body|a r body].
  - destruct (is_sep it); [discriminate|]. destruct (no_body_at it); [discriminate|].
    cbn. destruct b as [|b0 br].
    + destruct (push_item_f n rest root it) as [[rest2 root2]|e2| |] eqn:E2; try discriminate.
      inversion H; subst. apply (IH _ _ _ _ E2).
    + destruct (push_item_f n rest root (IRule s (b0 :: br))) as [[rest1 root1]|e1| |] eqn:E1; try discriminate.
      * destruct (push_item_f n rest1 root1 it) as [[rest2 root2]|e2| |] eqn:E2; try discriminate.
        inversion H; subst. destruct (IH _ _ _ _ E2) as [He Hn]. split; [exact He|].
        destruct (push_item_f_ok (fun _ => 0%nat) _ _ _ _ _ _ E1) as [_ [_ N1]]. unfold no_ns in *. cbn in *. rewrite <- N1. exact Hn.
      * inversion H; subst. apply (IH _ _ _ _ E1).
  - inversion H; subst. split; reflexivity.
  - destruct (is_sep it); discriminate.
  - destruct (is_sep it); discriminate.
Qed.

(* Drop: closing the innermost destination loses nothing unless a
   nested-property destination is open below it *)
Lemma close_no_loss mu st :
  no_ns (tl (d_frames st)) = true ->
  d_lost (close st) = d_lost st
  /\ wt_state mu (d_frames (close st)) (d_root (close st)) = wt_state mu (d_frames st) (d_root st)
  /\ no_ns (d_frames (close st)) = true.
Proof.
  destruct st as [fs root lost]. cbn [d_frames d_root d_lost]. intros Hn.
  destruct fs as [|f rest]; [cbn; auto|]. cbn [tl] in Hn.
  assert (Sep : forall fs r, wt_data mu (separate fs r) = wt_data mu r).
  { intros fs0 r. unfold separate. destruct fs0; [|reflexivity]. unfold wt_data. cbn. rewrite wts_app. cbn. lia. }
  assert (DP : forall it, wt mu it = wt_frame mu f ->
             d_lost (drop_push rest root lost (Some it)) = lost
             /\ wt_state mu (d_frames (drop_push rest root lost (Some it))) (d_root (drop_push rest root lost (Some it)))
                = wt_state mu (f :: rest) root
             /\ no_ns (d_frames (drop_push rest root lost (Some it))) = true).
  { intros it Hw. unfold drop_push. destruct (push_item_total rest root it Hn) as [fs' [root' E]]. rewrite E.
    destruct (push_item_f_ok mu _ _ _ _ _ _ E) as [W [L N]]. cbn.
    unfold wt_state in *. rewrite Sep. cbn. repeat split; try lia. fold (no_ns fs'). rewrite N. exact Hn. }
  destruct f as [[s b]|name|an a r body|a r body]; cbn [close d_frames d_root d_lost].
  - destruct b as [|b0 br].
    + unfold drop_push. cbn. unfold wt_state. rewrite Sep. cbn. repeat split; try lia. exact Hn.
    + apply DP. rewrite wt_IRule. reflexivity.
  - cbn. unfold wt_state. cbn. repeat split; try lia. exact Hn.
  - apply DP. rewrite wt_IAt. destruct r as [[s b]|]; cbn [wts wt_frame wt_rule]; rewrite ?wt_IRule; lia.
  - apply DP. rewrite wt_IMedia. destruct r as [[s [|b0 br]]|]; cbn [wts wt_frame wt_rule]; rewrite ?wt_IRule; cbn [wts]; lia.
Qed.

(* the top-level destination accepts every item *)
Lemma root_accepts root it : push_item [] root it = Ok ([], root_push root it).
Proof. reflexivity. Qed.

(* ------------------------------------------------------------------------ *)
(* @error always propagates: no arm of the evaluator handles an error *)
Definition is_lerror (x : leafstmt) : bool := match x with LError _ => true | _ => false end.
Definition has_error (l : list leafstmt) : bool := existsb is_lerror l.

Lemma has_error_app a b : has_error (a ++ b) = has_error a || has_error b.
Proof. apply existsb_app. Qed.

Lemma bind_ok {A B} (r : res A) (f : A -> res B) b :
  bind r f = Ok b -> exists a, r = Ok a /\ f a = Ok b.
Proof. destruct r; cbn; intros H; try discriminate. eauto. Qed.

Section ErrProp.
  Variables (n : nat) (ms : list (list stmt)) (c : bool).
  Hypothesis IH : forall cenv ctx st s st' pre,
    eval_item n ms c cenv ctx st s = Ok st' -> has_error (reach n ms cenv pre s) = false.

  Lemma body_no_error cenv ctx pre : forall l st st',
    run_body (eval_item n ms c cenv ctx) l st = Ok st' ->
    has_error (flat_map (reach n ms cenv pre) l) = false.
  Proof.
    induction l as [|x r IHl]; intros st st' H; [reflexivity|].
    cbn [run_body] in H. apply bind_ok in H. destruct H as [st1 [H1 H2]].
    cbn [flat_map]. rewrite has_error_app, (IH _ _ _ _ _ pre H1). cbn. apply (IHl _ _ H2).
  Qed.
End ErrProp.

Lemma ok_no_error : forall fuel ms c cenv ctx st s st' pre,
  eval_item fuel ms c cenv ctx st s = Ok st' -> has_error (reach fuel ms cenv pre s) = false.
Proof.
  induction fuel as [|n IH]; intros ms c cenv ctx st s st' pre H; [discriminate|].
  pose proof (body_no_error n ms c (IH ms c)) as HB.
  destruct s; cbn [eval_item] in H; cbn [reach].
  - reflexivity.
  - reflexivity.
  - destruct (negb (check_body BRule body)); [discriminate|].
    destruct (nest ctx sels); [|discriminate].
    apply bind_ok in H. destruct H as [st1 [_ H]]. apply bind_ok in H. destruct H as [st2 [H _]].
    apply (HB _ _ _ _ _ _ H).
  - destruct (negb (check_body BNsRule body)); [discriminate|].
    apply bind_ok in H. destruct H as [st0 [_ H]].
    apply bind_ok in H. destruct H as [st1 [_ H]]. apply bind_ok in H. destruct H as [st2 [H _]].
    rewrite has_error_app, (HB _ _ _ _ _ _ H). destruct value; reflexivity.
  - apply bind_ok in H. destruct H as [st1 [_ H]]. apply bind_ok in H. destruct H as [st2 [H _]]. apply (HB _ _ _ _ _ _ H).
  - destruct body as [b|]; [|reflexivity].
    apply bind_ok in H. destruct H as [st1 [_ H]]. apply bind_ok in H. destruct H as [st2 [H _]]. apply (HB _ _ _ _ _ _ H).
  - destruct (at_root ctx sels) as [ctx'|]; [|discriminate].
    destruct (c_s ctx').
    + apply bind_ok in H. destruct H as [st1 [_ H]]. apply bind_ok in H. destruct H as [st2 [H _]].
      apply (HB _ _ _ _ _ _ H).
    + apply (HB _ _ _ _ _ _ H).
  - discriminate.
  - destruct (negb (check_body BControl (if c0 then t else e))); [discriminate|].
    apply (HB _ _ _ _ _ _ H).
  - destruct (negb (check_body BControl body)); [discriminate|].
    revert st H. induction n0 as [|k IHk]; intros st H; [reflexivity|].
    apply bind_ok in H. destruct H as [st1 [H1 H2]].
    cbn [repeat_app]. rewrite has_error_app, (HB _ _ _ _ _ _ H1). cbn. apply (IHk _ H2).
  - destruct (negb (check_body BControl proto)); [discriminate|].
    revert st H. induction bodies as [|b r IHb]; intros st H; [reflexivity|].
    apply bind_ok in H. destruct H as [st1 [H1 H2]].
    cbn [flat_map]. rewrite has_error_app, (HB _ _ _ _ _ _ H1). cbn. apply (IHb _ H2).
  - destruct (nth_error ms m); [|reflexivity]. apply (HB _ _ _ _ _ _ H).
  - destruct cenv as [|[cb|] outer]; try reflexivity. apply (HB _ _ _ _ _ _ H).
Qed.

(* whole programs: a run that reaches an @error does not succeed *)
Lemma program_ok_no_error fuel c p st :
  eval_program fuel c p = Ok st -> has_error (reach_program fuel p) = false.
Proof.
  unfold eval_program, reach_program. destruct (negb (forallb (check_body BMixin) (p_mixins p))); [discriminate|].
  destruct fuel as [|n]; intros H.
  - destruct (p_main p); [reflexivity|]. cbn in H. discriminate.
  - apply (body_no_error (S n) (p_mixins p) c (fun cenv ctx st s st' pre => ok_no_error (S n) (p_mixins p) c cenv ctx st s st' pre) [] root_ctx [] _ _ _ H).
Qed.

(* ------------------------------------------------------------------------ *)
(* since rsass ac4acd7 nothing but another nested-property destination can be opened
   inside a nested-property destination: the open destinations are always some FNs
   frames on top of frames that are not FNs, and no Drop ever swallows an error *)
Definition shape (fs : list frame) : list bool := map is_ns fs.
Fixpoint wfs (l : list bool) : bool :=
  match l with
  | [] => true
  | true :: r => wfs r
  | false :: r => forallb negb r
  end.
Definition wf (fs : list frame) : bool := wfs (shape fs).

Lemma no_ns_shape fs : no_ns fs = forallb negb (shape fs).
Proof. induction fs as [|f r IH]; [reflexivity|]. unfold no_ns, shape in *. cbn [forallb map]. rewrite IH. reflexivity. Qed.

Lemma shape_no_ns_eq a b : no_ns a = true -> no_ns b = true -> length a = length b -> shape a = shape b.
Proof.
  revert b. induction a as [|x a IH]; intros [|y b] Ha Hb L; try discriminate; [reflexivity|].
  cbn in *. apply andb_true_iff in Ha. apply andb_true_iff in Hb. destruct Ha as [Hx Ha], Hb as [Hy Hb].
  rewrite negb_true_iff in Hx, Hy. rewrite Hx, Hy. f_equal. apply IH; [assumption | assumption | lia].
Qed.

Definition keeps (st st' : dstate) : Prop :=
  shape (d_frames st') = shape (d_frames st) /\ d_lost st' = d_lost st.
Lemma keeps_refl st : keeps st st. Proof. split; reflexivity. Qed.
Lemma keeps_trans a b c : keeps a b -> keeps b c -> keeps a c.
Proof. intros [S1 L1] [S2 L2]. split; congruence. Qed.

Lemma push_property_shape : forall fs root n v fs' root',
  push_property fs root n v = Ok (fs', root') -> shape fs' = shape fs.
Proof.
  induction fs as [|f rest IH]; intros root n v fs' root' H; [discriminate|].
  destruct f as [[s b]|name|an a r body|a r body]; cbn [push_property] in H.
  - inversion H; subst. reflexivity.
  - destruct (push_property rest root (name ++ dash ++ n) v) as [[rest1 root1]| | |] eqn:E; try discriminate.
    inversion H; subst. cbn. f_equal. apply (IH _ _ _ _ _ E).
  - destruct r as [[s b]|]; inversion H; subst; reflexivity.
  - destruct r as [[s b]|]; inversion H; subst; reflexivity.
Qed.

Lemma push_comment_shape : forall fs root c, shape (fst (push_comment fs root c)) = shape fs.
Proof.
  induction fs as [|f rest IH]; intros root c; [reflexivity|].
  destruct f as [[s b]|name|an a r body|a r body]; cbn [push_comment].
  - reflexivity.
  - specialize (IH root c). destruct (push_comment rest root c) as [rest1 root1]. cbn in *. f_equal. exact IH.
  - destruct r as [[s b]|]; reflexivity.
  - destruct r as [[s b]|]; reflexivity.
Qed.

Lemma wf_top_free f rest : wf (f :: rest) = true -> is_ns f = false -> no_ns rest = true.
Proof. unfold wf. cbn. intros H E. rewrite E in H. rewrite no_ns_shape. exact H. Qed.

Lemma wf_free fs : wf fs = true -> match fs with FNs _ :: _ => False | _ => True end -> no_ns fs = true.
Proof.
  intros H T. destruct fs as [|f rest]; [reflexivity|].
  destruct f; try contradiction; cbn; apply (wf_top_free _ rest H); reflexivity.
Qed.

(* Drop of the innermost destination under the invariant *)
Lemma close_keeps st f rest : d_frames st = f :: rest -> wf (f :: rest) = true ->
  shape (d_frames (close st)) = shape rest /\ d_lost (close st) = d_lost st.
Proof.
  intros E W. destruct (is_ns f) eqn:N.
  - destruct f; try discriminate. destruct st as [fs root lost]. cbn in E. subst fs. cbn. split; reflexivity.
  - pose proof (wf_top_free f rest W N) as Hn.
    assert (Ht : no_ns (tl (d_frames st)) = true) by (rewrite E; exact Hn).
    destruct (close_no_loss (fun _ => 0%nat) st Ht) as [L [_ Nn]]. split; [|exact L].
    apply shape_no_ns_eq; [exact Nn | exact Hn|].
    (* the length of the stack after the Drop *)
    destruct st as [fs root lost]. cbn in E. subst fs. cbn [close d_frames d_root d_lost].
    assert (DP : forall it, length (d_frames (drop_push rest root lost (Some it))) = length rest).
    { intros it. unfold drop_push. destruct (push_item_total rest root it Hn) as [fs' [root' Ep]]. rewrite Ep.
      destruct (push_item_f_ok (fun _ => 0%nat) _ _ _ _ _ _ Ep) as [_ [Lp _]]. cbn. exact Lp. }
    destruct f as [[s b]|name|an a r body|a r body]; try discriminate.
    + destruct b; [reflexivity | apply DP].
    + apply DP.
    + apply DP.
Qed.

Section NoLoss.
  Variables (n : nat) (ms : list (list stmt)) (c : bool).
  Hypothesis IH : forall cenv ctx st s st',
    wf (d_frames st) = true -> eval_item n ms c cenv ctx st s = Ok st' -> keeps st st'.

  Lemma body_keeps cenv ctx : forall l st st',
    wf (d_frames st) = true -> run_body (eval_item n ms c cenv ctx) l st = Ok st' -> keeps st st'.
  Proof.
    induction l as [|x r IHl]; intros st st' W H.
    - cbn in H. inversion H; subst. apply keeps_refl.
    - cbn [run_body] in H. apply bind_ok in H. destruct H as [st1 [H1 H2]].
      pose proof (IH _ _ _ _ _ W H1) as K1.
      assert (W1 : wf (d_frames st1) = true) by (unfold wf in *; rewrite (proj1 K1); exact W).
      apply (keeps_trans _ _ _ K1 (IHl _ _ W1 H2)).
  Qed.
End NoLoss.

(* a block statement: open a destination that is not FNs, run the body, drop it *)
Lemma block_keeps (f : frame) st st1 st2 :
  is_ns f = false -> wf (d_frames st) = true ->
  match d_frames st with FNs _ :: _ => False | _ => True end ->
  d_frames st1 = f :: d_frames st -> d_lost st1 = d_lost st -> keeps st1 st2 ->
  wf (d_frames st1) = true /\ keeps st (close st2).
Proof.
  intros N W T E1 L1 K.
  assert (W1 : wf (d_frames st1) = true).
  { rewrite E1. unfold wf. cbn. rewrite N. rewrite <- no_ns_shape. apply wf_free; assumption. }
  split; [exact W1|].
  destruct K as [S2 L2].
  destruct (d_frames st2) as [|f2 rest2] eqn:E2; [rewrite E1 in S2; discriminate|].
  assert (W2 : wf (f2 :: rest2) = true) by (unfold wf in *; rewrite S2; exact W1).
  destruct (close_keeps st2 f2 rest2 E2 W2) as [Sc Lc].
  split; [|congruence].
  rewrite Sc. rewrite E1 in S2. cbn in S2. inversion S2. unfold shape. assumption.
Qed.

Lemma all_keeps : forall fuel ms c cenv ctx st s st',
  wf (d_frames st) = true -> eval_item fuel ms c cenv ctx st s = Ok st' -> keeps st st'.
Proof.
  induction fuel as [|n IH]; intros ms c cenv ctx st s st' W H; [discriminate|].
  pose proof (body_keeps n ms c (IH ms c)) as HB.
  assert (Hblock : forall f st1 cenv' ctx' b st2,
            is_ns f = false -> match d_frames st with FNs _ :: _ => False | _ => True end ->
            d_frames st1 = f :: d_frames st -> d_lost st1 = d_lost st ->
            run_body (eval_item n ms c cenv' ctx') b st1 = Ok st2 -> keeps st (close st2)).
  { intros f st1 cenv' ctx' b st2 N T E1 L1 E2.
    assert (W1 : wf (d_frames st1) = true).
    { rewrite E1. unfold wf. cbn. rewrite N. rewrite <- no_ns_shape. apply wf_free; assumption. }
    apply (block_keeps f st st1 st2 N W T E1 L1 (HB _ _ _ _ _ W1 E2)). }
  assert (Hstart : forall ss st1, start_rule st ss = Ok st1 ->
            match d_frames st with FNs _ :: _ => False | _ => True end
            /\ d_frames st1 = FRule (ss, []) :: d_frames st /\ d_lost st1 = d_lost st).
  { intros ss st1 E. unfold start_rule in E. destruct (d_frames st) as [|f r].
    - inversion E; subst. cbn. auto.
    - destruct f; inversion E; subst; cbn; auto. }
  destruct s; cbn [eval_item] in H.
  - (* declaration *)
    unfold with_frames in H. apply bind_ok in H. destruct H as [[fs root] [E H]]. inversion H; subst.
    split; [cbn; apply (push_property_shape _ _ _ _ _ _ E) | reflexivity].
  - (* comment *)
    destruct (c && negb (starts_bang text)).
    + inversion H; subst. apply keeps_refl.
    + pose proof (push_comment_shape (d_frames st) (d_root st) (IComment text)) as P.
      destruct (push_comment (d_frames st) (d_root st) (IComment text)) as [fs root].
      inversion H; subst. split; [exact P | reflexivity].
  - (* rule *)
    destruct (negb (check_body BRule body)); [discriminate|].
    destruct (nest ctx sels) as [ss|]; [|discriminate].
    apply bind_ok in H. destruct H as [st1 [E1 H]]. apply bind_ok in H. destruct H as [st2 [E2 H]].
    inversion H; subst. destruct (Hstart _ _ E1) as [T [F1 L1]].
    eapply Hblock; [| exact T | exact F1 | exact L1 | exact E2]; reflexivity.
  - (* nested property *)
    destruct (negb (check_body BNsRule body)); [discriminate|].
    apply bind_ok in H. destruct H as [st0 [E0 H]].
    apply bind_ok in H. destruct H as [st1 [E1 H]]. apply bind_ok in H. destruct H as [st2 [E2 H]].
    inversion H; subst.
    assert (K0 : keeps st st0).
    { destruct value as [v|]; [|inversion E0; subst; apply keeps_refl].
      unfold with_frames in E0. apply bind_ok in E0. destruct E0 as [[fs root] [Ep E0]]. inversion E0; subst.
      split; [cbn; apply (push_property_shape _ _ _ _ _ _ Ep) | reflexivity]. }
    assert (W0 : wf (d_frames st0) = true) by (unfold wf in *; rewrite (proj1 K0); exact W).
    unfold start_nsrule in E1. destruct (d_frames st0) as [|f0 r0] eqn:Ef0; [discriminate|].
    inversion E1; subst.
    assert (W1 : wf (FNs name :: f0 :: r0) = true) by exact W0.
    pose proof (HB cenv ctx body (mkD (FNs name :: f0 :: r0) (d_root st0) (d_lost st0)) st2 W1 E2) as [S2 L2].
    cbn [d_frames d_lost] in S2, L2.
    destruct (d_frames st2) as [|f2 rest2] eqn:Ef2; [discriminate|].
    assert (W2 : wf (f2 :: rest2) = true) by (unfold wf, shape in *; cbn [map] in *; rewrite S2; exact W1).
    destruct (close_keeps st2 f2 rest2 Ef2 W2) as [Sc Lc].
    apply (keeps_trans _ _ _ K0). split.
    + rewrite Sc, Ef0. cbn in S2. inversion S2. unfold shape. cbn [map]. congruence.
    + congruence.
  - (* @media *)
    apply bind_ok in H. destruct H as [st1 [E1 H]]. apply bind_ok in H. destruct H as [st2 [E2 H]].
    inversion H; subst. unfold start_atmedia in E1.
    destruct (d_frames st) as [|f r] eqn:Ef.
    + inversion E1; subst. eapply Hblock; [| | | | exact E2]; cbn; rewrite ?Ef; auto; try reflexivity.
    + destruct f; inversion E1; subst;
        (eapply Hblock; [| | | | exact E2]; cbn; rewrite ?Ef; auto; try reflexivity).
  - (* at-rule *)
    destruct body as [b|].
    + apply bind_ok in H. destruct H as [st1 [E1 H]]. apply bind_ok in H. destruct H as [st2 [E2 H]].
      inversion H; subst. unfold start_atrule in E1.
      destruct (d_frames st) as [|f r] eqn:Ef.
      * inversion E1; subst. eapply Hblock; [| | | | exact E2]; cbn; rewrite ?Ef; auto; try reflexivity.
      * destruct f; inversion E1; subst;
          (eapply Hblock; [| | | | exact E2]; cbn; rewrite ?Ef; auto; try reflexivity).
    + unfold with_frames in H. apply bind_ok in H. destruct H as [[fs root] [E H]]. inversion H; subst.
      assert (T : match d_frames st with FNs _ :: _ => False | _ => True end).
      { destruct (d_frames st) as [|f r]; [exact I|]. destruct f; try exact I.
        unfold push_item in E. cbn in E. discriminate. }
      pose proof (wf_free _ W T) as Hn.
      destruct (push_item_f_ok (fun _ => 0%nat) _ _ _ _ _ _ E) as [_ [L N]].
      split; [|reflexivity]. cbn [d_frames].
      apply shape_no_ns_eq; [rewrite N; exact Hn | exact Hn | exact L].
  - (* @at-root *)
    destruct (at_root ctx sels) as [ctx'|]; [|discriminate].
    destruct (c_s ctx') as [ss|].
    + apply bind_ok in H. destruct H as [st1 [E1 H]]. apply bind_ok in H. destruct H as [st2 [E2 H]].
      inversion H; subst. destruct (Hstart _ _ E1) as [T [F1 L1]].
      eapply Hblock; [| exact T | exact F1 | exact L1 | exact E2]; reflexivity.
    + apply (HB _ _ _ _ _ W H).
  - discriminate.
  - (* @if *)
    destruct (negb (check_body BControl (if c0 then t else e))); [discriminate|].
    apply (HB _ _ _ _ _ W H).
  - (* loop *)
    destruct (negb (check_body BControl body)); [discriminate|].
    clear Hblock Hstart. revert st W H. induction n0 as [|k IHk]; intros st W H.
    + inversion H; subst. apply keeps_refl.
    + apply bind_ok in H. destruct H as [st1 [H1 H2]].
      pose proof (HB _ _ _ _ _ W H1) as K1.
      assert (W1 : wf (d_frames st1) = true) by (unfold wf in *; rewrite (proj1 K1); exact W).
      apply (keeps_trans _ _ _ K1). apply (IHk _ W1 H2).
  - (* loop with per-iteration bodies *)
    destruct (negb (check_body BControl proto)); [discriminate|].
    clear Hblock Hstart. revert st W H. induction bodies as [|b r IHb]; intros st W H.
    + inversion H; subst. apply keeps_refl.
    + apply bind_ok in H. destruct H as [st1 [H1 H2]].
      pose proof (HB _ _ _ _ _ W H1) as K1.
      assert (W1 : wf (d_frames st1) = true) by (unfold wf in *; rewrite (proj1 K1); exact W).
      apply (keeps_trans _ _ _ K1). apply (IHb _ W1 H2).
  - (* @include *)
    destruct (nth_error ms m) as [mb|]; [|discriminate]. apply (HB _ _ _ _ _ W H).
  - (* @content *)
    destruct cenv as [|[cb|] outer].
    + inversion H; subst. apply keeps_refl.
    + apply (HB _ _ _ _ _ W H).
    + inversion H; subst. apply keeps_refl.
Qed.

Lemma no_error_swallowed fuel c p st : eval_program fuel c p = Ok st -> d_lost st = 0%nat.
Proof.
  unfold eval_program. intros H.
  destruct (negb (forallb (check_body BMixin) (p_mixins p))); [discriminate|].
  apply (body_keeps fuel (p_mixins p) c (all_keeps fuel (p_mixins p) c) [] root_ctx (p_main p)
           (mkD [] (mkData [] []) 0) st eq_refl H).
Qed.

(* ------------------------------------------------------------------------ *)
(* loops: an error raised in ANY iteration - also a non-final one that is followed by
   iterations that would succeed - is the result of the loop *)
Definition each_fold (f : list stmt -> dstate -> res dstate) : list (list stmt) -> dstate -> res dstate :=
  fix each (bs : list (list stmt)) (st : dstate) : res dstate :=
    match bs with [] => Ok st | b :: r => bind (f b st) (each r) end.

Lemma each_fold_stops f : forall bs1 b bs2 st st1 e,
  each_fold f bs1 st = Ok st1 -> f b st1 = Err e -> each_fold f (bs1 ++ b :: bs2) st = Err e.
Proof.
  induction bs1 as [|x r IH]; intros b bs2 st st1 e H1 H2.
  - cbn in H1. inversion H1; subst. cbn. rewrite H2. reflexivity.
  - cbn in H1. apply bind_ok in H1. destruct H1 as [st0 [Hx Hr]].
    cbn [app each_fold]. rewrite Hx. cbn [bind]. apply (IH _ _ _ _ _ Hr H2).
Qed.

Lemma each_arm n ms c cenv ctx st proto bodies :
  check_body BControl proto = true ->
  eval_item (S n) ms c cenv ctx st (SEach proto bodies)
  = each_fold (fun b st => run_body (eval_item n ms c cenv ctx) b st) bodies st.
Proof. intros H. cbn [eval_item]. rewrite H. reflexivity. Qed.

Lemma loop_error_not_overwritten n ms c cenv ctx st proto bs1 b bs2 st1 e :
  check_body BControl proto = true ->
  each_fold (fun b st => run_body (eval_item n ms c cenv ctx) b st) bs1 st = Ok st1 ->
  run_body (eval_item n ms c cenv ctx) b st1 = Err e ->
  eval_item (S n) ms c cenv ctx st (SEach proto (bs1 ++ b :: bs2)) = Err e.
Proof.
  intros Hc H1 H2. rewrite each_arm by exact Hc.
  apply (each_fold_stops _ bs1 b bs2 st st1 e H1 H2).
Qed.
