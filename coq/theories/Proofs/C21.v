(* Proofs for C21: where content can be lost in the destinations. *)
From Coq Require Import List NArith Bool Arith Lia.
From RV Require Import Base.Text Model.Out Model.OutDest Spec.Reach.
Import ListNotations.
Local Open Scope N_scope.

Definition is_ns (f : frame) : bool := match f with FNs _ => true | _ => false end.
Definition no_ns (fs : list frame) : bool := forallb (fun f => negb (is_ns f)) fs.

(* ---- an arbitrary additive measure on CSS trees: mu counts leaf items ---- *)
Section Measure.
  Variable mu : item -> nat.     (* weight of a leaf item (comment, declaration, import, body-less at-rule) *)

  Fixpoint wt (it : item) : nat :=
    let wts := fix wts (l : list item) : nat :=
      match l with [] => 0%nat | x :: r => (wt x + wts r)%nat end in
    match it with
    | IRule _ b | IMedia _ b | IAt _ _ (Some b) => wts b
    | ISep => 0%nat
    | _ => mu it
    end.
  Fixpoint wts (l : list item) : nat :=
    match l with [] => 0%nat | x :: r => (wt x + wts r)%nat end.

  Lemma wts_app a b : wts (a ++ b) = (wts a + wts b)%nat.
  Proof. induction a as [|x a IH]; [reflexivity|]. cbn [app wts]. rewrite IH. lia. Qed.

  Lemma wt_IRule s b : wt (IRule s b) = wts b.
  Proof. cbn. induction b as [|x r IH]; [reflexivity|]. cbn. rewrite IH. reflexivity. Qed.
  Lemma wt_IMedia a b : wt (IMedia a b) = wts b.
  Proof. cbn. induction b as [|x r IH]; [reflexivity|]. cbn. rewrite IH. reflexivity. Qed.
  Lemma wt_IAt n a b : wt (IAt n a (Some b)) = wts b.
  Proof. cbn. induction b as [|x r IH]; [reflexivity|]. cbn. rewrite IH. reflexivity. Qed.

  Definition wt_rule (r : option rulebuf) : nat := match r with Some (_, b) => wts b | None => 0%nat end.
  Definition wt_frame (f : frame) : nat :=
    match f with
    | FRule (_, b) => wts b
    | FNs _ => 0%nat
    | FAt _ _ r b | FMedia _ r b => (wt_rule r + wts b)%nat
    end.
  Fixpoint wt_frames (fs : list frame) : nat :=
    match fs with [] => 0%nat | f :: r => (wt_frame f + wt_frames r)%nat end.
  Definition wt_data (d : cssdata) : nat := (wts (d_imports d) + wts (d_body d))%nat.
  Definition wt_state (fs : list frame) (root : cssdata) : nat := (wt_frames fs + wt_data root)%nat.

  Lemma wt_root_push root it : wt_data (root_push root it) = (wt_data root + wt it)%nat.
  Proof.
    unfold root_push, wt_data. destruct (is_import it); cbn; rewrite wts_app; cbn; lia.
  Qed.

  (* push_item: when it succeeds nothing is lost and nothing is invented; the
     stack of open destinations keeps its shape *)
  Lemma push_item_f_ok : forall fuel fs root it fs' root',
    push_item_f fuel fs root it = Ok (fs', root') ->
    wt_state fs' root' = (wt_state fs root + wt it)%nat
    /\ length fs' = length fs /\ no_ns fs' = no_ns fs.
  Proof.
    induction fuel as [|n IH]; intros fs root it fs' root' H; [discriminate|].
    cbn [push_item_f] in H. destruct fs as [|f rest].
    - inversion H; subst. unfold wt_state. cbn. rewrite wt_root_push. repeat split; lia.
    - destruct f as [[s b]|name|an a r body|a r body].
      + destruct (is_sep it) eqn:Es.
        { inversion H; subst. destruct it; try discriminate. cbn. repeat split; lia. }
        destruct (no_body_at it) eqn:En.
        { inversion H; subst. unfold wt_state. cbn. rewrite wts_app. cbn. repeat split; lia. }
        destruct b as [|b0 br].
        * destruct (push_item_f n rest root it) as [[rest2 root2]| | |] eqn:E2; try discriminate.
          inversion H; subst. destruct (IH _ _ _ _ _ E2) as [W [L N]].
          unfold wt_state in *. cbn in *. repeat split; try lia; try congruence; try (unfold no_ns in *; congruence).
        * destruct (push_item_f n rest root (IRule s (b0 :: br))) as [[rest1 root1]| | |] eqn:E1; try discriminate.
          destruct (push_item_f n rest1 root1 it) as [[rest2 root2]| | |] eqn:E2; try discriminate.
          inversion H; subst.
          destruct (IH _ _ _ _ _ E1) as [W1 [L1 N1]]. destruct (IH _ _ _ _ _ E2) as [W2 [L2 N2]].
          rewrite wt_IRule in W1. unfold wt_state in *. cbn in *. repeat split; try lia; try congruence; try (unfold no_ns in *; congruence).
      + discriminate.
      + destruct (is_sep it) eqn:Es; inversion H; subst.
        * destruct it; try discriminate. cbn. repeat split; lia.
        * unfold wt_state. cbn. rewrite wts_app. cbn. repeat split; lia.
      + destruct (is_sep it) eqn:Es; inversion H; subst.
        * destruct it; try discriminate. cbn. repeat split; lia.
        * unfold wt_state. cbn. rewrite wts_app. cbn. repeat split; lia.
  Qed.
End Measure.

(* push_item fails only with "inside a namespace rule", and only when a
   nested-property destination is open; with enough fuel it never runs out *)
Lemma push_item_f_total : forall fuel fs root it,
  (length fs < fuel)%nat -> no_ns fs = true ->
  exists fs' root', push_item_f fuel fs root it = Ok (fs', root').
Proof.
  induction fuel as [|n IH]; intros fs root it Hl Hn; [lia|].
  cbn [push_item_f]. destruct fs as [|f rest]; [eauto|].
  cbn in Hl. cbn in Hn. apply andb_true_iff in Hn. destruct Hn as [Hf Hr].
  destruct f as [[s b]|name|an a r body|a r body]; try discriminate.
  - destruct (is_sep it); [eauto|]. destruct (no_body_at it); [eauto|].
    assert (Hl' : (length rest < n)%nat) by lia.
    destruct b as [|b0 br].
    + destruct (IH rest root it Hl' Hr) as [fs2 [root2 E2]]. rewrite E2. eauto.
    + destruct (IH rest root (IRule s (b0 :: br)) Hl' Hr) as [fs1 [root1 E1]]. rewrite E1.
      destruct (push_item_f_ok (fun _ => 0%nat) _ _ _ _ _ _ E1) as [_ [L1 N1]].
      assert (Hl1 : (length fs1 < n)%nat) by lia.
      assert (Hr1 : no_ns fs1 = true) by (rewrite N1; exact Hr).
      destruct (IH fs1 root1 it Hl1 Hr1) as [fs2 [root2 E2]]. rewrite E2. eauto.
  - destruct (is_sep it); eauto.
  - destruct (is_sep it); eauto.
Qed.

Lemma push_item_total fs root it : no_ns fs = true ->
  exists fs' root', push_item fs root it = Ok (fs', root').
Proof. intros H. apply push_item_f_total; [lia | exact H]. Qed.

Lemma push_item_f_err : forall fuel fs root it e,
  push_item_f fuel fs root it = Err e -> e = EInNs /\ no_ns fs = false.
Proof.
  induction fuel as [|n IH]; intros fs root it e H; [discriminate|].
  cbn [push_item_f] in H. destruct fs as [|f rest]; [discriminate|].
  destruct f as [[s b]|name|an a r body|a r body].
  - destruct (is_sep it); [discriminate|]. destruct (no_body_at it); [discriminate|].
    cbn. destruct b as [|b0 br].
    + destruct (push_item_f n rest root it) as [[rest2 root2]|e2| |] eqn:E2; try discriminate.
      inversion H; subst. apply (IH _ _ _ _ E2).
    + destruct (push_item_f n rest root (IRule s (b0 :: br))) as [[rest1 root1]|e1| |] eqn:E1; try discriminate.
      * destruct (push_item_f n rest1 root1 it) as [[rest2 root2]|e2| |] eqn:E2; try discriminate.
        inversion H; subst. destruct (IH _ _ _ _ E2) as [He Hn]. split; [exact He|].
        destruct (push_item_f_ok (fun _ => 0%nat) _ _ _ _ _ _ E1) as [_ [_ N1]]. unfold no_ns in *. cbn in *. rewrite <- N1. exact Hn.
      * inversion H; subst. apply (IH _ _ _ _ E1).
  - inversion H; subst. split; reflexivity.
  - destruct (is_sep it); discriminate.
  - destruct (is_sep it); discriminate.
Qed.

(* Drop: closing the innermost destination loses nothing unless a
   nested-property destination is open below it *)
Lemma close_no_loss mu st :
  no_ns (tl (d_frames st)) = true ->
  d_lost (close st) = d_lost st
  /\ wt_state mu (d_frames (close st)) (d_root (close st)) = wt_state mu (d_frames st) (d_root st)
  /\ no_ns (d_frames (close st)) = true.
Proof.
  destruct st as [fs root lost]. cbn [d_frames d_root d_lost]. intros Hn.
  destruct fs as [|f rest]; [cbn; auto|]. cbn [tl] in Hn.
  assert (Sep : forall fs r, wt_data mu (separate fs r) = wt_data mu r).
  { intros fs0 r. unfold separate. destruct fs0; [|reflexivity]. unfold wt_data. cbn. rewrite wts_app. cbn. lia. }
  assert (DP : forall it, wt mu it = wt_frame mu f ->
             d_lost (drop_push rest root lost (Some it)) = lost
             /\ wt_state mu (d_frames (drop_push rest root lost (Some it))) (d_root (drop_push rest root lost (Some it)))
                = wt_state mu (f :: rest) root
             /\ no_ns (d_frames (drop_push rest root lost (Some it))) = true).
  { intros it Hw. unfold drop_push. destruct (push_item_total rest root it Hn) as [fs' [root' E]]. rewrite E.
    destruct (push_item_f_ok mu _ _ _ _ _ _ E) as [W [L N]]. cbn.
    unfold wt_state in *. rewrite Sep. cbn. repeat split; try lia. fold (no_ns fs'). rewrite N. exact Hn. }
  destruct f as [[s b]|name|an a r body|a r body]; cbn [close d_frames d_root d_lost].
  - destruct b as [|b0 br].
    + unfold drop_push. cbn. unfold wt_state. rewrite Sep. cbn. repeat split; try lia. exact Hn.
    + apply DP. rewrite wt_IRule. reflexivity.
  - cbn. unfold wt_state. cbn. repeat split; try lia. exact Hn.
  - apply DP. rewrite wt_IAt. destruct r as [[s b]|]; cbn [wts wt_frame wt_rule]; rewrite ?wt_IRule; lia.
  - apply DP. rewrite wt_IMedia. destruct r as [[s [|b0 br]]|]; cbn [wts wt_frame wt_rule]; rewrite ?wt_IRule; cbn [wts]; lia.
Qed.

(* the top-level destination accepts every item *)
Lemma root_accepts root it : push_item [] root it = Ok ([], root_push root it).
Proof. reflexivity. Qed.

(* F24 *)
Definition ns_witness : program :=
  mkProg [] [SRule [SPlain [97]] [SNs [98] None [SMedia [112;114;105;110;116] [SDecl [99] [100]]]]].
Lemma refuted_ns :
  compile FUEL Expanded ns_witness = Ok ([], 1%nat)
  /\ reach_program FUEL ns_witness = [LDecl [[98]] [99] [100]].
Proof. split; vm_compute; reflexivity. Qed.

(* ------------------------------------------------------------------------ *)
(* @error always propagates: no arm of the evaluator handles an error *)
Definition is_lerror (x : leafstmt) : bool := match x with LError _ => true | _ => false end.
Definition has_error (l : list leafstmt) : bool := existsb is_lerror l.

Lemma has_error_app a b : has_error (a ++ b) = has_error a || has_error b.
Proof. apply existsb_app. Qed.

Lemma bind_ok {A B} (r : res A) (f : A -> res B) b :
  bind r f = Ok b -> exists a, r = Ok a /\ f a = Ok b.
Proof. destruct r; cbn; intros H; try discriminate. eauto. Qed.

Section ErrProp.
  Variables (n : nat) (ms : list (list stmt)) (c : bool).
  Hypothesis IH : forall cenv ctx st s st' pre,
    eval_item n ms c cenv ctx st s = Ok st' -> has_error (reach n ms cenv pre s) = false.

  Lemma body_no_error cenv ctx pre : forall l st st',
    run_body (eval_item n ms c cenv ctx) l st = Ok st' ->
    has_error (flat_map (reach n ms cenv pre) l) = false.
  Proof.
    induction l as [|x r IHl]; intros st st' H; [reflexivity|].
    cbn [run_body] in H. apply bind_ok in H. destruct H as [st1 [H1 H2]].
    cbn [flat_map]. rewrite has_error_app, (IH _ _ _ _ _ pre H1). cbn. apply (IHl _ _ H2).
  Qed.
End ErrProp.

Lemma ok_no_error : forall fuel ms c cenv ctx st s st' pre,
  eval_item fuel ms c cenv ctx st s = Ok st' -> has_error (reach fuel ms cenv pre s) = false.
Proof.
  induction fuel as [|n IH]; intros ms c cenv ctx st s st' pre H; [discriminate|].
  pose proof (body_no_error n ms c (IH ms c)) as HB.
  destruct s; cbn [eval_item] in H; cbn [reach].
  - reflexivity.
  - reflexivity.
  - destruct (negb (check_body BRule body)); [discriminate|].
    destruct (nest ctx sels); [|discriminate].
    apply bind_ok in H. destruct H as [st1 [_ H]]. apply bind_ok in H. destruct H as [st2 [H _]].
    apply (HB _ _ _ _ _ _ H).
  - destruct (negb (check_body BNsRule body)); [discriminate|].
    apply bind_ok in H. destruct H as [st0 [_ H]].
    apply bind_ok in H. destruct H as [st1 [_ H]]. apply bind_ok in H. destruct H as [st2 [H _]].
    rewrite has_error_app, (HB _ _ _ _ _ _ H). destruct value; reflexivity.
  - apply bind_ok in H. destruct H as [st2 [H _]]. apply (HB _ _ _ _ _ _ H).
  - destruct body as [b|]; [|reflexivity].
    apply bind_ok in H. destruct H as [st2 [H _]]. apply (HB _ _ _ _ _ _ H).
  - destruct (at_root ctx sels) as [ctx'|]; [|discriminate].
    destruct (c_s ctx').
    + apply bind_ok in H. destruct H as [st1 [_ H]]. apply bind_ok in H. destruct H as [st2 [H _]].
      apply (HB _ _ _ _ _ _ H).
    + apply (HB _ _ _ _ _ _ H).
  - discriminate.
  - destruct (negb (check_body BControl (if c0 then t else e))); [discriminate|].
    apply (HB _ _ _ _ _ _ H).
  - destruct (negb (check_body BControl body)); [discriminate|].
    revert st H. induction n0 as [|k IHk]; intros st H; [reflexivity|].
    apply bind_ok in H. destruct H as [st1 [H1 H2]].
    cbn [repeat_app]. rewrite has_error_app, (HB _ _ _ _ _ _ H1). cbn. apply (IHk _ H2).
  - destruct (negb (check_body BControl proto)); [discriminate|].
    revert st H. induction bodies as [|b r IHb]; intros st H; [reflexivity|].
    apply bind_ok in H. destruct H as [st1 [H1 H2]].
    cbn [flat_map]. rewrite has_error_app, (HB _ _ _ _ _ _ H1). cbn. apply (IHb _ H2).
  - destruct (nth_error ms m); [|reflexivity]. apply (HB _ _ _ _ _ _ H).
  - destruct cenv as [|[cb|] outer]; try reflexivity. apply (HB _ _ _ _ _ _ H).
Qed.

(* whole programs: a run that reaches an @error does not succeed *)
Lemma program_ok_no_error fuel c p st :
  eval_program fuel c p = Ok st -> has_error (reach_program fuel p) = false.
Proof.
  unfold eval_program, reach_program. destruct (negb (forallb (check_body BMixin) (p_mixins p))); [discriminate|].
  destruct fuel as [|n]; intros H.
  - destruct (p_main p); [reflexivity|]. cbn in H. discriminate.
  - apply (body_no_error (S n) (p_mixins p) c (fun cenv ctx st s st' pre => ok_no_error (S n) (p_mixins p) c cenv ctx st s st' pre) [] root_ctx [] _ _ _ H).
Qed.

(* ------------------------------------------------------------------------ *)
(* programs without nested-property blocks: no Drop ever swallows an error *)
Fixpoint ns_free (s : stmt) : bool :=
  let all := fix all (l : list stmt) : bool := match l with [] => true | x :: r => ns_free x && all r end in
  match s with
  | SNs _ _ _ => false
  | SRule _ b | SMedia _ b | SAtR _ _ (Some b) | SAtRoot _ b | SLoop _ b => all b
  | SEach _ bs => (fix alll (l : list (list stmt)) : bool := match l with [] => true | x :: r => all x && alll r end) bs
  | SIf _ t e => all t && all e
  | SInclude _ (Some c) => all c
  | _ => true
  end.
Fixpoint ns_free_l (l : list stmt) : bool :=
  match l with [] => true | x :: r => ns_free x && ns_free_l r end.
Definition cenv_free (cenv : list (option (list stmt))) : bool :=
  forallb (fun o => match o with Some l => ns_free_l l | None => true end) cenv.

Definition good (st st' : dstate) : Prop :=
  no_ns (d_frames st') = true /\ d_lost st' = d_lost st.

Lemma good_refl st : no_ns (d_frames st) = true -> good st st.
Proof. intros H; split; [exact H | reflexivity]. Qed.
Lemma good_trans a b c : good a b -> good b c -> good a c.
Proof. intros [_ L1] [N2 L2]. split; [exact N2 | congruence]. Qed.

Lemma push_property_no_ns : forall fs root n v fs' root',
  no_ns fs = true -> push_property fs root n v = Ok (fs', root') -> no_ns fs' = true.
Proof.
  intros fs root n v fs' root' Hn H. destruct fs as [|f rest]; [discriminate|].
  cbn in Hn. apply andb_true_iff in Hn. destruct Hn as [Hf Hr].
  destruct f as [[s b]|name|an a r body|a r body]; try discriminate; cbn in H.
  - inversion H; subst. cbn. exact Hr.
  - destruct r as [[s b]|]; inversion H; subst; cbn; exact Hr.
  - destruct r as [[s b]|]; inversion H; subst; cbn; exact Hr.
Qed.

Lemma push_comment_no_ns : forall fs root c, no_ns fs = true -> no_ns (fst (push_comment fs root c)) = true.
Proof.
  intros fs root c Hn. destruct fs as [|f rest]; [reflexivity|].
  cbn in Hn. apply andb_true_iff in Hn. destruct Hn as [Hf Hr].
  destruct f as [[s b]|name|an a r body|a r body]; try discriminate; cbn.
  - exact Hr.
  - destruct r as [[s b]|]; cbn; exact Hr.
  - destruct r as [[s b]|]; cbn; exact Hr.
Qed.

Lemma close_good st : no_ns (d_frames st) = true -> good st (close st).
Proof.
  intros Hn. assert (Ht : no_ns (tl (d_frames st)) = true).
  { destruct (d_frames st) as [|f r]; [reflexivity|]. cbn in Hn. apply andb_true_iff in Hn. apply Hn. }
  destruct (close_no_loss (fun _ => 0%nat) st Ht) as [L [_ N]]. split; assumption.
Qed.

Section NsFree.
  Variables (n : nat) (ms : list (list stmt)) (c : bool).
  Hypothesis Hms : forallb ns_free_l ms = true.
  Hypothesis IH : forall cenv ctx st s st',
    cenv_free cenv = true -> ns_free s = true -> no_ns (d_frames st) = true ->
    eval_item n ms c cenv ctx st s = Ok st' -> good st st'.

  Lemma body_good cenv ctx : cenv_free cenv = true -> forall l st st',
    ns_free_l l = true -> no_ns (d_frames st) = true ->
    run_body (eval_item n ms c cenv ctx) l st = Ok st' -> good st st'.
  Proof.
    intros Hc. induction l as [|x r IHl]; intros st st' Hl Hn H.
    - cbn in H. inversion H; subst. apply good_refl, Hn.
    - cbn in Hl. apply andb_true_iff in Hl. destruct Hl as [Hx Hr].
      cbn [run_body] in H. apply bind_ok in H. destruct H as [st1 [H1 H2]].
      pose proof (IH _ _ _ _ _ Hc Hx Hn H1) as G1.
      apply (good_trans _ _ _ G1). apply (IHl _ _ Hr (proj1 G1) H2).
  Qed.
End NsFree.

Lemma ns_free_all_eq : forall l,
  (fix all (l : list stmt) : bool := match l with [] => true | x :: r => ns_free x && all r end) l = ns_free_l l.
Proof. induction l as [|x r IH]; [reflexivity|]. cbn. rewrite IH. reflexivity. Qed.

Lemma nth_error_forallb {A} (f : A -> bool) l k x :
  forallb f l = true -> nth_error l k = Some x -> f x = true.
Proof.
  revert k. induction l as [|y r IH]; intros k Hf Hk; [destruct k; discriminate|].
  cbn in Hf. apply andb_true_iff in Hf. destruct Hf as [Hy Hr].
  destruct k; cbn in Hk; [inversion Hk; subst; exact Hy | apply (IH k Hr Hk)].
Qed.

Lemma ns_free_good : forall fuel ms c, forallb ns_free_l ms = true ->
  forall cenv ctx st s st',
  cenv_free cenv = true -> ns_free s = true -> no_ns (d_frames st) = true ->
  eval_item fuel ms c cenv ctx st s = Ok st' -> good st st'.
Proof.
  induction fuel as [|n IH]; intros ms c Hms cenv ctx st s st' Hc Hs Hn H; [discriminate|].
  pose proof (body_good n ms c (IH ms c Hms)) as HB.
  assert (Hstart : forall st0 ss st1, no_ns (d_frames st0) = true -> start_rule st0 ss = Ok st1 -> good st0 st1).
  { intros st0 ss st1 Hn0 E. unfold start_rule in E. destruct (d_frames st0) as [|f r] eqn:Ef.
    - inversion E; subst. split; reflexivity.
    - destruct f; inversion E; subst; split; try reflexivity; cbn; cbn in Hn0; exact Hn0. }
  destruct s; cbn [eval_item] in H; cbn [ns_free] in Hs; rewrite ?ns_free_all_eq in Hs.
  - (* declaration *)
    unfold with_frames in H. apply bind_ok in H. destruct H as [[fs root] [E H]]. inversion H; subst.
    split; [cbn; apply (push_property_no_ns _ _ _ _ _ _ Hn E) | reflexivity].
  - (* comment *)
    destruct (c && negb (starts_bang text)).
    + inversion H; subst. apply good_refl, Hn.
    + pose proof (push_comment_no_ns (d_frames st) (d_root st) (IComment text) Hn) as P.
      destruct (push_comment (d_frames st) (d_root st) (IComment text)) as [fs root].
      inversion H; subst. split; [exact P | reflexivity].
  - (* rule *)
    destruct (negb (check_body BRule body)); [discriminate|].
    destruct (nest ctx sels) as [ss|]; [|discriminate].
    apply bind_ok in H. destruct H as [st1 [E1 H]]. apply bind_ok in H. destruct H as [st2 [E2 H]].
    inversion H; subst.
    pose proof (Hstart _ _ _ Hn E1) as G1. pose proof (HB _ _ Hc _ _ _ Hs (proj1 G1) E2) as G2.
    apply (good_trans _ _ _ G1), (good_trans _ _ _ G2), close_good, (proj1 G2).
  - discriminate.
  - (* @media *)
    apply bind_ok in H. destruct H as [st2 [E2 H]]. inversion H; subst.
    assert (G1 : good st (start_atmedia st (MName query))).
    { split; [cbn; exact Hn | reflexivity]. }
    pose proof (HB _ _ Hc _ _ _ Hs (proj1 G1) E2) as G2.
    apply (good_trans _ _ _ G1), (good_trans _ _ _ G2), close_good, (proj1 G2).
  - (* at-rule *)
    destruct body as [b|].
    + rewrite ?ns_free_all_eq in Hs.
      apply bind_ok in H. destruct H as [st2 [E2 H]]. inversion H; subst.
      assert (G1 : good st (start_atrule st name (option_map same_leaf args))).
      { split; [cbn; exact Hn | reflexivity]. }
      pose proof (HB _ _ Hc _ _ _ Hs (proj1 G1) E2) as G2.
      apply (good_trans _ _ _ G1), (good_trans _ _ _ G2), close_good, (proj1 G2).
    + unfold with_frames in H. apply bind_ok in H. destruct H as [[fs root] [E H]]. inversion H; subst.
      destruct (push_item_f_ok (fun _ => 0%nat) _ _ _ _ _ _ E) as [_ [_ N]].
      split; [cbn [d_frames]; rewrite N; exact Hn | reflexivity].
  - (* @at-root *)
    destruct (at_root ctx sels) as [ctx'|]; [|discriminate].
    destruct (c_s ctx') as [ss|].
    + apply bind_ok in H. destruct H as [st1 [E1 H]]. apply bind_ok in H. destruct H as [st2 [E2 H]].
      inversion H; subst.
      pose proof (Hstart _ _ _ Hn E1) as G1. pose proof (HB _ _ Hc _ _ _ Hs (proj1 G1) E2) as G2.
      apply (good_trans _ _ _ G1), (good_trans _ _ _ G2), close_good, (proj1 G2).
    + apply (HB _ _ Hc _ _ _ Hs Hn H).
  - discriminate.
  - (* @if *)
    apply andb_true_iff in Hs. rewrite ?ns_free_all_eq in Hs. destruct Hs as [Ht He].
    destruct (negb (check_body BControl (if c0 then t else e))); [discriminate|].
    apply (HB _ _ Hc _ _ _ (if c0 as b return ns_free_l (if b then t else e) = true then Ht else He) Hn H).
  - (* loop *)
    destruct (negb (check_body BControl body)); [discriminate|].
    revert st Hn H. induction n0 as [|k IHk]; intros st Hn H.
    + inversion H; subst. apply good_refl, Hn.
    + apply bind_ok in H. destruct H as [st1 [H1 H2]].
      pose proof (HB _ _ Hc _ _ _ Hs Hn H1) as G1.
      apply (good_trans _ _ _ G1), (IHk _ (proj1 G1) H2).
  - (* loop with per-iteration bodies *)
    destruct (negb (check_body BControl proto)); [discriminate|].
    revert st Hn H Hs. induction bodies as [|b r IHb]; intros st Hn H Hs.
    + inversion H; subst. apply good_refl, Hn.
    + apply andb_true_iff in Hs. destruct Hs as [Hb Hr]. rewrite ?ns_free_all_eq in Hb.
      apply bind_ok in H. destruct H as [st1 [H1 H2]].
      pose proof (HB _ _ Hc _ _ _ Hb Hn H1) as G1.
      apply (good_trans _ _ _ G1), (IHb _ (proj1 G1) H2 Hr).
  - (* @include *)
    destruct (nth_error ms m) as [mb|] eqn:Em; [|discriminate].
    assert (Hmb : ns_free_l mb = true) by (apply (nth_error_forallb _ _ _ _ Hms Em)).
    assert (Hc' : cenv_free (content :: cenv) = true).
    { unfold cenv_free in *. cbn [forallb]. rewrite Hc. destruct content; [rewrite ?ns_free_all_eq in Hs; rewrite Hs|]; reflexivity. }
    apply (HB _ _ Hc' _ _ _ Hmb Hn H).
  - (* @content *)
    destruct cenv as [|[cb|] outer].
    + inversion H; subst. apply good_refl, Hn.
    + cbn in Hc. apply andb_true_iff in Hc. destruct Hc as [Hcb Ho].
      apply (HB _ _ Ho _ _ _ Hcb Hn H).
    + inversion H; subst. apply good_refl, Hn.
Qed.

Definition program_ns_free (p : program) : bool := forallb ns_free_l (p_mixins p) && ns_free_l (p_main p).

Lemma ns_free_program fuel c p st : program_ns_free p = true ->
  eval_program fuel c p = Ok st -> d_lost st = 0%nat.
Proof.
  unfold program_ns_free, eval_program. intros Hp H. apply andb_true_iff in Hp. destruct Hp as [Hm Hb].
  destruct (negb (forallb (check_body BMixin) (p_mixins p))); [discriminate|].
  assert (G : good (mkD [] (mkData [] []) 0) st).
  { apply (body_good fuel (p_mixins p) c (ns_free_good fuel (p_mixins p) c Hm) [] root_ctx eq_refl (p_main p) (mkD [] (mkData [] []) 0) st Hb eq_refl H). }
  apply G.
Qed.

(* ------------------------------------------------------------------------ *)
(* loops: an error raised in ANY iteration - also a non-final one that is followed by
   iterations that would succeed - is the result of the loop *)
Definition each_fold (f : list stmt -> dstate -> res dstate) : list (list stmt) -> dstate -> res dstate :=
  fix each (bs : list (list stmt)) (st : dstate) : res dstate :=
    match bs with [] => Ok st | b :: r => bind (f b st) (each r) end.

Lemma each_fold_stops f : forall bs1 b bs2 st st1 e,
  each_fold f bs1 st = Ok st1 -> f b st1 = Err e -> each_fold f (bs1 ++ b :: bs2) st = Err e.
Proof.
  induction bs1 as [|x r IH]; intros b bs2 st st1 e H1 H2.
  - cbn in H1. inversion H1; subst. cbn. rewrite H2. reflexivity.
  - cbn in H1. apply bind_ok in H1. destruct H1 as [st0 [Hx Hr]].
    cbn [app each_fold]. rewrite Hx. cbn [bind]. apply (IH _ _ _ _ _ Hr H2).
Qed.

Lemma each_arm n ms c cenv ctx st proto bodies :
  check_body BControl proto = true ->
  eval_item (S n) ms c cenv ctx st (SEach proto bodies)
  = each_fold (fun b st => run_body (eval_item n ms c cenv ctx) b st) bodies st.
Proof. intros H. cbn [eval_item]. rewrite H. reflexivity. Qed.

Lemma loop_error_not_overwritten n ms c cenv ctx st proto bs1 b bs2 st1 e :
  check_body BControl proto = true ->
  each_fold (fun b st => run_body (eval_item n ms c cenv ctx) b st) bs1 st = Ok st1 ->
  run_body (eval_item n ms c cenv ctx) b st1 = Err e ->
  eval_item (S n) ms c cenv ctx st (SEach proto (bs1 ++ b :: bs2)) = Err e.
Proof.
  intros Hc H1 H2. rewrite each_arm by exact Hc.
  apply (each_fold_stops _ bs1 b bs2 st st1 e H1 H2).
Qed.
