(* Facts about the scanner of Spec/CssTok.v used by the writer proofs. *)
From Coq Require Import List NArith Bool Lia.
From RV Require Import Base.Text Spec.CssTok.
Import ListNotations.
Local Open Scope N_scope.

Lemma run_from_app s x y : run_from s (x ++ y) = run_from (run_from s x) y.
Proof. unfold run_from. apply fold_left_app. Qed.

Lemma step_bad k c : step (Bad, k) c = (Bad, k).
Proof. reflexivity. Qed.

Lemma run_from_bad k x : run_from (Bad, k) x = (Bad, k).
Proof. induction x as [|c x IH]; [reflexivity|]. cbn. exact IH. Qed.

Lemma mode_eq_bad m : {m = Bad} + {m <> Bad}.
Proof. destruct m; try (right; discriminate); left; reflexivity. Qed.

Lemma close_frame o a k m a' :
  close o a = (m, a') -> m <> Bad -> close o (a ++ k) = (m, a' ++ k).
Proof.
  unfold close. destruct a as [|x a]; cbn.
  - intros H; inversion H; congruence.
  - destruct (x =? o); intros H; inversion H; subst; [reflexivity | congruence].
Qed.

(* the scanner never looks below the brackets it opened itself *)
Lemma step_frame m a c m' a' k :
  step (m, a) c = (m', a') -> m' <> Bad -> step (m, a ++ k) c = (m', a' ++ k).
Proof.
  intros H Hb.
  destruct m; cbn in *;
    try (unfold step_normal in *;
         repeat match goal with
                | H : (if ?b then _ else _) = _ |- _ => destruct b
                end;
         try (inversion H; subst; reflexivity);
         try (apply close_frame; assumption));
    try (repeat match goal with
                | H : (if ?b then _ else _) = _ |- _ => destruct b
                end; inversion H; subst; reflexivity).
Qed.

Lemma run_from_cons s c x : run_from s (c :: x) = run_from (step s c) x.
Proof. reflexivity. Qed.

Lemma run_from_frame x : forall m a m' a' k,
  run_from (m, a) x = (m', a') -> m' <> Bad -> run_from (m, a ++ k) x = (m', a' ++ k).
Proof.
  induction x as [|c x IH]; intros m a m' a' k H Hb.
  - cbn in *. inversion H; subst. reflexivity.
  - rewrite run_from_cons in *. destruct (step (m, a) c) as [m1 a1] eqn:E.
    destruct (mode_eq_bad m1) as [Hm|Hm].
    + subst. rewrite run_from_bad in H. inversion H; subst. congruence.
    + rewrite (step_frame _ _ _ _ _ k E Hm). apply IH; assumption.
Qed.

(* popping a newline or a semicolon from the end of a text that scans to a
   normal state leaves a text that scans to a normal state with the same
   brackets open: these bytes never close a string, comment or url() *)
Lemma step_pop_safe s c m k :
  (c = 10 \/ c = 59) -> step s c = (m, k) -> normal_class m = true ->
  exists m0, s = (m0, k) /\ normal_class m0 = true.
Proof.
  intros Hc H Hn. destruct s as [m0 k0].
  destruct Hc; subst c; destruct m0; cbn in H; inversion H; subst; cbn in Hn;
    try discriminate; eexists; split; reflexivity.
Qed.

(* from any normal state, a byte that is not special resets to N0 *)
Definition plain_byte (c : N) : bool :=
  negb ((c =? 34) || (c =? 39) || (c =? 123) || (c =? 91) || (c =? 125) || (c =? 93)
        || (c =? 47) || (c =? 117) || (c =? 85) || (c =? 42) || (c =? 40)
        || (c =? 114) || (c =? 82) || (c =? 108) || (c =? 76)).

Lemma step_plain m k c : normal_class m = true -> plain_byte c = true -> step (m, k) c = (N0, k).
Proof.
  intros Hn Hp. unfold plain_byte in Hp. rewrite negb_true_iff in Hp.
  repeat (apply orb_false_iff in Hp; destruct Hp as [Hp ?]).
  destruct m; try discriminate; cbn; unfold step_normal, sub_next; cbn;
    repeat match goal with H : (_ =? _) = false |- _ => rewrite H; clear H end; cbn; reflexivity.
Qed.
