(* C24 proofs: extend / replace for an arbitrary unify, selector.nest = rule nesting, selector.append vs `&`. *)
From Coq Require Import List NArith ZArith Bool Lia.
From RV Require Import Base.Text Model.Sel Model.SelFmt Model.SelAlg Model.SelNest Model.SelExt Run.C24 Proofs.C19.
Import ListNotations.
Local Open Scope list_scope.

(* ---------- order-preserving sublists ---------- *)
Inductive Subseq {A} : list A -> list A -> Prop :=
| sub_nil l : Subseq [] l
| sub_keep x a b : Subseq a b -> Subseq (x :: a) (x :: b)
| sub_skip x a b : Subseq a b -> Subseq a (x :: b).

Lemma subseq_app_l {A} (pre a b : list A) : Subseq a b -> Subseq a (pre ++ b).
Proof. intros H. induction pre; cbn; [exact H|]. apply sub_skip. exact IHpre. Qed.

Section AnyUnify.
  Variable unify : sel -> sel -> list sel.

  Lemma extend_step_head extender original s :
    exists tl, extend_step unify extender original s = s :: tl.
  Proof. unfold extend_step. destruct (sup_sel original s); eexists; reflexivity. Qed.

  Lemma extend_fold_head extender extendee : forall s rest,
    exists tl, fold_left (fun result original => flat_map (extend_step unify extender original) result)
                         extendee (s :: rest) = s :: tl.
  Proof.
    induction extendee as [|o os IH]; intros s rest; cbn [fold_left].
    - eexists; reflexivity.
    - cbn [flat_map]. destruct (extend_step_head extender o s) as [tl E]. rewrite E. cbn [app]. apply IH.
  Qed.

  (* every block of the result starts with the complex selector it came from *)
  Lemma extend_sel_head extendee extender s : exists tl, extend_sel unify extendee extender s = s :: tl.
  Proof. unfold extend_sel. apply extend_fold_head. Qed.

  Lemma extend_keeps s extendee extender r :
    extend_set unify s extendee extender = Some r -> Subseq s r.
  Proof.
    unfold extend_set. destruct (existsb is_complex extendee); [discriminate|]. intros H; inversion H; subst; clear H.
    induction s as [|x s IH]; cbn [flat_map]; [constructor|].
    destruct (extend_sel_head extendee extender x) as [tl E]. rewrite E. cbn [app].
    apply sub_keep. apply subseq_app_l. exact IH.
  Qed.

  (* ---------- replace ---------- *)
  Lemma replace_fold_nomatch replacement original : forall s,
    forallb (fun o => negb (sup_sel o s)) original = true ->
    fold_left (fun result o => flat_map (replace_step unify replacement o) result) original [s] = [s].
  Proof.
    induction original as [|o os IH]; intros s H; cbn [fold_left]; [reflexivity|].
    cbn [forallb] in H. apply andb_true_iff in H as [H1 H2]. apply negb_true_iff in H1.
    cbn [flat_map]. unfold replace_step at 2. rewrite H1. cbn [app]. apply IH. exact H2.
  Qed.

  Lemma flat_map_singletons {A} (f : A -> list A) l : Forall (fun x => f x = [x]) l -> flat_map f l = l.
  Proof. induction 1 as [|x l Hx _ IH]; cbn; [reflexivity|]. rewrite Hx, IH. reflexivity. Qed.

  Lemma replace_sel_unfold original replacement rel c :
    replace_sel unify original replacement (Sel rel c) =
    fold_left (fun result o => flat_map (replace_step unify replacement o) result) original
              [Sel rel (replace_comp unify original replacement c)].
  Proof. reflexivity. Qed.
  Lemma replace_comp_unfold original replacement b ps :
    replace_comp unify original replacement (Comp b ps) = Comp b (map (replace_pseudo unify original replacement) ps).
  Proof. reflexivity. Qed.
  Lemma replace_pseudo_unfold original replacement n e l :
    replace_pseudo unify original replacement (Pseudo n e (ArgSel l)) =
    if name_in n replace_names then Pseudo n e (ArgSel (flat_map (replace_sel unify original replacement) l))
    else Pseudo n e (ArgSel l).
  Proof. reflexivity. Qed.

  Definition arg_forall (P : sel -> Prop) (a : parg) : Prop :=
    match a with ArgSel l => Forall P l | _ => True end.

  Lemma replace_nomatch_all original replacement :
    (forall s, nm_sel original s = true -> replace_sel unify original replacement s = [s])
    /\ (forall c, nm_comp original c = true -> replace_comp unify original replacement c = c)
    /\ (forall p, nm_pseudo original p = true -> replace_pseudo unify original replacement p = p)
    /\ (forall a, arg_forall (fun s => nm_sel original s = true -> replace_sel unify original replacement s = [s]) a).
  Proof.
    apply sel_mutind.
    - intros c IHc H. cbn [nm_sel] in H. apply andb_true_iff in H as [H1 H2].
      rewrite replace_sel_unfold. rewrite (IHc H2). apply replace_fold_nomatch. exact H1.
    - intros k s c _ IHc H. cbn [nm_sel] in H. apply andb_true_iff in H as [H1 H2].
      rewrite replace_sel_unfold. rewrite (IHc H2). apply replace_fold_nomatch. exact H1.
    - intros b ps IH H. cbn [nm_comp] in H. rewrite replace_comp_unfold. f_equal.
      induction IH as [|p ps Hp _ IHps]; cbn; [reflexivity|]. cbn in H. apply andb_true_iff in H as [H1 H2].
      rewrite (Hp H1), (IHps H2). reflexivity.
    - intros n e a IH H. destruct a as [l| |]; try reflexivity. rewrite replace_pseudo_unfold. cbn [nm_pseudo] in H.
      destruct (name_in n replace_names); [|reflexivity]. cbn [arg_forall] in IH. f_equal. f_equal.
      apply flat_map_singletons. rewrite forallb_forall in H. apply Forall_forall. intros x Hx.
      rewrite Forall_forall in IH. apply (IH x Hx). apply H. exact Hx.
    - intros l H; exact H.
    - intros; exact I.
    - exact I.
  Qed.

  Lemma replace_nomatch s original replacement :
    existsb is_complex original = false -> forallb (nm_sel original) s = true ->
    replace_set unify s original replacement = Some s.
  Proof.
    intros Hc H. unfold replace_set. rewrite Hc. f_equal. apply flat_map_singletons.
    rewrite forallb_forall in H. apply Forall_forall. intros x Hx.
    apply (proj1 (replace_nomatch_all original replacement)). apply H. exact Hx.
  Qed.
End AnyUnify.

(* ---------- selector.nest ---------- *)
(* `v.fold(first, |b, e| b.nest(e, &b))`: each step is the function SelectorCtx::nest uses for a rule *)
Fixpoint fn_nest (first : sels) (rest : list sels) : res sels :=
  match rest with
  | [] => Ok first
  | e :: more => res_bind (nest_set first e first) (fun b => fn_nest b more)
  end.

Lemma nest_same first rest : fn_nest first rest = nest_levels first rest.
Proof. revert first. induction rest as [|e more IH]; intros first; cbn; [reflexivity|].
  unfold nest_rule. destruct (nest_set first e first); cbn; auto. Qed.

(* ---------- selector.append against `a { &b {...} }` ---------- *)
Lemma append_same o b ps a :
  is_local_empty o = false -> b_backref b = true -> forallb simple_pseudo ps = true ->
  let c0 := Comp (mkBase false (b_elem b) (b_phs b) (b_classes b) (b_id b) (b_attrs b)) ps in
  comp_cant_append c0 = false ->
  comp_append (s_comp o) c0 = Ok a ->
  unify_default a = Some a -> (s_rel o = None \/ comp_is_empty a = false) ->
  append_sel o (Sel None c0) = AOk (Sel (s_rel o) a)
  /\ rr_sel [o] (Sel None (Comp b ps)) = Ok [Sel (s_rel o) a].
Proof.
  intros Ho Hb Hs c0 Hc Ha Hu He. split.
  - cbn [append_sel]. rewrite Ho, Hc, Ha. reflexivity.
  - rewrite (ref_compound o b ps Hb Hs). fold c0. rewrite Ha. cbn [res_bind]. unfold unify_ctx. rewrite Hu.
    destruct (s_rel o) as [r|]; [|reflexivity]. destruct He as [He|He]; [discriminate|]. rewrite He. reflexivity.
Qed.
