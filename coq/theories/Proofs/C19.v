(* C19 proofs: Selector::nest, the round-robin merge and CssSelectorSet::nest (Model/SelNest.v). *)
From Coq Require Import List NArith ZArith Bool Lia Arith.
From RV Require Import Base.Text Model.Sel Model.SelFmt Model.SelAlg Model.SelNest Spec.SelVisible Spec.SelNesting Run.C22 Run.C19.
Import ListNotations.
Import String.StringSyntax.
Local Open Scope string_scope.
Local Open Scope list_scope.

(* ---------- the round-robin merge of equally long parts is the outer-major product ---------- *)
Section Product.
  Context {A B C : Type} (g : A -> B -> C).
  Definition parts_of (outers : list A) (inners : list B) : list (list C) :=
    map (fun i => map (fun o => g o i) outers) inners.

  Lemma heads_cons o os inners :
    heads (parts_of (o :: os) inners) = map (g o) inners.
  Proof. unfold heads, parts_of. induction inners as [|i l IH]; cbn; [reflexivity|]. f_equal. exact IH. Qed.

  Lemma tails_cons o os inners :
    tails (parts_of (o :: os) inners) = parts_of os inners.
  Proof. unfold tails, parts_of. rewrite map_map. reflexivity. Qed.

  Lemma heads_nil inners : heads (parts_of [] inners) = [].
  Proof. unfold heads, parts_of. induction inners; cbn; auto. Qed.

  Lemma product_nil_inners outers : flat_map (fun o => map (g o) (@nil B)) outers = [].
  Proof. induction outers; cbn; auto. Qed.

  Lemma rr_f_product outers : forall inners (fuel : nat), (length outers < fuel)%nat ->
    round_robin_f fuel (parts_of outers inners) = flat_map (fun o => map (g o) inners) outers.
  Proof.
    induction outers as [|o os IH]; intros inners fuel Hf.
    - destruct fuel; [lia|]. cbn [round_robin_f]. rewrite heads_nil. reflexivity.
    - destruct fuel; [lia|]. cbn [round_robin_f flat_map]. rewrite heads_cons, tails_cons.
      destruct inners as [|i l].
      + cbn. rewrite product_nil_inners. reflexivity.
      + cbn [map]. rewrite (IH (i :: l) fuel) by (cbn in Hf; lia). reflexivity.
  Qed.

  Lemma max_len_parts outers inners :
    (fold_right (fun p m => Nat.max (length p) m) O (parts_of outers inners) <= length outers)%nat.
  Proof.
    unfold parts_of. induction inners as [|i l IH]; cbn; [lia|]. rewrite map_length. lia.
  Qed.

  Lemma max_len_parts_ge outers i l :
    (length outers <= fold_right (fun p m => Nat.max (length p) m) O (parts_of outers (i :: l)))%nat.
  Proof. unfold parts_of. cbn. rewrite map_length. lia. Qed.

  Lemma round_robin_product outers inners :
    round_robin (parts_of outers inners) = flat_map (fun o => map (g o) inners) outers.
  Proof.
    unfold round_robin. destruct inners as [|i l].
    - cbn. rewrite product_nil_inners. reflexivity.
    - apply rr_f_product. pose proof (max_len_parts_ge outers i l). lia.
  Qed.
End Product.

(* ---------- nesting without `&` ---------- *)
Lemma res_all_ok {A B} (f : A -> B) (l : list A) : res_all (map (fun x => Ok (f x)) l) = Ok (map f l).
Proof. induction l as [|x l IH]; cbn; [reflexivity|]. rewrite IH. reflexivity. Qed.

Lemma no_ref_product outers inners ctx :
  forallb (fun i => negb (hb_sel i)) inners = true ->
  nest_set outers inners ctx = Ok (flat_map (fun o => map (nest1 o) inners) outers).
Proof.
  intros H. unfold nest_set.
  assert (E : map (fun o => if hb_sel o then rr_sel ctx o else Ok (map (fun s => nest1 s o) outers)) inners
              = map (fun i => Ok (map (fun s => nest1 s i) outers)) inners).
  { apply map_ext_in. intros i Hi. rewrite forallb_forall in H. specialize (H i Hi).
    apply negb_true_iff in H. rewrite H. reflexivity. }
  rewrite E, res_all_ok. cbn [res_bind]. f_equal. exact (round_robin_product nest1 outers inners).
Qed.

Lemma attach_root_empty r rel : is_local_empty (attach_root r rel) = is_local_empty r.
Proof. destruct r as [[[k r']|] c]; reflexivity. Qed.

(* for an outer selector that is not the root and an inner selector without empty compounds,
   Selector::nest makes the outer selector the ancestor of the inner selector's first compound *)
Lemma nest1_descendant o i :
  is_local_empty o = false -> plain_sel i = true -> nest1 o i = attach_root i (Ancestor, o).
Proof.
  intros Ho. induction i as [c _|k r c IHr _| | | | |] using sel_ind'
    with (Pc := fun _ => True) (Pp := fun _ => True) (Pa := fun _ => True); auto; intros Hp.
  - cbn [nest1 attach_root]. rewrite Ho. reflexivity.
  - cbn [nest1 attach_root]. rewrite Ho. cbn [negb orb].
    cbn [plain_sel] in Hp. apply andb_true_iff in Hp as [Hp1 Hp2]. rewrite (IHr Hp2).
    rewrite attach_root_empty.
    assert (Er : is_local_empty r = false).
    { destruct r as [rr rc]. cbn [plain_sel] in Hp2. apply andb_true_iff in Hp2 as [Hp2 _].
      apply andb_true_iff in Hp2 as [Hp2 _]. apply negb_true_iff in Hp2. exact Hp2. }
    rewrite Er. reflexivity.
Qed.

(* ... and the text is `outer inner` *)
Lemma fmt_attach_root o i :
  fmt_sel false (attach_root i (Ancestor, o)) = fmt_sel false o ++ str " " ++ fmt_sel false i.
Proof.
  induction i as [c _|k r c IHr _| | | | |] using sel_ind'
    with (Pc := fun _ => True) (Pp := fun _ => True) (Pa := fun _ => True); auto.
  - cbn [attach_root fmt_sel rel_symbol]. cbn [app]. rewrite <- app_assoc. reflexivity.
  - cbn [attach_root fmt_sel]. rewrite IHr, attach_root_empty. rewrite <- !app_assoc. reflexivity.
Qed.

Lemma no_ref_text o i :
  is_local_empty o = false -> plain_sel i = true ->
  fmt_sel false (nest1 o i) = fmt_sel false o ++ str " " ++ fmt_sel false i.
Proof. intros Ho Hp. rewrite (nest1_descendant o i Ho Hp). apply fmt_attach_root. Qed.

(* nesting under the root changes nothing *)
Lemma nest1_root i : nest1 sel0 i = i.
Proof. destruct i as [rel c]. reflexivity. Qed.

Lemma root_identity inners :
  forallb (fun i => negb (hb_sel i)) inners = true -> nest_rule [sel0] inners = Ok inners.
Proof.
  intros H. unfold nest_rule. rewrite (no_ref_product [sel0] inners [sel0] H). cbn [flat_map].
  rewrite app_nil_r. f_equal. rewrite <- (map_id inners) at 2. apply map_ext. apply nest1_root.
Qed.

(* ---------- `&` : single outer selector, `&` compound without selector pseudos ---------- *)
Definition simple_pseudo (p : pseudo) : bool := match p_arg p with ArgSel _ => false | _ => true end.

Lemma rr_pseudos_simple ctx ps :
  forallb simple_pseudo ps = true -> res_all (map (rr_pseudo ctx) ps) = Ok ps.
Proof.
  induction ps as [|p ps IH]; cbn; [reflexivity|]. intros H. apply andb_true_iff in H as [H1 H2].
  rewrite (IH H2). destruct p as [n e [l| |]]; [discriminate| |]; reflexivity.
Qed.

Lemma rr_sel_unfold ctx rel b ps :
  rr_sel ctx (Sel rel (Comp b ps)) =
  res_bind (res_bind (res_all (map (rr_pseudo ctx) ps)) (fun ps' => Ok (Comp b ps')))
    (fun c' =>
       res_bind
         (match c' with
          | Comp b0 ps0 =>
              if b_backref b0 then
                res_bind (res_all (map (fun s0 => res_bind (comp_append (s_comp s0)
                                        (Comp (mkBase false (b_elem b0) (b_phs b0) (b_classes b0) (b_id b0) (b_attrs b0)) ps0))
                                        (fun a => Ok (unify_ctx (s_rel s0) a))) ctx))
                         (fun ll => Ok (concat ll))
              else Ok [Sel None c']
          end)
         (fun result =>
            match rel with
            | Some (k, r) =>
                res_bind (rr_sel ctx r) (fun rels =>
                  Ok (flat_map (fun rl => map (fun r0 => attach_root r0 (k, rl)) result) rels))
            | None => Ok result
            end)).
Proof. reflexivity. Qed.

(* `&` + suffix + simple selectors, last in its complex selector, under one outer selector `o`:
   the outer compound is appended (print + re-parse) and unified with the empty compound carrying
   the outer selector's ancestors *)
Lemma ref_compound o b ps :
  b_backref b = true -> forallb simple_pseudo ps = true ->
  rr_sel [o] (Sel None (Comp b ps)) =
  res_bind (comp_append (s_comp o) (Comp (mkBase false (b_elem b) (b_phs b) (b_classes b) (b_id b) (b_attrs b)) ps))
           (fun a => Ok (unify_ctx (s_rel o) a)).
Proof.
  intros Hb Hs. rewrite rr_sel_unfold. rewrite (rr_pseudos_simple [o] ps Hs). cbn [res_bind]. rewrite Hb.
  cbn [map res_all].
  destruct (comp_append (s_comp o) (Comp (mkBase false (b_elem b) (b_phs b) (b_classes b) (b_id b) (b_attrs b)) ps));
    cbn [res_bind concat]; try reflexivity. rewrite app_nil_r. reflexivity.
Qed.

(* the suffix is glued to the last class of an outer compound that ends in a class *)
Lemma append_suffix_class e cls x suf :
  plain_name suf = true -> elem_is_any suf = false ->
  comp_append (Comp (mkBase false e [] (cls ++ [x]) None []) [])
              (Comp (mkBase false (Some suf) [] [] None []) [])
  = Ok (Comp (mkBase false (printed_elem (Comp (mkBase false e [] (cls ++ [x]) None []) []))
                     [] (cls ++ [x ++ suf]) None []) []).
Proof.
  intros Hs Ha. unfold comp_append. cbn [c_base b_backref b_elem orb]. rewrite Ha.
  unfold glue_suffix. rewrite Hs. cbn [negb rev b_attrs b_classes]. rewrite rev_app_distr. cbn [rev app].
  unfold set_last. rewrite rev_app_distr. cbn [rev app]. rewrite rev_involutive.
  cbn [res_bind b_phs b_classes b_id b_attrs b_elem app]. rewrite !app_nil_r. reflexivity.
Qed.

(* adding simple selectors: everything of the `&` compound follows the outer compound's *)
Lemma append_simple co phs cls i ats ps :
  b_backref (c_base co) = false ->
  comp_append co (Comp (mkBase false None phs cls i ats) ps)
  = Ok (Comp (mkBase false (printed_elem co) (b_phs (c_base co) ++ phs) (b_classes (c_base co) ++ cls)
                     (match i with Some j => Some j | None => b_id (c_base co) end)
                     (b_attrs (c_base co) ++ ats)) (c_ps co ++ ps)).
Proof. intros H. unfold comp_append. rewrite H. reflexivity. Qed.

(* the suffix error of Sass is an error of the model (F3 fixed by dfe7d33: no panic any more) *)
Definition star_nest : list sels :=
  [[Sel None (Comp (mkBase false (Some (str "*")) [] [] None []) [])];
   [Sel None (Comp (mkBase true (Some (str "b")) [] [] None []) [])]].

Lemma star_suffix_error : model star_nest = MErr /\ spec_levels star_nest = SErr.
Proof. vm_compute. split; reflexivity. Qed.

(* `:host {&.foo {x:y}}` emits nothing (class K2): the full statement is still false of the faithful model *)
Definition host_nest : list sels :=
  [[Sel None (Comp base0 [Pseudo (str "host") false ArgNone])];
   [Sel None (Comp (mkBase true None [] [str "foo"] None []) [])]].
Lemma refuted_host : model host_nest = MOut None /\ spec_levels host_nest <> SOk [] /\ spec_class host_nest = 2%N.
Proof. vm_compute. repeat split; try reflexivity. discriminate. Qed.

(* wherever the model refuses a suffix, the Sass reading refuses it as well *)
Lemma glue_fail_is_spec_error c suf : glue_suffix c suf = Fail -> exists k, spec_glue c suf = SpErr k.
Proof.
  destruct c as [b ps]. unfold glue_suffix, spec_glue. destruct (negb (plain_name suf)); [discriminate|].
  destruct (rev ps) as [|[n e [l|t|]] r].
  - destruct (rev (b_attrs b)); [|intros _; eexists; reflexivity].
    destruct (rev (b_classes b)); [|discriminate]. destruct (b_id b); [discriminate|].
    destruct (rev (b_phs b)); [|discriminate]. destruct (b_elem b) as [e|]; [|discriminate].
    destruct (text_eqb e (str "*")) eqn:E.
    + intros _. apply text_eqb_eq in E. subst e. eexists; reflexivity.
    + destruct (plain_name e); discriminate.
  - intros _; eexists; reflexivity.
  - intros _; eexists; reflexivity.
  - discriminate.
Qed.

(* ---------- `&` under a LIST of outer selectors ---------- *)
Definition c0_of (b : cbase) (ps : list pseudo) : compound :=
  Comp (mkBase false (b_elem b) (b_phs b) (b_classes b) (b_id b) (b_attrs b)) ps.

(* the `&` compound is the whole inner selector, carries no selector pseudos, and for every outer selector the
   appended compound is left alone by the unification with the empty compound *)
Definition clean_ref (outers : sels) (i : sel) : Prop :=
  exists b ps, i = Sel None (Comp b ps) /\ b_backref b = true /\ forallb simple_pseudo ps = true
    /\ forall o, In o outers -> exists a, comp_append (s_comp o) (c0_of b ps) = Ok a /\ unify_default a = Some a
                                          /\ (s_rel o = None \/ comp_is_empty a = false).

Definition resolved (o i : sel) : sel :=
  if hb_sel i then
    match i with
    | Sel _ (Comp b ps) =>
        Sel (s_rel o) (match comp_append (s_comp o) (c0_of b ps) with Ok a => a | _ => comp0 end)
    end
  else nest1 o i.

Lemma concat_singletons {A B} (f : A -> B) l : concat (map (fun x => [f x]) l) = map f l.
Proof. induction l; cbn; [reflexivity|]. rewrite IHl. reflexivity. Qed.

Lemma rr_clean_ref outers i : clean_ref outers i ->
  hb_sel i = true /\ rr_sel outers i = Ok (map (fun o => resolved o i) outers).
Proof.
  intros [b [ps [-> [Hb [Hs Hc]]]]].
  assert (Hh : hb_sel (Sel None (Comp b ps)) = true) by (cbn; rewrite Hb; reflexivity).
  split; [exact Hh|].
  rewrite rr_sel_unfold, (rr_pseudos_simple outers ps Hs). cbn [res_bind]. rewrite Hb.
  assert (E : map (fun s0 => res_bind (comp_append (s_comp s0) (Comp (mkBase false (b_elem b) (b_phs b) (b_classes b) (b_id b) (b_attrs b)) ps))
                                     (fun a => Ok (unify_ctx (s_rel s0) a))) outers
              = map (fun o => Ok [resolved o (Sel None (Comp b ps))]) outers).
  { apply map_ext_in. intros o Ho. destruct (Hc o Ho) as [a [Ha [Hu He]]]. unfold resolved. rewrite Hh.
    fold (c0_of b ps). rewrite Ha. cbn [res_bind]. unfold unify_ctx. rewrite Hu.
    destruct (s_rel o) as [r|]; [|reflexivity]. destruct He as [He|He]; [discriminate|]. rewrite He. reflexivity. }
  rewrite E, (res_all_ok (fun o => [resolved o (Sel None (Comp b ps))]) outers). cbn [res_bind].
  rewrite concat_singletons. reflexivity.
Qed.

(* every inner selector either has no `&` or is a clean `&` compound: the nested list is the outer-major product *)
Lemma nest_ref_product outers inners :
  (forall i, In i inners -> hb_sel i = false \/ clean_ref outers i) ->
  nest_set outers inners outers = Ok (flat_map (fun o => map (resolved o) inners) outers).
Proof.
  intros H. unfold nest_set.
  assert (E : map (fun o => if hb_sel o then rr_sel outers o else Ok (map (fun s => nest1 s o) outers)) inners
              = map (fun i => Ok (map (fun o => resolved o i) outers)) inners).
  { apply map_ext_in. intros i Hi. destruct (H i Hi) as [Hn|Hc].
    - rewrite Hn. f_equal. apply map_ext. intros o. unfold resolved. rewrite Hn. reflexivity.
    - destruct (rr_clean_ref outers i Hc) as [Hh Hr]. rewrite Hh. exact Hr. }
  rewrite E, res_all_ok. cbn [res_bind]. f_equal.
  exact (round_robin_product (fun o i => resolved o i) outers inners).
Qed.
