(* Proofs for C34: finite sweeps over the generated tables, lifted to all documented pairs. *)
From Coq Require Import String List Bool.
From RV Require Import Base.ListX Gen.Builtins Model.Builtins Spec.SassDocPairs.
Import ListNotations.
Local Open Scope string_scope.

(* every clone taken while filling the global map names an existing function (no start-up panic) *)
Definition event_wf (e : gevent) : bool :=
  match e with
  | GFrom sc _ ln => match scope_function sc ln with Some _ => true | None => false end
  | GDef _ _ => true
  end.
Definition tables_wf : bool :=
  forallb event_wf global_events
  && forallb (fun e => existsb (String.eqb (fst e)) builtin_modules) module_defs.
Lemma tables_wf_ok : tables_wf = true.
Proof. vm_compute. reflexivity. Qed.

Definition pair_same (p : string * (string * string)) : bool :=
  is_diverging (fst p) ||
  (ofobj_eqb (lookup_global (fst p)) (Some (snd p)) && ofobj_eqb (lookup_module (fst (snd p)) (snd (snd p))) (Some (snd p))).
Lemma pair_same_all : forallb pair_same doc_pairs = true.
Proof. vm_compute. reflexivity. Qed.
Lemma ofobj_eqb_eq a b : ofobj_eqb a b = true -> a = b.
Proof.
  destruct a as [[a1 a2]|], b as [[b1 b2]|]; cbn; try discriminate; try reflexivity.
  unfold fobj_eqb; cbn. intros H. apply andb_true_iff in H. destruct H as [H1 H2].
  apply String.eqb_eq in H1, H2. subst. reflexivity.
Qed.
Lemma pair_same_elim g url f : pair_same (g, (url, f)) = true -> is_diverging g = false ->
  lookup_global g = Some (url, f) /\ lookup_module url f = Some (url, f).
Proof.
  intros H Hd. unfold pair_same in H. cbn [fst snd] in H. rewrite Hd in H. cbn [orb] in H.
  apply andb_true_iff in H. destruct H as [H1 H2]. split; apply ofobj_eqb_eq; assumption.
Qed.
Lemma same_object_all : forall g url f, In (g, (url, f)) doc_pairs -> is_diverging g = false ->
  lookup_global g = Some (url, f) /\ lookup_module url f = Some (url, f).
Proof.
  intros g url f Hin Hd. apply pair_same_elim; [|exact Hd].
  exact (sweep1 doc_pairs pair_same pair_same_all _ Hin).
Qed.

(* the list of diverging names is exact: each is documented, both sides exist, and they are different objects *)
Definition diverging_exact (g : string) : bool :=
  existsb (fun p => String.eqb (fst p) g
                    && match lookup_global g, lookup_module (fst (snd p)) (snd (snd p)) with
                       | Some o, Some o' => negb (fobj_eqb o o')
                       | _, _ => false
                       end) doc_pairs.
Lemma diverging_exact_all : forallb diverging_exact diverging = true.
Proof. vm_compute. reflexivity. Qed.

Lemma diverging_all : forall g, In g diverging ->
  exists url f o o', In (g, (url, f)) doc_pairs /\ lookup_global g = Some o /\ lookup_module url f = Some o' /\ o <> o'.
Proof.
  intros g Hin. pose proof (sweep1 diverging diverging_exact diverging_exact_all _ Hin) as H.
  unfold diverging_exact in H. apply existsb_exists in H. destruct H as ([g' [url f]] & Hp & H).
  cbn [fst snd] in H. apply andb_true_iff in H. destruct H as [Hg H]. apply String.eqb_eq in Hg. subst g'.
  destruct (lookup_global g) as [o|] eqn:Eg; [|discriminate]. destruct (lookup_module url f) as [o'|] eqn:Em; [|discriminate].
  exists url, f, o, o'. split; [assumption|split; [reflexivity|split; [exact Em|]]].
  intros Heq; subst o'. unfold fobj_eqb in H. rewrite !String.eqb_refl in H. discriminate.
Qed.

(* both names of a same-object pair have the same formal parameters (they are one FormalArgs value) *)
Lemma same_formals : forall g url f, In (g, (url, f)) doc_pairs -> is_diverging g = false ->
  match lookup_global g, lookup_module url f with
  | Some o, Some o' => formals_of_obj o = formals_of_obj o'
  | _, _ => False
  end.
Proof.
  intros g url f Hin Hd. destruct (same_object_all g url f Hin Hd) as [-> ->]. reflexivity.
Qed.

(* no documented global name is rebound after the clone was inserted by something outside the table:
   resolve is the whole story, and it is insensitive to events about other names *)
Lemma resolve_other : forall evs g acc,
  forallb (fun e => match e with GFrom _ gn _ => negb (String.eqb gn g) | GDef _ d => negb (String.eqb (fst d) g) end) evs = true ->
  resolve evs g acc = acc.
Proof.
  induction evs as [|e evs IH]; intros g acc H; [reflexivity|].
  cbn [forallb] in H. apply andb_true_iff in H. destruct H as [He H].
  destruct e as [sc gn ln|place d]; cbn [resolve]; apply negb_true_iff in He; rewrite He; apply IH; exact H.
Qed.
