(* C23 proofs: is_superselector on the four levels (Model/SelAlg.v). *)
From Coq Require Import List NArith ZArith Bool Lia.
From RV Require Import Model.Sel Model.SelAlg Run.C23.
Import ListNotations.
Import String.StringSyntax.
Local Open Scope string_scope.
Local Open Scope list_scope.

(* ---------- small reflexivity facts ---------- *)
Lemma opt_eqb_refl {A} (eqb : A -> A -> bool) (o : option A) :
  (forall x, eqb x x = true) -> opt_eqb eqb o o = true.
Proof. intros H; destruct o; cbn; auto. Qed.

Lemma leqb_refl {A} (eqb : A -> A -> bool) (l : list A) :
  Forall (fun x => eqb x x = true) l -> leqb eqb l l = true.
Proof. induction 1; cbn; [reflexivity|]. rewrite H, IHForall. reflexivity. Qed.

Lemma leqb_refl' {A} (eqb : A -> A -> bool) (l : list A) :
  (forall x, eqb x x = true) -> leqb eqb l l = true.
Proof. intros H. apply leqb_refl. apply Forall_forall. intros; apply H. Qed.

Lemma attr_eqb_refl a : attr_eqb a a = true.
Proof.
  unfold attr_eqb. rewrite !text_eqb_refl, N.eqb_refl. cbn. apply opt_eqb_refl. apply N.eqb_refl.
Qed.

Lemma base_eqb_refl b : base_eqb b b = true.
Proof.
  unfold base_eqb. rewrite eqb_reflx. rewrite !(opt_eqb_refl text_eqb) by apply text_eqb_refl.
  rewrite !(leqb_refl' text_eqb) by apply text_eqb_refl.
  rewrite (leqb_refl' attr_eqb) by apply attr_eqb_refl. reflexivity.
Qed.

Lemma match_name_refl x : match_name x x = true.
Proof. unfold match_name. rewrite text_eqb_refl. apply orb_true_r. Qed.

Lemma elem_sup_refl e : elem_sup e e = true.
Proof. unfold elem_sup. destruct (split_ns e) as [ns n]. rewrite !match_name_refl. reflexivity. Qed.

Lemma attr_sup_refl a : attr_sup a a = true.
Proof. unfold attr_sup. rewrite !text_eqb_refl. cbn. apply opt_eqb_refl. apply N.eqb_refl. Qed.

Lemma all_any_incl {A} (f : A -> A -> bool) (l1 l2 : list A) :
  (forall x, f x x = true) -> incl l1 l2 -> all_any f l1 l2 = true.
Proof.
  intros Hr Hi. unfold all_any. apply forallb_forall. intros x Hx. apply existsb_exists.
  exists x. split; [apply Hi; exact Hx | apply Hr].
Qed.

(* first_match is find + continuation *)
Lemma first_match_find {A R} (test : A -> bool) (f : A -> R) (d : R) l :
  first_match test f d l = match find test l with Some x => f x | None => d end.
Proof. induction l as [|x l IH]; cbn; [reflexivity|]. destruct (test x); [reflexivity|exact IH]. Qed.

(* ---------- extension at the compound level ---------- *)
Definition ext_base (a b : cbase) : Prop :=
  match b_elem a with None => True | Some e => b_elem b = Some e end
  /\ incl (b_phs a) (b_phs b)
  /\ incl (b_classes a) (b_classes b)
  /\ match b_id a with None => True | Some i => b_id b = Some i end
  /\ incl (b_attrs a) (b_attrs b).

(* b has all simple selectors of a (possibly more), and the same pseudo-element *)
Definition ext_comp (a b : compound) : Prop :=
  ext_base (c_base a) (c_base b)
  /\ incl (c_ps a) (c_ps b)
  /\ find p_is_element (c_ps a) = find p_is_element (c_ps b).

Lemma base_sup_ext a b : ext_base a b -> base_sup a b = true.
Proof.
  intros [He [Hp [Hc [Hi Ha]]]]. unfold base_sup.
  assert (E1 : match b_elem a with
               | None => true
               | Some e => elem_is_any e || match b_elem b with Some s => elem_sup e s | None => false end
               end = true).
  { destruct (b_elem a) as [e|]; [|reflexivity]. rewrite He, elem_sup_refl. apply orb_true_r. }
  rewrite E1, (all_any_incl text_eqb _ _ text_eqb_refl Hp), (all_any_incl text_eqb _ _ text_eqb_refl Hc),
          (all_any_incl attr_sup _ _ attr_sup_refl Ha).
  destruct (b_id a) as [i|]; [|reflexivity]. rewrite Hi. cbn. rewrite text_eqb_refl. reflexivity.
Qed.

Lemma sup_comp_ext a b :
  Forall (fun p => sup_pseudo p p = true) (c_ps a) -> ext_comp a b -> sup_comp a b = true.
Proof.
  destruct a as [ba psa]. intros Hr [Hb [Hi Hf]]. cbn [c_base c_ps] in *. cbn [sup_comp].
  rewrite (base_sup_ext _ _ Hb). cbn [andb].
  assert (E : forallb (fun p => existsb (sup_pseudo p) (c_ps b)) psa = true).
  { apply forallb_forall. intros p Hp. apply existsb_exists. exists p. split; [apply Hi; exact Hp|].
    rewrite Forall_forall in Hr. apply Hr; exact Hp. }
  rewrite E. cbn [andb]. rewrite first_match_find.
  destruct (find p_is_element psa) as [aa|] eqn:Ea.
  - rewrite first_match_find, <- Hf. rewrite Forall_forall in Hr. apply Hr.
    apply (find_some _ _ Ea).
  - rewrite first_match_find, <- Hf. reflexivity.
Qed.

(* ---------- reflexivity on all four levels, both directions, and of the derived equality ---------- *)
Definition arg_forall (P : sel -> Prop) (a : parg) : Prop :=
  match a with ArgSel l => Forall P l | _ => True end.

Definition Rsel (s : sel) : Prop := sup_sel s s = true /\ sub_sel s s = true /\ sel_eqb s s = true.
Definition Rcomp (c : compound) : Prop := sup_comp c c = true /\ sub_comp c c = true /\ comp_eqb c c = true.
Definition Rpseudo (p : pseudo) : Prop := sup_pseudo p p = true /\ sub_pseudo p p = true /\ pseudo_eqb p p = true.
Definition Rarg (a : parg) : Prop := sup_arg a a = true /\ sub_arg a a = true /\ arg_eqb a a = true.

Lemma ext_comp_refl c : ext_comp c c.
Proof.
  repeat split; try apply incl_refl.
  - destruct (b_elem (c_base c)); reflexivity.
  - destruct (b_id (c_base c)); reflexivity.
Qed.

Lemma sub_comp_refl b ps :
  Forall (fun p => sub_pseudo p p = true) ps -> sub_comp (Comp b ps) (Comp b ps) = true.
Proof.
  intros Hr. cbn [sub_comp c_base c_ps].
  rewrite (base_sup_ext b b) by (destruct (ext_comp_refl (Comp b ps)) as [H _]; exact H). cbn [andb].
  assert (E : forallb (fun q => existsb (fun p => sub_pseudo p q) ps) ps = true).
  { apply forallb_forall. intros p Hp. apply existsb_exists. exists p. split; [exact Hp|].
    rewrite Forall_forall in Hr. apply Hr; exact Hp. }
  rewrite E. cbn [andb]. rewrite first_match_find.
  destruct (find p_is_element ps) as [aa|] eqn:Ea.
  - rewrite first_match_find, Ea. rewrite Forall_forall in Hr. apply Hr. apply (find_some _ _ Ea).
  - rewrite first_match_find, Ea. reflexivity.
Qed.

Lemma refl_all : (forall s, Rsel s) /\ (forall c, Rcomp c) /\ (forall p, Rpseudo p) /\ (forall a, Rarg a).
Proof.
  apply sel_mutind.
  - intros c [H1 [H2 H3]]. unfold Rsel. cbn [sup_sel sub_sel sel_eqb s_comp s_rel]. rewrite H1, H2, H3. repeat split.
  - intros k s c [S1 [S2 S3]] [H1 [H2 H3]]. unfold Rsel. cbn [sup_sel sub_sel sel_eqb s_comp s_rel].
    rewrite H1, H2, H3, S3. cbn [andb]. repeat split.
    + destruct k; cbn [rel_walk].
      * destruct s; cbn [walk_anc]; rewrite S1; reflexivity.
      * exact S1.
      * destruct s; cbn [walk_sib]; rewrite S1; reflexivity.
      * exact S1.
    + destruct k; try exact S2; destruct s as [r' c']; rewrite S2; reflexivity.
    + destruct k; reflexivity.
  - intros b ps IH. unfold Rcomp. repeat split.
    + apply sup_comp_ext; [|apply ext_comp_refl]. cbn [c_ps]. eapply Forall_impl; [|exact IH].
      intros p [H _]; exact H.
    + apply sub_comp_refl. eapply Forall_impl; [|exact IH]. intros p [_ [H _]]; exact H.
    + cbn [comp_eqb]. rewrite base_eqb_refl. apply leqb_refl. eapply Forall_impl; [|exact IH].
      intros p [_ [_ H]]; exact H.
  - intros n e a [A1 [A2 A3]]. unfold Rpseudo. cbn [sup_pseudo sub_pseudo pseudo_eqb p_name p_arg p_is_element p_el].
    rewrite !eqb_reflx, !text_eqb_refl, A3. cbn [negb orb andb].
    repeat split; destruct (name_in n [str "not"]); try assumption;
      destruct (name_in n [str "current"]); try assumption; reflexivity.
  - intros l IH. unfold Rarg. cbn [sup_arg sub_arg arg_eqb]. repeat split.
    + apply forallb_forall. intros y Hy. apply existsb_exists. exists y. split; [exact Hy|].
      rewrite Forall_forall in IH. apply (IH y Hy).
    + apply forallb_forall. intros y Hy. apply existsb_exists. exists y. split; [exact Hy|].
      rewrite Forall_forall in IH. apply (IH y Hy).
    + apply leqb_refl. eapply Forall_impl; [|exact IH]. intros s [_ [_ H]]; exact H.
  - intros t. unfold Rarg. cbn. rewrite text_eqb_refl. repeat split.
  - unfold Rarg. repeat split.
Qed.

Lemma sup_pseudo_refl p : sup_pseudo p p = true.
Proof. apply refl_all. Qed.

Lemma sup_sel_refl s : sup_sel s s = true.
Proof. apply refl_all. Qed.

(* ---------- the monotonicity theorem ---------- *)
Fixpoint extends (c c' : sel) : Prop :=
  ext_comp (s_comp c) (s_comp c')
  /\ match c, s_rel c' with
     | Sel None _, None => True
     | Sel None _, Some (k, _) => k = Ancestor \/ k = Parent
     | Sel (Some (k, r)) _, Some (k', r') => k = k' /\ extends r r'
     | Sel (Some _) _, None => False
     end.

Lemma extends_refl c : extends c c.
Proof.
  induction c as [c _|k s c IHs _| | | | |] using sel_ind'
    with (Pc := fun _ => True) (Pp := fun _ => True) (Pa := fun _ => True); auto.
  - cbn. split; [apply ext_comp_refl|exact I].
  - cbn. split; [apply ext_comp_refl|]. split; [reflexivity|exact IHs].
Qed.

Lemma sup_extends c : forall c', extends c c' -> sup_sel c c' = true.
Proof.
  induction c as [c _|k s c IHs _| | | | |] using sel_ind'
    with (Pc := fun _ => True) (Pp := fun _ => True) (Pa := fun _ => True); auto.
  - intros c' [Hc _]. cbn [sup_sel]. cbn [s_comp] in Hc. rewrite sup_comp_ext; [reflexivity| |exact Hc].
    apply Forall_forall. intros; apply sup_pseudo_refl.
  - intros c' [Hc Hr]. cbn [sup_sel]. cbn [s_comp] in Hc. rewrite sup_comp_ext; [| |exact Hc].
    2:{ apply Forall_forall. intros; apply sup_pseudo_refl. }
    cbn [andb]. destruct (s_rel c') as [[k' r']|]; [|contradiction]. destruct Hr as [<- Hr].
    specialize (IHs r' Hr). destruct k; cbn [rel_walk].
    + destruct r'; cbn [walk_anc]; rewrite IHs; reflexivity.
    + exact IHs.
    + destruct r'; cbn [walk_sib]; rewrite IHs; reflexivity.
    + exact IHs.
Qed.

Lemma sup_sels_refl l : sup_sels l l = true.
Proof.
  unfold sup_sels. apply forallb_forall. intros s Hs. apply existsb_exists. exists s. split; [exact Hs|].
  apply sup_sel_refl.
Qed.

Lemma sup_sels_extends l c c' : In c l -> extends c c' -> sup_sels l [c'] = true.
Proof.
  intros Hin He. unfold sup_sels. cbn [forallb]. rewrite andb_true_r. apply existsb_exists.
  exists c. split; [exact Hin|]. apply sup_extends; exact He.
Qed.

Lemma sup_sels_contains l c : In c l -> sup_sels l [c] = true.
Proof. intros H. apply (sup_sels_extends l c c H). apply extends_refl. Qed.

(* adding one simple selector (class, id, attribute, type selector, pseudo that is no pseudo-element)
   to the last compound *)
Definition add_class (x : text) (c : compound) : compound :=
  match c with Comp b ps => Comp (mkBase (b_backref b) (b_elem b) (b_phs b) (b_classes b ++ [x]) (b_id b) (b_attrs b)) ps end.
Definition add_attr (x : attr) (c : compound) : compound :=
  match c with Comp b ps => Comp (mkBase (b_backref b) (b_elem b) (b_phs b) (b_classes b) (b_id b) (b_attrs b ++ [x])) ps end.
Definition add_pseudo (x : pseudo) (c : compound) : compound :=
  match c with Comp b ps => Comp b (ps ++ [x]) end.
Definition set_id (x : text) (c : compound) : compound :=
  match c with Comp b ps => Comp (mkBase (b_backref b) (b_elem b) (b_phs b) (b_classes b) (Some x) (b_attrs b)) ps end.
Definition set_elem (x : text) (c : compound) : compound :=
  match c with Comp b ps => Comp (mkBase (b_backref b) (Some x) (b_phs b) (b_classes b) (b_id b) (b_attrs b)) ps end.

Lemma find_app_false {A} (f : A -> bool) l x : f x = false -> find f (l ++ [x]) = find f l.
Proof. intros H. induction l as [|y l IH]; cbn; [rewrite H; reflexivity|]. destruct (f y); [reflexivity|exact IH]. Qed.

Lemma ext_add_class x c : ext_comp c (add_class x c).
Proof.
  destruct c as [b ps]. repeat split; cbn; try apply incl_refl; try (apply incl_appl, incl_refl).
  - destruct (b_elem b); reflexivity.
  - destruct (b_id b); reflexivity.
Qed.
Lemma ext_add_attr x c : ext_comp c (add_attr x c).
Proof.
  destruct c as [b ps]. repeat split; cbn; try apply incl_refl; try (apply incl_appl, incl_refl).
  - destruct (b_elem b); reflexivity.
  - destruct (b_id b); reflexivity.
Qed.
Lemma ext_add_pseudo x c : p_is_element x = false -> ext_comp c (add_pseudo x c).
Proof.
  destruct c as [b ps]. intros Hx. repeat split; cbn; try apply incl_refl; try (apply incl_appl, incl_refl).
  - destruct (b_elem b); reflexivity.
  - destruct (b_id b); reflexivity.
  - symmetry. apply find_app_false. exact Hx.
Qed.
Lemma ext_set_id x c : b_id (c_base c) = None -> ext_comp c (set_id x c).
Proof.
  destruct c as [b ps]. cbn. intros Hi. repeat split; cbn; try apply incl_refl.
  - destruct (b_elem b); reflexivity.
  - rewrite Hi. exact I.
Qed.
Lemma ext_set_elem x c : b_elem (c_base c) = None -> ext_comp c (set_elem x c).
Proof.
  destruct c as [b ps]. cbn. intros Hi. repeat split; cbn; try apply incl_refl.
  - rewrite Hi. exact I.
  - destruct (b_id b); reflexivity.
Qed.

(* the relation "c' is c with its last compound replaced by an extension of it" *)
Lemma extends_last rel c c2 : ext_comp c c2 -> extends (Sel rel c) (Sel rel c2).
Proof.
  intros H. destruct rel as [[k r]|]; cbn; (split; [exact H|]); [split; [reflexivity|apply extends_refl]|exact I].
Qed.

(* prefixing the root of the chain with an ancestor or a parent *)
Fixpoint add_root (k : relkind) (x : sel) (s : sel) : sel :=
  match s with
  | Sel None c => Sel (Some (k, x)) c
  | Sel (Some (k', r)) c => Sel (Some (k', add_root k x r)) c
  end.

Lemma extends_add_root k x s : k = Ancestor \/ k = Parent -> extends s (add_root k x s).
Proof.
  intros Hk. induction s as [c _|k' s c IHs _| | | | |] using sel_ind'
    with (Pc := fun _ => True) (Pp := fun _ => True) (Pa := fun _ => True); auto.
  - cbn. split; [apply ext_comp_refl|exact Hk].
  - cbn. split; [apply ext_comp_refl|]. split; [reflexivity|exact IHs].
Qed.

(* ---------- the decidable relation of Run/C23.v implies the propositional one, given that the derived
   equality tests are sound; stated with the soundness as a hypothesis-free lemma on text only ---------- *)

(* ---------- soundness of the derived equality tests, and of Run.C23.extends_b ---------- *)
Lemma opt_eqb_eq {A} (eqb : A -> A -> bool) (x y : option A) :
  (forall a b, eqb a b = true -> a = b) -> opt_eqb eqb x y = true -> x = y.
Proof. intros H. destruct x, y; cbn; try discriminate; auto. intros E. f_equal. apply H; exact E. Qed.

Lemma leqb_eq {A} (eqb : A -> A -> bool) (l : list A) :
  Forall (fun a => forall b, eqb a b = true -> a = b) l -> forall l', leqb eqb l l' = true -> l = l'.
Proof.
  induction 1 as [|x l Hx _ IH]; intros [|y l']; cbn; try discriminate; auto.
  intros E. apply andb_true_iff in E as [E1 E2]. f_equal; [apply Hx; exact E1 | apply IH; exact E2].
Qed.

Lemma leqb_eq' {A} (eqb : A -> A -> bool) :
  (forall a b, eqb a b = true -> a = b) -> forall l l', leqb eqb l l' = true -> l = l'.
Proof. intros H l. apply leqb_eq. apply Forall_forall. intros a _ b. apply H. Qed.

Lemma text_eqb_true a b : text_eqb a b = true -> a = b.
Proof. apply text_eqb_eq. Qed.

Lemma attr_eqb_eq a b : attr_eqb a b = true -> a = b.
Proof.
  destruct a, b. unfold attr_eqb; cbn. intros H.
  apply andb_true_iff in H as [H Hm]. apply andb_true_iff in H as [H Hq]. apply andb_true_iff in H as [H Hv].
  apply andb_true_iff in H as [Hn Ho].
  apply text_eqb_true in Hn, Ho, Hv. apply N.eqb_eq in Hq.
  apply (opt_eqb_eq N.eqb) in Hm; [|intros ? ?; apply N.eqb_eq]. subst. reflexivity.
Qed.

Lemma base_eqb_eq a b : base_eqb a b = true -> a = b.
Proof.
  destruct a, b. unfold base_eqb; cbn. intros H.
  apply andb_true_iff in H as [H Ha]. apply andb_true_iff in H as [H Hi]. apply andb_true_iff in H as [H Hc].
  apply andb_true_iff in H as [H Hp]. apply andb_true_iff in H as [Hb He].
  apply eqb_prop in Hb. apply (opt_eqb_eq text_eqb) in He; [|exact text_eqb_true].
  apply (leqb_eq' text_eqb text_eqb_true) in Hp, Hc.
  apply (opt_eqb_eq text_eqb) in Hi; [|exact text_eqb_true].
  apply (leqb_eq' attr_eqb attr_eqb_eq) in Ha. subst. reflexivity.
Qed.

Lemma relkind_eqb_eq a b : relkind_eqb a b = true -> a = b.
Proof. destruct a, b; cbn; congruence. Qed.

Lemma eqb_eq_all :
  (forall s s', sel_eqb s s' = true -> s = s') /\ (forall c c', comp_eqb c c' = true -> c = c')
  /\ (forall p p', pseudo_eqb p p' = true -> p = p') /\ (forall a a', arg_eqb a a' = true -> a = a').
Proof.
  apply sel_mutind.
  - intros c IHc [[[k' s']|] c']; cbn [sel_eqb]; [discriminate|]. intros H. cbn [andb] in H.
    f_equal. apply IHc; exact H.
  - intros k s c IHs IHc [[[k' s']|] c']; cbn [sel_eqb]; [|discriminate]. intros H.
    apply andb_true_iff in H as [H H3]. apply andb_true_iff in H as [H1 H2].
    apply relkind_eqb_eq in H1. apply IHs in H2. apply IHc in H3. subst. reflexivity.
  - intros b ps IH [b' ps']; cbn [comp_eqb]. intros H. apply andb_true_iff in H as [H1 H2].
    apply base_eqb_eq in H1. apply (leqb_eq pseudo_eqb ps IH) in H2. subst. reflexivity.
  - intros n e a IH [n' e' a']; cbn [pseudo_eqb]. intros H. apply andb_true_iff in H as [H H3].
    apply andb_true_iff in H as [H1 H2]. apply text_eqb_true in H1. apply eqb_prop in H2. apply IH in H3.
    subst. reflexivity.
  - intros l IH [l'|t'|]; cbn [arg_eqb]; try discriminate. intros H. f_equal. exact (leqb_eq sel_eqb l IH l' H).
  - intros t [l'|t'|]; cbn [arg_eqb]; try discriminate. intros H. f_equal. apply text_eqb_true; exact H.
  - intros [l'|t'|]; cbn [arg_eqb]; try discriminate. reflexivity.
Qed.

Lemma inclb_incl {A} (eqb : A -> A -> bool) (l1 l2 : list A) :
  (forall a b, eqb a b = true -> a = b) -> inclb eqb l1 l2 = true -> incl l1 l2.
Proof.
  intros He H x Hx. unfold inclb in H. rewrite forallb_forall in H. specialize (H x Hx).
  apply existsb_exists in H as [y [Hy E]]. apply He in E. subst. exact Hy.
Qed.

Lemma ext_comp_b_sound a b : ext_comp_b a b = true -> ext_comp a b.
Proof.
  unfold ext_comp_b, ext_comp, ext_base. cbv zeta. intros H.
  apply andb_true_iff in H as [H Hf]. apply andb_true_iff in H as [H Hps]. apply andb_true_iff in H as [H Ha].
  apply andb_true_iff in H as [H Hi]. apply andb_true_iff in H as [H Hc]. apply andb_true_iff in H as [H Hp].
  apply andb_true_iff in H as [Hb He].
  repeat split.
  - destruct (b_elem (c_base a)); [|exact I]. apply (opt_eqb_eq text_eqb) in He; [exact He|exact text_eqb_true].
  - apply (inclb_incl text_eqb); [exact text_eqb_true|assumption].
  - apply (inclb_incl text_eqb); [exact text_eqb_true|assumption].
  - destruct (b_id (c_base a)); [|exact I]. apply (opt_eqb_eq text_eqb) in Hi; [exact Hi|exact text_eqb_true].
  - apply (inclb_incl attr_eqb); [exact attr_eqb_eq|assumption].
  - apply (inclb_incl pseudo_eqb); [apply eqb_eq_all|assumption].
  - apply (opt_eqb_eq pseudo_eqb); [apply eqb_eq_all|assumption].
Qed.

Lemma extends_b_sound c : forall c', extends_b c c' = true -> extends c c'.
Proof.
  induction c as [c _|k s c IHs _| | | | |] using sel_ind'
    with (Pc := fun _ => True) (Pp := fun _ => True) (Pa := fun _ => True); auto.
  - intros c' H. cbn [extends_b extends] in *. apply andb_true_iff in H as [H1 H2].
    split; [apply ext_comp_b_sound; exact H1|]. destruct (s_rel c') as [[k' r']|]; [|exact I].
    destruct k'; try discriminate; [left|right]; reflexivity.
  - intros c' H. cbn [extends_b extends] in *. apply andb_true_iff in H as [H1 H2].
    split; [apply ext_comp_b_sound; exact H1|]. destruct (s_rel c') as [[k' r']|]; [|discriminate].
    apply andb_true_iff in H2 as [H2 H3]. split; [apply relkind_eqb_eq; exact H2|apply IHs; exact H3].
Qed.

(* the clause evaluated by Run.C23 is an instance of the monotonicity theorem *)
Lemma clause_expect_true_model l c' :
  existsb (fun x => extends_b x c') l = true -> sup_sels l [c'] = true.
Proof.
  intros H. apply existsb_exists in H as [c [Hc He]]. apply (sup_sels_extends l c c' Hc).
  apply extends_b_sound; exact He.
Qed.

(* ---------- transitivity, partial: compound selectors without selector-argument pseudos,
   and the lift from complex selectors to selector lists ---------- *)
Definition simple_pseudo (p : pseudo) : bool := match p_arg p with ArgSel _ => false | _ => true end.
Definition simple_comp (c : compound) : bool := forallb simple_pseudo (c_ps c).

Lemma match_name_trans a b c : match_name a b = true -> match_name b c = true -> match_name a c = true.
Proof.
  unfold match_name. intros H1 H2. apply orb_true_iff in H1 as [H1|H1]; [rewrite H1; reflexivity|].
  apply text_eqb_eq in H1. subst b. exact H2.
Qed.

Lemma elem_sup_trans a b c : elem_sup a b = true -> elem_sup b c = true -> elem_sup a c = true.
Proof.
  unfold elem_sup. destruct (split_ns a) as [an aa], (split_ns b) as [bn bb], (split_ns c) as [cn cc].
  intros H1 H2. apply andb_true_iff in H1 as [H1 H1']. apply andb_true_iff in H2 as [H2 H2'].
  rewrite (match_name_trans _ _ _ H1 H2), (match_name_trans _ _ _ H1' H2'). reflexivity.
Qed.

Lemma all_any_trans {A} (f : A -> A -> bool) l1 l2 l3 :
  (forall x y z, In x l1 -> In y l2 -> In z l3 -> f x y = true -> f y z = true -> f x z = true) ->
  all_any f l1 l2 = true -> all_any f l2 l3 = true -> all_any f l1 l3 = true.
Proof.
  unfold all_any. intros Ht H1 H2. apply forallb_forall. intros x Hx.
  rewrite forallb_forall in H1, H2. specialize (H1 x Hx). apply existsb_exists in H1 as [y [Hy Hxy]].
  specialize (H2 y Hy). apply existsb_exists in H2 as [z [Hz Hyz]].
  apply existsb_exists. exists z. split; [exact Hz|]. exact (Ht x y z Hx Hy Hz Hxy Hyz).
Qed.

Lemma text_eqb_trans x y z : text_eqb x y = true -> text_eqb y z = true -> text_eqb x z = true.
Proof. intros H1 H2. apply text_eqb_eq in H1, H2. subst. apply text_eqb_refl. Qed.

Lemma opt_N_eqb_trans (x y z : option N) :
  opt_eqb N.eqb x y = true -> opt_eqb N.eqb y z = true -> opt_eqb N.eqb x z = true.
Proof.
  destruct x, y, z; cbn; try discriminate; auto. intros H1 H2. apply N.eqb_eq in H1, H2. subst. apply N.eqb_refl.
Qed.

Lemma attr_sup_trans a b c : attr_sup a b = true -> attr_sup b c = true -> attr_sup a c = true.
Proof.
  unfold attr_sup. intros H1 H2.
  apply andb_true_iff in H1 as [H1 M1]. apply andb_true_iff in H1 as [H1 V1]. apply andb_true_iff in H1 as [N1 O1].
  apply andb_true_iff in H2 as [H2 M2]. apply andb_true_iff in H2 as [H2 V2]. apply andb_true_iff in H2 as [N2 O2].
  rewrite (text_eqb_trans _ _ _ N1 N2), (text_eqb_trans _ _ _ O1 O2), (text_eqb_trans _ _ _ V1 V2),
          (opt_N_eqb_trans _ _ _ M1 M2). reflexivity.
Qed.

(* a name that is a superselector of a universal name is universal *)
Lemma split_go_some e s acc x r :
  (fix go (s acc : text) : option text * text :=
     match s with
     | [] => (None, e)
     | c :: r => if N.eqb c 124 then (Some (rev acc), r) else go r (c :: acc)
     end) s acc = (Some x, r) -> rev acc ++ s = x ++ 124%N :: r.
Proof.
  revert acc. induction s as [|c s IH]; intros acc H; [discriminate|].
  destruct (N.eqb c 124) eqn:E.
  - inversion H; subst. apply N.eqb_eq in E. subst. reflexivity.
  - apply IH in H. cbn [rev] in H. rewrite <- app_assoc in H. exact H.
Qed.

Lemma split_go_none e s acc r :
  (fix go (s acc : text) : option text * text :=
     match s with
     | [] => (None, e)
     | c :: r => if N.eqb c 124 then (Some (rev acc), r) else go r (c :: acc)
     end) s acc = (None, r) -> r = e.
Proof.
  revert acc. induction s as [|c s IH]; intros acc H; [inversion H; reflexivity|].
  destruct (N.eqb c 124); [discriminate|]. exact (IH _ H).
Qed.

Lemma sup_of_any_is_any e s : elem_is_any s = true -> elem_sup e s = true -> elem_is_any e = true.
Proof.
  intros Hs H. unfold elem_sup in H. destruct (split_ns e) as [ens en] eqn:Ee.
  assert (Hparts : match_name (match ens with Some x => x | None => str "*" end) (str "*") = true
                   /\ match_name en (str "*") = true).
  { unfold elem_is_any in Hs. apply orb_true_iff in Hs as [Hs|Hs]; apply text_eqb_eq in Hs; subst s;
      cbn in H; apply andb_true_iff in H as [H1 H2]; split; assumption. }
  destruct Hparts as [H1 H2].
  assert (En : en = str "*").
  { unfold match_name in H2. apply orb_true_iff in H2 as [H2|H2]; apply text_eqb_eq in H2; exact H2. }
  unfold split_ns in Ee. destruct ens as [x|].
  - apply split_go_some in Ee. cbn [rev app] in Ee.
    assert (Ex : x = str "*").
    { unfold match_name in H1. apply orb_true_iff in H1 as [H1|H1]; apply text_eqb_eq in H1; exact H1. }
    subst x en. rewrite Ee. reflexivity.
  - apply split_go_none in Ee. rewrite <- Ee, En. reflexivity.
Qed.

Lemma base_sup_trans a b c : base_sup a b = true -> base_sup b c = true -> base_sup a c = true.
Proof.
  unfold base_sup. intros H1 H2.
  apply andb_true_iff in H1 as [H1 A1]. apply andb_true_iff in H1 as [H1 I1].
  apply andb_true_iff in H1 as [H1 C1]. apply andb_true_iff in H1 as [E1 P1].
  apply andb_true_iff in H2 as [H2 A2]. apply andb_true_iff in H2 as [H2 I2].
  apply andb_true_iff in H2 as [H2 C2]. apply andb_true_iff in H2 as [E2 P2].
  rewrite (all_any_trans text_eqb _ _ _ (fun x y z _ _ _ => text_eqb_trans x y z) P1 P2),
          (all_any_trans text_eqb _ _ _ (fun x y z _ _ _ => text_eqb_trans x y z) C1 C2),
          (all_any_trans attr_sup _ _ _ (fun x y z _ _ _ => attr_sup_trans x y z) A1 A2).
  assert (Eid : match b_id a with None => true | Some i => opt_eqb text_eqb (b_id c) (Some i) end = true).
  { destruct (b_id a) as [i|]; [|reflexivity]. destruct (b_id b) as [j|]; [|discriminate].
    cbn in I1. apply text_eqb_eq in I1. subst j. exact I2. }
  rewrite Eid.
  assert (Eel : match b_elem a with
                | None => true
                | Some e => elem_is_any e || match b_elem c with Some s => elem_sup e s | None => false end
                end = true).
  { destruct (b_elem a) as [e|]; [|reflexivity]. destruct (elem_is_any e) eqn:Ea; [reflexivity|]. cbn [orb] in *.
    destruct (b_elem b) as [s|]; [|discriminate].
    destruct (elem_is_any s) eqn:Es.
    - rewrite (sup_of_any_is_any e s Es E1) in Ea. discriminate.
    - cbn [orb] in E2. destruct (b_elem c) as [t|]; [|discriminate]. exact (elem_sup_trans _ _ _ E1 E2). }
  rewrite Eel. reflexivity.
Qed.

Lemma sup_pseudo_simple p q :
  simple_pseudo p = true -> sup_pseudo p q = true ->
  p_is_element p = p_is_element q /\ p_name p = p_name q /\ p_arg p = p_arg q.
Proof.
  destruct p as [n e a], q as [n' e' a']. unfold simple_pseudo. cbn [p_arg p_name sup_pseudo].
  unfold p_is_element. cbn [p_name p_el]. intros Hs H.
  destruct (Bool.eqb (e || is_pseudo_element_name n) (e' || is_pseudo_element_name n')) eqn:E1; [|cbn [negb orb] in H; discriminate].
  destruct (text_eqb n n') eqn:E2; [|cbn [negb orb] in H; discriminate]. cbn [negb orb] in H.
  apply eqb_prop in E1. apply text_eqb_eq in E2. repeat split; try assumption.
  destruct a as [l|t|]; [cbn in Hs; discriminate| |]; destruct a' as [l'|t'|];
    destruct (name_in n [str "not"]); destruct (name_in n [str "current"]); cbn in H; try discriminate;
    try reflexivity; apply text_eqb_eq in H; subst; reflexivity.
Qed.

Lemma sup_pseudo_congr p q r :
  p_is_element p = p_is_element q -> p_name p = p_name q -> p_arg p = p_arg q ->
  sup_pseudo p r = sup_pseudo q r.
Proof.
  destruct p as [n e a], q as [n' e' a']. unfold p_is_element. cbn [p_name p_arg p_el]. intros H1 H2 H3. subst.
  cbn [sup_pseudo]. rewrite H1. reflexivity.
Qed.

Lemma sup_pseudo_trans_simple p q r :
  simple_pseudo p = true -> sup_pseudo p q = true -> sup_pseudo q r = true -> sup_pseudo p r = true.
Proof.
  intros Hs H1 H2. destruct (sup_pseudo_simple p q Hs H1) as [A [B C]].
  rewrite (sup_pseudo_congr p q r A B C). exact H2.
Qed.

Lemma sup_comp_trans_simple a b c :
  simple_comp a = true -> sup_comp a b = true -> sup_comp b c = true -> sup_comp a c = true.
Proof.
  destruct a as [ba psa], b as [bb psb]. unfold simple_comp. cbn [c_ps sup_comp c_base]. intros Hs H1 H2.
  apply andb_true_iff in H1 as [H1 F1]. apply andb_true_iff in H1 as [B1 P1].
  apply andb_true_iff in H2 as [H2 F2]. apply andb_true_iff in H2 as [B2 P2].
  rewrite (base_sup_trans _ _ _ B1 B2). cbn [andb].
  rewrite forallb_forall in Hs.
  assert (E : forallb (fun p => existsb (sup_pseudo p) (c_ps c)) psa = true).
  { apply forallb_forall. intros p Hp. rewrite forallb_forall in P1, P2.
    specialize (P1 p Hp). apply existsb_exists in P1 as [q [Hq Hpq]].
    specialize (P2 q Hq). apply existsb_exists in P2 as [r [Hr Hqr]].
    apply existsb_exists. exists r. split; [exact Hr|].
    exact (sup_pseudo_trans_simple p q r (Hs p Hp) Hpq Hqr). }
  rewrite E. cbn [andb].
  rewrite first_match_find in F1, F2 |- *.
  destruct (find p_is_element psa) as [aa|] eqn:Ea.
  - rewrite first_match_find in F1 |- *. destruct (find p_is_element psb) as [ab|] eqn:Eb; [|discriminate].
    rewrite first_match_find in F2. destruct (find p_is_element (c_ps c)) as [ac|]; [|discriminate].
    apply (sup_pseudo_trans_simple aa ab ac); [apply Hs; apply (find_some _ _ Ea)|exact F1|exact F2].
  - rewrite first_match_find in F1 |- *. destruct (find p_is_element psb) as [ab|] eqn:Eb; [discriminate|].
    rewrite first_match_find in F2. exact F2.
Qed.

(* lists: transitivity of the members gives transitivity of the lists *)
Lemma sup_sels_trans_lift la lb lc :
  (forall x y z, In x la -> In y lb -> In z lc ->
                 sup_sel x y = true -> sup_sel y z = true -> sup_sel x z = true) ->
  sup_sels la lb = true -> sup_sels lb lc = true -> sup_sels la lc = true.
Proof.
  unfold sup_sels. intros Ht H1 H2. apply forallb_forall. intros z Hz.
  rewrite forallb_forall in H1, H2. specialize (H2 z Hz). apply existsb_exists in H2 as [y [Hy Hyz]].
  specialize (H1 y Hy). apply existsb_exists in H1 as [x [Hx Hxy]].
  apply existsb_exists. exists x. split; [exact Hx|]. exact (Ht x y z Hx Hy Hz Hxy Hyz).
Qed.

(* compound-only selectors (no combinator) without selector pseudos: full transitivity on lists *)
Definition flat_simple (s : sel) : bool := is_none (s_rel s) && simple_comp (s_comp s).

Lemma sup_sels_trans_flat la lb lc :
  forallb flat_simple la = true -> forallb flat_simple lb = true ->
  sup_sels la lb = true -> sup_sels lb lc = true -> sup_sels la lc = true.
Proof.
  intros Fa Fb. apply sup_sels_trans_lift. intros x y z Hx Hy _ H1 H2.
  rewrite forallb_forall in Fa, Fb. specialize (Fa x Hx). specialize (Fb y Hy).
  unfold flat_simple in Fa, Fb. apply andb_true_iff in Fa as [Ra Sa]. apply andb_true_iff in Fb as [Rb Sb].
  destruct x as [[?|] ca]; [discriminate|]. destruct y as [[?|] cb]; [discriminate|].
  cbn [sup_sel s_comp s_rel] in *. rewrite andb_true_r in *.
  exact (sup_comp_trans_simple ca cb (s_comp z) Sa H1 H2).
Qed.

(* ---------- the two directions of the model agree: sub_X a b = sup_X b a ---------- *)
Lemma lsum_in {A} (f : A -> nat) x l : In x l -> (f x <= lsum f l)%nat.
Proof. induction l as [|y l IH]; cbn; [contradiction|]. intros [->|H]; [lia|]. specialize (IH H). lia. Qed.

Lemma forallb_ext_in {A} (f g : A -> bool) l : (forall x, In x l -> f x = g x) -> forallb f l = forallb g l.
Proof. induction l as [|x l IH]; cbn; intros H; [reflexivity|]. rewrite (H x (or_introl eq_refl)), IH; auto. Qed.
Lemma existsb_ext_in {A} (f g : A -> bool) l : (forall x, In x l -> f x = g x) -> existsb f l = existsb g l.
Proof. induction l as [|x l IH]; cbn; intros H; [reflexivity|]. rewrite (H x (or_introl eq_refl)), IH; auto. Qed.
Lemma first_match_ext_in {A R} (test : A -> bool) (f g : A -> R) d l :
  (forall x, In x l -> f x = g x) -> first_match test f d l = first_match test g d l.
Proof. induction l as [|x l IH]; cbn; intros H; [reflexivity|]. rewrite (H x (or_introl eq_refl)), IH; auto. Qed.

Lemma text_eqb_sym a b : text_eqb a b = text_eqb b a.
Proof.
  destruct (text_eqb a b) eqn:E.
  - apply text_eqb_eq in E. subst. symmetry. apply text_eqb_refl.
  - destruct (text_eqb b a) eqn:E2; [|reflexivity]. apply text_eqb_eq in E2. subst. rewrite text_eqb_refl in E. discriminate.
Qed.

Lemma arg_eqb_sym a b : arg_eqb a b = arg_eqb b a.
Proof.
  destruct (arg_eqb a b) eqn:E.
  - apply (proj2 (proj2 (proj2 eqb_eq_all))) in E. rewrite E.
    destruct (proj2 (proj2 (proj2 refl_all)) b) as [_ [_ R]]. symmetry. exact R.
  - destruct (arg_eqb b a) eqn:E2; [|reflexivity]. apply (proj2 (proj2 (proj2 eqb_eq_all))) in E2. rewrite E2 in E.
    destruct (proj2 (proj2 (proj2 refl_all)) a) as [_ [_ R]]. rewrite R in E. discriminate.
Qed.

Definition dir_stmt (n : nat) : Prop :=
  (forall a b, (sel_size a + sel_size b <= n)%nat -> sub_sel a b = sup_sel b a)
  /\ (forall c d, (comp_size c + comp_size d <= n)%nat -> sub_comp c d = sup_comp d c)
  /\ (forall p q, (pseudo_size p + pseudo_size q <= n)%nat -> sub_pseudo p q = sup_pseudo q p)
  /\ (forall x y, (arg_size x + arg_size y <= n)%nat -> sub_arg x y = sup_arg y x).

Lemma sel_size_pos s : (1 <= sel_size s)%nat. Proof. destruct s; cbn; lia. Qed.
Lemma comp_size_pos s : (1 <= comp_size s)%nat. Proof. destruct s; cbn; lia. Qed.
Lemma pseudo_size_pos s : (1 <= pseudo_size s)%nat. Proof. destruct s; cbn; lia. Qed.
Lemma arg_size_pos s : (1 <= arg_size s)%nat. Proof. destruct s; cbn; lia. Qed.

(* the inline walks of sub_sel are the walks of rel_walk *)
Lemma walk_anc_dir s : forall ss k,
  (forall x, (sel_size x <= sel_size ss)%nat -> sub_sel x s = sup_sel s x) ->
  (fix walk (k : relkind) (ss : sel) {struct ss} : bool :=
     match k with Ancestor | Parent => sub_sel ss s | _ => false end
     || match ss with Sel (Some (k', ss')) _ => walk k' ss' | Sel None _ => false end) k ss
  = walk_anc (sup_sel s) k ss.
Proof.
  induction ss as [c _|k' ss' c IH _| | | | |] using sel_ind'
    with (Pc := fun _ => True) (Pp := fun _ => True) (Pa := fun _ => True); auto; intros k H.
  - cbn [walk_anc]. rewrite (H _ (le_n _)). reflexivity.
  - cbn [walk_anc]. rewrite (H _ (le_n _)). f_equal. apply IH. intros x Hx. apply H. cbn [sel_size]. lia.
Qed.

Lemma walk_sib_dir s : forall ss k,
  (forall x, (sel_size x <= sel_size ss)%nat -> sub_sel x s = sup_sel s x) ->
  (fix walk (k : relkind) (ss : sel) {struct ss} : bool :=
     match k with
     | Sibling | Adjacent =>
         sub_sel ss s || match ss with Sel (Some (k', ss')) _ => walk k' ss' | Sel None _ => false end
     | _ => false
     end) k ss
  = walk_sib (sup_sel s) k ss.
Proof.
  induction ss as [c _|k' ss' c IH _| | | | |] using sel_ind'
    with (Pc := fun _ => True) (Pp := fun _ => True) (Pa := fun _ => True); auto; intros k H.
  - cbn [walk_sib]. rewrite (H _ (le_n _)). reflexivity.
  - cbn [walk_sib]. rewrite (H _ (le_n _)). destruct k; try reflexivity; f_equal; apply IH; intros x Hx; apply H; cbn [sel_size]; lia.
Qed.

Lemma dir_all n : dir_stmt n.
Proof.
  induction n as [|n IH].
  - repeat split; intros x y H; [pose proof (sel_size_pos x)|pose proof (comp_size_pos x)|pose proof (pseudo_size_pos x)|pose proof (arg_size_pos x)]; lia.
  - destruct IH as [IHs [IHc [IHp IHa]]]. repeat split.
    + (* sel *)
      intros [rel c] [relb cb] H. cbn [sel_size] in H. cbn [sub_sel sup_sel s_comp s_rel].
      rewrite (IHc c cb) by lia. f_equal. destruct relb as [[kind s]|]; [|reflexivity].
      destruct rel as [[k ss]|]; [|destruct kind; reflexivity].
      assert (Hx : forall x, (sel_size x <= sel_size ss)%nat -> sub_sel x s = sup_sel s x).
      { intros x Hx. apply IHs. lia. }
      destruct kind; cbn [rel_walk].
      * apply walk_anc_dir; exact Hx.
      * destruct k; try reflexivity. apply Hx; lia.
      * apply walk_sib_dir; exact Hx.
      * destruct k; try reflexivity. apply Hx; lia.
    + (* comp *)
      intros [bc psc] [bd psd] H. cbn [comp_size] in H. cbn [sub_comp sup_comp c_base c_ps].
      assert (Hpq : forall p q, In p psc -> In q psd -> sub_pseudo p q = sup_pseudo q p).
      { intros p q Hp Hq. apply IHp. pose proof (lsum_in pseudo_size p psc Hp). pose proof (lsum_in pseudo_size q psd Hq). lia. }
      f_equal; [f_equal|].
      * apply forallb_ext_in. intros q Hq. apply existsb_ext_in. intros p Hp. apply Hpq; assumption.
      * apply first_match_ext_in. intros aa Haa. apply first_match_ext_in. intros ba Hba. apply Hpq; assumption.
    + (* pseudo *)
      intros [n1 e1 a1] [n2 e2 a2] H. cbn [pseudo_size] in H.
      cbn [sub_pseudo sup_pseudo p_name p_arg]. unfold p_is_element. cbn [p_el p_name].
      rewrite (text_eqb_sym n2 n1).
      destruct (text_eqb n1 n2) eqn:En.
      2:{ rewrite !orb_true_r. reflexivity. }
      apply text_eqb_eq in En. subst n2.
      destruct (Bool.eqb (e2 || is_pseudo_element_name n1) (e1 || is_pseudo_element_name n1)) eqn:Ee.
      * cbn [negb orb].
        destruct (name_in n1 [str "not"]).
        -- symmetry. apply IHa. lia.
        -- destruct (name_in n1 [str "current"]); [apply arg_eqb_sym|]. apply IHa. lia.
      * reflexivity.
    + (* arg *)
      intros [la|ta|] [lb|tb|] H; try reflexivity. cbn [arg_size] in H. cbn [sub_arg sup_arg].
      apply forallb_ext_in. intros x Hx. apply existsb_ext_in. intros y Hy. apply IHs.
      pose proof (lsum_in sel_size x la Hx). pose proof (lsum_in sel_size y lb Hy). lia.
Qed.

Lemma sub_is_sup_swapped a b : sub_sel a b = sup_sel b a.
Proof. apply (proj1 (dir_all (sel_size a + sel_size b))). lia. Qed.

(* ---------- transitivity of is_superselector on all four levels ---------- *)
Definition is_ap (k : relkind) : bool := match k with Ancestor | Parent => true | _ => false end.
Definition is_sj (k : relkind) : bool := match k with Sibling | Adjacent => true | _ => false end.

Lemma walk_anc_eq f k ss :
  walk_anc f k ss = (is_ap k && f ss) || match ss with Sel (Some (k', ss')) _ => walk_anc f k' ss' | Sel None _ => false end.
Proof. destruct ss as [[[k' ss']|] c]; destruct k; reflexivity. Qed.
Lemma walk_sib_eq f k ss :
  walk_sib f k ss = is_sj k && (f ss || match ss with Sel (Some (k', ss')) _ => walk_sib f k' ss' | Sel None _ => false end).
Proof. destruct ss as [[[k' ss']|] c]; destruct k; reflexivity. Qed.

(* positions of the chain above a selector *)
Inductive Reach : relkind -> sel -> relkind -> sel -> Prop :=
| reach_here k s : Reach k s k s
| reach_up k k' s' c km cm : Reach k' s' km cm -> Reach k (Sel (Some (k', s')) c) km cm.
(* ... reached through sibling combinators only *)
Inductive SReach : relkind -> sel -> relkind -> sel -> Prop :=
| sreach_here k s : is_sj k = true -> SReach k s k s
| sreach_up k k' s' c km cm : is_sj k = true -> SReach k' s' km cm -> SReach k (Sel (Some (k', s')) c) km cm.

Lemma reach_size k s km cm : Reach k s km cm -> (sel_size cm <= sel_size s)%nat.
Proof. induction 1; [lia|]. cbn [sel_size]. lia. Qed.
Lemma sreach_reach k s km cm : SReach k s km cm -> Reach k s km cm.
Proof. induction 1; [constructor|]. constructor. assumption. Qed.

Lemma anc_elim h : forall ss k, walk_anc h k ss = true ->
  exists km cm, Reach k ss km cm /\ is_ap km = true /\ h cm = true.
Proof.
  induction ss as [c _|k' ss' c IH _| | | | |] using sel_ind'
    with (Pc := fun _ => True) (Pp := fun _ => True) (Pa := fun _ => True); auto; intros k H;
    rewrite walk_anc_eq in H; apply orb_true_iff in H as [H|H]; try discriminate.
  - apply andb_true_iff in H as [H1 H2]. exists k, (Sel None c). repeat split; [constructor|assumption|assumption].
  - apply andb_true_iff in H as [H1 H2]. exists k, (Sel (Some (k', ss')) c). repeat split; [constructor|assumption|assumption].
  - destruct (IH k' H) as [km [cm [R [A B]]]]. exists km, cm. repeat split; [constructor; exact R|assumption|assumption].
Qed.

Lemma anc_intro g k ss km cm : Reach k ss km cm -> is_ap km = true -> g cm = true -> walk_anc g k ss = true.
Proof.
  induction 1; intros A B; rewrite walk_anc_eq.
  - rewrite A, B. reflexivity.
  - rewrite (IHReach A B). apply orb_true_r.
Qed.

Lemma anc_suffix g k ss km cm : Reach k ss km cm ->
  forall k2 c2 cc, cm = Sel (Some (k2, c2)) cc -> walk_anc g k2 c2 = true -> walk_anc g k ss = true.
Proof.
  induction 1; intros k2 c2 cc E W; rewrite walk_anc_eq.
  - subst. rewrite W. apply orb_true_r.
  - rewrite (IHReach k2 c2 cc E W). apply orb_true_r.
Qed.

Lemma sib_elim h : forall ss k, walk_sib h k ss = true -> exists km cm, SReach k ss km cm /\ h cm = true.
Proof.
  induction ss as [c _|k' ss' c IH _| | | | |] using sel_ind'
    with (Pc := fun _ => True) (Pp := fun _ => True) (Pa := fun _ => True); auto; intros k H;
    rewrite walk_sib_eq in H; apply andb_true_iff in H as [Hk H]; apply orb_true_iff in H as [H|H]; try discriminate.
  - exists k, (Sel None c). split; [constructor; assumption|assumption].
  - exists k, (Sel (Some (k', ss')) c). split; [constructor; assumption|assumption].
  - destruct (IH k' H) as [km [cm [R B]]]. exists km, cm. split; [constructor; assumption|assumption].
Qed.

Lemma sib_intro g k ss km cm : SReach k ss km cm -> g cm = true -> walk_sib g k ss = true.
Proof.
  induction 1; intros B; rewrite walk_sib_eq.
  - rewrite H, B. reflexivity.
  - rewrite H, (IHSReach B). cbn. apply orb_true_r.
Qed.

Lemma sib_suffix g k ss km cm : SReach k ss km cm ->
  forall k2 c2 cc, cm = Sel (Some (k2, c2)) cc -> walk_sib g k2 c2 = true -> walk_sib g k ss = true.
Proof.
  induction 1; intros k2 c2 cc E W; rewrite walk_sib_eq.
  - subst. rewrite H, W. cbn. apply orb_true_r.
  - rewrite H, (IHSReach k2 c2 cc E W). cbn. apply orb_true_r.
Qed.

Lemma rel_walk_none kind f : rel_walk kind f None = false.
Proof. destruct kind; reflexivity. Qed.

Lemma sup_sel_unfold rel c b :
  sup_sel (Sel rel c) b =
  sup_comp c (s_comp b) && match rel with None => true | Some (kind, s) => rel_walk kind (sup_sel s) (s_rel b) end.
Proof. reflexivity. Qed.

(* a walk over the chain of b' can be replayed over the chain of any c' below b' *)
Definition transfer (f g : sel -> bool) (nb nc : nat) : Prop :=
  forall x y, (sel_size x < nb)%nat -> (sel_size y < nc)%nat -> f x = true -> sup_sel x y = true -> g y = true.

Lemma transfer_mono f g nb nc nb' nc' : (nb' <= nb)%nat -> (nc' <= nc)%nat -> transfer f g nb nc -> transfer f g nb' nc'.
Proof. intros H1 H2 T x y Hx Hy. apply T; lia. Qed.

Lemma anc_follow f g : forall b' c',
  transfer f g (sel_size b') (sel_size c') -> sup_sel b' c' = true ->
  forall kb sb, s_rel b' = Some (kb, sb) -> walk_anc f kb sb = true ->
  exists kc sc, s_rel c' = Some (kc, sc) /\ walk_anc g kc sc = true.
Proof.
  induction b' as [cb _|kb0 sb0 cb IH _| | | | |] using sel_ind'
    with (Pc := fun _ => True) (Pp := fun _ => True) (Pa := fun _ => True); auto;
    intros c' T Hs kb sb Hr Hw; cbn [s_rel] in Hr; [discriminate|]. inversion Hr; subst kb0 sb0; clear Hr.
  rewrite sup_sel_unfold in Hs. apply andb_true_iff in Hs as [_ Hs].
  destruct c' as [[[kc sc]|] cc]; cbn [s_rel] in *; [|rewrite rel_walk_none in Hs; discriminate].
  exists kc, sc. split; [reflexivity|].
  assert (Tsb : forall cm, (sel_size cm <= sel_size sc)%nat -> transfer f g (sel_size sb) (sel_size cm)).
  { intros cm Hcm. eapply transfer_mono; [| |exact T]; cbn [sel_size]; lia. }
  rewrite walk_anc_eq in Hw. apply orb_true_iff in Hw as [Hw|Hw].
  - (* f sb, kb is an ancestor / parent link *)
    apply andb_true_iff in Hw as [Hk Hf].
    destruct kb; try discriminate; cbn [rel_walk] in Hs.
    + destruct (anc_elim _ _ _ Hs) as [km [cm [R [A B]]]].
      apply (anc_intro g kc sc km cm R A). apply (T sb cm); try assumption; cbn [sel_size]; [lia|].
      pose proof (reach_size _ _ _ _ R). lia.
    + destruct kc; try discriminate. rewrite walk_anc_eq. cbn [is_ap andb].
      rewrite (T sb sc); [reflexivity| | |assumption|assumption]; cbn [sel_size]; lia.
  - (* further up the chain of b' *)
    destruct sb as [[[k1 sb1]|] csb]; [|discriminate].
    destruct kb; cbn [rel_walk] in Hs.
    + destruct (anc_elim _ _ _ Hs) as [km [cm [R [A B]]]].
      destruct (IH cm (Tsb cm (reach_size _ _ _ _ R)) B k1 sb1 eq_refl Hw) as [k2 [c2 [E W]]].
      destruct cm as [relm ccm]. cbn [s_rel] in E. subst relm. exact (anc_suffix g kc sc km _ R k2 c2 ccm eq_refl W).
    + destruct kc; try discriminate.
      destruct (IH sc (Tsb sc (le_n _)) Hs k1 sb1 eq_refl Hw) as [k2 [c2 [E W]]].
      destruct sc as [relm ccm]. cbn [s_rel] in E. subst relm. rewrite walk_anc_eq, W. apply orb_true_r.
    + destruct (sib_elim _ _ _ Hs) as [km [cm [R B]]]. apply sreach_reach in R.
      destruct (IH cm (Tsb cm (reach_size _ _ _ _ R)) B k1 sb1 eq_refl Hw) as [k2 [c2 [E W]]].
      destruct cm as [relm ccm]. cbn [s_rel] in E. subst relm. exact (anc_suffix g kc sc km _ R k2 c2 ccm eq_refl W).
    + destruct kc; try discriminate.
      destruct (IH sc (Tsb sc (le_n _)) Hs k1 sb1 eq_refl Hw) as [k2 [c2 [E W]]].
      destruct sc as [relm ccm]. cbn [s_rel] in E. subst relm. rewrite walk_anc_eq, W. apply orb_true_r.
Qed.

Lemma sib_follow f g : forall b' c',
  transfer f g (sel_size b') (sel_size c') -> sup_sel b' c' = true ->
  forall kb sb, s_rel b' = Some (kb, sb) -> walk_sib f kb sb = true ->
  exists kc sc, s_rel c' = Some (kc, sc) /\ walk_sib g kc sc = true.
Proof.
  induction b' as [cb _|kb0 sb0 cb IH _| | | | |] using sel_ind'
    with (Pc := fun _ => True) (Pp := fun _ => True) (Pa := fun _ => True); auto;
    intros c' T Hs kb sb Hr Hw; cbn [s_rel] in Hr; [discriminate|]. inversion Hr; subst kb0 sb0; clear Hr.
  rewrite sup_sel_unfold in Hs. apply andb_true_iff in Hs as [_ Hs].
  destruct c' as [[[kc sc]|] cc]; cbn [s_rel] in *; [|rewrite rel_walk_none in Hs; discriminate].
  exists kc, sc. split; [reflexivity|].
  assert (Tsb : forall cm, (sel_size cm <= sel_size sc)%nat -> transfer f g (sel_size sb) (sel_size cm)).
  { intros cm Hcm. eapply transfer_mono; [| |exact T]; cbn [sel_size]; lia. }
  rewrite walk_sib_eq in Hw. apply andb_true_iff in Hw as [Hk Hw]. apply orb_true_iff in Hw as [Hw|Hw].
  - destruct kb; try discriminate; cbn [rel_walk] in Hs.
    + destruct (sib_elim _ _ _ Hs) as [km [cm [R B]]].
      apply (sib_intro g kc sc km cm R). apply (T sb cm); try assumption; cbn [sel_size]; [lia|].
      pose proof (reach_size _ _ _ _ (sreach_reach _ _ _ _ R)). lia.
    + destruct kc; try discriminate. rewrite walk_sib_eq. cbn [is_sj andb].
      rewrite (T sb sc); [reflexivity| | |assumption|assumption]; cbn [sel_size]; lia.
  - destruct sb as [[[k1 sb1]|] csb]; [|discriminate].
    destruct kb; try discriminate; cbn [rel_walk] in Hs.
    + destruct (sib_elim _ _ _ Hs) as [km [cm [R B]]].
      destruct (IH cm (Tsb cm (reach_size _ _ _ _ (sreach_reach _ _ _ _ R))) B k1 sb1 eq_refl Hw) as [k2 [c2 [E W]]].
      destruct cm as [relm ccm]. cbn [s_rel] in E. subst relm. exact (sib_suffix g kc sc km _ R k2 c2 ccm eq_refl W).
    + destruct kc; try discriminate.
      destruct (IH sc (Tsb sc (le_n _)) Hs k1 sb1 eq_refl Hw) as [k2 [c2 [E W]]].
      destruct sc as [relm ccm]. cbn [s_rel] in E. subst relm. rewrite walk_sib_eq, W. cbn. apply orb_true_r.
Qed.

(* compound level, given transitivity of the pseudos involved *)
Lemma sup_comp_trans_gen a b c :
  (forall p q r, In p (c_ps a) -> In q (c_ps b) -> In r (c_ps c) ->
                 sup_pseudo p q = true -> sup_pseudo q r = true -> sup_pseudo p r = true) ->
  sup_comp a b = true -> sup_comp b c = true -> sup_comp a c = true.
Proof.
  destruct a as [ba psa], b as [bb psb]. cbn [c_ps sup_comp c_base]. intros Ht H1 H2.
  apply andb_true_iff in H1 as [H1 F1]. apply andb_true_iff in H1 as [B1 P1].
  apply andb_true_iff in H2 as [H2 F2]. apply andb_true_iff in H2 as [B2 P2].
  rewrite (base_sup_trans _ _ _ B1 B2). cbn [andb].
  assert (E : forallb (fun p => existsb (sup_pseudo p) (c_ps c)) psa = true).
  { apply forallb_forall. intros p Hp. rewrite forallb_forall in P1, P2.
    specialize (P1 p Hp). apply existsb_exists in P1 as [q [Hq Hpq]].
    specialize (P2 q Hq). apply existsb_exists in P2 as [r [Hr Hqr]].
    apply existsb_exists. exists r. split; [exact Hr|]. exact (Ht p q r Hp Hq Hr Hpq Hqr). }
  rewrite E. cbn [andb].
  rewrite first_match_find in F1, F2 |- *.
  destruct (find p_is_element psa) as [aa|] eqn:Ea.
  - rewrite first_match_find in F1 |- *. destruct (find p_is_element psb) as [ab|] eqn:Eb; [|discriminate].
    rewrite first_match_find in F2. destruct (find p_is_element (c_ps c)) as [ac|] eqn:Ec; [|discriminate].
    apply (Ht aa ab ac); try assumption; [apply (find_some _ _ Ea)|apply (find_some _ _ Eb)|apply (find_some _ _ Ec)].
  - rewrite first_match_find in F1 |- *. destruct (find p_is_element psb) as [ab|] eqn:Eb; [discriminate|].
    rewrite first_match_find in F2. exact F2.
Qed.

Lemma sub_arg_swapped x y : sub_arg x y = sup_arg y x.
Proof. apply (proj2 (proj2 (proj2 (dir_all (arg_size x + arg_size y))))). lia. Qed.

Lemma arg_eqb_true a b : arg_eqb a b = true -> a = b.
Proof. apply eqb_eq_all. Qed.

Definition trans_stmt (n : nat) : Prop :=
  (forall a b c, (sel_size a + sel_size b + sel_size c <= n)%nat ->
                 sup_sel a b = true -> sup_sel b c = true -> sup_sel a c = true)
  /\ (forall a b c, (comp_size a + comp_size b + comp_size c <= n)%nat ->
                    sup_comp a b = true -> sup_comp b c = true -> sup_comp a c = true)
  /\ (forall a b c, (pseudo_size a + pseudo_size b + pseudo_size c <= n)%nat ->
                    sup_pseudo a b = true -> sup_pseudo b c = true -> sup_pseudo a c = true)
  /\ (forall a b c, (arg_size a + arg_size b + arg_size c <= n)%nat ->
                    sup_arg a b = true -> sup_arg b c = true -> sup_arg a c = true).

Lemma sup_pseudo_shape n e a q : sup_pseudo (Pseudo n e a) q = true ->
  (e || is_pseudo_element_name n) = p_is_element q /\ n = p_name q
  /\ (if name_in n [str "not"] then sub_arg a (p_arg q)
      else if name_in n [str "current"] then arg_eqb a (p_arg q) else sup_arg a (p_arg q)) = true.
Proof.
  cbn [sup_pseudo]. intros H.
  destruct (Bool.eqb (e || is_pseudo_element_name n) (p_is_element q)) eqn:E1; [|cbn in H; discriminate].
  destruct (text_eqb n (p_name q)) eqn:E2; [|cbn in H; discriminate]. cbn [negb orb] in H.
  apply eqb_prop in E1. apply text_eqb_eq in E2. repeat split; assumption.
Qed.

Lemma trans_all n : trans_stmt n.
Proof.
  induction n as [|n IH].
  - repeat split; intros a b c H; [pose proof (sel_size_pos a)|pose proof (comp_size_pos a)|pose proof (pseudo_size_pos a)|pose proof (arg_size_pos a)]; lia.
  - destruct IH as [IHs [IHc [IHp IHa]]]. repeat split.
    + (* complex selectors *)
      intros [rela ca] b c H Hab Hbc. cbn [sel_size] in H.
      rewrite sup_sel_unfold in Hab |- *. apply andb_true_iff in Hab as [Cab Rab].
      destruct b as [relb cb]. rewrite sup_sel_unfold in Hbc. pose proof Hbc as Hbc0.
      apply andb_true_iff in Hbc as [Cbc Rbc]. cbn [s_comp s_rel sel_size] in *.
      rewrite (IHc ca cb (s_comp c)); [cbn [andb]| |assumption|assumption].
      2:{ destruct c as [relc cc]; cbn [s_comp sel_size] in *. lia. }
      destruct rela as [[ka s]|]; [|reflexivity].
      destruct relb as [[kb sb]|]; [|rewrite rel_walk_none in Rab; discriminate].
      assert (Hbc1 : sup_sel (Sel (Some (kb, sb)) cb) c = true).
      { rewrite sup_sel_unfold. rewrite Cbc. exact Rbc. }
      assert (T : transfer (sup_sel s) (sup_sel s) (sel_size (Sel (Some (kb, sb)) cb)) (sel_size c)).
      { intros x y Hx Hy Hsx Hxy. apply (IHs s x y); [cbn [sel_size] in Hx; lia|assumption|assumption]. }
      destruct ka; cbn [rel_walk] in Rab.
      * destruct (anc_follow _ _ _ c T Hbc1 kb sb eq_refl Rab) as [kc [sc [E W]]]. rewrite E. exact W.
      * destruct kb; try discriminate. cbn [rel_walk] in Rbc.
        destruct (s_rel c) as [[kc sc]|] eqn:Ec; [|discriminate]. destruct kc; try discriminate.
        cbn [rel_walk]. apply (IHs s sb sc); [|assumption|assumption].
        destruct c as [relc cc]; cbn [s_rel sel_size] in *. subst relc. lia.
      * destruct (sib_follow _ _ _ c T Hbc1 kb sb eq_refl Rab) as [kc [sc [E W]]]. rewrite E. exact W.
      * destruct kb; try discriminate. cbn [rel_walk] in Rbc.
        destruct (s_rel c) as [[kc sc]|] eqn:Ec; [|discriminate]. destruct kc; try discriminate.
        cbn [rel_walk]. apply (IHs s sb sc); [|assumption|assumption].
        destruct c as [relc cc]; cbn [s_rel sel_size] in *. subst relc. lia.
    + (* compound selectors *)
      intros a b c H. apply sup_comp_trans_gen. intros p q r Hp Hq Hr. apply IHp.
      destruct a as [ba psa], b as [bb psb], c as [bc psc]. cbn [comp_size c_ps] in *.
      pose proof (lsum_in pseudo_size p psa Hp). pose proof (lsum_in pseudo_size q psb Hq).
      pose proof (lsum_in pseudo_size r psc Hr). lia.
    + (* pseudos *)
      intros [n1 e1 a1] [n2 e2 a2] [n3 e3 a3] H Hab Hbc. cbn [pseudo_size] in H.
      apply sup_pseudo_shape in Hab as [E1 [N1 A1]]. apply sup_pseudo_shape in Hbc as [E2 [N2 A2]].
      cbn [p_name p_arg] in *. unfold p_is_element in *. cbn [p_el p_name] in *. subst n2 n3.
      cbn [sup_pseudo p_name p_arg]. unfold p_is_element. cbn [p_el p_name].
      rewrite E1, E2, eqb_reflx, text_eqb_refl. cbn [negb orb].
      destruct (name_in n1 [str "not"]).
      * rewrite sub_arg_swapped in A1, A2 |- *. apply (IHa a3 a2 a1); [lia|assumption|assumption].
      * destruct (name_in n1 [str "current"]).
        -- apply arg_eqb_true in A1, A2. subst. apply refl_all.
        -- apply (IHa a1 a2 a3); [lia|assumption|assumption].
    + (* arguments *)
      intros [la|ta|] [lb|tb|] [lc|tc|] H Hab Hbc; cbn [sup_arg] in *; try discriminate; try reflexivity.
      * cbn [arg_size] in H. apply forallb_forall. intros z Hz. rewrite forallb_forall in Hab, Hbc.
        specialize (Hbc z Hz). apply existsb_exists in Hbc as [y [Hy Hyz]].
        specialize (Hab y Hy). apply existsb_exists in Hab as [x [Hx Hxy]].
        apply existsb_exists. exists x. split; [exact Hx|]. apply (IHs x y z); [|assumption|assumption].
        pose proof (lsum_in sel_size x la Hx). pose proof (lsum_in sel_size y lb Hy). pose proof (lsum_in sel_size z lc Hz). lia.
      * apply text_eqb_eq in Hab, Hbc. subst. apply text_eqb_refl.
Qed.

Theorem sup_sel_trans a b c : sup_sel a b = true -> sup_sel b c = true -> sup_sel a c = true.
Proof. apply (proj1 (trans_all (sel_size a + sel_size b + sel_size c))). lia. Qed.

Theorem sup_sels_trans la lb lc : sup_sels la lb = true -> sup_sels lb lc = true -> sup_sels la lc = true.
Proof. apply sup_sels_trans_lift. intros x y z _ _ _. apply sup_sel_trans. Qed.

Theorem sup_comp_trans a b c : sup_comp a b = true -> sup_comp b c = true -> sup_comp a c = true.
Proof. apply (proj1 (proj2 (trans_all (comp_size a + comp_size b + comp_size c)))). lia. Qed.
