From Coq Require Import String List ZArith NArith Bool Lia.
From RV Require Import Base.ListX Gen.PanicSites Model.PanicLedger Model.Indent Run.C01.
Import ListNotations.
Local Open Scope string_scope.

Definition site := (string * string * string * string * N)%type.
Definition site_eqb (a b : site) : bool :=
  let '(f1, g1, k1, l1, n1) := a in
  let '(f2, g2, k2, l2, n2) := b in
  String.eqb f1 f2 && String.eqb g1 g2 && String.eqb k1 k2 && String.eqb l1 l2 && (n1 =? n2)%N.

Definition classified (s : site) : bool := existsb (fun e => site_eqb s (fst e)) ledger.

Lemma ledger_complete : forallb classified panic_sites = true.
Proof. vm_compute. reflexivity. Qed.

Lemma every_site_classified : forall s, In s panic_sites -> classified s = true.
Proof. exact (sweep1 panic_sites classified ledger_complete). Qed.

(* get_indent: inside the static string it never panics; beyond it it does (finding F1) *)
Lemma indent_shape : get_indent_shape_ok = true /\ indent_is_nl_spaces = true.
Proof. vm_compute. split; reflexivity. Qed.

Lemma indent_safe : forall c len, (len < indent_static_len)%N -> get_indent c len <> IndentPanic.
Proof.
  intros c len H. unfold get_indent. destruct c; [discriminate|].
  apply N.ltb_lt in H. rewrite H. discriminate.
Qed.

Lemma indent_compressed_safe : forall len, get_indent true len = IndentOk 0.
Proof. reflexivity. Qed.

Lemma indent_refuted : exists len, get_indent false len = IndentPanic.
Proof. exists indent_static_len. unfold get_indent. rewrite N.ltb_irrefl. reflexivity. Qed.

(* nesting depth d never panics while 2d+2 < |INDENT| *)
Lemma nesting_safe : forall c d, (2 * d + 2 < indent_static_len)%N ->
  model_outcome (mkCase 1 c d 0) = Some 0%Z.
Proof.
  intros c d H. unfold model_outcome. cbn [c_family c_compressed c_depth Z.eqb].
  unfold indent_of_depth, get_indent. destruct c; [reflexivity|].
  apply N.ltb_lt in H. rewrite H. reflexivity.
Qed.
