From Coq Require Import String List ZArith NArith Bool Lia.
From RV Require Import Base.ListX Gen.PanicSites Model.PanicLedger Model.Indent Run.C01.
Import ListNotations.
Local Open Scope string_scope.

Definition site := (string * string * string * string * N)%type.
Definition site_eqb (a b : site) : bool :=
  let '(f1, g1, k1, l1, n1) := a in
  let '(f2, g2, k2, l2, n2) := b in
  String.eqb f1 f2 && String.eqb g1 g2 && String.eqb k1 k2 && String.eqb l1 l2 && (n1 =? n2)%N.

Definition classified (s : site) : bool := existsb (fun e => site_eqb s (fst e)) ledger.

Lemma ledger_complete : forallb classified panic_sites = true.
Proof. vm_compute. reflexivity. Qed.

Lemma every_site_classified : forall s, In s panic_sites -> classified s = true.
Proof. exact (sweep1 panic_sites classified ledger_complete). Qed.

(* get_indent: inside the static string it never panics; beyond it it does (finding F1) *)
Lemma indent_shape : get_indent_shape_ok = true /\ indent_is_nl_spaces = true.
Proof. vm_compute. split; reflexivity. Qed.

Lemma indent_nonempty : (indent_static_len =? 0)%N = false.
Proof. vm_compute. reflexivity. Qed.

(* since the fix the slice end is capped: get_indent never panics, for every length *)
Lemma indent_safe : forall c len, get_indent c len <> IndentPanic.
Proof.
  intros c len. unfold get_indent. destruct c; [discriminate|].
  rewrite indent_nonempty. discriminate.
Qed.

Lemma min_pred_le : forall s len : N, s <> 0%N -> (N.min len (s - 1) + 1 <= s)%N.
Proof. intros s len Hs. pose proof (N.le_min_r len (s - 1)). lia. Qed.

Lemma indent_bounded : forall c len n, get_indent c len = IndentOk n -> (n <= indent_static_len)%N.
Proof.
  intros c len n. unfold get_indent. destruct c.
  - intros H. inversion H. apply N.le_0_l.
  - rewrite indent_nonempty. intros H.
    assert (E : n = (N.min len (indent_static_len - 1) + 1)%N) by congruence.
    rewrite E. apply min_pred_le. apply N.eqb_neq. exact indent_nonempty.
Qed.

Lemma indent_exact_inside : forall len, (len < indent_static_len)%N -> get_indent false len = IndentOk (len + 1).
Proof.
  intros len H. unfold get_indent. rewrite indent_nonempty.
  rewrite N.min_l by lia. reflexivity.
Qed.

(* nesting never panics, at any depth *)
Lemma nesting_safe : forall c d, model_outcome (mkCase 1 c d 0) = Some 0%Z.
Proof.
  intros c d. unfold model_outcome. cbn [c_family c_compressed c_depth Z.eqb].
  unfold get_indent. destruct c; [reflexivity|]. rewrite indent_nonempty. reflexivity.
Qed.
