(* Proofs for C39: in the model no loader failure is ever absorbed: whatever the loader (an arbitrary
   oracle of the call history) and the files, a result other than a loader/read/format error implies
   that every loader call was answered without failure and every file handed out was readable; and a
   loader error is reported at the very call that failed. *)
From Coq Require Import String List Bool Arith Ascii NArith ZArith Lia.
From RV Require Import Base.ListX Gen.Candidates Gen.LoaderSites Model.Load Model.LoadRun.
Import ListNotations.
Local Open Scope string_scope.
Local Open Scope list_scope.

(* ---------- the inventory of call sites ---------- *)
Definition propagates (s : string * nat * string * string * propagation) : bool :=
  match snd s with PQuestion | PTail | PBound _ => true | POther => false end.

Definition callee_of (s : string * nat * string * string * propagation) : string := snd (fst s).

Definition required_callees : list string :=
  ["Loader::find_file"; "do_find_file"; "Context::find_file"; "SourceFile::read"; "SourceFile::parse";
   "load_module"; "read_to_end"; "handle_parsed"; "handle_body"; "handle_item"].

Definition sites_ok : bool :=
  forallb propagates loader_sites
  && forallb (fun c => existsb (fun s => String.eqb (callee_of s) c) loader_sites) required_callees.

Lemma sites_ok_true : sites_ok = true.
Proof. vm_compute. reflexivity. Qed.

Lemma every_site_propagates : forall s, In s loader_sites -> propagates s = true.
Proof.
  apply sweep1. pose proof sites_ok_true as H. unfold sites_ok in H. apply andb_prop in H as [H _]. exact H.
Qed.

(* ---------- the model ---------- *)
Section Absorb.
Variable orc : oracle.                 (* ANY loader, failing whenever it likes *)
Variable content : string -> body.

Definition good_answer (a : answer) : Prop :=
  match a with AFound _ true => True | AMissing => True | _ => False end.

(* every call of the log (latest first) was answered without failure *)
Fixpoint all_good (calls_rev : list string) : Prop :=
  match calls_rev with
  | [] => True
  | u :: pre => good_answer (orc pre u) /\ all_good pre
  end.

Definition fault_err (e : err) : bool :=
  match e with ELoaderFail | EReadFail | EUnknownFormat => true | _ => false end.

(* what a result must satisfy *)
Definition post (r : res) : Prop :=
  match r with
  | ROk s => all_good (calls s)
  | RErr ELoaderFail s => exists u pre, calls s = u :: pre /\ orc pre u = AFail /\ all_good pre
  | RErr EReadFail s => exists u pre id, calls s = u :: pre /\ orc pre u = AFound id false /\ all_good pre
  | RErr EUnknownFormat s => True
  | RErr _ s => all_good (calls s)
  | RFuel => True
  end.

Lemma try_names_post s names :
  all_good (calls s) ->
  match try_names orc s names with
  | FFound p id rd s' => calls s' = p :: tl (calls s') /\ orc (tl (calls s')) p = AFound id rd /\ all_good (tl (calls s'))
  | FNone s' => all_good (calls s')
  | FFail s' => exists u pre, calls s' = u :: pre /\ orc pre u = AFail /\ all_good pre
  end.
Proof.
  revert s. induction names as [|a r IH]; intros s G; cbn [try_names]; [exact G|].
  destruct (orc (calls s) a) as [id rd| |] eqn:E.
  - cbn. auto.
  - apply IH. cbn. rewrite E. split; [exact I|exact G].
  - exists a, (calls s). cbn. auto.
Qed.

Lemma find_file_post cur k u s :
  all_good (calls s) ->
  match find_file orc cur k u s with
  | LFile _ _ s' => all_good (calls s')
  | LNone s' => all_good (calls s')
  | LErr e s' => post (RErr e s')
  end.
Proof.
  intros G. unfold find_file. pose proof (try_names_post s (find_names cur k u) G) as T.
  destruct (try_names orc s _) as [p id rd s1|s1|s1]; [|exact T|exact T].
  destruct T as (C & A & G1).
  destruct (negb (known_format p)); [exact I|].
  destruct rd; cbn [negb].
  - assert (G2 : all_good (calls s1)) by (rewrite C; cbn [all_good]; rewrite A; split; [exact I|exact G1]).
    destruct (mem p (loading s1)); cbn; exact G2.
  - cbn. exists p, (tl (calls s1)), id. auto.
Qed.

Definition spec_load (loadf : bool -> string -> kind -> string -> state -> res) : Prop :=
  forall unq cur k u s, all_good (calls s) -> post (loadf unq cur k u s).

Lemma exec_body_post loadf : spec_load loadf ->
  forall b cur s, all_good (calls s) -> post (exec_body loadf cur b s).
Proof.
  intros HL b. induction b as [|d r IH]; intros cur s G; cbn [exec_body]; [exact G|].
  destruct d as [k u|x|m].
  - pose proof (HL false cur k u s G) as P. destruct (loadf false cur k u s); auto.
  - pose proof (HL true cur KImport x s G) as P. destruct (loadf true cur KImport x s); auto.
  - apply IH. exact G.
Qed.

Lemma post_ok_map (r : res) (f : state -> state) :
  (forall s, calls (f s) = calls s) -> post r -> post (match r with ROk s => ROk (f s) | e => e end).
Proof. intros Hf. destruct r; cbn; auto. rewrite Hf. auto. Qed.

Lemma load_post fuel : spec_load (load orc content fuel).
Proof.
  induction fuel as [|f IH]; intros unq cur k u s G; cbn [load]; [exact I|].
  pose proof (find_file_post cur k u s G) as F.
  destruct (find_file orc cur k u s) as [p id s1|s1|e s1]; [| |exact F].
  - assert (B : forall kk s0, calls s0 = calls s1 -> post (exec_file content (load orc content f) kk p id s0)).
    { intros kk s0 E. unfold exec_file.
      pose proof (exec_body_post _ IH (content id) p (note (EvBody kk p id) s0)) as P.
      cbn [calls note] in P. rewrite E in P. specialize (P F).
      destruct (exec_body _ p (content id) _); cbn in P |- *; exact P. }
    destruct k.
    + pose proof (B KImport (set_cache [] s1) eq_refl) as P.
      destruct (exec_file _ _ KImport p id _); cbn in P |- *; exact P.
    + destruct (mem p (cache s1)); [exact F|].
      pose proof (B KUse s1 eq_refl) as P.
      destruct (exec_file _ _ KUse p id _); cbn in P |- *; exact P.
    + destruct (mem p (cache s1)); [exact F|].
      pose proof (B KForward s1 eq_refl) as P.
      destruct (exec_file _ _ KForward p id _); cbn in P |- *; exact P.
    + pose proof (B KLoadCss s1 eq_refl) as P.
      destruct (exec_file _ _ KLoadCss p id _); cbn in P |- *; exact P.
  - destruct (is_import k && plain_css u unq); cbn; exact F.
Qed.

Theorem run_post fuel root rootid : post (run orc content fuel root rootid).
Proof.
  unfold run, exec_file.
  pose proof (exec_body_post _ (load_post fuel) (content rootid) root
                (note (EvBody KImport root rootid) (st0 root)) I) as P.
  destruct (exec_body _ root (content rootid) _); cbn in P |- *; exact P.
Qed.

(* css comes out only if no loader call failed and every file handed out was readable *)
Theorem ok_means_no_failure fuel root rootid s :
  run orc content fuel root rootid = ROk s -> all_good (calls s).
Proof. intros H. pose proof (run_post fuel root rootid) as P. rewrite H in P. exact P. Qed.

(* a failure is not turned into another kind of error either *)
Theorem other_error_means_no_failure fuel root rootid e s :
  run orc content fuel root rootid = RErr e s -> fault_err e = false -> all_good (calls s).
Proof.
  intros H He. pose proof (run_post fuel root rootid) as P. rewrite H in P.
  destruct e; cbn in He; try discriminate; exact P.
Qed.

(* a loader error is reported at the call that failed: it is the last call made *)
Theorem loader_error_is_last_call fuel root rootid s :
  run orc content fuel root rootid = RErr ELoaderFail s ->
  exists u pre, calls s = u :: pre /\ orc pre u = AFail /\ all_good pre.
Proof. intros H. pose proof (run_post fuel root rootid) as P. rewrite H in P. exact P. Qed.

Theorem read_error_is_last_call fuel root rootid s :
  run orc content fuel root rootid = RErr EReadFail s ->
  exists u pre id, calls s = u :: pre /\ orc pre u = AFound id false /\ all_good pre.
Proof. intros H. pose proof (run_post fuel root rootid) as P. rewrite H in P. exact P. Qed.

(* hence: if some call failed, the result is an error (or the run did not finish) *)
Theorem failure_is_reported fuel root rootid :
  match run orc content fuel root rootid with
  | ROk s => forall post_ u pre, calls s = post_ ++ u :: pre -> good_answer (orc pre u)
  | _ => True
  end.
Proof.
  pose proof (run_post fuel root rootid) as P. destruct (run orc content fuel root rootid) as [s| |]; auto.
  cbn in P. revert P. generalize (calls s). intros l. induction l as [|x r IH]; intros G post_ u pre E.
  - destruct post_; discriminate.
  - destruct G as [G1 G2]. destruct post_ as [|y q]; cbn in E; inversion E; subst; auto.
    eapply IH; eauto.
Qed.

End Absorb.
