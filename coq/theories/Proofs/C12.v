(* Proofs for C12 (equality and ordering of values). *)
From Coq Require Import String List ZArith Bool NArith Lia.
From Flocq Require Import IEEE754.Binary IEEE754.Bits.
From RV Require Import Base.F64 Base.Text Model.Units Model.Numeric Model.ValueEq.
Import ListNotations.
Local Open Scope Z_scope.

(* ---- induction principle for the nested type ---- *)
Section ValueInd.
  Variable P : value -> Prop.
  Hypothesis HNull : P VNull.
  Hypothesis HTrue : P VTrue.
  Hypothesis HFalse : P VFalse.
  Hypothesis HNum : forall n c, P (VNum n c).
  Hypothesis HStr : forall s q, P (VStr s q).
  Hypothesis HList : forall xs s b, Forall P xs -> P (VList xs s b).
  Hypothesis HMap : forall ks vs, Forall P ks -> Forall P vs -> P (VMap ks vs).
  Hypothesis HOther : P VOther.
  Fixpoint value_ind' (v : value) : P v :=
    match v with
    | VNull => HNull | VTrue => HTrue | VFalse => HFalse
    | VNum n c => HNum n c
    | VStr s q => HStr s q
    | VList xs s b =>
        HList xs s b ((fix go (l : list value) : Forall P l :=
                         match l with [] => Forall_nil P | x :: r => Forall_cons x (value_ind' x) (go r) end) xs)
    | VMap ks vs =>
        HMap ks vs
          ((fix go (l : list value) : Forall P l :=
              match l with [] => Forall_nil P | x :: r => Forall_cons x (value_ind' x) (go r) end) ks)
          ((fix go (l : list value) : Forall P l :=
              match l with [] => Forall_nil P | x :: r => Forall_cons x (value_ind' x) (go r) end) vs)
    | VOther => HOther
    end.
End ValueInd.

(* ---- veq through all2 ---- *)
Lemma go_all2 : forall xs ys,
  (fix go (xs ys : list value) : bool :=
     match xs, ys with
     | [], [] => true
     | x :: xs', y :: ys' => veq x y && go xs' ys'
     | _, _ => false
     end) xs ys = all2 value veq xs ys.
Proof. induction xs; destruct ys; cbn [all2]; reflexivity. Qed.

Lemma veq_list : forall xs s b ys s' b',
  veq (VList xs s b) (VList ys s' b') = all2 value veq xs ys && (s =? s') && Bool.eqb b b'.
Proof. intros. cbn [veq]. rewrite go_all2. reflexivity. Qed.
Lemma veq_map : forall ks vs ks' vs',
  veq (VMap ks vs) (VMap ks' vs') = all2 value veq ks ks' && all2 value veq vs vs'.
Proof. intros. cbn [veq]. rewrite !go_all2. reflexivity. Qed.

(* ---- `!=` ---- *)
Lemma neq_is_negation : forall a b, vneq a b = negb (veq a b).
Proof. reflexivity. Qed.

(* ---- floats ---- *)
Lemma fcmp_refl : forall v, f_is_nan v = false -> fcmp v v = Some Eq.
Proof.
  intros v H. destruct v as [s|s|s pl Hp|s m e Hb]; try discriminate.
  - reflexivity.
  - destruct s; reflexivity.
  - unfold fcmp, b64_compare, Bcompare. cbn.
    rewrite Z.compare_refl. rewrite Pos.compare_cont_refl. destruct s; reflexivity.
Qed.

Lemma fcmp_eq_sym : forall a b, fcmp a b = Some Eq -> fcmp b a = Some Eq.
Proof.
  intros a b H. unfold fcmp, b64_compare in *. rewrite Bcompare_swap, H. reflexivity.
Qed.
Lemma fcmp_eq_sym_iff : forall a b,
  match fcmp a b with Some Eq => true | _ => false end = match fcmp b a with Some Eq => true | _ => false end.
Proof.
  intros a b. unfold fcmp, b64_compare. rewrite (Bcompare_swap _ _ a b).
  destruct (Bcompare 53 1024 a b) as [[| |]|]; reflexivity.
Qed.

(* Number: every non-NaN number compares Equal with itself (through the partial_cmp fallback
   for 0 and the infinities, where |a-a|/|a| is NaN) *)
Lemma number_cmp_refl : forall v, f_is_nan v = false -> number_cmp v v = Some Eq.
Proof. intros v H. unfold number_cmp. destruct (number_eq v v); [reflexivity|apply fcmp_refl; exact H]. Qed.

Lemma unit_eqb_refl : forall u, unit_eqb u u = true.
Proof. destruct u; cbn; apply String.eqb_refl. Qed.
Lemma us_eqb_refl : forall s, us_eqb s s = true.
Proof.
  induction s as [|[u p] s IH]; [reflexivity|].
  cbn [us_eqb]. rewrite unit_eqb_refl, Z.eqb_refl, IH. reflexivity.
Qed.
Lemma unit_eqb_sym : forall u v, unit_eqb u v = unit_eqb v u.
Proof. destruct u, v; cbn; try reflexivity; apply String.eqb_sym. Qed.
Lemma us_eqb_sym : forall s t, us_eqb s t = us_eqb t s.
Proof.
  induction s as [|[u p] s IH]; destruct t as [|[v q] t]; try reflexivity.
  cbn [us_eqb]. rewrite unit_eqb_sym, Z.eqb_sym, IH. reflexivity.
Qed.

Lemma num_eqb_refl : forall n, f_is_nan (nval n) = false -> num_eqb n n = true.
Proof.
  intros n H. unfold num_eqb, numeric_eq, numeric_cmp. rewrite us_eqb_refl.
  rewrite (number_cmp_refl _ H). reflexivity.
Qed.

(* ---- reflexivity ---- *)
Lemma all2_refl : forall xs, Forall (fun v => veq v v = true) xs -> all2 value veq xs xs = true.
Proof. induction 1; cbn [all2]; [reflexivity|]. rewrite H, IHForall. reflexivity. Qed.

Lemma forallb_app_true {A} (f : A -> bool) l1 l2 :
  forallb f (l1 ++ l2) = true -> forallb f l1 = true /\ forallb f l2 = true.
Proof. rewrite forallb_app. intros H. apply andb_true_iff in H. exact H. Qed.

Lemma nan_free_flat : forall xs,
  forallb (fun n => negb (f_is_nan (nval n))) (flat_map numbers_of xs) = true ->
  Forall (fun v => nan_free v = true) xs.
Proof.
  induction xs; intros H; [constructor|]. cbn [flat_map] in H.
  apply forallb_app_true in H. destruct H as [H1 H2]. constructor; [exact H1|apply IHxs; exact H2].
Qed.
Lemma no_other_list : forall xs, existsb has_other xs = false -> Forall (fun v => has_other v = false) xs.
Proof.
  induction xs; intros H; [constructor|]. cbn [existsb] in H. apply orb_false_iff in H.
  destruct H. constructor; auto.
Qed.

Lemma Forall_impl3 : forall (P Q R S : value -> Prop) xs,
  Forall (fun v => P v -> Q v -> R v) xs -> Forall P xs -> Forall Q xs -> Forall R xs.
Proof.
  induction xs; intros H1 H2 H3; [constructor|].
  inversion H1; inversion H2; inversion H3; subst. constructor; auto.
Qed.

Lemma veq_refl : forall v, has_other v = false -> nan_free v = true -> veq v v = true.
Proof.
  induction v using value_ind'; intros Ho Hn; try reflexivity.
  - cbn [veq]. apply num_eqb_refl. unfold nan_free in Hn. cbn in Hn.
    rewrite andb_true_r in Hn. apply negb_true_iff in Hn. exact Hn.
  - cbn [veq]. clear. induction s; [reflexivity|]. cbn [bytes_eqb]. rewrite N.eqb_refl. exact IHs.
  - rewrite veq_list, Z.eqb_refl, eqb_reflx, !andb_true_r.
    apply all2_refl. cbn [has_other] in Ho. unfold nan_free in Hn. cbn [numbers_of] in Hn.
    apply (Forall_impl3 _ _ _ (fun _ => True) xs H (no_other_list _ Ho) (nan_free_flat _ Hn)).
  - rewrite veq_map. cbn [has_other] in Ho. apply orb_false_iff in Ho. destruct Ho as [Ho1 Ho2].
    unfold nan_free in Hn. cbn [numbers_of] in Hn. apply forallb_app_true in Hn. destruct Hn as [Hn1 Hn2].
    rewrite (all2_refl ks), (all2_refl vs); [reflexivity| |].
    + apply (Forall_impl3 _ _ _ (fun _ => True) vs H0 (no_other_list _ Ho2) (nan_free_flat _ Hn2)).
    + apply (Forall_impl3 _ _ _ (fun _ => True) ks H (no_other_list _ Ho1) (nan_free_flat _ Hn1)).
  - discriminate.
Qed.

(* ---- symmetry ---- *)
Definition pairs_sym (a b : value) : Prop :=
  forall x y, In x (numbers_of a) -> In y (numbers_of b) -> num_eqb x y = num_eqb y x.

Lemma booleqb_sym : forall x y : bool, Bool.eqb x y = Bool.eqb y x.
Proof. destruct x, y; reflexivity. Qed.
Lemma bytes_eqb_sym : forall s t, bytes_eqb s t = bytes_eqb t s.
Proof. induction s; destruct t; try reflexivity. cbn [bytes_eqb]. rewrite N.eqb_sym, IHs. reflexivity. Qed.

Lemma all2_sym : forall xs ys,
  Forall (fun x => forall y, (forall n m, In n (numbers_of x) -> In m (numbers_of y) -> num_eqb n m = num_eqb m n) ->
                             veq x y = veq y x) xs ->
  (forall n m, In n (flat_map numbers_of xs) -> In m (flat_map numbers_of ys) -> num_eqb n m = num_eqb m n) ->
  all2 value veq xs ys = all2 value veq ys xs.
Proof.
  induction xs; intros ys HF HP; destruct ys; try reflexivity.
  inversion HF; subst. cbn [all2]. rewrite (H1 v).
  - rewrite IHxs; [reflexivity|assumption|].
    intros n m Hn Hm. apply HP; cbn [flat_map]; apply in_or_app; right; assumption.
  - intros n m Hn Hm. apply HP; cbn [flat_map]; apply in_or_app; left; assumption.
Qed.

Lemma veq_sym : forall a b, pairs_sym a b -> veq a b = veq b a.
Proof.
  unfold pairs_sym.
  induction a using value_ind'; intros vb HP;
    destruct vb as [| | |m cm|t qt|ys s' b'|ks' vs'|]; try reflexivity.
  - cbn [veq]. apply HP; cbn; auto.
  - cbn [veq]. apply bytes_eqb_sym.
  - rewrite !veq_list. rewrite (Z.eqb_sym s), (booleqb_sym b). f_equal. f_equal.
    apply all2_sym; [exact H|]. intros n0 m0 Hn Hm. apply HP; cbn [numbers_of]; assumption.
  - cbn [veq]. destruct xs, ks'; reflexivity.
  - cbn [veq]. destruct ks, ys; reflexivity.
  - rewrite !veq_map. f_equal.
    + apply all2_sym; [exact H|]. intros n0 m0 Hn Hm.
      apply HP; cbn [numbers_of]; apply in_or_app; left; assumption.
    + apply all2_sym; [exact H0|]. intros n0 m0 Hn Hm.
      apply HP; cbn [numbers_of]; apply in_or_app; right; assumption.
Qed.

(* where the asymmetry of numbers can come from: same unit set -> only Number::eq;
   exactly one unitless -> never equal in either direction *)
Lemma numeric_eq_sym_same_unit : forall a b, us_eqb (nunit a) (nunit b) = true ->
  number_eq (nval a) (nval b) = number_eq (nval b) (nval a) -> num_eqb a b = num_eqb b a.
Proof.
  intros a b Hu Hn. unfold num_eqb, numeric_eq, numeric_cmp.
  rewrite (us_eqb_sym (nunit b)), Hu. unfold number_cmp. rewrite Hn.
  destruct (number_eq (nval b) (nval a)); [reflexivity|].
  pose proof (fcmp_eq_sym_iff (nval a) (nval b)) as E.
  destruct (fcmp (nval a) (nval b)) as [[| |]|], (fcmp (nval b) (nval a)) as [[| |]|]; try reflexivity; discriminate.
Qed.
Lemma numeric_eq_unitless_vs_unit : forall a b, us_eqb (nunit a) (nunit b) = false ->
  num_is_no_unit a || num_is_no_unit b = true -> num_eqb a b = false /\ num_eqb b a = false.
Proof.
  intros a b Hu Hn. unfold num_eqb, numeric_eq, numeric_cmp.
  rewrite (us_eqb_sym (nunit b)), Hu, (orb_comm (num_is_no_unit b)), Hn.
  split; [destruct (number_cmp (nval a) (nval b)) as [[| |]|]|destruct (number_cmp (nval b) (nval a)) as [[| |]|]]; reflexivity.
Qed.

Definition one : numeric := mkNum (of_bits 4607182418800017408) [].
Definition below_one : numeric := mkNum (of_bits 4607182418800017406) [].   (* 0.9999999999999998 *)
Lemma refuted_sym : veq (VNum one true) (VNum below_one true) = true /\ veq (VNum below_one true) (VNum one true) = false.
Proof. vm_compute. split; reflexivity. Qed.

(* ---- trichotomy ---- *)
Definition b2n (o : option bool) : Z := match o with Some true => 1 | _ => 0 end.
Definition count3 (a b : value) : Z := b2n (vlt a b) + (if veq a b then 1 else 0) + b2n (vgt a b).

Lemma trichotomy : forall x y c o, numeric_cmp x y = Some (Some o) -> count3 (VNum x c) (VNum y c) = 1.
Proof.
  intros x y c o H. unfold count3, vlt, vgt, vnum_cmp. cbn [veq]. unfold num_eqb, numeric_eq. rewrite H.
  destruct o, c; reflexivity.
Qed.

Definition one_px : numeric := mkNum (of_bits 4607182418800017408) (us_of_unit (UK "Px")).
Lemma refuted_trichotomy_calc : count3 (VNum one false) (VNum one true) = 2.
Proof. vm_compute. reflexivity. Qed.
Lemma refuted_trichotomy_unitless : count3 (VNum one_px true) (VNum one true) = 0.
Proof. vm_compute. reflexivity. Qed.
