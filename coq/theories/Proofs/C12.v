(* Proofs for C12 (equality and ordering of values). *)
From Coq Require Import String List ZArith Bool NArith Lia Reals Lra.
From Flocq Require Import Core.Core IEEE754.BinarySingleNaN IEEE754.Binary IEEE754.Bits.
From RV Require Import Base.F64 Base.Text Base.ListX Model.Units Model.Numeric Model.CssStr Model.ValueEq.
Import ListNotations.
Local Open Scope Z_scope.

(* ---- Number::eq is symmetric (fix 5445670): all pairs of doubles ---- *)
Definition nan_eqv (x y : f64) : Prop := x = y \/ (f_is_nan x = true /\ f_is_nan y = true).

Lemma fabs_fsub_finite : forall a b, f_is_finite a = true -> f_is_finite b = true ->
  fabs (fsub a b) = fabs (fsub b a).
Proof.
  intros a b Ha Hb. unfold fabs, fsub, b64_abs, b64_minus, f_is_finite in *.
  match goal with |- context [Bminus 53 1024 ?p ?q _ _ a b] =>
    pose proof (Bminus_correct 53 1024 p q binop_nan_pl64 mode_NE a b Ha Hb) as H1;
    pose proof (Bminus_correct 53 1024 p q binop_nan_pl64 mode_NE b a Hb Ha) as H2;
    set (x := Bminus 53 1024 p q binop_nan_pl64 mode_NE a b) in *;
    set (y := Bminus 53 1024 p q binop_nan_pl64 mode_NE b a) in *
  end.
  replace (B2R 53 1024 b - B2R 53 1024 a)%R with (- (B2R 53 1024 a - B2R 53 1024 b))%R in H2 by ring.
  cbn [round_mode] in H1, H2.
  rewrite round_NE_opp, Rabs_Ropp in H2.
  destruct (Rlt_bool _ _).
  - destruct H1 as [R1 [F1 _]]. destruct H2 as [R2 [F2 _]].
    apply B2R_Bsign_inj.
    + rewrite is_finite_Babs. exact F1.
    + rewrite is_finite_Babs. exact F2.
    + rewrite !B2R_Babs, R1, R2, Rabs_Ropp. reflexivity.
    + rewrite !Bsign_Babs; [reflexivity| |].
      * destruct y; try discriminate; reflexivity.
      * destruct x; try discriminate; reflexivity.
  - destruct H1 as [O1 _]. destruct H2 as [O2 _].
    unfold binary_overflow in O1, O2. cbn in O1, O2.
    destruct x; try discriminate; destruct y; try discriminate; reflexivity.
Qed.

Lemma nan_eqv_refl : forall x, nan_eqv x x.
Proof. left; reflexivity. Qed.

Lemma fabs_fsub_sym : forall a b, nan_eqv (fabs (fsub a b)) (fabs (fsub b a)).
Proof.
  intros a b.
  destruct (f_is_finite a) eqn:Ha, (f_is_finite b) eqn:Hb.
  - left. apply fabs_fsub_finite; assumption.
  - destruct a as [sa|sa|sa pa Ea|sa ma ea Ea], b as [sb|sb|sb pb Eb|sb mb eb Eb]; try discriminate;
      try (right; split; reflexivity); try (left; destruct sa, sb; reflexivity); left; destruct sb; reflexivity.
  - destruct a as [sa|sa|sa pa Ea|sa ma ea Ea], b as [sb|sb|sb pb Eb|sb mb eb Eb]; try discriminate;
      try (right; split; reflexivity); try (left; destruct sa, sb; reflexivity); left; destruct sa; reflexivity.
  - destruct a as [sa|sa|sa pa Ea|sa ma ea Ea], b as [sb|sb|sb pb Eb|sb mb eb Eb]; try discriminate;
      try (right; split; reflexivity); destruct sa, sb; try (right; split; reflexivity); left; reflexivity.
Qed.

Lemma fabs_nonneg_cmp_eq : forall x y, f_is_nan x = false -> f_is_nan y = false ->
  fcmp (fabs x) (fabs y) = Some Eq -> fabs x = fabs y.
Proof.
  intros x y Hx Hy H.
  destruct (f_is_finite x) eqn:Fx, (f_is_finite y) eqn:Fy.
  - unfold fcmp, b64_compare, fabs, b64_abs, f_is_finite in *.
    assert (F1 : is_finite 53 1024 (Babs 53 1024 unop_nan_pl64 x) = true) by (rewrite is_finite_Babs; exact Fx).
    assert (F2 : is_finite 53 1024 (Babs 53 1024 unop_nan_pl64 y) = true) by (rewrite is_finite_Babs; exact Fy).
    rewrite (Bcompare_correct 53 1024 _ _ F1 F2) in H. inversion H as [H0].
    apply Rcompare_Eq_inv in H0.
    apply B2R_Bsign_inj; try assumption.
    rewrite !Bsign_Babs; [reflexivity|exact Hy|exact Hx].
  - destruct x as [sa|sa|sa pa Ea|sa ma ea Ea], y as [sb|sb|sb pb Eb|sb mb eb Eb]; try discriminate.
  - destruct x as [sa|sa|sa pa Ea|sa ma ea Ea], y as [sb|sb|sb pb Eb|sb mb eb Eb]; try discriminate.
  - destruct x as [sa|sa|sa pa Ea|sa ma ea Ea], y as [sb|sb|sb pb Eb|sb mb eb Eb]; try discriminate. reflexivity.
Qed.

Lemma is_nan_fabs : forall x, f_is_nan (fabs x) = f_is_nan x.
Proof. destruct x; reflexivity. Qed.

Lemma fmax_fabs_sym : forall a b, nan_eqv (fmax (fabs a) (fabs b)) (fmax (fabs b) (fabs a)).
Proof.
  intros a b. unfold fmax. rewrite !is_nan_fabs.
  destruct (f_is_nan a) eqn:Na, (f_is_nan b) eqn:Nb.
  - right. rewrite !is_nan_fabs. auto.
  - left. reflexivity.
  - left. reflexivity.
  - unfold flt. pose proof (fabs_nonneg_cmp_eq a b Na Nb) as HE.
    assert (SW : fcmp (fabs b) (fabs a) = match fcmp (fabs a) (fabs b) with Some c => Some (CompOpp c) | None => None end)
      by (unfold fcmp, b64_compare; apply Bcompare_swap).
    rewrite SW. destruct (fcmp (fabs a) (fabs b)) as [[| |]|]; cbn [CompOpp]; left; try reflexivity.
    + apply HE. reflexivity.
    + (* incomparable non-NaN values do not exist *)
      exfalso. destruct a as [sa|sa|sa pa Ea|sa ma ea Ea], b as [sb|sb|sb pb Eb|sb mb eb Eb]; try discriminate;
      unfold fcmp, b64_compare, fabs, b64_abs in SW; cbn in SW; discriminate.
Qed.

Lemma fdiv_nan_l : forall x y, f_is_nan x = true -> f_is_nan (fdiv x y) = true.
Proof. intros x y H. destruct x; try discriminate. destruct y; reflexivity. Qed.
Lemma fdiv_nan_r : forall x y, f_is_nan y = true -> f_is_nan (fdiv x y) = true.
Proof. intros x y H. destruct y; try discriminate. destruct x; reflexivity. Qed.

Lemma fdiv_eqv : forall x x' y y', nan_eqv x x' -> nan_eqv y y' -> nan_eqv (fdiv x y) (fdiv x' y').
Proof.
  intros x x' y y' [->|[Hx Hx']] [->|[Hy Hy']].
  - left; reflexivity.
  - right. split; apply fdiv_nan_r; assumption.
  - right. split; apply fdiv_nan_l; assumption.
  - right. split; apply fdiv_nan_l; assumption.
Qed.

Lemma fle_nan_l : forall x e, f_is_nan x = true -> fle x e = false.
Proof. intros x e H. destruct x; try discriminate. reflexivity. Qed.

Lemma fle_eqv : forall x x' e, nan_eqv x x' -> fle x e = fle x' e.
Proof. intros x x' e [->|[H H']]; [reflexivity|]. rewrite !fle_nan_l; auto. Qed.

(* Number::eq is symmetric: every pair of doubles (NaN, infinities, zeros, subnormals included) *)
Theorem number_eq_sym : forall a b, number_eq a b = number_eq b a.
Proof.
  intros a b. unfold number_eq. apply fle_eqv. apply fdiv_eqv; [apply fabs_fsub_sym|apply fmax_fabs_sym].
Qed.

(* ---- induction principle for the nested type ---- *)
Section ValueInd.
  Variable P : value -> Prop.
  Hypothesis HNull : P VNull.
  Hypothesis HTrue : P VTrue.
  Hypothesis HFalse : P VFalse.
  Hypothesis HNum : forall n c, P (VNum n c).
  Hypothesis HStr : forall s, P (VStr s).
  Hypothesis HList : forall xs s b, Forall P xs -> P (VList xs s b).
  Hypothesis HMap : forall kvs, Forall (fun kv => P (fst kv) /\ P (snd kv)) kvs -> P (VMap kvs).
  Hypothesis HOther : P VOther.
  Fixpoint value_ind' (v : value) : P v :=
    match v with
    | VNull => HNull | VTrue => HTrue | VFalse => HFalse
    | VNum n c => HNum n c
    | VStr s => HStr s
    | VList xs s b =>
        HList xs s b ((fix go (l : list value) : Forall P l :=
                         match l with [] => Forall_nil P | x :: r => Forall_cons x (value_ind' x) (go r) end) xs)
    | VMap kvs =>
        HMap kvs
          ((fix go (l : list (value * value)) : Forall (fun kv => P (fst kv) /\ P (snd kv)) l :=
              match l with
              | [] => Forall_nil _
              | (k, v) :: r => Forall_cons (k, v) (conj (value_ind' k) (value_ind' v)) (go r)
              end) kvs)
    | VOther => HOther
    end.
End ValueInd.

(* ---- veq through named list functions ---- *)
Fixpoint map_get (k v : value) (lb : list (value * value)) : bool :=
  match lb with
  | (k', v') :: rb => if veq k k' then veq v v' else map_get k v rb
  | [] => false
  end.
Definition map_all (l lb : list (value * value)) : bool :=
  forallb (fun kv => map_get (fst kv) (snd kv) lb) l.

Lemma go_all2 : forall xs ys,
  (fix go (xs ys : list value) : bool :=
     match xs, ys with
     | [], [] => true
     | x :: xs', y :: ys' => veq x y && go xs' ys'
     | _, _ => false
     end) xs ys = all2 value veq xs ys.
Proof. induction xs; destruct ys; cbn [all2]; reflexivity. Qed.

Lemma veq_list : forall xs s b ys s' b',
  veq (VList xs s b) (VList ys s' b') = all2 value veq xs ys && (s =? s') && Bool.eqb b b'.
Proof. intros. cbn [veq]. rewrite go_all2. reflexivity. Qed.

Lemma map_get_fix : forall k v l',
  (fix get (lb : list (value * value)) : bool :=
     match lb with
     | (k', v') :: rb => if veq k k' then veq v v' else get rb
     | [] => false
     end) l' = map_get k v l'.
Proof. induction l' as [|[k' v'] r' IH']; [reflexivity|]. cbn [map_get]. rewrite <- IH'. reflexivity. Qed.

Lemma veq_map : forall l l',
  veq (VMap l) (VMap l') = Nat.eqb (length l) (length l') && map_all l l'.
Proof.
  intros l l'. cbn [veq]. apply f_equal. unfold map_all.
  induction l as [|[k v] r IH]; [reflexivity|]. cbn [forallb fst snd]. rewrite <- IH, <- map_get_fix. reflexivity.
Qed.

(* ---- `!=` ---- *)
Lemma neq_is_negation : forall a b, vneq a b = negb (veq a b).
Proof. reflexivity. Qed.

(* ---- floats ---- *)
Lemma fcmp_refl : forall v, f_is_nan v = false -> fcmp v v = Some Eq.
Proof.
  intros v H. destruct v as [s|s|s pl Hp|s m e Hb]; try discriminate.
  - reflexivity.
  - destruct s; reflexivity.
  - unfold fcmp, b64_compare, Bcompare. cbn.
    rewrite Z.compare_refl. rewrite Pos.compare_cont_refl. destruct s; reflexivity.
Qed.

Lemma fcmp_eq_sym : forall a b, fcmp a b = Some Eq -> fcmp b a = Some Eq.
Proof.
  intros a b H. unfold fcmp, b64_compare in *. rewrite Bcompare_swap, H. reflexivity.
Qed.
Lemma fcmp_eq_sym_iff : forall a b,
  match fcmp a b with Some Eq => true | _ => false end = match fcmp b a with Some Eq => true | _ => false end.
Proof.
  intros a b. unfold fcmp, b64_compare. rewrite (Bcompare_swap _ _ a b).
  destruct (Bcompare 53 1024 a b) as [[| |]|]; reflexivity.
Qed.

(* Number: every non-NaN number compares Equal with itself (through the partial_cmp fallback
   for 0 and the infinities, where |a-a|/|a| is NaN) *)
Lemma number_cmp_refl : forall v, f_is_nan v = false -> number_cmp v v = Some Eq.
Proof. intros v H. unfold number_cmp. destruct (number_eq v v); [reflexivity|apply fcmp_refl; exact H]. Qed.

Lemma unit_eqb_refl : forall u, unit_eqb u u = true.
Proof. destruct u; cbn; apply String.eqb_refl. Qed.
Lemma us_eqb_refl : forall s, us_eqb s s = true.
Proof.
  induction s as [|[u p] s IH]; [reflexivity|].
  cbn [us_eqb]. rewrite unit_eqb_refl, Z.eqb_refl, IH. reflexivity.
Qed.
Lemma unit_eqb_sym : forall u v, unit_eqb u v = unit_eqb v u.
Proof. destruct u, v; cbn; try reflexivity; apply String.eqb_sym. Qed.
Lemma us_eqb_sym : forall s t, us_eqb s t = us_eqb t s.
Proof.
  induction s as [|[u p] s IH]; destruct t as [|[v q] t]; try reflexivity.
  cbn [us_eqb]. rewrite unit_eqb_sym, Z.eqb_sym, IH. reflexivity.
Qed.

Lemma num_eqb_refl : forall n, f_is_nan (nval n) = false -> num_eqb n n = true.
Proof.
  intros n H. unfold num_eqb, numeric_eq, numeric_cmp. rewrite us_eqb_refl.
  rewrite (number_cmp_refl _ H). reflexivity.
Qed.

(* ---- Numeric equality is symmetric for aligned units ---- *)
Definition aligned (x y : numeric) : bool :=
  us_eqb (nunit x) (nunit y) || num_is_no_unit x || num_is_no_unit y.

Lemma numeric_eq_sym_same_unit : forall a b, us_eqb (nunit a) (nunit b) = true -> num_eqb a b = num_eqb b a.
Proof.
  intros a b Hu. unfold num_eqb, numeric_eq, numeric_cmp.
  rewrite (us_eqb_sym (nunit b)), Hu. unfold number_cmp. rewrite (number_eq_sym (nval b) (nval a)).
  destruct (number_eq (nval a) (nval b)); [reflexivity|].
  pose proof (fcmp_eq_sym_iff (nval a) (nval b)) as E.
  destruct (fcmp (nval a) (nval b)) as [[| |]|], (fcmp (nval b) (nval a)) as [[| |]|]; try reflexivity; discriminate.
Qed.
Lemma numeric_eq_unitless_vs_unit : forall a b, us_eqb (nunit a) (nunit b) = false ->
  num_is_no_unit a || num_is_no_unit b = true -> num_eqb a b = false /\ num_eqb b a = false.
Proof.
  intros a b Hu Hn. unfold num_eqb, numeric_eq, numeric_cmp.
  rewrite (us_eqb_sym (nunit b)), Hu, (orb_comm (num_is_no_unit b)), Hn.
  split; [destruct (number_cmp (nval a) (nval b)) as [[| |]|]|destruct (number_cmp (nval b) (nval a)) as [[| |]|]]; reflexivity.
Qed.
Lemma num_eqb_sym_aligned : forall a b, aligned a b = true -> num_eqb a b = num_eqb b a.
Proof.
  intros a b H. unfold aligned in H. destruct (us_eqb (nunit a) (nunit b)) eqn:E.
  - apply numeric_eq_sym_same_unit. exact E.
  - cbn [orb] in H. destruct (numeric_eq_unitless_vs_unit a b E H) as [-> ->]. reflexivity.
Qed.

(* ---- two different convertible units (fix 14ede20): both orders compare the same two magnitudes ---- *)
Lemma B2R_one : B2R 53 1024 f_one = 1%R.
Proof.
  unfold f_one, of_bits. 
  match goal with |- B2R _ _ ?x = _ => let y := eval vm_compute in x in change x with y end.
  unfold B2R, F2R. cbn [Fnum Fexp cond_Zopp]. simpl bpow. lra.
Qed.

Lemma fmul_one_finite : forall x, f_is_finite x = true -> fmul x f_one = x.
Proof.
  intros x Hx. unfold fmul, b64_mult, f_is_finite in *.
  match goal with |- Bmult 53 1024 ?p ?q _ _ _ _ = _ =>
    pose proof (Bmult_correct 53 1024 p q binop_nan_pl64 mode_NE x f_one) as H;
    set (z := Bmult 53 1024 p q binop_nan_pl64 mode_NE x f_one) in * end.
  rewrite B2R_one, Rmult_1_r in H.
  rewrite round_generic in H; [|apply valid_rnd_round_mode|apply generic_format_B2R].
  rewrite Rlt_bool_true in H by (apply abs_B2R_lt_emax).
  destruct H as [R [F S]].
  apply B2R_Bsign_inj.
  - rewrite F, Hx. reflexivity.
  - exact Hx.
  - exact R.
  - rewrite S.
    + assert (Bsign 53 1024 f_one = false) as -> by reflexivity. apply xorb_false_r.
    + destruct z; try reflexivity. rewrite Hx in F. cbn in F. discriminate F.
Qed.

Lemma fmul_one_eqv : forall x, fmul x f_one = x \/ (f_is_nan (fmul x f_one) = true /\ f_is_nan x = true).
Proof.
  intros x. destruct (f_is_finite x) eqn:F; [left; apply fmul_one_finite; exact F|].
  destruct x; try discriminate; [left; destruct s; reflexivity|right; split; reflexivity].
Qed.

Definition cmp_is_eq (p q : f64) : bool := match number_cmp p q with Some Eq => true | _ => false end.

Lemma cmp_is_eq_sym : forall p q, cmp_is_eq p q = cmp_is_eq q p.
Proof.
  intros p q. unfold cmp_is_eq, number_cmp. rewrite (number_eq_sym q p).
  destruct (number_eq p q); [reflexivity|]. apply fcmp_eq_sym_iff.
Qed.

Lemma fsub_nan_r : forall x y, f_is_nan y = true -> f_is_nan (fsub x y) = true.
Proof. intros x y H. destruct y; try discriminate. destruct x; reflexivity. Qed.
Lemma fcmp_nan_r : forall x y, f_is_nan y = true -> fcmp x y = None.
Proof. intros x y H. destruct y; try discriminate. destruct x; reflexivity. Qed.
Lemma cmp_is_eq_nan_r : forall p q, f_is_nan q = true -> cmp_is_eq p q = false.
Proof.
  intros p q H. unfold cmp_is_eq, number_cmp, number_eq.
  rewrite fle_nan_l; [rewrite (fcmp_nan_r p q H); reflexivity|].
  apply fdiv_nan_l. rewrite is_nan_fabs. apply fsub_nan_r. exact H.
Qed.
Lemma cmp_is_eq_mul_one : forall p q, cmp_is_eq p (fmul q f_one) = cmp_is_eq p q.
Proof.
  intros p q. destruct (fmul_one_eqv q) as [->|[H1 H2]]; [reflexivity|].
  rewrite !cmp_is_eq_nan_r; auto.
Qed.

Definition real_units : list unit := filter (fun u => negb (is_unit_none u)) all_known_units.
Definition is_one (s : f64) : bool := (to_bits s =? to_bits f_one)%Z.
(* for every pair of known units: no conversion either way, or exactly one direction enlarges the magnitude,
   or both factors are exactly 1.0 (vmin / vmax) *)
Definition dir_ok (u v : unit) : bool :=
  unit_eqb u v ||
  match unit_scale_to v u, unit_scale_to u v with
  | Some s, Some t => xorb (fge s f_one) (fge t f_one) || (is_one s && is_one t)
  | None, None => true
  | _, _ => false
  end.
Lemma dir_sweep : forallb (fun u => forallb (dir_ok u) real_units) real_units = true.
Proof. vm_compute. reflexivity. Qed.

Lemma is_one_eq : forall s, is_one s = true -> s = f_one.
Proof.
  intros s H. unfold is_one in H. apply Z.eqb_eq in H. unfold to_bits in H.
  rewrite <- (binary_float_of_bits_of_binary_float 52 11 eq_refl eq_refl eq_refl s).
  rewrite <- (binary_float_of_bits_of_binary_float 52 11 eq_refl eq_refl eq_refl f_one).
  unfold bits_of_b64 in H. rewrite H. reflexivity.
Qed.

Lemma num_eqb_cmp : forall a b, num_eqb a b = match numeric_cmp a b with Some (Some Eq) => true | _ => false end.
Proof. intros. unfold num_eqb, numeric_eq. destruct (numeric_cmp a b) as [[[| |]|]|]; reflexivity. Qed.

Definition not_none (u : unit) : bool := negb (is_unit_none u).
Lemma none_sweep : forallb not_none real_units = true.
Proof. vm_compute. reflexivity. Qed.
Lemma real_unit_not_none : forall u, In u real_units -> is_unit_none u = false.
Proof.
  intros u H. pose proof (sweep1 real_units not_none none_sweep u H) as E.
  unfold not_none in E. apply negb_true_iff in E. exact E.
Qed.

(* Numeric equality of two numbers with single known units is symmetric, convertible or not *)
Lemma num_eqb_sym_units : forall u v x y, In u real_units -> In v real_units ->
  num_eqb (mkNum x (us_of_unit u)) (mkNum y (us_of_unit v)) = num_eqb (mkNum y (us_of_unit v)) (mkNum x (us_of_unit u)).
Proof.
  intros u v x y Hu Hv.
  pose proof (sweep2 real_units real_units dir_ok dir_sweep u v Hu Hv) as D.
  pose proof (real_unit_not_none u Hu) as Nu. pose proof (real_unit_not_none v Hv) as Nv.
  unfold us_of_unit. rewrite Nu, Nv.
  destruct (unit_eqb u v) eqn:E.
  - apply numeric_eq_sym_same_unit. cbn [nunit us_eqb]. rewrite E. reflexivity.
  - unfold dir_ok in D. rewrite E in D. cbn [orb] in D.
    rewrite !num_eqb_cmp. unfold numeric_cmp. cbn [nunit nval us_eqb].
    rewrite (unit_eqb_sym v u), E. cbn [andb].
    unfold num_is_no_unit. cbn [nunit us_is_none forallb fst]. rewrite Nu, Nv. cbn [andb orb].
    cbn [us_scale_to us_scale_to_unit].
    destruct (unit_scale_to v u) as [s|] eqn:S1, (unit_scale_to u v) as [t|] eqn:S2; try discriminate; [|reflexivity].
    fold (cmp_is_eq x (fmul y s)). 
    destruct (fge s f_one) eqn:G1, (fge t f_one) eqn:G2; cbn [xorb orb] in D.
    + (* both factors are exactly one *)
      apply andb_true_iff in D. destruct D as [D1 D2]. apply is_one_eq in D1, D2. subst s t.
      change (cmp_is_eq x (fmul y f_one) = cmp_is_eq y (fmul x f_one)).
      rewrite !cmp_is_eq_mul_one. apply cmp_is_eq_sym.
    + change (cmp_is_eq x (fmul y s) = cmp_is_eq (fmul y s) x). apply cmp_is_eq_sym.
    + change (cmp_is_eq (fmul x t) y = cmp_is_eq y (fmul x t)). apply cmp_is_eq_sym.
    + apply andb_true_iff in D. destruct D as [D1 _]. apply is_one_eq in D1. subst s.
      vm_compute in G1. discriminate G1.
Qed.

(* ---- strings: CssString equality is reflexive and symmetric (all stored values, all quotes) ---- *)
Lemma cps_eqb_refl : forall s, cps_eqb s s = true.
Proof. unfold cps_eqb. induction s; [reflexivity|]. cbn [list_eqb]. rewrite N.eqb_refl. exact IHs. Qed.
Lemma cps_eqb_sym : forall s t, cps_eqb s t = cps_eqb t s.
Proof.
  unfold cps_eqb. induction s; destruct t; try reflexivity. cbn [list_eqb]. rewrite N.eqb_sym, IHs. reflexivity.
Qed.
Lemma quotes_eqb_sym : forall a b, quotes_eqb a b = quotes_eqb b a.
Proof. destruct a, b; reflexivity. Qed.
Lemma str_eqb_refl : forall s, str_eqb s s = true.
Proof.
  intros s. unfold str_eqb, css_eq. assert (quotes_eqb (s_q s) (s_q s) = true) as -> by (destruct (s_q s); reflexivity).
  apply cps_eqb_refl.
Qed.
Lemma str_eqb_sym : forall s t, str_eqb s t = str_eqb t s.
Proof.
  intros s t. unfold str_eqb, css_eq. rewrite (quotes_eqb_sym (s_q t)).
  destruct (quotes_eqb (s_q s) (s_q t)); [apply cps_eqb_sym|].
  destruct (css_unquote s), (css_unquote t); try reflexivity. apply cps_eqb_sym.
Qed.

(* ---- reflexivity ---- *)
Lemma all2_refl : forall xs, Forall (fun v => veq v v = true) xs -> all2 value veq xs xs = true.
Proof. induction 1; cbn [all2]; [reflexivity|]. rewrite H, IHForall. reflexivity. Qed.

(* maps: keys pairwise unequal (what OrderMap::insert maintains), recursively *)
Fixpoint keys_nodup (l : list (value * value)) : bool :=
  match l with
  | [] => true
  | (k, _) :: r => forallb (fun kv => negb (veq k (fst kv)) && negb (veq (fst kv) k)) r && keys_nodup r
  end.
Fixpoint maps_nodup (v : value) : bool :=
  match v with
  | VList xs _ _ => forallb maps_nodup xs
  | VMap kvs => keys_nodup kvs && forallb (fun kv => maps_nodup (fst kv) && maps_nodup (snd kv)) kvs
  | _ => true
  end.

Lemma map_get_skip : forall k v pre post,
  (forall kv', In kv' pre -> veq k (fst kv') = false) -> map_get k v (pre ++ post) = map_get k v post.
Proof.
  induction pre as [|[k' v'] pre IH]; intros post H; [reflexivity|].
  cbn [app map_get]. pose proof (H (k', v') (or_introl eq_refl)) as E. cbn [fst] in E. rewrite E. apply IH.
  intros kv' Hin. apply H. right. exact Hin.
Qed.

Lemma map_all_refl_gen : forall l pre,
  (forall kv' kv, In kv' pre -> In kv l -> veq (fst kv) (fst kv') = false) ->
  keys_nodup l = true ->
  (forall kv, In kv l -> veq (fst kv) (fst kv) = true /\ veq (snd kv) (snd kv) = true) ->
  forallb (fun kv => map_get (fst kv) (snd kv) (pre ++ l)) l = true.
Proof.
  induction l as [|[k v] r IH]; intros pre Hpre Hnd Hrefl; [reflexivity|].
  cbn [forallb fst snd]. cbn [keys_nodup] in Hnd. apply andb_true_iff in Hnd. destruct Hnd as [Hk Hr].
  destruct (Hrefl (k, v) (or_introl eq_refl)) as [Rk Rv]. cbn [fst snd] in Rk, Rv.
  apply andb_true_iff. split.
  - rewrite map_get_skip.
    + cbn [map_get]. rewrite Rk. exact Rv.
    + intros kv' Hin. apply (Hpre kv' (k, v) Hin (or_introl eq_refl)).
  - replace (pre ++ (k, v) :: r)%list with ((pre ++ [(k, v)]) ++ r)%list by (rewrite <- app_assoc; reflexivity).
    apply IH; [|exact Hr|intros kv Hin; apply Hrefl; right; exact Hin].
    intros kv' kv Hin' Hin. apply in_app_or in Hin'. destruct Hin' as [Hin'|[<-|[]]].
    + apply (Hpre kv' kv Hin'). right. exact Hin.
    + cbn [fst]. rewrite forallb_forall in Hk. specialize (Hk kv Hin).
      apply andb_true_iff in Hk. destruct Hk as [_ Hk]. apply negb_true_iff in Hk. exact Hk.
Qed.

Lemma forallb_app_true {A} (f : A -> bool) l1 l2 :
  forallb f (l1 ++ l2) = true -> forallb f l1 = true /\ forallb f l2 = true.
Proof. rewrite forallb_app. intros H. apply andb_true_iff in H. exact H. Qed.

Lemma veq_refl : forall v, has_other v = false -> nan_free v = true -> maps_nodup v = true -> veq v v = true.
Proof.
  induction v using value_ind'; intros Ho Hn Hm; try reflexivity.
  - cbn [veq]. apply num_eqb_refl. unfold nan_free in Hn. cbn in Hn.
    rewrite andb_true_r in Hn. apply negb_true_iff in Hn. exact Hn.
  - cbn [veq]. apply str_eqb_refl.
  - rewrite veq_list, Z.eqb_refl, eqb_reflx, !andb_true_r.
    apply all2_refl. cbn [has_other] in Ho. unfold nan_free in Hn. cbn [numbers_of] in Hn. cbn [maps_nodup] in Hm.
    revert Ho Hn Hm. induction H as [|x xs Hx HF IH]; intros Ho Hn Hm; [constructor|].
    cbn [existsb] in Ho. apply orb_false_iff in Ho. destruct Ho as [Ho1 Ho2].
    cbn [flat_map] in Hn. apply forallb_app_true in Hn. destruct Hn as [Hn1 Hn2].
    cbn [forallb] in Hm. apply andb_true_iff in Hm. destruct Hm as [Hm1 Hm2].
    constructor; [apply Hx; assumption|apply IH; assumption].
  - rewrite veq_map, Nat.eqb_refl. cbn [andb]. unfold map_all.
    cbn [has_other] in Ho. unfold nan_free in Hn. cbn [numbers_of] in Hn. cbn [maps_nodup] in Hm.
    apply andb_true_iff in Hm. destruct Hm as [Hnd Hm].
    apply (map_all_refl_gen kvs [] (fun _ _ F => match F with end) Hnd).
    revert Ho Hn Hm. clear Hnd. induction H as [|[k v] r [Hk Hv] HF IH]; intros Ho Hn Hm kv Hin; [destruct Hin|].
    cbn [existsb fst snd] in Ho. apply orb_false_iff in Ho. destruct Ho as [Ho1 Ho2].
    apply orb_false_iff in Ho1. destruct Ho1 as [Hok Hov].
    cbn [flat_map fst snd] in Hn. apply forallb_app_true in Hn. destruct Hn as [Hn1 Hn2].
    apply forallb_app_true in Hn1. destruct Hn1 as [Hnk Hnv].
    cbn [forallb fst snd] in Hm. apply andb_true_iff in Hm. destruct Hm as [Hm1 Hm2].
    apply andb_true_iff in Hm1. destruct Hm1 as [Hmk Hmv].
    destruct Hin as [<-|Hin].
    + cbn [fst snd]. split; [apply Hk|apply Hv]; assumption.
    + apply (IH Ho2 Hn2 Hm2 kv Hin).
  - discriminate.
Qed.

(* ---- symmetry ---- *)
Definition pairs_sym (a b : value) : Prop :=
  forall x y, In x (numbers_of a) -> In y (numbers_of b) -> num_eqb x y = num_eqb y x.

(* every map has at most one entry (then first-match lookup is a plain comparison) *)
Fixpoint maps_le1 (v : value) : bool :=
  match v with
  | VList xs _ _ => forallb maps_le1 xs
  | VMap [] => true
  | VMap [(k, x)] => maps_le1 k && maps_le1 x
  | VMap _ => false
  | _ => true
  end.

Lemma booleqb_sym : forall x y : bool, Bool.eqb x y = Bool.eqb y x.
Proof. destruct x, y; reflexivity. Qed.


Definition sym_at (x : value) : Prop :=
  forall y, maps_le1 x = true -> maps_le1 y = true ->
            (forall n m, In n (numbers_of x) -> In m (numbers_of y) -> num_eqb n m = num_eqb m n) ->
            veq x y = veq y x.

Lemma all2_sym : forall xs ys, Forall sym_at xs ->
  forallb maps_le1 xs = true -> forallb maps_le1 ys = true ->
  (forall n m, In n (flat_map numbers_of xs) -> In m (flat_map numbers_of ys) -> num_eqb n m = num_eqb m n) ->
  all2 value veq xs ys = all2 value veq ys xs.
Proof.
  induction xs; intros ys HF Hx Hy HP; destruct ys; try reflexivity.
  inversion HF; subst. cbn [all2]. cbn [forallb] in Hx, Hy.
  apply andb_true_iff in Hx. destruct Hx as [Hx1 Hx2]. apply andb_true_iff in Hy. destruct Hy as [Hy1 Hy2].
  rewrite (H1 v Hx1 Hy1).
  - rewrite IHxs; [reflexivity|assumption|assumption|assumption|].
    intros n m Hn Hm. apply HP; cbn [flat_map]; apply in_or_app; right; assumption.
  - intros n m Hn Hm. apply HP; cbn [flat_map]; apply in_or_app; left; assumption.
Qed.

Lemma veq_sym_general : forall a b, maps_le1 a = true -> maps_le1 b = true -> pairs_sym a b -> veq a b = veq b a.
Proof.
  unfold pairs_sym. intros a. change (sym_at a).
  induction a using value_ind'; intros vb Ha Hb HP;
    destruct vb as [| | |m cm|t|ys s' b'|kvs'|]; try reflexivity.
  - cbn [veq]. apply HP; cbn; auto.
  - cbn [veq]. apply str_eqb_sym.
  - rewrite !veq_list. rewrite (Z.eqb_sym s), (booleqb_sym b). f_equal. f_equal.
    apply all2_sym; [exact H|exact Ha|exact Hb|]. intros n0 m0 Hn Hm. apply HP; cbn [numbers_of]; assumption.
  - cbn [veq]. destruct xs, kvs'; reflexivity.
  - cbn [veq]. destruct kvs, ys; reflexivity.
  - (* maps with at most one entry *)
    destruct kvs as [|[k x] [|? ?]]; [| |discriminate]; destruct kvs' as [|[k' x'] [|? ?]]; try discriminate; try reflexivity.
    inversion H as [|? ? [Hk Hx] _]; subst. cbn [fst snd] in Hk, Hx.
    cbn [maps_le1] in Ha, Hb. apply andb_true_iff in Ha. destruct Ha as [Ha1 Ha2].
    apply andb_true_iff in Hb. destruct Hb as [Hb1 Hb2].
    rewrite !veq_map. cbn [length Nat.eqb andb map_all forallb fst snd map_get].
    rewrite !andb_true_r.
    assert (E1 : veq k k' = veq k' k).
    { apply Hk; try assumption. intros n0 m0 Hn Hm. apply HP; cbn [numbers_of flat_map fst snd];
        rewrite ?app_nil_r; apply in_or_app; left; assumption. }
    assert (E2 : veq x x' = veq x' x).
    { apply Hx; try assumption. intros n0 m0 Hn Hm. apply HP; cbn [numbers_of flat_map fst snd];
        rewrite ?app_nil_r; apply in_or_app; right; assumption. }
    rewrite E1, E2. reflexivity.
Qed.

(* the unit sets of two numbers are equal, or one is unitless, or both are a single known unit
   (convertible into each other or not) *)
Definition sym_units (x y : numeric) : Prop :=
  aligned x y = true \/
  exists u v, In u real_units /\ In v real_units /\ nunit x = us_of_unit u /\ nunit y = us_of_unit v.

Lemma num_eqb_sym_wide : forall x y, sym_units x y -> num_eqb x y = num_eqb y x.
Proof.
  intros [vx ux] [vy uy] [H|[u [v [Hu [Hv [E1 E2]]]]]].
  - apply num_eqb_sym_aligned. exact H.
  - cbn [nunit] in E1, E2. subst ux uy. apply num_eqb_sym_units; assumption.
Qed.

Definition all_sym_units (a b : value) : Prop :=
  forall x y, In x (numbers_of a) -> In y (numbers_of b) -> sym_units x y.

Lemma veq_sym : forall a b, maps_le1 a = true -> maps_le1 b = true -> all_sym_units a b -> veq a b = veq b a.
Proof.
  intros a b Ha Hb H. apply veq_sym_general; try assumption.
  intros x y Hx Hy. apply num_eqb_sym_wide. apply H; assumption.
Qed.

Definition turn_254 : numeric := mkNum (of_bits 4612901990326777938) (us_of_unit (UK "Turn")).
Definition deg_9144 : numeric := mkNum (of_bits 4651254363278488369) (us_of_unit (UK "Deg")).
(* the former F31 witness: now the same answer in both directions *)
Lemma former_witness_units :
  veq (VNum turn_254 true) (VNum deg_9144 true) = veq (VNum deg_9144 true) (VNum turn_254 true).
Proof. vm_compute. reflexivity. Qed.

Definition one : numeric := mkNum (of_bits 4607182418800017408) [].
Definition below_one : numeric := mkNum (of_bits 4607182418800017406) [].   (* 0.9999999999999998 *)
(* the former F17 witness now compares equal in both directions *)
Lemma former_witness : veq (VNum one true) (VNum below_one true) = true /\ veq (VNum below_one true) (VNum one true) = true.
Proof. vm_compute. split; reflexivity. Qed.

(* ---- trichotomy ---- *)
Definition b2n (o : option bool) : Z := match o with Some true => 1 | _ => 0 end.
Definition count3 (a b : value) : Z := b2n (vlt a b) + (if veq a b then 1 else 0) + b2n (vgt a b).

Lemma trichotomy : forall x y c o, numeric_cmp x y = Some (Some o) -> count3 (VNum x c) (VNum y c) = 1.
Proof.
  intros x y c o H. unfold count3, vlt, vgt, vnum_cmp. cbn [veq]. unfold num_eqb, numeric_eq. rewrite H.
  destruct o, c; reflexivity.
Qed.

Definition one_px : numeric := mkNum (of_bits 4607182418800017408) (us_of_unit (UK "Px")).
Lemma refuted_trichotomy_calc : count3 (VNum one false) (VNum one true) = 2.
Proof. vm_compute. reflexivity. Qed.
Lemma refuted_trichotomy_unitless : count3 (VNum one_px true) (VNum one true) = 0.
Proof. vm_compute. reflexivity. Qed.
