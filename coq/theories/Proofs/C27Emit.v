(* C27, deepening: literals whose escapes are of the well-behaved kinds.
   A literal of the class is a sequence of pieces: runs of plain characters, a raw
   apostrophe, an escaped double quote, an escaped backslash, and hex escapes
   (1-6 digits, terminating space) of a code point that is stored as itself. *)
From Coq Require Import String List NArith ZArith Bool Lia.
From RV Require Import Base.Text Base.ListX Model.CssStr Model.StrEsc Spec.CssEsc Run.C27 Proofs.C27.
Import ListNotations.
Local Open Scope N_scope.
Local Open Scope list_scope.

Inductive piece : Type :=
| PRun (cs : list N)        (* non-empty run of plain characters *)
| PApos                     (* a raw apostrophe *)
| PEscQuote                 (* backslash, double quote *)
| PEscBs                    (* backslash, backslash *)
| PHex (ds : list N).       (* backslash, 1-6 hex digits, one space *)

Definition render1 (p : piece) : list N :=
  match p with
  | PRun cs => cs
  | PApos => [39]
  | PEscQuote => [92; 34]
  | PEscBs => [92; 92]
  | PHex ds => 92 :: ds ++ [32]
  end.
Definition render (ps : list piece) : list N := flat_map render1 ps.

(* the string a piece denotes *)
Definition denot1 (p : piece) : list N :=
  match p with
  | PRun cs => cs
  | PApos => [39]
  | PEscQuote => [34]
  | PEscBs => [92]
  | PHex ds => [hex_value ds]
  end.
Definition denot (ps : list piece) : list N := flat_map denot1 ps.

(* the text rsass stores for it *)
Definition stored1 (p : piece) : list N :=
  match p with
  | PEscBs => [92; 92]
  | _ => denot1 p
  end.

(* a hex escape of the class denotes a code point that is stored and printed as itself:
   valid, not NUL, not a control character, not one of - \ space (kept escaped), not private use *)
Definition good_hexv (v : N) : bool :=
  valid_char v && negb (v =? 0) && negb (is_control v)
  && negb ((v =? 45) || (v =? 92) || (v =? 32)) && negb (is_private_use v).

Definition is_nil {A} (l : list A) : bool := match l with [] => true | _ => false end.

Definition wf1 (p : piece) : bool :=
  match p with
  | PRun cs => negb (is_nil cs) && forallb plain_char cs
  | PHex ds => negb (is_nil ds) && forallb is_hex ds && Nat.leb (length ds) 6 && good_hexv (hex_value ds)
  | _ => true
  end.
Fixpoint no_adjacent_runs (ps : list piece) : bool :=
  match ps with
  | PRun _ :: ((PRun _ :: _) as r) => false
  | _ :: r => no_adjacent_runs r
  | [] => true
  end.
Definition wf (ps : list piece) : bool := forallb wf1 ps && no_adjacent_runs ps.

(* ---------- the reader (parser/strings.rs model) on the class ---------- *)
Definition head_special (l : list N) : bool := match l with [] => true | c :: _ => is_special c end.

Lemma take_simple_app cs rest :
  forallb plain_char cs = true -> head_special rest = true -> take_simple (cs ++ rest) = (cs, rest).
Proof.
  induction cs as [|c r IH]; intros H Hr.
  - cbn [app]. destruct rest as [|x y]; [reflexivity|]. cbn in Hr. cbn [take_simple]. now rewrite Hr.
  - cbn [forallb] in H. apply andb_true_iff in H as [Hc H]. apply plain_char_facts in Hc as (S & _).
    cbn [app take_simple]. rewrite S, (IH H Hr). reflexivity.
Qed.

Lemma take_hex_app ds : forall n rest,
  forallb is_hex ds = true -> (length ds <= n)%nat -> take_hex n (ds ++ 32 :: rest) = (ds, 32 :: rest).
Proof.
  induction ds as [|d r IH]; intros n rest H L.
  - cbn [app]. destruct n; reflexivity.
  - cbn [forallb] in H. apply andb_true_iff in H as [Hd H]. destruct n as [|n]; [cbn in L; lia|].
    cbn [app take_hex]. rewrite Hd, (IH n rest H); [reflexivity|cbn in L; lia].
Qed.

Lemma good_hexv_facts v : good_hexv v = true ->
  valid_char v = true /\ (v =? 0) = false /\ is_control v = false /\ (v =? 92) = false /\
  is_private_use v = false /\ normalized_q v = [v].
Proof.
  unfold good_hexv. rewrite !andb_true_iff, !negb_true_iff, !orb_false_iff.
  intros ((((A & B) & C) & (D & E) & F) & G). repeat split; auto.
  unfold normalized_q. rewrite B, C, D, E, F. reflexivity.
Qed.

Lemma is_hex_not_bs d : is_hex d = true -> (d =? 92) = false.
Proof.
  unfold is_hex, hex_digit. destruct (d =? 92) eqn:E; [|reflexivity]. apply N.eqb_eq in E. subst. cbn. discriminate.
Qed.

Lemma next_part_piece p rest :
  wf1 p = true -> (match p with PRun _ => head_special rest | _ => true end) = true ->
  next_part (render1 p ++ rest) = Some (stored1 p, rest).
Proof.
  destruct p as [cs| | | |ds]; intros W H.
  - cbn [wf1] in W. apply andb_true_iff in W as [N P]. destruct cs as [|c r]; [discriminate|].
    cbn [render1 stored1 denot1]. assert (Pc := P). cbn [forallb] in Pc. apply andb_true_iff in Pc as [Pc _].
    apply plain_char_facts in Pc as (S & _).
    change ((c :: r) ++ rest) with (c :: (r ++ rest)). unfold next_part. rewrite S. cbn [negb].
    change (c :: r ++ rest) with ((c :: r) ++ rest). now rewrite take_simple_app.
  - reflexivity.
  - reflexivity.
  - reflexivity.
  - cbn [wf1] in W. apply andb_true_iff in W as [W G]. apply andb_true_iff in W as [W L].
    apply andb_true_iff in W as [N Hx]. apply Nat.leb_le in L.
    destruct ds as [|d r]; [discriminate|]. apply good_hexv_facts in G as (V & _ & _ & _ & _ & Q).
    cbn [render1 stored1 denot1]. assert (Hd := Hx). cbn [forallb] in Hd. apply andb_true_iff in Hd as [Hd _].
    assert (S : is_special 92 = true) by reflexivity.
    replace ((92 :: (d :: r) ++ [32]) ++ rest) with (92 :: d :: (r ++ 32 :: rest)) by (cbn; now rewrite <- app_assoc).
    unfold next_part. rewrite S. cbn [negb]. replace (92 =? 92) with true by reflexivity.
    assert (E34 : forall A (x y : A), match d :: r ++ 32 :: rest with 34 :: _ => x | _ => y end =
                                      if d =? 34 then x else y).
    { intros. destruct (d =? 34) eqn:E; [apply N.eqb_eq in E; subst; reflexivity|].
      destruct d as [|q]; [reflexivity|]. do 6 (destruct q as [q|q|]; try reflexivity). cbn in E. discriminate. }
    rewrite E34. assert (D34 : (d =? 34) = false).
    { destruct (d =? 34) eqn:E; [|reflexivity]. apply N.eqb_eq in E. subst. discriminate. }
    rewrite D34. unfold escaped_char. rewrite (is_hex_not_bs d Hd).
    change (d :: r ++ 32 :: rest) with ((d :: r) ++ 32 :: rest).
    rewrite (take_hex_app (d :: r) 6 rest Hx L). rewrite V, Q. reflexivity.
Qed.

Lemma render_head_special ps :
  forallb wf1 ps = true -> (match ps with PRun _ :: _ => false | _ => true end) = true ->
  head_special (render ps) = true.
Proof.
  destruct ps as [|[cs| | | |ds] r]; intros W H; try reflexivity; discriminate.
Qed.

Lemma parts_of_pieces ps : forall fuel,
  wf ps = true -> (length ps < fuel)%nat -> parts_fuel fuel (render ps) = Some (map stored1 ps).
Proof.
  unfold wf. induction ps as [|p r IH]; intros fuel W L.
  - destruct fuel; reflexivity.
  - apply andb_true_iff in W as [W A]. cbn [forallb] in W. apply andb_true_iff in W as [Wp Wr].
    assert (Ar : no_adjacent_runs r = true).
    { destruct p; cbn [no_adjacent_runs] in A; try exact A. destruct r as [|[| | | |] r']; try exact A; discriminate. }
    assert (Hh : (match p with PRun _ => head_special (render r) | _ => true end) = true).
    { destruct p; try reflexivity. apply render_head_special; [exact Wr|].
      destruct r as [|[| | | |] r']; try reflexivity. cbn [no_adjacent_runs] in A. discriminate. }
    destruct fuel as [|f]; [lia|]. cbn [render flat_map]. fold (render r).
    assert (NE : exists c t, render1 p ++ render r = c :: t).
    { destruct p as [cs| | | |ds]; cbn [render1]; try (eexists; eexists; reflexivity).
      cbn [wf1] in Wp. destruct cs; [discriminate|]. eexists; eexists; reflexivity. }
    destruct NE as (c & t & E). cbn [parts_fuel]. rewrite E. rewrite <- E.
    rewrite (next_part_piece p (render r) Wp Hh). rewrite IH; [reflexivity| |cbn in L; lia].
    now rewrite Wr, Ar.
Qed.

Lemma pieces_le_length ps : forallb wf1 ps = true -> (length ps <= length (render ps))%nat.
Proof.
  induction ps as [|p r IH]; intros W; [cbn; lia|]. cbn [forallb] in W. apply andb_true_iff in W as [Wp Wr].
  cbn [render flat_map length]. rewrite app_length. specialize (IH Wr). fold (render r).
  assert ((1 <= length (render1 p))%nat).
  { destruct p as [cs| | | |ds]; cbn; try lia. cbn [wf1] in Wp. destruct cs; [discriminate|cbn; lia]. }
  lia.
Qed.

(* cleanup_escape_ws leaves the parts of the class alone *)
Definition kept (s : list N) : Prop :=
  match s with
  | c :: _ => ((c =? 92) && ends_with_space s && negb (cps_eqb s [92; 32])) = false
  | [] => True
  end.
Lemma cleanup_kept l : Forall kept l -> cleanup l = l.
Proof.
  induction 1 as [|s r Hs Hr IH]; [reflexivity|]. cbn [cleanup]. rewrite IH. destruct s as [|c t]; [reflexivity|].
  cbn in Hs. cbn. now rewrite Hs.
Qed.
Lemma stored1_kept p : wf1 p = true -> kept (stored1 p).
Proof.
  destruct p as [cs| | | |ds]; intros W; try reflexivity.
  - cbn [wf1] in W. apply andb_true_iff in W as [_ P]. destruct cs as [|c r]; [exact I|].
    cbn [forallb] in P. apply andb_true_iff in P as [Pc _]. apply plain_char_facts in Pc as (_ & _ & B & _).
    cbn [stored1 denot1 kept]. now rewrite B.
  - cbn [wf1] in W. apply andb_true_iff in W as [_ G]. apply good_hexv_facts in G as (_ & _ & _ & B & _).
    cbn [stored1 denot1 kept]. now rewrite B.
Qed.

Definition stored (ps : list piece) : list N := flat_map stored1 ps.

Lemma store_pieces ps : wf ps = true -> store_dq (render ps) = Some (stored ps).
Proof.
  intros W. unfold store_dq. rewrite (parts_of_pieces ps _ W).
  - cbn [option_map]. rewrite cleanup_kept.
    + unfold stored. now rewrite flat_map_concat_map.
    + unfold wf in W. apply andb_true_iff in W as [W _]. rewrite forallb_forall in W.
      apply Forall_forall. intros s Hs. apply in_map_iff in Hs as (p & <- & Hp). apply stored1_kept. now apply W.
  - unfold wf in W. apply andb_true_iff in W as [W _]. pose proof (pieces_le_length ps W). lia.
Qed.

(* ---------- decoding: the source literal ---------- *)
Lemma hexv_hex_digit c : hexv c = hex_digit c.
Proof. reflexivity. Qed.

Lemma decode_run cs rest : forallb plain_char cs = true ->
  decode (cs ++ rest) DNormal = cs ++ decode rest DNormal.
Proof.
  induction cs as [|c r IH]; intros H; [reflexivity|]. cbn [forallb] in H. apply andb_true_iff in H as [Hc H].
  apply plain_char_facts in Hc as (_ & _ & B & _). cbn [app decode]. rewrite B. f_equal. now apply IH.
Qed.

Definition hex_step (acc c : N) : N := acc * 16 + match hex_digit c with Some d => d | None => 0 end.

Lemma decode_hex_digits ds : forall v n rest,
  forallb is_hex ds = true -> (n + length ds <= 6)%nat ->
  decode (ds ++ 32 :: rest) (DHex v n) = code_point (fold_left hex_step ds v) :: decode rest DNormal.
Proof.
  induction ds as [|d r IH]; intros v n rest H L.
  - reflexivity.
  - cbn [forallb] in H. apply andb_true_iff in H as [Hd H]. cbn [app decode]. rewrite hexv_hex_digit.
    unfold is_hex in Hd. destruct (hex_digit d) as [x|] eqn:E; [|discriminate].
    assert (Lt : Nat.ltb n 6 = true) by (apply Nat.ltb_lt; cbn in L; lia). rewrite Lt.
    rewrite IH; [|exact H|cbn in L; lia]. cbn [fold_left].
    replace (hex_step v d) with (v * 16 + x) by (unfold hex_step; now rewrite E). reflexivity.
Qed.

Lemma hex_value_fold ds : hex_value ds = fold_left hex_step ds 0.
Proof. reflexivity. Qed.

Lemma code_point_good v : good_hexv v = true -> code_point v = v.
Proof.
  intros G. apply good_hexv_facts in G as (V & Z & _). unfold code_point, valid_char in *.
  rewrite Z. apply negb_true_iff in V. cbn [orb]. now rewrite V.
Qed.

Lemma decode_piece p rest : wf1 p = true ->
  decode (render1 p ++ rest) DNormal = denot1 p ++ decode rest DNormal.
Proof.
  destruct p as [cs| | | |ds]; intros W; try reflexivity.
  - cbn [wf1] in W. apply andb_true_iff in W as [_ P]. now apply decode_run.
  - cbn [wf1] in W. apply andb_true_iff in W as [W G]. apply andb_true_iff in W as [W L].
    apply andb_true_iff in W as [N Hx]. apply Nat.leb_le in L. destruct ds as [|d r]; [discriminate|].
    cbn [render1 denot1]. replace ((92 :: (d :: r) ++ [32]) ++ rest) with (92 :: d :: (r ++ 32 :: rest)) by (cbn; now rewrite <- app_assoc).
    cbn [decode]. replace (92 =? 92) with true by reflexivity. rewrite hexv_hex_digit.
    assert (Hd := Hx). cbn [forallb] in Hd. apply andb_true_iff in Hd as [Hd Hr].
    unfold is_hex in Hd. destruct (hex_digit d) as [x|] eqn:E; [|discriminate].
    rewrite decode_hex_digits; [|exact Hr|cbn in L; lia].
    rewrite <- (code_point_good _ G). rewrite hex_value_fold. cbn [fold_left].
    replace (hex_step 0 d) with x by (unfold hex_step; rewrite E; lia). reflexivity.
Qed.

Lemma decode_render ps : forallb wf1 ps = true -> css_decode (render ps) = denot ps.
Proof.
  unfold css_decode. induction ps as [|p r IH]; intros W; [reflexivity|].
  cbn [forallb] in W. apply andb_true_iff in W as [Wp Wr]. cbn [render denot flat_map].
  rewrite decode_piece; [|exact Wp]. f_equal. now apply IH.
Qed.

(* ---------- decoding: the printed token, for either quote character ---------- *)
Definition is_quote (q : N) : Prop := q = 34 \/ q = 39.

Lemma decode_display_char q c rest :
  is_quote q -> (c =? 92) = false -> is_private_use c = false ->
  decode (display_char (Some q) c ++ rest) DNormal = c :: decode rest DNormal.
Proof.
  intros Q B P. unfold display_char. destruct (c =? q) eqn:E.
  - apply N.eqb_eq in E. subst c. destruct Q as [-> | ->]; reflexivity.
  - rewrite P. cbn [app decode]. now rewrite B.
Qed.

Lemma decode_display_run q cs rest : is_quote q -> forallb plain_char cs = true ->
  decode (flat_map (display_char (Some q)) cs ++ rest) DNormal = cs ++ decode rest DNormal.
Proof.
  intros Q. induction cs as [|c r IH]; intros H; [reflexivity|]. cbn [forallb] in H. apply andb_true_iff in H as [Hc H].
  apply plain_char_facts in Hc as (_ & P & B & _). cbn [flat_map]. rewrite <- app_assoc.
  rewrite decode_display_char; auto. cbn [app]. f_equal. now apply IH.
Qed.

Lemma decode_display_piece q p rest : is_quote q -> wf1 p = true ->
  decode (flat_map (display_char (Some q)) (stored1 p) ++ rest) DNormal = denot1 p ++ decode rest DNormal.
Proof.
  intros Q W. destruct p as [cs| | | |ds].
  - cbn [wf1] in W. apply andb_true_iff in W as [_ P]. now apply decode_display_run.
  - cbn [stored1 denot1 flat_map]. rewrite app_nil_r. now apply decode_display_char.
  - cbn [stored1 denot1 flat_map]. rewrite app_nil_r. now apply decode_display_char.
  - destruct Q as [-> | ->]; reflexivity.
  - cbn [wf1] in W. apply andb_true_iff in W as [_ G]. apply good_hexv_facts in G as (_ & _ & _ & B & P & _).
    cbn [stored1 denot1 flat_map]. rewrite app_nil_r. now apply decode_display_char.
Qed.

Lemma decode_display q ps : is_quote q -> forallb wf1 ps = true ->
  css_decode (flat_map (display_char (Some q)) (stored ps)) = denot ps.
Proof.
  intros Q. unfold css_decode, stored. induction ps as [|p r IH]; intros W; [reflexivity|].
  cbn [forallb] in W. apply andb_true_iff in W as [Wp Wr]. cbn [flat_map denot]. rewrite flat_map_app.
  rewrite decode_display_piece; auto. f_equal. now apply IH.
Qed.

(* ---------- the emitted token ---------- *)
Lemma token_body_quoted q b : is_quote q -> token_body (q :: b ++ [q]) = Some b.
Proof.
  intros Q. unfold token_body. replace ((q =? 34) || (q =? 39)) with true by (destruct Q as [-> | ->]; reflexivity).
  rewrite rev_app_distr. cbn [rev app]. rewrite N.eqb_refl. now rewrite rev_involutive.
Qed.

Lemma display_quoted s : s_q s <> QNone -> existsb is_private_use (s_val s) = false ->
  exists q, is_quote q /\ css_display s = q :: flat_map (display_char (Some q)) (s_val s) ++ [q].
Proof.
  intros H P. unfold css_display. rewrite (display_body_flat _ _ P).
  destruct (s_q s); [exists 34|exists 39|congruence]; split; try reflexivity; [now left|now right].
Qed.

Lemma stored_no_pu ps : forallb wf1 ps = true -> existsb is_private_use (stored ps) = false.
Proof.
  unfold stored. induction ps as [|p r IH]; intros W; [reflexivity|]. cbn [forallb] in W. apply andb_true_iff in W as [Wp Wr].
  cbn [flat_map]. rewrite existsb_app, (IH Wr), orb_false_r. destruct p as [cs| | | |ds]; try reflexivity.
  - cbn [wf1] in Wp. apply andb_true_iff in Wp as [_ P]. cbn [stored1 denot1]. now apply plain_no_pu.
  - cbn [wf1] in Wp. apply andb_true_iff in Wp as [_ G]. apply good_hexv_facts in G as (_ & _ & _ & _ & P & _).
    cbn [stored1 denot1 existsb]. now rewrite P.
Qed.

Theorem emit_pieces ps : wf ps = true ->
  exists lv b, literal_value (render ps) = Some lv /\ s_val lv = stored ps /\
               token_body (css_display lv) = Some b /\
               css_decode b = css_decode (render ps) /\ css_decode (render ps) = denot ps.
Proof.
  intros W. assert (W1 : forallb wf1 ps = true) by (unfold wf in W; now apply andb_true_iff in W as [W _]).
  unfold literal_value. rewrite (store_pieces ps W). cbn [option_map].
  set (lv := pref_dquotes (mkStr (stored ps) QDouble)).
  assert (V : s_val lv = stored ps) by reflexivity.
  assert (Qn : s_q lv <> QNone).
  { unfold lv, pref_dquotes. cbn [s_q s_val]. destruct (contains 34 (stored ps) && negb (contains 39 (stored ps))); discriminate. }
  destruct (display_quoted lv Qn (stored_no_pu ps W1)) as (q & Q & D).
  exists lv, (flat_map (display_char (Some q)) (stored ps)). split; [reflexivity|]. split; [exact V|].
  rewrite D, V. split; [now apply token_body_quoted|].
  rewrite (decode_render ps W1). split; [now apply decode_display|reflexivity].
Qed.

(* the printed body is well delimited: every quote character inside is escaped, no raw line break *)
Definition no_break (c : N) : Prop := (c =? 10) = false /\ (c =? 13) = false /\ (c =? 12) = false.

Lemma wd_display_char q c rest :
  is_quote q -> (c =? 92) = false -> is_private_use c = false -> no_break c ->
  well_delimited q (display_char (Some q) c ++ rest) false = well_delimited q rest false.
Proof.
  intros Q B P (N1 & N2 & N3). unfold display_char. destruct (c =? q) eqn:E.
  - cbn [app well_delimited]. replace (92 =? 92) with true by reflexivity. reflexivity.
  - rewrite P. cbn [app well_delimited]. now rewrite B, E, N1, N2, N3.
Qed.

Lemma plain_no_break c : plain_char c = true -> no_break c.
Proof.
  intros H. apply plain_char_facts in H as (S & _). unfold is_special in S. rewrite !orb_false_iff in S.
  unfold no_break. tauto.
Qed.

Lemma good_no_break v : good_hexv v = true -> no_break v.
Proof.
  intros G. apply good_hexv_facts in G as (_ & _ & C & _). unfold is_control in C. apply orb_false_iff in C as [C _].
  apply N.leb_gt in C. unfold no_break. repeat split; apply N.eqb_neq; lia.
Qed.

Lemma wd_display_run q cs rest : is_quote q -> forallb plain_char cs = true ->
  well_delimited q (flat_map (display_char (Some q)) cs ++ rest) false = well_delimited q rest false.
Proof.
  intros Q. induction cs as [|c r IH]; intros H; [reflexivity|]. cbn [forallb] in H. apply andb_true_iff in H as [Hc H].
  assert (Nb := plain_no_break c Hc). apply plain_char_facts in Hc as (_ & P & B & _). cbn [flat_map]. rewrite <- app_assoc.
  rewrite wd_display_char; auto.
Qed.

Lemma wd_display_piece q p rest : is_quote q -> wf1 p = true ->
  well_delimited q (flat_map (display_char (Some q)) (stored1 p) ++ rest) false = well_delimited q rest false.
Proof.
  intros Q W. destruct p as [cs| | | |ds].
  - cbn [wf1] in W. apply andb_true_iff in W as [_ P]. now apply wd_display_run.
  - cbn [stored1 denot1 flat_map]. rewrite app_nil_r. apply wd_display_char; auto; repeat split; reflexivity.
  - cbn [stored1 denot1 flat_map]. rewrite app_nil_r. apply wd_display_char; auto; repeat split; reflexivity.
  - destruct Q as [-> | ->]; reflexivity.
  - cbn [wf1] in W. apply andb_true_iff in W as [_ G]. assert (Nb := good_no_break _ G).
    apply good_hexv_facts in G as (_ & _ & _ & B & P & _).
    cbn [stored1 denot1 flat_map]. rewrite app_nil_r. now apply wd_display_char.
Qed.

Lemma wd_display q ps : is_quote q -> forallb wf1 ps = true ->
  well_delimited q (flat_map (display_char (Some q)) (stored ps)) false = true.
Proof.
  intros Q. unfold stored. induction ps as [|p r IH]; intros W; [reflexivity|].
  cbn [forallb] in W. apply andb_true_iff in W as [Wp Wr]. cbn [flat_map]. rewrite flat_map_app.
  rewrite wd_display_piece; auto.
Qed.

(* C27_emit on the class: the printed token is a well-formed string token denoting the literal's string *)
Theorem emit_pieces_token ps : wf ps = true ->
  exists lv, literal_value (render ps) = Some lv /\
             token_denotes (css_display lv) (css_decode (render ps)) = true.
Proof.
  intros W. assert (W1 : forallb wf1 ps = true) by (unfold wf in W; now apply andb_true_iff in W as [W _]).
  unfold literal_value. rewrite (store_pieces ps W). cbn [option_map].
  set (lv := pref_dquotes (mkStr (stored ps) QDouble)).
  assert (Qn : s_q lv <> QNone).
  { unfold lv, pref_dquotes. cbn [s_q s_val]. destruct (contains 34 (stored ps) && negb (contains 39 (stored ps))); discriminate. }
  destruct (display_quoted lv Qn (stored_no_pu ps W1)) as (q & Q & D). exists lv. split; [reflexivity|].
  change (s_val lv) with (stored ps) in D. unfold token_denotes. rewrite D, (token_body_quoted q _ Q).
  rewrite (wd_display q ps Q W1), (decode_display q ps Q W1), (decode_render ps W1). cbn [andb].
  unfold cps_eqb. clear. induction (denot ps) as [|x r IH]; [reflexivity|]. cbn. now rewrite N.eqb_refl.
Qed.

(* str-length on the class: the stored text is longer than the denoted string by one per escaped backslash *)
Fixpoint count_bs (ps : list piece) : nat :=
  match ps with [] => O | PEscBs :: r => S (count_bs r) | _ :: r => count_bs r end.
Lemma stored_length ps : length (stored ps) = (length (denot ps) + count_bs ps)%nat.
Proof.
  unfold stored, denot. induction ps as [|p r IH]; [reflexivity|]. cbn [flat_map count_bs]. rewrite !app_length, IH.
  destruct p; cbn [stored1 denot1 length]; lia.
Qed.

(* ---------- quote (unquote s) = s ----------
   Class: stored strings in which every backslash belongs to a pair (an escaped backslash);
   on it unquote is injective (quote's backslash doubling is its inverse). *)
Inductive sunit : Type := UC (c : N) | UB.
Definition utext (u : sunit) : list N := match u with UC c => [c] | UB => [92; 92] end.
Definition uden (u : sunit) : list N := match u with UC c => [c] | UB => [92] end.
Definition wfu (u : sunit) : bool := match u with UC c => negb (c =? 92) | UB => true end.
Definition utexts (us : list sunit) : list N := flat_map utext us.
Definition udens (us : list sunit) : list N := flat_map uden us.

Lemma unq_units us : forallb wfu us = true -> unq (utexts us) UNormal = Some (udens us).
Proof.
  unfold utexts, udens. induction us as [|u r IH]; intros W; [reflexivity|].
  cbn [forallb] in W. apply andb_true_iff in W as [Wu Wr]. cbn [flat_map]. destruct u as [c|].
  - cbn [wfu] in Wu. apply negb_true_iff in Wu. cbn [utext uden app unq]. rewrite Wu, (IH Wr). reflexivity.
  - cbn [utext uden app]. change (unq (92 :: 92 :: flat_map utext r) UNormal)
      with (option_map (app [92]) (unq (flat_map utext r) UNormal)). now rewrite (IH Wr).
Qed.

Lemma double_backslashes_units us : forallb wfu us = true -> double_backslashes (udens us) = utexts us.
Proof.
  unfold utexts, udens, double_backslashes. induction us as [|u r IH]; intros W; [reflexivity|].
  cbn [forallb] in W. apply andb_true_iff in W as [Wu Wr]. cbn [flat_map]. rewrite flat_map_app, (IH Wr). f_equal.
  destruct u as [c|]; [|reflexivity]. cbn [wfu] in Wu. apply negb_true_iff in Wu. cbn [uden utext flat_map]. now rewrite Wu.
Qed.

(* unquote is injective on the class *)
Lemma unquote_injective us us' :
  forallb wfu us = true -> forallb wfu us' = true -> udens us = udens us' -> utexts us = utexts us'.
Proof. intros W W' E. rewrite <- (double_backslashes_units us W), <- (double_backslashes_units us' W'). now rewrite E. Qed.

Theorem quote_unquote_units us q :
  forallb wfu us = true -> q <> QNone ->
  css_unquote (mkStr (utexts us) q) = Some (udens us) /\
  pref_dquotes (css_quote (mkStr (udens us) QNone)) = pref_dquotes (mkStr (utexts us) QDouble).
Proof.
  intros W Q. split.
  - unfold css_unquote. cbn [s_q s_val]. destruct q; try congruence; now apply unq_units.
  - unfold css_quote. cbn [s_q s_val]. rewrite (double_backslashes_units us W). unfold pref_dquotes.
    destruct (contains 34 (utexts us)) eqn:A; destruct (contains 39 (utexts us)) eqn:B; cbn [andb negb s_q s_val orb];
      rewrite ?A, ?B; reflexivity.
Qed.

(* the stored text of a literal of the piece class is such a string, and it unquotes to the denoted string *)
Definition units1 (p : piece) : list sunit :=
  match p with
  | PRun cs => map UC cs
  | PApos => [UC 39]
  | PEscQuote => [UC 34]
  | PEscBs => [UB]
  | PHex ds => [UC (hex_value ds)]
  end.
Definition units (ps : list piece) : list sunit := flat_map units1 ps.

Lemma units_stored ps : utexts (units ps) = stored ps /\ udens (units ps) = denot ps.
Proof.
  unfold utexts, udens, units, stored, denot. induction ps as [|p r [IH1 IH2]]; [split; reflexivity|].
  cbn [flat_map]. rewrite !flat_map_app, IH1, IH2. split; f_equal.
  - destruct p as [cs| | | |ds]; try reflexivity. cbn [units1 stored1 denot1]. induction cs; [reflexivity|]. cbn. now f_equal.
  - destruct p as [cs| | | |ds]; try reflexivity. cbn [units1 denot1]. induction cs; [reflexivity|]. cbn. now f_equal.
Qed.

Lemma units_wf ps : forallb wf1 ps = true -> forallb wfu (units ps) = true.
Proof.
  unfold units. induction ps as [|p r IH]; intros W; [reflexivity|]. cbn [forallb] in W. apply andb_true_iff in W as [Wp Wr].
  cbn [flat_map]. rewrite forallb_app, (IH Wr), andb_true_r. destruct p as [cs| | | |ds]; try reflexivity.
  - cbn [wf1] in Wp. apply andb_true_iff in Wp as [_ P]. cbn [units1]. induction cs as [|c t IHc]; [reflexivity|].
    cbn [forallb] in P. apply andb_true_iff in P as [Pc Pt]. apply plain_char_facts in Pc as (_ & _ & B & _).
    cbn [map forallb wfu]. now rewrite B, (IHc Pt).
  - cbn [wf1] in Wp. apply andb_true_iff in Wp as [_ G]. apply good_hexv_facts in G as (_ & _ & _ & B & _).
    cbn [units1 forallb wfu]. now rewrite B.
Qed.

Theorem quote_unquote_pieces ps : wf ps = true ->
  exists lv, literal_value (render ps) = Some lv /\
             css_unquote lv = Some (css_decode (render ps)) /\
             pref_dquotes (css_quote (mkStr (css_decode (render ps)) QNone)) = lv.
Proof.
  intros W. assert (W1 : forallb wf1 ps = true) by (unfold wf in W; now apply andb_true_iff in W as [W _]).
  unfold literal_value. rewrite (store_pieces ps W). cbn [option_map].
  destruct (units_stored ps) as [S D]. assert (Wu := units_wf ps W1).
  rewrite (decode_render ps W1), <- D, <- S.
  set (lv := pref_dquotes (mkStr (utexts (units ps)) QDouble)). exists lv. split; [reflexivity|].
  assert (Qn : s_q lv <> QNone).
  { unfold lv, pref_dquotes. cbn [s_q s_val].
    destruct (contains 34 (utexts (units ps)) && negb (contains 39 (utexts (units ps)))); discriminate. }
  destruct (quote_unquote_units (units ps) (s_q lv) Wu Qn) as [A B]. split.
  - replace lv with (mkStr (utexts (units ps)) (s_q lv)) by (unfold lv, pref_dquotes; reflexivity). exact A.
  - exact B.
Qed.

(* ---------- the single-quoted reader, escape-free literals ---------- *)
Lemma store_sq_plain l : plain l = true -> store_sq l = Some l.
Proof.
  intros H. unfold store_sq. destruct l as [|c r]; [reflexivity|].
  assert (Hc := H). apply plain_cons in Hc as [Hc _]. apply plain_char_facts in Hc as (S & _ & B & _).
  cbn [length parts_fuel_sq]. unfold next_part_sq. rewrite S. cbn [negb].
  rewrite (take_simple_plain _ H). cbn [parts_fuel_sq option_map cleanup]. rewrite B. cbn [andb concat].
  now rewrite app_nil_r.
Qed.

Lemma literal_sq_plain l : plain l = true ->
  literal_value_sq l = Some (mkStr l QDouble) /\ literal_value_sq l = literal_value l.
Proof.
  intros H. rewrite (literal_plain l H). unfold literal_value_sq. rewrite (store_sq_plain l H). cbn [option_map].
  unfold pref_dquotes. cbn [s_val s_q]. rewrite (plain_no_dquote l H). split; reflexivity.
Qed.

Lemma length_pieces ps : wf ps = true ->
  exists lv, literal_value (render ps) = Some lv /\
             length (s_val lv) = (length (css_decode (render ps)) + count_bs ps)%nat.
Proof.
  intros W. assert (W1 : forallb wf1 ps = true) by (unfold wf in W; now apply andb_true_iff in W as [W _]).
  unfold literal_value. rewrite (store_pieces ps W). cbn [option_map]. eexists. split; [reflexivity|].
  cbn [pref_dquotes s_val]. rewrite (decode_render ps W1). apply stored_length.
Qed.
