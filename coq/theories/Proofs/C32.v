(* Proofs for C32. *)
From Coq Require Import String List ZArith Bool Lia.
From Flocq Require Import Core.Core IEEE754.BinarySingleNaN IEEE754.Binary IEEE754.Bits.
From RV Require Import Base.F64 Base.FMod Base.ListX Gen.Colors Model.Color Model.ColorFns Run.C31 Run.C32 Proofs.C31.
Import ListNotations.
Local Open Scope Z_scope.

(* ---------- grayscale: exact for every colour ---------- *)
Theorem grayscale_law c :
  let g := to_hsla (grayscale c) in
  h_sat g = f_zero /\ h_lum g = h_lum (to_hsla c)
  /\ h_alpha g = fmin (fmax (h_alpha (to_hsla c)) f_zero) f_one.
Proof. cbn. repeat split. Qed.

(* ---------- lighten / darken: one binary64 addition, then `.max(0.).min(1.)` (fix e0d618c) ---------- *)
Theorem lighten_law c a :
  h_lum (to_hsla (lighten c a)) = clamp01 (fadd (h_lum (to_hsla c)) a)
  /\ h_lum (to_hsla (darken c a)) = clamp01 (fsub (h_lum (to_hsla c)) a).
Proof. split; reflexivity. Qed.

(* the new lightness is in [0, 1] for EVERY colour and amount, NaN included *)
Theorem lighten_range c a :
  in01 f_zero f_one (h_lum (to_hsla (lighten c a))) /\ in01 f_zero f_one (h_lum (to_hsla (darken c a))).
Proof. split; apply fmax_comm_range. Qed.

Definition white : color := CRgba (rgba_from_bytes 255 255 255).
Definition tenth : f64 := fdiv (fc 10) f100.
Lemma lighten_white : feq (h_lum (to_hsla (lighten white tenth))) f_one = true
  /\ feq (h_lum (to_hsla (darken (CRgba (rgba_from_bytes 0 0 0)) tenth))) f_zero = true.
Proof. vm_compute. auto. Qed.

(* ---------- clamps ---------- *)
Lemma fle_not_flt a b : fle a b = true -> flt b a = false.
Proof.
  unfold fle, flt. rewrite (fcmp_swap a b). destruct (fcmp a b) as [[]|]; cbn; auto; discriminate.
Qed.
Lemma fle_not_fgt a b : fle a b = true -> fgt a b = false.
Proof. unfold fle, fgt. destruct (fcmp a b) as [[]|]; auto; discriminate. Qed.

Lemma fclamp_id a lo hi : fle lo a = true -> fle a hi = true -> fclamp a lo hi = a.
Proof. intros H1 H2. unfold fclamp. rewrite (fle_not_flt _ _ H1), (fle_not_fgt _ _ H2). reflexivity. Qed.

Lemma fclamp_range a lo hi : f_is_nan a = false -> f_is_nan lo = false -> f_is_nan hi = false ->
  fle lo hi = true -> fle lo lo = true -> fle hi hi = true ->
  fle lo (fclamp a lo hi) = true /\ fle (fclamp a lo hi) hi = true.
Proof.
  intros Na Nl Nh Hlh Hll Hhh. unfold fclamp.
  destruct (flt a lo) eqn:L. auto.
  destruct (fgt a hi) eqn:G. auto.
  split. apply not_flt_fle; auto.
  unfold fgt in G. unfold fle. destruct (fcmp_some a hi Na Nh) as [c E]. rewrite E in *. destruct c; auto; discriminate.
Qed.

Lemma fle_inf x : f_is_nan x = false -> fle x f_inf = true.
Proof.
  unfold fle, fcmp, b64_compare, Bcompare, BinarySingleNaN.Bcompare.
  destruct x; cbn; intros; try discriminate; auto; destruct s; reflexivity.
Qed.
Lemma fle_not_nan_l a b : fle a b = true -> f_is_nan a = false.
Proof. unfold fle, fcmp, b64_compare, Bcompare. destruct a; auto; try (destruct b; cbn; discriminate). Qed.

(* saturate: the new saturation lies in [0, 1] whatever the colour and amount (unless the sum is NaN) *)
Theorem saturate_range c a : f_is_nan (fadd (h_sat (to_hsla c)) a) = false ->
  let s := h_sat (to_hsla (saturate c a)) in fle f_zero s = true /\ fle s f_one = true.
Proof.
  intros N. cbn.
  destruct (fclamp_range (fadd (h_sat (to_hsla c)) a) f_zero f_one N eq_refl eq_refl eq_refl eq_refl eq_refl) as [H1 H2].
  rewrite fclamp_id; auto. apply fle_inf. eapply fle_not_nan_l; eauto.
Qed.

(* opacify / transparentize / set_alpha: the alpha stays in [0, 1] (unless the sum is NaN) *)
Theorem set_alpha_range c a : f_is_nan a = false ->
  fle f_zero (get_alpha (set_alpha c a)) = true /\ fle (get_alpha (set_alpha c a)) f_one = true.
Proof.
  intros N.
  destruct (fclamp_range a f_zero f_one N eq_refl eq_refl eq_refl eq_refl eq_refl) as [H1 H2].
  assert (E : fclamp (fclamp a f_zero f_one) f_zero f_one = fclamp a f_zero f_one) by (apply fclamp_id; auto).
  destruct c; cbn [set_alpha get_alpha r_alpha h_alpha w_alpha]; rewrite E; auto.
Qed.

(* identities: change-color(c) is c; adjust-color(c) is c for every colour whose alpha is in range *)
Theorem change_identity c : change_none c = c.
Proof. reflexivity. Qed.
Theorem adjust_identity c : fle f_zero (get_alpha c) = true -> fle (get_alpha c) f_one = true -> adjust_none c = c.
Proof.
  intros H1 H2. unfold adjust_none, set_alpha.
  destruct c as [x|x|x]; destruct x; cbn in H1, H2; cbn;
    rewrite (fclamp_id _ _ _ H1 H2), (fclamp_id _ _ _ H1 H2); reflexivity.
Qed.

(* ---------- cancelling pairs and identities through `==`: finite sweeps (partial) ---------- *)
Definition is_true (o : option bool) : bool := match o with Some true => true | _ => false end.
Definition quarter : f64 := fdiv (fc 25) f100.
Definition laws_ok (c : color) : bool :=
  is_true (color_eq (invert (invert c f_one) f_one) c)
  && is_true (color_eq (complement (complement c)) c)
  && is_true (color_eq (adjust_hue c f360) c)
  && is_true (color_eq (mix c c f_half) c) && is_true (color_eq (mix c c quarter) c)
  && is_true (color_eq (scale_none c) c) && is_true (color_eq (adjust_none c) c).
Definition entry_laws (e : string * Z) : bool :=
  match from_name (fst e) with
  | Some x => laws_ok (CRgba x)
  | None => false
  end.
Lemma named_laws_sweep : forallb entry_laws color_table = true.
Proof. vm_compute. reflexivity. Qed.

(* lighten then darken by the same amount, where nothing leaves the range *)
Definition undo_ok (c : color) (a : f64) : bool :=
  let l := h_lum (to_hsla c) in
  fgt (fadd l a) f_one || is_true (color_eq (darken (lighten c a) a) c).
Definition entry_undo (e : string * Z) : bool :=
  match from_name (fst e) with
  | Some x => undo_ok (CRgba x) tenth
  | None => false
  end.
Lemma named_undo_sweep : forallb entry_undo color_table = true.
Proof. vm_compute. reflexivity. Qed.

(* F33 is fixed: scale-color(yellow) with no arguments is yellow *)
Lemma scale_identity_yellow :
  color_eq (scale_none (CRgba (rgba_from_bytes 255 255 0))) (CRgba (rgba_from_bytes 255 255 0)) = Some true.
Proof. vm_compute. reflexivity. Qed.
(* F39: an hsl() colour never equals its lighten/darken round trip (hsla_format flag) *)
Lemma refuted_hsl_undo :
  let c := sass_hsl (fc 120) (fc 50) (fc 50) f_one in
  color_eq (darken (lighten c tenth) tenth) c = Some false.
Proof. vm_compute. reflexivity. Qed.
