(* Proofs for C16. *)
From Coq Require Import List ZArith Bool Lia.
From RV Require Import Spec.SassFlow Model.EvScope Spec.SassScope Run.C16.
Import ListNotations.
Local Open Scope Z_scope.

(* ------------------------------------------------------------------ induction over statements *)
Section StmtInd.
  Variable P : stmt -> Prop.
  Hypothesis HSet : forall x e d g, P (SSet x e d g).
  Hypothesis HRead : forall id x, P (SRead id x).
  Hypothesis HBlock : forall k body, Forall P body -> P (SBlock k body).
  Hypothesis HIf : forall c t e, Forall P t -> Forall P e -> P (SIf c t e).
  Hypothesis HEach : forall x items body, Forall P body -> P (SEach x items body).
  Hypothesis HFor : forall x a b incl body, Forall P body -> P (SFor x a b incl body).
  Hypothesis HWhile : forall n body, Forall P body -> P (SWhile n body).
  Hypothesis HMixin : forall ps body, Forall P body -> P (SMixin ps body).

  Fixpoint stmt_rect' (s : stmt) : P s :=
    let go := fix go (l : list stmt) : Forall P l :=
      match l with
      | [] => Forall_nil P
      | x :: r => Forall_cons x (stmt_rect' x) (go r)
      end in
    match s with
    | SSet x e d g => HSet x e d g
    | SRead id x => HRead id x
    | SBlock k body => HBlock k body (go body)
    | SIf c t e => HIf c t e (go t) (go e)
    | SEach x items body => HEach x items body (go body)
    | SFor x a b incl body => HFor x a b incl body (go body)
    | SWhile n body => HWhile n body (go body)
    | SMixin ps body => HMixin ps body (go body)
    end.
End StmtInd.

(* ------------------------------------------------------------------ unfolding equations of the model *)
Lemma exec_set x e d g st out :
  exec (SSet x e d g) (st, out) = (set_variable st x (eval_expr st e) d g, out).
Proof. reflexivity. Qed.
Lemma exec_read id x st out : exec (SRead id x) (st, out) = (st, out ++ [(id, lookup st x)]).
Proof. reflexivity. Qed.
Lemma exec_block k body st out :
  exec (SBlock k body) (st, out) =
  let (st', out') := exec_list body (push st [], out) in (pop st', out').
Proof. reflexivity. Qed.
Lemma exec_if c t e st out :
  exec (SIf c t e) (st, out) = exec_list (if truthy_nz (eval_expr st c) then t else e) (st, out).
Proof. reflexivity. Qed.
Lemma exec_each x items body st out :
  exec (SEach x items body) (st, out) =
  let (st', out') :=
    fold_left (fun so i => exec_list body (set_current (fst so) x (SV i), snd so)) items (st, out) in
  (cur_restore st' x (cur_get st x), out').
Proof. reflexivity. Qed.
Lemma exec_for x a b incl body st out :
  exec (SFor x a b incl body) (st, out) =
  fold_left (fun so i =>
               let (st', out') := exec_list body (push (fst so) [(x, SV i)], snd so) in (pop st', out'))
            (spec_range a b incl) (st, out).
Proof. reflexivity. Qed.
Lemma exec_while n body st out :
  exec (SWhile n body) (st, out) =
  let (st', out') := repeat_fn n (exec_list body) (push st [], out) in (pop st', out').
Proof. reflexivity. Qed.
Lemma exec_mixin ps body st out :
  exec (SMixin ps body) (st, out) =
  let args := map (fun p => (fst p, eval_expr st (snd p))) ps in
  let argscope := fold_left (fun f p => f_set f (fst p) (snd p)) args [] in
  let (st', out') := exec_list body (mkSt [argscope; []] (global st), out) in
  (mkSt (locals st) (global st'), out').
Proof. reflexivity. Qed.

(* ------------------------------------------------------------------ frames *)
Lemma f_get_set_same f x v : f_get (f_set f x v) x = Some v.
Proof.
  induction f as [|[y w] r IH]; cbn; [rewrite Nat.eqb_refl; reflexivity|].
  destruct (Nat.eqb x y) eqn:E; cbn; rewrite E; [reflexivity | exact IH].
Qed.
Lemma f_get_set_other f x y v : x <> y -> f_get (f_set f x v) y = f_get f y.
Proof.
  intros N. induction f as [|[z w] r IH]; cbn.
  - destruct (Nat.eqb y x) eqn:E; [apply Nat.eqb_eq in E; congruence | reflexivity].
  - destruct (Nat.eqb x z) eqn:E; cbn.
    + apply Nat.eqb_eq in E; subst z.
      destruct (Nat.eqb y x) eqn:F; [apply Nat.eqb_eq in F; congruence | reflexivity].
    + rewrite IH. reflexivity.
Qed.
Lemma f_get_remove_same f x : f_get (f_remove f x) x = None.
Proof.
  unfold f_remove. induction f as [|[y w] r IH]; cbn; [reflexivity|].
  destruct (Nat.eqb x y) eqn:E; cbn; [exact IH | rewrite E; exact IH].
Qed.

(* ------------------------------------------------------------------ rule lemmas on Scope::set_variable *)
(* !global: only the root scope changes, and (unless guarded by !default) x is v there *)
Lemma global_flag st x v d :
  locals (set_variable st x v d true) = locals st /\
  (d = false -> f_get (global (set_variable st x v d true)) x = Some v) /\
  (forall y, y <> x -> f_get (global (set_variable st x v d true)) y = f_get (global st) y).
Proof.
  unfold set_variable. destruct (d && _) eqn:G.
  - split; [reflexivity|]. split; [intros ->; discriminate | reflexivity].
  - cbn. split; [reflexivity|]. split; [intros _; apply f_get_set_same|].
    intros y N. apply f_get_set_other. congruence.
Qed.

(* !default: assigns iff the variable is undefined or null *)
Lemma default_flag st x v g :
  set_variable st x v true g =
  match lookup st x with
  | Some (SV _) => st
  | _ => set_variable st x v false g
  end.
Proof. unfold set_variable. destruct (lookup st x) as [[z|]|]; reflexivity. Qed.

(* no flag: ALWAYS the current scope - the root cause of F23 *)
Lemma unflagged_writes_current st x v :
  set_variable st x v false false = set_current st x v /\
  tl (locals (set_variable st x v false false)) = tl (locals st) /\
  (locals st <> [] -> global (set_variable st x v false false) = global st).
Proof.
  unfold set_variable, set_current. cbn. destruct (locals st) as [|f r]; cbn; auto.
  split; [reflexivity|]. split; [reflexivity|]. congruence.
Qed.

(* ------------------------------------------------------------------ blocks never touch enclosing local scopes *)
Definition same_tail (a b : list frame) : Prop := length a = length b /\ tl a = tl b.
Lemma same_tail_refl a : same_tail a a. Proof. split; reflexivity. Qed.
Lemma same_tail_trans a b c : same_tail a b -> same_tail b c -> same_tail a c.
Proof. intros [H1 H2] [H3 H4]. split; congruence. Qed.

Lemma set_variable_tail st x v d g : same_tail (locals st) (locals (set_variable st x v d g)).
Proof.
  unfold set_variable. destruct (d && _); [apply same_tail_refl|].
  destruct g; [apply same_tail_refl|]. unfold set_current.
  destruct (locals st); split; reflexivity.
Qed.
Lemma set_current_tail st x v : same_tail (locals st) (locals (set_current st x v)).
Proof. unfold set_current. destruct (locals st); split; reflexivity. Qed.
Lemma cur_restore_tail st x o : same_tail (locals st) (locals (cur_restore st x o)).
Proof.
  unfold cur_restore. destruct o; [apply set_current_tail|].
  destruct (locals st); split; reflexivity.
Qed.

Definition keeps_tail (s : stmt) : Prop :=
  forall st out, same_tail (locals st) (locals (fst (exec s (st, out)))).

Lemma exec_list_tail body : Forall keeps_tail body ->
  forall st out, same_tail (locals st) (locals (fst (exec_list body (st, out)))).
Proof.
  induction 1 as [|s r Hs _ IH]; intros st out; cbn [exec_list]; [apply same_tail_refl|].
  destruct (exec s (st, out)) as [st1 out1] eqn:E.
  eapply same_tail_trans; [|apply IH]. specialize (Hs st out). rewrite E in Hs. exact Hs.
Qed.

(* a pushed scope is popped again and the scopes below come back unchanged *)
Lemma push_body_pop body f : Forall keeps_tail body ->
  forall st out, locals (pop (fst (exec_list body (push st f, out)))) = locals st.
Proof.
  intros H st out. destruct (exec_list_tail body H (push st f) out) as [_ Ht].
  cbn in Ht. cbn. symmetry. exact Ht.
Qed.

Lemma all_keep_tail : forall s, keeps_tail s.
Proof.
  apply stmt_rect'; unfold keeps_tail.
  - intros. rewrite exec_set. apply set_variable_tail.
  - intros. rewrite exec_read. apply same_tail_refl.
  - intros k body H st out. rewrite exec_block.
    pose proof (push_body_pop body [] H st out) as E.
    destruct (exec_list body (push st [], out)) as [st' out']. cbn in *. rewrite E. apply same_tail_refl.
  - intros c t e Ht He st out. rewrite exec_if. destruct (truthy_nz _); apply exec_list_tail; assumption.
  - intros x items body H st out. rewrite exec_each.
    assert (L : forall so, same_tail (locals (fst so))
              (locals (fst (fold_left (fun so i => exec_list body (set_current (fst so) x (SV i), snd so)) items so)))).
    { induction items as [|i r IH]; intros so; cbn [fold_left]; [apply same_tail_refl|].
      eapply same_tail_trans; [|apply IH]. eapply same_tail_trans; [apply (set_current_tail _ x (SV i))|].
      apply exec_list_tail. exact H. }
    specialize (L (st, out)). destruct (fold_left _ items (st, out)) as [st' out']. cbn in *.
    eapply same_tail_trans; [exact L | apply cur_restore_tail].
  - intros x a b incl body H st out. rewrite exec_for.
    generalize (spec_range a b incl). intros l. revert st out.
    induction l as [|i r IH]; intros st out; cbn [fold_left]; [apply same_tail_refl|].
    pose proof (push_body_pop body [(x, SV i)] H st out) as E. cbn [fst snd].
    destruct (exec_list body (push st [(x, SV i)], out)) as [st' out']. cbn in E.
    eapply same_tail_trans; [|apply IH]. cbn. rewrite E. apply same_tail_refl.
  - intros n body H st out. rewrite exec_while.
    assert (L : forall so, same_tail (locals (fst so)) (locals (fst (repeat_fn n (exec_list body) so)))).
    { induction n as [|n IH]; intros so; cbn [repeat_fn]; [apply same_tail_refl|].
      eapply same_tail_trans; [|apply IH]. destruct so. apply exec_list_tail. exact H. }
    specialize (L (push st [], out)). destruct (repeat_fn n _ _) as [st' out']. cbn in *.
    destruct L as [_ Lt]. rewrite <- Lt. apply same_tail_refl.
  - intros ps body H st out. rewrite exec_mixin. cbn zeta.
    destruct (exec_list body _) as [st' out']. cbn. apply same_tail_refl.
Qed.

(* the scope-creating items give back exactly the local scopes they started from: loop variables,
   parameters and every assignment made inside stay inside (for better - locality - and worse - F23) *)
Lemma hard_preserves_locals s : (match s with SBlock _ _ | SFor _ _ _ _ _ | SWhile _ _ | SMixin _ _ => True | _ => False end) ->
  forall st out, locals (fst (exec s (st, out))) = locals st.
Proof.
  assert (A : forall body, Forall keeps_tail body) by (intros body; apply Forall_forall; intros; apply all_keep_tail).
  destruct s; intros []; intros st out.
  - rewrite exec_block. pose proof (push_body_pop body [] (A body) st out) as E.
    destruct (exec_list body _) as [st' out']. exact E.
  - rewrite exec_for. generalize (spec_range a b incl). intros l. revert st out.
    induction l as [|i r IH]; intros st out; cbn [fold_left]; [reflexivity|].
    pose proof (push_body_pop body [(x, SV i)] (A body) st out) as E. cbn [fst snd].
    destruct (exec_list body (push st [(x, SV i)], out)) as [st' out']. cbn in E.
    rewrite IH. cbn. exact E.
  - rewrite exec_while.
    assert (L : forall so, same_tail (locals (fst so)) (locals (fst (repeat_fn n (exec_list body) so)))).
    { induction n as [|n IH]; intros so; cbn [repeat_fn]; [apply same_tail_refl|].
      eapply same_tail_trans; [|apply IH]. destruct so. apply exec_list_tail. apply A. }
    specialize (L (push st [], out)). destruct (repeat_fn n _ _) as [st' out']. cbn in *.
    destruct L as [_ Lt]. symmetry. exact Lt.
  - rewrite exec_mixin. cbn zeta. destruct (exec_list body _) as [st' out']. reflexivity.
Qed.

(* @each: whatever the body does, the loop variable's entry in the current scope is restored *)
Lemma cur_get_restore st x o : cur_get (cur_restore st x o) x = o.
Proof.
  unfold cur_restore, cur_get, set_current. destruct o as [v|]; destruct (locals st) as [|f r]; cbn;
  try apply f_get_set_same; apply f_get_remove_same.
Qed.
Lemma each_var_restored x items body st out :
  cur_get (fst (exec (SEach x items body) (st, out))) x = cur_get st x.
Proof.
  rewrite exec_each. destruct (fold_left _ items (st, out)) as [st' out']. cbn. apply cur_get_restore.
Qed.

(* ------------------------------------------------------------------ refuted clauses (witnesses) *)
Definition prog_K1 : list stmt :=
  [SBlock KRule [SSet 0%nat (EInt 1) false false; SBlock KRule [SSet 0%nat (EInt 2) false false]; SRead 0%nat 0%nat]].
Definition prog_K2 : list stmt :=
  [SSet 0%nat (EInt 1) false false; SIf (EInt 1) [SSet 1%nat (EInt 3) false false] []; SRead 1%nat 1%nat].
Definition prog_K3 : list stmt :=
  [SEach 0%nat [1; 2] [SSet 0%nat (EInt 7) false true; SRead 0%nat 0%nat]; SRead 1%nat 0%nat].

Definition disagrees (p : list stmt) : bool :=
  negb (out_eqb (by_id (run_prog p)) (by_id (fst (spec_run p)))).

Lemma refuted_K1 : known_class prog_K1 = 1 /\ disagrees prog_K1 = true.
Proof. vm_compute. split; reflexivity. Qed.
Lemma refuted_K2 : known_class prog_K2 = 2 /\ disagrees prog_K2 = true.
Proof. vm_compute. split; reflexivity. Qed.
Lemma refuted_K3 : known_class prog_K3 = 3 /\ disagrees prog_K3 = true.
Proof. vm_compute. split; reflexivity. Qed.
