(* Proofs for C16. *)
From Coq Require Import List ZArith Bool Lia.
From RV Require Import Spec.SassFlow Model.EvScope Spec.SassScope Run.C16.
Import ListNotations.
Local Open Scope Z_scope.

(* ------------------------------------------------------------------ induction over statements *)
Section StmtInd.
  Variable P : stmt -> Prop.
  Hypothesis HSet : forall x e d g, P (SSet x e d g).
  Hypothesis HRead : forall id x, P (SRead id x).
  Hypothesis HBlock : forall k body, Forall P body -> P (SBlock k body).
  Hypothesis HIf : forall c t e, Forall P t -> Forall P e -> P (SIf c t e).
  Hypothesis HEach : forall x items body, Forall P body -> P (SEach x items body).
  Hypothesis HFor : forall x a b incl body, Forall P body -> P (SFor x a b incl body).
  Hypothesis HWhile : forall n body, Forall P body -> P (SWhile n body).
  Hypothesis HMixin : forall ps body, Forall P body -> P (SMixin ps body).

  Fixpoint stmt_rect' (s : stmt) : P s :=
    let go := fix go (l : list stmt) : Forall P l :=
      match l with
      | [] => Forall_nil P
      | x :: r => Forall_cons x (stmt_rect' x) (go r)
      end in
    match s with
    | SSet x e d g => HSet x e d g
    | SRead id x => HRead id x
    | SBlock k body => HBlock k body (go body)
    | SIf c t e => HIf c t e (go t) (go e)
    | SEach x items body => HEach x items body (go body)
    | SFor x a b incl body => HFor x a b incl body (go body)
    | SWhile n body => HWhile n body (go body)
    | SMixin ps body => HMixin ps body (go body)
    end.
End StmtInd.

(* ------------------------------------------------------------------ unfolding equations of the model *)
Lemma exec_set x e d g st out :
  exec (SSet x e d g) (st, out) = (set_variable st x (eval_expr st e) d g, out).
Proof. reflexivity. Qed.
Lemma exec_read id x st out : exec (SRead id x) (st, out) = (st, out ++ [(id, lookup st x)]).
Proof. reflexivity. Qed.
Lemma exec_block k body st out :
  exec (SBlock k body) (st, out) =
  let (st', out') := exec_list body (push st [], out) in (pop st', out').
Proof. reflexivity. Qed.
Lemma exec_if c t e st out :
  exec (SIf c t e) (st, out) = exec_list (if truthy_nz (eval_expr st c) then t else e) (st, out).
Proof. reflexivity. Qed.
Lemma exec_each x items body st out :
  exec (SEach x items body) (st, out) =
  let (st', out') :=
    fold_left (fun so i => exec_list body (set_current (fst so) x (SV i), snd so)) items (st, out) in
  (cur_restore st' x (cur_get st x), out').
Proof. reflexivity. Qed.
Lemma exec_for x a b incl body st out :
  exec (SFor x a b incl body) (st, out) =
  fold_left (fun so i =>
               let (st', out') := exec_list body (push (fst so) [(x, SV i)], snd so) in (pop st', out'))
            (spec_range a b incl) (st, out).
Proof. reflexivity. Qed.
Lemma exec_while n body st out :
  exec (SWhile n body) (st, out) =
  let (st', out') := repeat_fn n (exec_list body) (push st [], out) in (pop st', out').
Proof. reflexivity. Qed.
Lemma exec_mixin ps body st out :
  exec (SMixin ps body) (st, out) =
  let args := map (fun p => (fst p, eval_expr st (snd p))) ps in
  let argscope := fold_left (fun f p => f_set f (fst p) (snd p)) args [] in
  let (st', out') := exec_list body (mkSt [argscope] (global st), out) in
  (mkSt (locals st) (global st'), out').
Proof. reflexivity. Qed.

(* ------------------------------------------------------------------ frames *)
Lemma f_get_set_same f x v : f_get (f_set f x v) x = Some v.
Proof.
  induction f as [|[y w] r IH]; cbn; [rewrite Nat.eqb_refl; reflexivity|].
  destruct (Nat.eqb x y) eqn:E; cbn; rewrite E; [reflexivity | exact IH].
Qed.
Lemma f_get_set_other f x y v : x <> y -> f_get (f_set f x v) y = f_get f y.
Proof.
  intros N. induction f as [|[z w] r IH]; cbn.
  - destruct (Nat.eqb y x) eqn:E; [apply Nat.eqb_eq in E; congruence | reflexivity].
  - destruct (Nat.eqb x z) eqn:E; cbn.
    + apply Nat.eqb_eq in E; subst z.
      destruct (Nat.eqb y x) eqn:F; [apply Nat.eqb_eq in F; congruence | reflexivity].
    + rewrite IH. reflexivity.
Qed.
Lemma f_get_remove_same f x : f_get (f_remove f x) x = None.
Proof.
  unfold f_remove. induction f as [|[y w] r IH]; cbn; [reflexivity|].
  destruct (Nat.eqb x y) eqn:E; cbn; [exact IH | rewrite E; exact IH].
Qed.

(* ------------------------------------------------------------------ rule lemmas on Scope::set_variable *)
(* !global: only the root scope changes, and (unless guarded by !default) x is v there *)
Lemma global_flag st x v d :
  locals (set_variable st x v d true) = locals st /\
  (d = false -> f_get (global (set_variable st x v d true)) x = Some v) /\
  (forall y, y <> x -> f_get (global (set_variable st x v d true)) y = f_get (global st) y).
Proof.
  unfold set_variable. destruct (d && _) eqn:G.
  - split; [reflexivity|]. split; [intros ->; discriminate | reflexivity].
  - cbn. split; [reflexivity|]. split; [intros _; apply f_get_set_same|].
    intros y N. apply f_get_set_other. congruence.
Qed.

(* !default: assigns iff the variable is undefined or null *)
Lemma default_flag st x v g :
  set_variable st x v true g =
  match lookup st x with
  | Some (SV _) => st
  | _ => set_variable st x v false g
  end.
Proof. unfold set_variable. destruct (lookup st x) as [[z|]|]; reflexivity. Qed.

(* no flag: ALWAYS the current scope - the root cause of F23 *)
Lemma unflagged_writes_current st x v :
  set_variable st x v false false = set_current st x v /\
  tl (locals (set_variable st x v false false)) = tl (locals st) /\
  (locals st <> [] -> global (set_variable st x v false false) = global st).
Proof.
  unfold set_variable, set_current. cbn. destruct (locals st) as [|f r]; cbn; auto.
  split; [reflexivity|]. split; [reflexivity|]. congruence.
Qed.

(* ------------------------------------------------------------------ blocks never touch enclosing local scopes *)
Definition same_tail (a b : list frame) : Prop := length a = length b /\ tl a = tl b.
Lemma same_tail_refl a : same_tail a a. Proof. split; reflexivity. Qed.
Lemma same_tail_trans a b c : same_tail a b -> same_tail b c -> same_tail a c.
Proof. intros [H1 H2] [H3 H4]. split; congruence. Qed.

Lemma set_variable_tail st x v d g : same_tail (locals st) (locals (set_variable st x v d g)).
Proof.
  unfold set_variable. destruct (d && _); [apply same_tail_refl|].
  destruct g; [apply same_tail_refl|]. unfold set_current.
  destruct (locals st); split; reflexivity.
Qed.
Lemma set_current_tail st x v : same_tail (locals st) (locals (set_current st x v)).
Proof. unfold set_current. destruct (locals st); split; reflexivity. Qed.
Lemma cur_restore_tail st x o : same_tail (locals st) (locals (cur_restore st x o)).
Proof.
  unfold cur_restore. destruct o; [apply set_current_tail|].
  destruct (locals st); split; reflexivity.
Qed.

Definition keeps_tail (s : stmt) : Prop :=
  forall st out, same_tail (locals st) (locals (fst (exec s (st, out)))).

Lemma exec_list_tail body : Forall keeps_tail body ->
  forall st out, same_tail (locals st) (locals (fst (exec_list body (st, out)))).
Proof.
  induction 1 as [|s r Hs _ IH]; intros st out; cbn [exec_list]; [apply same_tail_refl|].
  destruct (exec s (st, out)) as [st1 out1] eqn:E.
  eapply same_tail_trans; [|apply IH]. specialize (Hs st out). rewrite E in Hs. exact Hs.
Qed.

(* a pushed scope is popped again and the scopes below come back unchanged *)
Lemma push_body_pop body f : Forall keeps_tail body ->
  forall st out, locals (pop (fst (exec_list body (push st f, out)))) = locals st.
Proof.
  intros H st out. destruct (exec_list_tail body H (push st f) out) as [_ Ht].
  cbn in Ht. cbn. symmetry. exact Ht.
Qed.

Lemma all_keep_tail : forall s, keeps_tail s.
Proof.
  apply stmt_rect'; unfold keeps_tail.
  - intros. rewrite exec_set. apply set_variable_tail.
  - intros. rewrite exec_read. apply same_tail_refl.
  - intros k body H st out. rewrite exec_block.
    pose proof (push_body_pop body [] H st out) as E.
    destruct (exec_list body (push st [], out)) as [st' out']. cbn in *. rewrite E. apply same_tail_refl.
  - intros c t e Ht He st out. rewrite exec_if. destruct (truthy_nz _); apply exec_list_tail; assumption.
  - intros x items body H st out. rewrite exec_each.
    assert (L : forall so, same_tail (locals (fst so))
              (locals (fst (fold_left (fun so i => exec_list body (set_current (fst so) x (SV i), snd so)) items so)))).
    { induction items as [|i r IH]; intros so; cbn [fold_left]; [apply same_tail_refl|].
      eapply same_tail_trans; [|apply IH]. eapply same_tail_trans; [apply (set_current_tail _ x (SV i))|].
      apply exec_list_tail. exact H. }
    specialize (L (st, out)). destruct (fold_left _ items (st, out)) as [st' out']. cbn in *.
    eapply same_tail_trans; [exact L | apply cur_restore_tail].
  - intros x a b incl body H st out. rewrite exec_for.
    generalize (spec_range a b incl). intros l. revert st out.
    induction l as [|i r IH]; intros st out; cbn [fold_left]; [apply same_tail_refl|].
    pose proof (push_body_pop body [(x, SV i)] H st out) as E. cbn [fst snd].
    destruct (exec_list body (push st [(x, SV i)], out)) as [st' out']. cbn in E.
    eapply same_tail_trans; [|apply IH]. cbn. rewrite E. apply same_tail_refl.
  - intros n body H st out. rewrite exec_while.
    assert (L : forall so, same_tail (locals (fst so)) (locals (fst (repeat_fn n (exec_list body) so)))).
    { induction n as [|n IH]; intros so; cbn [repeat_fn]; [apply same_tail_refl|].
      eapply same_tail_trans; [|apply IH]. destruct so. apply exec_list_tail. exact H. }
    specialize (L (push st [], out)). destruct (repeat_fn n _ _) as [st' out']. cbn in *.
    destruct L as [_ Lt]. rewrite <- Lt. apply same_tail_refl.
  - intros ps body H st out. rewrite exec_mixin. cbn zeta.
    destruct (exec_list body _) as [st' out']. cbn. apply same_tail_refl.
Qed.

(* the scope-creating items give back exactly the local scopes they started from: loop variables,
   parameters and every assignment made inside stay inside (for better - locality - and worse - F23) *)
Lemma hard_preserves_locals s : (match s with SBlock _ _ | SFor _ _ _ _ _ | SWhile _ _ | SMixin _ _ => True | _ => False end) ->
  forall st out, locals (fst (exec s (st, out))) = locals st.
Proof.
  assert (A : forall body, Forall keeps_tail body) by (intros body; apply Forall_forall; intros; apply all_keep_tail).
  destruct s; intros []; intros st out.
  - rewrite exec_block. pose proof (push_body_pop body [] (A body) st out) as E.
    destruct (exec_list body _) as [st' out']. exact E.
  - rewrite exec_for. generalize (spec_range a b incl). intros l. revert st out.
    induction l as [|i r IH]; intros st out; cbn [fold_left]; [reflexivity|].
    pose proof (push_body_pop body [(x, SV i)] (A body) st out) as E. cbn [fst snd].
    destruct (exec_list body (push st [(x, SV i)], out)) as [st' out']. cbn in E.
    rewrite IH. cbn. exact E.
  - rewrite exec_while.
    assert (L : forall so, same_tail (locals (fst so)) (locals (fst (repeat_fn n (exec_list body) so)))).
    { induction n as [|n IH]; intros so; cbn [repeat_fn]; [apply same_tail_refl|].
      eapply same_tail_trans; [|apply IH]. destruct so. apply exec_list_tail. apply A. }
    specialize (L (push st [], out)). destruct (repeat_fn n _ _) as [st' out']. cbn in *.
    destruct L as [_ Lt]. symmetry. exact Lt.
  - rewrite exec_mixin. cbn zeta. destruct (exec_list body _) as [st' out']. reflexivity.
Qed.

(* @each: whatever the body does, the loop variable's entry in the current scope is restored *)
Lemma cur_get_restore st x o : cur_get (cur_restore st x o) x = o.
Proof.
  unfold cur_restore, cur_get, set_current. destruct o as [v|]; destruct (locals st) as [|f r]; cbn;
  try apply f_get_set_same; apply f_get_remove_same.
Qed.
Lemma each_var_restored x items body st out :
  cur_get (fst (exec (SEach x items body) (st, out))) x = cur_get st x.
Proof.
  rewrite exec_each. destruct (fold_left _ items (st, out)) as [st' out']. cbn. apply cur_get_restore.
Qed.

(* ------------------------------------------------------------------ refuted clauses (witnesses) *)
Definition prog_K1 : list stmt :=
  [SBlock KRule [SSet 0%nat (EInt 1) false false; SBlock KRule [SSet 0%nat (EInt 2) false false]; SRead 0%nat 0%nat]].
Definition prog_K2 : list stmt :=
  [SSet 0%nat (EInt 1) false false; SIf (EInt 1) [SSet 1%nat (EInt 3) false false] []; SRead 1%nat 1%nat].
Definition prog_K3 : list stmt :=
  [SEach 0%nat [1; 2] [SSet 0%nat (EInt 7) false true; SRead 0%nat 0%nat]; SRead 1%nat 0%nat].

Definition disagrees (p : list stmt) : bool :=
  negb (out_eqb (by_id (run_prog p)) (by_id (fst (spec_run p)))).

Lemma refuted_K1 : known_class prog_K1 = 1 /\ disagrees prog_K1 = true.
Proof. vm_compute. split; reflexivity. Qed.
Lemma refuted_K2 : known_class prog_K2 = 2 /\ disagrees prog_K2 = true.
Proof. vm_compute. split; reflexivity. Qed.
Lemma refuted_K3 : known_class prog_K3 = 3 /\ disagrees prog_K3 = true.
Proof. vm_compute. split; reflexivity. Qed.

(* ------------------------------------------------------------------ main theorem (partial):
   programs without @if/@each - every block kind for which rsass creates a Scope, @for, @while,
   mixins, all flag combinations - agree with the reference whenever the reference run has no
   known-class event *)
Fixpoint hard_only (s : stmt) : bool :=
  let go := fix go (l : list stmt) : bool :=
    match l with [] => true | x :: r => hard_only x && go r end in
  match s with
  | SSet _ _ _ _ | SRead _ _ => true
  | SBlock _ b | SFor _ _ _ _ b | SWhile _ b | SMixin _ b => go b
  | SIf _ _ _ | SEach _ _ _ => false
  end.
Fixpoint hard_only_list (l : list stmt) : bool :=
  match l with [] => true | x :: r => hard_only x && hard_only_list r end.

Lemma sexec_set x e d g st out ev :
  sexec (SSet x e d g) (st, out, ev) =
  let (st', e') := assign st x (seval_expr st e) d g in (st', out, ev_or ev e').
Proof. reflexivity. Qed.
Lemma sexec_read id x st out ev : sexec (SRead id x) (st, out, ev) = (st, out ++ [(id, slookup st x)], ev).
Proof. reflexivity. Qed.
Lemma sexec_block k body st out ev :
  sexec (SBlock k body) (st, out, ev) =
  let '(st', out', ev') := sexec_list body (spush st TRule [], out, ev) in (spop st', out', ev').
Proof. reflexivity. Qed.
Lemma sexec_for x a b incl body st out ev :
  sexec (SFor x a b incl body) (st, out, ev) =
  fold_left (fun so i =>
               let '(s1, o1, e1) := so in
               let '(s2, o2, e2) := sexec_list body (spush s1 TFor [(x, SV i)], o1, e1) in
               (spop s2, o2, e2))
            (spec_range a b incl) (st, out, ev).
Proof. reflexivity. Qed.
Lemma sexec_while n body st out ev :
  sexec (SWhile n body) (st, out, ev) =
  let '(st', out', ev') := repeat_fn n (sexec_list body) (spush st TWhile [], out, ev) in
  (spop st', out', ev').
Proof. reflexivity. Qed.
Lemma sexec_mixin ps body st out ev :
  sexec (SMixin ps body) (st, out, ev) =
  let args := map (fun p => (fst p, seval_expr st (snd p))) ps in
  let pframe := fold_left (fun f p => f_set f (fst p) (snd p)) args [] in
  let '(st', out', ev') := sexec_list body (mkSS [(TMixin, pframe)] (sglobal st), out, ev) in
  (mkSS (slocals st) (sglobal st'), out', ev_or ev' (mkEv false false (each_alias_any (slocals st)))).
Proof. reflexivity. Qed.

Lemma ev_or_none a b : ev_or a b = ev_none -> a = ev_none /\ b = ev_none.
Proof.
  destruct a as [a1 a2 a3], b as [b1 b2 b3]. unfold ev_or, ev_none. cbn. intros H. injection H as H1 H2 H3.
  apply orb_false_iff in H1. apply orb_false_iff in H2. apply orb_false_iff in H3.
  destruct H1, H2, H3. subst. auto.
Qed.

(* events only accumulate *)
Definition mono (s : stmt) : Prop :=
  hard_only s = true -> forall st out ev, snd (sexec s (st, out, ev)) = ev_none -> ev = ev_none.
Lemma mono_list body : Forall mono body -> hard_only_list body = true ->
  forall so, snd (sexec_list body so) = ev_none -> snd so = ev_none.
Proof.
  induction 1 as [|s r Hs _ IH]; intros Hh so E; cbn [sexec_list] in *; [exact E|].
  cbn [hard_only_list] in Hh. apply andb_true_iff in Hh. destruct Hh as [Hh1 Hh2].
  specialize (IH Hh2 _ E). destruct so as [[st out] ev]. cbn. eapply (Hs Hh1). exact IH.
Qed.
Lemma hard_only_go b :
  (fix go (l : list stmt) : bool := match l with [] => true | x :: r => hard_only x && go r end) b
  = hard_only_list b.
Proof. induction b as [|x r IH]; [reflexivity|]. cbn [hard_only_list]. rewrite <- IH. reflexivity. Qed.

Lemma all_mono : forall s, mono s.
Proof.
  apply stmt_rect'; unfold mono.
  - intros x e d g _ st out ev. rewrite sexec_set. destruct (assign _ _ _ _ _) as [st' e']. cbn.
    intros H. apply ev_or_none in H. tauto.
  - intros id x _ st out ev. rewrite sexec_read. cbn. auto.
  - intros k body H Hh st out ev. cbn [hard_only] in Hh. rewrite hard_only_go in Hh. rewrite sexec_block.
    pose proof (mono_list body H Hh (spush st TRule [], out, ev)) as M.
    destruct (sexec_list body _) as [[st' out'] ev']. cbn in *. exact M.
  - intros c t e _ _ Hh. discriminate.
  - intros x items body _ Hh. discriminate.
  - intros x a b incl body H Hh st out ev. cbn [hard_only] in Hh. rewrite hard_only_go in Hh. rewrite sexec_for.
    generalize (spec_range a b incl). intros l. revert st out ev.
    induction l as [|i r IH]; intros st out ev; cbn [fold_left]; [auto|].
    pose proof (mono_list body H Hh (spush st TFor [(x, SV i)], out, ev)) as M.
    destruct (sexec_list body _) as [[s2 o2] e2]. cbn in M. intros E. apply M. eapply IH. exact E.
  - intros n body H Hh st out ev. cbn [hard_only] in Hh. rewrite hard_only_go in Hh. rewrite sexec_while.
    assert (L : forall so, snd (repeat_fn n (sexec_list body) so) = ev_none -> snd so = ev_none).
    { induction n as [|n IH]; intros so; cbn [repeat_fn]; [auto|].
      intros E. apply (mono_list body H Hh). apply IH. exact E. }
    specialize (L (spush st TWhile [], out, ev)).
    destruct (repeat_fn n _ _) as [[st' out'] ev']. cbn in *. exact L.
  - intros ps body H Hh st out ev. cbn [hard_only] in Hh. rewrite hard_only_go in Hh. rewrite sexec_mixin. cbn zeta.
    pose proof (mono_list body H Hh (mkSS [(TMixin, fold_left (fun f p => f_set f (fst p) (snd p))
        (map (fun p => (fst p, seval_expr st (snd p))) ps) [])] (sglobal st), out, ev)) as M.
    destruct (sexec_list body _) as [[st' out'] ev']. cbn in *. intros E. apply ev_or_none in E. tauto.
Qed.

(* the simulation relation: same scopes, and every reference scope is one rsass creates too *)
Definition R (st : state) (sst : sstate) : Prop :=
  locals st = map snd (slocals sst) /\ global st = sglobal sst /\
  forallb (fun tf => is_hard (fst tf)) (slocals sst) = true.

Lemma chain_get_map l x : chain_get (map snd l) x = schain_get l x.
Proof. induction l as [|[t f] r IH]; [reflexivity|]. cbn. rewrite IH. reflexivity. Qed.
Lemma R_lookup st sst x : R st sst -> lookup st x = slookup sst x.
Proof. intros (H1 & H2 & _). unfold lookup, slookup. rewrite H1, H2, chain_get_map. reflexivity. Qed.
Lemma R_eval st sst e : R st sst -> eval_expr st e = seval_expr sst e.
Proof. intros H. destruct e; cbn; try reflexivity. rewrite (R_lookup _ _ _ H). reflexivity. Qed.

Lemma update_crossed l x v : forall l' c, update_innermost l x v true = Some (l', c) -> c = true.
Proof.
  induction l as [|[t f] r IH]; intros l' c; cbn; [discriminate|].
  destruct (f_get f x); [intros H; inversion H; reflexivity|].
  destruct (update_innermost r x v true) as [[r' c']|] eqn:E; [|discriminate].
  intros H; inversion H; subst. exact (IH r' c eq_refl).
Qed.

Lemma R_assign st sst x v d g sst' ev' :
  R st sst -> assign sst x v d g = (sst', ev') -> ev' = ev_none -> R (set_variable st x v d g) sst'.
Proof.
  intros HR HA HE. pose proof HR as (H1 & H2 & H3).
  unfold assign in HA. unfold set_variable. rewrite (R_lookup _ _ x HR).
  destruct (d && _).
  { inversion HA; subst. exact HR. }
  destruct g.
  { inversion HA; subst. unfold set_global, R. cbn. rewrite H2. auto. }
  unfold set_current.
  destruct (slocals sst) as [|[t f] r] eqn:EL.
  - (* at top level: the current scope is the global one *)
    cbn in H1. rewrite H1. cbn in HA.
    assert (HA' : (mkSS [] (f_set (sglobal sst) x v), ev_none) = (sst', ev')).
    { destruct (f_get (sglobal sst) x); cbn in HA; unfold semi_global, declare_current in HA; rewrite ?EL in HA; cbn in HA; exact HA. }
    inversion HA'; subst. unfold R. cbn. rewrite H2. auto.
  - cbn in H1. rewrite H1. cbn [update_innermost] in HA. cbn in H3. apply andb_true_iff in H3. destruct H3 as [Ht Hr].
    destruct (f_get f x) eqn:EF.
    + inversion HA; subst. unfold R. cbn. rewrite Ht, Hr. auto.
    + rewrite Ht in HA. cbn [orb] in HA.
      destruct (update_innermost r x v true) as [[r' c]|] eqn:EU.
      * pose proof (update_crossed _ _ _ _ _ EU). subst c. inversion HA; subst. discriminate.
      * unfold semi_global, declare_current in HA. rewrite EL in HA. cbn in HA.
        destruct (f_get (sglobal sst) x).
        -- destruct (is_flow t && _).
           ++ rewrite Ht in HA. cbn [orb] in HA. inversion HA; subst. discriminate.
           ++ inversion HA; subst. unfold R. cbn. rewrite Ht, Hr. auto.
        -- inversion HA; subst. unfold R. cbn. rewrite Ht, Hr. auto.
Qed.

Lemma R_push st sst t f : R st sst -> is_hard t = true -> R (push st f) (spush sst t f).
Proof. intros (H1 & H2 & H3) Ht. unfold R. cbn. rewrite H1, H2, Ht, H3. auto. Qed.
Lemma R_pop st sst : R st sst -> R (pop st) (spop sst).
Proof.
  intros (H1 & H2 & H3). unfold R. cbn. rewrite H1, H2. split; [|split; [reflexivity|]].
  - destruct (slocals sst); reflexivity.
  - destruct (slocals sst) as [|a r]; [reflexivity|]. cbn in *. apply andb_true_iff in H3. tauto.
Qed.

Definition sim (s : stmt) : Prop :=
  hard_only s = true -> forall st sst out ev, R st sst ->
  snd (sexec s (sst, out, ev)) = ev_none ->
  R (fst (exec s (st, out))) (fst (fst (sexec s (sst, out, ev)))) /\
  snd (exec s (st, out)) = snd (fst (sexec s (sst, out, ev))).

Lemma sim_list body : Forall sim body -> hard_only_list body = true ->
  forall st sst out ev, R st sst ->
  snd (sexec_list body (sst, out, ev)) = ev_none ->
  R (fst (exec_list body (st, out))) (fst (fst (sexec_list body (sst, out, ev)))) /\
  snd (exec_list body (st, out)) = snd (fst (sexec_list body (sst, out, ev))).
Proof.
  induction 1 as [|s r Hs Hall IH]; intros Hh st sst out ev HR HE; cbn [exec_list sexec_list] in *; [auto|].
  cbn [hard_only_list] in Hh. apply andb_true_iff in Hh. destruct Hh as [Hh1 Hh2].
  assert (M : Forall mono r) by (apply Forall_forall; intros; apply all_mono).
  pose proof (mono_list r M Hh2 _ HE) as E1.
  destruct (Hs Hh1 st sst out ev HR E1) as [HR1 HO1].
  destruct (exec s (st, out)) as [st1 out1]. destruct (sexec s (sst, out, ev)) as [[sst1 sout1] ev1].
  cbn in *. subst sout1. apply IH; assumption.
Qed.

Lemma all_sim : forall s, sim s.
Proof.
  apply stmt_rect'; unfold sim.
  - intros x e d g _ st sst out ev HR. rewrite sexec_set, exec_set.
    rewrite (R_eval _ _ e HR).
    destruct (assign sst x (seval_expr sst e) d g) as [sst' e'] eqn:EA. cbn. intros HE.
    apply ev_or_none in HE. destruct HE as [_ HE]. split; [|reflexivity].
    eapply R_assign; eauto.
  - intros id x _ st sst out ev HR. rewrite sexec_read, exec_read. cbn. intros _.
    rewrite (R_lookup _ _ x HR). auto.
  - intros k body H Hh st sst out ev HR. cbn [hard_only] in Hh. rewrite hard_only_go in Hh.
    rewrite sexec_block, exec_block.
    pose proof (sim_list body H Hh (push st []) (spush sst TRule []) out ev (R_push _ _ TRule [] HR eq_refl)) as S.
    destruct (exec_list body (push st [], out)) as [st' out'].
    destruct (sexec_list body (spush sst TRule [], out, ev)) as [[sst' sout'] ev']. cbn in *.
    intros HE. destruct (S HE) as [HR' HO]. split; [apply R_pop; exact HR' | exact HO].
  - intros c t e _ _ Hh. discriminate.
  - intros x items body _ Hh. discriminate.
  - intros x a b incl body H Hh st sst out ev HR. cbn [hard_only] in Hh. rewrite hard_only_go in Hh.
    rewrite sexec_for, exec_for. generalize (spec_range a b incl). intros l. revert st sst out ev HR.
    induction l as [|i r IH]; intros st sst out ev HR; cbn [fold_left]; [cbn; auto|].
    cbn [fst snd].
    pose proof (sim_list body H Hh (push st [(x, SV i)]) (spush sst TFor [(x, SV i)]) out ev
                  (R_push _ _ TFor _ HR eq_refl)) as S.
    assert (MB : Forall mono body) by (apply Forall_forall; intros; apply all_mono).
    destruct (exec_list body (push st [(x, SV i)], out)) as [st' out'].
    destruct (sexec_list body (spush sst TFor [(x, SV i)], out, ev)) as [[sst' sout'] ev'] eqn:EB.
    intros HE.
    assert (E1 : ev' = ev_none).
    { clear - HE H Hh MB. revert HE. generalize (spop sst') sout' ev'. clear sst' sout' ev'.
      induction r as [|j r IHr]; intros s0 o0 e0; cbn [fold_left]; [auto|].
      pose proof (mono_list body MB Hh (spush s0 TFor [(x, SV j)], o0, e0)) as M.
      destruct (sexec_list body _) as [[s2 o2] e2]. cbn in M. intros E. apply M. eapply IHr. exact E. }
    cbn in S. destruct (S E1) as [HR' HO]. subst sout'.
    apply IH; [apply R_pop; exact HR' | exact HE].
  - intros n body H Hh st sst out ev HR. cbn [hard_only] in Hh. rewrite hard_only_go in Hh.
    rewrite sexec_while, exec_while.
    assert (MB : Forall mono body) by (apply Forall_forall; intros; apply all_mono).
    assert (L : forall st sst out ev, R st sst ->
              snd (repeat_fn n (sexec_list body) (sst, out, ev)) = ev_none ->
              R (fst (repeat_fn n (exec_list body) (st, out))) (fst (fst (repeat_fn n (sexec_list body) (sst, out, ev)))) /\
              snd (repeat_fn n (exec_list body) (st, out)) = snd (fst (repeat_fn n (sexec_list body) (sst, out, ev)))).
    { clear st sst out ev HR. induction n as [|n IH]; intros st sst out ev HR; cbn [repeat_fn]; [cbn; auto|].
      intros HE.
      assert (E1 : snd (sexec_list body (sst, out, ev)) = ev_none).
      { clear - HE MB Hh. revert HE. generalize (sexec_list body (sst, out, ev)). clear sst out ev.
        induction n as [|n IHn]; intros so; cbn [repeat_fn]; [auto|].
        intros E. apply (mono_list body MB Hh). apply IHn. exact E. }
      destruct (sim_list body H Hh st sst out ev HR E1) as [HR1 HO1].
      destruct (exec_list body (st, out)) as [st1 out1].
      destruct (sexec_list body (sst, out, ev)) as [[sst1 sout1] ev1]. cbn in *. subst sout1.
      apply IH; assumption. }
    specialize (L (push st []) (spush sst TWhile []) out ev (R_push _ _ TWhile [] HR eq_refl)).
    destruct (repeat_fn n (exec_list body) (push st [], out)) as [st' out'].
    destruct (repeat_fn n (sexec_list body) (spush sst TWhile [], out, ev)) as [[sst' sout'] ev']. cbn in *.
    intros HE. destruct (L HE) as [HR' HO]. split; [apply R_pop; exact HR' | exact HO].
  - intros ps body H Hh st sst out ev HR. cbn [hard_only] in Hh. rewrite hard_only_go in Hh.
    rewrite sexec_mixin, exec_mixin. cbn zeta.
    assert (EA : map (fun p => (fst p, eval_expr st (snd p))) ps = map (fun p => (fst p, seval_expr sst (snd p))) ps).
    { apply map_ext. intros p. rewrite (R_eval _ _ _ HR). reflexivity. }
    rewrite EA.
    match goal with |- context [fold_left ?f ?l (@nil (var * sval))] => set (pf := fold_left f l []) end.
    pose proof HR as (H1 & H2 & H3).
    assert (HR0 : R (mkSt [pf] (global st)) (mkSS [(TMixin, pf)] (sglobal sst))).
    { unfold R. cbn. rewrite H2. auto. }
    pose proof (sim_list body H Hh _ _ out ev HR0) as S.
    destruct (exec_list body (mkSt [pf] (global st), out)) as [st' out'].
    destruct (sexec_list body (mkSS [(TMixin, pf)] (sglobal sst), out, ev)) as [[sst' sout'] ev']. cbn in *.
    intros HE. apply ev_or_none in HE. destruct HE as [HE _].
    destruct (S HE) as [(_ & HG & _) HO]. split; [|exact HO].
    unfold R. cbn. rewrite H1, HG. auto.
Qed.

Lemma main_gen p st sst out :
  R st sst -> hard_only_list p = true ->
  snd (sexec_list p (sst, out, ev_none)) = ev_none ->
  snd (exec_list p (st, out)) = snd (fst (sexec_list p (sst, out, ev_none))).
Proof.
  intros HR Hh HE.
  assert (A : Forall sim p) by (apply Forall_forall; intros; apply all_sim).
  exact (proj2 (sim_list p A Hh st sst out ev_none HR HE)).
Qed.

Lemma spec_run_out p : fst (spec_run p) = snd (fst (sexec_list p (mkSS [] [], [], ev_none))).
Proof. unfold spec_run. destruct (sexec_list p _) as [[a b] c]. reflexivity. Qed.
Lemma spec_run_ev p : snd (spec_run p) = snd (sexec_list p (mkSS [] [], [], ev_none)).
Proof. unfold spec_run. destruct (sexec_list p _) as [[a b] c]. reflexivity. Qed.

Lemma main_partial p :
  hard_only_list p = true -> known_class p = 0 -> run_prog p = fst (spec_run p).
Proof.
  intros Hh Hk.
  assert (HR : R (mkSt [] []) (mkSS [] [])) by (unfold R; cbn; auto).
  assert (E : snd (spec_run p) = ev_none).
  { unfold known_class in Hk. destruct (snd (spec_run p)) as [a b c]. cbn in Hk.
    destruct a; [discriminate|]. destruct b; [discriminate|]. destruct c; [discriminate|]. reflexivity. }
  pose proof (spec_run_ev p) as Ev. pose proof (spec_run_out p) as Ou.
  unfold run_prog. refine (eq_trans _ (eq_sym Ou)).
  apply main_gen; [exact HR | exact Hh | exact (eq_trans (eq_sym Ev) E)].
Qed.
