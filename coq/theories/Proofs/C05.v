(* Proofs for C05. *)
From Coq Require Import String List Bool Arith Lia.
From RV Require Import Base.ListX Gen.Statics Model.Statics.
Import ListNotations.
Local Open Scope string_scope.

(* ---- inventory ---- *)
Definition item_eqb (a b : item) : bool :=
  String.eqb (fst a) (fst b) && String.eqb (fst (snd a)) (fst (snd b))
  && String.eqb (fst (snd (snd a))) (fst (snd (snd b))) && String.eqb (snd (snd (snd a))) (snd (snd (snd b))).
Definition inventory_closed : bool := list_eqb item_eqb statics (map fst modelled_statics).
Lemma inventory_closed_ok : inventory_closed = true.
Proof. vm_compute. reflexivity. Qed.

Lemma classes_ok : forallb class_ok modelled_statics = true.
Proof. vm_compute. reflexivity. Qed.

Definition mut_eqb (a b : string * (string * (string * bool))) : bool :=
  String.eqb (fst a) (fst b) && String.eqb (fst (snd a)) (fst (snd b))
  && String.eqb (fst (snd (snd a))) (fst (snd (snd b))) && Bool.eqb (snd (snd (snd a))) (snd (snd (snd b))).
Definition mutators_closed : bool := list_eqb mut_eqb scope_mutators (map fst modelled_mutators).
Lemma mutators_closed_ok : mutators_closed = true.
Proof. vm_compute. reflexivity. Qed.

(* every interior-mutable field of Scope is accounted for by the mutator scan, and the only writer of
   `variables` reachable with a module-qualified name carries the built-in guard *)
Definition scope_shape_ok : bool :=
  forallb (fun f => negb (snd (snd f)) || existsb (fun m => contains (fst f) (fst (snd (snd m)))) scope_mutators) scope_fields
  && existsb (fun m => String.eqb (fst m) "set_variable" && snd (snd (snd m))) scope_mutators.
Lemma scope_shape_ok_true : scope_shape_ok = true.
Proof. vm_compute. reflexivity. Qed.

Lemma class_ok_all : forall e, In e modelled_statics -> class_ok e = true.
Proof. exact (sweep1 modelled_statics class_ok classes_ok). Qed.

(* ---- interleavings ---- *)
Section StoreProofs.
  Variable V : Type.
  Variable init : nat -> V.
  Notation step := (step V init).
  Notation run := (run V init).
  Notation store_ok := (store_ok V init).
  Notation solo_obs := (solo_obs V init).

  Lemma step_obs : forall o s, store_ok s -> uses_excluded o = false ->
    snd (fst (step o s)) = solo_obs o /\ store_ok (fst (fst (step o s))).
  Proof.
    intros o s Hs Hx. destruct o as [k|j| |]; try discriminate; cbn [Model.Statics.step Model.Statics.solo_obs].
    - destruct (cells V s k) as [v|] eqn:E; cbn.
      + split; [rewrite (Hs k v E); reflexivity|exact Hs].
      + split; [reflexivity|]. intros i v. cbn. destruct (Nat.eqb_spec i k) as [->|Hne].
        * intros H; inversion H; reflexivity.
        * apply Hs.
    - destruct (warned V s j); cbn; split; try reflexivity; exact Hs.
  Qed.

  Lemma nth_set_same : forall ps t p, nth_prog ps t <> [] -> nth_prog (set_prog ps t p) t = p.
  Proof.
    induction ps as [|q r IH]; intros t p H; [destruct t; cbn in H; contradiction|].
    destruct t; cbn in *; [reflexivity|apply IH; exact H].
  Qed.
  Lemma nth_set_other : forall ps t t' p, t <> t' -> nth_prog (set_prog ps t p) t' = nth_prog ps t'.
  Proof.
    induction ps as [|q r IH]; intros t t' p H; [destruct t; reflexivity|].
    destruct t, t'; cbn; try reflexivity; try lia. apply IH. lia.
  Qed.

  Definition clean (ps : list (list op)) : Prop := forall t o, In o (nth_prog ps t) -> uses_excluded o = false.

  Theorem interleaving : forall sched ps s, store_ok s -> clean ps ->
    forall t, exists n, view V t (run sched ps s) = map solo_obs (firstn n (nth_prog ps t)).
  Proof.
    induction sched as [|t0 r IH]; intros ps s Hs Hc t.
    - exists 0%nat. reflexivity.
    - cbn [Model.Statics.run]. destruct (nth_prog ps t0) as [|o rest] eqn:Ep.
      + apply IH; assumption.
      + assert (Hx : uses_excluded o = false) by (apply (Hc t0); rewrite Ep; left; reflexivity).
        destruct (step_obs o s Hs Hx) as [Hob Hs'].
        destruct (step o s) as [[s' ob] e]. cbn [fst snd] in Hob, Hs'.
        assert (Hne : nth_prog ps t0 <> []) by (rewrite Ep; discriminate).
        assert (Hc' : clean (set_prog ps t0 rest)).
        { intros t1 o1 Hin. destruct (Nat.eq_dec t0 t1) as [<-|Hd].
          - rewrite nth_set_same in Hin by exact Hne. apply (Hc t0). rewrite Ep. right. exact Hin.
          - rewrite nth_set_other in Hin by exact Hd. apply (Hc t1). exact Hin. }
        destruct (IH (set_prog ps t0 rest) s' Hs' Hc' t) as [n Hn].
        unfold view in *. cbn [filter fst]. destruct (Nat.eqb_spec t0 t) as [->|Hd].
        * exists (S n). cbn [map snd]. rewrite Hn, nth_set_same by exact Hne. rewrite Ep. cbn [firstn map]. rewrite Hob. reflexivity.
        * exists n. rewrite Hn, nth_set_other by exact Hd. reflexivity.
  Qed.

  (* two runs - different schedules, different earlier history (any well-formed stores) - show every thread
     prefixes of one and the same sequence *)
  Corollary history_independent : forall sched1 sched2 ps s1 s2, store_ok s1 -> store_ok s2 -> clean ps ->
    forall t, exists n1 n2,
      view V t (run sched1 ps s1) = map solo_obs (firstn n1 (nth_prog ps t))
      /\ view V t (run sched2 ps s2) = map solo_obs (firstn n2 (nth_prog ps t)).
  Proof.
    intros. destruct (interleaving sched1 ps s1 H H1 t) as [n1 H3]. destruct (interleaving sched2 ps s2 H0 H1 t) as [n2 H4].
    exists n1, n2. split; assumption.
  Qed.

  Lemma empty_store_ok : store_ok (mkStore V (fun _ => None) (fun _ => false) 0).
  Proof. intros k v H. discriminate. Qed.
End StoreProofs.
