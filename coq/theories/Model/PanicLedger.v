(* The panic-site ledger of the pinned tree: every potential panic site of Gen/PanicSites.v
   (as generated from the pinned commit) with its classification.  Written by tools/mkledger.py,
   reviewed by hand; a site of the CURRENT tree that is not listed here breaks C01_ledger_complete. *)
From Coq Require Import String List NArith.
Import ListNotations.
Local Open Scope string_scope.

Inductive site_class : Type :=
| Proved (lemma : string)        (* the panicking branch is unreachable: lemma in Proofs/C01.v or Proofs/C01Sites.v *)
| Reachable (finding : string)   (* a panic reachable within the property's bounds: known finding *)
| Unmodelled.                    (* not modelled: covered by exploration only *)

Definition ledger : list ((string * string * string * string * N) * site_class) :=
  [
(("rsass/src/css/atrule.rs", "write", "index", "if let [ AtRuleBodyItem :: Comment ( c ) ] = & body [ .. ] {", 1%N), (Proved "slice_full_safe"));
   (("rsass/src/css/call_args.rs", "len", "intarith", "self . positional . len ( ) + self . named . len ( )", 1%N), (Proved "call_args_len_safe"));
   (("rsass/src/css/comment.rs", "write", "intarith", "let start = buf . format ( ) . get_indent ( indent - existing ) ;", 1%N), Unmodelled);
   (("rsass/src/css/comment.rs", "write", "intarith", "let start = buf . format ( ) . get_indent ( existing - indent - 1 ) ;", 1%N), Unmodelled);
   (("rsass/src/css/comment.rs", "write", "intarith", "let start = buf . format ( ) . get_indent ( existing - indent - 1 ) ;", 2%N), Unmodelled);
   (("rsass/src/css/selectors/pseudo.rs", "replace", "unwrap", "Arg :: Selector ( s . replace ( original , replacement ) . unwrap ( ) )", 1%N), Unmodelled);
   (("rsass/src/css/selectors/selectorset.rs", "is_root", "index", "self . s . len ( ) == 1 && self . s [ 0 ] == Selector :: default ( )", 1%N), (Proved "guarded_index_safe"));
   (("rsass/src/error.rs", "fmt", "intarith", "match * self {", 1%N), Unmodelled);
   (("rsass/src/error.rs", "fmt", "intarith", "if * module {", 1%N), Unmodelled);
   (("rsass/src/input/context.rs", "lock_loading", "unwrap", "pos . next ( ) . unwrap ( ) . clone ( ) ,", 1%N), Unmodelled);
   (("rsass/src/input/sourcepos.rs", "fragment", "index", "& self . source . data ( ) [ self . range ( ) ]", 1%N), Unmodelled);
   (("rsass/src/input/sourcepos.rs", "line_no", "index", "self . source . data ( ) [ 0 .. self . start ]", 1%N), Unmodelled);
   (("rsass/src/input/sourcepos.rs", "line_no", "intarith", "+ 1", 1%N), Unmodelled);
   (("rsass/src/input/sourcepos.rs", "line_pos", "intarith", ". map_or ( 0 , | n | n + 1 ) ;", 1%N), Unmodelled);
   (("rsass/src/input/sourcepos.rs", "line_pos", "intarith", "self . start - start + 1", 1%N), Unmodelled);
   (("rsass/src/input/sourcepos.rs", "line_pos", "intarith", "self . start - start + 1", 2%N), Unmodelled);
   (("rsass/src/input/sourcepos.rs", "show_in_file", "intarith", "let ellipsis = first . line_no ( ) + 1 < second . line_no ( ) ;", 1%N), Unmodelled);
   (("rsass/src/input/sourcepos.rs", "show_inner", "intarith", ". map_or ( 0 , | n | n + 1 ) ;", 1%N), Unmodelled);
   (("rsass/src/input/sourcepos.rs", "show_inner", "unwrap", ". unwrap ( ) ;", 1%N), Unmodelled);
   (("rsass/src/input/sourcepos.rs", "show_inner", "index", "let line = & data [ start .. end ] ;", 1%N), Unmodelled);
   (("rsass/src/input/sourcepos.rs", "show_inner", "intarith", "lpos = self . start - start ,", 1%N), Unmodelled);
   (("rsass/src/input/sourcepos.rs", "show_inner", "intarith", "mark = marker . to_string ( ) . repeat ( ( self . end - self . start ) . max ( 1 ) ) ,", 1%N), Unmodelled);
   (("rsass/src/input/sourcepos.rs", "opt_back", "intarith", "if self . source . data ( ) . get ( self . start - len .. self . start )", 1%N), (Proved "opt_back_safe"));
   (("rsass/src/input/sourcepos.rs", "opt_back", "intarith", "self . start -= len ;", 1%N), (Proved "opt_back_safe"));
   (("rsass/src/input/sourcepos.rs", "opt_in_calc", "intarith", "self . start += s . len ( ) ;", 1%N), Unmodelled);
   (("rsass/src/input/sourcepos.rs", "opt_in_calc", "intarith", "self . end -= 1 ;", 1%N), Unmodelled);
   (("rsass/src/input/sourcepos.rs", "opt_trail_ws", "intarith", "self . end += 1 ;", 1%N), Unmodelled);
   (("rsass/src/input/sourcepos.rs", "mock_impl", "intarith", "start : kind . len ( ) + 1 ,", 1%N), Unmodelled);
   (("rsass/src/input/sourcepos.rs", "mock_impl", "intarith", "end : line . len ( ) - 2 ,", 1%N), Unmodelled);
   (("rsass/src/output/cssbuf.rs", "start_block", "intarith", "self . indent += 2 ;", 1%N), Unmodelled);
   (("rsass/src/output/cssbuf.rs", "end_block", "intarith", "self . indent -= 2 ;", 1%N), Unmodelled);
   (("rsass/src/output/cssbuf.rs", "do_indent_no_nl", "index", "self . add_str ( & stuff [ 1 .. ] ) ;", 1%N), (Proved "do_indent_no_nl_safe"));
   (("rsass/src/output/cssdata.rs", "into_buffer", "intarith", "let mut result = Vec :: with_capacity ( mark . len ( ) + buf . len ( ) ) ;", 1%N), Unmodelled);
   (("rsass/src/output/format.rs", "get_indent", "index", "& INDENT [ ..= len . min ( INDENT . len ( ) - 1 ) ]", 1%N), (Proved "indent_safe"));
   (("rsass/src/output/format.rs", "get_indent", "intarith", "& INDENT [ ..= len . min ( INDENT . len ( ) - 1 ) ]", 1%N), (Proved "indent_nonempty"));
   (("rsass/src/output/transform.rs", "check_body", "index", "name_in ( name , & CSS_AT_RULES [ .. ] )", 1%N), (Proved "slice_full_safe"));
   (("rsass/src/parser/css/media.rs", "args", "unwrap", "v . into_iter ( ) . next ( ) . unwrap ( )", 1%N), Unmodelled);
   (("rsass/src/parser/css/media.rs", "media_args_and", "unwrap", "v . into_iter ( ) . next ( ) . unwrap ( )", 1%N), Unmodelled);
   (("rsass/src/parser/css/media.rs", "media_args_or", "unwrap", "v . into_iter ( ) . next ( ) . unwrap ( )", 1%N), Unmodelled);
   (("rsass/src/parser/css/media.rs", "media_args_one", "unwrap", "from_utf8 ( & op ) . unwrap ( ) . into ( ) ,", 1%N), Unmodelled);
   (("rsass/src/parser/css/media.rs", "media_slash_list_no_space", "unwrap", "list . into_iter ( ) . next ( ) . unwrap ( )", 1%N), Unmodelled);
   (("rsass/src/parser/css/strings.rs", "hash_no_interpolation", "unwrap", "Ok ( ( next , input_to_str ( hash ) . unwrap ( ) ) )", 1%N), Unmodelled);
   (("rsass/src/parser/css/values.rs", "list_or_single", "unwrap", "list . into_iter ( ) . next ( ) . unwrap ( )", 1%N), Unmodelled);
   (("rsass/src/parser/error.rs", "from", "intarith", "VerboseErrorKind :: Char ( ch ) if * ch == '\'' => {", 1%N), Unmodelled);
   (("rsass/src/parser/error.rs", "from", "unwrap", ". unwrap ( ) ;", 1%N), Unmodelled);
   (("rsass/src/parser/mod.rs", "list_or_single", "unwrap", "list . into_iter ( ) . next ( ) . unwrap ( )", 1%N), Unmodelled);
   (("rsass/src/parser/span.rs", "new_range", "macro_assert", "assert ! ( range . end <= source . data ( ) . len ( ) ) ;", 1%N), Unmodelled);
   (("rsass/src/parser/span.rs", "fragment", "index", "& self . source . data ( ) [ self . range ( ) ]", 1%N), Unmodelled);
   (("rsass/src/parser/span.rs", "location_line", "index", "self . source . data ( ) [ 0 .. self . start ]", 1%N), Unmodelled);
   (("rsass/src/parser/span.rs", "location_line", "intarith", "+ 1", 1%N), Unmodelled);
   (("rsass/src/parser/span.rs", "get_utf8_column", "intarith", ". map_or ( self . start + 1 , | s | self . start - s )", 1%N), Unmodelled);
   (("rsass/src/parser/span.rs", "get_utf8_column", "intarith", ". map_or ( self . start + 1 , | s | self . start - s )", 2%N), Unmodelled);
   (("rsass/src/parser/span.rs", "input_len", "intarith", "self . end - self . start", 1%N), Unmodelled);
   (("rsass/src/parser/span.rs", "take", "intarith", "let end = self . start + index ;", 1%N), Unmodelled);
   (("rsass/src/parser/span.rs", "take", "macro_assert", "assert ! ( end <= self . end , ""Tried to take {index} from {self:?}"" ) ;", 1%N), Unmodelled);
   (("rsass/src/parser/span.rs", "take_from", "intarith", "let mid = self . start + index ;", 1%N), Unmodelled);
   (("rsass/src/parser/span.rs", "take_from", "macro_assert", "assert ! ( mid <= self . end , ""Tried to take_from {index} from {self:?}"" ) ;", 1%N), Unmodelled);
   (("rsass/src/parser/span.rs", "take_split", "intarith", "let mid = self . start + index ;", 1%N), Unmodelled);
   (("rsass/src/parser/span.rs", "take_split", "macro_assert", "assert ! ( mid <= self . end , ""Tried to take_split {index} from {self:?}"" ) ;", 1%N), Unmodelled);
   (("rsass/src/parser/span.rs", "offset", "macro_assert", "assert ! ( std :: ptr :: eq ( self . source , second . source ) ) ;", 1%N), Unmodelled);
   (("rsass/src/parser/span.rs", "offset", "intarith", "second . start - self . start", 1%N), Unmodelled);
   (("rsass/src/parser/strings.rs", "special_function_misc", "unwrap", "args . prepend ( from_utf8 ( start . fragment ( ) ) . unwrap ( ) ) ;", 1%N), Unmodelled);
   (("rsass/src/parser/strings.rs", "special_function_misc", "unwrap", "args . append_str ( from_utf8 ( end . fragment ( ) ) . unwrap ( ) ) ;", 1%N), Unmodelled);
   (("rsass/src/parser/value.rs", "value_expression", "unwrap", "result . into_iter ( ) . next ( ) . unwrap ( )", 1%N), Unmodelled);
   (("rsass/src/parser/value.rs", "unicode_range_inner", "intarith", "many_m_n ( 0 , 6 - a . len ( ) , one_of ( ""?"" ) ) ,", 1%N), Unmodelled);
   (("rsass/src/parser/value.rs", "unicode_range_inner", "index", "let matched = & input . fragment ( ) [ 0 .. length ] ;", 1%N), Unmodelled);
   (("rsass/src/parser/value.rs", "unicode_range_inner", "unwrap", "Ok ( ( rest , from_utf8 ( matched ) . unwrap ( ) . to_string ( ) ) )", 1%N), Unmodelled);
   (("rsass/src/parser/value.rs", "hex_color", "intarith", "let length = input . fragment ( ) . len ( ) - rest . fragment ( ) . len ( ) ;", 1%N), Unmodelled);
   (("rsass/src/parser/value.rs", "hex_color", "index", "from_utf8 ( & input . fragment ( ) [ 0 .. length ] ) . unwrap ( ) . to_string ( ) ;", 1%N), Unmodelled);
   (("rsass/src/parser/value.rs", "hex_color", "unwrap", "from_utf8 ( & input . fragment ( ) [ 0 .. length ] ) . unwrap ( ) . to_string ( ) ;", 1%N), Unmodelled);
   (("rsass/src/parser/value.rs", "hexchar_raw", "unwrap", "ch . to_digit ( 16 ) . unwrap ( ) as u8", 1%N), Unmodelled);
   (("rsass/src/sass/call_args.rs", "evaluate_single", "intarith", "i += items . len ( ) ;", 1%N), Unmodelled);
   (("rsass/src/sass/call_args.rs", "evaluate_single", "intarith", "i += splat . len ( ) ;", 1%N), Unmodelled);
   (("rsass/src/sass/functions/color/channels.rs", "try_from", "index", "Value :: List ( v , Some ( ListSeparator :: Slash ) , _ ) => match & v [ .. ] {", 1%N), (Proved "slice_full_safe"));
   (("rsass/src/sass/functions/color/channels.rs", "conv", "index", "CallError :: msg ( format ! ( ""Missing element ${}."" , names [ 0 ] ) )", 1%N), (Proved "conv_names_safe"));
   (("rsass/src/sass/functions/color/channels.rs", "conv", "index", "CallError :: msg ( format ! ( ""Missing element ${}."" , names [ 1 ] ) )", 1%N), (Proved "conv_names_safe"));
   (("rsass/src/sass/functions/color/channels.rs", "conv", "index", "CallError :: msg ( format ! ( ""Missing element ${}."" , names [ 2 ] ) )", 1%N), (Proved "conv_names_safe"));
   (("rsass/src/sass/functions/color/mod.rs", "inner", "index", "l . len ( ) == 2 && inner ( & l [ 0 ] )", 1%N), (Proved "guarded_index_safe"));
   (("rsass/src/sass/functions/list.rs", "create_module", "intarith", "return Ok ( Value :: scalar ( i + 1 ) ) ;", 1%N), (Proved "enumerate_plus_one_safe"));
   (("rsass/src/sass/functions/list.rs", "create_module", "intarith", "return Ok ( Value :: scalar ( i + 1 ) ) ;", 2%N), (Proved "enumerate_plus_one_safe"));
   (("rsass/src/sass/functions/list.rs", "create_module", "intarith", "if * k == l [ 0 ] && * v == l [ 1 ] {", 1%N), Unmodelled);
   (("rsass/src/sass/functions/list.rs", "create_module", "index", "if * k == l [ 0 ] && * v == l [ 1 ] {", 1%N), (Proved "index_map_pair_safe"));
   (("rsass/src/sass/functions/list.rs", "create_module", "index", "if * k == l [ 0 ] && * v == l [ 1 ] {", 2%N), (Proved "index_map_pair_safe"));
   (("rsass/src/sass/functions/list.rs", "create_module", "intarith", "return Ok ( Value :: scalar ( i + 1 ) ) ;", 3%N), (Proved "enumerate_plus_one_safe"));
   (("rsass/src/sass/functions/list.rs", "create_module", "intarith", "arg . named . get_item ( n - arg . positional . len ( ) ) . map_or (", 1%N), (Proved "nth_arglist_safe"));
   (("rsass/src/sass/functions/list.rs", "create_module", "index", "Ok ( list [ n ] . clone ( ) )", 1%N), (Proved "nth_list_safe"));
   (("rsass/src/sass/functions/list.rs", "create_module", "index", "list [ i ] = s . get ( name ! ( value ) ) ? ;", 1%N), (Proved "nth_list_safe"));
   (("rsass/src/sass/functions/list.rs", "create_module", "index", "let items = lists . iter ( ) . map ( | v | v [ i ] . clone ( ) ) . collect ( ) ;", 1%N), (Proved "zip_access_safe"));
   (("rsass/src/sass/functions/list.rs", "index_of", "intarith", "Ok ( ( n - 1 ) as usize )", 1%N), (Proved "index_of_safe"));
   (("rsass/src/sass/functions/list.rs", "index_of", "intarith", "Ok ( ( len as i64 + n ) as usize )", 1%N), (Proved "index_of_safe"));
   (("rsass/src/sass/functions/map.rs", "do_deep_remove", "index", "map . remove ( & keys [ 0 ] ) ;", 1%N), (Proved "deep_remove_safe"));
   (("rsass/src/sass/functions/map.rs", "do_deep_remove", "index", "if let Some ( Value :: Map ( inner ) ) = map . get_mut ( & keys [ 0 ] ) {", 1%N), (Proved "deep_remove_safe"));
   (("rsass/src/sass/functions/map.rs", "do_deep_remove", "index", "do_deep_remove ( inner , & keys [ 1 .. ] ) ;", 1%N), (Proved "deep_remove_safe"));
   (("rsass/src/sass/functions/math.rs", "create_module", "intarith", "Some ( bound ) => Ok ( Value :: scalar ( fastrand :: i64 ( 0 .. bound ) + 1 ) ) ,", 1%N), Unmodelled);
   (("rsass/src/sass/functions/math.rs", "create_module", "unwrap", "f . define ( name ! ( pi ) , Value :: scalar ( PI ) ) . unwrap ( ) ;", 1%N), Unmodelled);
   (("rsass/src/sass/functions/math.rs", "create_module", "unwrap", "f . define ( name ! ( e ) , Value :: scalar ( E ) ) . unwrap ( ) ;", 1%N), Unmodelled);
   (("rsass/src/sass/functions/math.rs", "create_module", "unwrap", ". unwrap ( ) ;", 1%N), Unmodelled);
   (("rsass/src/sass/functions/math.rs", "create_module", "unwrap", ". unwrap ( ) ;", 2%N), Unmodelled);
   (("rsass/src/sass/functions/math.rs", "create_module", "unwrap", ". unwrap ( ) ;", 3%N), Unmodelled);
   (("rsass/src/sass/functions/math.rs", "create_module", "unwrap", ". unwrap ( ) ;", 4%N), Unmodelled);
   (("rsass/src/sass/functions/math.rs", "create_module", "unwrap", ". unwrap ( ) ;", 5%N), Unmodelled);
   (("rsass/src/sass/functions/math/css.rs", "do_eval", "unwrap", "let arg = args . get_single ( ) . unwrap ( ) ;", 1%N), Unmodelled);
   (("rsass/src/sass/functions/string.rs", "create_module", "intarith", "Value :: scalar ( 1 + string [ 0 .. i ] . chars ( ) . count ( ) )", 1%N), (Proved "str_index_site_safe"));
   (("rsass/src/sass/functions/string.rs", "create_module", "index", "Value :: scalar ( 1 + string [ 0 .. i ] . chars ( ) . count ( ) )", 1%N), (Proved "str_index_site_safe"));
   (("rsass/src/sass/functions/string.rs", "create_module", "intarith", "len . saturating_sub ( index . unsigned_abs ( ) as usize - 1 )", 1%N), (Proved "insert_index_safe"));
   (("rsass/src/sass/functions/string.rs", "create_module", "intarith", "min ( start_at as usize - 1 , len )", 1%N), (Proved "slice_start_safe"));
   (("rsass/src/sass/functions/string.rs", "create_module", "intarith", "len . saturating_sub ( end_at . unsigned_abs ( ) as usize - 1 )", 1%N), (Proved "slice_end_safe"));
   (("rsass/src/sass/functions/string.rs", "create_module", "intarith", "Mutex :: new ( u64 :: from ( std :: process :: id ( ) ) * 0xa01 )", 1%N), Unmodelled);
   (("rsass/src/sass/functions/string.rs", "create_module", "unwrap", "let mut v = CALL_ID . lock ( ) . unwrap ( ) ;", 1%N), Unmodelled);
   (("rsass/src/sass/functions/string.rs", "create_module", "intarith", "* v += 1 ;", 1%N), Unmodelled);
   (("rsass/src/sass/string.rs", "single_raw", "index", "&& let StringPart :: Raw ( s ) = & self . parts [ 0 ]", 1%N), (Proved "guarded_index_safe"));
   (("rsass/src/value/colors/rgba.rs", "cmp_chan", "unwrap", "( false , false ) => a . partial_cmp ( & b ) . unwrap ( ) ,", 1%N), Unmodelled);
   (("rsass/src/value/number.rs", "fmt", "intarith", "let max_decimals = 16 - whole . log10 ( ) . ceil ( ) as usize ;", 1%N), Unmodelled);
   (("rsass/src/value/number.rs", "fmt", "intarith", "let end = ( frac * 10. ) . round ( ) . abs ( ) as u8 ;", 1%N), Unmodelled);
   (("rsass/src/value/number.rs", "fmt", "intarith", "dec . push ( char :: from ( c as u8 + 1 ) ) ;", 1%N), Unmodelled);
   (("rsass/src/value/range.rs", "new", "intarith", "let to = if inclusive { to + step } else { to } ;", 1%N), Unmodelled);
   (("rsass/src/value/range.rs", "next", "intarith", "self . from += self . step ;", 1%N), Unmodelled);
   (("rsass/src/value/unitset.rs", "valid_in_css", "index", "match & self . dim [ .. ] {", 1%N), (Proved "slice_full_safe"));
   (("rsass/src/variablescope.rs", "expose", "unwrap", "for ( name , function ) in & * self . functions . lock ( ) . unwrap ( ) {", 1%N), Unmodelled);
   (("rsass/src/variablescope.rs", "expose", "unwrap", "for ( name , m ) in & * self . mixins . lock ( ) . unwrap ( ) {", 1%N), Unmodelled);
   (("rsass/src/variablescope.rs", "expose", "unwrap", "for ( name , value ) in & * self . variables . lock ( ) . unwrap ( ) {", 1%N), Unmodelled);
   (("rsass/src/variablescope.rs", "expose", "unwrap", "result . define ( name . clone ( ) , value . clone ( ) ) . unwrap ( ) ;", 1%N), Unmodelled);
   (("rsass/src/variablescope.rs", "builtin_module", "unwrap", ". unwrap ( ) ;", 1%N), Unmodelled);
   (("rsass/src/variablescope.rs", "define_module", "unwrap", "self . modules . lock ( ) . unwrap ( ) . insert ( name , module ) ;", 1%N), Unmodelled);
   (("rsass/src/variablescope.rs", "get_module", "unwrap", ". unwrap ( )", 1%N), Unmodelled);
   (("rsass/src/variablescope.rs", "set_variable", "unwrap", "self . variables . lock ( ) . unwrap ( ) . insert ( name , val ) ;", 1%N), Unmodelled);
   (("rsass/src/variablescope.rs", "define_global", "unwrap", "self . variables . lock ( ) . unwrap ( ) . insert ( name , val ) ;", 1%N), Unmodelled);
   (("rsass/src/variablescope.rs", "define_multi", "index", "Ok ( self . define ( names [ 0 ] . clone ( ) , value ) ? )", 1%N), (Proved "guarded_index_safe"));
   (("rsass/src/variablescope.rs", "get_local_or_none", "unwrap", ". unwrap ( )", 1%N), Unmodelled);
   (("rsass/src/variablescope.rs", "store_local_values", "unwrap", "let vars = self . variables . lock ( ) . unwrap ( ) ;", 1%N), Unmodelled);
   (("rsass/src/variablescope.rs", "restore_local_values", "unwrap", "let mut vars = self . variables . lock ( ) . unwrap ( ) ;", 1%N), Unmodelled);
   (("rsass/src/variablescope.rs", "get_mixin", "unwrap", "self . mixins . lock ( ) . unwrap ( ) . get ( name ) . cloned ( ) . or_else ( || {", 1%N), Unmodelled);
   (("rsass/src/variablescope.rs", "define_mixin", "unwrap", "self . mixins . lock ( ) . unwrap ( ) . insert ( name , mixin ) ;", 1%N), Unmodelled);
   (("rsass/src/variablescope.rs", "define_function", "unwrap", "self . functions . lock ( ) . unwrap ( ) . insert ( name , func ) ;", 1%N), Unmodelled);
   (("rsass/src/variablescope.rs", "get_function", "unwrap", "let f = self . functions . lock ( ) . unwrap ( ) . get ( name ) . cloned ( ) ;", 1%N), Unmodelled);
   (("rsass/src/variablescope.rs", "get_lfunction", "unwrap", "self . functions . lock ( ) . unwrap ( ) . get ( name ) . unwrap ( ) . clone ( )", 1%N), Unmodelled);
   (("rsass/src/variablescope.rs", "get_lfunction", "unwrap", "self . functions . lock ( ) . unwrap ( ) . get ( name ) . unwrap ( ) . clone ( )", 2%N), Unmodelled);
   (("rsass/src/variablescope.rs", "do_use", "index", ". map_or ( name , | i | & name [ i + 1 .. ] ) ;", 1%N), Unmodelled);
   (("rsass/src/variablescope.rs", "do_use", "unwrap", "for ( name , function ) in & * module . functions . lock ( ) . unwrap ( ) {", 1%N), Unmodelled);
   (("rsass/src/variablescope.rs", "do_use", "unwrap", "for ( name , value ) in & * module . variables . lock ( ) . unwrap ( ) {", 1%N), Unmodelled);
   (("rsass/src/variablescope.rs", "do_use", "unwrap", "for ( name , m ) in & * module . mixins . lock ( ) . unwrap ( ) {", 1%N), Unmodelled);
   (("rsass/src/variablescope.rs", "expose_star", "unwrap", "for ( name , function ) in & * other . functions . lock ( ) . unwrap ( ) {", 1%N), Unmodelled);
   (("rsass/src/variablescope.rs", "expose_star", "unwrap", "for ( name , value ) in & * other . variables . lock ( ) . unwrap ( ) {", 1%N), Unmodelled);
   (("rsass/src/variablescope.rs", "expose_star", "unwrap", "self . define ( name . clone ( ) , value . clone ( ) ) . unwrap ( ) ;", 1%N), Unmodelled);
   (("rsass/src/variablescope.rs", "expose_star", "unwrap", "for ( name , m ) in & * other . mixins . lock ( ) . unwrap ( ) {", 1%N), Unmodelled);
   (("rsass/src/variablescope.rs", "functions_map", "unwrap", "for ( name , value ) in & * self . functions . lock ( ) . unwrap ( ) {", 1%N), Unmodelled);
   (("rsass/src/variablescope.rs", "variables_map", "unwrap", "for ( name , value ) in & * self . variables . lock ( ) . unwrap ( ) {", 1%N), Unmodelled);
   (("rsass/src/variablescope.rs", "forward", "unwrap", ". unwrap ( )", 1%N), Unmodelled);
   (("rsass/src/variablescope.rs", "opt_forward", "unwrap", "self . forward . lock ( ) . unwrap ( ) . clone ( )", 1%N), Unmodelled)
].
