(* Model of calc() / min() / max() / clamp() over numbers and var():
     parser/css_function.rs      (which parentheses become Value::Paren: all, arithmetic = true)
     sass/value.rs BinOp::eval   (operands evaluated first, Operator::eval, else the BinOp is kept)
     sass/functions/math/css.rs  (calc: do_eval, pre_calc; clamp)  math.rs (css_fn_arg, min/max find_extreme)
     css/binop.rs                (Display with its parenthesis rule, which uses the DERIVED ORDER of
                                  enum Operator: Gen/Operators.v)
   Numbers are binary64 with unit sets (Model/Numeric.v).  Text is produced only for numbers that are
   dyadic with at most 10 fractional binary digits (their decimal expansion is exact within the 10 digits
   rsass prints); anything else is reported as outside the model. *)
From Coq Require Import String List NArith ZArith QArith Bool Ascii.
From RV Require Import Base.F64 Base.Text Gen.Units Gen.Operators Model.Units Model.Numeric Spec.CalcSem.
Import ListNotations.
Local Open Scope Z_scope.
Local Open Scope list_scope.

(* the calculation as written: numbers carry the f64 the Rust number parser produces *)
Inductive mtree : Type :=
| MNum (bits : Z) (unit : string)
| MVar (i : nat)
| MBin (o : cop) (l r : mtree).

(* css::Value restricted to these inputs; spacing flags are normalised by do_eval *)
Inductive cv : Type :=
| VN (n : numeric)
| VV (i : nat)
| VB (o : cop) (a b : cv).

Definition unit_of_text (t : string) : unit :=
  if String.eqb t "" then u_none else
  match assoc t parser_units with
  | Some v => UK v
  | None => UU t
  end.

Definition nop_of (o : cop) : nop :=
  match o with CAdd => OPlus | CSub => OMinus | CMul => OMul | CDiv => ODiv end.

(* sass::Value::do_evaluate with arithmetic = true (call arguments, and every Paren(_, false)) *)
Fixpoint seval (t : mtree) : option cv :=
  match t with
  | MNum b u => Some (VN (mkNum (of_bits b) (us_of_unit (unit_of_text u))))
  | MVar i => Some (VV i)
  | MBin o l r =>
      match seval l, seval r with
      | Some a, Some b =>
          match a, b with
          | VN x, VN y =>
              match eval_nop (nop_of o) x y with
              | RNum n => Some (VN n)
              | RKept => Some (VB o a b)
              | _ => None
              end
          | _, _ => Some (VB o a b)        (* valid operands, Operator::eval = None *)
          end
      | _, _ => None
      end
  end.

(* ---- css_fn_arg: unit checks on what stays inside calc() ---- *)
Definition us_is_known (s : unitset) : bool :=
  forallb (fun up => match fst up with UU _ => false | _ => true end) s.
Definition us_is_percent (s : unitset) : bool :=
  match s with [(UK v, 1)] => String.eqb v "Percent" | _ => false end.

Definition css_dim_name (u : unit) : string :=
  match dimension_of u with
  | DK d => match assoc d dimension_css with Some c => c | None => "?" end
  | DU _ => match assoc "Unknown" dimension_css with Some c => c | None => "?" end
  | DBad => "?"
  end.
Fixpoint cd_add (l : list (string * Z)) (d : string) (p : Z) : list (string * Z) :=
  match l with
  | [] => [(d, p)]
  | (e, q) :: r => if String.eqb d e then (e, q + p) :: r else (e, q) :: cd_add r d p
  end.
Definition css_dimension (s : unitset) : list (string * Z) :=
  filter (fun x => negb (snd x =? 0))
    (fold_left (fun acc (up : unit * Z) =>
       let d := css_dim_name (fst up) in
       if String.eqb d "None" then acc else cd_add acc d (snd up)) s []).
Fixpoint cd_sub (a b : list (string * Z)) : bool :=
  match a with
  | [] => true
  | (d, p) :: r => existsb (fun y => String.eqb d (fst y) && (p =? snd y)) b && cd_sub r b
  end.
Definition cd_eqb (a b : list (string * Z)) : bool := cd_sub a b && cd_sub b a.

Definition known_dim (n : numeric) : option (list (string * Z)) :=
  if us_is_known (nunit n) && negb (us_is_percent (nunit n)) then Some (css_dimension (nunit n)) else None.
Definition valid_in_css (s : unitset) : bool :=
  (Nat.ltb (length s) 2) && match css_dimension s with [] => true | [(_, p)] => (p =? 1) | _ => false end.

Inductive cres : Type :=
| CNumber (n : numeric)     (* simplified to a number *)
| CCalc (v : cv)            (* stays calc(v) *)
| CErr                      (* an error is reported *)
| CUnmod.

Fixpoint css_fn_arg (v : cv) : option cv :=       (* None = Err *)
  match v with
  | VN n => if valid_in_css (nunit n) then Some v else None
  | VV _ => Some v
  | VB o a b =>
      match css_fn_arg a, css_fn_arg b with
      | Some a', Some b' =>
          let clash :=
            match o, a', b' with
            | (CAdd | CSub), VN x, VN y =>
                match known_dim x, known_dim y with
                | Some dx, Some dy => negb (cd_eqb dx dy)
                | _, _ => false
                end
            | _, _, _ => false
            end in
          if clash then None else Some (VB o a' b')
      | _, _ => None
      end
  end.

(* the global calc() function: do_eval is the identity on these values *)
Definition calc_model (t : mtree) : cres :=
  match seval t with
  | None => CUnmod
  | Some (VN n) => CNumber n
  | Some v => match css_fn_arg v with Some v' => CCalc v' | None => CErr end
  end.

(* ---- Display ---- *)
Definition op_variant (o : cop) : string :=
  match o with CAdd => "Plus" | CSub => "Minus" | CMul => "Multiply" | CDiv => "Div" end%string.
Fixpoint index_of (k : string) (l : list string) (i : nat) : nat :=
  match l with
  | [] => i
  | x :: r => if String.eqb k x then i else index_of k r (S i)
  end.
(* position in the derived order of enum Operator *)
Definition rank (o : cop) : nat := index_of (op_variant o) operator_variants 0.

(* css/binop.rs Display: parentheses around a right operand that is itself a BinOp *)
Definition rsass_paren_right (o o2 : cop) : bool :=
  Nat.ltb (rank o2) (rank o) || match o, o2 with CSub, CSub => true | _, _ => false end.
(* ... and never around the left operand *)
Definition rsass_paren_left (o o1 : cop) : bool := false.

Definition op_bytes (o : cop) : list N :=
  match o with CAdd => [43] | CSub => [45] | CMul => [42] | CDiv => [47] end%N.

(* exact decimal text of a dyadic number with at most 10 fractional binary digits *)
Definition pad_left (n : nat) (ds : list N) : list N := repeat 48%N (n - length ds) ++ ds.
Fixpoint trim_zeros_rev (ds : list N) : list N :=
  match ds with 48%N :: r => trim_zeros_rev r | _ => ds end.
Fixpoint strip2 (fuel : nat) (m e : Z) : Z * Z :=
  match fuel with
  | O => (m, e)
  | S f => if (e <? 0) && Z.even m && negb (m =? 0) then strip2 f (m / 2) (e + 1) else (m, e)
  end.
Definition fmt_dyadic (x : f64) : option (list N) :=
  match f_to_Q x with
  | None => None
  | Some (m0, e0) =>
      let (m, e) := strip2 64 m0 e0 in
      if m =? 0 then Some [48%N] else
      let sign := if m <? 0 then [45%N] else [] in
      let a := Z.abs m in
      if 0 <=? e then
        (if e <=? 60 then
           let v := a * 2 ^ e in
           if v <? 2 ^ 53 then Some (sign ++ dec_of_Z v) else None
         else None)
      else
        let k := - e in
        if k <=? 10 then
          let scaled := a * 5 ^ k in                    (* value * 10^k *)
          let ip := scaled / 10 ^ k in
          let fp := scaled mod 10 ^ k in
          let fds := rev (trim_zeros_rev (rev (pad_left (Z.to_nat k) (dec_of_Z fp)))) in
          if ip <? 2 ^ 53 then
            Some (sign ++ dec_of_Z ip ++ match fds with [] => [] | _ => 46%N :: fds end)
          else None
        else None
  end.

Definition fmt_numeric (n : numeric) : option (list N) :=
  match fmt_dyadic (nval n) with
  | Some ds => Some (ds ++ bytes_of_string (us_display (nunit n)))
  | None => None
  end.

Definition neg_numeric (n : numeric) : numeric := mkNum (fneg (nval n)) (nunit n).

Definition var_text (i : nat) : list N :=
  [118;97;114;40;45;45;118]%N ++ dec_of_Z (Z.of_nat i) ++ [41%N].

Fixpoint disp (v : cv) : option (list N) :=
  match v with
  | VN n => fmt_numeric n
  | VV i => Some (var_text i)
  | VB o a b =>
      let '(o', b', par) :=
        match o, b with
        | CAdd, VN n => if f_sign_neg (nval n) then (CSub, VN (neg_numeric n), false) else (o, b, false)
        | CSub, VN n => if f_sign_neg (nval n) then (CAdd, VN (neg_numeric n), false) else (o, b, false)
        | _, VB o2 _ _ => (o, b, rsass_paren_right o o2)
        | _, _ => (o, b, false)
        end in
      match disp a, (match b' with VN n => fmt_numeric n | _ => disp b end) with
      | Some ta, Some tb =>
          Some (ta ++ [32%N] ++ op_bytes o' ++ [32%N] ++ (if par then [40%N] ++ tb ++ [41%N] else tb))
      | _, _ => None
      end
  end.

Definition calc_text (t : mtree) : option (option (list N)) :=    (* None = outside model; Some None = error *)
  match calc_model t with
  | CNumber n => option_map Some (fmt_numeric n)
  | CCalc v => option_map (fun s => Some ([99;97;108;99;40]%N ++ s ++ [41%N])) (disp v)
  | CErr => Some None
  | CUnmod => None
  end.

(* ---- global min() / max() (math.rs find_extreme) and clamp() (css.rs) on numbers ---- *)
Definition ncmp (a b : numeric) : option (option comparison) := numeric_cmp a b.
(* cmp2: partial_cmp, or the plain values when one side is unitless *)
Definition cmp2 (a b : numeric) : option (option comparison) :=
  match ncmp a b with
  | Some None => if num_is_no_unit a || num_is_no_unit b then Some (number_cmp (nval a) (nval b)) else Some None
  | x => x
  end.
Definition may_cmp_css (a b : numeric) : bool :=
  let da := css_dimension (nunit a) in let db := css_dimension (nunit b) in
  match da, db with [], _ | _, [] => true | _, _ => cd_eqb da db end.

Inductive fres : Type :=
| FNumber (n : numeric)
| FKept
| FErr
| FUnmod.

Fixpoint find_extreme (pref : comparison) (found : numeric) (rest : list numeric) : fres :=
  match rest with
  | [] => FNumber found
  | v :: r =>
      match cmp2 found v with
      | None => FUnmod
      | Some (Some o) =>
          find_extreme pref (match o, pref with Lt, Lt | Gt, Gt => found | _, _ => v end) r
      | Some None => if may_cmp_css found v then FKept else FErr
      end
  end.

Definition num_of_leaf (b : Z) (u : string) : numeric := mkNum (of_bits b) (us_of_unit (unit_of_text u)).

Definition minmax_model (is_max : bool) (args : list numeric) : fres :=
  match args with
  | [] => FErr
  | a :: r => find_extreme (if is_max then Gt else Lt) a r
  end.

(* known_dim_spec: the Dimension vector, None for unknown / percent *)
Definition known_dim_spec (n : numeric) : option (list (dimension * Z)) :=
  if us_is_known (nunit n) && negb (us_is_percent (nunit n)) then Some (us_dimension (nunit n)) else None.
Definition odim_eqb (a b : option (list (dimension * Z))) : bool :=
  match a, b with
  | Some x, Some y => dimvec_eqb x y
  | None, None => true
  | _, _ => false
  end.
Definition cmp_ge (a b : numeric) : option bool :=
  match ncmp a b with Some (Some Gt) | Some (Some Eq) => Some true | Some _ => Some false | None => None end.
Definition cmp_le (a b : numeric) : option bool :=
  match ncmp a b with Some (Some Lt) | Some (Some Eq) => Some true | Some _ => Some false | None => None end.

Definition clamp_model (mn v mx : numeric) : fres :=
  let dmin := known_dim mn in let dnum := known_dim v in let dmax := known_dim mx in
  let differ a b := match a, b with Some x, Some y => negb (cd_eqb x y) | _, _ => false end in
  if differ dmin dnum then FErr
  else if differ dmin dmax then FErr
  else if odim_eqb (known_dim_spec mn) (known_dim_spec v) && odim_eqb (known_dim_spec v) (known_dim_spec mx) then
    match cmp_ge v mx with
    | None => FUnmod
    | Some g =>
        let v1 := if g then mx else v in
        match cmp_le v1 mn with
        | None => FUnmod
        | Some l => FNumber (if l then mn else v1)
        end
    end
  else FKept.
