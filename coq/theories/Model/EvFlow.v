(* output/transform.rs: Item::IfStatement / Each / While handling, and
   variablescope.rs Scope::define_multi.  Bodies are abstract: a directive is
   modelled by the sequence of bodies it runs and the bindings each run sees. *)
From Coq Require Import String List ZArith Bool.
From RV Require Import Model.EvValue.
Import ListNotations.

(* ---- @if / @else if / @else: parser/mod.rs builds
   IfStatement(cond, body, else_body) with else_body empty, a body, or a
   single nested IfStatement ---- *)
Inductive ifstmt : Type :=
| IfS (cond : value) (body : nat) (els : elsebody)
with elsebody : Type :=
| ENone
| EBody (body : nat)
| EIf (i : ifstmt).

(* which body (by label) handle_item runs; None = the empty else body *)
Fixpoint if_eval (i : ifstmt) : option nat :=
  match i with
  | IfS c b e =>
      if is_true c then Some b
      else match e with
           | ENone => None
           | EBody b' => Some b'
           | EIf i' => if_eval i'
           end
  end.

(* ---- Scope::define_multi ---- *)
Fixpoint zip_pad (names : list string) (vals : list value) : list (string * value) :=
  match names with
  | [] => []
  | n :: ns =>
      match vals with
      | [] => (n, VNull) :: zip_pad ns []
      | v :: vs => (n, v) :: zip_pad ns vs
      end
  end.

Definition define_multi (names : list string) (v : value) : list (string * value) :=
  match names with
  | [n] => [(n, v)]
  | _ => zip_pad names (iter_items v)
  end.

(* ---- @each: one run of the body per item, after define_multi ---- *)
Definition each_eval (names : list string) (v : value) : list (list (string * value)) :=
  map (define_multi names) (iter_items v).

(* ---- @while: `while cond.evaluate(scope).is_true() { body }` over an
   abstract state; None = out of fuel ---- *)
Section While.
  Context {S : Type}.
  Variable cond : S -> value.
  Variable body : S -> S.

  (* the states in which the body ran, and the state after the loop *)
  Fixpoint while_eval (fuel : nat) (s : S) : option (list S * S) :=
    match fuel with
    | O => None
    | Datatypes.S f =>
        if is_true (cond s) then
          match while_eval f (body s) with
          | Some (l, e) => Some (s :: l, e)
          | None => None
          end
        else Some ([], s)
    end.
End While.

(* the counter loops of the generated programs:
   `$i: a; @while $i <op> b { x: $i; $i: $i + k }` *)
Inductive wcmp : Type := WLt | WGt | WNe | WLe | WGe.
Local Open Scope Z_scope.
Definition wcond (c : wcmp) (b : Z) (i : Z) : value :=
  let r := match c with
           | WLt => i <? b | WGt => i >? b | WNe => negb (i =? b)
           | WLe => i <=? b | WGe => i >=? b
           end in
  if r then VTrue else VFalse.
Definition counter_loop (fuel : nat) (c : wcmp) (a b k : Z) : option (list Z * Z) :=
  while_eval (wcond c b) (fun i => i + k) fuel a.
