(* C01 site models: the index / slice / integer-arithmetic logic of small rsass functions, mirrored in Gallina
   with explicit Panic results (index out of range, slice out of range, usize underflow, i64/usize overflow
   with overflow checks on), so that "the Panic branch is unreachable" is a statement about ALL inputs.

   usize and i64 values are Z; lengths of Vec / String / slices are bounded by isize::MAX (Rust guarantee for
   allocations), which is the hypothesis `is_len`.  `modelled_fn_text` (end of file) is the normalised token text
   of every modelled function at the time the model was written; Proofs/C01Sites.v proves it equal to the text
   regenerated from the current tree (Gen/SiteShapes.v), so an edit to any of these functions re-opens its lemmas. *)
From Coq Require Import String List ZArith Bool.
From RV Require Import Gen.PanicSites Model.Indent.
Import ListNotations.
Local Open Scope Z_scope.

Inductive res (A : Type) : Type :=
| Ok (a : A)
| Err                 (* a Sass error (Result::Err) *)
| Panic.
Arguments Ok {A} a. Arguments Err {A}. Arguments Panic {A}.

Definition bind {A B} (r : res A) (f : A -> res B) : res B :=
  match r with Ok a => f a | Err => Err | Panic => Panic end.

Definition I64_MIN : Z := - 2 ^ 63.
Definition I64_MAX : Z := 2 ^ 63 - 1.
Definition USIZE_MAX : Z := 2 ^ 64 - 1.
Definition ISIZE_MAX : Z := 2 ^ 63 - 1.
Definition is_i64 (n : Z) : Prop := I64_MIN <= n <= I64_MAX.
Definition is_len (n : Z) : Prop := 0 <= n <= ISIZE_MAX.        (* a Vec / str / slice length *)

(* checked arithmetic (overflow-checks = true) *)
Definition i64_of (z : Z) : res Z := if (I64_MIN <=? z) && (z <=? I64_MAX) then Ok z else Panic.
Definition usize_of (z : Z) : res Z := if (0 <=? z) && (z <=? USIZE_MAX) then Ok z else Panic.
(* `as` casts never panic: they wrap *)
Definition as_usize (z : Z) : Z := z mod 2 ^ 64.
Definition as_i64 (z : Z) : Z := let w := z mod 2 ^ 64 in if w <=? I64_MAX then w else w - 2 ^ 64.

(* v[i], &v[a..], &v[a..b], v[..] on something of length len *)
Definition index (len i : Z) : res unit := if (0 <=? i) && (i <? len) then Ok tt else Panic.
Definition slice (len a b : Z) : res unit := if (0 <=? a) && (a <=? b) && (b <=? len) then Ok tt else Panic.
Definition slice_from (len a : Z) : res unit := slice len a len.
Definition slice_full (len : Z) : res unit := slice len 0 len.

(* ---- sass/functions/list.rs ---- *)
(* fn index_of(v, len): n = check::unitless_int(v)? (any i64) *)
Definition index_of (n len : Z) : res Z :=
  if (0 <? n) && (as_usize n <=? len) then
    bind (i64_of (n - 1)) (fun r => Ok (as_usize r))
  else if n <? 0 then
    bind (i64_of (- as_i64 len)) (fun m =>             (* `-(len as i64)` is a checked negation *)
    if m <=? n then bind (i64_of (as_i64 len + n)) (fun r => Ok (as_usize r)) else Err)
  else Err.

(* nth on a list: `list[n]` with n = index_of(v, list.len())?;  set-nth: `list[i] = ..` the same way *)
Definition nth_list (n len : Z) : res unit := bind (index_of n len) (fun i => index len i).
(* nth on an argument list: positional.get(n) (never panics) or else `n - positional.len()` *)
Definition nth_arglist (n pos named : Z) : res unit :=
  bind (usize_of (pos + named)) (fun len =>          (* css::CallArgs::len *)
  bind (index_of n len) (fun i =>
  if i <? pos then Ok tt else bind (usize_of (i - pos)) (fun _ => Ok tt))).
(* index(): `l.len() == 2` guards l[0], l[1]; `i + 1` for an enumerate() index *)
Definition index_map_pair (len : Z) : res unit :=
  if len =? 2 then bind (index len 0) (fun _ => index len 1) else Ok tt.
Definition enumerate_plus_one (i : Z) : res Z := usize_of (i + 1).
(* zip: len = minimum of the lengths (0 if none); every v[i] for i in 0..len *)
Definition list_min (lens : list Z) : Z := match lens with [] => 0 | l :: r => fold_left Z.min r l end.
Definition zip_access (lens : list Z) (i : Z) : res unit :=
  if (0 <=? i) && (i <? list_min lens)
  then fold_left (fun acc l => bind acc (fun _ => index l i)) lens (Ok tt)
  else Ok tt.                      (* not iterated *)

(* ---- sass/functions/string.rs ---- *)
Definition unsigned_abs (n : Z) : Z := Z.abs n.
Definition saturating_sub (a b : Z) : Z := Z.max 0 (a - b).
(* insert: the index computation *)
Definition insert_index (index len : Z) : res Z :=
  if index <? 0 then bind (usize_of (as_usize (unsigned_abs index) - 1)) (fun k => Ok (saturating_sub len k))
  else Ok (saturating_sub (as_usize index) 1).
(* slice: start_at / end_at computations *)
Definition slice_start (start_at len : Z) : res Z :=
  if start_at <? 0 then Ok (saturating_sub len (as_usize (unsigned_abs start_at)))
  else if 0 <? start_at then bind (usize_of (as_usize start_at - 1)) (fun k => Ok (Z.min k len))
  else Ok 0.
Definition slice_end (end_at len : Z) : res Z :=
  if end_at <? 0 then bind (usize_of (as_usize (unsigned_abs end_at) - 1)) (fun k => Ok (saturating_sub len k))
  else Ok (as_usize end_at).
(* index: string.find(sub) = Some(i), then `1 + string[0..i].chars().count()`;
   boundary i = "i is a char boundary of the string" (str::find contract) *)
Definition str_index_site (len i count : Z) (boundary : bool) : res Z :=
  bind (if boundary then slice len 0 i else Panic) (fun _ => usize_of (1 + count)).

(* ---- sass/functions/map.rs do_deep_remove(map, keys): on keys.len(); `inner` = whether a nested map is found *)
Fixpoint deep_remove (len : nat) (inner : nat -> bool) : res unit :=
  match len with
  | O => Ok tt
  | S O => index (Z.of_nat len) 0
  | S (S k as m) =>
      bind (index (Z.of_nat len) 0) (fun _ =>
      if inner len then bind (slice_from (Z.of_nat len) 1) (fun _ => deep_remove m inner) else Ok tt)
  end.

(* ---- guards of the form `x.len() == k && x[j]` ---- *)
Definition guarded_index (len k j : Z) : res unit := if len =? k then index len j else Ok tt.
(* channels.rs conv: names : &[&str; 3], constant indices 0, 1, 2 *)
Definition conv_names (which : Z) : res unit := index 3 which.

(* ---- output/cssbuf.rs do_indent_no_nl: `if stuff.len() > 1 { &stuff[1..] }` on a &str:
   also needs byte 1 to be a char boundary; stuff is a prefix of the static INDENT ("\n" + spaces) *)
Definition do_indent_no_nl (compressed : bool) (indent : N) : res unit :=
  match get_indent compressed indent with
  | IndentPanic => Panic
  | IndentOk n =>
      if (1 <? Z.of_N n) then
        (if indent_is_nl_spaces then slice_from (Z.of_N n) 1 else Panic)
      else Ok tt
  end.

(* ---- css/call_args.rs len(): positional.len() + named.len() ---- *)
Definition call_args_len (pos named : Z) : res Z := usize_of (pos + named).

(* ---- input/sourcepos.rs opt_back(s): `data.get(self.start - len .. self.start)`, then `self.start -= len` ---- *)
Definition opt_back (start len : Z) (matches : bool) : res Z :=
  bind (usize_of (start - len)) (fun a =>                (* .get(range) itself never panics *)
  if matches then usize_of (start - len) else Ok start).

(* ---- the text the models above were written against ---- *)
Local Open Scope string_scope.
Definition modelled_fn_text : list (string * string) :=
  [("list::index_of",
    "fn index_of ( v : Value , len : usize ) -> Result < usize , String > { let n = check :: unitless_int ( v ) ? ; if n . is_positive ( ) && n as usize <= len { Ok ( ( n - 1 ) as usize ) } else if n . is_negative ( ) && n >= - ( len as i64 ) { Ok ( ( len as i64 + n ) as usize ) } else if n == 0 { Err ( ""List index may not be 0."" . into ( ) ) } else { Err ( format ! ( ""Invalid index {n} for a list with {len} elements."" ) ) } }");
   ("list::index",
    "index ( list , value ) , | s | match s . get ( name ! ( list ) ) ? { list @ Value :: ArgList ( .. ) => { let value = s . get ( name ! ( value ) ) ? ; let ( items , _ , _ ) = get_list ( list ) ; for ( i , v ) in items . iter ( ) . enumerate ( ) { if v == & value { return Ok ( Value :: scalar ( i + 1 ) ) ; } } Ok ( Value :: Null ) } Value :: List ( v , _ , _ ) => { let value = s . get ( name ! ( value ) ) ? ; for ( i , v ) in v . iter ( ) . enumerate ( ) { if v == & value { return Ok ( Value :: scalar ( i + 1 ) ) ; } } Ok ( Value :: Null ) } Value :: Map ( map ) => match s . get ( name ! ( value ) ) ? { Value :: List ( ref l , Some ( ListSeparator :: Space ) , _ ) if l . len ( ) == 2 => { for ( i , ( k , v ) ) in map . iter ( ) . enumerate ( ) { if * k == l [ 0 ] && * v == l [ 1 ] { return Ok ( Value :: scalar ( i + 1 ) ) ; } } Ok ( Value :: Null ) } _ => Ok ( Value :: Null ) , } , v => { if v == s . get ( name ! ( value ) ) ? { Ok ( Value :: scalar ( 1 ) ) } else { Ok ( Value :: Null ) } } }");
   ("list::nth",
    "nth ( list , n ) , | s | { match s . get ( name ! ( list ) ) ? { Value :: ArgList ( arg ) => { let n = s . get_map ( name ! ( n ) , | v | index_of ( v , arg . len ( ) ) ) ? ; Ok ( arg . positional . get ( n ) . cloned ( ) . unwrap_or_else ( || { arg . named . get_item ( n - arg . positional . len ( ) ) . map_or ( Value :: Null , | ( k , v ) | { Value :: List ( vec ! [ Value :: from ( k . as_ref ( ) ) , v . clone ( ) ] , Some ( ListSeparator :: Space ) , false , ) } , ) } ) ) } Value :: List ( list , _ , _ ) => { let n = s . get_map ( name ! ( n ) , | v | index_of ( v , list . len ( ) ) ) ? ; Ok ( list [ n ] . clone ( ) ) } Value :: Map ( map ) => { let n = s . get_map ( name ! ( n ) , | v | index_of ( v , map . len ( ) ) ) ? ; if let Some ( ( k , v ) ) = map . get_item ( n ) { Ok ( Value :: List ( vec ! [ k . clone ( ) , v . clone ( ) ] , Some ( ListSeparator :: Space ) , false , ) ) } else { Ok ( Value :: Null ) } } v => s . get_map ( name ! ( n ) , | v | index_of ( v , 1 ) ) . map ( | _ | v ) , } }");
   ("list::set_nth",
    "set_nth ( list , n , value ) , | s | { let ( mut list , sep , bra ) = get_list ( s . get ( name ! ( list ) ) ? ) ; let i = s . get_map ( name ! ( n ) , | v | index_of ( v , list . len ( ) ) ) ? ; list [ i ] = s . get ( name ! ( value ) ) ? ; Ok ( Value :: List ( list , sep , bra ) ) }");
   ("list::zip",
    "zip ( lists ) , | s | { let lists = s . get_va ( name ! ( lists ) ) ? . into_iter ( ) . map ( Value :: iter_items ) . collect :: < Vec < _ >> ( ) ; let len = lists . iter ( ) . map ( Vec :: len ) . min ( ) . unwrap_or ( 0 ) ; let result = ( 0 .. len ) . map ( | i | { let items = lists . iter ( ) . map ( | v | v [ i ] . clone ( ) ) . collect ( ) ; Value :: List ( items , Some ( ListSeparator :: Space ) , false ) } ) . collect ( ) ; Ok ( Value :: List ( result , Some ( ListSeparator :: Comma ) , false ) ) }");
   ("string::index",
    "index ( string , substring ) , | s | { let string : String = s . get ( name ! ( string ) ) ? ; Ok ( string . find ( & s . get :: < String > ( name ! ( substring ) ) ? ) . map_or ( Value :: Null , | i | { Value :: scalar ( 1 + string [ 0 .. i ] . chars ( ) . count ( ) ) } ) ) }");
   ("string::insert",
    "insert ( string , insert , index ) , | s | { let string : CssString = s . get ( name ! ( string ) ) ? ; let insert : String = s . get ( name ! ( insert ) ) ? ; let index = s . get_map ( name ! ( index ) , check :: unitless_int ) ? ; let index = if index . is_negative ( ) { let len = string . value ( ) . chars ( ) . count ( ) ; len . saturating_sub ( index . unsigned_abs ( ) as usize - 1 ) } else { ( index as usize ) . saturating_sub ( 1 ) } ; let mut s = string . value ( ) . chars ( ) ; let mut join = s . by_ref ( ) . take ( index ) . collect :: < String > ( ) ; join . push_str ( & insert ) ; join . extend ( s ) ; Ok ( CssString :: new ( join , string . quotes ( ) ) . into ( ) ) }");
   ("string::slice",
    "slice ( string , start_at , end_at = b""-1"" ) , | s | { let string : CssString = s . get ( name ! ( string ) ) ? ; let st = string . value ( ) ; let len = st . chars ( ) . count ( ) ; let start_at = s . get_map ( name ! ( start_at ) , check :: unitless_int ) ? ; let start_at = if start_at . is_negative ( ) { len . saturating_sub ( start_at . unsigned_abs ( ) as usize ) } else if start_at . is_positive ( ) { min ( start_at as usize - 1 , len ) } else { 0 } ; let end_at = s . get_map ( name ! ( end_at ) , check :: unitless_int ) ? ; let end_at = if end_at . is_negative ( ) { len . saturating_sub ( end_at . unsigned_abs ( ) as usize - 1 ) } else { end_at as usize } ; let part = st . chars ( ) . skip ( start_at ) . take ( end_at . saturating_sub ( start_at ) ) . collect ( ) ; Ok ( CssString :: new ( part , string . quotes ( ) ) . into ( ) ) }");
   ("map::do_deep_remove",
    "fn do_deep_remove ( map : & mut ValueMap , keys : & [ Value ] ) { match keys . len ( ) { 0 => ( ) , 1 => { map . remove ( & keys [ 0 ] ) ; } _ => { if let Some ( Value :: Map ( inner ) ) = map . get_mut ( & keys [ 0 ] ) { do_deep_remove ( inner , & keys [ 1 .. ] ) ; } } } }");
   ("selectorset::is_root",
    "fn is_root ( & self ) -> bool { self . s . len ( ) == 1 && self . s [ 0 ] == Selector :: default ( ) }");
   ("color::relative_color",
    "fn relative_color ( args : & CallArgs ) -> bool { fn is_from ( s : & CssString ) -> bool { s . quotes ( ) == Quotes :: None && s . value ( ) . eq_ignore_ascii_case ( ""from"" ) } fn inner ( arg : & Value ) -> bool { match arg { Value :: List ( l , Some ( ListSeparator :: Space ) , false ) => { matches ! ( l . first ( ) , Some ( Value :: Literal ( s ) ) if is_from ( s ) ) } Value :: List ( l , Some ( ListSeparator :: Slash ) , false ) => { l . len ( ) == 2 && inner ( & l [ 0 ] ) } _ => false , } } args . get_single ( ) . map ( inner ) . unwrap_or ( false ) }");
   ("scope::define_multi",
    "fn define_multi ( & self , names : & [ Name ] , value : Value , ) -> Result < ( ) , ScopeError > { if names . len ( ) == 1 { Ok ( self . define ( names [ 0 ] . clone ( ) , value ) ? ) } else { for ( name , value ) in names . iter ( ) . zip ( value . iter_items ( ) . into_iter ( ) . chain ( repeat ( Value :: Null ) ) , ) { self . define ( name . clone ( ) , value ) ? ; } Ok ( ( ) ) } }");
   ("sass_string::single_raw",
    "fn single_raw ( & self ) -> Option < & str > { if self . parts . len ( ) == 1 && let StringPart :: Raw ( s ) = & self . parts [ 0 ] { return Some ( s ) ; } None }");
   ("channels::conv",
    "fn conv ( self , names : & [ & 'static str ; 3 ] ) -> CallError { match self { Self :: Bracketed => { CallError :: msg ( ""$channels must be an unbracketed list."" ) } Self :: BadSep => { CallError :: msg ( ""$channels must be a space-separated list."" ) } Self :: Missing0 => { CallError :: msg ( format ! ( ""Missing element ${}."" , names [ 0 ] ) ) } Self :: Missing1 => { CallError :: msg ( format ! ( ""Missing element ${}."" , names [ 1 ] ) ) } Self :: Missing2 => { CallError :: msg ( format ! ( ""Missing element ${}."" , names [ 2 ] ) ) } Self :: BadNum ( n ) => CallError :: msg ( format ! ( ""Only 3 elements allowed, but {n} were passed."" , ) ) , Self :: SlashBadNum ( n ) => CallError :: msg ( format ! ( ""Only 2 slash-separated elements allowed, but {n} {} passed."" , if n == 1 { ""was"" } else { ""were"" } , ) ) , } }");
   ("cssbuf::do_indent_no_nl",
    "fn do_indent_no_nl ( & mut self ) { let stuff = self . format . get_indent ( self . indent ) ; if stuff . len ( ) > 1 { self . add_str ( & stuff [ 1 .. ] ) ; } }");
   ("css_call_args::len",
    "fn len ( & self ) -> usize { self . positional . len ( ) + self . named . len ( ) }");
   ("sourcepos::opt_back",
    "fn opt_back ( mut self , s : & str ) -> Self { let len = s . len ( ) ; if self . source . data ( ) . get ( self . start - len .. self . start ) == Some ( s . as_bytes ( ) ) { self . start -= len ; } self }")].
