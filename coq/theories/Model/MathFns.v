(* sass/functions/math.rs (module sass:math), math/round.rs::sass_round,
   math/distance.rs::sass_abs: the exactly specified functions and the unit
   guards.  libm functions (exp ln pow sin cos tan asin acos atan) are NOT
   modelled: only their argument guard is; sqrt is IEEE and is modelled. *)
From Coq Require Import String List ZArith Bool.
From RV Require Import Base.F64 Gen.Units Model.Units Model.Numeric.
Import ListNotations.
Local Open Scope Z_scope.

Inductive mres : Type :=
| MNum (n : numeric)
| MErr                   (* the call is an error *)
| MKept                  (* the call is kept as a CSS function (min/max only) *)
| MOut.                  (* outside the model *)

Definition f_hundred : f64 := of_bits 4636737291354636288.
Definition us_percent : unitset := [(UK "Percent", 1)].

Definition map_value (f : f64 -> f64) (a : numeric) : mres := MNum (mkNum (f (nval a)) (nunit a)).
Definition m_abs := map_value fabs.
Definition m_ceil := map_value fceil.
Definition m_floor := map_value ffloor.
Definition m_round := map_value fround.

(* check::unitless *)
Definition unitless_arg (a : numeric) : bool := num_is_no_unit a.

Definition m_percentage (a : numeric) : mres :=
  if unitless_arg a then MNum (mkNum (fmul (nval a) f_hundred) us_percent) else MErr.

Definition m_sqrt (a : numeric) : mres :=
  if unitless_arg a then MNum (mkNum (fsqrt (nval a)) []) else MErr.

Definition m_div (a b : numeric) : mres :=
  match numeric_div a b with Some n => MNum n | None => MOut end.

(* cmp2 of math.rs *)
Definition cmp2 (a b : numeric) : option (option comparison) :=
  match numeric_cmp a b with
  | Some None => if num_is_no_unit a || num_is_no_unit b then Some (number_cmp (nval a) (nval b)) else Some None
  | o => o
  end.

(* find_extreme: pref = Gt for max, Lt for min; incomparable operands: error or kept call *)
Inductive ext_res : Type := XFound (n : numeric) | XIncomparable | XOut.
Definition comparison_eqb (a b : comparison) : bool :=
  match a, b with Eq, Eq | Lt, Lt | Gt, Gt => true | _, _ => false end.
Fixpoint extreme_from (pref : comparison) (found : numeric) (rest : list numeric) : ext_res :=
  match rest with
  | [] => XFound found
  | v :: r =>
      match cmp2 found v with
      | Some (Some o) => extreme_from pref (if comparison_eqb o pref then found else v) r
      | Some None => XIncomparable
      | None => XOut
      end
  end.
Definition m_extreme (pref : comparison) (args : list numeric) : mres :=
  match args with
  | [] => MErr
  | a :: r => match extreme_from pref a r with
              | XFound n => MNum n
              | XIncomparable => MKept       (* kept or error: see Run/C29.v *)
              | XOut => MOut
              end
  end.
Definition m_max := m_extreme Gt.
Definition m_min := m_extreme Lt.

(* clamp(min, number, max) *)
Definition compat_with (mn v : numeric) : bool :=
  negb (xorb (num_is_no_unit v) (num_is_no_unit mn))
  && (us_is_none (nunit v) || us_is_none (nunit mn)
      || dimvec_eqb (us_dimension (nunit v)) (us_dimension (nunit mn))).
Definition ge_b (o : option (option comparison)) : option bool :=
  match o with Some (Some Gt) | Some (Some Eq) => Some true | Some _ => Some false | None => None end.
Definition le_b (o : option (option comparison)) : option bool :=
  match o with Some (Some Lt) | Some (Some Eq) => Some true | Some _ => Some false | None => None end.
Definition m_clamp (mn num mx : numeric) : mres :=
  if negb (compat_with mn num) || negb (compat_with mn mx) then MErr else
  match ge_b (numeric_cmp num mx) with
  | None => MOut
  | Some g =>
      let num1 := if g then mx else num in
      match le_b (numeric_cmp num1 mn) with
      | None => MOut
      | Some l => MNum (if l then mn else num1)
      end
  end.

(* argument guards of the libm-backed functions *)
Definition angle_or_unitless (a : numeric) : bool :=
  num_is_no_unit a ||
  match nunit a with
  | [(u, 1)] => match unit_scale_to u (UK "Rad") with Some _ => true | None => false end
  | _ => false
  end.
