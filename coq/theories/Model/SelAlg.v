(* The selector algorithms of rsass/src/css/selectors: opt.rs (Opt, collect_pos, collect_neg),
   no_placeholder / no_leading_combinator on the four levels, is_superselector on the four
   levels, Selector::nest and CssSelectorSet::nest (no-backref part). *)
From Coq Require Import List NArith Bool.
From RV Require Import Model.Sel.
Import ListNotations.
Import String.StringSyntax.
Local Open Scope string_scope.
Local Open Scope list_scope.

(* ---------------- opt.rs ---------------- *)
Inductive opt (T : Type) : Type := OSome (t : T) | OAny | ONone.
Arguments OSome {T} t.
Arguments OAny {T}.
Arguments ONone {T}.

Definition opt_map {T U} (f : T -> U) (o : opt T) : opt U :=
  match o with OSome t => OSome (f t) | OAny => OAny | ONone => ONone end.

(* the loop of collect_pos: Some = push, Any = return Any at once, None = skip *)
Fixpoint collect_pos_go {T} (l : list (opt T)) (acc : list T) : opt (list T) :=
  match l with
  | [] => match acc with [] => ONone | _ => OSome (rev acc) end
  | OSome t :: r => collect_pos_go r (t :: acc)
  | OAny :: _ => OAny
  | ONone :: r => collect_pos_go r acc
  end.
Definition collect_pos {T} (l : list (opt T)) : opt (list T) := collect_pos_go l [].

Fixpoint collect_neg_go {T} (l : list (opt T)) (acc : list T) : opt (list T) :=
  match l with
  | [] => match acc with [] => OAny | _ => OSome (rev acc) end
  | OSome t :: r => collect_neg_go r (t :: acc)
  | OAny :: r => collect_neg_go r acc
  | ONone :: _ => ONone
  end.
Definition collect_neg {T} (l : list (opt T)) : opt (list T) := collect_neg_go l [].

(* ---------------- no_leading_combinator ---------------- *)
Fixpoint has_leading_combinator (s : sel) : bool :=
  match s with
  | Sel (Some (_, r)) _ =>
      match r with
      | Sel None _ => is_local_empty r
      | Sel (Some _) _ => has_leading_combinator r
      end
  | Sel None _ => false
  end.

Definition nlc_sel (s : sel) : opt sel := if has_leading_combinator s then ONone else OSome s.
Definition nlc_sels (l : sels) : opt sels := collect_pos (map nlc_sel l).

(* ---------------- no_placeholder ---------------- *)
Fixpoint np_sel (s : sel) : opt sel :=
  match s with
  | Sel rel c =>
      match np_comp c with
      | ONone => ONone
      | oc =>
          let compound := match oc with OSome c' => c' | _ => comp0 end in
          if comp_is_empty c && negb (is_none rel) then ONone   (* "Deprecated dobule empty relation" *)
          else match rel with
               | Some (k, r) =>
                   match np_sel r with
                   | OSome r' => OSome (Sel (Some (k, r')) compound)
                   | OAny => OSome (Sel None compound)
                   | ONone => ONone
                   end
               | None => OSome (Sel None compound)
               end
      end
  end
with np_comp (c : compound) : opt compound :=
  match c with
  | Comp b ps =>
      if negb (is_nil (b_phs b)) then ONone
      else match collect_neg (map np_pseudo ps) with
           | OSome p => OSome (Comp b p)
           | OAny => OSome (Comp b [])
           | ONone => ONone
           end
  end
with np_pseudo (p : pseudo) : opt pseudo :=
  match p with
  | Pseudo n e a =>
      match a with
      | ArgSel l =>
          match opt_map (fun x => x) (collect_pos (map np_sel l)), name_in n [str "not"] with
          | OSome t, _ =>
              if name_in n [str "is"] then
                match nlc_sels t with
                | OSome t' => OSome (Pseudo n e (ArgSel t'))
                | OAny => OAny
                | ONone => ONone
                end
              else OSome (Pseudo n e (ArgSel t))
          | OAny, false | ONone, true => OAny
          | ONone, false | OAny, true => ONone
          end
      | _ => OSome p
      end
  end.

(* SelectorSet::no_placeholder *)
Definition np_sels (l : sels) : opt sels := collect_pos (map np_sel l).

(* ---------------- is_superselector ----------------
   `sup_* a b` is `a.is_superselector(b)`; `sub_* a b` is `b.is_superselector(a)`.
   Pseudo::is_superselector swaps its arguments for `:not`, so the Rust recursion decreases
   sometimes in self and sometimes in sub; both directions are defined here by structural
   recursion on the FIRST argument (Proofs/SelSuper.v shows sub_sel a b = sup_sel b a). *)

Section AllAny.
  Context {A B : Type} (cond : A -> B -> bool).
  (* all_any(one, other, cond) *)
  Definition all_any (one : list A) (other : list B) : bool :=
    forallb (fun a => existsb (fun b => cond a b) other) one.
  (* the same with the recursive argument ranging over the SECOND list *)
  Definition all_any_r (one : list B) (other : list A) : bool :=
    forallb (fun b => existsb (fun a => cond a b) other) one.
End AllAny.

Section FirstMatch.
  Context {A R : Type} (test : A -> bool) (f : A -> R) (dflt : R).
  (* iter().find(test) followed by a continuation *)
  Fixpoint first_match (l : list A) : R :=
    match l with
    | [] => dflt
    | x :: r => if test x then f x else first_match r
    end.
End FirstMatch.

Definition split_ns (e : text) : option text * text :=
  (fix go (s acc : text) : option text * text :=
     match s with
     | [] => (None, e)
     | c :: r => if N.eqb c 124 then (Some (rev acc), r) else go r (c :: acc)
     end) e [].
Definition match_name (a b : text) : bool := text_eqb a (str "*") || text_eqb a b.
Definition elem_sup (e s : text) : bool :=
  let (ens, en) := split_ns e in
  let (sns, sn) := split_ns s in
  match_name (match ens with Some x => x | None => str "*" end)
             (match sns with Some x => x | None => str "*" end)
  && match_name en sn.

(* Attribute::is_superselector; CssString equality ignores the kind of quotes (values
   without escapes, which is the modelled domain) *)
Definition attr_sup (a b : attr) : bool :=
  text_eqb (a_name a) (a_name b) && text_eqb (a_op a) (a_op b) && text_eqb (a_val a) (a_val b)
  && opt_eqb N.eqb (a_mod a) (a_mod b).

(* the part of CompoundSelector::is_superselector that does not recurse *)
Definition base_sup (a b : cbase) : bool :=
  match b_elem a with
  | None => true
  | Some e => elem_is_any e || match b_elem b with Some s => elem_sup e s | None => false end
  end
  && all_any text_eqb (b_phs a) (b_phs b)
  && all_any text_eqb (b_classes a) (b_classes b)
  && match b_id a with None => true | Some i => opt_eqb text_eqb (b_id b) (Some i) end
  && all_any attr_sup (b_attrs a) (b_attrs b).

(* the relation walks of Selector::is_superselector over the chain of `sub`;
   f = "s.is_superselector(ss)" *)
Fixpoint walk_anc (f : sel -> bool) (k : relkind) (ss : sel) : bool :=
  match k with Ancestor | Parent => f ss | _ => false end
  || match ss with Sel (Some (k', ss')) _ => walk_anc f k' ss' | Sel None _ => false end.
Fixpoint walk_sib (f : sel -> bool) (k : relkind) (ss : sel) : bool :=
  match k with
  | Sibling | Adjacent =>
      f ss || match ss with Sel (Some (k', ss')) _ => walk_sib f k' ss' | Sel None _ => false end
  | _ => false
  end.

Definition rel_walk (kind : relkind) (f : sel -> bool) (t : option (relkind * sel)) : bool :=
  match kind, t with
  | _, None => false
  | Ancestor, Some (k, ss) => walk_anc f k ss
  | Parent, Some (Parent, ss) => f ss
  | Parent, Some _ => false
  | Sibling, Some (k, ss) => walk_sib f k ss
  | Adjacent, Some (Adjacent, ss) => f ss
  | Adjacent, Some _ => false
  end.

Fixpoint sup_sel (a b : sel) {struct a} : bool :=
  match a with
  | Sel rel c =>
      sup_comp c (s_comp b)
      && match rel with
         | None => true
         | Some (kind, s) => rel_walk kind (sup_sel s) (s_rel b)
         end
  end
with sup_comp (a b : compound) {struct a} : bool :=
  match a with
  | Comp ba psa =>
      base_sup ba (c_base b)
      && forallb (fun p => existsb (sup_pseudo p) (c_ps b)) psa
      && first_match p_is_element
           (fun aa => first_match p_is_element (sup_pseudo aa) false (c_ps b))
           (first_match p_is_element (fun _ => false) true (c_ps b))
           psa
  end
with sup_pseudo (a b : pseudo) {struct a} : bool :=
  match a with
  | Pseudo n e arg =>
      if negb (Bool.eqb (e || is_pseudo_element_name n) (p_is_element b)) || negb (text_eqb n (p_name b))
      then false
      else if name_in n [str "not"] then sub_arg arg (p_arg b)
      else if name_in n [str "current"] then arg_eqb arg (p_arg b)
      else sup_arg arg (p_arg b)
  end
with sup_arg (a b : parg) {struct a} : bool :=
  match a, b with
  | ArgSel la, ArgSel lb => forallb (fun y => existsb (fun x => sup_sel x y) la) lb
  | ArgOther x, ArgOther y => text_eqb x y
  | ArgNone, ArgNone => true
  | _, _ => false
  end
(* ---- reversed direction: sub_X a b = b.is_superselector(a), still recursive on a ---- *)
with sub_sel (a b : sel) {struct a} : bool :=
  match a with
  | Sel rel c =>
      sub_comp c (s_comp b)
      && match s_rel b with
         | None => true
         | Some (kind, s) =>
             (* walk over a's chain; f ss = s.is_superselector(ss) = sub_sel ss s *)
             match kind, rel with
             | _, None => false
             | Ancestor, Some (k, ss) =>
                 (fix walk (k : relkind) (ss : sel) {struct ss} : bool :=
                    match k with Ancestor | Parent => sub_sel ss s | _ => false end
                    || match ss with Sel (Some (k', ss')) _ => walk k' ss' | Sel None _ => false end) k ss
             | Parent, Some (Parent, ss) => sub_sel ss s
             | Parent, Some _ => false
             | Sibling, Some (k, ss) =>
                 (fix walk (k : relkind) (ss : sel) {struct ss} : bool :=
                    match k with
                    | Sibling | Adjacent =>
                        sub_sel ss s
                        || match ss with Sel (Some (k', ss')) _ => walk k' ss' | Sel None _ => false end
                    | _ => false
                    end) k ss
             | Adjacent, Some (Adjacent, ss) => sub_sel ss s
             | Adjacent, Some _ => false
             end
         end
  end
with sub_comp (a b : compound) {struct a} : bool :=
  match a with
  | Comp ba psa =>
      base_sup (c_base b) ba
      && forallb (fun q => existsb (fun p => sub_pseudo p q) psa) (c_ps b)
      && first_match p_is_element
           (fun aa => first_match p_is_element (fun ba_ => sub_pseudo ba_ aa) false psa)
           (first_match p_is_element (fun _ => false) true psa)
           (c_ps b)
  end
with sub_pseudo (a b : pseudo) {struct a} : bool :=
  (* b.is_superselector(a) *)
  match a with
  | Pseudo n e arg =>
      if negb (Bool.eqb (p_is_element b) (e || is_pseudo_element_name n)) || negb (text_eqb (p_name b) n)
      then false
      else if name_in (p_name b) [str "not"] then sup_arg arg (p_arg b)
      else if name_in (p_name b) [str "current"] then arg_eqb arg (p_arg b)
      else sub_arg arg (p_arg b)
  end
with sub_arg (a b : parg) {struct a} : bool :=
  (* b.is_superselector(a) *)
  match a, b with
  | ArgSel la, ArgSel lb => forallb (fun x => existsb (fun y => sub_sel x y) lb) la
  | ArgOther x, ArgOther y => text_eqb y x
  | ArgNone, ArgNone => true
  | _, _ => false
  end.

(* SelectorSet::is_superselector *)
Definition sup_sels (a b : sels) : bool :=
  forallb (fun sub => existsb (fun sup => sup_sel sup sub) a) b.
