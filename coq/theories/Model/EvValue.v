(* Evaluator layer, values: the fragment of css::Value that the control-flow,
   scoping and argument-binding models need (css/value.rs: is_true, iter_items;
   css/valueformat.rs: Display in introspection format).  Numbers are unitless
   integers here; numbers with units live in EvRange.v. *)
From Coq Require Import String List ZArith NArith Bool.
From RV Require Import Base.Text.
Import ListNotations.
Local Open Scope Z_scope.

(* value/list_separator.rs: only the two separators that source lists of the
   generated programs can have; Space < Comma in the derived order *)
Inductive lsep : Type := SpSpace | SpComma.
Definition lsep_le (a b : lsep) : bool :=
  match a, b with SpComma, SpSpace => false | _, _ => true end.
Definition lsep_is_comma (a : lsep) : bool := match a with SpComma => true | _ => false end.
Definition lsep_default (o : option lsep) : lsep := match o with Some s => s | None => SpSpace end.

Inductive value : Type :=
| VNull | VTrue | VFalse
| VInt (z : Z)                      (* Numeric, no unit, integral *)
| VIdent (s : string)               (* Literal, unquoted *)
| VStr (s : string)                 (* Literal, double quoted, no characters that need escaping *)
| VList (items : list value) (sep : option lsep) (bracketed : bool)
| VMap (entries : list (value * value)).

(* Value::is_true: everything but False and Null *)
Definition is_true (v : value) : bool :=
  match v with VFalse | VNull => false | _ => true end.

(* Value::iter_items *)
Definition iter_items (v : value) : list value :=
  match v with
  | VList l _ _ => l
  | VMap m => map (fun kv => VList [fst kv; snd kv] (Some SpSpace) false) m
  | v => [v]
  end.

(* ---- Display for Formatted<Value>, introspection format ---- *)
Definition tx (s : string) : list N := bytes_of_string s.

Fixpoint join (sepb : list N) (l : list (list N)) : list N :=
  match l with
  | [] => []
  | [x] => x
  | x :: r => x ++ sepb ++ join sepb r
  end.

Definition sep_text (s : lsep) : list N := match s with SpComma => tx ", " | SpSpace => tx " " end.

Definition is_comma_list (v : value) : bool :=
  match v with VList _ (Some SpComma) _ => true | _ => false end.

Fixpoint inspect (v : value) : list N :=
  match v with
  | VNull => tx "null"
  | VTrue => tx "true"
  | VFalse => tx "false"
  | VInt z => dec_of_Z z
  | VIdent s => tx s
  | VStr s => [34%N] ++ tx s ++ [34%N]
  | VList items osep brackets =>
      let sep := lsep_default osep in
      if negb brackets && match items with [] => true | _ => false end then tx "()" else
      let t := map (fun (i : value) =>
                 let needs_paren :=
                   match i with
                   | VList iv inner false =>
                       lsep_le sep (lsep_default inner) && (2 <=? length iv)%nat
                   | _ => false
                   end in
                 if needs_paren then tx "(" ++ inspect i ++ tx ")" else inspect i) items in
      let body :=
        match t with
        | [first] =>
            if lsep_is_comma sep then
              (if brackets then first ++ tx "," else tx "(" ++ first ++ tx ",)")
            else first
        | _ => join (sep_text sep) t
        end in
      if brackets then tx "[" ++ body ++ tx "]" else body
  | VMap entries =>
      tx "(" ++
      join (tx ", ")
        (map (fun (kv : value * value) =>
           let (k, w) := kv in
           (if is_comma_list k then tx "(" ++ inspect k ++ tx ")" else inspect k)
           ++ tx ": " ++
           (if is_comma_list w then tx "(" ++ inspect w ++ tx ")" else inspect w)) entries)
      ++ tx ")"
  end.

(* structural equality (used by the runners) *)
Fixpoint value_eqb (a b : value) : bool :=
  match a, b with
  | VNull, VNull | VTrue, VTrue | VFalse, VFalse => true
  | VInt x, VInt y => (x =? y)
  | VIdent x, VIdent y | VStr x, VStr y => String.eqb x y
  | VList x s1 b1, VList y s2 b2 =>
      (fix go (x y : list value) : bool :=
         match x, y with
         | [], [] => true
         | p :: x', q :: y' => value_eqb p q && go x' y'
         | _, _ => false
         end) x y
      && match s1, s2 with
         | None, None => true
         | Some SpSpace, Some SpSpace | Some SpComma, Some SpComma => true
         | _, _ => false
         end
      && Bool.eqb b1 b2
  | VMap x, VMap y =>
      (fix go (x y : list (value * value)) : bool :=
         match x, y with
         | [], [] => true
         | (k, v) :: x', (k', v') :: y' => value_eqb k k' && value_eqb v v' && go x' y'
         | _, _ => false
         end) x y
  | _, _ => false
  end.
