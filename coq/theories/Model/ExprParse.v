(* Model of the operator layering of rsass/src/parser/value.rs on a token list:

     single_expression = logic_expression, then `and`|`or` followed by
                         single_expression again (right recursion)
     logic_expression  = sum_expression folded LEFT over ALL SIX of
                         == != >= > <= <   (one level)
     sum_expression    = term folded left over + -
     term_value        = single_value folded left over * %   (any_product)
     single_value      = number | true | false | ( single_expression ) |
                         unary_op single_value | not single_value

   `fold_many0` stops, keeping what it has, as soon as its inner parser fails.
   Tokens are those of the canonical text of Spec/SassExpr.v (one space around
   binary operators, unary minus attached), where the lexical side conditions
   of the nom parsers (the `verify` in any_additive_expr, `spacelike2` after
   `not`) always hold; that the real parser reads the text into these trees is
   checked against its Debug output on every run. *)
From Coq Require Import List NArith Bool Arith.PeanoNat.
From RV Require Import Spec.SassExpr.
Import ListNotations.
Local Open Scope nat_scope.

Inductive unop : Type := UNeg | UNot.

(* sass::Value restricted to what these inputs produce *)
Inductive ast : Type :=
| ANum (neg : bool) (n : N)      (* Value::Numeric, sign read by the number parser *)
| ABool (b : bool)               (* Value::True / Value::False *)
| AParen (a : ast)               (* Value::Paren(_, false) *)
| AUn (u : unop) (a : ast)       (* Value::UnaryOp *)
| ABin (o : binop) (a b : ast).  (* Value::BinOp *)

Inductive pres : Type :=
| POk (a : ast) (rest : list tok)
| PFail                          (* nom Err::Error *)
| PFuel.                         (* model ran out of fuel: never on the inputs of the theorems *)

Definition is_andor (o : binop) : bool := match o with BOr | BAnd => true | _ => false end.
Definition is_rel (o : binop) : bool :=
  match o with BEq | BNe | BLt | BLe | BGt | BGe => true | _ => false end.
Definition is_sum (o : binop) : bool := match o with BPlus | BMinus => true | _ => false end.
Definition is_prod (o : binop) : bool := match o with BMul | BMod => true | _ => false end.

Section Levels.
  (* the parser used inside parentheses: single_expression with less fuel *)
  Variable rec : list tok -> pres.

  (* single_value *)
  Fixpoint p_single (ts : list tok) : pres :=
    match ts with
    | KNum s n :: r => POk (ANum s n) r
    | KTrue :: r => POk (ABool true) r
    | KFalse :: r => POk (ABool false) r
    | KLP :: r =>
        match rec r with
        | POk e (KRP :: r') => POk (AParen e) r'
        | POk _ _ => PFail
        | x => x
        end
    | KNeg :: r => match p_single r with POk v r' => POk (AUn UNeg v) r' | x => x end
    | KNot :: r => match p_single r with POk v r' => POk (AUn UNot v) r' | x => x end
    | _ => PFail
    end.

  (* fold_many0((operator, sub), acc, BinOp::new) with `n` iterations of fuel *)
  Fixpoint loop (isop : binop -> bool) (sub : list tok -> pres) (n : nat) (acc : ast) (ts : list tok) : pres :=
    match n with
    | O => PFuel
    | S n' =>
        match ts with
        | KOp o :: r =>
            if isop o then
              match sub r with
              | POk b r' => loop isop sub n' (ABin o acc b) r'
              | PFail => POk acc ts
              | PFuel => PFuel
              end
            else POk acc ts
        | _ => POk acc ts
        end
    end.

  (* one layer: sub, then the fold; every iteration consumes input, so one
     more iteration than there are tokens left is never needed *)
  Definition p_level (isop : binop -> bool) (sub : list tok -> pres) (ts : list tok) : pres :=
    match sub ts with
    | POk v r => loop isop sub (S (length r)) v r
    | x => x
    end.

  Definition p_product := p_level is_prod p_single.          (* term_value *)
  Definition p_sum := p_level is_sum p_product.               (* sum_expression *)
  Definition p_logic := p_level is_rel p_sum.                 (* logic_expression *)
End Levels.

(* single_expression.  After the recursive call has returned, fold_many0 tries
   `and|or single_expression` once more on the rest; that attempt is the very
   call the recursion has already made at that position and that failed, so it
   fails again: one step is the whole loop. *)
Fixpoint p_expr (fuel : nat) (ts : list tok) : pres :=
  match fuel with
  | O => PFuel
  | S f =>
      match p_logic (p_expr f) ts with
      | POk a (KOp o :: r) =>
          if is_andor o then
            match p_expr f r with
            | POk b r' => POk (ABin o a b) r'
            | PFail => POk a (KOp o :: r)
            | PFuel => PFuel
            end
          else POk a (KOp o :: r)
      | x => x
      end
  end.

(* parse a whole token list *)
Definition parse (ts : list tok) : option ast :=
  match p_expr (S (length ts)) ts with
  | POk a [] => Some a
  | _ => None
  end.

(* ---- the tree this parser builds for the canonical text of a tree ----
   (Proofs/C15.v: parse (pr t) = Some (canon t) unless `==`/`!=` is followed by
   an unparenthesised relational operand).  An and/or chain comes out nested to
   the right: [graft x o y] hangs `o y` at the right end of the chain x. *)
Fixpoint graft (x : ast) (o : binop) (y : ast) : ast :=
  match x with
  | ABin o' a b => if is_andor o' then ABin o' a (graft b o y) else ABin o x y
  | _ => ABin o x y
  end.

Fixpoint canon (t : tree) : ast :=
  match t with
  | TNum n => ANum false n
  | TBool b => ABool b
  | TNeg (TNum n) => ANum true n
  | TNeg t' => AUn UNeg (AParen (canon t'))
  | TNot t' => AUn UNot (if Nat.ltb (tprec t') 7 then AParen (canon t') else canon t')
  | TBin o l r =>
      let a := if Nat.ltb (tprec l) (prec o) then AParen (canon l) else canon l in
      let b := if Nat.ltb (tprec r) (S (prec o)) then AParen (canon r) else canon r in
      if is_andor o then graft a o b else ABin o a b
  end.

Definition binop_eqb (o o' : binop) : bool :=
  match o, o' with
  | BOr, BOr | BAnd, BAnd | BEq, BEq | BNe, BNe | BLt, BLt | BLe, BLe | BGt, BGt | BGe, BGe
  | BPlus, BPlus | BMinus, BMinus | BMul, BMul | BMod, BMod => true
  | _, _ => false
  end.

Fixpoint ast_eqb (x y : ast) : bool :=
  match x, y with
  | ANum s n, ANum s' n' => Bool.eqb s s' && N.eqb n n'
  | ABool b, ABool b' => Bool.eqb b b'
  | AParen a, AParen a' => ast_eqb a a'
  | AUn UNeg a, AUn UNeg a' | AUn UNot a, AUn UNot a' => ast_eqb a a'
  | ABin o a b, ABin o' a' b' => binop_eqb o o' && ast_eqb a a' && ast_eqb b b'
  | _, _ => false
  end.
