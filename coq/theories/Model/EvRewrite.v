(* Evaluator layer, rewrites: Item::Debug / Item::Warn of output/transform.rs
   (they evaluate their value and write it to stderr only), and the
   "respelling" relation behind the -/_ rewrite. *)
From Coq Require Import String Ascii List ZArith Bool.
From RV Require Import Model.EvArgs Model.EvScope.
Import ListNotations.

(* a body whose statements are interleaved with @debug / @warn *)
Inductive item : Type :=
| IStmt (s : stmt)
| IDebug (e : expr)
| IWarn (e : expr).

Definition trace := list sval.          (* what went to stderr *)

Definition exec_item (i : item) (x : state * output * trace) : state * output * trace :=
  let '(st, out, tr) := x in
  match i with
  | IStmt s => let (st', out') := exec s (st, out) in (st', out', tr)
  | IDebug e | IWarn e => (st, out, tr ++ [eval_expr st e])
  end.
Definition exec_items (l : list item) (x : state * output * trace) : state * output * trace :=
  fold_left (fun x i => exec_item i x) l x.

(* the same body with the @debug / @warn items removed *)
Definition strip (l : list item) : list stmt :=
  flat_map (fun i => match i with IStmt s => [s] | _ => [] end) l.

(* two spellings of a name: equal except that `-` and `_` may be exchanged at any position *)
Definition sepc (c : ascii) : bool := Ascii.eqb c "-"%char || Ascii.eqb c "_"%char.
Fixpoint respell (a b : string) : bool :=
  match a, b with
  | EmptyString, EmptyString => true
  | String c a', String d b' => (Ascii.eqb c d || (sepc c && sepc d)) && respell a' b'
  | _, _ => false
  end.

(* a signature / call with every name normalised *)
Definition norm_dexpr (d : dexpr) : dexpr := match d with DLit v => DLit v | DRef n => DRef (norm n) end.
Definition norm_sig (s : sigT) : sigT :=
  mkSig (map (fun p => (norm (fst p), option_map norm_dexpr (snd p))) (s_params s)) (option_map norm (s_rest s)).
Definition norm_kvs (l : list (string * EvValue.value)) := map (fun kv => (norm (fst kv), snd kv)) l.
Definition norm_call (c : callT) : callT :=
  mkCall (c_pos c) (norm_kvs (c_named c)) (c_lsplat c) (option_map norm_kvs (c_msplat c))
         (option_map (fun pk => (fst pk, norm_kvs (snd pk))) (c_asplat c)).
