(* Worlds (file name -> directives), the loaders used by the correspondence checks
   (exact in-memory map with fault injection; file system with load paths and
   `.`/`..` resolution), and the summary of a model run that is compared with the
   implementation.  Shared by the runners of C02, C03, C04, C39. *)
From Coq Require Import String List Bool Arith Ascii NArith ZArith.
From RV Require Import Gen.Candidates Model.Load.
Import ListNotations.
Local Open Scope string_scope.

Definition world : Type := list (string * body).

Fixpoint assoc_body (w : world) (id : string) : body :=
  match w with
  | [] => []
  | (n, b) :: r => if String.eqb n id then b else assoc_body r id
  end.

Definition names (w : world) : list string := map fst w.

(* ---------- exact in-memory loader (harness command `files`) ---------- *)

Inductive fault : Type := NoFault | FailFind (k : nat) | FailRead (k : nat) | FailMany (finds reads : list nat).

Definition count_found (w : world) (hist : list string) : nat :=
  List.length (filter (fun u => mem u (names w)) hist).

(* call index = number of earlier calls; the K-th successful lookup hands out an unreadable file *)
Definition mem_oracle (w : world) (f : fault) (hist : list string) (u : string) : answer :=
  match f with
  | FailFind k => if Nat.eqb (List.length hist) k then AFail
                  else if mem u (names w) then AFound u true else AMissing
  | FailRead k => if mem u (names w) then AFound u (negb (Nat.eqb (count_found w hist) k)) else AMissing
  | FailMany finds reads =>
      if existsb (Nat.eqb (List.length hist)) finds then AFail
      else if mem u (names w) then AFound u (negb (existsb (Nat.eqb (count_found w hist)) reads)) else AMissing
  | NoFault => if mem u (names w) then AFound u true else AMissing
  end.

(* ---------- file system: segments, `.` and `..` ---------- *)

Fixpoint seg_prefix (a b : list string) : bool :=   (* a is a strict prefix of b *)
  match a, b with
  | [], _ :: _ => true
  | x :: a', y :: b' => String.eqb x y && seg_prefix a' b'
  | _, _ => false
  end.

Fixpoint seg_eqb (a b : list string) : bool :=
  match a, b with
  | [], [] => true
  | x :: a', y :: b' => String.eqb x y && seg_eqb a' b'
  | _, _ => false
  end.

(* directories are the strict prefixes of existing files *)
Definition is_dir (files : list string) (segs : list string) : bool :=
  match segs with [] => true | _ => existsb (fun f => seg_prefix segs (segments f)) files end.

(* walk the segments keeping the stack of entered directories (innermost first) *)
Fixpoint walk (files : list string) (stack : list string) (segs : list string) : option (list string) :=
  match segs with
  | [] => Some (rev stack)
  | sg :: r =>
      if String.eqb sg "" then walk files stack r
      else if String.eqb sg "." then (if is_dir files (rev stack) then walk files stack r else None)
      else if String.eqb sg ".." then
        match stack with
        | [] => None                                   (* above the modelled tree *)
        | _ :: st' => if is_dir files (rev stack) then walk files st' r else None
        end
      else walk files (sg :: stack) r
  end.

Definition join_segs (l : list string) : string := String.concat "/" l.

(* the file a path denotes, if it denotes an existing regular file *)
Definition fs_isfile (files : list string) (path : string) : option string :=
  match walk files [] (segments path) with
  | Some segs => let p := join_segs segs in if mem p files then Some p else None
  | None => None
  end.

Definition fs_lookup (files bases : list string) (url : string) : option string :=
  fs_find (fs_isfile files) bases url.

(* ---------- running a case ---------- *)

Inductive mode : Type :=
| MMem (f : fault)                     (* exact names, harness command `files` *)
| MNorm                                (* in-memory names with `.`/`..` resolution *)
| MFs (bases : list string).           (* harness command `path`: world paths are `<base>/<url>` *)

Definition oracle_of (w : world) (m : mode) : oracle :=
  match m with
  | MMem f => mem_oracle w f
  | MNorm => orc_of (fs_lookup (names w) [""])
  | MFs bases => orc_of (fs_lookup (names w) bases)
  end.

Definition default_fuel : nat := 60.

(* root: the url the root file is known by; rootid: its name in the world *)
Definition run_world (w : world) (m : mode) (root rootid : string) : res :=
  run (oracle_of w m) (assoc_body w) default_fuel root rootid.

(* outcome classes shared with the python side *)
Definition class_of (r : res) : Z :=
  match r with
  | ROk _ => 0
  | RErr (ELoop false) _ => 1
  | RErr (ELoop true) _ => 2
  | RErr ENotFound _ => 3
  | RErr ELoaderFail _ => 4
  | RErr EReadFail _ => 5
  | RErr EUnknownFormat _ => 6
  | RFuel => 9
  end%Z.

Definition state_of (r : res) : option state :=
  match r with ROk s => Some s | RErr _ s => Some s | RFuel => None end.

Fixpoint strs_eqb (a b : list string) : bool :=
  match a, b with
  | [], [] => true
  | x :: a', y :: b' => String.eqb x y && strs_eqb a' b'
  | _, _ => false
  end.

Fixpoint ns_eqb (a b : list N) : bool :=
  match a, b with
  | [], [] => true
  | x :: a', y :: b' => N.eqb x y && ns_eqb a' b'
  | _, _ => false
  end.

(* what the implementation answered *)
Record impl : Type := mkImpl {
  i_class : Z;               (* as class_of; 7 = other error, 8 = panic, 9 = crash / stopped by the OS *)
  i_markers : list N;        (* markers in the css, in order *)
  i_imports : list string;   (* plain css imports in the css, in order *)
  i_log : option (N * N) }.   (* loader calls (in-memory modes): how many, and their fingerprint *)

(* fingerprint of a call log (transport only: the logs are compared through it) *)
Definition hmod : N := 2305843009213693951.
Fixpoint hash_str (s : string) (h : N) : N :=
  match s with
  | EmptyString => ((h * 131) mod hmod)%N
  | String c r => hash_str r ((h * 131 + N_of_ascii c + 1) mod hmod)%N
  end.
Definition hash_log (l : list string) : N := fold_left (fun h u => hash_str u h) l 7%N.
Definition log_matches (calls_rev : list string) (l : N * N) : bool :=
  N.eqb (N.of_nat (List.length calls_rev)) (fst l) && N.eqb (hash_log (rev calls_rev)) (snd l).

(* 1 agree / 0 disagree *)
Definition corr_res (r : res) (i : impl) : Z :=
  if negb (Z.eqb (class_of r) (i_class i)) then 0%Z
  else match r with
       | RFuel => 1%Z
       | ROk s =>
           if ns_eqb (rev (out s)) (i_markers i) && strs_eqb (rev (imports s)) (i_imports i)
              && match i_log i with Some l => log_matches (calls s) l | None => true end
           then 1%Z else 0%Z
       | RErr _ s =>
           match i_log i with Some l => if log_matches (calls s) l then 1%Z else 0%Z | None => 1%Z end
       end.
