(* A small model of css::Value (css/value.rs): numbers, strings, booleans, null,
   lists and maps; `==` (impl PartialEq for Value) and the introspection
   formatter (css/valueformat.rs with Format::introspect(), i.e. `inspect()`).
   Numbers carry their bit pattern and unit (for ==) and the text rsass prints
   for them (number printing itself is the subject of C10, not modelled here). *)
From Coq Require Import String List NArith ZArith Bool.
From RV Require Import Base.Text Base.ListX Base.F64 Gen.Units Model.Units Model.Numeric Model.CssStr.
Import ListNotations.
Local Open Scope N_scope.
Local Open Scope list_scope.

(* value/list_separator.rs, in declaration (= derived Ord) order *)
Inductive sep : Type := SSpace | SSlash | SSlashNoSpace | SComma.
Definition sep_rank (s : sep) : N :=
  match s with SSpace => 0 | SSlash => 1 | SSlashNoSpace => 2 | SComma => 3 end.
Definition sep_eqb (a b : sep) : bool := sep_rank a =? sep_rank b.
Definition sep_leb (a b : sep) : bool := sep_rank a <=? sep_rank b.
Definition osep_eqb (a b : option sep) : bool :=
  match a, b with
  | Some x, Some y => sep_eqb x y
  | None, None => true
  | _, _ => false
  end.
Definition sep_or_default (s : option sep) : sep := match s with Some x => x | None => SSpace end.

Inductive value : Type :=
| VNum (bits : Z) (unit : string) (shown : list N)
| VStr (s : cssstring)
| VBool (b : bool)
| VNull
| VList (items : list value) (s : option sep) (bracketed : bool)
| VMap (entries : list (value * value))
| VArgs (positional : list value).          (* ArgList without named arguments / trailing comma *)

(* ---- numbers: == through Model.Numeric ---- *)
Definition unit_of_text (t : string) : unit :=
  if String.eqb t "" then u_none else
  match assoc t parser_units with
  | Some v => UK v
  | None => UU t
  end.
Definition numeric_of (bits : Z) (u : string) : numeric :=
  mkNum (of_bits bits) (us_of_unit (unit_of_text u)).
(* single-unit numbers never leave the modelled fragment of numeric_cmp *)
Definition num_eqb (b1 : Z) (u1 : string) (b2 : Z) (u2 : string) : bool :=
  match numeric_eq (numeric_of b1 u1) (numeric_of b2 u2) with
  | Some r => r
  | None => false
  end.

Definition str_eqb (a b : cssstring) : bool :=
  match css_eq a b with Some r => r | None => false end.

(* ---- impl PartialEq for Value ----
   Map == Map is `a.len() == b.len() && a.iter().all(|(k, v)| b.get(k) == Some(v))`, where b.get
   compares `stored_in_b == k` and the values as `v_b == v`: the operands from b come FIRST.
   To keep structural recursion on one argument the definition is a pair: eqL x y is `x == y`,
   eqR x y is `y == x`, both by recursion on x (Proofs/C13.v: eqR x y = eqL y x). *)
Fixpoint eqL (x y : value) {struct x} : bool :=
  match x, y with
  | VNum b1 u1 _, VNum b2 u2 _ => num_eqb b1 u1 b2 u2
  | VStr a, VStr b => str_eqb a b
  | VBool a, VBool b => Bool.eqb a b
  | VNull, VNull => true
  | VList xs s1 k1, VList ys s2 k2 =>
      (fix go (xs ys : list value) {struct xs} : bool :=
         match xs, ys with
         | [], [] => true
         | a :: xs', b :: ys' => eqL a b && go xs' ys'
         | _, _ => false
         end) xs ys && osep_eqb s1 s2 && Bool.eqb k1 k2
  | VMap xs, VMap ys =>
      Nat.eqb (length xs) (length ys) &&
      (fix all (xs : list (value * value)) {struct xs} : bool :=
         match xs with
         | [] => true
         | (k, v) :: xs' =>
             (fix get (ys : list (value * value)) : bool :=
                match ys with
                | [] => false
                | (k', v') :: ys' => if eqR k k' then eqR v v' else get ys'
                end) ys && all xs'
         end) xs
  | VList xs _ _, VMap ys => match xs, ys with [], [] => true | _, _ => false end
  | VMap xs, VList ys _ _ => match xs, ys with [], [] => true | _, _ => false end
  | VArgs xs, VArgs ys =>
      (fix go (xs ys : list value) {struct xs} : bool :=
         match xs, ys with
         | [], [] => true
         | a :: xs', b :: ys' => eqL a b && go xs' ys'
         | _, _ => false
         end) xs ys
  | _, _ => false
  end
with eqR (x y : value) {struct x} : bool :=       (* y == x *)
  match x, y with
  | VNum b1 u1 _, VNum b2 u2 _ => num_eqb b2 u2 b1 u1
  | VStr a, VStr b => str_eqb b a
  | VBool a, VBool b => Bool.eqb b a
  | VNull, VNull => true
  | VList xs s1 k1, VList ys s2 k2 =>
      (fix go (xs ys : list value) {struct xs} : bool :=
         match xs, ys with
         | [], [] => true
         | a :: xs', b :: ys' => eqR a b && go xs' ys'
         | _, _ => false
         end) xs ys && osep_eqb s2 s1 && Bool.eqb k2 k1
  | VMap xs, VMap ys =>
      (* y = VMap ys is the left operand: all of ys looked up in xs *)
      Nat.eqb (length ys) (length xs) &&
      forallb (fun kv : value * value =>
         let (k, v) := kv in
         (fix get (xs : list (value * value)) {struct xs} : bool :=
            match xs with
            | [] => false
            | (k', v') :: xs' => if eqL k' k then eqL v' v else get xs'
            end) xs) ys
  | VList xs _ _, VMap ys => match ys, xs with [], [] => true | _, _ => false end
  | VMap xs, VList ys _ _ => match ys, xs with [], [] => true | _, _ => false end
  | VArgs xs, VArgs ys =>
      (fix go (xs ys : list value) {struct xs} : bool :=
         match xs, ys with
         | [], [] => true
         | a :: xs', b :: ys' => eqR a b && go xs' ys'
         | _, _ => false
         end) xs ys
  | _, _ => false
  end.

Definition veq : value -> value -> bool := eqL.

(* ---- Display for Formatted<Value>, introspection style ---- *)
Definition t_true : list N := [116; 114; 117; 101].
Definition t_false : list N := [102; 97; 108; 115; 101].
Definition t_null : list N := [110; 117; 108; 108].
Definition paren (t : list N) : list N := 40 :: t ++ [41].

(* ListSeparator::sep(compressed) *)
Definition sep_text (s : sep) (compressed : bool) : list N :=
  match s with
  | SComma => if compressed then [44] else [44; 32]
  | SSlash => if compressed then [47] else [32; 47; 32]
  | SSlashNoSpace => [47]
  | SSpace => [32]
  end.

Fixpoint join_with (s : list N) (l : list (list N)) : list N :=
  match l with
  | [] => []
  | [x] => x
  | x :: r => x ++ s ++ join_with s r
  end.

Definition is_comma_list (v : value) : bool :=
  match v with VList _ (Some SComma) _ => true | _ => false end.

(* needs_paren of the List arm, introspection: an unbracketed inner list of two
   or more items whose separator is not weaker than the outer one *)
Definition item_needs_paren (outer : sep) (v : value) : bool :=
  match v with
  | VList items inner false =>
      sep_leb outer (sep_or_default inner) && negb (Nat.ltb (length items) 2)
  | _ => false
  end.

Definition fmt_list (texts : list (list N)) (s : sep) (bracketed : bool) : list N :=
  let body :=
    match texts with
    | [] => []
    | [first] =>
        if negb (sep_eqb s SSpace) then
          if bracketed then first ++ sep_text s true
          else paren (first ++ sep_text s true)
        else first
    | _ => join_with (sep_text s false) texts
    end in
  if bracketed then 91 :: body ++ [93] else body.

Fixpoint inspect (v : value) : list N :=
  match v with
  | VNum _ _ shown => shown
  | VStr s => utf8_encode (css_display s)
  | VBool b => if b then t_true else t_false
  | VNull => t_null
  | VList items s bracketed =>
      let s' := sep_or_default s in
      match items, bracketed with
      | [], false => [40; 41]
      | _, _ =>
        fmt_list (map (fun i => if item_needs_paren s' i then paren (inspect i) else inspect i) items)
                 s' bracketed
      end
  | VMap entries =>
      paren (join_with [44; 32]
        (map (fun kv : value * value =>
                let (k, x) := kv in
                (if is_comma_list k then paren (inspect k) else inspect k)
                ++ [58; 32]
                ++ (if is_comma_list x then paren (inspect x) else inspect x)) entries))
  | VArgs items =>
      match items with
      | [] => [40; 41]
      | [first] => paren (inspect first ++ [44])
      | _ => join_with [44; 32] (map inspect items)
      end
  end.

(* Value::iter_items *)
Definition pair_list (kv : value * value) : value :=
  VList [fst kv; snd kv] (Some SSpace) false.
Definition iter_items (v : value) : list value :=
  match v with
  | VArgs p => p
  | VList l _ _ => l
  | VMap m => map pair_list m
  | x => [x]
  end.

(* Value::type_name, for the types modelled here *)
Definition type_name (v : value) : list N :=
  bytes_of_string
    match v with
    | VNum _ _ _ => "number" | VStr _ => "string" | VBool _ => "bool" | VNull => "null"
    | VList _ _ _ => "list" | VMap _ => "map" | VArgs _ => "arglist"
    end%string.

(* a unitless integer as a value (Value::scalar(i)) *)
Definition v_int (z : Z) : value := VNum (to_bits (f_of_Z z)) "" (dec_of_Z z).
Definition v_unq (t : list N) : value := VStr (mkStr t QNone).
