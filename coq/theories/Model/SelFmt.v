(* write_to of selectorset.rs / selector.rs / compound.rs / pseudo.rs / attribute.rs,
   for the expanded (compressed = false) and compressed output formats. *)
From Coq Require Import List NArith Bool.
From RV Require Import Base.Text Model.Sel.
Import ListNotations.
Import String.StringSyntax.
Local Open Scope string_scope.
Local Open Scope list_scope.

Section JoinMap.
  Context {A : Type} (f : A -> text) (sep : text).
  Fixpoint join_map (l : list A) : text :=
    match l with
    | [] => []
    | [x] => f x
    | x :: r => f x ++ sep ++ join_map r
    end.
End JoinMap.

(* str::replacen(pat, by, 1) on bytes *)
Fixpoint starts_with (s pre : text) : bool :=
  match pre, s with
  | [], _ => true
  | p :: pre', c :: s' => N.eqb p c && starts_with s' pre'
  | _ :: _, [] => false
  end.
Fixpoint replace_first (s pat by_ : text) : text :=
  if starts_with s pat then by_ ++ skipn (length pat) s
  else match s with [] => [] | c :: r => c :: replace_first r pat by_ end.

Definition rel_symbol (k : relkind) : option text :=
  match k with
  | Ancestor => None
  | Parent => Some (str ">")
  | Sibling => Some (str "~")
  | Adjacent => Some (str "+")
  end.

Section Fmt.
  Variable compressed : bool.
  Definition one (normal comp : text) : text := if compressed then comp else normal.

  (* a class that starts with an ASCII digit is written with that digit escaped *)
  Definition fmt_class (c : text) : text :=
    match c with
    | d :: rest => if is_ascii_digit d then [92%N] ++ hex_of_N d ++ [32%N] ++ rest else c
    | [] => []
    end.

  (* CssString Display: quote characters equal to the delimiter are escaped
     (private-use code points are outside the modelled domain) *)
  Definition fmt_cssstring (q : N) (v : text) : text :=
    match q with
    | 1%N => [34%N] ++ flat_map (fun c => if N.eqb c 34 then [92%N; c] else [c]) v ++ [34%N]
    | 2%N => [39%N] ++ flat_map (fun c => if N.eqb c 39 then [92%N; c] else [c]) v ++ [39%N]
    | _ => v
    end.

  Definition fmt_attr (a : attr) : text :=
    str "[" ++ a_name a ++ a_op a ++ fmt_cssstring (a_quotes a) (a_val a)
    ++ match a_mod a with Some m => [32%N; m] | None => [] end ++ str "]".

  Definition nth_names : list text :=
    map str ["nth-child"; "nth-last-child"; "nth-last-of-type"; "nth-of-type"].

  Definition base_only_any (b : cbase) (ps : list pseudo) : bool :=
    is_nil (b_classes b) && is_nil (b_phs b) && is_none (b_id b) && is_nil ps.

  Fixpoint fmt_sel (s : sel) : text :=
    match s with
    | Sel rel c =>
        match rel with
        | Some (k, r) =>
            fmt_sel r ++
            match rel_symbol k with
            | Some sym => (if negb (is_local_empty r) then one (str " ") [] else []) ++ sym ++ one (str " ") []
            | None => str " "
            end
        | None => []
        end ++ fmt_comp c
    end
  with fmt_comp (c : compound) : text :=
    match c with
    | Comp b ps =>
        (if b_backref b then str "&" else [])
        ++ match b_elem b with
           | Some e => if negb (elem_is_any e) || base_only_any b ps then e else []
           | None => []
           end
        ++ flat_map (fun p => 37%N :: p) (b_phs b)
        ++ match b_id b with Some i => 35%N :: i | None => [] end
        ++ flat_map (fun c => 46%N :: fmt_class c) (b_classes b)
        ++ flat_map fmt_attr (b_attrs b)
        ++ flat_map fmt_pseudo ps
    end
  with fmt_pseudo (p : pseudo) : text :=
    match p with
    | Pseudo n e a =>
        str ":" ++ (if e then str ":" else []) ++ n
        ++ (if name_in n nth_names then replace_first (fmt_arg a) (str " + ") (str "+") else fmt_arg a)
    end
  with fmt_arg (a : parg) : text :=
    match a with
    | ArgSel l => str "(" ++ join_map fmt_sel (one (str ", ") (str ",")) l ++ str ")"
    | ArgOther t => str "(" ++ t ++ str ")"
    | ArgNone => []
    end.

  (* SelectorSet::write_to *)
  Definition fmt_sels (l : sels) : text := join_map fmt_sel (one (str ", ") (str ",")) l.
End Fmt.
