(* value/range.rs (ValueRange: i64 bounds held in i128, debug-build overflow = panic),
   value/number.rs into_integer and sass/srcrange.rs SrcRange::evaluate. *)
From Coq Require Import String List ZArith Bool.
From RV Require Import Base.FExpr Base.F64 Gen.Units Model.Units Model.Numeric.
Import ListNotations.
Local Open Scope Z_scope.

Definition i64_ok (z : Z) : bool := (i64_min <=? z) && (z <=? i64_max).
Definition i128_ok (z : Z) : bool := (- 2 ^ 127 <=? z) && (z <=? 2 ^ 127 - 1).
(* `x as i64` for an i128: two's complement wrap *)
Definition as_i64 (z : Z) : Z := (z + 2 ^ 63) mod 2 ^ 64 - 2 ^ 63.

(* ---- ValueRange (after fix 48adbab: from / to / step are i128) ---- *)
Record vrange := mkVR { vr_from : Z; vr_to : Z; vr_step : Z }.

(* ValueRange::new: `i128::from(to) + step` cannot overflow for an i64 `to` *)
Definition vr_new (from to : Z) (inclusive : bool) : vrange :=
  let step := if to >=? from then 1 else -1 in
  mkVR from (if inclusive then to + step else to) step.

(* from.partial_cmp(&to) == 0.partial_cmp(&step) *)
Definition vr_continue (r : vrange) : bool :=
  match vr_from r ?= vr_to r, 0 ?= vr_step r with
  | Lt, Lt | Gt, Gt | Eq, Eq => true
  | _, _ => false
  end.

Inductive next_res : Type :=
| NYield (v : Z) (r : vrange)
| NStop
| NPanic.                 (* `self.from += self.step` overflowed i128 (overflow checks are on) *)

(* yields `self.from as i64` *)
Definition vr_next (r : vrange) : next_res :=
  if vr_continue r then
    (if i128_ok (vr_from r + vr_step r)
     then NYield (as_i64 (vr_from r)) (mkVR (vr_from r + vr_step r) (vr_to r) (vr_step r))
     else NPanic)
  else NStop.

Inductive range_res : Type :=
| RItems (l : list Z)
| RPanic
| RFuel.                  (* the model's fuel ran out: never the answer for enough fuel *)

(* `for value in range` *)
Fixpoint vr_collect (fuel : nat) (r : vrange) : range_res :=
  match fuel with
  | O => RFuel
  | S f =>
      match vr_next r with
      | NYield v r' =>
          match vr_collect f r' with
          | RItems l => RItems (v :: l)
          | other => other
          end
      | NStop => RItems []
      | NPanic => RPanic
      end
  end.

Definition range_items (fuel : nat) (from to : Z) (inclusive : bool) : range_res :=
  vr_collect fuel (vr_new from to inclusive).

(* fuel that always suffices *)
Definition range_fuel (from to : Z) : nat := Z.to_nat (Z.abs (to - from)) + 3.

(* ---- Number::into_integer ---- *)
Definition into_integer (x : f64) : option Z :=
  let i := f_as_i64 (fround x) in
  if fle (fabs (fsub (f_of_Z i) x)) f32_epsilon then Some i else None.

(* ---- SrcRange::evaluate on two numeric bounds ---- *)
Definition unit_of_text (t : string) : unit :=
  if String.eqb t "" then u_none else
  match assoc t parser_units with
  | Some v => UK v
  | None => UU t
  end.

Inductive src_res : Type :=
| SRange (from to : Z) (unit : unitset)
| SErrFromInt                 (* "<from> is not an int" *)
| SErrUnit                    (* "Expected <to> to have unit ..." *)
| SErrToInt
| SUnmodelledR.

Definition src_evaluate (from to : numeric) : src_res :=
  match into_integer (nval from) with
  | None => SErrFromInt
  | Some f =>
      let unit := nunit from in
      let scaled :=
        if us_is_none unit || num_is_no_unit to then CSome (nval to)
        else num_as_unitset to unit in
      match scaled with
      | CSome v =>
          match into_integer v with
          | Some t => SRange f t unit
          | None => SErrToInt
          end
      | CNone => SErrUnit
      | CUnmodelled => SUnmodelledR
      end
  end.

(* what the loop binds `$i` to: Numeric::new(i64 as f64, unit) *)
Inductive for_res : Type :=
| FItems (l : list f64) (unit : unitset)
| FErr
| FPanic
| FUnmodelled.

Definition for_eval (from to : numeric) (inclusive : bool) : for_res :=
  match src_evaluate from to with
  | SRange f t u =>
      match range_items (range_fuel f t) f t inclusive with
      | RItems l => FItems (map f_of_Z l) u
      | RPanic => FPanic
      | RFuel => FUnmodelled
      end
  | SUnmodelledR => FUnmodelled
  | _ => FErr
  end.
