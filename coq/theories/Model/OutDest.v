(* Model of the destinations of output/cssdest.rs (CssData, RuleDest, NsRuleDest,
   AtRuleDest, AtMediaDest, with their Drop impls that log and continue) and of
   the arms of output/transform.rs::handle_item / check_body for a statement
   subset of Sass: style rules, declarations, nested properties, loud comments,
   @media, other at-rules (with and without body), @at-root, @error, @if,
   loops, mixins with content blocks.

   Values and selectors are literal (no expressions): a declaration carries its
   name and value text, a selector is one of three shapes.  The open
   destinations form a stack of frames (innermost first) over the CssData root;
   `close` is the Drop of the innermost destination. *)
From Coq Require Import List NArith Bool Arith.
From RV Require Import Base.Text Model.Out Gen.AtNames.
Import ListNotations.
Local Open Scope N_scope.

(* ---- selectors (css/selectors/{context,cssselectorset}.rs, restricted) ---- *)
Inductive sel :=
| SPlain (t : bytes)      (* `t`   : no parent reference: descendant of every parent *)
| SSuffix (t : bytes)     (* `&t`  : t is `.class` or `:pseudo`, appended to every parent *)
| SUnder (t : bytes).     (* `t &` : every parent as descendant of t *)

Definition selset := option (list bytes).         (* None = the root (empty) selector *)
Record sctx := mkCtx { c_s : selset; c_backref : selset }.
Definition root_ctx : sctx := mkCtx None None.
Definition get_backref (c : sctx) : selset := match c_s c with None => c_backref c | s => s end.

(* round robin merge: [[a1;b1];[a2;b2]] -> [a1;a2;b1;b2] *)
Fixpoint heads {A} (l : list (list A)) : list A :=
  match l with [] => [] | [] :: r => heads r | (x :: _) :: r => x :: heads r end.
Fixpoint tails {A} (l : list (list A)) : list (list A) :=
  match l with [] => [] | [] :: r => tails r | (_ :: t) :: r => t :: tails r end.
Fixpoint rr {A} (fuel : nat) (l : list (list A)) : list A :=
  match fuel with
  | O => []
  | S n => match heads l with [] => [] | h => h ++ rr n (tails l) end
  end.
Definition round_robin {A} (l : list (list A)) : list A :=
  rr (S (fold_right (fun x n => (length x + n)%nat) 0%nat l)) l.

Definition sp : bytes := [32].
(* appending a class to a compound that already has it changes nothing *)
Fixpoint take_compound (r : bytes) : bytes :=
  match r with [] => [] | c :: r' => if c =? 32 then [] else c :: take_compound r' end.
Definition last_compound (p : bytes) : bytes := rev (take_compound (rev p)).
Fixpoint has_sub (t x : bytes) : bool :=
  match x with
  | [] => match t with [] => true | _ => false end
  | _ :: r => is_prefix t x || has_sub t r
  end.
Definition append_suffix (p t : bytes) : bytes := if has_sub t (last_compound p) then p else p ++ t.
(* None = outside the model (a parent reference with nothing to refer to) *)
Definition resolve1 (backref : selset) (o : sel) : option (list bytes) :=
  match o with
  | SPlain t => Some [t]
  | SSuffix t => match backref with Some bs => Some (map (fun p => append_suffix p t) bs) | None => None end
  | SUnder t => match backref with Some bs => Some (map (fun p => t ++ sp ++ p) bs) | None => None end
  end.
Definition nest1 (c : sctx) (o : sel) : option (list bytes) :=
  match o with
  | SPlain t => match c_s c with
                | Some ps => Some (map (fun p => p ++ sp ++ t) ps)
                | None => Some [t]
                end
  | _ => resolve1 (get_backref c) o
  end.
Fixpoint all_some {A} (l : list (option A)) : option (list A) :=
  match l with
  | [] => Some []
  | Some x :: r => match all_some r with Some r' => Some (x :: r') | None => None end
  | None :: _ => None
  end.
(* SelectorCtx::nest *)
Definition nest (c : sctx) (l : list sel) : option (list bytes) :=
  match all_some (map (nest1 c) l) with Some parts => Some (round_robin parts) | None => None end.
(* SelectorCtx::at_root *)
Definition at_root (c : sctx) (l : option (list sel)) : option sctx :=
  match l with
  | None => Some (mkCtx None (get_backref c))
  | Some l => match all_some (map (resolve1 (get_backref c)) l) with
              | Some parts => Some (mkCtx (Some (round_robin parts)) (get_backref c))
              | None => None
              end
  end.

(* ---- the statement subset ---- *)
Inductive stmt :=
| SDecl (name value : bytes)
| SComment (text : bytes)                       (* loud comment, text between the delimiters, interpolation done *)
| SRule (sels : list sel) (body : list stmt)
| SNs (name : bytes) (value : option bytes) (body : list stmt)      (* name: value { body } *)
| SMedia (query : bytes) (body : list stmt)
| SAtR (name : bytes) (args : option bytes) (body : option (list stmt))
| SAtRoot (sels : option (list sel)) (body : list stmt)
| SError (msg : bytes)
| SIf (c : bool) (t e : list stmt)
| SLoop (n : nat) (body : list stmt)            (* @each over n items, body does not use the variable *)
| SEach (proto : list stmt) (bodies : list (list stmt))
    (* @each / @for / @while whose body tests the loop variable: `bodies` is the body as it
       runs in each iteration (conditions on the variable decided), `proto` the body as
       check_body sees it *)
| SInclude (m : nat) (content : option (list stmt))
| SContent.

Record program := mkProg { p_mixins : list (list stmt); p_main : list stmt }.

Inductive err := EAtRule | EDeclOutside | EInNs | EGlobalNs | EAtError (msg : bytes) | EUndefMixin.
Inductive res (A : Type) := Ok (a : A) | Err (e : err) | OutOfFuel | Outside.
Arguments Ok {A}. Arguments Err {A}. Arguments OutOfFuel {A}. Arguments Outside {A}.

(* ---- destinations ---- *)
Definition rulebuf := (list leaf * list item)%type.
Inductive frame :=
| FRule (r : rulebuf)
| FNs (name : bytes)
| FAt (name : bytes) (args : option leaf) (rule : option rulebuf) (body : list item)
| FMedia (args : margs) (rule : option rulebuf) (body : list item).

(* frames innermost first, the CssData root, number of errors swallowed by Drop impls *)
Record dstate := mkD { d_frames : list frame; d_root : cssdata; d_lost : nat }.

Definition leaves (l : list bytes) : list leaf := map same_leaf l.
Definition sels_of (s : selset) : list leaf := match s with Some l => leaves l | None => [same_leaf []] end.

Definition is_import (it : item) : bool := match it with IImport _ _ => true | _ => false end.
Definition is_sep (it : item) : bool := match it with ISep => true | _ => false end.
Definition no_body_at (it : item) : bool := match it with IAt _ _ None => true | _ => false end.

Definition root_push (d : cssdata) (it : item) : cssdata :=
  if is_import it then mkData (d_imports d ++ [it]) (d_body d)
  else mkData (d_imports d) (d_body d ++ [it]).

(* CssDestination::push_item on the destination whose frames are fs (innermost first).
   The recursion follows the parent chain; fuel = number of frames + 1. *)
Fixpoint push_item_f (fuel : nat) (fs : list frame) (root : cssdata) (it : item) : res (list frame * cssdata) :=
  match fuel with
  | O => OutOfFuel
  | S n =>
    match fs with
    | [] => Ok ([], root_push root it)
    | FRule (s, b) :: rest =>
        if is_sep it then Ok (fs, root)
        else if no_body_at it then Ok (FRule (s, b ++ [it]) :: rest, root)
        else
          (* commit_rule, then hand the item to the parent *)
          match (match b with
                 | [] => Ok (rest, root)
                 | _ => push_item_f n rest root (IRule s b)
                 end) with
          | Ok (rest1, root1) =>
              match push_item_f n rest1 root1 it with
              | Ok (rest2, root2) => Ok (FRule (s, []) :: rest2, root2)
              | Err e => Err e | OutOfFuel => OutOfFuel | Outside => Outside
              end
          | Err e => Err e | OutOfFuel => OutOfFuel | Outside => Outside
          end
    | FNs _ :: _ => Err EInNs
    | FAt n' a r b :: rest => if is_sep it then Ok (fs, root) else Ok (FAt n' a r (b ++ [it]) :: rest, root)
    | FMedia a r b :: rest => if is_sep it then Ok (fs, root) else Ok (FMedia a r (b ++ [it]) :: rest, root)
    end
  end.
Definition push_item (fs : list frame) (root : cssdata) (it : item) : res (list frame * cssdata) :=
  push_item_f (S (length fs)) fs root it.

Definition dash : bytes := [45].

Fixpoint push_property (fs : list frame) (root : cssdata) (n : bytes) (v : leaf) : res (list frame * cssdata) :=
  match fs with
  | [] => Err EDeclOutside
  | FRule (s, b) :: rest => Ok (FRule (s, b ++ [IProp n v]) :: rest, root)
  | FNs name :: rest =>
      match push_property rest root (name ++ dash ++ n) v with
      | Ok (rest1, root1) => Ok (FNs name :: rest1, root1)
      | Err e => Err e | OutOfFuel => OutOfFuel | Outside => Outside
      end
  | FAt an a (Some (s, b)) body :: rest => Ok (FAt an a (Some (s, b ++ [IProp n v])) body :: rest, root)
  | FAt an a None body :: rest => Ok (FAt an a None (body ++ [IProp n v]) :: rest, root)
  | FMedia a (Some (s, b)) body :: rest => Ok (FMedia a (Some (s, b ++ [IProp n v])) body :: rest, root)
  | FMedia a None body :: rest => Ok (FMedia a None (body ++ [IProp n v]) :: rest, root)
  end.

Fixpoint push_comment (fs : list frame) (root : cssdata) (c : item) : list frame * cssdata :=
  match fs with
  | [] => ([], mkData (d_imports root) (d_body root ++ [c]))
  | FRule (s, b) :: rest => (FRule (s, b ++ [c]) :: rest, root)
  | FNs name :: rest => let (rest1, root1) := push_comment rest root c in (FNs name :: rest1, root1)
  | FAt an a (Some (s, b)) body :: rest => (FAt an a (Some (s, b ++ [c])) body :: rest, root)
  | FAt an a None body :: rest => (FAt an a None (body ++ [c]) :: rest, root)
  | FMedia a (Some (s, b)) body :: rest => (FMedia a (Some (s, b ++ [c])) body :: rest, root)
  | FMedia a None body :: rest => (FMedia a None (body ++ [c]) :: rest, root)
  end.

(* CssDestination::separate: only CssData records a separator *)
Definition separate (fs : list frame) (root : cssdata) : cssdata :=
  match fs with [] => mkData (d_imports root) (d_body root ++ [ISep]) | _ => root end.

Definition is_flat_rule (n : bytes) : bool := existsb (bytes_eqb n) flat_rules.

Definition rule_of (f : frame) : option (list leaf) :=
  match f with
  | FRule (s, _) => Some s
  | FNs _ => None
  | FAt _ _ r _ | FMedia _ r _ => match r with Some (s, _) => Some s | None => None end
  end.

Definition start_rule (st : dstate) (s : list leaf) : res dstate :=
  match d_frames st with
  | FNs _ :: _ => Err EInNs
  | fs => Ok (mkD (FRule (s, []) :: fs) (d_root st) (d_lost st))
  end.
(* since rsass ac4acd7 start_atmedia / start_atrule fail inside a nested-property destination *)
Definition start_atmedia (st : dstate) (a : margs) : res dstate :=
  match d_frames st with
  | FNs _ :: _ => Err EInNs
  | fs =>
    let r := match fs with
             | [] => None
             | f :: _ => match rule_of f with Some s => Some (s, []) | None => None end
             end in
    Ok (mkD (FMedia a r [] :: fs) (d_root st) (d_lost st))
  end.
Definition start_atrule (st : dstate) (n : bytes) (a : option leaf) : res dstate :=
  match d_frames st with
  | FNs _ :: _ => Err EInNs
  | fs =>
    let r := match fs with
             | [] => None
             | f :: _ => if is_flat_rule n then None
                         else match rule_of f with Some s => Some (s, []) | None => None end
             end in
    Ok (mkD (FAt n a r [] :: fs) (d_root st) (d_lost st))
  end.
Definition start_nsrule (st : dstate) (n : bytes) : res dstate :=
  match d_frames st with
  | [] => Err EGlobalNs
  | fs => Ok (mkD (FNs n :: fs) (d_root st) (d_lost st))
  end.

(* Drop of the innermost destination: push the finished item to the parent; an
   error of that push is printed to stderr and execution continues *)
Definition drop_push (rest : list frame) (root : cssdata) (lost : nat) (it : option item) : dstate :=
  match it with
  | None => mkD rest (separate rest root) lost
  | Some it =>
      match push_item rest root it with
      | Ok (rest1, root1) => mkD rest1 (separate rest1 root1) lost
      | _ => mkD rest (separate rest root) (S lost)
      end
  end.
Definition close (st : dstate) : dstate :=
  match d_frames st with
  | [] => st
  | FRule (s, b) :: rest =>
      drop_push rest (d_root st) (d_lost st) (match b with [] => None | _ => Some (IRule s b) end)
  | FNs _ :: rest => mkD rest (d_root st) (d_lost st)
  | FAt n a r body :: rest =>
      let body' := match r with Some (s, b) => IRule s b :: body | None => body end in
      drop_push rest (d_root st) (d_lost st) (Some (IAt n a (Some body')))
  | FMedia a r body :: rest =>
      let body' := match r with
                   | Some (s, (_ :: _) as b) => IRule s b :: body
                   | _ => body
                   end in
      drop_push rest (d_root st) (d_lost st) (Some (IMedia a body'))
  end.

(* ---- check_body (output/transform.rs), for the statement subset ---- *)
Inductive bctx := BMixin | BControl | BRule | BNsRule.
Definition dashb : N := 45.
Fixpoint ends_with_dash_then (name known : bytes) : bool :=
  (* name = prefix ++ known with prefix ending in `-` *)
  match name with
  | [] => false
  | c :: r => ((c =? dashb) && bytes_eqb r known) || ends_with_dash_then r known
  end.
Definition name_in (name : bytes) (known : list bytes) : bool :=
  match name with
  | 45 :: _ => existsb (ends_with_dash_then name) known
  | _ => existsb (bytes_eqb name) known
  end.
Definition check_item (c : bctx) (s : stmt) : bool :=
  match s, c with
  | SAtR _ _ _, BRule => true
  | SAtR n _ _, _ => name_in n css_at_rules
  | _, _ => true
  end.
Definition check_body (c : bctx) (l : list stmt) : bool := forallb (check_item c) l.

Definition starts_bang (t : bytes) : bool := match t with c :: _ => c =? 33 | [] => false end.

(* ---- handle_item ---- *)
Definition bind {A B} (r : res A) (f : A -> res B) : res B :=
  match r with Ok a => f a | Err e => Err e | OutOfFuel => OutOfFuel | Outside => Outside end.

Definition run_body (f : dstate -> stmt -> res dstate) : list stmt -> dstate -> res dstate :=
  fix go (l : list stmt) (st : dstate) : res dstate :=
    match l with
    | [] => Ok st
    | x :: r => bind (f st x) (go r)
    end.

Definition with_frames (st : dstate) (r : res (list frame * cssdata)) : res dstate :=
  bind r (fun p => Ok (mkD (fst p) (snd p) (d_lost st))).

(* cenv: content blocks of the enclosing mixin calls, innermost first (None = call without block) *)
Fixpoint eval_item (fuel : nat) (mixins : list (list stmt)) (compressed : bool)
         (cenv : list (option (list stmt))) (ctx : sctx) (st : dstate) (s : stmt) : res dstate :=
  match fuel with
  | O => OutOfFuel
  | S n =>
    let body := fun cenv ctx l st => run_body (eval_item n mixins compressed cenv ctx) l st in
    match s with
    | SDecl name v =>
        with_frames st (push_property (d_frames st) (d_root st) name (same_leaf v))
    | SComment t =>
        (* commit 775eadf: when compressed only comments starting with `!` are kept *)
        if compressed && negb (starts_bang t) then Ok st
        else let (fs, root) := push_comment (d_frames st) (d_root st) (IComment t) in
             Ok (mkD fs root (d_lost st))
    | SRule sels b =>
        if negb (check_body BRule b) then Err EAtRule else
        match nest ctx sels with
        | None => Outside
        | Some ss =>
            bind (start_rule st (leaves ss)) (fun st1 =>
            bind (body cenv (mkCtx (Some ss) None) b st1) (fun st2 => Ok (close st2)))
        end
    | SNs name v b =>
        if negb (check_body BNsRule b) then Err EAtRule else
        bind (match v with
              | Some v => with_frames st (push_property (d_frames st) (d_root st) name (same_leaf v))
              | None => Ok st
              end) (fun st0 =>
        bind (start_nsrule st0 name) (fun st1 =>
        bind (body cenv ctx b st1) (fun st2 => Ok (close st2))))
    | SMedia q b =>
        bind (start_atmedia st (MName q)) (fun st1 =>
        bind (body cenv ctx b st1) (fun st2 => Ok (close st2)))
    | SAtR name args (Some b) =>
        let ctx' := if bytes_eqb name [107;101;121;102;114;97;109;101;115] then root_ctx else ctx in
        bind (start_atrule st name (option_map same_leaf args)) (fun st1 =>
        bind (body cenv ctx' b st1) (fun st2 => Ok (close st2)))
    | SAtR name args None =>
        with_frames st (push_item (d_frames st) (d_root st) (IAt name (option_map same_leaf args) None))
    | SAtRoot sels b =>
        match at_root ctx sels with
        | None => Outside
        | Some ctx' =>
            match c_s ctx' with
            | Some ss =>
                bind (start_rule st (leaves ss)) (fun st1 =>
                bind (body cenv ctx' b st1) (fun st2 => Ok (close st2)))
            | None => body cenv ctx' b st
            end
        end
    | SError msg => Err (EAtError msg)
    | SIf c t e =>
        let items := if c then t else e in
        if negb (check_body BControl items) then Err EAtRule else body cenv ctx items st
    | SLoop k b =>
        if negb (check_body BControl b) then Err EAtRule else
        (fix loop (k : nat) (st : dstate) : res dstate :=
           match k with
           | O => Ok st
           | S k' => bind (body cenv ctx b st) (loop k')
           end) k st
    | SEach proto bodies =>
        if negb (check_body BControl proto) then Err EAtRule else
        (fix each (bs : list (list stmt)) (st : dstate) : res dstate :=
           match bs with
           | [] => Ok st
           | b :: r => bind (body cenv ctx b st) (each r)
           end) bodies st
    | SInclude m content =>
        match nth_error mixins m with
        | None => Err EUndefMixin
        | Some mb => body (content :: cenv) ctx mb st
        end
    | SContent =>
        match cenv with
        | Some c :: outer => body outer ctx c st
        | _ => Ok st
        end
    end
  end.

(* every @mixin declaration is checked when it is declared, before the main body runs *)
Definition eval_program (fuel : nat) (compressed : bool) (p : program) : res dstate :=
  if negb (forallb (check_body BMixin) (p_mixins p)) then Err EAtRule
  else run_body (eval_item fuel (p_mixins p) compressed [] root_ctx) (p_main p) (mkD [] (mkData [] []) 0).

Definition compile (fuel : nat) (s : style) (p : program) : res (bytes * nat) :=
  bind (eval_program fuel (is_compressed s) p) (fun st => Ok (into_buffer s (d_root st), d_lost st)).
