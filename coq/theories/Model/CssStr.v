(* css/string.rs: CssString (value as code points + quotes), Display, unquote,
   quote, pref_dquotes, PartialEq.  Mirrors what the code DOES. *)
From Coq Require Import List NArith Bool.
From RV Require Import Base.Text Base.ListX.
Import ListNotations.
Local Open Scope N_scope.

Inductive quotes : Type := QDouble | QSingle | QNone.

Definition quotes_eqb (a b : quotes) : bool :=
  match a, b with
  | QDouble, QDouble | QSingle, QSingle | QNone, QNone => true
  | _, _ => false
  end.

Record cssstring := mkStr { s_val : list N; s_q : quotes }.

Definition cps_eqb (a b : list N) : bool := list_eqb N.eqb a b.

(* fn is_private_use *)
Definition is_private_use (c : N) : bool :=
  ((57344 <=? c) && (c <=? 63743)) || ((983040 <=? c) && (c <=? 1048573)).

(* impl Display for CssString (code points out) *)
Definition quote_char (q : quotes) : option N :=
  match q with QNone => None | QDouble => Some 34 | QSingle => Some 39 end.

Definition display_char (q : option N) (c : N) : list N :=
  match q with
  | Some qc => if c =? qc then [92; c]
               else if is_private_use c then 92 :: hex_of_N c else [c]
  | None => if is_private_use c then 92 :: hex_of_N c else [c]
  end.

(* char::to_digit(16) *)
Definition hex_digit (c : N) : option N :=
  if (48 <=? c) && (c <=? 57) then Some (c - 48)
  else if (97 <=? c) && (c <=? 102) then Some (c - 87)
  else if (65 <=? c) && (c <=? 70) then Some (c - 55)
  else None.

(* the private-use arm of Display: after the hex escape, a space is written when the next character
   is an ASCII hex digit or a space (it would otherwise be read as part of the escape) *)
Definition needs_terminator (next : list N) : bool :=
  match next with
  | n :: _ => (match hex_digit n with Some _ => true | None => false end) || (n =? 32)
  | [] => false
  end.
Definition is_own_quote (q : option N) (c : N) : bool :=
  match q with Some qc => c =? qc | None => false end.
Definition pu_terminator (q : option N) (c : N) (next : list N) : list N :=
  if negb (is_own_quote q c) && is_private_use c && needs_terminator next then [32] else [].

Fixpoint display_body (q : option N) (l : list N) : list N :=
  match l with
  | [] => []
  | c :: r => display_char q c ++ pu_terminator q c r ++ display_body q r
  end.

Definition css_display (s : cssstring) : list N :=
  let q := quote_char (s_q s) in
  let body := display_body q (s_val s) in
  match q with
  | Some qc => qc :: body ++ [qc]
  | None => body
  end.

(* without private-use characters the body is the character-wise image *)
Lemma display_body_flat q v :
  existsb is_private_use v = false -> display_body q v = flat_map (display_char q) v.
Proof.
  induction v as [|c r IH]; [reflexivity|]. cbn [existsb]. intros H. apply orb_false_iff in H as [Hc Hr].
  cbn [display_body flat_map]. unfold pu_terminator. rewrite Hc, andb_false_r. cbn [andb app]. now rewrite (IH Hr).
Qed.

(* char::try_from(u32).unwrap_or(REPLACEMENT_CHARACTER) *)
Definition char_of_u32 (v : N) : N :=
  if ((55296 <=? v) && (v <=? 57343)) || (1114111 <? v) then 65533 else v.

(* CssString::unquote for a quoted string: a state machine over the chars.
   UEsc val got = inside the `loop` after a backslash.  The accumulator is a
   u32: `val * 16 + digit` overflowing is a panic in a debug build (None). *)
Inductive ust : Type := UNormal | UEsc (val : N) (got : bool).

Definition u32_max : N := 4294967295.

Fixpoint unq (l : list N) (st : ust) : option (list N) :=
  match l, st with
  | [], UNormal => Some []
  | [], UEsc val got => Some (if got then [char_of_u32 val] else [])
  | c :: r, UNormal =>
      if c =? 92 then unq r (UEsc 0 false)
      else option_map (cons c) (unq r UNormal)
  | c :: r, UEsc val got =>
      if (c =? 32) && got then option_map (cons (char_of_u32 val)) (unq r UNormal)
      else match hex_digit c with
           | Some d =>
               let v' := val * 16 + d in
               if u32_max <? v' then None else unq r (UEsc v' true)
           | None =>
               if got then
                 (* break None: c only peeked, the outer loop sees it next *)
                 option_map (cons (char_of_u32 val))
                   (if c =? 92 then unq r (UEsc 0 false)
                    else option_map (cons c) (unq r UNormal))
               else
                 (* nextchar = Some c *)
                 option_map (app (if c =? 10 then [92; 97] else [c])) (unq r UNormal)
           end
  end.

Definition css_unquote (s : cssstring) : option (list N) :=
  match s_q s with
  | QNone => Some (s_val s)
  | _ => unq (s_val s) UNormal
  end.

Definition contains (c : N) (l : list N) : bool := existsb (N.eqb c) l.

(* str::replace('\\', "\\\\") *)
Definition double_backslashes (l : list N) : list N :=
  flat_map (fun c => if c =? 92 then [92; 92] else [c]) l.

(* CssString::quote *)
Definition css_quote (s : cssstring) : cssstring :=
  let v := match s_q s with QNone => double_backslashes (s_val s) | _ => s_val s end in
  if contains 34 v && negb (contains 39 v) then mkStr v QSingle else mkStr v QDouble.

(* CssString::pref_dquotes *)
Definition pref_dquotes (s : cssstring) : cssstring :=
  let v := s_val s in
  mkStr v
    match s_q s with
    | QDouble => if contains 34 v && negb (contains 39 v) then QSingle else QDouble
    | QSingle => if negb (contains 34 v) || contains 39 v then QDouble else QSingle
    | QNone => QNone
    end.

(* impl PartialEq for CssString; None = the unquote overflow panic *)
Definition css_eq (a b : cssstring) : option bool :=
  if quotes_eqb (s_q a) (s_q b) then Some (cps_eqb (s_val a) (s_val b))
  else match css_unquote a, css_unquote b with
       | Some x, Some y => Some (cps_eqb x y)
       | _, _ => None
       end.
