(* Evaluator layer, argument binding: sass/call_args.rs CallArgs::new /
   CallArgs::evaluate (explicit named arguments first, then positional
   arguments and splats), css/call_args.rs (take_positional, only_named,
   check_no_named, add_from_value_map) and sass/formal_args.rs FormalArgs::eval,
   as a function  signature x call -> binding | error.
   Also ScopeRef::eval_body's "first @return reached". *)
From Coq Require Import String Ascii List ZArith Bool.
From RV Require Import Model.EvValue.
Import ListNotations.
Local Open Scope string_scope.
Local Open Scope list_scope.

(* sass/name.rs: `-` and `_` are the same character in a Name (stored as `_`) *)
Fixpoint norm (s : string) : string :=
  match s with
  | EmptyString => EmptyString
  | String c r => String (if Ascii.eqb c "-"%char then "_"%char else c) (norm r)
  end.
(* Display for Name: `_` is shown as `-` *)
Fixpoint disp (s : string) : string :=
  match s with
  | EmptyString => EmptyString
  | String c r => String (if Ascii.eqb c "_"%char then "-"%char else c) (disp r)
  end.

(* default value expressions: a literal or a variable reference *)
Inductive dexpr : Type := DLit (v : value) | DRef (n : string).

Record sigT := mkSig { s_params : list (string * option dexpr); s_rest : option string }.

(* a call: explicit positional arguments, explicit named arguments, then optionally
   a list splat `$l...`, a splatted argument list `$args...` (the rest parameter of an enclosing
   callable: positional values and keywords) and a map splat `$m...` (string keys) *)
Record callT := mkCall {
  c_pos : list value;
  c_named : list (string * value);
  c_lsplat : option value;
  c_msplat : option (list (string * value));
  c_asplat : option (list value * list (string * value)) }.

Definition named := list (string * value).     (* OrderMap<Name, Value>, keys normalised *)

Fixpoint n_get (m : named) (k : string) : option value :=
  match m with
  | [] => None
  | (k', v) :: r => if String.eqb k k' then Some v else n_get r k
  end.
(* OrderMap::insert: replace in place or append; returns the old value *)
Fixpoint n_insert (m : named) (k : string) (v : value) : named * bool :=
  match m with
  | [] => ([(k, v)], false)
  | (k', w) :: r =>
      if String.eqb k k' then ((k', v) :: r, true)
      else let (r', old) := n_insert r k v in ((k', w) :: r', old)
  end.
Fixpoint n_remove (m : named) (k : string) : option value * named :=
  match m with
  | [] => (None, [])
  | (k', w) :: r =>
      if String.eqb k k' then (Some w, r)
      else let (o, r') := n_remove r k in (o, (k', w) :: r')
  end.

(* CallArgs::new (parser): a repeated explicit name is Invalid::DuplicateArgument *)
Fixpoint explicit_named (l : list (string * value)) (acc : named) : option named :=
  match l with
  | [] => Some acc
  | (k, v) :: r =>
      let (acc', old) := n_insert acc (norm k) v in
      if old then None else explicit_named r acc'
  end.

(* CallArgs::evaluate: the list splat extends the positional arguments, the map splat
   goes through add_from_value_map (since fix 5cd805f: an already present name is "Duplicate argument.") *)
Definition splat_items (o : option value) : list value :=
  match o with
  | None => []
  | Some (VList l _ _) => l
  | Some VNull => []
  | Some v => [v]
  end.
Definition add_map (m : named) (o : option (list (string * value))) : option named :=
  match o with
  | None => Some m
  | Some kvs => explicit_named kvs m
  end.

(* the css::Value::ArgList arm: positional values are appended, every keyword is inserted and an
   already present name is Invalid::DuplicateArgument (the same loop as CallArgs::new) *)
Definition arglist_pos (o : option (list value * list (string * value))) : list value :=
  match o with Some (p, _) => p | None => [] end.
Definition add_arglist (m : named) (o : option (list value * list (string * value))) : option named :=
  match o with
  | None => Some m
  | Some (_, kw) => explicit_named kw m
  end.

Definition call_evaluate (c : callT) : option (list value * named) :=
  match explicit_named (c_named c) [] with
  | None => None
  | Some n =>
      match add_arglist n (c_asplat c) with
      | None => None
      | Some n' =>
          match add_map n' (c_msplat c) with
          | None => None
          | Some n'' => Some (c_pos c ++ splat_items (c_lsplat c) ++ arglist_pos (c_asplat c), n'')
          end
      end
  end.

(* what a rest parameter is bound to *)
Inductive restval : Type :=
| RArgs (pos : list value) (kw : named)       (* Value::ArgList *)
| RValue (v : value).                         (* only_named: the lone keyword's value itself *)

Inductive bres : Type :=
| BOk (bound : list (string * value)) (rest : option restval)
| BErr.

(* the variables of the definition scope in the generated programs: `$g: 77; $c: 55; $d: 66;`
   (c and d are also used as parameter names) *)
Definition globals : named := [("g", VInt 77); ("c", VInt 55); ("d", VInt 66)].

(* default.do_evaluate(argscope): parameters bound so far, then the definition scope *)
Definition eval_default (bound : list (string * value)) (d : dexpr) : option value :=
  match d with
  | DLit v => Some v
  | DRef n => match n_get bound (norm n) with
              | Some v => Some v
              | None => n_get globals (norm n)
              end
  end.

(* the loop over self.0[positional.len()..] *)
Fixpoint bind_rest_params (ps : list (string * option dexpr)) (bound : list (string * value)) (nm : named)
  : option (list (string * value) * named) :=
  match ps with
  | [] => Some (bound, nm)
  | (name, dflt) :: r =>
      match n_remove nm (norm name) with
      | (Some v, nm') => bind_rest_params r (bound ++ [(norm name, v)]) nm'
      | (None, _) =>
          match dflt with
          | Some d => match eval_default bound d with
                      | Some v => bind_rest_params r (bound ++ [(norm name, v)]) nm
                      | None => None
                      end
          | None => None                    (* ArgsError::Missing *)
          end
      end
  end.

(* FormalArgs::eval *)
Definition formal_eval (s : sigT) (pos : list value) (nm : named) : bres :=
  let n := length (s_params s) in
  if (match s_rest s with None => true | Some _ => false end) && (n <? length pos + length nm)%nat
  then BErr                                                     (* TooMany / TooManyPos *)
  else
    let taken := firstn n pos in                                (* take_positional *)
    let left := skipn n pos in
    (* since fix 09ccabb: a keyword naming a positionally bound parameter is ArgsError::Twice *)
    if existsb (fun p => match n_get nm (norm (fst p)) with Some _ => true | None => false end)
               (firstn (length taken) (s_params s)) then BErr else
    let bound := map (fun pv => (norm (fst (fst pv)), snd pv)) (combine (s_params s) taken) in
    match bind_rest_params (skipn (length taken) (s_params s)) bound nm with
    | None => BErr
    | Some (bound', nm') =>
        match s_rest s with
        | Some r =>
            (* args.only_named(va_name).unwrap_or_else(|| args.into()) *)
            match left, nm' with
            | [], [(k, v)] => if String.eqb k (norm r) then BOk bound' (Some (RValue v))
                              else BOk bound' (Some (RArgs left nm'))
            | _, _ => BOk bound' (Some (RArgs left nm'))
            end
        | None => match nm' with [] => BOk bound' None | _ => BErr end      (* check_no_named *)
        end
    end.

Definition model_bind (s : sigT) (c : callT) : bres :=
  match call_evaluate c with
  | None => BErr
  | Some (pos, nm) => formal_eval s pos nm
  end.

(* ---- ScopeRef::eval_body: the first @return reached ---- *)
Inductive fstmt : Type :=
| FNop                                   (* a variable declaration, @debug, ... *)
| FRet (v : value)
| FIf (c : value) (thn els : list fstmt).

Fixpoint ret_eval (s : fstmt) : option value :=
  let go := fix go (l : list fstmt) : option value :=
    match l with
    | [] => None
    | x :: r => match ret_eval x with Some v => Some v | None => go r end
    end in
  match s with
  | FNop => None
  | FRet v => Some v
  | FIf c t e => if is_true c then go t else go e
  end.
Fixpoint body_eval (l : list fstmt) : option value :=
  match l with
  | [] => None
  | x :: r => match ret_eval x with Some v => Some v | None => body_eval r end
  end.
