(* Tie between the operator classification used by Model/ExprParse.v and the
   tables regenerated from value/operator.rs and parser/value.rs. *)
From Coq Require Import String List NArith Bool Ascii.
From RV Require Import Base.Text Gen.Operators Spec.SassExpr Model.ExprParse.
Import ListNotations.
Local Open Scope string_scope.

Definition all_binops : list binop :=
  [BOr; BAnd; BEq; BNe; BLt; BLe; BGt; BGe; BPlus; BMinus; BMul; BMod].

(* the Rust variant each operator of the model stands for *)
Definition op_name (o : binop) : string :=
  match o with
  | BOr => "Or" | BAnd => "And" | BEq => "Equal" | BNe => "NotEqual"
  | BLt => "Lesser" | BLe => "LesserE" | BGt => "Greater" | BGe => "GreaterE"
  | BPlus => "Plus" | BMinus => "Minus" | BMul => "Multiply" | BMod => "Modulo"
  end.

(* the parser function whose fold consumes the operator in the model *)
Definition op_layer (o : binop) : string :=
  if is_andor o then "single_expression"
  else if is_rel o then "relational_operator"
  else if is_sum o then "any_additive_expr"
  else "any_product".

Fixpoint assoc_s {A} (k : string) (l : list (string * A)) : option A :=
  match l with
  | [] => None
  | (k', v) :: r => if String.eqb k k' then Some v else assoc_s k r
  end.

Definition layer_tags (layer : string) : list (string * string) :=
  match assoc_s layer parser_layers with Some l => l | None => [] end.

(* the operator is accepted by exactly the layer the model puts it in, with the
   tag the printer writes, which is also its Display string *)
Definition op_tie (o : binop) : bool :=
  let txt := op_text o in
  match assoc_s (op_name o) (layer_tags (op_layer o)), assoc_s (op_name o) operator_display with
  | Some tag, Some d =>
      bytes_eqb (bytes_of_string tag) txt && bytes_eqb (bytes_of_string d) txt
      && forallb (fun lt => String.eqb (fst lt) (op_layer o) || String.eqb (fst lt) "unary_op"
                            || match assoc_s (op_name o) (snd lt) with Some _ => false | None => true end)
                 parser_layers
  | _, _ => false
  end.

(* nothing but the modelled operators (and `/`, which is outside this property) is accepted by the four folds *)
Definition layer_closed (layer : string) : bool :=
  forallb (fun nt => existsb (fun o => String.eqb (op_name o) (fst nt) && String.eqb (op_layer o) layer) all_binops
                     || String.eqb (fst nt) "Div")
          (layer_tags layer).

(* `alt` tries tags in order: no earlier tag may be a proper prefix of a later one *)
Fixpoint no_prefix_shadow (l : list (string * string)) : bool :=
  match l with
  | [] => true
  | (_, t) :: r => forallb (fun nt => negb (String.prefix t (snd nt))) r && no_prefix_shadow r
  end.

Definition operators_tie : bool :=
  parser_layering_ok
  && forallb op_tie all_binops
  && forallb layer_closed ["single_expression"; "relational_operator"; "any_additive_expr"; "any_product"]
  && forallb (fun lt => no_prefix_shadow (snd lt)) parser_layers.
