(* parser/strings.rs for double-quoted literals without interpolation:
   dq_parts (simple_qstring_part, escaped double quote, single quote, normalized_escaped_char_q over
   escaped_char), cleanup_escape_ws, and SassString::evaluate of raw parts
   (concatenation).  The result is the text STORED in the CssString. *)
From Coq Require Import List NArith Bool.
From RV Require Import Base.Text Base.ListX Model.CssStr.
Import ListNotations.
Local Open Scope N_scope.
Local Open Scope list_scope.

Definition is_hex (c : N) : bool := match hex_digit c with Some _ => true | None => false end.

(* chars that end a simple_qstring_part: backslash, hash, both quotes, LF, CR, FF *)
Definition is_special (c : N) : bool :=
  (c =? 92) || (c =? 35) || (c =? 39) || (c =? 34) || (c =? 10) || (c =? 13) || (c =? 12).

Fixpoint take_simple (l : list N) : list N * list N :=
  match l with
  | c :: r => if is_special c then ([], l) else let (a, b) := take_simple r in (c :: a, b)
  | [] => ([], [])
  end.

(* up to `n` hex digits *)
Fixpoint take_hex (n : nat) (l : list N) : list N * list N :=
  match n, l with
  | S k, c :: r => if is_hex c then let (a, b) := take_hex k r in (c :: a, b) else ([], l)
  | _, _ => ([], l)
  end.

Definition hex_value (ds : list N) : N :=
  fold_left (fun acc c => acc * 16 + match hex_digit c with Some d => d | None => 0 end) ds 0.

(* std::char::from_u32 *)
Definition valid_char (v : N) : bool := negb (((55296 <=? v) && (v <=? 57343)) || (1114111 <? v)).

(* char::is_control: general category Cc *)
Definition is_control (c : N) : bool := (c <=? 31) || ((127 <=? c) && (c <=? 159)).

(* fn escaped_char, applied after the backslash; None = nothing to take *)
Definition escaped_char (r : list N) : option (N * list N) :=
  match r with
  | [] => None
  | c :: r' =>
      if c =? 92 then Some (92, r')
      else
        let (ds, rest) := take_hex 6 r in
        match ds with
        | [] => Some (c, r')                                  (* take_char *)
        | _ =>
            (* the terminator alternatives always succeed or the code has 6 digits *)
            let rest' := match rest with 32 :: t => t | _ => rest end in
            if valid_char (hex_value ds) then Some (hex_value ds, rest')
            else Some (c, r')                                 (* map_opt failed: take_char *)
        end
  end.

(* fn normalized_escaped_char_q *)
Definition normalized_q (c : N) : list N :=
  if c =? 0 then [65533]
  else if is_control c && negb (c =? 9) then 92 :: hex_of_N c ++ [32]
  else if (c =? 45) || (c =? 92) || (c =? 32) then [92; c]
  else [c].

(* one alternative of dq_parts; None = parse error / outside the model *)
Definition next_part (l : list N) : option (list N * list N) :=
  match l with
  | [] => None
  | c :: r =>
      if negb (is_special c) then Some (take_simple l)
      else if c =? 92 then
        match r with
        | 34 :: r' => Some ([34], r')
        | _ => match escaped_char r with
               | Some (ch, rest) => Some (normalized_q ch, rest)
               | None => None
               end
        end
      else if c =? 39 then Some ([39], r)
      else None
  end.

Fixpoint parts_fuel (fuel : nat) (l : list N) : option (list (list N)) :=
  match l with
  | [] => Some []
  | _ =>
      match fuel with
      | O => None
      | S f =>
          match next_part l with
          | Some (p, rest) => option_map (cons p) (parts_fuel f rest)
          | None => None
          end
      end
  end.

Definition ends_with_space (s : list N) : bool :=
  match rev s with 32 :: _ => true | _ => false end.
Definition pop (s : list N) : list N := removelast s.

(* fn cleanup_escape_ws (the part `\ `, an escaped space, keeps its space) *)
Fixpoint cleanup (ps : list (list N)) : list (list N) :=
  match ps with
  | [] => []
  | s :: rest =>
      let s' :=
        match s with
        | c :: _ =>
            if (c =? 92) && ends_with_space s && negb (cps_eqb s [92; 32]) then
              match rest with
              | [] => pop s
              | (n :: _) :: _ => if negb (is_hex n) && negb (n =? 9) then pop s else s
              | [] :: _ => s
              end
            else s
        | [] => s
        end in
      s' :: cleanup rest
  end.

(* the stored text of the double-quoted literal with this body *)
Definition store_dq (body : list N) : option (list N) :=
  option_map (fun ps => concat (cleanup ps)) (parts_fuel (S (length body)) body).

(* the value of the literal: CssString(stored, Double) through From<CssString> for Value *)
Definition literal_value (body : list N) : option cssstring :=
  option_map (fun v => pref_dquotes (mkStr v QDouble)) (store_dq body).

(* ---- single-quoted literals (sass_string_sq): the alternatives differ from dq_parts in three places:
   the escaped own quote is backslash-apostrophe, a raw double quote is an ordinary part, and
   backslash-newline (line continuation) is an empty part ---- *)
Definition next_part_sq (l : list N) : option (list N * list N) :=
  match l with
  | [] => None
  | c :: r =>
      if negb (is_special c) then Some (take_simple l)
      else if c =? 92 then
        match r with
        | [] => None
        | d :: r' =>
            if d =? 39 then Some ([39], r')
            else if d =? 10 then Some ([], r')
            else match escaped_char r with
                 | Some (ch, rest) => Some (normalized_q ch, rest)
                 | None => None
                 end
        end
      else if c =? 34 then Some ([34], r)
      else None
  end.

Fixpoint parts_fuel_sq (fuel : nat) (l : list N) : option (list (list N)) :=
  match l with
  | [] => Some []
  | _ =>
      match fuel with
      | O => None
      | S f =>
          match next_part_sq l with
          | Some (p, rest) => option_map (cons p) (parts_fuel_sq f rest)
          | None => None
          end
      end
  end.

Definition store_sq (body : list N) : option (list N) :=
  option_map (fun ps => concat (cleanup ps)) (parts_fuel_sq (S (length body)) body).

Definition literal_value_sq (body : list N) : option cssstring :=
  option_map (fun v => pref_dquotes (mkStr v QSingle)) (store_sq body).

Definition store_lit (single : bool) (body : list N) : option (list N) :=
  if single then store_sq body else store_dq body.
Definition literal_value_of (single : bool) (body : list N) : option cssstring :=
  if single then literal_value_sq body else literal_value body.

(* ---- SassString::evaluate, an interpolation inside a QUOTED string: the text of the (unquoted) value is
   re-escaped character by character; `carry` = a hex escape was just written and a separating space is
   pending (cleared by the next character, which gets the space only when it is a hex digit or a tab).
   char::is_alphanumeric is only modelled for ASCII: None = a character outside the model. ---- *)
Definition ascii_kept (c : N) : bool := ((33 <=? c) && (c <=? 126)) || (c =? 32) || (c =? 9) || (c =? 65533).
Fixpoint interp_escape (l : list N) (carry : bool) : option (list N) :=
  match l with
  | [] => Some []
  | c :: r =>
      let sp := if carry && (is_hex c || (c =? 9)) then [32] else [] in
      if c =? 92 then option_map (fun t => sp ++ [92; 92] ++ t) (interp_escape r false)
      else if ascii_kept c then option_map (fun t => sp ++ c :: t) (interp_escape r false)
      else if is_control c then option_map (fun t => sp ++ 92 :: hex_of_N c ++ t) (interp_escape r true)
      else None
  end.
