(* Model of the colour adjustment functions (sass/functions/color/{hsl,rgb,other}.rs and
   value/colors/mod.rs) on the colour model of Model/Color.v.  Amounts arrive as fractions
   (check_amount: percent / 100; check_alpha_range: plain 0..1; check_hue: degrees). *)
From Coq Require Import String List ZArith Bool.
From RV Require Import Base.F64 Base.FMod Model.Color.
Import ListNotations.
Local Open Scope Z_scope.

Definition hsla_fmt (c : color) : bool := match c with CHsla x => h_format x | _ => false end.

(* lighten / darken / saturate / desaturate / grayscale (global forms: hsla_format = false) *)
(* fix e0d618c: the new lightness is clamped with `.max(0.).min(1.)` *)
Definition clamp01 (x : f64) : f64 := fmin (fmax x f_zero) f_one.
Definition lighten (c : color) (amt : f64) : color :=
  let h := to_hsla c in CHsla (hsla_new (h_hue h) (h_sat h) (clamp01 (fadd (h_lum h) amt)) (h_alpha h) false).
Definition darken (c : color) (amt : f64) : color :=
  let h := to_hsla c in CHsla (hsla_new (h_hue h) (h_sat h) (clamp01 (fsub (h_lum h) amt)) (h_alpha h) false).
Definition saturate (c : color) (amt : f64) : color :=
  let h := to_hsla c in
  CHsla (hsla_new (h_hue h) (fclamp (fadd (h_sat h) amt) f_zero f_one) (h_lum h) (h_alpha h) false).
Definition desaturate (c : color) (amt : f64) : color :=
  let h := to_hsla c in CHsla (hsla_new (h_hue h) (fsub (h_sat h) amt) (h_lum h) (h_alpha h) false).
(* fix 4bdb874: the hsla_format flag is kept for colours that are not rgb *)
Definition grayscale (c : color) : color :=
  let h := to_hsla c in
  CHsla (hsla_new (h_hue h) f_zero (h_lum h) (h_alpha h) (match c with CRgba _ => false | _ => true end)).

(* Color::set_alpha: clamp, then the representation's own clamp *)
Definition get_alpha (c : color) : f64 :=
  match c with CRgba x => r_alpha x | CHsla x => h_alpha x | CHwba x => w_alpha x end.
Definition set_alpha (c : color) (a : f64) : color :=
  let a := fclamp (fclamp a f_zero f_one) f_zero f_one in
  match c with
  | CRgba x => CRgba (mkRgba (r_red x) (r_green x) (r_blue x) a (r_source x))
  | CHsla x => CHsla (mkHsla (h_hue x) (h_sat x) (h_lum x) a (h_format x))
  | CHwba x => CHwba (mkHwba (w_hue x) (w_w x) (w_b x) a)
  end.
Definition opacify (c : color) (amt : f64) : color := set_alpha c (fadd (get_alpha c) amt).
Definition transparentize (c : color) (amt : f64) : color := set_alpha c (fsub (get_alpha c) amt).

(* Color::rotate_hue *)
Definition rotate_hue (c : color) (d : f64) : color :=
  match c with
  | CRgba x => let h := hsla_of_rgba x in
               CHsla (hsla_new (fadd (h_hue h) d) (h_sat h) (h_lum h) (h_alpha h) (h_format h))
  | CHsla h => CHsla (hsla_new (fadd (h_hue h) d) (h_sat h) (h_lum h) (h_alpha h) (h_format h))
  | CHwba w => CHwba (hwba_new (fadd (w_hue w) d) (w_w w) (w_b w) (w_alpha w))
  end.
Definition f180 : f64 := fc 180.
Definition complement (c : color) : color := rotate_hue c f180.
Definition adjust_hue (c : color) (d : f64) : color := rotate_hue c d.

(* invert(color, weight) *)
Definition rgba_invert (x : rgba) (w : f64) : rgba :=
  let inv v := fadd (fmul (fneg (fsub v f255)) w) (fmul v (fsub f_one w)) in
  rgba_new (inv (r_red x)) (inv (r_green x)) (inv (r_blue x)) (r_alpha x) (r_source x).
Definition hsla_invert (h : hsla) (w : f64) : hsla :=
  mkHsla (deg_mod (fadd (h_hue h) f180)) (h_sat h)
         (fadd (fmul (fsub f_one (h_lum h)) w) (fmul (h_lum h) (fsub f_one w))) (h_alpha h) (h_format h).
Definition invert (c : color) (w : f64) : color :=
  match c with
  | CRgba x => CRgba (rgba_invert x w)
  | CHsla h => CHsla (hsla_invert h w)
  | CHwba x => CRgba (rgba_invert (rgba_of_hwba x) w)
  end.

(* mix(color1, color2, weight) *)
Definition mix (a b : color) (w : f64) : color :=
  let a := to_rgba a in let b := to_rgba b in
  let wa := fsub (r_alpha a) (r_alpha b) in
  let w2 := fsub (fmul w f2) f_one in
  let divis := fadd (fmul w2 wa) f_one in
  let w_a := if feq divis f_zero then w else fmidpoint (fdiv (fadd w2 wa) divis) f_one in
  let w_b := fsub f_one w_a in
  let m x y := fadd (fmul w_a x) (fmul w_b y) in
  CRgba (rgba_new (m (r_red a) (r_red b)) (m (r_green a) (r_green b)) (m (r_blue a) (r_blue b))
                  (fadd (fmul (r_alpha a) w) (fmul (r_alpha b) (fsub f_one w))) SName).

(* adjust-color / scale-color / change-color without channel arguments *)
Definition adjust_none (c : color) : color := set_alpha c (get_alpha c).
Definition change_none (c : color) : color := c.
Definition scale_none (c : color) : color :=
  let h := to_hsla c in CHsla (hsla_new (h_hue h) (h_sat h) (h_lum h) (h_alpha h) (h_format h)).

(* impl Ord for Color / PartialEq.  hsl / hwb colours: derived order of the fields (exact f64 comparison,
   then the hsla_format flag); an undefined comparison (NaN channel) counts as Less, i.e. not equal
   (fix 1517171 "comparing hsl colors with NaN channels no longer panics") *)
Definition fcmp_exact (a b : f64) : option comparison := fcmp a b.
Definition hsla_pcmp (a b : hsla) : option comparison :=
  let step (x y : f64) (k : option comparison) :=
    match fcmp x y with Some Eq => k | o => o end in
  step (h_hue a) (h_hue b) (step (h_sat a) (h_sat b) (step (h_lum a) (h_lum b) (step (h_alpha a) (h_alpha b)
    (Some (match h_format a, h_format b with
           | false, true => Lt | true, false => Gt | _, _ => Eq end))))).
Definition color_eq (a b : color) : option bool :=
  let of o := match o with Some Eq => Some true | Some _ => Some false | None => Some false end in
  match a, b with
  | CHsla x, CHsla y => of (hsla_pcmp x y)
  | CHsla x, CHwba y => of (hsla_pcmp x (hsla_of_hwba y))
  | CHwba x, CHsla y => of (hsla_pcmp (hsla_of_hwba x) y)
  | _, _ => of (Some (rgba_cmp (to_rgba a) (to_rgba b)))
  end.
