(* sass/value.rs: Value::do_evaluate for UnaryOp(Not, _) and BinOp::eval for
   And / Or, css/value.rs: Value::is_true, with an effect trace.
   Values are abstracted to what these arms look at: the variant (kind) and the
   text inspect() prints (to compare results with the implementation). *)
From Coq Require Import List ZArith Bool NArith.
From RV Require Import Base.F64 Base.Text Model.Numeric.
Import ListNotations.
Local Open Scope N_scope.

Inductive kind : Type :=
| KNull | KTrue | KFalse
| KNum (bits : Z)          (* Value::Numeric *)
| KUnq                     (* Value::Literal with Quotes::None *)
| KOther.                  (* quoted strings, lists, maps, colours, kept UnaryOp values, ... *)

Record cval := mkV { vk : kind; vtext : list N }.

Definition txt_true : list N := [116; 114; 117; 101].
Definition txt_false : list N := [102; 97; 108; 115; 101].
Definition vbool (b : bool) : cval := if b then mkV KTrue txt_true else mkV KFalse txt_false.

(* css::Value::is_true: everything but False and Null *)
Definition is_true (v : cval) : bool :=
  match vk v with KFalse | KNull => false | _ => true end.

(* the UnaryOp arms of do_evaluate for Operator::Not *)
Definition eval_not (v : cval) : cval :=
  match vk v with
  | KNum b => vbool (number_eq (of_bits b) f_zero)            (* (v.value == 0.into()).into() *)
  | KTrue => vbool false
  | KFalse => vbool true
  | KUnq => mkV KUnq ([110; 111; 116] ++ vtext v)             (* format!("{op}{s}").into() *)
  | _ => mkV KOther ([110; 111; 116; 32] ++ vtext v)          (* css::Value::UnaryOp(op, v) kept *)
  end.

Inductive expr : Type :=
| ELeaf (v : cval)               (* an operand without effects *)
| EEff (id : N) (v : cval)       (* a call that records `id` and returns v *)
| EBoom (id : N)                 (* a call that records `id` and fails with @error *)
| EUndef                         (* an undefined variable: fails *)
| ENot (e : expr)
| EAnd (a b : expr)
| EOr (a b : expr).

Inductive outcome : Type :=
| Ok (v : cval)
| Fail (id : N).                 (* id of the failing call; 0 = undefined variable *)

(* evaluation threads the trace of recorded effects (most recent last) *)
Fixpoint eval (e : expr) (log : list N) : outcome * list N :=
  match e with
  | ELeaf v => (Ok v, log)
  | EEff id v => (Ok v, log ++ [id])
  | EBoom id => (Fail id, log ++ [id])
  | EUndef => (Fail 0, log)
  | ENot e1 =>
      match eval e1 log with
      | (Ok v, l) => (Ok (eval_not v), l)
      | r => r
      end
  | EAnd a b =>
      match eval a log with
      | (Ok v, l) => if is_true v then eval b l else (Ok v, l)
      | r => r
      end
  | EOr a b =>
      match eval a log with
      | (Ok v, l) => if is_true v then (Ok v, l) else eval b l
      | r => r
      end
  end.
