(* L3: value/unit.rs and value/unitset.rs.  Every table comes from Gen/Units.v
   (regenerated from the source on every check); the functions mirror the Rust. *)
From Coq Require Import String List ZArith Bool Ascii.
From RV Require Import Base.FExpr Base.F64 Gen.Units.
Import ListNotations.
Open Scope Z_scope.

(* A unit is a known variant (by its Rust variant name) or Unknown(name). *)
Inductive unit : Type :=
| UK (variant : string)
| UU (name : string).

Definition unit_eqb (a b : unit) : bool :=
  match a, b with
  | UK x, UK y => String.eqb x y
  | UU x, UU y => String.eqb x y
  | _, _ => false
  end.

Fixpoint assoc {A} (k : string) (l : list (string * A)) : option A :=
  match l with
  | [] => None
  | (k', v) :: r => if String.eqb k k' then Some v else assoc k r
  end.

(* known variants without payload, in declaration order *)
Definition known_variants : list string :=
  map fst (filter (fun p => negb (snd p)) unit_variants).
Definition all_known_units : list unit := map UK known_variants.

(* Unit::dimension(); an Unknown unit has its own dimension Unknown(name) *)
Inductive dimension : Type :=
| DK (variant : string)
| DU (name : string)
| DBad.                    (* variant without a dimension() arm: cannot happen in compiled Rust *)

Definition dim_eqb (a b : dimension) : bool :=
  match a, b with
  | DK x, DK y => String.eqb x y
  | DU x, DU y => String.eqb x y
  | _, _ => false
  end.

Definition dimension_of (u : unit) : dimension :=
  match u with
  | UK v => match assoc v unit_dimension with Some d => DK d | None => DBad end
  | UU n => match assoc "Unknown" unit_dimension with
            | Some "Unknown"%string => DU n
            | Some d => DK d
            | None => DBad
            end
  end.

Definition factor_of (u : unit) : option f64 :=
  match assoc (match u with UK v => v | UU _ => "Unknown"%string end) unit_factor with
  | Some e => feval e
  | None => None
  end.

(* Unit::scale_to *)
Definition percent_fr_pair (a b : unit) : bool :=
  match a, b with
  | UK x, UK y => (String.eqb x "Percent" && String.eqb y "Fr") || (String.eqb x "Fr" && String.eqb y "Percent")
  | _, _ => false
  end.
Definition unit_scale_to (a b : unit) : option f64 :=
  if unit_eqb a b then Some f_one
  else if percent_fr_pair a b then None      (* both "dimensionless", no ratio between them *)
  else if dim_eqb (dimension_of a) (dimension_of b) then
    match factor_of a, factor_of b with
    | Some x, Some y => Some (fdiv x y)
    | _, _ => None
    end
  else None.

Definition u_none : unit := UK "None".
Definition is_unit_none (u : unit) : bool := unit_eqb u u_none.

(* UnitSet = Vec<(Unit, i8)> *)
Definition unitset := list (unit * Z).

Definition us_is_none (s : unitset) : bool := forallb (fun p => is_unit_none (fst p)) s.
Definition us_of_unit (u : unit) : unitset := if is_unit_none u then [] else [(u, 1)].

Fixpoint us_eqb (a b : unitset) : bool :=
  match a, b with
  | [], [] => true
  | (u, p) :: a', (v, q) :: b' => unit_eqb u v && (p =? q) && us_eqb a' b'
  | _, _ => false
  end.

(* impl Mul / Div for &UnitSet *)
Fixpoint us_bump (l : unitset) (u : unit) (d : Z) : option unitset :=
  match l with
  | [] => None
  | (v, p) :: r =>
      if unit_eqb v u then Some ((v, p + d) :: r)
      else match us_bump r u d with Some r' => Some ((v, p) :: r') | None => None end
  end.
Definition us_retain (l : unitset) : unitset := filter (fun p => negb (snd p =? 0)) l.
Definition us_combine (sgn : Z) (a b : unitset) : unitset :=
  us_retain (fold_left (fun acc (rp : unit * Z) =>
     let (ru, p) := rp in
     match us_bump acc ru (sgn * p) with
     | Some acc' => acc'
     | None => acc ++ [(ru, sgn * p)]
     end) b a).
Definition us_mul := us_combine 1.
Definition us_div := us_combine (-1).

(* UnitSet::dimension(): sum of powers per dimension, zero powers dropped
   (order is irrelevant for the emptiness test and for == on single entries
   is handled by sorting in dim_insert) *)
Definition dim_is_none (d : dimension) : bool :=
  match d with DK "None"%string => true | _ => false end.
Fixpoint dim_add (l : list (dimension * Z)) (d : dimension) (p : Z) : list (dimension * Z) :=
  match l with
  | [] => [(d, p)]
  | (e, q) :: r => if dim_eqb d e then (e, q + p) :: r else (e, q) :: dim_add r d p
  end.
Definition us_dimension (s : unitset) : list (dimension * Z) :=
  filter (fun p => negb (snd p =? 0))
    (fold_left (fun acc (up : unit * Z) =>
       let d := dimension_of (fst up) in
       if dim_is_none d then acc else dim_add acc d (snd up)) s []).

(* equality of dimension vectors as multisets (the Rust Vec comes sorted out of a BTreeMap) *)
Fixpoint dimvec_sub (a b : list (dimension * Z)) : bool :=
  match a with
  | [] => true
  | (d, p) :: r =>
      existsb (fun q => dim_eqb d (fst q) && (p =? snd q)) b && dimvec_sub r b
  end.
Definition dimvec_eqb (a b : list (dimension * Z)) : bool :=
  dimvec_sub a b && dimvec_sub b a.

(* UnitSet::scale_to_unit *)
Definition us_scale_to_unit (s : unitset) (u : unit) : option f64 :=
  match s with
  | [(v, 1)] => unit_scale_to v u
  | _ => if us_is_none s then unit_scale_to u_none u else None
  end.

(* fold over the quotient in UnitSet::scale_to; powi is modelled only for the
   exponents -1, 0, 1 (see F64.fpowi_small); None2 = outside the model *)
Inductive scale_res : Type :=
| SSome (f : f64)
| SNone
| SUnmodelled.

Definition us_scale_to (a b : unitset) : scale_res :=
  match b with
  | [(u, 1)] => match us_scale_to_unit a u with Some f => SSome f | None => SNone end
  | _ =>
      if us_is_none b then
        match us_scale_to_unit a u_none with Some f => SSome f | None => SNone end
      else
        let q := us_div a b in
        match us_dimension q with
        | [] =>
            fold_left (fun acc (up : unit * Z) =>
              match acc, factor_of (fst up) with
              | SSome x, Some f =>
                  match fpowi_small f (snd up) with
                  | Some y => SSome (fmul x y)
                  | None => SUnmodelled
                  end
              | SSome _, None => SUnmodelled
              | other, _ => other
              end) q (SSome f_one)
        | _ => SNone
        end
  end.

(* UnitSet::simplify, for sets of at most two entries with powers in {-1,1}
   (all that products / quotients of single-unit numbers can produce);
   returns (new set, factor) or None when outside that fragment *)
Definition us_simplify (s : unitset) : option (unitset * f64) :=
  match s with
  | [] => Some ([], f_one)
  | [(u, p)] => Some (us_retain [(u, p)], f_one)
  | [(au, ap); (bu, bp)] =>
      if (ap =? 0) || (bp =? 0) then Some (us_retain s, f_one)
      else match unit_scale_to bu au with
           | None => Some (s, f_one)
           | Some f =>
               if (Z.abs bp <? Z.abs ap) then
                 match fpowi_small f bp with
                 | Some y => Some (us_retain [(au, ap + bp); (bu, 0)], fmul f_one y)
                 | None => None
                 end
               else
                 match fpowi_small f ap with
                 | Some y => Some (us_retain [(au, 0); (bu, bp + ap)], fdiv f_one y)
                 | None => None
                 end
           end
  | _ => None
  end.

(* Display for Unit / UnitSet (non-alternate form) *)
Definition unit_display_str (u : unit) : string :=
  match u with
  | UK v => match assoc v unit_display with Some s => s | None => "" end
  | UU n => n
  end.

Open Scope string_scope.
Fixpoint rep_star (t : string) (n : nat) : string :=
  match n with O => "" | S k => " * 1" ++ t ++ rep_star t k end.
Definition nat_dec_string (n : nat) : string :=
  (* powers outside 0..3 do not occur in the modelled fragment *)
  match n with
  | 4%nat => "4" | 5%nat => "5" | 6%nat => "6" | _ => "?"
  end.
Definition write_one (u : unit) (p : Z) : string :=
  let t := unit_display_str u in
  if (0 <=? p)%Z && (p <=? 3)%Z then t ++ rep_star t (Z.to_nat (p - 1))
  else t ++ "^" ++ (if (p <? 0)%Z then "-" else "") ++ nat_dec_string (Z.to_nat (Z.abs p)).
Definition us_display (s : unitset) : string :=
  let pos := filter (fun p => (0 <? snd p)%Z) s in
  let neg := filter (fun p => (snd p <? 0)%Z) s in
  match pos with
  | (u, p) :: rest =>
      write_one u p
      ++ fold_left (fun acc up => acc ++ " * 1" ++ write_one (fst up) (Z.abs (snd up))) rest ""
      ++ match neg with
         | [] => ""
         | (v, q) :: nrest =>
             " / 1" ++ write_one v (Z.abs q)
             ++ fold_left (fun acc up => acc ++ " / 1" ++ write_one (fst up) (Z.abs (snd up))) nrest ""
         end
  | [] => fold_left (fun acc up => acc ++ " / 1" ++ write_one (fst up) (Z.abs (snd up))) neg ""
  end.
