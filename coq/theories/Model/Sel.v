(* Datatypes of rsass/src/css/selectors/*.rs (selector.rs, compound.rs, pseudo.rs,
   attribute.rs, elemtype.rs, selectorset.rs) with decidable equality, sizes and the
   induction principle for the nesting through lists.  Text is `list N` (bytes). *)
From Coq Require Import List NArith Bool Arith Lia.
From Coq Require String Ascii.
Import String.StringSyntax.
Import ListNotations.

Definition text := list N.

Fixpoint text_eqb (a b : text) : bool :=
  match a, b with
  | [], [] => true
  | x :: a', y :: b' => N.eqb x y && text_eqb a' b'
  | _, _ => false
  end.

Lemma text_eqb_refl a : text_eqb a a = true.
Proof. induction a; cbn; [reflexivity|]. rewrite N.eqb_refl. exact IHa. Qed.

Lemma text_eqb_eq a b : text_eqb a b = true <-> a = b.
Proof.
  revert b; induction a as [|x a IH]; destruct b as [|y b]; cbn; split; try congruence; intros H.
  - apply andb_true_iff in H as [H1 H2]. apply N.eqb_eq in H1. apply IH in H2. congruence.
  - inversion H; subst. rewrite N.eqb_refl. apply IH. reflexivity.
Qed.

(* RelKind *)
Inductive relkind := Ancestor | Parent | Sibling | Adjacent.
Definition relkind_eqb (a b : relkind) : bool :=
  match a, b with
  | Ancestor, Ancestor | Parent, Parent | Sibling, Sibling | Adjacent, Adjacent => true
  | _, _ => false
  end.

(* Attribute: name, op, val (CssString: text + quotes 0 none / 1 double / 2 single), modifier *)
Record attr := mkAttr { a_name : text; a_op : text; a_val : text; a_quotes : N; a_mod : option N }.

(* the non-recursive fields of CompoundSelector *)
Record cbase := mkBase {
  b_backref : bool;
  b_elem : option text;
  b_phs : list text;
  b_classes : list text;
  b_id : option text;
  b_attrs : list attr }.

Definition base0 : cbase := mkBase false None [] [] None [].

Inductive sel : Type :=
| Sel (rel : option (relkind * sel)) (c : compound)
with compound : Type :=
| Comp (b : cbase) (ps : list pseudo)
with pseudo : Type :=
| Pseudo (name : text) (el : bool) (arg : parg)
with parg : Type :=
| ArgSel (l : list sel)
| ArgOther (t : text)
| ArgNone.

Definition sels := list sel.          (* SelectorSet.s *)

Definition comp0 : compound := Comp base0 [].          (* CompoundSelector::default() *)
Definition sel0 : sel := Sel None comp0.               (* Selector::default() *)

Definition s_rel (s : sel) := match s with Sel r _ => r end.
Definition s_comp (s : sel) := match s with Sel _ c => c end.
Definition c_base (c : compound) := match c with Comp b _ => b end.
Definition c_ps (c : compound) := match c with Comp _ ps => ps end.
Definition p_name (p : pseudo) := match p with Pseudo n _ _ => n end.
Definition p_el (p : pseudo) := match p with Pseudo _ e _ => e end.
Definition p_arg (p : pseudo) := match p with Pseudo _ _ a => a end.

(* ---- list helpers in "section style" so that nested fixpoints pass the guard ---- *)
Section ListFns.
  Context {A : Type} (eqb : A -> A -> bool).
  Fixpoint leqb (a b : list A) : bool :=
    match a, b with
    | [], [] => true
    | x :: a', y :: b' => eqb x y && leqb a' b'
    | _, _ => false
    end.
End ListFns.

Section ListSum.
  Context {A : Type} (f : A -> nat).
  Fixpoint lsum (l : list A) : nat :=
    match l with [] => 0 | x :: r => f x + lsum r end.
End ListSum.

Definition opt_eqb {A} (eqb : A -> A -> bool) (a b : option A) : bool :=
  match a, b with
  | None, None => true
  | Some x, Some y => eqb x y
  | _, _ => false
  end.

Definition attr_eqb (a b : attr) : bool :=
  text_eqb (a_name a) (a_name b) && text_eqb (a_op a) (a_op b) && text_eqb (a_val a) (a_val b)
  && N.eqb (a_quotes a) (a_quotes b) && opt_eqb N.eqb (a_mod a) (a_mod b).

Definition base_eqb (a b : cbase) : bool :=
  Bool.eqb (b_backref a) (b_backref b) && opt_eqb text_eqb (b_elem a) (b_elem b)
  && leqb text_eqb (b_phs a) (b_phs b) && leqb text_eqb (b_classes a) (b_classes b)
  && opt_eqb text_eqb (b_id a) (b_id b) && leqb attr_eqb (b_attrs a) (b_attrs b).

(* derived PartialEq *)
Fixpoint sel_eqb (x y : sel) {struct x} : bool :=
  match x, y with
  | Sel r1 c1, Sel r2 c2 =>
      match r1, r2 with
      | None, None => true
      | Some (k1, s1), Some (k2, s2) => relkind_eqb k1 k2 && sel_eqb s1 s2
      | _, _ => false
      end && comp_eqb c1 c2
  end
with comp_eqb (x y : compound) {struct x} : bool :=
  match x, y with
  | Comp b1 p1, Comp b2 p2 => base_eqb b1 b2 && leqb pseudo_eqb p1 p2
  end
with pseudo_eqb (x y : pseudo) {struct x} : bool :=
  match x, y with
  | Pseudo n1 e1 a1, Pseudo n2 e2 a2 => text_eqb n1 n2 && Bool.eqb e1 e2 && arg_eqb a1 a2
  end
with arg_eqb (x y : parg) {struct x} : bool :=
  match x, y with
  | ArgSel l1, ArgSel l2 => leqb sel_eqb l1 l2
  | ArgOther t1, ArgOther t2 => text_eqb t1 t2
  | ArgNone, ArgNone => true
  | _, _ => false
  end.

(* sizes (number of constructors), used as fuel for the two-argument walks *)
Fixpoint sel_size (x : sel) : nat :=
  match x with
  | Sel r c => S (match r with Some (_, s) => sel_size s | None => 0 end + comp_size c)
  end
with comp_size (x : compound) : nat :=
  match x with Comp _ ps => S (lsum pseudo_size ps) end
with pseudo_size (x : pseudo) : nat :=
  match x with Pseudo _ _ a => S (arg_size a) end
with arg_size (x : parg) : nat :=
  match x with ArgSel l => S (lsum sel_size l) | _ => 1 end.

Definition sels_size (l : sels) : nat := lsum sel_size l.

(* ---- induction principle ---- *)
Section SelInd.
  Variables (P : sel -> Prop) (Pc : compound -> Prop) (Pp : pseudo -> Prop) (Pa : parg -> Prop).
  Hypothesis HSel0 : forall c, Pc c -> P (Sel None c).
  Hypothesis HSelR : forall k s c, P s -> Pc c -> P (Sel (Some (k, s)) c).
  Hypothesis HComp : forall b ps, Forall Pp ps -> Pc (Comp b ps).
  Hypothesis HPseudo : forall n e a, Pa a -> Pp (Pseudo n e a).
  Hypothesis HArgSel : forall l, Forall P l -> Pa (ArgSel l).
  Hypothesis HArgOther : forall t, Pa (ArgOther t).
  Hypothesis HArgNone : Pa ArgNone.

  Fixpoint sel_ind' (x : sel) : P x :=
    match x with
    | Sel None c => HSel0 c (comp_ind' c)
    | Sel (Some (k, s)) c => HSelR k s c (sel_ind' s) (comp_ind' c)
    end
  with comp_ind' (x : compound) : Pc x :=
    match x with
    | Comp b ps => HComp b ps ((fix go (l : list pseudo) : Forall Pp l :=
                     match l with
                     | [] => Forall_nil _
                     | p :: r => Forall_cons p (pseudo_ind' p) (go r)
                     end) ps)
    end
  with pseudo_ind' (x : pseudo) : Pp x :=
    match x with Pseudo n e a => HPseudo n e a (arg_ind' a) end
  with arg_ind' (x : parg) : Pa x :=
    match x with
    | ArgSel l => HArgSel l ((fix go (l : list sel) : Forall P l :=
                     match l with
                     | [] => Forall_nil _
                     | s :: r => Forall_cons s (sel_ind' s) (go r)
                     end) l)
    | ArgOther t => HArgOther t
    | ArgNone => HArgNone
    end.

  Lemma sels_ind' (l : sels) : Forall P l.
  Proof. induction l; constructor; auto using sel_ind'. Qed.

  Lemma sel_mutind : (forall x, P x) /\ (forall c, Pc c) /\ (forall p, Pp p) /\ (forall a, Pa a).
  Proof. repeat split; [exact sel_ind' | exact comp_ind' | exact pseudo_ind' | exact arg_ind']. Qed.
End SelInd.

(* ---- small predicates of compound.rs / selector.rs / pseudo.rs ---- *)
Definition is_none {A} (o : option A) : bool := match o with None => true | Some _ => false end.
Definition is_nil {A} (l : list A) : bool := match l with [] => true | _ => false end.

(* CompoundSelector::is_empty *)
Definition comp_is_empty (c : compound) : bool :=
  match c with
  | Comp b ps => is_none (b_elem b) && negb (b_backref b) && is_nil (b_phs b) && is_nil (b_classes b)
                 && is_none (b_id b) && is_nil (b_attrs b) && is_nil ps
  end.

(* Selector::is_local_empty *)
Definition is_local_empty (s : sel) : bool := comp_is_empty (s_comp s).

Definition str (s : String.string) : text :=
  map (fun a => N.of_nat (Ascii.nat_of_ascii a)) (String.list_ascii_of_string s).

(* pseudo.rs name_in: vendor-prefixed names match by suffix after a '-' *)
Fixpoint ends_with (s suf : text) : bool :=
  text_eqb s suf || match s with [] => false | _ :: r => ends_with r suf end.
Definition strip_suffix (s suf : text) : option text :=
  if ends_with s suf then Some (firstn (length s - length suf) s) else None.
Definition last_is (s : text) (c : N) : bool :=
  match rev s with x :: _ => N.eqb x c | [] => false end.
Definition name_in (name : text) (known : list text) : bool :=
  match name with
  | 45%N :: _ =>
      existsb (fun e => match strip_suffix name e with Some s => last_is s 45%N | None => false end) known
  | _ => existsb (text_eqb name) known
  end.

Local Open Scope string_scope.
Local Open Scope list_scope.
Definition pseudo_elements : list text :=
  map str ["after"; "before"; "file-selector-button"; "first-letter"; "first-line"; "grammar-error";
           "marker"; "placeholder"; "selection"; "spelling-error"; "target-text"].
Definition is_pseudo_element_name (n : text) : bool := existsb (text_eqb n) pseudo_elements.

(* Pseudo::is_element *)
Definition p_is_element (p : pseudo) : bool := p_el p || is_pseudo_element_name (p_name p).
Definition p_is_rootish (p : pseudo) : bool :=
  name_in (p_name p) (map str ["host"; "host-context"; "root"; "scope"]).
Definition p_is_host (p : pseudo) : bool := name_in (p_name p) (map str ["host"; "host-context"]).
Definition p_is_hover (p : pseudo) : bool := text_eqb (p_name p) (str "hover").
Definition p_is_not (p : pseudo) : bool := name_in (p_name p) [str "not"].
Definition p_is_is (p : pseudo) : bool := name_in (p_name p) [str "is"].
Definition p_is_current (p : pseudo) : bool := name_in (p_name p) [str "current"].

(* ElemType::is_any *)
Definition elem_is_any (e : text) : bool := text_eqb e (str "*") || text_eqb e (str "*|*").
