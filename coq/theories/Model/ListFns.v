(* sass/functions/list.rs on the ValueLite values: get_list, index_of and the
   functions of the sass:list module (slash excepted).  Mirrors the Rust. *)
From Coq Require Import String List NArith ZArith Bool.
From RV Require Import Base.Text Base.ListX Base.F64 Model.CssStr Model.ValueLite.
Import ListNotations.
Local Open Scope list_scope.
Local Open Scope Z_scope.

Inductive res : Type := ROk (v : value) | RErr.

(* fn get_list *)
Definition get_list (v : value) : list value * option sep * bool :=
  match v with
  | VArgs p => (p, Some SComma, false)
  | VList l s b => (l, s, b)
  | VMap m => match m with
              | [] => ([], None, false)
              | _ => (map pair_list m, Some SComma, false)
              end
  | x => ([x], None, false)
  end.

(* fn index_of(n, len) on an i64 n *)
Definition index_of (n : Z) (len : nat) : option nat :=
  let l := Z.of_nat len in
  if (0 <? n) && (n <=? l) then Some (Z.to_nat (n - 1))
  else if (n <? 0) && (- l <=? n) then Some (Z.to_nat (l + n))
  else None.

(* Number::into_integer: round, `as i64` (saturating), accept when within f32::EPSILON *)
Definition into_integer (x : f64) : option Z :=
  let int := f_as_i64 (fround x) in
  if fle (fabs (fsub (f_of_Z int) x)) f32_epsilon then Some int else None.
(* an integer literal as the i64 rsass sees (None: "is not an int", for |n| beyond the i64 range) *)
Definition i64_of_literal (n : Z) : option Z := into_integer (f_of_Z n).

(* fn check_separator; None = error *)
Definition str_is (v : value) (t : string) : bool :=
  match v with VStr s => cps_eqb (s_val s) (bytes_of_string t) | _ => false end.
Definition check_separator (v : value) : option (option sep) :=
  if str_is v "comma" then Some (Some SComma)
  else if str_is v "slash" then Some (Some SSlash)
  else if str_is v "space" then Some (Some SSpace)
  else if str_is v "auto" then Some None
  else None.

Definition osep_or (a b : option sep) : option sep := match a with Some _ => a | None => b end.

Definition is_true (v : value) : bool :=
  match v with VBool false | VNull => false | _ => true end.

Fixpoint set_at (l : list value) (i : nat) (x : value) : list value :=
  match l, i with
  | [], _ => []
  | _ :: r, O => x :: r
  | y :: r, S j => y :: set_at r j x
  end.

(* first index (0-based) of a stored item == probe *)
Fixpoint position (l : list value) (probe : value) (i : nat) : option nat :=
  match l with
  | [] => None
  | x :: r => if veq x probe then Some i else position r probe (S i)
  end.
Fixpoint position_kv (m : list (value * value)) (k v : value) (i : nat) : option nat :=
  match m with
  | [] => None
  | (k', v') :: r => if veq k' k && veq v' v then Some i else position_kv r k v (S i)
  end.

Definition v_of_pos (p : option nat) : value :=
  match p with Some i => v_int (Z.of_nat (S i)) | None => VNull end.

(* the functions; `sepv` / `brav` are the explicit $separator / $bracketed arguments (default "auto") *)
Definition f_append (l x sepv : value) : res :=
  let '(items, s, b) := get_list l in
  match check_separator sepv with
  | Some e => ROk (VList (items ++ [x]) (Some (sep_or_default (osep_or e s))) b)
  | None => RErr
  end.

Definition f_index (l x : value) : res :=
  match l with
  | VArgs p => ROk (v_of_pos (position p x O))            (* searched like the list of its items *)
  | VList items _ _ => ROk (v_of_pos (position items x O))
  | VMap m =>
      match x with
      | VList [a; b] (Some SSpace) _ => ROk (v_of_pos (position_kv m a b O))
      | _ => ROk VNull
      end
  | v => ROk (if veq v x then v_int 1 else VNull)
  end.

Definition f_is_bracketed (l : value) : res :=
  ROk (VBool match l with VList _ _ true => true | _ => false end).

Definition f_join (l1 l2 sepv brav : value) : res :=
  let '(i1, s1, b1) := get_list l1 in
  let '(i2, s2, _) := get_list l2 in
  match check_separator sepv with
  | Some e =>
      let b := if str_is brav "auto" then b1 else is_true brav in
      ROk (VList (i1 ++ i2) (Some (sep_or_default (osep_or (osep_or e s1) s2))) b)
  | None => RErr
  end.

Definition f_length (l : value) : res :=
  ROk (v_int (Z.of_nat
    match l with
    | VArgs p => length p
    | VList items _ _ => length items
    | VMap m => length m
    | _ => 1%nat
    end)).

Definition f_separator (l : value) : res :=
  ROk (v_unq (bytes_of_string
    match l with
    | VList _ (Some SComma) _ | VArgs _ => "comma"
    | VList _ (Some SSlash) _ => "slash"
    | VMap (_ :: _) => "comma"
    | _ => "space"
    end%string)).

Definition f_nth (l : value) (n : Z) : res :=
  match l with
  | VArgs p =>
      match index_of n (length p) with
      | Some i => ROk (nth i p VNull)
      | None => RErr
      end
  | VList items _ _ =>
      match index_of n (length items) with
      | Some i => ROk (nth i items VNull)
      | None => RErr
      end
  | VMap m =>
      match index_of n (length m) with
      | Some i => ROk (match nth_error m i with Some kv => pair_list kv | None => VNull end)
      | None => RErr
      end
  | v => match index_of n 1 with Some _ => ROk v | None => RErr end
  end.

Definition f_set_nth (l : value) (n : Z) (x : value) : res :=
  let '(items, s, b) := get_list l in
  match index_of n (length items) with
  | Some i => ROk (VList (set_at items i x) s b)
  | None => RErr
  end.

(* zip: (0..len).map(|i| lists.map(|v| v[i])) *)
Fixpoint zip_rows (len : nat) (i : nat) (lists : list (list value)) : list value :=
  match len with
  | O => []
  | S k => VList (map (fun l => nth i l VNull) lists) (Some SSpace) false :: zip_rows k (S i) lists
  end.
Definition min_len (lists : list (list value)) : nat :=
  match lists with
  | [] => O
  | l :: r => fold_left (fun acc x => Nat.min acc (length x)) r (length l)
  end.
Definition f_zip (ls : list value) : res :=
  let lists := map iter_items ls in
  ROk (VList (zip_rows (min_len lists) O lists) (Some SComma) false).
