(* Model of the evaluation of parsed operator expressions over unitless numbers
   and booleans: sass/value.rs (Value::do_evaluate, BinOp::eval) and
   value/operator.rs (Operator::eval), value/number.rs (Rem, PartialEq).
   Values that are neither a number nor a boolean (kept BinOp / UnaryOp, joined
   strings) are VOther; the model answers VUnmod when such a value is used as an
   operand in a way whose result depends on its content. *)
From Coq Require Import List NArith ZArith Bool.
From RV Require Import Base.F64 Base.FMod Model.Numeric Spec.SassExpr Model.ExprParse.
Import ListNotations.

(* impl Rem for &Number (with fix cc06893: a zero remainder is returned as it is) *)
Definition rsass_rem (a b : f64) : f64 :=
  let r := ffmod a b in
  if negb (feq a f_zero) && negb (feq r f_zero) && negb (Bool.eqb (f_sign_neg b) (f_sign_neg a))
  then (if f_is_finite b then fadd r b else f_nan)
  else r.

(* Numeric == Numeric and the ordering used by > >= < <= (both unitless) *)
Definition m_num_eq (a b : f64) : bool :=
  match number_cmp a b with Some Eq => true | _ => false end.
Definition m_rel (o : binop) (a b : f64) : bool :=
  match o, number_cmp a b with
  | BLt, Some Lt => true
  | BLe, Some Lt | BLe, Some Eq => true
  | BGt, Some Gt => true
  | BGe, Some Gt | BGe, Some Eq => true
  | _, _ => false
  end.

Definition is_other (v : val) : bool := match v with VOther => true | _ => false end.

(* Operator::eval as used by BinOp::eval, operands already evaluated *)
Definition m_bin (o : binop) (a b : val) : val :=
  match a, b with
  | VErr, _ => VErr
  | VUnmod, _ => VUnmod
  | _, VErr => VErr
  | _, VUnmod => VUnmod
  | _, _ =>
    match o with
    | BEq | BNe =>
        let r := match a, b with
                 | VNum x, VNum y => Some (m_num_eq x y)
                 | VBool x, VBool y => Some (Bool.eqb x y)
                 | VOther, VOther => None              (* depends on the text *)
                 | _, _ => Some false
                 end in
        match r with
        | Some e => VBool (match o with BEq => e | _ => negb e end)
        | None => VUnmod
        end
    | BLt | BLe | BGt | BGe =>
        match a, b with
        | VNum x, VNum y => VBool (m_rel o x y)
        | VOther, VOther => VUnmod                      (* two strings compare *)
        | _, _ => VOther                                (* cmp() = None: the BinOp is kept *)
        end
    | BPlus | BMinus =>
        match a, b with
        | VNum x, VNum y => VNum (match o with BPlus => fadd x y | _ => fsub x y end)
        | VOther, _ | _, VOther => VUnmod
        | _, _ => VOther                                (* add_as_join(true|false): kept *)
        end
    | BMul | BMod =>
        match a, b with
        | VNum x, VNum y => VNum (match o with BMul => fmul x y | _ => rsass_rem x y end)
        | VOther, _ | _, VOther => VUnmod
        | _, _ => VErr                                  (* a boolean is no valid_operand *)
        end
    | BOr | BAnd => VUnmod
    end
  end.

(* Value::UnaryOp *)
Definition m_neg (a : val) : val :=
  match a with
  | VNum x => VNum (fneg x)
  | VBool _ | VOther => VOther
  | v => v
  end.
Definition m_not (a : val) : val :=
  match a with
  | VNum x => VBool (number_eq x f_zero)        (* `v.value == 0.into()` *)
  | VBool b => VBool (negb b)
  | VOther => VOther
  | v => v
  end.

Definition lit_val (s : bool) (n : N) : f64 := if s then fneg (f_of_N n) else f_of_N n.

Fixpoint aeval (a : ast) : val :=
  match a with
  | ANum s n => VNum (lit_val s n)
  | ABool b => VBool b
  | AParen e => aeval e
  | AUn UNeg e => m_neg (aeval e)
  | AUn UNot e => m_not (aeval e)
  | ABin BAnd x y => let v := aeval x in if stuck v then v else if truthy v then aeval y else v
  | ABin BOr x y => let v := aeval x in if stuck v then v else if truthy v then v else aeval y
  | ABin o x y => m_bin o (aeval x) (aeval y)
  end.

(* the value rsass computes for the canonical text of a tree *)
Definition model_value (t : tree) : val :=
  match parse (pr t) with
  | Some a => aeval a
  | None => VUnmod
  end.

(* the tree evaluated with rsass's per-node operators but Sass's grouping *)
Definition eval_nodes : tree -> val := teval m_bin m_neg m_not stuck.
