(* value/number.rs: impl Display for Formatted<Number>.
   The digit loop is written once, over abstract float primitives (Section
   DigitLoop); the model of the code is its instance at Flocq binary64
   (fmul / ffract / fround / casts of Base/F64.v), so the theorems proved for
   the abstract loop apply to the very function the correspondence check runs.

   Representation choices (validated by the correspondence check):
   - `whole = s.trunc().abs()` is kept as its exact integer value (Z); the only
     arithmetic on it, `whole += 1.` in the carry branch, is exact because a
     non-zero fraction implies whole < 2^52;
   - `whole.log10().ceil() as usize` (libm) is the exact function
     clog10 w = least k with 10^k >= w (0 for w <= 1);
   - `write!(out, "{whole}")` is Rust's Display for f64: exact integer digits
     below 2^53, shortest round-trip digits padded with zeros above. *)
From Coq Require Import ZArith List Bool NArith.
From Flocq Require Import IEEE754.Binary IEEE754.Bits.
From RV Require Import Base.F64 Base.Text.
Import ListNotations.
Local Open Scope Z_scope.

(* ---- integer helpers ---- *)

(* ceil(log10 w): least k >= 0 with 10^k >= w; -1 = out of fuel (never for w < 10^400) *)
Fixpoint clog10_fuel (fuel : nat) (k p w : Z) : Z :=
  match fuel with
  | O => -1
  | S f => if w <=? p then k else clog10_fuel f (k + 1) (10 * p) w
  end.
Definition clog10 (w : Z) : Z := clog10_fuel 400 0 1 w.

(* decimal digits, most significant first; 10 = out-of-fuel marker (not a digit) *)
Fixpoint digits_fuel (fuel : nat) (z : Z) : list Z :=
  match fuel with
  | O => [10]
  | S f => if z <? 10 then [z] else digits_fuel f (z / 10) ++ [z mod 10]
  end.
Definition digits_of (z : Z) : list Z := digits_fuel (S (Z.to_nat (Z.log2 z))) z.

(* ---- the digit loop over abstract float primitives ---- *)
Section DigitLoop.
  Variable F : Type.
  Variable mul10 : F -> F.          (* frac * 10. *)
  Variable fract : F -> F.          (* .fract() *)
  Variable is0 : F -> bool.         (* == 0. *)
  Variable digit : F -> Z.          (* (x as i8).abs() *)
  Variable enddigit : F -> Z.       (* x.round().abs() as u8 *)

  (* `for _ in 1..n { frac *= 10.; push digit; frac = frac.fract(); if frac == 0. {break} }`
     with the digits accumulated in reverse *)
  Fixpoint loop (iters : nat) (frac : F) (racc : list Z) : F * list Z :=
    match iters with
    | O => (frac, racc)
    | S k => let f10 := mul10 frac in
             let racc' := digit f10 :: racc in
             let fr := fract f10 in
             if is0 fr then (fr, racc') else loop k fr racc'
    end.

  (* `end == 10`: pop trailing nines, bump the digit before them; None = carry into whole *)
  Fixpoint carry (racc : list Z) : option (list Z) :=
    match racc with
    | [] => None
    | d :: r => if d =? 9 then carry r else Some (d + 1 :: r)
    end.
  (* `end == 0`: pop trailing zeros *)
  Fixpoint strip0 (racc : list Z) : list Z :=
    match racc with
    | [] => []
    | d :: r => if d =? 0 then strip0 r else racc
    end.

  (* the `if frac != 0. { ... }` block: fractional digits (in order) and carry-into-whole *)
  Definition frac_part (max_decimals prec : Z) (frac : F) : list Z * bool :=
    if is0 frac then ([], false) else
    let n := Z.to_nat (Z.min max_decimals prec) in
    let '(fr, racc) := loop (Nat.pred n) frac [] in
    if is0 fr then (rev racc, false) else
    let e := enddigit (mul10 fr) in
    if e =? 10 then match carry racc with
                    | Some r => (rev r, false)
                    | None => ([], true)
                    end
    else if e =? 0 then (rev (strip0 racc), false)
    else (rev (e :: racc), false).
End DigitLoop.

(* ---- Rust's `{}` for an integer-valued f64 >= 2^53: shortest digits that read
   back as the same double (ties between the two candidates go up), zero padded.
   v = m * 2^e with e >= 1. *)
Fixpoint shortest_search (fuel : nat) (k : Z) (v low2 high2 : Z) (incl : bool) : Z :=
  match fuel with
  | O => v
  | S f =>
      let p := 10 ^ k in
      let d := (v / p) * p in
      let u := d + p in
      let down := if incl then low2 <=? 2 * d else low2 <? 2 * d in
      let up := if incl then 2 * u <=? high2 else 2 * u <? high2 in
      if down || up then (if up && (negb down || (p <=? 2 * (v - d))) then u else d)
      else shortest_search f (k - 1) v low2 high2 incl
  end.
Definition shortest_int (m e : Z) : Z :=
  let v := m * 2 ^ e in
  let half := 2 ^ (e - 1) in
  let low2 := if m =? 2 ^ 52 then 2 * v - half else 2 * v - 2 * half in
  let high2 := 2 * v + 2 * half in
  shortest_search 330 325 v low2 high2 (Z.even m).

Definition display_whole (x : f64) (w : Z) : list Z :=
  if w <? 2 ^ 53 then digits_of w
  else match x with
       | B754_finite _ _ _ m e _ => digits_of (shortest_int (Zpos m) e)
       | _ => digits_of w
       end.

(* ---- output text ---- *)
Definition dch (d : Z) : N := Z.to_N (48 + d).
Definition is_nil {A} (l : list A) : bool := match l with [] => true | _ => false end.
Definition is_zero_digits (wd : list Z) : bool := match wd with [0] => true | _ => false end.

Definition render (compressed neg : bool) (wd dec : list Z) : list N :=
  ((if neg then [45%N] else []) ++
   (if compressed && is_zero_digits wd && negb (is_nil dec) then [] else map dch wd) ++
   (match dec with [] => [] | _ => 46%N :: map dch dec end))%list.

(* ---- the instance at binary64 ---- *)
Definition b_mul10 (f : f64) : f64 := fmul f f_ten.
Definition b_is0 (f : f64) : bool := feq f f_zero.
Definition b_digit (f : f64) : Z := Z.abs (f_as_sat (-128) 127 f).
Definition b_enddigit (f : f64) : Z := f_as_sat 0 255 (fabs (fround f)).

Definition b_frac_part : Z -> Z -> f64 -> list Z * bool :=
  frac_part f64 b_mul10 ffract b_is0 b_digit b_enddigit.

Definition whole_of (x : f64) : Z :=
  match f_trunc_Z x with Some z => Z.abs z | None => 0 end.

(* sign, whole as integer (after carry), fractional digits *)
Definition fmt_parts (prec : Z) (x : f64) : bool * Z * list Z :=
  let frac := ffract x in
  let w := whole_of x in
  let '(dec, c) := b_frac_part (16 - clog10 w) prec frac in
  let w' := if c then w + 1 else w in
  (f_sign_neg x && (negb (w' =? 0) || negb (is_nil dec)), w', dec).

Definition txt_nan : list N := [78; 97; 78]%N.
Definition txt_infinity : list N := [105; 110; 102; 105; 110; 105; 116; 121]%N.

Definition fmt_number (compressed : bool) (prec : Z) (x : f64) : list N :=
  if f_is_nan x then txt_nan
  else if f_is_inf x then ((if f_sign_neg x then [45%N] else []) ++ txt_infinity)%list
  else let '(neg, w, dec) := fmt_parts prec x in
       render compressed neg (display_whole x w) dec.

(* css/valueformat.rs, Value::Numeric arm for a unitless number outside `{:#}`:
   non-finite numbers are wrapped in calc() *)
Definition fmt_css_unitless (compressed : bool) (prec : Z) (x : f64) : list N :=
  let t := fmt_number compressed prec x in
  if f_is_finite x then t
  else ([99; 97; 108; 99; 40]%N ++ t ++ [41%N])%list.
