(* L2/L3: value/number.rs (equality, ordering), value/numeric.rs and the
   numeric arms of value/operator.rs::Operator::eval. *)
From Coq Require Import String List ZArith Bool.
From RV Require Import Base.FExpr Base.F64 Gen.Units Model.Units.
Import ListNotations.
Open Scope Z_scope.

(* impl PartialEq for Number: |a-b| / max(|a|,|b|) <= EPSILON
   (symmetric since the fix "number equality is symmetric") *)
Definition number_eq (a b : f64) : bool :=
  fle (fdiv (fabs (fsub a b)) (fmax (fabs a) (fabs b))) f_epsilon.

(* impl PartialOrd for Number *)
Definition number_cmp (a b : f64) : option comparison :=
  if number_eq a b then Some Eq else fcmp a b.

Record numeric := mkNum { nval : f64; nunit : unitset }.

Definition num_is_no_unit (n : numeric) : bool := us_is_none (nunit n).

(* Numeric::as_unitset *)
Inductive conv_res : Type :=
| CSome (f : f64)
| CNone
| CUnmodelled.
Definition num_as_unitset (n : numeric) (u : unitset) : conv_res :=
  match us_scale_to (nunit n) u with
  | SSome s => CSome (fmul (nval n) s)
  | SNone => CNone
  | SUnmodelled => CUnmodelled
  end.

(* impl PartialOrd for Numeric; the outer option is "inside the model" *)
Definition numeric_cmp (a b : numeric) : option (option comparison) :=
  if us_eqb (nunit a) (nunit b) then Some (number_cmp (nval a) (nval b))
  else if num_is_no_unit a || num_is_no_unit b then
    Some (match number_cmp (nval a) (nval b) with
          | Some Eq => None
          | o => o
          end)
  else
    (* different convertible units: always convert towards the smaller unit, whichever
       side it is on (fix "comparing numbers with different convertible units is symmetric") *)
    match us_scale_to (nunit b) (nunit a) with
    | SSome scale =>
        if fge scale f_one then Some (number_cmp (nval a) (fmul (nval b) scale))
        else match us_scale_to (nunit a) (nunit b) with
             | SSome back => Some (number_cmp (fmul (nval a) back) (nval b))
             | SNone => Some None
             | SUnmodelled => None
             end
    | SNone => Some None
    | SUnmodelled => None
    end.

(* impl PartialEq for Numeric *)
Definition numeric_eq (a b : numeric) : option bool :=
  match numeric_cmp a b with
  | Some (Some Eq) => Some true
  | Some _ => Some false
  | None => None
  end.

(* Numeric::simplify after Mul / Div *)
Definition numeric_simplify (v : f64) (u : unitset) : option numeric :=
  match us_simplify u with
  | Some (u', f) => Some (mkNum (fmul v f) u')
  | None => None
  end.
Definition numeric_mul (a b : numeric) : option numeric :=
  numeric_simplify (fmul (nval a) (nval b)) (us_mul (nunit a) (nunit b)).
Definition numeric_div (a b : numeric) : option numeric :=
  numeric_simplify (fdiv (nval a) (nval b)) (us_div (nunit a) (nunit b)).

(* Operators of the C11 statement *)
Inductive nop : Type :=
| OPlus | OMinus | OLt | OLe | OGt | OGe | OEq | ONe | OMul | ODiv.

(* What rsass does with `a op b` for two numeric operands *)
Inductive nres : Type :=
| RNum (n : numeric)        (* a number *)
| RBool (b : bool)
| RKept                     (* Operator::eval returned None: the expression is kept verbatim *)
| RUnmodelled.

Definition cmp_to_bool (op : nop) (c : option comparison) : bool :=
  match op, c with
  | OLt, Some Lt => true
  | OLe, Some Lt | OLe, Some Eq => true
  | OGt, Some Gt => true
  | OGe, Some Gt | OGe, Some Eq => true
  | _, _ => false
  end.

Definition plus_minus (f : f64 -> f64 -> f64) (a b : numeric) : nres :=
  if us_eqb (nunit a) (nunit b) || num_is_no_unit b then RNum (mkNum (f (nval a) (nval b)) (nunit a))
  else if num_is_no_unit a then RNum (mkNum (f (nval a) (nval b)) (nunit b))
  else match num_as_unitset b (nunit a) with
       | CSome scaled => RNum (mkNum (f (nval a) scaled) (nunit a))
       | CNone => RKept
       | CUnmodelled => RUnmodelled
       end.

Definition eval_nop (op : nop) (a b : numeric) : nres :=
  match op with
  | OPlus => plus_minus fadd a b
  | OMinus => plus_minus fsub a b
  | OLt | OLe | OGt | OGe =>
      match numeric_cmp a b with
      | Some c => RBool (cmp_to_bool op c)
      | None => RUnmodelled
      end
  | OEq => match numeric_eq a b with Some r => RBool r | None => RUnmodelled end
  | ONe => match numeric_eq a b with Some r => RBool (negb r) | None => RUnmodelled end
  | OMul => match numeric_mul a b with Some n => RNum n | None => RUnmodelled end
  | ODiv => match numeric_div a b with Some n => RNum n | None => RUnmodelled end
  end.
