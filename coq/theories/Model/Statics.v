(* C05 model.

   Part 1 - the reviewed inventory.  `modelled_statics` lists every item of Gen/Statics.v (regenerated from
   all .rs files of rsass/src on every check) together with the class it was put in after reading the code:
     CConst            a plain immutable `static` (string / slice literal)
     CLazyPure         LazyLock whose initialiser reads nothing ambient: every reader sees the same value,
                       whoever triggered the initialisation
     CLazyScopes       MODULES: LazyLock of the built-in module Scopes; a Scope has Mutex-protected maps, so this
                       is shared MUTABLE memory unless no mutating method is ever applied to a built-in scope
                       (see scope_mutators below; not proved - explored by the history runs)
     COnceStderr       dep_warn!: a `static WARN: Once` that decides whether a deprecation text goes to stderr;
                       the compiled bytes / error text do not depend on it
     CCounterExcluded  CALL_ID, only reachable through unique-id(): excluded by the property's input condition
     CRngExcluded      fastrand (thread-local generator), only reachable through random(): excluded likewise
     CAmbientExcluded  process id, read only by the CALL_ID initialiser
     CAmbientCargo     CARGO_MANIFEST_DIR, read only by CargoLoader (build-script loader, not used by the compile functions)

   Part 2 - a model of N threads using such a global store, under every interleaving. *)
From Coq Require Import String List Bool Arith.
From RV Require Import Gen.Statics.
Import ListNotations.
Local Open Scope string_scope.

Inductive cls := CConst | CLazyPure | CLazyScopes | COnceStderr | CCounterExcluded | CRngExcluded | CAmbientExcluded | CAmbientCargo.

Definition item : Type := (string * (string * (string * string)))%type.

Definition modelled_statics : list (item * cls) :=
  [(("input/cargoloader.rs", ("env::var_os", ("ambient", ""))), CAmbientCargo);
   (("output/format.rs", ("INDENT", ("const", "&str"))), CConst);
   (("sass/functions/color/hsl.rs", ("dep_warn!", ("once-stderr", "line-order #1"))), COnceStderr);
   (("sass/functions/color/mod.rs", ("dep_warn!", ("once-stderr", "line-order #1"))), COnceStderr);
   (("sass/functions/color/mod.rs", ("dep_warn!", ("once-stderr", "line-order #2"))), COnceStderr);
   (("sass/functions/macros.rs", ("WARN", ("once", "Once"))), COnceStderr);
   (("sass/functions/macros.rs", ("WARN", ("once", "Once"))), COnceStderr);
   (("sass/functions/math.rs", ("fastrand::f64", ("rng", ""))), CRngExcluded);
   (("sass/functions/math.rs", ("fastrand::i64", ("rng", ""))), CRngExcluded);
   (("sass/functions/meta.rs", ("dep_warn!", ("once-stderr", "line-order #1"))), COnceStderr);
   (("sass/functions/meta.rs", ("IMPLEMENTED_FEATURES", ("const", "&[&str]"))), CConst);
   (("sass/functions/mod.rs", ("MODULES", ("lazy", "LazyLock<BTreeMap<&'staticstr,Scope>>"))), CLazyScopes);
   (("sass/functions/mod.rs", ("FUNCTIONS", ("lazy", "LazyLock<FunctionMap>"))), CLazyPure);
   (("sass/functions/string.rs", ("CALL_ID", ("interior-mutable", "LazyLock<Mutex<u64>> init-reads:process::id"))), CCounterExcluded);
   (("sass/functions/string.rs", ("process::id", ("ambient", ""))), CAmbientExcluded);
   (("value/colors/rgba.rs", ("LOOKUP", ("lazy", "LazyLock<Lookup>"))), CLazyPure);
   (("variablescope.rs", ("ROOT", ("lazy", "LazyLock<SelectorCtx>"))), CLazyPure)].

Definition kind_of (i : item) : string := fst (snd (snd i)).
Definition detail_of (i : item) : string := snd (snd (snd i)).

Fixpoint contains (p s : string) : bool :=
  String.prefix p s || match s with EmptyString => false | String _ r => contains p r end.

(* the class given to an item is admissible for what the scanner saw *)
Definition class_ok (e : item * cls) : bool :=
  let k := kind_of (fst e) in let d := detail_of (fst e) in
  match snd e with
  | CConst => String.eqb k "const"
  | CLazyPure => String.eqb k "lazy" && negb (contains "init-reads" d) && negb (contains "Scope" d)
  | CLazyScopes => String.eqb k "lazy" && negb (contains "init-reads" d)
  | COnceStderr => String.eqb k "once" || String.eqb k "once-stderr"
  | CCounterExcluded => String.eqb k "interior-mutable"
  | CRngExcluded => String.eqb k "rng"
  | CAmbientExcluded | CAmbientCargo => String.eqb k "ambient"
  end.
(* nothing is classified as freely shared mutable state *)
Definition needs_input_condition (c : cls) : bool :=
  match c with CCounterExcluded | CRngExcluded | CAmbientExcluded => true | _ => false end.

(* methods of Scope that write to an interior-mutable field, with the reason why a BUILT-IN scope never
   receives the call once MODULES is initialised (reviewed by reading; not proved) *)
Definition modelled_mutators : list ((string * (string * (string * bool))) * string) :=
  [(("define_module", ("insert", ("modules", false))), "called on the scope executing @use; built-in scopes execute nothing");
   (("set_variable", ("insert", ("variables", true))), "module-qualified assignment is refused for scopes carrying @scope_name@ (ModifiedBuiltin); unqualified assignment targets the current scope");
   (("define_global", ("insert", ("variables", false))), "walks to the parent-less ancestor of the CURRENT scope");
   (("restore_local_values", ("insert+remove", ("variables", false))), "restores the caller's own scope after a call");
   (("define_mixin", ("insert", ("mixins", false))), "current scope; create_module only before MODULES is published");
   (("define_function", ("insert", ("functions", false))), "current scope; create_module only before MODULES is published");
   (("functions_map", ("insert", ("functions", false))), "false positive: inserts into a local result map while reading");
   (("variables_map", ("insert", ("variables", false))), "false positive: inserts into a local result map while reading");
   (("forward", ("get_or_insert_with", ("forward", false))), "called for @forward in the current scope");
   (("define_content", ("store", ("content", false))), "called on the fresh scope of a mixin call")].

(* ---------------------------------------------------------------------------------------------- *)
(* Part 2: threads over a store of lazily initialised cells, once-flags, the counter and the rng.    *)

Section Store.
  Variable V : Type.
  Variable init : nat -> V.              (* the deterministic initialiser of lazy cell k *)

  Inductive op :=
  | OpRead (k : nat)                     (* deref of a LazyLock *)
  | OpWarn (j : nat)                     (* dep_warn! number j *)
  | OpTick                               (* unique-id() *)
  | OpRand.                              (* random() *)

  Record store := mkStore { cells : nat -> option V; warned : nat -> bool; counter : nat }.

  Inductive obs := ObsVal (v : V) | ObsUnit | ObsNum (n : nat) | ObsAny.

  (* one atomic step of a thread: new store, what the thread observes, what goes to stderr *)
  Definition step (o : op) (s : store) : store * obs * option nat :=
    match o with
    | OpRead k =>
        match cells s k with
        | Some v => (s, ObsVal v, None)
        | None => (mkStore (fun i => if Nat.eqb i k then Some (init k) else cells s i) (warned s) (counter s), ObsVal (init k), None)
        end
    | OpWarn j =>
        if warned s j then (s, ObsUnit, None)
        else (mkStore (cells s) (fun i => if Nat.eqb i j then true else warned s i) (counter s), ObsUnit, Some j)
    | OpTick => (mkStore (cells s) (warned s) (S (counter s)), ObsNum (S (counter s)), None)
    | OpRand => (s, ObsAny, None)
    end.

  Definition uses_excluded (o : op) : bool := match o with OpTick | OpRand => true | _ => false end.

  (* a cell that is initialised holds its initialiser's value (true of the empty store and preserved by step) *)
  Definition store_ok (s : store) : Prop := forall k v, cells s k = Some v -> v = init k.

  (* threads: each has a list of remaining ops; a schedule entry picks a thread, which performs its next op *)
  Fixpoint nth_prog (ps : list (list op)) (t : nat) : list op :=
    match ps, t with
    | [], _ => []
    | p :: _, O => p
    | _ :: r, S t' => nth_prog r t'
    end.
  Fixpoint set_prog (ps : list (list op)) (t : nat) (p : list op) : list (list op) :=
    match ps, t with
    | [], _ => []
    | _ :: r, O => p :: r
    | q :: r, S t' => q :: set_prog r t' p
    end.

  (* run a schedule; returns the observations as (thread, obs) in global order *)
  Fixpoint run (sched : list nat) (ps : list (list op)) (s : store) : list (nat * obs) :=
    match sched with
    | [] => []
    | t :: r =>
        match nth_prog ps t with
        | [] => run r ps s                                   (* that thread is finished: nothing happens *)
        | o :: rest => let '(s', ob, _) := step o s in (t, ob) :: run r (set_prog ps t rest) s'
        end
    end.

  Definition view (t : nat) (l : list (nat * obs)) : list obs := map snd (filter (fun e => Nat.eqb (fst e) t) l).

  (* what a thread observes when it runs alone from the empty store *)
  Definition solo_obs (o : op) : obs :=
    match o with OpRead k => ObsVal (init k) | OpWarn _ => ObsUnit | OpTick => ObsNum 0 | OpRand => ObsAny end.
End Store.
