(* output/format.rs::Format::get_indent and its callers' indentation arithmetic. *)
From Coq Require Import NArith Bool.
From RV Require Import Gen.PanicSites.
Open Scope N_scope.

Inductive indent_res : Type :=
| IndentOk (len : N)        (* the returned slice has this many bytes *)
| IndentPanic.              (* slice index out of range *)

(* `&INDENT[..=len]`: valid iff len < INDENT.len() *)
Definition get_indent (compressed : bool) (len : N) : indent_res :=
  if compressed then IndentOk 0
  else if len <? indent_static_len then IndentOk (len + 1)
  else IndentPanic.

(* CssBuf: every open block adds 2 to the indent *)
Definition indent_of_depth (depth : N) : N := 2 * depth.
