(* output/format.rs::Format::get_indent and its callers' indentation arithmetic
   (as of the fix "cap indentation at the length of the static indent string"). *)
From Coq Require Import NArith Bool.
From RV Require Import Gen.PanicSites.
Open Scope N_scope.

Inductive indent_res : Type :=
| IndentOk (len : N)        (* the returned slice has this many bytes *)
| IndentPanic.              (* slice index out of range, or `INDENT.len() - 1` underflows *)

(* `&INDENT[..=len.min(INDENT.len() - 1)]` *)
Definition get_indent (compressed : bool) (len : N) : indent_res :=
  if compressed then IndentOk 0
  else if indent_static_len =? 0 then IndentPanic
  else IndentOk (N.min len (indent_static_len - 1) + 1).

(* CssBuf: every open block adds 2 to the indent *)
Definition indent_of_depth (depth : N) : N := 2 * depth.
