(* C34 model: how a global function name and a module member resolve to a function OBJECT, from the
   tables generated out of rsass/src/sass/functions/**.rs (Gen/Builtins.v).

   static MODULES : url -> Scope, filled by create_module() (def! / def_va! / def_adj!, register(), expose_star()).
   static FUNCTIONS : BTreeMap<Name, Function>, filled in order by
       def!(f, ..)                                       - a fresh Function (GDef)
       global.insert(g, scope.get_lfunction(l))          - a CLONE of scope's function l (GFrom); a clone shares the
                                                           Arc'ed body, FormalArgs and declared position (Builtin: PartialEq
                                                           is Arc::ptr_eq on the body), i.e. it is the same function object;
       a later insert under the same name replaces the earlier one.
   A function object is identified by (scope that defined it, name in that scope). *)
From Coq Require Import String List Bool.
From RV Require Import Gen.Builtins.
Import ListNotations.
Local Open Scope string_scope.

Definition fobj : Type := (string * string)%type.
Definition fobj_eqb (a b : fobj) : bool := String.eqb (fst a) (fst b) && String.eqb (snd a) (snd b).
Definition ofobj_eqb (a b : option fobj) : bool :=
  match a, b with Some x, Some y => fobj_eqb x y | None, None => true | _, _ => false end.

Definition defs_of (tab : list (string * fdef)) (scope : string) : list fdef :=
  map snd (filter (fun e => String.eqb (fst e) scope) tab).
Definition defines (tab : list (string * fdef)) (scope name : string) : bool :=
  existsb (fun d => String.eqb (fst d) name) (defs_of tab scope).
(* the LAST definition under a name wins (BTreeMap insert) *)
Definition last_def (tab : list (string * fdef)) (scope name : string) : option fdef :=
  fold_left (fun acc d => if String.eqb (fst d) name then Some d else acc) (defs_of tab scope) None.

Definition all_scopes : list (string * fdef) := module_defs ++ local_defs.

(* scope.get_lfunction(l): `.unwrap()` - an unknown name is a start-up panic, modelled as None *)
Definition scope_function (scope l : string) : option fobj :=
  if defines all_scopes scope l then Some (scope, l) else None.

Definition lookup_module (url f : string) : option fobj :=
  if defines module_defs url f then Some (url, f) else None.

Fixpoint resolve (evs : list gevent) (g : string) (acc : option fobj) : option fobj :=
  match evs with
  | [] => acc
  | GFrom sc gn ln :: r => resolve r g (if String.eqb gn g then scope_function sc ln else acc)
  | GDef place d :: r => resolve r g (if String.eqb (fst d) g then Some (place, fst d) else acc)
  end.
Definition lookup_global (g : string) : option fobj := resolve global_events g None.

(* formal parameters of the function a global name / a module member is bound to *)
Definition formals_of_obj (o : fobj) : option (list (string * bool) * bool) :=
  match last_def all_scopes (fst o) (snd o) with
  | Some d => Some (snd d)
  | None =>
      fold_left (fun acc e => match e with
                              | GDef place d => if String.eqb place (fst o) && String.eqb (fst d) (snd o) then Some (snd d) else acc
                              | _ => acc end) global_events None
  end.

(* documented pairs whose global name is bound to a separately written ("CSS compatible") function on
   the pinned tree; their agreement is decided by the correspondence check only *)
Definition diverging : list string := ["grayscale"; "invert"; "round"; "abs"].
Definition is_diverging (g : string) : bool := existsb (String.eqb g) diverging.

Definition same_object (g url f : string) : bool :=
  match lookup_global g with
  | Some o => ofobj_eqb (Some o) (lookup_module url f)
  | None => false
  end.
