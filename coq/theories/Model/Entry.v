(* C38 / C40 model: a small interpreter for the entry-point bodies extracted into Gen/Entry.v.

   Library functions and methods are NOT interpreted: `lib name args` is an arbitrary function
   (a Section variable in the proofs), so every statement holds for every behaviour of the library.
   What the interpreter does fix is the control structure of the bodies: sequencing, `let` with
   tuple patterns, `?` (early return of the error), `Ok/Err/Some`, struct literals, field access,
   borrows (identity), `for x in list`, `if let Some(x) = e`, a `&mut self` method call on a variable
   (rebinding the variable), and `stdout().write_all(&v)?` (append v to the output; the write itself
   is assumed to succeed). *)
From Coq Require Import String List Bool.
From RV Require Import Gen.Entry.
Import ListNotations.
Local Open Scope string_scope.

Inductive val : Type :=
| VUnit
| VStr (s : string)
| VAbs (n : nat)                                   (* an opaque value handed in from outside (bytes, path, format ...) *)
| VTuple (l : list val)
| VList (l : list val)
| VSome (v : val) | VNone
| VRec (name : string) (fields : list (string * val))
| VOk (v : val) | VErr (e : val)
| VApp (f : string) (args : list val).             (* used by specifications to name a library result symbolically *)

Inductive outcome (A : Type) : Type :=
| Val (a : A)
| Ret (v : val)          (* early return through `?` *)
| Stuck.                 (* outside the modelled fragment (ill-shaped value) *)
Arguments Val {A} a. Arguments Ret {A} v. Arguments Stuck {A}.

Definition env : Type := list (string * val).
Fixpoint lookup (x : string) (e : env) : option val :=
  match e with
  | [] => None
  | (y, v) :: r => if String.eqb x y then Some v else lookup x r
  end.
(* rebinding replaces the visible binding *)
Fixpoint bind (x : string) (v : val) (e : env) : env :=
  match e with
  | [] => [(x, v)]
  | (y, w) :: r => if String.eqb x y then (y, v) :: r else (y, w) :: bind x v r
  end.
Fixpoint bind_all (xs : list string) (vs : list val) (e : env) : option env :=
  match xs, vs with
  | [], [] => Some e
  | x :: xs', v :: vs' => bind_all xs' vs' (bind x v e)
  | _, _ => None
  end.

Definition state : Type := (env * list val)%type.     (* variables, values written to stdout *)

(* methods taking `&mut self` (Gen/Entry.v records this for push_path) *)
Definition mutating (m : string) : bool := push_path_takes_mut_self && String.eqb m "push_path".

Section Interp.
  Variable lib : string -> list val -> val.

  (* `?`: Ok(v) continues with v; Err(e) returns Err(From::from(e)) from the function *)
  Definition convert_err (e : val) : val := lib "From::from" [e].

  Fixpoint eval (en : env) (e : rexpr) {struct e} : outcome val :=
    let eval_list := fix eval_list (l : list rexpr) : outcome (list val) :=
      match l with
      | [] => Val []
      | a :: r => match eval en a with
                  | Val v => match eval_list r with Val vs => Val (v :: vs) | Ret x => Ret x | Stuck => Stuck end
                  | Ret x => Ret x
                  | Stuck => Stuck
                  end
      end in
    let eval_fields := fix eval_fields (l : list (string * rexpr)) : outcome (list (string * val)) :=
      match l with
      | [] => Val []
      | (n, a) :: r => match eval en a with
                       | Val v => match eval_fields r with Val vs => Val ((n, v) :: vs) | Ret x => Ret x | Stuck => Stuck end
                       | Ret x => Ret x
                       | Stuck => Stuck
                       end
      end in
    match e with
    | RVar x => match lookup x en with Some v => Val v | None => Stuck end
    | RConst p => Val (lib p [])
    | RStr s => Val (VStr s)
    | RUnit => Val VUnit
    | RField a f =>
        match eval en a with
        | Val (VRec _ fs) => match lookup f fs with Some v => Val v | None => Stuck end
        | Val v => Val (lib ("." ++ f) [v])
        | o => o
        end
    | RCall f args =>
        match eval_list args with
        | Val vs =>
            if String.eqb f "Ok" then match vs with [v] => Val (VOk v) | _ => Stuck end
            else if String.eqb f "Err" then match vs with [v] => Val (VErr v) | _ => Stuck end
            else if String.eqb f "Some" then match vs with [v] => Val (VSome v) | _ => Stuck end
            else Val (lib f vs)
        | Ret x => Ret x
        | Stuck => Stuck
        end
    | RMeth r m args =>
        match eval en r with
        | Val rv => match eval_list args with
                    | Val vs => Val (lib m (rv :: vs))
                    | Ret x => Ret x
                    | Stuck => Stuck
                    end
        | o => o
        end
    | RTry a =>
        match eval en a with
        | Val (VOk v) => Val v
        | Val (VErr x) => Ret (VErr (convert_err x))
        | Val _ => Stuck
        | o => o
        end
    | RRef a => eval en a
    | RTuple l => match eval_list l with Val vs => Val (VTuple vs) | Ret x => Ret x | Stuck => Stuck end
    | RStruct n fs => match eval_fields fs with Val vs => Val (VRec n vs) | Ret x => Ret x | Stuck => Stuck end
    end.

  (* statements: the early return keeps what was written to stdout before it *)
  Inductive xout : Type :=
  | XVal (st : state)
  | XRet (v : val) (out : list val)
  | XStuck.

  Definition lift (st : state) (o : outcome val) (k : val -> xout) : xout :=
    match o with
    | Val v => k v
    | Ret r => XRet r (snd st)
    | Stuck => XStuck
    end.

  Fixpoint for_loop (run_body : state -> xout) (x : string) (vs : list val) (st : state) : xout :=
    match vs with
    | [] => XVal st
    | v :: r => match run_body (bind x v (fst st), snd st) with
                | XVal st' => for_loop run_body x r st'
                | o => o
                end
    end.

  Definition is_stdout_write (e : rexpr) : option rexpr :=
    match e with
    | RTry (RMeth (RCall "stdout" []) "write_all" [a]) => Some a
    | _ => None
    end.
  Definition mut_target (e : rexpr) : option string :=
    match e with
    | RMeth (RVar x) m _ => if mutating m then Some x else None
    | _ => None
    end.

  Fixpoint exec (s : rstmt) (st : state) {struct s} : xout :=
    let exec_list := fix exec_list (l : list rstmt) (st : state) : xout :=
      match l with
      | [] => XVal st
      | s' :: r => match exec s' st with XVal st' => exec_list r st' | o => o end
      end in
    match s with
    | SLet pat e =>
        lift st (eval (fst st) e) (fun v =>
          match pat with
          | [x] => XVal (bind x v (fst st), snd st)
          | _ => match v with
                 | VTuple vs => match bind_all pat vs (fst st) with Some en' => XVal (en', snd st) | None => XStuck end
                 | _ => XStuck
                 end
          end)
    | SExpr e =>
        match is_stdout_write e with
        | Some a => lift st (eval (fst st) a) (fun v => XVal (fst st, (snd st ++ [v])%list))
        | None =>
            lift st (eval (fst st) e) (fun v =>
              match mut_target e with
              | Some x => XVal (bind x v (fst st), snd st)          (* x := m(x, args) *)
              | None => XVal st
              end)
        end
    | SFor x it body =>
        lift st (eval (fst st) it) (fun v =>
          match v with
          | VList vs => for_loop (exec_list body) x vs st
          | _ => XStuck
          end)
    | SIfLetSome x e body =>
        lift st (eval (fst st) e) (fun v =>
          match v with
          | VSome w => exec_list body (bind x w (fst st), snd st)
          | VNone => XVal st
          | _ => XStuck
          end)
    end.

  Fixpoint exec_list (l : list rstmt) (st : state) : xout :=
    match l with
    | [] => XVal st
    | s :: r => match exec s st with XVal st' => exec_list r st' | o => o end
    end.

  (* a function body: Some (returned value, values written to stdout); None = outside the fragment *)
  Definition run_body (b : rbody) (params : list string) (args : list val) : option (val * list val) :=
    match bind_all params args [] with
    | None => None
    | Some en =>
        match exec_list (fst b) (en, []) with
        | XVal st =>
            match snd b with
            | Some e => match eval (fst st) e with
                        | Val v => Some (v, snd st)
                        | Ret v => Some (v, snd st)
                        | Stuck => None
                        end
            | None => Some (VUnit, snd st)
            end
        | XRet v out => Some (v, out)
        | XStuck => None
        end
    end.
End Interp.
