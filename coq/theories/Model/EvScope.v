(* Evaluator layer, scoping: a small statement language (declarations with
   !default / !global, reads, blocks of every scope-relevant kind) and the
   interpreter that mirrors rsass: variablescope.rs (Scope::set_variable,
   define, define_global, get_or_none, store/restore_local_values) and the
   scope creation of output/transform.rs handle_item
   (Rule, AtMedia -> sub scope; IfStatement, Each -> same scope; For -> sub
   scope per iteration; While -> one sub scope; MixinCall -> argument scope
   under the definition scope). *)
From Coq Require Import List ZArith Bool.
From RV Require Import Spec.SassFlow.
Import ListNotations.
Local Open Scope Z_scope.

Definition var := nat.
Inductive sval : Type := SV (z : Z) | SNull.

(* expressions are total: `if(variable-exists(x), if($x == null, 0, $x), 0) + k` *)
Inductive expr : Type :=
| EInt (z : Z)
| ENull
| EVarPlus (x : var) (k : Z).

Inductive bkind : Type := KRule | KMedia.

Inductive stmt : Type :=
| SSet (x : var) (e : expr) (dflt glob : bool)       (* $x: e [!default] [!global] *)
| SRead (id : nat) (x : var)                         (* q { r<id>: if(variable-exists(x), inspect($x), undef) } *)
| SBlock (k : bkind) (body : list stmt)
| SIf (c : expr) (thn els : list stmt)               (* @if (c) != 0 { } @else { } *)
| SEach (x : var) (items : list Z) (body : list stmt)
| SFor (x : var) (a b : Z) (incl : bool) (body : list stmt)
| SWhile (n : nat) (body : list stmt)                (* n rounds, driven by a private global counter *)
| SMixin (params : list (var * expr)) (body : list stmt).  (* top-level @mixin, @include here *)

(* ---- one scope's variable map (BTreeMap<Name, Value>) ---- *)
Definition frame := list (var * sval).

Fixpoint f_get (f : frame) (x : var) : option sval :=
  match f with
  | [] => None
  | (y, v) :: r => if Nat.eqb x y then Some v else f_get r x
  end.
Fixpoint f_set (f : frame) (x : var) (v : sval) : frame :=
  match f with
  | [] => [(x, v)]
  | (y, w) :: r => if Nat.eqb x y then (y, v) :: r else (y, w) :: f_set r x v
  end.
Definition f_remove (f : frame) (x : var) : frame :=
  filter (fun p => negb (Nat.eqb x (fst p))) f.

(* ---- the scope chain: local scopes innermost first, then the global scope ---- *)
Record state := mkSt { locals : list frame; global : frame }.

(* Scope::get_or_none through the parent chain *)
Fixpoint chain_get (l : list frame) (x : var) : option sval :=
  match l with
  | [] => None
  | f :: r => match f_get f x with Some v => Some v | None => chain_get r x end
  end.
Definition lookup (st : state) (x : var) : option sval :=
  match chain_get (locals st) x with Some v => Some v | None => f_get (global st) x end.

(* self.variables.insert on the current scope *)
Definition set_current (st : state) (x : var) (v : sval) : state :=
  match locals st with
  | [] => mkSt [] (f_set (global st) x v)
  | f :: r => mkSt (f_set f x v :: r) (global st)
  end.
(* Scope::define_global *)
Definition set_global (st : state) (x : var) (v : sval) : state :=
  mkSt (locals st) (f_set (global st) x v).

(* Scope::set_variable (no module path) *)
Definition set_variable (st : state) (x : var) (v : sval) (dflt glob : bool) : state :=
  if dflt && match lookup st x with Some (SV _) => true | _ => false end then st
  else if glob then set_global st x v
  else set_current st x v.

Definition eval_expr (st : state) (e : expr) : sval :=
  match e with
  | EInt z => SV z
  | ENull => SNull
  | EVarPlus x k => match lookup st x with Some (SV z) => SV (z + k) | _ => SV k end
  end.
Definition truthy_nz (v : sval) : bool := match v with SV 0 => false | _ => true end.

Definition push (st : state) (f : frame) : state := mkSt (f :: locals st) (global st).
Definition pop (st : state) : state := mkSt (tl (locals st)) (global st).

Definition cur_get (st : state) (x : var) : option sval :=
  match locals st with [] => f_get (global st) x | f :: _ => f_get f x end.
(* restore_local_values for one name *)
Definition cur_restore (st : state) (x : var) (old : option sval) : state :=
  match old with
  | Some v => set_current st x v
  | None => match locals st with
            | [] => mkSt [] (f_remove (global st) x)
            | f :: r => mkSt (f_remove f x :: r) (global st)
            end
  end.

Definition output := list (nat * option sval).     (* read id, value or undefined *)

Fixpoint repeat_fn {A} (n : nat) (f : A -> A) (a : A) : A :=
  match n with O => a | S k => repeat_fn k f (f a) end.

(* handle_item / handle_body *)
Fixpoint exec (s : stmt) (so : state * output) {struct s} : state * output :=
  let exec_list := fix exec_list (l : list stmt) (so : state * output) {struct l} : state * output :=
    match l with
    | [] => so
    | s :: r => exec_list r (exec s so)
    end in
  let (st, out) := so in
  match s with
  | SSet x e d g => (set_variable st x (eval_expr st e) d g, out)
  | SRead id x => (st, out ++ [(id, lookup st x)])
  | SBlock _ body =>
      let (st', out') := exec_list body (push st [], out) in (pop st', out')
  | SIf c thn els =>
      exec_list (if truthy_nz (eval_expr st c) then thn else els) (st, out)
  | SEach x items body =>
      let saved := cur_get st x in
      let (st', out') :=
        fold_left (fun so i => exec_list body (set_current (fst so) x (SV i), snd so)) items (st, out) in
      (cur_restore st' x saved, out')
  | SFor x a b incl body =>
      fold_left (fun so i =>
                   let (st', out') := exec_list body (push (fst so) [(x, SV i)], snd so) in
                   (pop st', out'))
                (spec_range a b incl) (st, out)
  | SWhile n body =>
      let (st', out') := repeat_fn n (exec_list body) (push st [], out) in (pop st', out')
  | SMixin params body =>
      let args := map (fun p => (fst p, eval_expr st (snd p))) params in
      let argscope := fold_left (fun f p => f_set f (fst p) (snd p)) args [] in
      (* FormalArgs::eval's argument scope; the empty sub_selectors scope between it and the
         definition scope never holds a variable and is left out *)
      let (st', out') := exec_list body (mkSt [argscope] (global st), out) in
      (mkSt (locals st) (global st'), out')
  end.

Fixpoint exec_list (l : list stmt) (so : state * output) : state * output :=
  match l with
  | [] => so
  | s :: r => exec_list r (exec s so)
  end.

Definition run_prog (p : list stmt) : output := snd (exec_list p (mkSt [] [], [])).
