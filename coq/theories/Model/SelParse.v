(* Name-level part of the selector parser: parser/css/strings.rs css_string_nohash with
   selector_plain_part, escaped_char (hex_number / take_char), normalized_first_escaped_char and
   normalized_escaped_char.  Input and output are UTF-8 bytes.  Raw non-ASCII characters are taken to be
   alphanumeric (char::is_alphanumeric needs the Unicode tables; the generators only use letters). *)
From Coq Require Import List NArith Bool.
From RV Require Import Base.Text Model.Sel.
Import ListNotations.
Local Open Scope N_scope.
Local Open Scope list_scope.

Definition is_hex (c : N) : bool :=
  is_ascii_digit c || ((97 <=? c) && (c <=? 102)) || ((65 <=? c) && (c <=? 70)).
Definition hex_val (c : N) : N :=
  if is_ascii_digit c then c - 48 else if (97 <=? c) then c - 87 else c - 55.

(* up to `n` hex digits *)
Fixpoint take_hex (n : nat) (s : text) (acc : N) (cnt : nat) : N * nat * text :=
  match n, s with
  | S n', c :: r => if is_hex c then take_hex n' r (acc * 16 + hex_val c) (S cnt) else (acc, cnt, s)
  | _, _ => (acc, cnt, s)
  end.

Definition valid_scalar (c : N) : bool := (c <=? 1114111) && negb ((55296 <=? c) && (c <=? 57343)).

(* take_char: one UTF-8 encoded character *)
Definition take_char (s : text) : option (N * text) :=
  match s with
  | [] => None
  | b0 :: r =>
      if b0 <? 128 then Some (b0, r)
      else if (192 <=? b0) && (b0 <? 224) then
        match r with b1 :: r' => Some ((b0 - 192) * 64 + (b1 - 128), r') | _ => None end
      else if (224 <=? b0) && (b0 <? 240) then
        match r with b1 :: b2 :: r' => Some ((b0 - 224) * 4096 + (b1 - 128) * 64 + (b2 - 128), r') | _ => None end
      else if (240 <=? b0) && (b0 <? 248) then
        match r with
        | b1 :: b2 :: b3 :: r' => Some ((b0 - 240) * 262144 + (b1 - 128) * 4096 + (b2 - 128) * 64 + (b3 - 128), r')
        | _ => None
        end
      else None
  end.

(* escaped_char, after the backslash *)
Definition escaped_char (s : text) : option (N * text) :=
  match take_hex 6 s 0 0 with
  | (code, S _, rest) =>
      if valid_scalar code then Some (code, match rest with 32 :: r => r | _ => rest end)
      else take_char s
  | (_, O, _) => take_char s
  end.

Definition is_alpha (c : N) : bool := is_ascii_lower c || is_ascii_upper c.      (* below U+00A1 *)
Definition is_control (c : N) : bool := (c <? 32) || ((127 <=? c) && (c <? 160)).

Definition norm_first (c : N) : text :=
  if is_alpha c || (161 <=? c) then utf8_encode1 c
  else if negb (is_control c) && negb (is_ascii_digit c) && negb (c =? 10) && negb (c =? 9) then 92 :: utf8_encode1 c
  else 92 :: hex_of_N c ++ [32].
Definition norm_next (c : N) : text :=
  if is_alpha c || is_ascii_digit c || (c =? 45) || (161 <=? c) then utf8_encode1 c
  else if negb (is_control c) && negb (c =? 10) && negb (c =? 9) then 92 :: utf8_encode1 c
  else 92 :: hex_of_N c ++ [32].

(* selector_plain_part accepts alphanumerics, `-`, `_` (raw bytes >= 128: see the note above) *)
Definition plain_byte (c : N) : bool :=
  is_ascii_lower c || is_ascii_upper c || is_ascii_digit c || (c =? 45) || (c =? 95) || (128 <=? c).

(* css_string_nohash on the whole input: None = the text is not (entirely) a name *)
Fixpoint norm_name_f (fuel : nat) (first : bool) (s : text) : option text :=
  match fuel with
  | O => None
  | S f =>
      match s with
      | [] => if first then None else Some []
      | c :: r =>
          if c =? 92 then
            match escaped_char r with
            | Some (e, rest) =>
                match norm_name_f f false rest with
                | Some t => Some ((if first then norm_first e else norm_next e) ++ t)
                | None => None
                end
            | None => None
            end
          else if plain_byte c then
            match norm_name_f f false r with Some t => Some (c :: t) | None => None end
          else None
      end
  end.
Definition norm_name (s : text) : option text := norm_name_f (S (length s)) true s.

(* name_opt_ns: `*` or a name, optionally with a namespace part; the parts are normalised separately *)
Definition norm_part (s : text) : option text :=
  match s with [42] => Some [42] | _ => norm_name s end.
Fixpoint split_bar (s acc : text) : option (text * text) :=
  match s with
  | [] => None
  | 92 :: c :: r => split_bar r (c :: 92 :: acc)
  | 124 :: r => Some (rev acc, r)
  | c :: r => split_bar r (c :: acc)
  end.
Definition norm_elem (s : text) : option text :=
  match split_bar s [] with
  | Some ([], n) => match norm_part n with Some n' => Some (124 :: n') | None => None end
  | Some (ns, n) =>
      match norm_part ns, norm_part n with
      | Some a, Some b => Some (a ++ 124 :: b)
      | _, _ => None
      end
  | None => norm_part s
  end.

(* ---- the structure with source spellings -> the parsed structure ---- *)
Section OptList.
  Context {A B : Type} (f : A -> option B).
  Fixpoint omap (l : list A) : option (list B) :=
    match l with
    | [] => Some []
    | x :: r => match f x, omap r with Some y, Some t => Some (y :: t) | _, _ => None end
    end.
End OptList.

Definition norm_base (b : cbase) : option cbase :=
  match (match b_elem b with Some e => option_map Some (norm_elem e) | None => Some None end),
        omap norm_name (b_phs b), omap norm_name (b_classes b),
        (match b_id b with Some i => option_map Some (norm_name i) | None => Some None end),
        omap (fun a => match norm_elem (a_name a) with
                       | Some n => Some (mkAttr n (a_op a) (a_val a) (a_quotes a) (a_mod a))
                       | None => None
                       end) (b_attrs b) with
  | Some e, Some p, Some c, Some i, Some a => Some (mkBase (b_backref b) e p c i a)
  | _, _, _, _, _ => None
  end.

Fixpoint norm_sel (s : sel) : option sel :=
  match s with
  | Sel rel c =>
      match (match rel with
             | Some (k, r) => match norm_sel r with Some r' => Some (Some (k, r')) | None => None end
             | None => Some None
             end), norm_comp c with
      | Some rel', Some c' => Some (Sel rel' c')
      | _, _ => None
      end
  end
with norm_comp (c : compound) : option compound :=
  match c with
  | Comp b ps =>
      match norm_base b, omap norm_pseudo ps with
      | Some b', Some ps' => Some (Comp b' ps')
      | _, _ => None
      end
  end
with norm_pseudo (p : pseudo) : option pseudo :=
  match p with
  | Pseudo n e a =>
      match norm_name n, (match a with
                          | ArgSel l => option_map ArgSel (omap norm_sel l)
                          | _ => Some a
                          end) with
      | Some n', Some a' => Some (Pseudo n' e a')
      | _, _ => None
      end
  end.
Definition norm_sels (l : sels) : option sels := omap norm_sel l.
