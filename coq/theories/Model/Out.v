(* Model of the CSS writer of rsass: output/cssbuf.rs (CssBuf), output/format.rs
   (get_indent), css/{item,rule,atrule,mediarule,comment}.rs (the `write`
   methods) and output/cssdata.rs (CssData::into_buffer).

   The CSS tree carries leaf texts (selector, property name, formatted value,
   at-rule arguments, comment text) as opaque byte strings; a `leaf` has the two
   renderings the value formatter gives in expanded and compressed style.
   The buffer is kept REVERSED (head = last byte written) because the code
   inspects and pops the end of the buffer.

   Not modelled: `@function` items (css/function.rs) and placeholder removal
   (`no_placeholder`, selectors here have no placeholders). *)
From Coq Require Import List NArith Bool Arith.
From RV Require Import Base.Text.
Import ListNotations.
Local Open Scope N_scope.

Definition bytes := list N.
Inductive style := Expanded | Compressed.
Definition is_compressed (s : style) : bool := match s with Compressed => true | _ => false end.

Record leaf := mkLeaf { l_exp : bytes; l_comp : bytes }.
Definition leaf_of (s : style) (l : leaf) : bytes :=
  match s with Expanded => l_exp l | Compressed => l_comp l end.
Definition same_leaf (x : bytes) : leaf := mkLeaf x x.

(* css/mediarule.rs MediaArgs *)
Inductive margs :=
| MName (n : bytes)
| MCond (c : bytes) (v : leaf)
| MRange (l : list (bytes * leaf))      (* (operator text, value); the first operator is not printed *)
| MParen (a : margs)
| MBracket (a : margs)
| MUnary (op : bytes) (a : margs)
| MComma (l : list margs)
| MAnd (l : list margs)
| MOr (l : list margs).

(* css/item.rs Item, css/rule.rs BodyItem, css/atrule.rs AtRuleBodyItem share their writers *)
Inductive item :=
| IComment (t : bytes)
| IImport (name : bytes) (args : option leaf)
| IProp (name : bytes) (v : leaf)
| ICustom (name : bytes) (v : bytes) (quoted : bool)
| IRule (sels : list leaf) (body : list item)
| IMedia (a : margs) (body : list item)
| IAt (name : bytes) (args : option leaf) (body : option (list item))
| ISep.

(* ---- CssBuf ---- *)
Definition buf := list N.
Definition add (x : bytes) (b : buf) : buf := rev_append x b.
Definition add_one (s : style) (normal compressed : bytes) (b : buf) : buf :=
  add (if is_compressed s then compressed else normal) b.
Definition head_is (c : N) (b : buf) : bool := match b with x :: _ => x =? c | [] => false end.
Definition pop_if (c : N) (b : buf) : buf := if head_is c b then tl b else b.
Definition pop_nl (b : buf) : buf := pop_if 10 b.
Definition spaces (n : nat) : bytes := repeat 32 n.
(* Format::get_indent: newline + len spaces, capped at the 80 spaces of the static
   INDENT string (commit f9a5d45); nothing when compressed *)
Definition indent_cap : nat := 80.
Definition get_indent (s : style) (len : nat) : bytes :=
  if is_compressed s then [] else 10 :: spaces (Nat.min len indent_cap).
Definition do_indent (s : style) (ind : nat) (b : buf) : buf := add (get_indent s ind) b.
Definition do_indent_no_nl (s : style) (ind : nat) (b : buf) : buf :=
  if is_compressed s then b else add (spaces (Nat.min ind indent_cap)) b.
Definition start_block (s : style) (b : buf) : buf := add_one s [32;123;10] [123] b.
(* `ind` is the indent OUTSIDE the block (the code decrements before using it) *)
Definition end_block (s : style) (ind : nat) (b : buf) : buf :=
  let b1 := pop_nl b in
  let b2 := if is_compressed s then pop_if 59 b1 else b1 in
  let b3 := if head_is 123 b2 then b2 else do_indent s ind b2 in
  add_one s [125;10] [125] b3.
Definition opt_nl (s : style) (b : buf) : buf :=
  if is_compressed s then b else
  match b with
  | [] => b
  | _ => if head_is 10 b && head_is 10 (tl b) then b else 10 :: b
  end.

(* ---- str helpers used by Comment::write ---- *)
(* str::lines(): split at \n, a final empty piece is not a line, one trailing \r is stripped *)
Definition strip_cr (l : bytes) : bytes :=
  match rev l with 13 :: r => rev r | _ => l end.
Fixpoint lines_aux (cur : bytes) (t : bytes) : list bytes :=
  match t with
  | [] => match cur with [] => [] | _ => [strip_cr (rev cur)] end
  | c :: r => if c =? 10 then strip_cr (rev cur) :: lines_aux [] r else lines_aux (c :: cur) r
  end.
Definition lines (t : bytes) : list bytes := lines_aux [] t.

Fixpoint count_sp (l : bytes) : nat :=
  match l with 32 :: r => S (count_sp r) | _ => 0%nat end.
Definition line_indent (l : bytes) : nat :=
  let i := count_sp l in
  match nth_error l i with
  | Some c => if c =? 42 then i else (i - 2)%nat
  | None => i
  end.
Fixpoint min_list (l : list nat) : option nat :=
  match l with
  | [] => None
  | x :: r => match min_list r with None => Some x | Some m => Some (Nat.min x m) end
  end.

Fixpoint is_prefix (p t : bytes) : bool :=
  match p, t with
  | [], _ => true
  | a :: p', b :: t' => (a =? b) && is_prefix p' t'
  | _ :: _, [] => false
  end.
(* str::replace with a non-empty pattern: left to right, non overlapping *)
Fixpoint replace_go (p w : bytes) (skip : nat) (t : bytes) : bytes :=
  match t with
  | [] => []
  | c :: r =>
      match skip with
      | S k => replace_go p w k r
      | O => if is_prefix p t then w ++ replace_go p w (length p - 1) r
             else c :: replace_go p w 0 r
      end
  end.
(* str::replace with the empty pattern: `w` before every character and at the end *)
Definition is_char_start (c : N) : bool := negb ((128 <=? c) && (c <? 192)).
Fixpoint replace_empty (w : bytes) (t : bytes) : bytes :=
  match t with
  | [] => w
  | c :: r => if is_char_start c then w ++ c :: replace_empty w r else c :: replace_empty w r
  end.
Definition str_replace (p w t : bytes) : bytes :=
  match p with [] => replace_empty w t | _ => replace_go p w 0 t end.

(* css/comment.rs Comment::write; `ind` = buf.indent_level() *)
(* the text between the comment delimiters, after re-indentation *)
Definition comment_text (s : style) (ind : nat) (t : bytes) : bytes :=
  let existing := match min_list (map line_indent (tl (lines t))) with
                  | Some m => m | None => ind end in
  match Nat.compare ind existing with
  | Gt => str_replace [10] (get_indent s (ind - existing)) t
  | Lt => str_replace (get_indent s (existing - ind - 1)) [10] t
  | Eq => t
  end.

Definition write_comment (s : style) (ind : nat) (t : bytes) (b : buf) : buf :=
  if head_is 35 t then add_one s [10] [] b
  else if is_compressed s then
    (* rsass b24aa61: no re-indentation when compressed, the text is written as it is *)
    add [42;47] (add t (add [47;42] b))
  else add_one s [42;47;10] [42;47]
         (add (comment_text s ind t) (add [47;42] (do_indent_no_nl s ind b))).

Definition nl_to_space (v : bytes) : bytes := map (fun c => if c =? 10 then 32 else c) v.

Definition write_prop (s : style) (ind : nat) (n : bytes) (v : leaf) (b : buf) : buf :=
  add_one s [59;10] [59]
    (add (nl_to_space (leaf_of s v))
       (add_one s [58;32] [58] (add n (do_indent_no_nl s ind b)))).

Definition write_custom (s : style) (ind : nat) (n v : bytes) (quoted : bool) (b : buf) : buf :=
  let b1 := add [58] (add n (do_indent_no_nl s ind b)) in
  let b2 := if quoted && negb (is_compressed s) then add [32] b1 else b1 in
  add_one s [59;10] [59] (add v b2).

Definition write_import (s : style) (ind : nat) (n : bytes) (a : option leaf) (b : buf) : buf :=
  let b1 := add n (add [64;105;109;112;111;114;116;32] (do_indent_no_nl s ind b)) in
  let b2 := match a with Some l => add (leaf_of s l) (add [32] b1) | None => b1 end in
  add_one s [59;10] [59] b2.

Definition txt_and : bytes := [32;97;110;100;32].
Definition txt_or : bytes := [32;111;114;32].

Fixpoint write_margs (s : style) (a : margs) (b : buf) {struct a} : buf :=
  let sep_list := fix sep_list (sep : bytes) (l : list margs) (first : bool) (b : buf) {struct l} : buf :=
    match l with
    | [] => b
    | x :: r => sep_list sep r false (write_margs s x (if first then b else add sep b))
    end in
  match a with
  | MName n => add n b
  | MUnary op x => write_margs s x (add [32] (add op b))
  | MCond c v => add [41] (add (leaf_of s v) (add [58;32] (add c (add [40] b))))
  | MComma l => sep_list (if is_compressed s then [44] else [44;32]) l true b
  | MAnd l => sep_list txt_and l true b
  | MOr l => sep_list txt_or l true b
  | MParen x => add [41] (write_margs s x (add [40] b))
  | MBracket x => add [93] (write_margs s x (add [91] b))
  | MRange l =>
      add [41]
        ((fix go (l : list (bytes * leaf)) (first : bool) (b : buf) : buf :=
            match l with
            | [] => b
            | (op, v) :: r =>
                go r false (add (leaf_of s v) (if first then b else add [32] (add op (add [32] b))))
            end) l true (add [40] b))
  end.

Fixpoint write_sels (s : style) (l : list leaf) (first : bool) (b : buf) : buf :=
  match l with
  | [] => b
  | x :: r => write_sels s r false
                (add (leaf_of s x) (if first then b else add_one s [44;32] [44] b))
  end.

Definition sels_empty (s : style) (l : list leaf) : bool :=
  forallb (fun x => match leaf_of s x with [] => true | _ => false end) l
  && match l with [] | [_] => true | _ => false end.

Fixpoint write_item (s : style) (ind : nat) (it : item) (b : buf) {struct it} : buf :=
  let write_items := fix write_items (l : list item) (b : buf) {struct l} : buf :=
    match l with
    | [] => b
    | x :: r => write_items r (write_item s (ind + 2)%nat x b)
    end in
  match it with
  | IComment t => write_comment s ind t b
  | IImport n a => write_import s ind n a b
  | IProp n v => write_prop s ind n v b
  | ICustom n v q => write_custom s ind n v q b
  | IRule sels body =>
      match body with
      | [] => b
      | _ =>
        let b1 := do_indent_no_nl s ind b in
        let b2 := if sels_empty s sels then add [42] b1 else write_sels s sels true b1 in
        end_block s ind (write_items body (start_block s b2))
      end
  | IMedia a body =>
      match body with
      | [] => b
      | _ =>
        let b1 := write_margs s a (add [64;109;101;100;105;97;32] (do_indent_no_nl s ind b)) in
        end_block s ind (write_items body (start_block s b1))
      end
  | IAt n a body =>
      let b1 := add n (add [64] (do_indent_no_nl s ind b)) in
      let b2 := match a with Some l => add (leaf_of s l) (add [32] b1) | None => b1 end in
      match body with
      | Some [IComment c] =>
          add_one s [32;125;10] [125]
            (pop_nl (write_comment s ind c (add_one s [32;123;32] [123] b2)))
      | Some body => end_block s ind (write_items body (start_block s b2))
      | None => add_one s [59;10] [59] b2
      end
  | ISep => opt_nl s b
  end.

Fixpoint write_items (s : style) (ind : nat) (l : list item) (b : buf) : buf :=
  match l with
  | [] => b
  | x :: r => write_items s ind r (write_item s ind x b)
  end.

(* ---- CssData::into_buffer ---- *)
Definition is_ascii_b (x : list N) : bool := forallb (fun c => c <? 128) x.
Definition charset_mark : bytes :=
  [64;99;104;97;114;115;101;116;32;34;85;84;70;45;56;34;59;10].
Definition bom_mark : bytes := [239;187;191].
Definition mark_of (s : style) : bytes := if is_compressed s then bom_mark else charset_mark.

Fixpoint drop_nl (b : buf) : buf :=
  match b with c :: r => if c =? 10 then drop_nl r else b | [] => b end.

(* on the reversed buffer: the mark goes to the far end *)
Definition finish (s : style) (b : buf) : buf :=
  let b1 := if is_ascii_b b then b else b ++ rev (mark_of s) in
  let b2 := drop_nl b1 in
  let b3 := if is_compressed s then pop_if 59 b2 else b2 in
  match b3 with [] => [] | _ => 10 :: b3 end.

Record cssdata := mkData { d_imports : list item; d_body : list item }.

Definition body_buf (s : style) (d : cssdata) : buf :=
  write_items s 0 (d_body d) (write_items s 0 (d_imports d) []).
Definition into_buffer (s : style) (d : cssdata) : bytes := rev (finish s (body_buf s d)).

(* nesting depth, for the domain restriction of the writer model *)
Fixpoint depth (it : item) : nat :=
  let depths := fix depths (l : list item) : nat :=
    match l with [] => 0%nat | x :: r => Nat.max (depth x) (depths r) end in
  match it with
  | IRule _ body | IMedia _ body | IAt _ _ (Some body) => S (depths body)
  | _ => 0%nat
  end.
